// upd_public.cpp -- the UPD component WITHOUT reaching into Solver's private members: the state of the case is installed through the
// realization_start hook (the hook receives references to the solver's working matrices; they are overwritten in place), one sweep
// is made by the PUBLIC entry point (r = 1, max_nof_iterations = 1) and the state after it and its likelihood are read from the
// iteration_end hook.  Used when harness/comp_upd.cpp does not compile against the tree (a private member was renamed): it
// delivers the composed sweep (`sweep_u`, `sweep_v`, `sweep_w`, `sweep_lik`), not the three update functions one by one.
#include "common.hpp"

namespace vh
{
using namespace multitensor;

template <class direction_t, class affinity_t, class init_t, class weight_t>
static void upd_public_case(Toks &tk, std::ostream &os, const std::string &id, size_t K, size_t L, size_t nrec)
{
    constexpr bool directed = std::is_same_v<direction_t, boost::bidirectionalS>;
    constexpr bool assort = std::is_same_v<affinity_t, tensor::DiagonalTensor<double>>;
    std::vector<std::string> starts, ends, labels;
    std::vector<weight_t> weights;
    for (size_t i = 0; i < nrec; i++)
    {
        starts.push_back(tk.tok());
        ends.push_back(tk.tok());
        for (size_t a = 0; a < L; a++)
            weights.push_back(parse_as<weight_t>(tk.tok()));
    }
    const size_t N = utils::get_num_vertices(starts, ends);
    std::vector<double> u0(N * K), v0(directed ? N * K : 0);
    for (auto &x : u0)
        x = tk.flt();
    for (auto &x : v0)
        x = tk.flt();
    const size_t wn = assort ? K * L : K * K * L;
    std::vector<double> w0(wn);
    for (auto &x : w0)
        x = tk.flt();
    os << id << " mode public-only\n";
    os << id << " dims " << N << "\n";
    auto &H = verif::hooks();
    H = verif::Hooks{};
    H.realization_start = [&](size_t, const tensor::Matrix<double> &su, const tensor::Matrix<double> *sv, const std::vector<double> &sw) {
        auto &mu = const_cast<tensor::Matrix<double> &>(su);
        for (size_t i = 0; i < N; i++)
            for (size_t k = 0; k < K; k++)
                mu(i, k) = u0[i * K + k];
        if (sv)
        {
            auto &mv = const_cast<tensor::Matrix<double> &>(*sv);
            for (size_t i = 0; i < N; i++)
                for (size_t k = 0; k < K; k++)
                    mv(i, k) = v0[i * K + k];
        }
        auto &mw = const_cast<std::vector<double> &>(sw);
        for (size_t p = 0; p < mw.size() && p < w0.size(); p++)
            mw[p] = w0[p];
    };
    bool seen = false;
    H.iteration_end = [&](size_t, size_t, const tensor::Matrix<double> &su, const tensor::Matrix<double> *sv, const std::vector<double> &sw,
                          double L2, size_t, int) {
        seen = true;
        os << id << " sweep_u";
        for (size_t i = 0; i < N; i++)
            for (size_t k = 0; k < K; k++)
                os << " " << hx(su(i, k));
        os << "\n";
        if (sv)
        {
            os << id << " sweep_v";
            for (size_t i = 0; i < N; i++)
                for (size_t k = 0; k < K; k++)
                    os << " " << hx((*sv)(i, k));
            os << "\n";
        }
        os << id << " sweep_w";
        for (double x : sw)
            os << " " << hx(x);
        os << "\n";
        os << id << " sweep_lik " << hx(L2) << "\n";
    };
    tensor::Matrix<double> u(N, K), v;
    if (directed)
        v.resize(N, K);
    std::vector<double> aff(wn, 0.0);
    try
    {
        utils::RandomGenerator<> rng{(std::time_t)1};
        multitensor_factorization<direction_t, affinity_t, init_t>(starts, ends, weights, 1, 1, 1, labels, u, v, aff, rng);
    }
    catch (const std::exception &e)
    {
        os << id << " PUBLIC-ERROR " << error_code(e.what()) << "\n";
    }
    H = verif::Hooks{};
    if (!seen)
        os << id << " PUBLIC-NO-SWEEP\n";
}

template <class weight_t>
static void upd_public_w(Toks &tk, std::ostream &os, const std::string &id, bool directed, bool assort, size_t K, size_t L, size_t nrec)
{
    using namespace boost;
    using namespace multitensor::initialization;
    using Sym = tensor::SymmetricTensor<double>;
    using Dia = tensor::DiagonalTensor<double>;
    if (directed && !assort)
        upd_public_case<bidirectionalS, Sym, init_symmetric_tensor_random, weight_t>(tk, os, id, K, L, nrec);
    else if (directed && assort)
        upd_public_case<bidirectionalS, Dia, init_symmetric_tensor_random, weight_t>(tk, os, id, K, L, nrec);
    else if (!directed && !assort)
        upd_public_case<undirectedS, Sym, init_symmetric_tensor_random, weight_t>(tk, os, id, K, L, nrec);
    else
        upd_public_case<undirectedS, Dia, init_symmetric_tensor_random, weight_t>(tk, os, id, K, L, nrec);
}

void do_upd_public(Toks &tk, std::ostream &os)
{
    std::string id = "U " + tk.tok();
    bool directed = tk.integer() == 1, assort = tk.integer() == 1;
    size_t K = (size_t)tk.integer(), L = (size_t)tk.integer();
    std::string wtype = tk.tok();
    size_t nrec = (size_t)tk.integer();
    if (wtype == "r")
        upd_public_w<double>(tk, os, id, directed, assort, K, L, nrec);
    else
        upd_public_w<long>(tk, os, id, directed, assort, K, L, nrec);
}
} // namespace vh
