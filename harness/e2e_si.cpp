#include "e2e.hpp"
namespace vh {
void do_e2e_si(Toks &tk, std::ostream &os, const std::string &id, bool directed, bool assort, bool from_init)
{ dispatch_e2e<std::string, long>(tk, os, id, directed, assort, from_init); }
}
