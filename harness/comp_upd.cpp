// comp_upd.cpp (UPD: reaches Solver's private update functions) -- one optional component of the correspondence harness (its own translation unit: when it does not compile against the
// tree under test -- e.g. an internal interface it reaches into was renamed -- lib/vf.py links harness/stubs.cpp for it instead and the
// component reports UNAVAILABLE; the other components are not affected)
#include "common.hpp"
#include "app_utils.hpp"

namespace vh
{
using namespace multitensor;
// ------------------------------------------------------------------ UPD
template <class T>
void dump_flat(std::ostream &os, const std::string &id, const char *tag, const T &t)
{
    os << id << " " << tag;
    for (double x : t.get_data())
        os << " " << hx(x);
    os << "\n";
}
inline void dump_rows(std::ostream &os, const std::string &id, const char *tag, const tensor::Matrix<double> &m)
{
    os << id << " " << tag;
    auto d = m.dims();
    for (size_t a = 0; a < std::get<0>(d); a++)
        for (size_t b = 0; b < std::get<1>(d); b++)
            os << " " << hx(m(a, b));
    os << "\n";
}

template <class direction_t, class affinity_t, class weight_t>
void upd_case(Toks &tk, std::ostream &os, const std::string &id, size_t K, size_t L, size_t nrec)
{
    constexpr bool directed = std::is_same_v<direction_t, boost::bidirectionalS>;
    constexpr bool assort = std::is_same_v<affinity_t, tensor::DiagonalTensor<double>>;
    std::vector<std::string> starts, ends;
    std::vector<weight_t> weights;
    for (size_t i = 0; i < nrec; i++)
    {
        starts.push_back(tk.tok());
        ends.push_back(tk.tok());
        for (size_t a = 0; a < L; a++)
            weights.push_back(parse_as<weight_t>(tk.tok()));
    }
    graph::Network<std::string, direction_t> A(starts, ends, weights);
    size_t N = A.num_vertices();
    auto ul = std::make_shared<std::vector<size_t>>();
    auto vl = std::make_shared<std::vector<size_t>>();
    A.extract_vertices_with_edges(ul, vl);
    tensor::Matrix<double> u(N, K), v(N, K);
    for (size_t i = 0; i < N; i++)
        for (size_t k = 0; k < K; k++)
            u(i, k) = tk.flt();
    if (directed)
        for (size_t i = 0; i < N; i++)
            for (size_t k = 0; k < K; k++)
                v(i, k) = tk.flt();
    size_t wn = assort ? K * L : K * K * L;
    std::vector<double> wflat;
    for (size_t i = 0; i < wn; i++)
        wflat.push_back(tk.flt());
    affinity_t w(K, L, wflat);
    os << id << " dims " << N << "\n";
    solver::Solver S(1, 1000, 1000);
    {
        // update_vertices (out-edges) on the input state
        tensor::Matrix<double> uu(u), vv(v);
        if constexpr (directed)
            S.update_vertices<graph::out_edges_target_vertices>(*ul, *vl, A, w, vv, uu);
        else
            S.update_vertices<graph::out_edges_target_vertices>(*ul, *vl, A, w, uu, uu);
        dump_rows(os, id, "u1", uu);
    }
    if constexpr (directed)
    {
        tensor::Matrix<double> uu(u), vv(v);
        if constexpr (assort)
        {
            S.update_vertices<graph::in_edges_source_vertices>(*vl, *ul, A, w, uu, vv);
        }
        else
        {
            tensor::Transpose wT(w);
            S.update_vertices<graph::in_edges_source_vertices>(*vl, *ul, A, wT, uu, vv);
        }
        dump_rows(os, id, "v1", vv);
    }
    {
        affinity_t ww(w);
        if constexpr (directed)
            S.update_affinity(*ul, *vl, A, u, v, ww);
        else
            S.update_affinity(*ul, *vl, A, u, u, ww);
        dump_flat(os, id, "w1", ww);
    }
    {
        double l = directed ? S.calculate_likelyhood(u, v, w, A) : S.calculate_likelyhood(u, u, w, A);
        os << id << " lik " << hx(l) << "\n";
    }
    {
        // one composed call of loop(): u, v(new u), w(new u, new v), then the likelihood (iteration 0)
        tensor::Matrix<double> uu(u), vv(v);
        affinity_t ww(w);
        size_t iteration = 0, coincide = 0;
        double L2 = std::numeric_limits<double>::lowest();
        if constexpr (directed)
            S.loop(*ul, *vl, A, uu, vv, ww, iteration, coincide, L2);
        else
            S.loop(*ul, *vl, A, uu, uu, ww, iteration, coincide, L2);
        dump_rows(os, id, "sweep_u", uu);
        if (directed)
            dump_rows(os, id, "sweep_v", vv);
        dump_flat(os, id, "sweep_w", ww);
        os << id << " sweep_lik " << hx(L2) << "\n";
    }
}

template <class weight_t>
void upd_w(Toks &tk, std::ostream &os, const std::string &id, bool directed, bool assort, size_t K, size_t L, size_t nrec)
{
    using namespace boost;
    using Sym = tensor::SymmetricTensor<double>;
    using Dia = tensor::DiagonalTensor<double>;
    if (directed && !assort)
        upd_case<bidirectionalS, Sym, weight_t>(tk, os, id, K, L, nrec);
    else if (directed && assort)
        upd_case<bidirectionalS, Dia, weight_t>(tk, os, id, K, L, nrec);
    else if (!directed && !assort)
        upd_case<undirectedS, Sym, weight_t>(tk, os, id, K, L, nrec);
    else
        upd_case<undirectedS, Dia, weight_t>(tk, os, id, K, L, nrec);
}

void do_upd(Toks &tk, std::ostream &os)
{
    std::string id = "U " + tk.tok();
    bool directed = tk.integer() == 1, assort = tk.integer() == 1;
    size_t K = (size_t)tk.integer(), L = (size_t)tk.integer();
    std::string wtype = tk.tok();
    size_t nrec = (size_t)tk.integer();
    if (wtype == "r")
        upd_w<double>(tk, os, id, directed, assort, K, L, nrec);
    else
        upd_w<long>(tk, os, id, directed, assort, K, L, nrec);
}

} // namespace vh
