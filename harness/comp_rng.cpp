// comp_rng.cpp (RNG) -- one optional component of the correspondence harness (its own translation unit: when it does not compile against the
// tree under test -- e.g. an internal interface it reaches into was renamed -- lib/vf.py links harness/stubs.cpp for it instead and the
// component reports UNAVAILABLE; the other components are not affected)
#include "common.hpp"
#include "app_utils.hpp"

namespace vh
{
using namespace multitensor;
// ------------------------------------------------------------------ RNG: the reference stream of the library's generator type
void do_rng(Toks &tk, std::ostream &os)
{
    std::string id = "R " + tk.tok();
    long seed = tk.integer();
    size_t n = (size_t)tk.integer();
    utils::RandomGenerator<> g{(std::time_t)seed};
    os << id << " draws";
    for (size_t i = 0; i < n; i++)
        os << " " << hx(g());
    os << "\n";
    // and an independently constructed std engine + distribution
    std::mt19937 e(static_cast<unsigned int>(seed));
    std::uniform_real_distribution<double> d;
    os << id << " std";
    for (size_t i = 0; i < n; i++)
        os << " " << hx(d(e));
    os << "\n";
}
} // namespace vh
