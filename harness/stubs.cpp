// stubs.cpp -- stands in for a component translation unit that does not compile against the tree under test
// (compiled once per failed unit with -DSTUB_<UNIT>).  Every case of the component
// answers `<prefix> <id> UNAVAILABLE <component>`: the checks then know that the correspondence component could not be run.
#include "common.hpp"
namespace vh
{
static void unavailable(Toks &tk, std::ostream &os, const char *prefix, const char *unit)
{
    os << prefix << " " << tk.tok() << " UNAVAILABLE " << unit << "\n";
}
#ifdef STUB_COMP_GRAPH
void do_graph(Toks &tk, std::ostream &os) { unavailable(tk, os, "G", "comp_graph"); }
#endif
#ifdef STUB_COMP_UPD
// the UPD component has a second implementation through the public entry point and the hooks (harness/upd_public.cpp): the composed
// sweep only.  (Toks is layout-compatible with the harness's: same two members.)
void do_upd_public(Toks &tk, std::ostream &os);
void do_upd(Toks &tk, std::ostream &os) { do_upd_public(tk, os); }
#endif
#ifdef STUB_COMP_LAYOUT
void do_layout(Toks &tk, std::ostream &os) { unavailable(tk, os, "L", "comp_layout"); }
void do_resize(Toks &tk, std::ostream &os) { unavailable(tk, os, "Z", "comp_layout"); }
#endif
#ifdef STUB_COMP_FILES
void do_wmem(Toks &tk, std::ostream &os) { unavailable(tk, os, "M", "comp_files"); }
void do_wafv(Toks &tk, std::ostream &os) { unavailable(tk, os, "V", "comp_files"); }
void do_waff(Toks &tk, std::ostream &os) { unavailable(tk, os, "W", "comp_files"); }
void do_parse(Toks &tk, std::ostream &os) { unavailable(tk, os, "P", "comp_files"); }
void do_raff(Toks &tk, std::ostream &os) { unavailable(tk, os, "A", "comp_files"); }
#endif
#ifdef STUB_COMP_SOLVER
void do_srun(Toks &tk, std::ostream &os) { unavailable(tk, os, "S", "comp_solver"); }
#endif
#ifdef STUB_COMP_RNG
void do_rng(Toks &tk, std::ostream &os) { unavailable(tk, os, "R", "comp_rng"); }
#endif
} // namespace vh
