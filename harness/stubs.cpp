// stubs.cpp -- stands in for a component translation unit that does not compile against the tree under test
// (compiled once per failed unit with -DSTUB_<UNIT>; does not include any multitensor header).  Every case of the component
// answers `<prefix> <id> UNAVAILABLE <component>`: the checks then know that the correspondence component could not be run.
#include <ostream>
#include <string>
#include <vector>
#include <stdexcept>
namespace vh
{
struct Toks
{
    std::vector<std::string> t;
    size_t p = 0;
    const std::string &tok()
    {
        if (p >= t.size())
            throw std::runtime_error("harness: out of tokens");
        return t[p++];
    }
};
static void unavailable(Toks &tk, std::ostream &os, const char *prefix, const char *unit)
{
    os << prefix << " " << tk.tok() << " UNAVAILABLE " << unit << "\n";
}
#ifdef STUB_COMP_GRAPH
void do_graph(Toks &tk, std::ostream &os) { unavailable(tk, os, "G", "comp_graph"); }
#endif
#ifdef STUB_COMP_UPD
void do_upd(Toks &tk, std::ostream &os) { unavailable(tk, os, "U", "comp_upd"); }
#endif
#ifdef STUB_COMP_LAYOUT
void do_layout(Toks &tk, std::ostream &os) { unavailable(tk, os, "L", "comp_layout"); }
void do_resize(Toks &tk, std::ostream &os) { unavailable(tk, os, "Z", "comp_layout"); }
#endif
#ifdef STUB_COMP_FILES
void do_wmem(Toks &tk, std::ostream &os) { unavailable(tk, os, "M", "comp_files"); }
void do_wafv(Toks &tk, std::ostream &os) { unavailable(tk, os, "V", "comp_files"); }
void do_waff(Toks &tk, std::ostream &os) { unavailable(tk, os, "W", "comp_files"); }
void do_parse(Toks &tk, std::ostream &os) { unavailable(tk, os, "P", "comp_files"); }
void do_raff(Toks &tk, std::ostream &os) { unavailable(tk, os, "A", "comp_files"); }
#endif
#ifdef STUB_COMP_RNG
void do_rng(Toks &tk, std::ostream &os) { unavailable(tk, os, "R", "comp_rng"); }
#endif
} // namespace vh
