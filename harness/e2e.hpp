// e2e.hpp -- one whole call of multitensor_factorization on a case, for one (label, weight) type pair
#pragma once
#include "common.hpp"

namespace vh
{

template <class direction_t, class affinity_t, class init_t, class vertex_t, class weight_t>
void run_e2e(Toks &tk, std::ostream &os, const std::string &id)
{
    constexpr bool directed = std::is_same_v<direction_t, boost::bidirectionalS>;
    size_t r = (size_t)tk.integer();
    size_t maxit = (size_t)tk.integer();
    size_t nconv = (size_t)tk.integer();
    long seed = tk.integer();
    std::vector<vertex_t> starts, ends, labels;
    std::vector<weight_t> weights;
    std::vector<double> aff;
    size_t n = (size_t)tk.integer();
    for (size_t i = 0; i < n; i++)
        starts.push_back(parse_as<vertex_t>(tk.tok()));
    n = (size_t)tk.integer();
    for (size_t i = 0; i < n; i++)
        ends.push_back(parse_as<vertex_t>(tk.tok()));
    n = (size_t)tk.integer();
    for (size_t i = 0; i < n; i++)
        weights.push_back(parse_as<weight_t>(tk.tok()));
    n = (size_t)tk.integer();
    for (size_t i = 0; i < n; i++)
        aff.push_back(tk.flt());
    size_t ur = (size_t)tk.integer(), uc = (size_t)tk.integer();
    tensor::Matrix<double> u(ur, uc), v;
    for (size_t i = 0; i < ur; i++)
        for (size_t k = 0; k < uc; k++)
            u(i, k) = tk.flt();
    // VERIF_U_TUBES=t: the out-membership container is built as Matrix(rows, cols, t) through the inherited three-argument constructor
    // (right rows and columns, but t tubes: its size is not rows * cols unless t = 1)
    if (const char *ut = std::getenv("VERIF_U_TUBES"))
    {
        if constexpr (std::is_constructible_v<tensor::Matrix<double>, size_t, size_t, size_t>)
        {
            u = tensor::Matrix<double>(ur, uc, (size_t)std::atoi(ut));
            os << id << " @utubes " << std::atoi(ut) << " " << u.size() << "\n";
        }
        else
            os << id << " @utubes unsupported\n";
    }
    size_t vr = (size_t)tk.integer(), vc = (size_t)tk.integer();
    if (vr * vc > 0)
    {
        v.resize(vr, vc);
        for (size_t i = 0; i < vr; i++)
            for (size_t k = 0; k < vc; k++)
                v(i, k) = tk.flt();
    }
    n = (size_t)tk.integer();
    for (size_t i = 0; i < n; i++)
        labels.push_back(parse_as<vertex_t>(tk.tok()));
    size_t nscript = (size_t)tk.integer();
    std::vector<std::vector<double>> script(nscript);
    for (size_t i = 0; i < nscript; i++)
    {
        size_t m = (size_t)tk.integer();
        for (size_t j = 0; j < m; j++)
            script[i].push_back(tk.flt());
    }

    int trace = tk.p < tk.t.size() ? (int)tk.integer() : 0;

    // observers
    std::ostringstream starts_os, extra_os;
    size_t cur_real = 0;
    auto &H = verif::hooks();
    H = verif::Hooks{};
    H.realization_start = [&](size_t i, const tensor::Matrix<double> &su, const tensor::Matrix<double> *sv,
                              const std::vector<double> &sw) {
        cur_real = i;
        starts_os << id << " start " << i << " u :";
        auto d = su.dims();
        for (size_t a = 0; a < std::get<0>(d); a++)
            for (size_t b = 0; b < std::get<1>(d); b++)
                starts_os << " " << hx(su(a, b));
        starts_os << "\n";
        if (sv)
        {
            starts_os << id << " start " << i << " v :";
            auto dv = sv->dims();
            for (size_t a = 0; a < std::get<0>(dv); a++)
                for (size_t b = 0; b < std::get<1>(dv); b++)
                    starts_os << " " << hx((*sv)(a, b));
            starts_os << "\n";
        }
        starts_os << id << " start " << i << " w :";
        for (double x : sw)
            starts_os << " " << hx(x);
        starts_os << "\n";
    };
    H.likelihood_computed = [&](size_t iteration, double &L2) {
        size_t j = iteration / 10;
        if (cur_real < script.size() && j < script[cur_real].size())
            L2 = script[cur_real][j];
    };

    auto dump_state = [&](const char *tag, size_t i, size_t it, const tensor::Matrix<double> &su,
                          const tensor::Matrix<double> *sv, const std::vector<double> &sw) {
        extra_os << id << " " << tag << " " << i << " " << it << " u :";
        auto d = su.dims();
        for (size_t a = 0; a < std::get<0>(d); a++)
            for (size_t b = 0; b < std::get<1>(d); b++)
                extra_os << " " << hx(su(a, b));
        extra_os << "\n";
        if (sv)
        {
            extra_os << id << " " << tag << " " << i << " " << it << " v :";
            auto dv = sv->dims();
            for (size_t a = 0; a < std::get<0>(dv); a++)
                for (size_t b = 0; b < std::get<1>(dv); b++)
                    extra_os << " " << hx((*sv)(a, b));
            extra_os << "\n";
        }
        extra_os << id << " " << tag << " " << i << " " << it << " w :";
        for (double x : sw)
            extra_os << " " << hx(x);
        extra_os << "\n";
    };
    if (trace >= 1)
    {
        H.iteration_end = [&](size_t i, size_t it, const tensor::Matrix<double> &su, const tensor::Matrix<double> *sv,
                              const std::vector<double> &sw, double L2, size_t coincide, int reason) {
            extra_os << id << " @iter " << i << " " << it << " " << coincide << " " << reason << " " << hx(L2) << "\n";
            if (trace >= 2)
                dump_state("@state", i, it, su, sv, sw);
            if (reason != 0)
                dump_state("@final", i, it, su, sv, sw);
        };
        H.realization_end = [&](size_t i, double L2, bool adopted) {
            extra_os << id << " @adopted " << i << " " << (adopted ? 1 : 0) << " " << hx(L2) << "\n";
        };
    }

    utils::Report rep;
    bool ok = true;
    int code = 0;
    // VERIF_REUSE_GEN: the caller's named generator object is handed to a second, otherwise identical call
    const bool reuse_gen = std::getenv("VERIF_REUSE_GEN") != nullptr;
    auto labels_in = labels;
    auto u_in = u;
    auto v_in = v;
    auto aff_in = aff;
    try
    {
        utils::RandomGenerator<> rng{(std::time_t)seed};
        rep = multitensor_factorization<direction_t, affinity_t, init_t>(
            starts, ends, weights, r, maxit, nconv, labels, u, v, aff, rng);
        if (reuse_gen)
        {
            H = verif::Hooks{};
            H.likelihood_computed = [&](size_t iteration, double &L2) {
                size_t j = iteration / 10;
                if (cur_real < script.size() && j < script[cur_real].size())
                    L2 = script[cur_real][j];
            };
            H.realization_start = [&](size_t i, const tensor::Matrix<double> &, const tensor::Matrix<double> *,
                                      const std::vector<double> &) { cur_real = i; };
            auto labels2 = labels_in;
            auto u2 = u_in;
            auto v2 = v_in;
            auto aff2 = aff_in;
            utils::Report rep2 = multitensor_factorization<direction_t, affinity_t, init_t>(
                starts, ends, weights, r, maxit, nconv, labels2, u2, v2, aff2, rng);
            std::string what;
            auto same_bits = [](double a, double b) { return std::memcmp(&a, &b, sizeof a) == 0; };
            auto same_mat = [&](tensor::Matrix<double> &a, tensor::Matrix<double> &b) {
                if (a.size() != b.size())
                    return false;
                if (a.size() == 0)
                    return true;
                if (a.dims() != b.dims())
                    return false;
                auto d = a.dims();
                for (size_t i = 0; i < std::get<0>(d); i++)
                    for (size_t k = 0; k < std::get<1>(d); k++)
                        if (!same_bits(a(i, k), b(i, k)))
                            return false;
                return true;
            };
            if (!same_mat(u, u2))
                what += " u";
            if (!same_mat(v, v2))
                what += " v";
            bool aff_same = aff.size() == aff2.size();
            for (size_t i = 0; aff_same && i < aff.size(); i++)
                aff_same = same_bits(aff[i], aff2[i]);
            if (!aff_same)
                what += " affinity";
            if (labels != labels2)
                what += " labels";
            bool rep_same = rep.vec_iter == rep2.vec_iter && rep.vec_L2.size() == rep2.vec_L2.size() && rep.seed == rep2.seed;
            for (size_t i = 0; rep_same && i < rep.vec_L2.size(); i++)
                rep_same = same_bits(rep.vec_L2[i], rep2.vec_L2[i]) && rep.vec_term_reason[i] == rep2.vec_term_reason[i];
            if (!rep_same)
                what += " report";
            extra_os << id << " @genreuse " << (what.empty() ? "same" : "diff") << what << "\n";
        }
        if ((long)rep.seed != seed)
            os << id << " SEED-MISMATCH " << rep.seed << "\n";
        if (rep.nof_realizations != r)
            os << id << " NREAL-MISMATCH " << rep.nof_realizations << "\n";
    }
    catch (const std::runtime_error &e)
    {
        ok = false;
        code = error_code(e.what());
    }
    H = verif::Hooks{};

    if (ok)
        os << id << " status OK\n";
    else
        // an exception whose message is not one of the known ones (a maintainer may reword a message: the property is about THROWING, and about
        // which check fires first only as far as it can be told) is reported as `?`, which the comparison accepts for any rejection code
        os << id << " status ERR " << (code == 99 ? std::string("?") : std::to_string(code)) << "\n";
    os << id << " labels";
    for (auto &l : labels)
        os << " " << to_s(l);
    os << "\n";
    {
        auto d = u.dims();
        os << id << " u " << std::get<0>(d) << " " << std::get<1>(d) << " :";
        if (std::get<0>(d) * std::get<1>(d) <= u.size())          // (a container built with zero tubes has rows and columns but no entry)
            for (size_t a = 0; a < std::get<0>(d); a++)
                for (size_t b = 0; b < std::get<1>(d); b++)
                    os << " " << hx(u(a, b));
        os << "\n";
    }
    {
        size_t a0 = v.size() ? std::get<0>(v.dims()) : 0, b0 = v.size() ? std::get<1>(v.dims()) : 0;
        os << id << " v " << a0 << " " << b0 << " :";
        for (size_t a = 0; a < a0; a++)
            for (size_t b = 0; b < b0; b++)
                os << " " << hx(v(a, b));
        os << "\n";
    }
    os << id << " aff " << aff.size() << " :";
    for (double x : aff)
        os << " " << hx(x);
    os << "\n";
    if (ok)
    {
        os << id << " rep " << rep.vec_iter.size() << " :";
        for (size_t i = 0; i < rep.vec_iter.size(); i++)
            os << " " << rep.vec_iter[i] << " " << rep.vec_term_reason[i] << " " << hx(rep.vec_L2[i]);
        os << "\n";
        os << starts_os.str();
        os << extra_os.str();
    }
    (void)directed;
}

template <class vertex_t, class weight_t>
void dispatch_e2e(Toks &tk, std::ostream &os, const std::string &id, bool directed, bool assort, bool from_init)
{
    using namespace boost;
    using namespace multitensor::tensor;
    using namespace multitensor::initialization;
    using Sym = SymmetricTensor<double>;
    using Dia = DiagonalTensor<double>;
    int sel = (directed ? 1 : 0) + (assort ? 2 : 0) + (from_init ? 4 : 0);
    switch (sel)
    {
    case 0: run_e2e<undirectedS, Sym, init_symmetric_tensor_random, vertex_t, weight_t>(tk, os, id); break;
    case 1: run_e2e<bidirectionalS, Sym, init_symmetric_tensor_random, vertex_t, weight_t>(tk, os, id); break;
    case 2: run_e2e<undirectedS, Dia, init_symmetric_tensor_random, vertex_t, weight_t>(tk, os, id); break;
    case 3: run_e2e<bidirectionalS, Dia, init_symmetric_tensor_random, vertex_t, weight_t>(tk, os, id); break;
    case 4: run_e2e<undirectedS, Sym, init_symmetric_tensor_from_initial<Sym>, vertex_t, weight_t>(tk, os, id); break;
    case 5: run_e2e<bidirectionalS, Sym, init_symmetric_tensor_from_initial<Sym>, vertex_t, weight_t>(tk, os, id); break;
    case 6: run_e2e<undirectedS, Dia, init_symmetric_tensor_from_initial<Dia>, vertex_t, weight_t>(tk, os, id); break;
    case 7: run_e2e<bidirectionalS, Dia, init_symmetric_tensor_from_initial<Dia>, vertex_t, weight_t>(tk, os, id); break;
    }
}
} // namespace vh
