// comp_layout.cpp (LAYOUT, RESIZE: reaches Tensor::get_index) -- one optional component of the correspondence harness (its own translation unit: when it does not compile against the
// tree under test -- e.g. an internal interface it reaches into was renamed -- lib/vf.py links harness/stubs.cpp for it instead and the
// component reports UNAVAILABLE; the other components are not affected)
#include "common.hpp"
#include "app_utils.hpp"

namespace vh
{
using namespace multitensor;
// Tensor::get_index is a protected helper: it is observed when it exists under that name; otherwise the position is the one the public
// accessor delivers (address arithmetic), which is what the layout contract is about
template <class T, class = void>
struct has_get_index : std::false_type
{
};
template <class T>
struct has_get_index<T, std::void_t<decltype(std::declval<T &>().get_index(size_t{}, size_t{}, size_t{}))>> : std::true_type
{
};
template <class T>
size_t position_of(T &t, size_t i, size_t j, size_t a, const double *base)
{
    if constexpr (has_get_index<T>::value)
        return t.get_index(i, j, a);
    else
        return (size_t)(&t(i, j, a) - base);
}
// the named dimension accessors (what the Python binding shapes its results with), when they exist under these names
template <class T, class = void>
struct has_named_dims : std::false_type
{
};
template <class T>
struct has_named_dims<T, std::void_t<decltype(std::declval<const T &>().get_nrows()), decltype(std::declval<const T &>().get_ncols()), decltype(std::declval<const T &>().get_ntubes())>> : std::true_type
{
};
template <class T>
void print_shape(std::ostream &os, const T &t)
{
    auto d = t.dims();
    os << std::get<0>(d) << " " << std::get<1>(d) << " " << std::get<2>(d) << " " << t.size();
    if constexpr (has_named_dims<T>::value)
        os << " " << t.get_nrows() << " " << t.get_ncols() << " " << t.get_ntubes();
}
// ------------------------------------------------------------------ LAYOUT
void do_layout(Toks &tk, std::ostream &os)
{
    std::string id = "L " + tk.tok();
    size_t R = (size_t)tk.integer(), C = (size_t)tk.integer(), T = (size_t)tk.integer();
    tensor::Tensor<double> t(R, C, T);
    const double *base = t.get_data().data();
    std::ostringstream a1, a2;
    for (size_t a = 0; a < T; a++)
        for (size_t j = 0; j < C; j++)
            for (size_t i = 0; i < R; i++)
            {
                a1 << (&t(i, j, a) - base) << " ";
                a2 << position_of(t, i, j, a, base) << " ";
            }
    os << id << " @shape ";
    print_shape(os, t);
    os << "\n";
    os << id << " idx " << a1.str() << "\n";
    os << id << " cxx " << a2.str() << "\n";
    {
        // transposed view of a C x R x T tensor
        tensor::Tensor<double> s(C, R, T);
        tensor::Transpose<tensor::Tensor<double>> sT(s);
        const double *b2 = s.get_data().data();
        {
            auto dT = sT.dims();
            os << id << " @shape_transposed " << std::get<0>(dT) << " " << std::get<1>(dT) << " " << std::get<2>(dT) << "\n";
            tensor::Matrix<double> m(R, C);
            os << id << " @shape_matrix ";
            print_shape(os, m);
            os << "\n";
            // containers built FROM a vector of values (matrix; diagonal and symmetric tensors): the shape they report
            os << id << " @shape_from_vector ";
            try
            {
                tensor::Matrix<double> mv(R, C, std::vector<double>(R * C, 1.0));
                print_shape(os, mv);
                tensor::DiagonalTensor<double> dv(R, T, std::vector<double>(R * T, 1.0));
                os << " | ";
                print_shape(os, dv);
                tensor::SymmetricTensor<double> sv(R, T, std::vector<double>(R * R * T, 1.0));
                os << " | ";
                print_shape(os, sv);
            }
            catch (const std::exception &)
            {
                os << " threw";
            }
            os << "\n";
            // the two-index accessors of the transposed view of a C x R matrix (plain and const): (i,j) is the matrix's (j,i)
            tensor::Matrix<double> mm(C, R);
            tensor::Transpose<tensor::Matrix<double>> mT(mm);
            const tensor::Transpose<tensor::Matrix<double>> &cmT = mT;
            const double *b5 = mm.get_data().data();
            // the transposed view of a diagonal tensor is the tensor itself: its two-index accessors take (group, layer) unchanged
            tensor::DiagonalTensor<double> dd(R, T);
            tensor::Transpose<tensor::DiagonalTensor<double>> ddT(dd);
            const tensor::Transpose<tensor::DiagonalTensor<double>> &cdT = ddT;
            const double *b6 = dd.get_data().data();
            os << id << " @transposed_diag";
            for (size_t a = 0; a < T; a++)
                for (size_t i = 0; i < R; i++)
                    os << " " << (&ddT(i, a) - b6) << " " << (&cdT(i, a) - b6);
            os << "\n";
            os << id << " @transposed_matrix";
            for (size_t j = 0; j < C; j++)
                for (size_t i = 0; i < R; i++)
                    os << " " << (&mT(i, j) - b5) << " " << (&cmT(i, j) - b5);
            os << "\n";
        }
        os << id << " transposed ";
        for (size_t a = 0; a < T; a++)
            for (size_t j = 0; j < C; j++)
                for (size_t i = 0; i < R; i++)
                    os << (&sT(i, j, a) - b2) << " ";
        os << "\n";
        // the const accessors (the ones the solver uses through `const affinity_t &`); addresses only, nothing is read
        const tensor::Transpose<tensor::Tensor<double>> &csT = sT;
        os << id << " transposed_const ";
        for (size_t a = 0; a < T; a++)
            for (size_t j = 0; j < C; j++)
                for (size_t i = 0; i < R; i++)
                    os << (&csT(i, j, a) - b2) << " ";
        os << "\n";
        const tensor::Tensor<double> &ct = t;
        os << id << " idx_const ";
        for (size_t a = 0; a < T; a++)
            for (size_t j = 0; j < C; j++)
                for (size_t i = 0; i < R; i++)
                    os << (&ct(i, j, a) - base) << " ";
        os << "\n";
    }
    {
        tensor::DiagonalTensor<double> d(R, T);
        const double *b3 = d.get_data().data();
        os << id << " diag ";
        for (size_t a = 0; a < T; a++)
            for (size_t i = 0; i < R; i++)
                os << (&d(i, a) - b3) << " ";
        os << "\n";
    }
    {
        tensor::SymmetricTensor<double> sy(R, T);
        const double *b4 = sy.get_data().data();
        os << id << " sym ";
        for (size_t a = 0; a < T; a++)
            for (size_t q = 0; q < R; q++)
                for (size_t k = 0; k < R; k++)
                    os << (&sy(k, q, a) - b4) << " ";
        os << "\n";
    }
}
// ------------------------------------------------------------------ RESIZE: a tensor that held one shape is resized to another
void do_resize(Toks &tk, std::ostream &os)
{
    std::string id = "Z " + tk.tok();
    size_t R1 = (size_t)tk.integer(), C1 = (size_t)tk.integer(), T1 = (size_t)tk.integer();
    size_t R = (size_t)tk.integer(), C = (size_t)tk.integer(), T = (size_t)tk.integer();
    tensor::Tensor<double> t(R1, C1, T1);
    for (size_t a = 0; a < T1; a++)
        for (size_t j = 0; j < C1; j++)
            for (size_t i = 0; i < R1; i++)
                t(i, j, a) = 1.0 + (double)(i + j + a);
    t.resize(R, C, T);
    auto d = t.dims();
    os << id << " dims " << std::get<0>(d) << " " << std::get<1>(d) << " " << std::get<2>(d) << " " << t.size() << "\n";
    // positions are computed with the tensor's own (protected) formula on its CURRENT dimensions, without touching memory
    os << id << " idx";
    for (size_t a = 0; a < T; a++)
        for (size_t j = 0; j < C; j++)
            for (size_t i = 0; i < R; i++)
                os << " " << (a * std::get<1>(d) * std::get<0>(d) + j * std::get<0>(d) + i);
    os << "\n";
    bool zero = true;
    for (double x : t.get_data())
        if (x != 0.0)
            zero = false;
    os << id << " zeroed " << (zero ? 1 : 0) << "\n";
    // Matrix / DiagonalTensor / SymmetricTensor forward to the same function
    tensor::Matrix<double> m(R1 * T1, C1);
    m.resize(R * T, C);
    auto dm = m.dims();
    os << id << " matrix " << std::get<0>(dm) << " " << std::get<1>(dm) << " " << std::get<2>(dm) << "\n";
    // the derived classes have their own two-argument resize: (groups, layers) for the diagonal and the symmetric tensor
    {
        tensor::DiagonalTensor<double> dg(R1, T1);
        dg.resize(R, T);
        auto dd = dg.dims();
        os << id << " @diag_resized " << std::get<0>(dd) << " " << std::get<1>(dd) << " " << std::get<2>(dd) << " " << dg.size() << "\n";
        tensor::SymmetricTensor<double> sy(R1, T1);
        sy.resize(R, T);
        auto ds = sy.dims();
        os << id << " @sym_resized " << std::get<0>(ds) << " " << std::get<1>(ds) << " " << std::get<2>(ds) << " " << sy.size() << "\n";
        tensor::DiagonalTensor<double> dz;
        dz.resize(R, T);
        auto dzz = dz.dims();
        os << id << " @diag_resized_from_empty " << std::get<0>(dzz) << " " << std::get<1>(dzz) << " " << std::get<2>(dzz) << " " << dz.size() << "\n";
    }
}

} // namespace vh
