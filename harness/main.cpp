// main.cpp -- correspondence harness: reads a case file, exercises the REAL multitensor code
// (headers of /repo's working tree) and prints canonical trace lines that the extracted Coq
// model (ocaml/mtmodel) must reproduce bit for bit.
#include "common.hpp"
#include "app_utils.hpp"

namespace vh
{
using namespace multitensor;
std::string g_tmp_path;

// ------------------------------------------------------------------ E2E
void do_e2e(Toks &tk, std::ostream &os)
{
    std::string id = "E " + tk.tok();
    bool directed = tk.integer() == 1, assort = tk.integer() == 1, from_init = tk.integer() == 1;
    std::string ltype = tk.tok(), wtype = tk.tok();
    if (ltype == "u" && wtype == "u")
        do_e2e_uu(tk, os, id, directed, assort, from_init);
    else if (ltype == "i" && wtype == "r")
        do_e2e_ir(tk, os, id, directed, assort, from_init);
    else if (ltype == "s" && wtype == "i")
        do_e2e_si(tk, os, id, directed, assort, from_init);
    else
        throw std::runtime_error("harness: unsupported (label,weight) type pair " + ltype + wtype);
}

} // namespace vh

int main(int argc, char **argv)
{
    if (argc < 3)
    {
        std::fprintf(stderr, "usage: harness <cases> <out>\n");
        return 2;
    }
    std::ifstream in(argv[1]);
    std::ofstream os(argv[2]);
    vh::g_tmp_path = std::string(argv[2]) + ".tmp";
    // the library prints progress on stdout: silence it
    std::ofstream devnull("/dev/null");
    std::cout.rdbuf(devnull.rdbuf());
    if (!std::freopen("/dev/null", "w", stdout))
        return 2;
    std::string line;
    while (std::getline(in, line))
    {
        vh::Toks tk;
        std::istringstream is(line);
        std::string t;
        while (is >> t)
            tk.t.push_back(t);
        if (tk.t.empty())
            continue;
        std::ostringstream buf;
        try
        {
            const std::string c = tk.tok();
            if (c == "GRAPH")
                vh::do_graph(tk, buf);
            else if (c == "UPD")
                vh::do_upd(tk, buf);
            else if (c == "E2E")
                vh::do_e2e(tk, buf);
            else if (c == "LAYOUT")
                vh::do_layout(tk, buf);
            else if (c == "PARSE")
                vh::do_parse(tk, buf);
            else if (c == "RAFF")
                vh::do_raff(tk, buf);
            else if (c == "RNG")
                vh::do_rng(tk, buf);
            else if (c == "WMEM")
                vh::do_wmem(tk, buf);
            else if (c == "WAFV")
                vh::do_wafv(tk, buf);
            else if (c == "RESIZE")
                vh::do_resize(tk, buf);
            else if (c == "SRUN")
                vh::do_srun(tk, buf);
            else if (c == "WAFF")
                vh::do_waff(tk, buf);
            else if (c == "#")
                ;
            else
                throw std::runtime_error("unknown component " + c);
        }
        catch (const std::exception &e)
        {
            buf << "HARNESS-ERROR " << e.what() << " in: " << line.substr(0, 60) << "\n";
        }
        os << buf.str();
        os.flush();
    }
    return 0;
}
