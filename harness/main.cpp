// main.cpp -- correspondence harness: reads a case file, exercises the REAL multitensor code
// (headers of /repo's working tree) and prints canonical trace lines that the extracted Coq
// model (ocaml/mtmodel) must reproduce bit for bit.
#include "common.hpp"
#include "app_utils.hpp"

namespace vh
{
using namespace multitensor;
std::string g_tmp_path;

// ------------------------------------------------------------------ GRAPH
template <class vertex_t, class direction_t, class weight_t>
void graph_case(Toks &tk, std::ostream &os, const std::string &id, size_t L, size_t nrec)
{
    constexpr bool directed = std::is_same_v<direction_t, boost::bidirectionalS>;
    std::vector<vertex_t> starts, ends;
    std::vector<weight_t> weights;
    for (size_t i = 0; i < nrec; i++)
    {
        starts.push_back(parse_as<vertex_t>(tk.tok()));
        ends.push_back(parse_as<vertex_t>(tk.tok()));
        for (size_t a = 0; a < L; a++)
            weights.push_back(parse_as<weight_t>(tk.tok()));
    }
    graph::Network<vertex_t, direction_t> A(starts, ends, weights);
    size_t N = A.num_vertices();
    os << id << " dims " << N << " " << A.num_edges() << " " << A.num_layers() << "\n";
    std::vector<vertex_t> labels;
    A.extract_vertices_labels(labels);
    os << id << " labels";
    for (auto &l : labels)
        os << " " << to_s(l);
    os << "\n";
    for (size_t a = 0; a < A.num_layers(); a++)
    {
        for (size_t i = 0; i < N; i++)
        {
            os << id << " out " << a << " " << i << " :";
            auto its = boost::out_edges(i, A(a));
            for (auto it = its.first; it != its.second; ++it)
                os << " " << boost::target(*it, A(a));
            os << "\n";
        }
        if constexpr (directed)
        {
            for (size_t i = 0; i < N; i++)
            {
                os << id << " in " << a << " " << i << " :";
                auto its = boost::in_edges(i, A(a));
                for (auto it = its.first; it != its.second; ++it)
                    os << " " << boost::source(*it, A(a));
                os << "\n";
            }
        }
    }
    auto ul = std::make_shared<std::vector<size_t>>();
    auto vl = std::make_shared<std::vector<size_t>>();
    A.extract_vertices_with_edges(ul, vl);
    os << id << " ul :";
    for (auto i : *ul)
        os << " " << i;
    os << "\n"
       << id << " vl :";
    for (auto i : *vl)
        os << " " << i;
    os << "\n";
    if (!directed && ul.get() != vl.get())
        os << id << " LISTS-NOT-SHARED\n";
    os << id << " nv " << utils::get_num_vertices(starts, ends) << "\n";
}

template <class vertex_t, class weight_t>
void graph_dir(Toks &tk, std::ostream &os, const std::string &id, bool directed, size_t L, size_t nrec)
{
    if (directed)
        graph_case<vertex_t, boost::bidirectionalS, weight_t>(tk, os, id, L, nrec);
    else
        graph_case<vertex_t, boost::undirectedS, weight_t>(tk, os, id, L, nrec);
}

template <class vertex_t>
void graph_w(Toks &tk, std::ostream &os, const std::string &id, bool directed, const std::string &wtype, size_t L, size_t nrec)
{
    if (wtype == "r")
        graph_dir<vertex_t, double>(tk, os, id, directed, L, nrec);
    else if (wtype == "u")
        graph_dir<vertex_t, size_t>(tk, os, id, directed, L, nrec);
    else
        graph_dir<vertex_t, long>(tk, os, id, directed, L, nrec);
}

void do_graph(Toks &tk, std::ostream &os)
{
    std::string id = "G " + tk.tok();
    bool directed = tk.integer() == 1;
    std::string ltype = tk.tok(), wtype = tk.tok();
    size_t L = (size_t)tk.integer(), nrec = (size_t)tk.integer();
    if (ltype == "s")
        graph_w<std::string>(tk, os, id, directed, wtype, L, nrec);
    else if (ltype == "u")
        graph_w<size_t>(tk, os, id, directed, wtype, L, nrec);
    else
        graph_w<long>(tk, os, id, directed, wtype, L, nrec);
}

// ------------------------------------------------------------------ UPD
template <class T>
void dump_flat(std::ostream &os, const std::string &id, const char *tag, const T &t)
{
    os << id << " " << tag;
    for (double x : t.get_data())
        os << " " << hx(x);
    os << "\n";
}
inline void dump_rows(std::ostream &os, const std::string &id, const char *tag, const tensor::Matrix<double> &m)
{
    os << id << " " << tag;
    auto d = m.dims();
    for (size_t a = 0; a < std::get<0>(d); a++)
        for (size_t b = 0; b < std::get<1>(d); b++)
            os << " " << hx(m(a, b));
    os << "\n";
}

template <class direction_t, class affinity_t, class weight_t>
void upd_case(Toks &tk, std::ostream &os, const std::string &id, size_t K, size_t L, size_t nrec)
{
    constexpr bool directed = std::is_same_v<direction_t, boost::bidirectionalS>;
    constexpr bool assort = std::is_same_v<affinity_t, tensor::DiagonalTensor<double>>;
    std::vector<std::string> starts, ends;
    std::vector<weight_t> weights;
    for (size_t i = 0; i < nrec; i++)
    {
        starts.push_back(tk.tok());
        ends.push_back(tk.tok());
        for (size_t a = 0; a < L; a++)
            weights.push_back(parse_as<weight_t>(tk.tok()));
    }
    graph::Network<std::string, direction_t> A(starts, ends, weights);
    size_t N = A.num_vertices();
    auto ul = std::make_shared<std::vector<size_t>>();
    auto vl = std::make_shared<std::vector<size_t>>();
    A.extract_vertices_with_edges(ul, vl);
    tensor::Matrix<double> u(N, K), v(N, K);
    for (size_t i = 0; i < N; i++)
        for (size_t k = 0; k < K; k++)
            u(i, k) = tk.flt();
    if (directed)
        for (size_t i = 0; i < N; i++)
            for (size_t k = 0; k < K; k++)
                v(i, k) = tk.flt();
    size_t wn = assort ? K * L : K * K * L;
    std::vector<double> wflat;
    for (size_t i = 0; i < wn; i++)
        wflat.push_back(tk.flt());
    affinity_t w(K, L, wflat);
    os << id << " dims " << N << "\n";
    solver::Solver S(1, 1000, 1000);
    {
        // update_vertices (out-edges) on the input state
        tensor::Matrix<double> uu(u), vv(v);
        if constexpr (directed)
            S.update_vertices<graph::out_edges_target_vertices>(*ul, *vl, A, w, vv, uu);
        else
            S.update_vertices<graph::out_edges_target_vertices>(*ul, *vl, A, w, uu, uu);
        dump_rows(os, id, "u1", uu);
    }
    if constexpr (directed)
    {
        tensor::Matrix<double> uu(u), vv(v);
        if constexpr (assort)
        {
            S.update_vertices<graph::in_edges_source_vertices>(*vl, *ul, A, w, uu, vv);
        }
        else
        {
            tensor::Transpose wT(w);
            S.update_vertices<graph::in_edges_source_vertices>(*vl, *ul, A, wT, uu, vv);
        }
        dump_rows(os, id, "v1", vv);
    }
    {
        affinity_t ww(w);
        if constexpr (directed)
            S.update_affinity(*ul, *vl, A, u, v, ww);
        else
            S.update_affinity(*ul, *vl, A, u, u, ww);
        dump_flat(os, id, "w1", ww);
    }
    {
        double l = directed ? S.calculate_likelyhood(u, v, w, A) : S.calculate_likelyhood(u, u, w, A);
        os << id << " lik " << hx(l) << "\n";
    }
    {
        // one composed call of loop(): u, v(new u), w(new u, new v), then the likelihood (iteration 0)
        tensor::Matrix<double> uu(u), vv(v);
        affinity_t ww(w);
        size_t iteration = 0, coincide = 0;
        double L2 = std::numeric_limits<double>::lowest();
        if constexpr (directed)
            S.loop(*ul, *vl, A, uu, vv, ww, iteration, coincide, L2);
        else
            S.loop(*ul, *vl, A, uu, uu, ww, iteration, coincide, L2);
        dump_rows(os, id, "sweep_u", uu);
        if (directed)
            dump_rows(os, id, "sweep_v", vv);
        dump_flat(os, id, "sweep_w", ww);
        os << id << " sweep_lik " << hx(L2) << "\n";
    }
}

template <class weight_t>
void upd_w(Toks &tk, std::ostream &os, const std::string &id, bool directed, bool assort, size_t K, size_t L, size_t nrec)
{
    using namespace boost;
    using Sym = tensor::SymmetricTensor<double>;
    using Dia = tensor::DiagonalTensor<double>;
    if (directed && !assort)
        upd_case<bidirectionalS, Sym, weight_t>(tk, os, id, K, L, nrec);
    else if (directed && assort)
        upd_case<bidirectionalS, Dia, weight_t>(tk, os, id, K, L, nrec);
    else if (!directed && !assort)
        upd_case<undirectedS, Sym, weight_t>(tk, os, id, K, L, nrec);
    else
        upd_case<undirectedS, Dia, weight_t>(tk, os, id, K, L, nrec);
}

void do_upd(Toks &tk, std::ostream &os)
{
    std::string id = "U " + tk.tok();
    bool directed = tk.integer() == 1, assort = tk.integer() == 1;
    size_t K = (size_t)tk.integer(), L = (size_t)tk.integer();
    std::string wtype = tk.tok();
    size_t nrec = (size_t)tk.integer();
    if (wtype == "r")
        upd_w<double>(tk, os, id, directed, assort, K, L, nrec);
    else
        upd_w<long>(tk, os, id, directed, assort, K, L, nrec);
}

// ------------------------------------------------------------------ E2E
void do_e2e(Toks &tk, std::ostream &os)
{
    std::string id = "E " + tk.tok();
    bool directed = tk.integer() == 1, assort = tk.integer() == 1, from_init = tk.integer() == 1;
    std::string ltype = tk.tok(), wtype = tk.tok();
    if (ltype == "u" && wtype == "u")
        do_e2e_uu(tk, os, id, directed, assort, from_init);
    else if (ltype == "i" && wtype == "r")
        do_e2e_ir(tk, os, id, directed, assort, from_init);
    else if (ltype == "s" && wtype == "i")
        do_e2e_si(tk, os, id, directed, assort, from_init);
    else
        throw std::runtime_error("harness: unsupported (label,weight) type pair " + ltype + wtype);
}

// ------------------------------------------------------------------ LAYOUT
void do_layout(Toks &tk, std::ostream &os)
{
    std::string id = "L " + tk.tok();
    size_t R = (size_t)tk.integer(), C = (size_t)tk.integer(), T = (size_t)tk.integer();
    tensor::Tensor<double> t(R, C, T);
    const double *base = t.get_data().data();
    std::ostringstream a1, a2;
    for (size_t a = 0; a < T; a++)
        for (size_t j = 0; j < C; j++)
            for (size_t i = 0; i < R; i++)
            {
                a1 << (&t(i, j, a) - base) << " ";
                a2 << t.get_index(i, j, a) << " ";
            }
    os << id << " idx " << a1.str() << "\n";
    os << id << " cxx " << a2.str() << "\n";
    {
        // transposed view of a C x R x T tensor
        tensor::Tensor<double> s(C, R, T);
        tensor::Transpose<tensor::Tensor<double>> sT(s);
        const double *b2 = s.get_data().data();
        os << id << " transposed ";
        for (size_t a = 0; a < T; a++)
            for (size_t j = 0; j < C; j++)
                for (size_t i = 0; i < R; i++)
                    os << (&sT(i, j, a) - b2) << " ";
        os << "\n";
        // the const accessors (the ones the solver uses through `const affinity_t &`); addresses only, nothing is read
        const tensor::Transpose<tensor::Tensor<double>> &csT = sT;
        os << id << " transposed_const ";
        for (size_t a = 0; a < T; a++)
            for (size_t j = 0; j < C; j++)
                for (size_t i = 0; i < R; i++)
                    os << (&csT(i, j, a) - b2) << " ";
        os << "\n";
        const tensor::Tensor<double> &ct = t;
        os << id << " idx_const ";
        for (size_t a = 0; a < T; a++)
            for (size_t j = 0; j < C; j++)
                for (size_t i = 0; i < R; i++)
                    os << (&ct(i, j, a) - base) << " ";
        os << "\n";
    }
    {
        tensor::DiagonalTensor<double> d(R, T);
        const double *b3 = d.get_data().data();
        os << id << " diag ";
        for (size_t a = 0; a < T; a++)
            for (size_t i = 0; i < R; i++)
                os << (&d(i, a) - b3) << " ";
        os << "\n";
    }
    {
        tensor::SymmetricTensor<double> sy(R, T);
        const double *b4 = sy.get_data().data();
        os << id << " sym ";
        for (size_t a = 0; a < T; a++)
            for (size_t q = 0; q < R; q++)
                for (size_t k = 0; k < R; k++)
                    os << (&sy(k, q, a) - b4) << " ";
        os << "\n";
    }
}
// ------------------------------------------------------------------ WMEM: write_membership_file on given labels / matrix
void do_wmem(Toks &tk, std::ostream &os)
{
    std::string id = "M " + tk.tok();
    size_t N = (size_t)tk.integer(), K = (size_t)tk.integer();
    std::vector<size_t> labels;
    for (size_t i = 0; i < N; i++)
        labels.push_back(parse_as<size_t>(tk.tok()));
    tensor::Matrix<double> m(N, K);
    for (size_t i = 0; i < N; i++)
        for (size_t k = 0; k < K; k++)
            m(i, k) = tk.flt();
    utils::Report rep{};
    rep.nof_realizations = 1;
    rep.vec_L2.push_back(-1.0);
    write_membership_file(boost::filesystem::path(g_tmp_path), labels, m, rep);
    std::ifstream in(g_tmp_path);
    std::string line;
    size_t n = 0;
    while (std::getline(in, line))
    {
        if (n > 0)
        {
            std::istringstream is(line);
            std::string t;
            os << id << " line " << n << " :";
            while (is >> t)
                os << " " << t;
            os << "\n";
        }
        n++;
    }
    std::remove(g_tmp_path.c_str());
}

// ------------------------------------------------------------------ WAFV: write_affinity_file on given values
void do_wafv(Toks &tk, std::ostream &os)
{
    std::string id = "V " + tk.tok();
    size_t K = (size_t)tk.integer(), L = (size_t)tk.integer();
    bool assort = tk.integer() == 1;
    std::vector<double> aff(assort ? K * L : K * K * L);
    for (size_t p = 0; p < aff.size(); p++)
        aff[p] = tk.flt();
    utils::Report rep{};
    rep.nof_realizations = 1;
    rep.vec_L2.push_back(-1.0);
    write_affinity_file(boost::filesystem::path(g_tmp_path), aff, rep, K, L);
    std::ifstream in(g_tmp_path);
    std::string line;
    size_t n = 0;
    while (std::getline(in, line))
    {
        if (n > 0)
        {
            std::istringstream is(line);
            std::string t;
            os << id << " line " << n << " :";
            while (is >> t)
                os << " " << t;
            os << "\n";
        }
        n++;
    }
    std::remove(g_tmp_path.c_str());
}

// ------------------------------------------------------------------ RESIZE: a tensor that held one shape is resized to another
void do_resize(Toks &tk, std::ostream &os)
{
    std::string id = "Z " + tk.tok();
    size_t R1 = (size_t)tk.integer(), C1 = (size_t)tk.integer(), T1 = (size_t)tk.integer();
    size_t R = (size_t)tk.integer(), C = (size_t)tk.integer(), T = (size_t)tk.integer();
    tensor::Tensor<double> t(R1, C1, T1);
    for (size_t a = 0; a < T1; a++)
        for (size_t j = 0; j < C1; j++)
            for (size_t i = 0; i < R1; i++)
                t(i, j, a) = 1.0 + (double)(i + j + a);
    t.resize(R, C, T);
    auto d = t.dims();
    os << id << " dims " << std::get<0>(d) << " " << std::get<1>(d) << " " << std::get<2>(d) << " " << t.size() << "\n";
    // positions are computed with the tensor's own (protected) formula on its CURRENT dimensions, without touching memory
    os << id << " idx";
    for (size_t a = 0; a < T; a++)
        for (size_t j = 0; j < C; j++)
            for (size_t i = 0; i < R; i++)
                os << " " << (a * std::get<1>(d) * std::get<0>(d) + j * std::get<0>(d) + i);
    os << "\n";
    bool zero = true;
    for (double x : t.get_data())
        if (x != 0.0)
            zero = false;
    os << id << " zeroed " << (zero ? 1 : 0) << "\n";
    // Matrix / DiagonalTensor / SymmetricTensor forward to the same function
    tensor::Matrix<double> m(R1 * T1, C1);
    m.resize(R * T, C);
    auto dm = m.dims();
    os << id << " matrix " << std::get<0>(dm) << " " << std::get<1>(dm) << " " << std::get<2>(dm) << "\n";
}

// ------------------------------------------------------------------ WAFF: write_affinity_file on a position-encoded vector
void do_waff(Toks &tk, std::ostream &os)
{
    std::string id = "W " + tk.tok();
    size_t K = (size_t)tk.integer(), L = (size_t)tk.integer();
    bool assort = tk.integer() == 1;
    std::vector<double> aff(assort ? K * L : K * K * L);
    for (size_t p = 0; p < aff.size(); p++)
        aff[p] = (double)p;
    utils::Report rep{};
    rep.nof_realizations = 1;
    rep.vec_L2.push_back(-1.0);
    write_affinity_file(boost::filesystem::path(g_tmp_path), aff, rep, K, L);
    std::ifstream in(g_tmp_path);
    std::string line;
    size_t n = 0;
    while (std::getline(in, line))
    {
        if (n > 0)
        {
            std::istringstream is(line);
            std::string t;
            os << id << " line " << n << " :";
            while (is >> t)
                os << " " << t;
            os << "\n";
        }
        n++;
    }
    std::remove(g_tmp_path.c_str());
}
// ------------------------------------------------------------------ PARSE / RAFF: the front end's readers on file bytes
static void write_hex_file(const std::string &path, const std::string &hex)
{
    std::ofstream f(path, std::ios::binary);
    for (size_t i = 0; i + 1 < hex.size(); i += 2)
        f.put((char)std::stoi(hex.substr(i, 2), nullptr, 16));
}
void do_parse(Toks &tk, std::ostream &os)
{
    std::string id = "P " + tk.tok();
    std::string hex = tk.p < tk.t.size() ? tk.tok() : "";
    write_hex_file(g_tmp_path, hex);
    std::vector<size_t> s, e, w;
    try
    {
        read_adjacency_data(boost::filesystem::path(g_tmp_path), s, e, w);
        os << id << " OK\n";
        os << id << " starts";
        for (auto x : s)
            os << " " << x;
        os << "\n" << id << " ends";
        for (auto x : e)
            os << " " << x;
        os << "\n" << id << " weights";
        for (auto x : w)
            os << " " << x;
        os << "\n";
    }
    catch (const std::exception &ex)
    {
        os << id << " ERR\n";
    }
    std::remove(g_tmp_path.c_str());
}
void do_raff(Toks &tk, std::ostream &os)
{
    std::string id = "A " + tk.tok();
    bool assort = tk.integer() == 1;
    size_t K = (size_t)tk.integer(), L = (size_t)tk.integer(), expk = (size_t)tk.integer();
    std::string hex = tk.p < tk.t.size() ? tk.tok() : "";
    write_hex_file(g_tmp_path, hex);
    std::vector<double> w(assort ? K * L : K * K * L);
    for (size_t p = 0; p < w.size(); p++)
        w[p] = -(double)p - 0.5;
    try
    {
        read_affinity_data(boost::filesystem::path(g_tmp_path), assort, w, expk);
        os << id << " OK";
        for (double x : w)
            os << " " << hx(x);
        os << "\n";
    }
    catch (const std::exception &ex)
    {
        os << id << " ERR\n";
    }
    std::remove(g_tmp_path.c_str());
}

// ------------------------------------------------------------------ RNG: the reference stream of the library's generator type
void do_rng(Toks &tk, std::ostream &os)
{
    std::string id = "R " + tk.tok();
    long seed = tk.integer();
    size_t n = (size_t)tk.integer();
    utils::RandomGenerator<> g{(std::time_t)seed};
    os << id << " draws";
    for (size_t i = 0; i < n; i++)
        os << " " << hx(g());
    os << "\n";
    // and an independently constructed std engine + distribution
    std::mt19937 e(static_cast<unsigned int>(seed));
    std::uniform_real_distribution<double> d;
    os << id << " std";
    for (size_t i = 0; i < n; i++)
        os << " " << hx(d(e));
    os << "\n";
}
} // namespace vh

int main(int argc, char **argv)
{
    if (argc < 3)
    {
        std::fprintf(stderr, "usage: harness <cases> <out>\n");
        return 2;
    }
    std::ifstream in(argv[1]);
    std::ofstream os(argv[2]);
    vh::g_tmp_path = std::string(argv[2]) + ".tmp";
    // the library prints progress on stdout: silence it
    std::ofstream devnull("/dev/null");
    std::cout.rdbuf(devnull.rdbuf());
    if (!std::freopen("/dev/null", "w", stdout))
        return 2;
    std::string line;
    while (std::getline(in, line))
    {
        vh::Toks tk;
        std::istringstream is(line);
        std::string t;
        while (is >> t)
            tk.t.push_back(t);
        if (tk.t.empty())
            continue;
        std::ostringstream buf;
        try
        {
            const std::string c = tk.tok();
            if (c == "GRAPH")
                vh::do_graph(tk, buf);
            else if (c == "UPD")
                vh::do_upd(tk, buf);
            else if (c == "E2E")
                vh::do_e2e(tk, buf);
            else if (c == "LAYOUT")
                vh::do_layout(tk, buf);
            else if (c == "PARSE")
                vh::do_parse(tk, buf);
            else if (c == "RAFF")
                vh::do_raff(tk, buf);
            else if (c == "RNG")
                vh::do_rng(tk, buf);
            else if (c == "WMEM")
                vh::do_wmem(tk, buf);
            else if (c == "WAFV")
                vh::do_wafv(tk, buf);
            else if (c == "RESIZE")
                vh::do_resize(tk, buf);
            else if (c == "WAFF")
                vh::do_waff(tk, buf);
            else if (c == "#")
                ;
            else
                throw std::runtime_error("unknown component " + c);
        }
        catch (const std::exception &e)
        {
            buf << "HARNESS-ERROR " << e.what() << " in: " << line.substr(0, 60) << "\n";
        }
        os << buf.str();
        os.flush();
    }
    return 0;
}
