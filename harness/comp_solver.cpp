// comp_solver.cpp (SRUN: one public solver::Solver object used for two consecutive runs) -- one optional component of the correspondence harness
// (its own translation unit: when it does not compile against the tree under test lib/vf.py links harness/stubs.cpp for it instead and the
// component reports UNAVAILABLE; the other components are not affected).  Implementation only: the second run() of a Solver object must be what a
// fresh Solver delivers for the same arguments (report: one entry per realization, in execution order; factors of the best realization).
#include "common.hpp"
#include "app_utils.hpp"

namespace vh
{
using namespace multitensor;

template <class direction_t, class affinity_t>
struct SolverRun
{
    utils::Report rep;
    tensor::Matrix<double> u, v;
    std::vector<double> w;
};

template <class direction_t, class affinity_t>
SolverRun<direction_t, affinity_t> solver_run(solver::Solver &S, const std::vector<std::string> &starts, const std::vector<std::string> &ends,
                                              const std::vector<long> &weights, size_t K, long seed)
{
    constexpr bool directed = std::is_same_v<direction_t, boost::bidirectionalS>;
    graph::Network<std::string, direction_t> A(starts, ends, weights);
    const size_t N = A.num_vertices(), L = A.num_layers();
    auto ul = std::make_shared<std::vector<size_t>>();
    auto vl = std::make_shared<std::vector<size_t>>();
    A.extract_vertices_with_edges(ul, vl);
    SolverRun<direction_t, affinity_t> r;
    r.u = tensor::Matrix<double>(N, K);
    if (directed)
        r.v = tensor::Matrix<double>(N, K);
    affinity_t w(K, L);
    utils::RandomGenerator<> rng(seed);
    r.rep = S.template run<initialization::init_symmetric_tensor_random>(*ul, *vl, A, r.u, r.v, w, rng);
    r.w = w.get_data();
    return r;
}

template <class direction_t, class affinity_t>
void srun_case(Toks &tk, std::ostream &os, const std::string &id, size_t K, size_t L, size_t nrec)
{
    std::vector<std::string> starts, ends;
    std::vector<long> weights;
    for (size_t i = 0; i < nrec; i++)
    {
        starts.push_back(tk.tok());
        ends.push_back(tk.tok());
        for (size_t a = 0; a < L; a++)
            weights.push_back(parse_as<long>(tk.tok()));
    }
    size_t r = (size_t)tk.integer(), maxit = (size_t)tk.integer(), nconv = (size_t)tk.integer();
    long seed = (long)tk.integer();
    // the second network: the first without its last third of records
    size_t keep = nrec - (nrec + 2) / 3;
    std::vector<std::string> s2(starts.begin(), starts.begin() + keep), e2(ends.begin(), ends.begin() + keep);
    std::vector<long> w2(weights.begin(), weights.begin() + keep * L);
    solver::Solver reused(r, maxit, nconv);
    auto first = solver_run<direction_t, affinity_t>(reused, starts, ends, weights, K, seed);
    auto second = solver_run<direction_t, affinity_t>(reused, s2, e2, w2, K, seed + 1);
    solver::Solver fresh(r, maxit, nconv);
    auto ref = solver_run<direction_t, affinity_t>(fresh, s2, e2, w2, K, seed + 1);
    auto dump = [&](const char *tag, const SolverRun<direction_t, affinity_t> &x) {
        os << id << " " << tag << " " << x.rep.vec_L2.size() << " " << x.rep.vec_iter.size() << " " << x.rep.vec_term_reason.size() << " :";
        for (size_t i = 0; i < x.rep.vec_L2.size(); i++)
            os << " " << (i < x.rep.vec_iter.size() ? x.rep.vec_iter[i] : 0) << " " << hx(x.rep.vec_L2[i]);
        os << " | max " << hx(x.rep.max_L2()) << " | u";
        for (double y : x.u.get_data())
            os << " " << hx(y);
        os << " | w";
        for (double y : x.w)
            os << " " << hx(y);
        os << "\n";
    };
    os << id << " r " << r << "\n";
    dump("first", first);
    dump("second", second);
    dump("fresh", ref);
}

void do_srun(Toks &tk, std::ostream &os)
{
    using namespace boost;
    std::string id = "S " + tk.tok();
    bool directed = tk.integer() == 1, assort = tk.integer() == 1;
    size_t K = (size_t)tk.integer(), L = (size_t)tk.integer(), nrec = (size_t)tk.integer();
    using Sym = tensor::SymmetricTensor<double>;
    using Dia = tensor::DiagonalTensor<double>;
    if (directed && !assort)
        srun_case<bidirectionalS, Sym>(tk, os, id, K, L, nrec);
    else if (directed && assort)
        srun_case<bidirectionalS, Dia>(tk, os, id, K, L, nrec);
    else if (!directed && !assort)
        srun_case<undirectedS, Sym>(tk, os, id, K, L, nrec);
    else
        srun_case<undirectedS, Dia>(tk, os, id, K, L, nrec);
}

} // namespace vh
