// comp_graph.cpp (GRAPH) -- one optional component of the correspondence harness (its own translation unit: when it does not compile against the
// tree under test -- e.g. an internal interface it reaches into was renamed -- lib/vf.py links harness/stubs.cpp for it instead and the
// component reports UNAVAILABLE; the other components are not affected)
#include "common.hpp"
#include "app_utils.hpp"

namespace vh
{
using namespace multitensor;
// ------------------------------------------------------------------ GRAPH
template <class vertex_t, class direction_t, class weight_t>
void graph_case(Toks &tk, std::ostream &os, const std::string &id, size_t L, size_t nrec)
{
    constexpr bool directed = std::is_same_v<direction_t, boost::bidirectionalS>;
    std::vector<vertex_t> starts, ends;
    std::vector<weight_t> weights;
    for (size_t i = 0; i < nrec; i++)
    {
        starts.push_back(parse_as<vertex_t>(tk.tok()));
        ends.push_back(parse_as<vertex_t>(tk.tok()));
        for (size_t a = 0; a < L; a++)
            weights.push_back(parse_as<weight_t>(tk.tok()));
    }
    graph::Network<vertex_t, direction_t> A(starts, ends, weights);
    size_t N = A.num_vertices();
    os << id << " dims " << N << " " << A.num_edges() << " " << A.num_layers() << "\n";
    std::vector<vertex_t> labels;
    A.extract_vertices_labels(labels);
    os << id << " labels";
    for (auto &l : labels)
        os << " " << to_s(l);
    os << "\n";
    for (size_t a = 0; a < A.num_layers(); a++)
    {
        for (size_t i = 0; i < N; i++)
        {
            os << id << " out " << a << " " << i << " :";
            auto its = boost::out_edges(i, A(a));
            for (auto it = its.first; it != its.second; ++it)
                os << " " << boost::target(*it, A(a));
            os << "\n";
        }
        if constexpr (directed)
        {
            for (size_t i = 0; i < N; i++)
            {
                os << id << " in " << a << " " << i << " :";
                auto its = boost::in_edges(i, A(a));
                for (auto it = its.first; it != its.second; ++it)
                    os << " " << boost::source(*it, A(a));
                os << "\n";
            }
        }
    }
    auto ul = std::make_shared<std::vector<size_t>>();
    auto vl = std::make_shared<std::vector<size_t>>();
    A.extract_vertices_with_edges(ul, vl);
    os << id << " ul :";
    for (auto i : *ul)
        os << " " << i;
    os << "\n"
       << id << " vl :";
    for (auto i : *vl)
        os << " " << i;
    os << "\n";
    if (!directed && ul.get() != vl.get())
        os << id << " LISTS-NOT-SHARED\n";
    os << id << " nv " << utils::get_num_vertices(starts, ends) << "\n";
}

template <class vertex_t, class weight_t>
void graph_dir(Toks &tk, std::ostream &os, const std::string &id, bool directed, size_t L, size_t nrec)
{
    if (directed)
        graph_case<vertex_t, boost::bidirectionalS, weight_t>(tk, os, id, L, nrec);
    else
        graph_case<vertex_t, boost::undirectedS, weight_t>(tk, os, id, L, nrec);
}

template <class vertex_t>
void graph_w(Toks &tk, std::ostream &os, const std::string &id, bool directed, const std::string &wtype, size_t L, size_t nrec)
{
    if (wtype == "r")
        graph_dir<vertex_t, double>(tk, os, id, directed, L, nrec);
    else if (wtype == "u")
        graph_dir<vertex_t, size_t>(tk, os, id, directed, L, nrec);
    else
        graph_dir<vertex_t, long>(tk, os, id, directed, L, nrec);
}

void do_graph(Toks &tk, std::ostream &os)
{
    std::string id = "G " + tk.tok();
    bool directed = tk.integer() == 1;
    std::string ltype = tk.tok(), wtype = tk.tok();
    size_t L = (size_t)tk.integer(), nrec = (size_t)tk.integer();
    if (ltype == "s")
        graph_w<std::string>(tk, os, id, directed, wtype, L, nrec);
    else if (ltype == "u")
        graph_w<size_t>(tk, os, id, directed, wtype, L, nrec);
    else
        graph_w<long>(tk, os, id, directed, wtype, L, nrec);
}

} // namespace vh
