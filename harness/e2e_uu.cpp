#include "e2e.hpp"
namespace vh {
void do_e2e_uu(Toks &tk, std::ostream &os, const std::string &id, bool directed, bool assort, bool from_init)
{ dispatch_e2e<size_t, size_t>(tk, os, id, directed, assort, from_init); }
}
