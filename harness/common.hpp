// common.hpp -- shared by the translation units of the correspondence harness.
// The multitensor headers come from /repo's working tree (-I), compiled with -DMULTITENSOR_VERIF.
#pragma once
#include <algorithm>
#include <chrono>
#include <cmath>
#include <cstdint>
#include <cstdio>
#include <cstring>
#include <ctime>
#include <fstream>
#include <functional>
#include <iostream>
#include <map>
#include <memory>
#include <random>
#include <set>
#include <sstream>
#include <stdexcept>
#include <string>
#include <tuple>
#include <vector>
#include <boost/graph/adjacency_list.hpp>

// reach Solver's private update functions and Tensor's protected get_index
#define private public
#define protected public
#include "multitensor/main.hpp"
#undef private
#undef protected

namespace vh
{
using namespace multitensor;

struct Toks
{
    std::vector<std::string> t;
    size_t p = 0;
    const std::string &tok()
    {
        if (p >= t.size())
            throw std::runtime_error("harness: out of tokens");
        return t[p++];
    }
    long integer() { return std::stol(tok()); }
    double flt() { return std::strtod(tok().c_str(), nullptr); }
};

inline std::string hx(double x)
{
    if (x != x)
        return "nan";
    uint64_t b;
    std::memcpy(&b, &x, 8);
    char buf[32];
    std::snprintf(buf, sizeof buf, "%016llx", (unsigned long long)b);
    return buf;
}

template <class T>
T parse_as(const std::string &s);
template <>
inline size_t parse_as<size_t>(const std::string &s) { return (size_t)std::stoull(s); }
template <>
inline long parse_as<long>(const std::string &s) { return std::stol(s); }
template <>
inline double parse_as<double>(const std::string &s) { return std::strtod(s.c_str(), nullptr); }
template <>
inline std::string parse_as<std::string>(const std::string &s) { return s == "\\e" ? std::string() : s; }   // \e spells the empty label

inline std::string to_s(const std::string &s) { return s.empty() ? std::string("\\e") : s; }
inline std::string to_s(size_t s) { return std::to_string(s); }
inline std::string to_s(long s) { return std::to_string(s); }

inline int error_code(const std::string &msg)
{
    static const std::pair<const char *, int> table[] = {
        {"Number of edges should be", 1},
        {"Inconsitent edges", 2},
        {"multiple of the number of edges", 3},
        {"Number of layers should be", 4},
        {"Number of groups should be", 5},
        {"W size should have", 6},
        {"Number of vertices should be", 7},
        {"U size should have", 8},
        {"U shape should be", 8},
        {"Number of realizations should be", 9},
        {"Maximum number of iterations should be", 10},
        {"Number of convergences should be", 11},
        {"Dimensions inconsistent with vector size", 12}};
    for (auto &e : table)
        if (msg.find(e.first) != std::string::npos)
            return e.second;
    return 99;
}

// the components (each in its own translation unit; stubs.cpp stands in for one that does not compile)
void do_graph(Toks &tk, std::ostream &os);
void do_upd(Toks &tk, std::ostream &os);
void do_upd_public(Toks &tk, std::ostream &os);      // upd_public.cpp: the same cases through the public entry point (composed sweep only)
void do_layout(Toks &tk, std::ostream &os);
void do_resize(Toks &tk, std::ostream &os);
void do_srun(Toks &tk, std::ostream &os);        // comp_solver.cpp: one Solver object, two runs (implementation only)
void do_wmem(Toks &tk, std::ostream &os);
void do_wafv(Toks &tk, std::ostream &os);
void do_waff(Toks &tk, std::ostream &os);
void do_parse(Toks &tk, std::ostream &os);
void do_raff(Toks &tk, std::ostream &os);
void do_rng(Toks &tk, std::ostream &os);

void do_e2e_uu(Toks &tk, std::ostream &os, const std::string &id, bool directed, bool assort, bool from_init);
void do_e2e_ir(Toks &tk, std::ostream &os, const std::string &id, bool directed, bool assort, bool from_init);
void do_e2e_si(Toks &tk, std::ostream &os, const std::string &id, bool directed, bool assort, bool from_init);

} // namespace vh
