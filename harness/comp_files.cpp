// comp_files.cpp (WMEM, WAFV, WAFF, PARSE, RAFF: the front end's readers and writers) -- one optional component of the correspondence harness (its own translation unit: when it does not compile against the
// tree under test -- e.g. an internal interface it reaches into was renamed -- lib/vf.py links harness/stubs.cpp for it instead and the
// component reports UNAVAILABLE; the other components are not affected)
#include "common.hpp"
#include "app_utils.hpp"

namespace vh
{
using namespace multitensor;
extern std::string g_tmp_path;
static bool is_data_row(const std::vector<std::string> &t)
{
    if (t.empty() || t[0][0] == '#')
        return false;
    // the first token is a number (strtod consumes it entirely; inf / nan / -nan count)
    char *end = nullptr;
    std::strtod(t[0].c_str(), &end);
    return end != t[0].c_str() && *end == '\0';
}
// ------------------------------------------------------------------ WMEM: write_membership_file on given labels / matrix
void do_wmem(Toks &tk, std::ostream &os)
{
    std::string id = "M " + tk.tok();
    size_t N = (size_t)tk.integer(), K = (size_t)tk.integer();
    std::vector<size_t> labels;
    for (size_t i = 0; i < N; i++)
        labels.push_back(parse_as<size_t>(tk.tok()));
    tensor::Matrix<double> m(N, K);
    for (size_t i = 0; i < N; i++)
        for (size_t k = 0; k < K; k++)
            m(i, k) = tk.flt();
    utils::Report rep{};
    rep.nof_realizations = 1;
    rep.vec_L2.push_back(-1.0);
    write_membership_file(boost::filesystem::path(g_tmp_path), labels, m, rep);
    std::ifstream in(g_tmp_path);
    std::string line;
    size_t n = 0;
    while (std::getline(in, line))
    {
        // data rows only, numbered consecutively: comment lines (`# ...`), blank lines and block headers (`a= 3`) are presentation
        std::vector<std::string> toks_;
        {
            std::istringstream is(line);
            std::string t;
            while (is >> t)
                toks_.push_back(t);
        }
        if (!is_data_row(toks_))
            continue;
        n++;
        os << id << " line " << n << " :";
        for (auto &t : toks_)
            os << " " << t;
        os << "\n";
    }
    std::remove(g_tmp_path.c_str());
}

// ------------------------------------------------------------------ WAFV: write_affinity_file on given values
void do_wafv(Toks &tk, std::ostream &os)
{
    std::string id = "V " + tk.tok();
    size_t K = (size_t)tk.integer(), L = (size_t)tk.integer();
    bool assort = tk.integer() == 1;
    std::vector<double> aff(assort ? K * L : K * K * L);
    for (size_t p = 0; p < aff.size(); p++)
        aff[p] = tk.flt();
    utils::Report rep{};
    rep.nof_realizations = 1;
    rep.vec_L2.push_back(-1.0);
    write_affinity_file(boost::filesystem::path(g_tmp_path), aff, rep, K, L);
    std::ifstream in(g_tmp_path);
    std::string line;
    size_t n = 0;
    while (std::getline(in, line))
    {
        // data rows only, numbered consecutively: comment lines (`# ...`), blank lines and block headers (`a= 3`) are presentation
        std::vector<std::string> toks_;
        {
            std::istringstream is(line);
            std::string t;
            while (is >> t)
                toks_.push_back(t);
        }
        if (!is_data_row(toks_))
            continue;
        n++;
        os << id << " line " << n << " :";
        for (auto &t : toks_)
            os << " " << t;
        os << "\n";
    }
    std::remove(g_tmp_path.c_str());
}

// ------------------------------------------------------------------ WAFF: write_affinity_file on a position-encoded vector
void do_waff(Toks &tk, std::ostream &os)
{
    std::string id = "W " + tk.tok();
    size_t K = (size_t)tk.integer(), L = (size_t)tk.integer();
    bool assort = tk.integer() == 1;
    std::vector<double> aff(assort ? K * L : K * K * L);
    for (size_t p = 0; p < aff.size(); p++)
        aff[p] = (double)p;
    utils::Report rep{};
    rep.nof_realizations = 1;
    rep.vec_L2.push_back(-1.0);
    write_affinity_file(boost::filesystem::path(g_tmp_path), aff, rep, K, L);
    std::ifstream in(g_tmp_path);
    std::string line;
    size_t n = 0;
    while (std::getline(in, line))
    {
        // data rows only, numbered consecutively: comment lines (`# ...`), blank lines and block headers (`a= 3`) are presentation
        std::vector<std::string> toks_;
        {
            std::istringstream is(line);
            std::string t;
            while (is >> t)
                toks_.push_back(t);
        }
        if (!is_data_row(toks_))
            continue;
        n++;
        os << id << " line " << n << " :";
        for (auto &t : toks_)
            os << " " << t;
        os << "\n";
    }
    std::remove(g_tmp_path.c_str());
}
// ------------------------------------------------------------------ PARSE / RAFF: the front end's readers on file bytes
static void write_hex_file(const std::string &path, const std::string &hex)
{
    std::ofstream f(path, std::ios::binary);
    for (size_t i = 0; i + 1 < hex.size(); i += 2)
        f.put((char)std::stoi(hex.substr(i, 2), nullptr, 16));
}
void do_parse(Toks &tk, std::ostream &os)
{
    std::string id = "P " + tk.tok();
    std::string hex = tk.p < tk.t.size() ? tk.tok() : "";
    write_hex_file(g_tmp_path, hex);
    std::vector<size_t> s, e, w;
    try
    {
        read_adjacency_data(boost::filesystem::path(g_tmp_path), s, e, w);
        os << id << " OK\n";
        os << id << " starts";
        for (auto x : s)
            os << " " << x;
        os << "\n" << id << " ends";
        for (auto x : e)
            os << " " << x;
        os << "\n" << id << " weights";
        for (auto x : w)
            os << " " << x;
        os << "\n";
    }
    catch (const std::exception &ex)
    {
        os << id << " ERR\n";
    }
    std::remove(g_tmp_path.c_str());
}
void do_raff(Toks &tk, std::ostream &os)
{
    std::string id = "A " + tk.tok();
    bool assort = tk.integer() == 1;
    size_t K = (size_t)tk.integer(), L = (size_t)tk.integer(), expk = (size_t)tk.integer();
    std::string hex = tk.p < tk.t.size() ? tk.tok() : "";
    write_hex_file(g_tmp_path, hex);
    std::vector<double> w(assort ? K * L : K * K * L);
    for (size_t p = 0; p < w.size(); p++)
        w[p] = -(double)p - 0.5;
    try
    {
        read_affinity_data(boost::filesystem::path(g_tmp_path), assort, w, expk);
        os << id << " OK";
        for (double x : w)
            os << " " << hx(x);
        os << "\n";
    }
    catch (const std::exception &ex)
    {
        os << id << " ERR\n";
    }
    std::remove(g_tmp_path.c_str());
}

} // namespace vh
