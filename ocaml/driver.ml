(* driver.ml -- runs the EXTRACTED float model (model.ml, from coq/Extract.v) on the case files the
   C++ harness also consumes and prints the same canonical trace lines (floats as their 64-bit
   patterns).  Hand-written glue, part of the trusted base: token parsing, nat/Z conversion, `log`.
   (The mt19937 / uniform_real_distribution<double> stream is part of the Coq model: Mt19937.v.) *)
open Model

(* ---------- conversions ---------- *)
let rec nat_of_int n = if n <= 0 then O else S (nat_of_int (n - 1))
let int_of_nat n = let rec go acc = function O -> acc | S m -> go (acc + 1) m in go 0 n
let rec pos_of_int n = if n = 1 then XH else if n land 1 = 0 then XO (pos_of_int (n lsr 1)) else XI (pos_of_int (n lsr 1))
let z_of_int n = if n = 0 then Z0 else if n > 0 then Zpos (pos_of_int n) else Zneg (pos_of_int (- n))
let f64 (x : float) : Float64.t = Float64.of_float x
let fl (x : Float64.t) : float = Float64.to_float x
let lnf x = f64 (log (fl x))
let ar : Float64.t arith = arithF lnf
let hx (x : Float64.t) =
  let y = fl x in if y <> y then "nan" else Printf.sprintf "%016Lx" (Int64.bits_of_float y)
let hxs l = String.concat " " (List.map hx l)
let ints l = String.concat " " (List.map (fun n -> string_of_int (int_of_nat n)) l)

(* the mt19937 / uniform_real_distribution<double> stream is the MODEL's (coq/Mt19937.v, extracted): mt_draws seed n *)

(* ---------- tokens ---------- *)
let toks : string array ref = ref [||]
let pos = ref 0
let tok () = let t = !toks.(!pos) in incr pos; t
let int () = int_of_string (tok ())
let flt () = f64 (float_of_string (tok ()))
let list_n n f = List.init n (fun _ -> f ())
let clist f = let n = int () in list_n n f
let chunk k l =
  let rec go acc cur c = function
    | [] -> List.rev (if cur = [] then acc else List.rev cur :: acc)
    | x :: r -> if c + 1 = k then go (List.rev (x :: cur) :: acc) [] 0 r else go acc (x :: cur) (c + 1) r in
  if k = 0 then [] else go [] [] 0 l
let out = Buffer.create (1 lsl 20)
let pr fmt = Printf.bprintf out fmt

type weight = WI of int | WR of Float64.t
let countw = function WI n -> count_int (z_of_int n) | WR x -> count_real x
let read_weight wtype = if wtype = "r" then WR (flt ()) else WI (int ())

let mat_rows_cols (m : Float64.t list list) =
  let r = List.length m in (r, if r = 0 then 0 else List.length (List.hd m))
let pr_mat id tag m =
  let (r, c) = mat_rows_cols m in pr "%s %s %d %d : %s\n" id tag r c (hxs (List.concat m))

(* ---------- GRAPH ---------- *)
let do_graph () =
  let id = "G " ^ tok () in
  let directed = int () = 1 in
  let _ltype = tok () in let wtype = tok () in
  let l = int () in let nrec = int () in
  let recs = list_n nrec (fun () -> let s = tok () in let t = tok () in let ws = list_n l (fun () -> read_weight wtype) in (s, t, ws)) in
  let mrecs = List.map (fun (s, t, ws) -> ((s, t), List.map countw ws)) recs in
  let g = build (fun a b -> String.equal a b) directed (nat_of_int l) mrecs in
  let n = int_of_nat (num_vertices g) in
  pr "%s dims %d %d %d\n" id n (int_of_nat g.nedges) l;
  pr "%s labels %s\n" id (String.concat " " g.tbl);
  List.iteri (fun a y ->
    List.iteri (fun i js -> pr "%s out %d %d : %s\n" id a i (ints js)) y.lout;
    if directed then List.iteri (fun i js -> pr "%s in %d %d : %s\n" id a i (ints js)) y.lin) g.lays;
  pr "%s ul : %s\n" id (ints (u_list g));
  pr "%s vl : %s\n" id (ints (v_list directed g));
  pr "%s nv %d\n" id (int_of_nat (get_num_vertices String.equal (List.map (fun (s,_,_) -> s) recs) (List.map (fun (_,t,_) -> t) recs)))

(* ---------- UPD: the update functions one by one, the likelihood, and one composed sweep ---------- *)
let do_upd () =
  let id = "U " ^ tok () in
  let directed = int () = 1 in let assort = int () = 1 in
  let k = int () in let l = int () in let wtype = tok () in
  let nrec = int () in
  let recs = list_n nrec (fun () -> let s = tok () in let t = tok () in let ws = list_n l (fun () -> read_weight wtype) in ((s, t), List.map countw ws)) in
  let g = build String.equal directed (nat_of_int l) recs in
  let gr = graph_of directed g in
  let nn = num_vertices g in let n = int_of_nat nn in
  let kk = nat_of_int k and ll = nat_of_int l in
  let u = chunk k (list_n (n * k) flt) in
  let v = if directed then chunk k (list_n (n * k) flt) else u in
  let wn = if assort then k * l else k * k * l in
  let wflat = list_n wn flt in
  pr "%s dims %d\n" id n;
  if assort then begin
    let w = w_of_flat_ass ar kk ll wflat in
    let wv = dget ar w in
    let u1 = upd_vertices_ass ar nn kk ll gr.gout gr.gul gr.gvl v u wv in
    pr "%s u1 %s\n" id (hxs (List.concat u1));
    if directed then begin
      let v1 = upd_vertices_ass ar nn kk ll gr.gin gr.gvl gr.gul u v wv in
      pr "%s v1 %s\n" id (hxs (List.concat v1)) end;
    let w1 = upd_affinity_ass ar nn kk ll gr.gout gr.gul gr.gvl u v wv in
    pr "%s w1 %s\n" id (hxs (flat_of_w_ass ar kk ll w1));
    pr "%s lik %s\n" id (hx (lik_ass_state ar nn kk ll directed gr ((u, v), w)));
    let ((su, sv), sw) = sweep_ass ar nn kk ll directed gr ((u, v), w) in
    pr "%s sweep_u %s\n" id (hxs (List.concat su));
    if directed then pr "%s sweep_v %s\n" id (hxs (List.concat sv));
    pr "%s sweep_w %s\n" id (hxs (flat_of_w_ass ar kk ll sw));
    pr "%s sweep_lik %s\n" id (hx (lik_ass_state ar nn kk ll directed gr ((su, sv), sw)))
  end else begin
    let w = w_of_flat_gen ar kk ll wflat in
    let wv = tget ar w in
    let u1 = upd_vertices_gen ar nn kk ll gr.gout gr.gul gr.gvl v u wv in
    pr "%s u1 %s\n" id (hxs (List.concat u1));
    if directed then begin
      let v1 = upd_vertices_gen ar nn kk ll gr.gin gr.gvl gr.gul u v (fun a b c -> wv b a c) in
      pr "%s v1 %s\n" id (hxs (List.concat v1)) end;
    let w1 = upd_affinity_gen ar nn kk ll gr.gout gr.gul gr.gvl u v wv in
    pr "%s w1 %s\n" id (hxs (flat_of_w_gen ar kk ll w1));
    pr "%s lik %s\n" id (hx (lik_gen_state ar nn kk ll directed gr ((u, v), w)));
    let ((su, sv), sw) = sweep_gen ar nn kk ll directed gr ((u, v), w) in
    pr "%s sweep_u %s\n" id (hxs (List.concat su));
    if directed then pr "%s sweep_v %s\n" id (hxs (List.concat sv));
    pr "%s sweep_w %s\n" id (hxs (flat_of_w_gen ar kk ll sw));
    pr "%s sweep_lik %s\n" id (hx (lik_gen_state ar nn kk ll directed gr ((su, sv), sw)))
  end

(* ---------- E2E: a whole call of multitensor_factorization ---------- *)
let reason_name = function NoTerm -> "NO_TERMINATION" | MaxIter -> "MAX_ITER" | Converged -> "CONVERGED"
let do_e2e () =
  let id = "E " ^ tok () in
  let directed = int () = 1 in let assort = int () = 1 in let from_init = int () = 1 in
  let _ltype = tok () in let wtype = tok () in
  let r = int () in let maxit = int () in let nconv = int () in let seed = int () in
  let starts = clist tok in let ends = clist tok in
  let weights = clist (fun () -> read_weight wtype) in
  let aff0 = clist flt in
  let u_rows = int () in let u_cols = int () in
  let u0 = chunk u_cols (list_n (u_rows * u_cols) flt) in
  let v_rows = int () in let v_cols = int () in
  let v0 = chunk v_cols (list_n (v_rows * v_cols) flt) in
  let labels0 = clist tok in
  let nscript = int () in
  let script = Array.of_list (list_n nscript (fun () -> Array.of_list (clist flt))) in
  let ovr rr it x =
    let rr = int_of_nat rr and j = int_of_nat it / 10 in
    if rr < Array.length script && j < Array.length script.(rr) then script.(rr).(j) else x in
  (* the model's library call as a function of the seed: the first draws_needed draws of mt_draws seed (coq/SeededModel.v) *)
  let call f = f ar String.equal countw ovr directed assort from_init starts ends weights
                 (nat_of_int r) (nat_of_int maxit) (nat_of_int nconv) (nat_of_int u_rows) (nat_of_int u_cols)
                 u0 v0 aff0 (z_of_int seed) in
  (match call factorize_seeded with
   | Error c ->
       pr "%s status ERR %d\n" id (int_of_nat c);
       pr "%s labels %s\n" id (String.concat " " labels0);
       pr "%s u %d %d : %s\n" id u_rows u_cols (hxs (List.concat u0));
       pr "%s v %d %d : %s\n" id v_rows v_cols (hxs (List.concat v0));
       pr "%s aff %d : %s\n" id (List.length aff0) (hxs aff0)
   | Ok res ->
       pr "%s status OK\n" id;
       pr "%s labels %s\n" id (String.concat " " res.r_labels);
       pr_mat id "u" res.r_u;
       (* the model's v is whatever was passed when nothing was adopted / undirected *)
       (if res.r_v == v0 then pr "%s v %d %d : %s\n" id v_rows v_cols (hxs (List.concat v0))
        else pr_mat id "v" res.r_v);
       pr "%s aff %d : %s\n" id (List.length res.r_aff) (hxs res.r_aff);
       pr "%s rep %d : %s\n" id (List.length res.r_rep)
         (String.concat " " (List.map (fun ((it, rs), l2) -> Printf.sprintf "%d %s %s" (int_of_nat it) (reason_name rs) (hx l2)) res.r_rep));
       let sts = call factorize_starts_seeded in
       List.iteri (fun i ((su, sv), sw) ->
         pr "%s start %d u : %s\n" id i (hxs (List.concat su));
         if directed then pr "%s start %d v : %s\n" id i (hxs (List.concat sv));
         pr "%s start %d w : %s\n" id i (hxs sw)) sts)

(* ---------- LAYOUT ---------- *)
let do_layout () =
  let id = "L " ^ tok () in
  let r = int () in let c = int () in let t = int () in
  let n = nat_of_int in
  let b = Buffer.create 1024 and bt = Buffer.create 1024 and bc = Buffer.create 1024 in
  for a = 0 to t - 1 do for j = 0 to c - 1 do for i = 0 to r - 1 do
    Buffer.add_string b (string_of_int (int_of_nat (idx (n r) (n c) (n t) (n i) (n j) (n a))) ^ " ");
    Buffer.add_string bc (string_of_int (int_of_nat (cxx_idx (n r) (n c) (n t) (n i) (n j) (n a))) ^ " ")
  done done done;
  pr "%s idx %s\n" id (Buffer.contents b);
  pr "%s cxx %s\n" id (Buffer.contents bc);
  (* transposed view of a C x R x T tensor: element (i,j,a) of the view is (j,i,a) of the tensor *)
  for a = 0 to t - 1 do for j = 0 to c - 1 do for i = 0 to r - 1 do
    Buffer.add_string bt (string_of_int (int_of_nat (idx (n c) (n r) (n t) (n j) (n i) (n a))) ^ " ")
  done done done;
  pr "%s transposed %s\n" id (Buffer.contents bt);
  pr "%s transposed_const %s\n" id (Buffer.contents bt);
  pr "%s idx_const %s\n" id (Buffer.contents b);
  (* diagonal tensor K = r, L = t *)
  let bd = Buffer.create 256 in
  for a = 0 to t - 1 do for i = 0 to r - 1 do
    Buffer.add_string bd (string_of_int (int_of_nat (idx_ass (n r) (n t) (n i) (n a))) ^ " ") done done;
  pr "%s diag %s\n" id (Buffer.contents bd);
  let bs = Buffer.create 256 in
  for a = 0 to t - 1 do for q = 0 to r - 1 do for k = 0 to r - 1 do
    Buffer.add_string bs (string_of_int (int_of_nat (idx_gen (n r) (n t) (n k) (n q) (n a))) ^ " ") done done done;
  pr "%s sym %s\n" id (Buffer.contents bs)

(* ---------- WMEM / WAFV: the token grids of the membership and affinity writers, from the MODEL's writer functions
   (CliModel.membership_rows / affinity_rows) with fmt := FmtG.fmt_g6 ---------- *)
(* operator<<(double), precision 6: the MODEL's FmtG.fmt_g6 (exact decimal rendering in Coq), not OCaml's printf *)
let g6 (x : Float64.t) : string =
  String.concat "" (List.map (fun b -> String.make 1 (Char.chr (match b with N0 -> 0 | Npos p -> let rec ip = function XH -> 1 | XO q -> 2 * ip q | XI q -> 2 * ip q + 1 in ip p))) (fmt_g6 x))
let lit_words = function 0 -> "?" | 1 -> "a=" | _ -> "?"
(* data rows only (as the harness): comment lines, blank lines and the `a= n` block headers are presentation *)
let is_data_row (r : string list) = match r with
  | [] -> false
  | t :: _ -> t <> "" && (float_of_string_opt t <> None || t = "-nan")
let do_wmem () =
  let id = "M " ^ tok () in
  let n = int () in let k = int () in
  let labels = list_n n tok in
  let m = chunk k (list_n (n * k) flt) in
  let rows = membership_rows ar g6 (fun i -> lit_words (int_of_nat i)) labels m (nat_of_int n) (nat_of_int k) in
  List.iteri (fun i r -> pr "%s line %d : %s\n" id (i + 1) (String.concat " " r)) (List.filter is_data_row rows)
let do_wafv () =
  let id = "V " ^ tok () in
  let k = int () in let l = int () in let assort = int () = 1 in
  let aff = list_n (if assort then k * l else k * k * l) flt in
  let rows = affinity_rows ar g6 (fun i -> string_of_int (int_of_nat i)) (fun i -> lit_words (int_of_nat i)) aff (nat_of_int k) (nat_of_int l) in
  List.iteri (fun i r -> pr "%s line %d :%s\n" id (i + 1) (String.concat "" (List.map (fun t -> " " ^ t) r))) (List.filter is_data_row rows)

(* ---------- RESIZE: shape and positions after Tensor::resize on a tensor that held another shape ---------- *)
let do_resize () =
  let id = "Z " ^ tok () in
  let r1 = int () in let c1 = int () in let t1 = int () in
  let r = int () in let c = int () in let t = int () in
  let n = nat_of_int in
  let sh = t_resize (t_make (n r1) (n c1) (n t1)) (n r) (n c) (n t) in
  pr "%s dims %d %d %d %d\n" id (int_of_nat sh.t_rows) (int_of_nat sh.t_cols) (int_of_nat sh.t_tubes) (int_of_nat sh.t_size);
  let b = Buffer.create 256 in
  for a = 0 to t - 1 do for j = 0 to c - 1 do for i = 0 to r - 1 do
    Buffer.add_string b (" " ^ string_of_int (int_of_nat (t_idx sh (n i) (n j) (n a)))) done done done;
  pr "%s idx%s\n" id (Buffer.contents b);
  pr "%s zeroed 1\n" id;
  pr "%s matrix %d %d 1\n" id (r * t) c

(* ---------- WAFF: the grid write_affinity_file must produce for a position-encoded vector ---------- *)
let do_waff () =
  let id = "W " ^ tok () in
  let k = int () in let l = int () in let assort = int () = 1 in
  let n = nat_of_int in
  let ln = ref 1 in
  for a = 0 to l - 1 do
    for kk = 0 to k - 1 do
      let cells = if assort then [int_of_nat (idx_ass (n k) (n l) (n kk) (n a))]
                  else List.init k (fun q -> int_of_nat (idx_gen (n k) (n l) (n kk) (n q) (n a))) in
      pr "%s line %d : %s\n" id !ln (String.concat " " (List.map string_of_int cells)); incr ln
    done
  done

(* ---------- RNG: the model's mt19937/uniform stream (Mt19937.mt_draws) ---------- *)
let do_rng () =
  let id = "R " ^ tok () in
  let seed = int () in let n = int () in
  let l = mt_draws (z_of_int seed) (nat_of_int n) in
  pr "%s draws %s\n" id (hxs l);
  pr "%s std %s\n" id (hxs l)

(* ---------- PARSE / RAFF: the front end's readers on file bytes ---------- *)
let rec n_of_int (i : int) : n = if i = 0 then N0 else Npos (pos_of_int i)
let rec int_of_pos = function XH -> 1 | XO p -> 2 * int_of_pos p | XI p -> 2 * int_of_pos p + 1
(* decimal rendering of an N that may exceed OCaml's int: go through the model's own render_nat *)
let string_of_n (x : n) : string =
  String.concat "" (List.map (fun b -> String.make 1 (Char.chr (match b with N0 -> 0 | Npos p -> int_of_pos p))) (render_nat x))
let bytes_of_hex (h : string) : int list =
  List.init (String.length h / 2) (fun i -> int_of_string ("0x" ^ String.sub h (2 * i) 2))
let do_parse () =
  let id = "P " ^ tok () in
  let bytes = if !pos < Array.length !toks then bytes_of_hex (tok ()) else [] in
  let ((s, e), w) = parse_adjacency (List.map n_of_int bytes) in
  let show l = String.concat " " (List.map string_of_n l) in
  pr "%s OK\n%s starts %s\n%s ends %s\n%s weights %s\n" id id (show s) id (show e) id (show w)

let is_space_c c = c = ' ' || (Char.code c >= 9 && Char.code c <= 13)
let tokens_of_line (l : string) : string list =
  let n = String.length l in
  let rec go i acc cur =
    if i = n then List.rev (if cur = "" then acc else cur :: acc)
    else if is_space_c l.[i] then go (i + 1) (if cur = "" then acc else cur :: acc) ""
    else go (i + 1) acc (cur ^ String.make 1 l.[i]) in
  go 0 [] ""
let all_digits t = t <> "" && String.for_all (fun c -> c >= '0' && c <= '9') t
let decimal_number t =
  (* the tokens the generator emits: [-]digits[.digits][e[+-]digits] *)
  let ok = ref (t <> "") in
  String.iter (fun c -> if not ((c >= '0' && c <= '9') || c = '.' || c = 'e' || c = 'E' || c = '-' || c = '+') then ok := false) t;
  if !ok then (match float_of_string_opt t with Some x -> Some (f64 x) | None -> None) else None
let do_raff () =
  let id = "A " ^ tok () in
  let assort = int () = 1 in let k = int () in let l = int () in let expk = int () in
  let bytes = if !pos < Array.length !toks then bytes_of_hex (tok ()) else [] in
  let content = String.concat "" (List.map (fun b -> String.make 1 (Char.chr b)) bytes) in
  let lines = String.split_on_char '\n' content in
  (* `if (line.size() == 0) continue;` then erase trailing spaces; tokenisation by whitespace *)
  let lines = List.filter (fun x -> x <> "") lines in
  let tl = List.map tokens_of_line lines in
  let n = if assort then k * l else k * k * l in
  let w0 = List.init n (fun p -> f64 (-. (float_of_int p) -. 0.5)) in
  (match read_affinity (fun t -> t = "#") decimal_number (fun t -> if all_digits t && String.length t < 9 then Some (nat_of_int (int_of_string t)) else None)
           assort tl w0 (nat_of_int expk) with
   | AffError -> pr "%s ERR\n" id
   | AffOk w -> pr "%s OK %s\n" id (hxs w))

(* ---------- CLI: the whole front end (coq/CliMain.v: cli_main) on an argument vector and a file system ---------- *)
let str_of_string (s : string) : n list = List.init (String.length s) (fun i -> n_of_int (Char.code s.[i]))
let int_of_n = function N0 -> 0 | Npos p -> int_of_pos p
let string_of_str (l : n list) : string = String.concat "" (List.map (fun b -> String.make 1 (Char.chr (int_of_n b))) l)
let string_of_hex h = String.concat "" (List.map (fun b -> String.make 1 (Char.chr b)) (bytes_of_hex h))
(* std::stoi: leading blanks, optional sign, at least one digit, the rest ignored; out of the range of int -> throws *)
let c_stoi (s : string) : int option =
  let n = String.length s in
  let i = ref 0 in
  while !i < n && is_space_c s.[!i] do incr i done;
  let neg = !i < n && s.[!i] = '-' in
  if !i < n && (s.[!i] = '-' || s.[!i] = '+') then incr i;
  let st = !i in
  let v = ref 0 and ovf = ref false in
  while !i < n && s.[!i] >= '0' && s.[!i] <= '9' do
    v := !v * 10 + Char.code s.[!i] - 48; if !v > 4294967296 then ovf := true; incr i done;
  if !i = st || !ovf then None
  else let x = if neg then - !v else !v in if x > 2147483647 || x < -2147483648 then None else Some x
let words = [| "?"; "a="; "#"; "Max"; "likelihood="; "N_real="; "Number"; "of"; "realization"; "="; "Maximum"; "Likelihood"; "Duration"; "(s)";
               "Seed"; "real"; "num_iters"; "term_reason"; "L2" |]
(* static_cast<int>(double) as x86-64 performs it (cvttsd2si: the indefinite value for NaN and out-of-range) *)
let int_cast (x : Float64.t) : string =
  let y = fl x in if y <> y || y >= 2147483648.0 || y <= -2147483649.0 then "-2147483648" else string_of_int (int_of_float y)
let string_of_z = function Z0 -> "0" | Zpos p -> string_of_n (Npos p) | Zneg p -> "-" ^ string_of_n (Npos p)
let do_cli () =
  let id = "C " ^ tok () in
  let now = int () in
  let argv = clist (fun () -> string_of_hex (let t = tok () in if t = "-" then "" else t)) in
  let files = clist (fun () -> let nm = string_of_hex (tok ()) in let t = tok () in (nm, if t = "-" then "" else string_of_hex t)) in
  let fs nm = match List.assoc_opt (string_of_str nm) files with Some c -> Some (str_of_string c) | None -> None in
  let tokenize (b : n list) =
    let content = string_of_str b in
    let lines = List.filter (fun x -> x <> "") (String.split_on_char '\n' content) in
    List.map (fun l -> List.map str_of_string (tokens_of_line l)) lines in
  let on_s f = fun t -> f (string_of_str t) in
  let r = cli_main ar (on_s (fun s -> match c_stoi s with Some i -> Some (z_of_int i) | None -> None)) fs (z_of_int now) tokenize
            (on_s (fun t -> t = "#")) (on_s decimal_number)
            (on_s (fun t -> if all_digits t && String.length t < 9 then Some (nat_of_int (int_of_string t)) else None))
            (fun x -> str_of_string (g6 x)) (fun x -> str_of_string (int_cast x)) (fun k -> str_of_string (string_of_int (int_of_nat k)))
            (fun k -> str_of_string (string_of_n k)) (fun z -> str_of_string (string_of_z z))
            (fun k -> str_of_string words.(int_of_nat k)) (fun rs -> str_of_string (reason_name rs))
            (List.map str_of_string argv) in
  match r with
  | CliThrow st -> pr "%s status ABORT %d\n" id (int_of_nat st)
  | CliOk (outdir, fl_) ->
      pr "%s status OK\n%s outdir %s\n" id id (string_of_str outdir);
      List.iter (fun (nm, rows) ->
        let rows = List.filter (fun r -> r <> []) rows in
        pr "%s file %s %d\n" id (string_of_str nm) (List.length rows);
        List.iteri (fun i row -> pr "%s row %s %d : %s\n" id (string_of_str nm) i (String.concat " " (List.map string_of_str row))) rows) fl_

let () =
  let ic = open_in Sys.argv.(1) in
  let oc = open_out Sys.argv.(2) in
  (try while true do
    let line = input_line ic in
    let ts = List.filter (fun s -> s <> "") (String.split_on_char ' ' line) in
    if ts <> [] then begin
      toks := Array.of_list ts; pos := 0;
      Buffer.clear out;
      (try
        (match tok () with
         | "GRAPH" -> do_graph ()
         | "UPD" -> do_upd ()
         | "E2E" -> do_e2e ()
         | "LAYOUT" -> do_layout ()
         | "WAFF" -> do_waff ()
         | "RESIZE" -> do_resize ()
         | "WMEM" -> do_wmem ()
         | "WAFV" -> do_wafv ()
         | "RNG" -> do_rng ()
         | "PARSE" -> do_parse ()
         | "RAFF" -> do_raff ()
         | "CLI" -> do_cli ()
         | "#" -> ()
         | c -> failwith ("unknown component " ^ c))
      with e -> pr "DRIVER-ERROR %s in: %s\n" (Printexc.to_string e) (String.sub line 0 (min 60 (String.length line))));
      Buffer.output_buffer oc out
    end
  done with End_of_file -> ());
  close_out oc
