#!/bin/sh
# build the extracted model + driver -> ocaml/mtmodel
cd "$(dirname "$0")" || exit 1
ocamlfind ocamlopt -O2 -rectypes -thread -package coq-core.kernel -linkpkg -w -a model.mli model.ml driver.ml -o mtmodel 2>&1 | grep -v "^$" | grep -iv "warning\|O2" 
test -x mtmodel
