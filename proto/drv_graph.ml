open Graph
let ib = Scanf.Scanning.open_in Sys.argv.(1)
let tok () = Scanf.bscanf ib " %s" (fun s -> s)
let rec read_ints () = let t = tok () in if t = ";" then [] else int_of_string t :: read_ints ()
let bad = ref 0 and cases = ref 0 and cmp = ref 0
let check tag a b = incr cmp; if a <> b then (incr bad; if !bad < 10 then Printf.printf "MISMATCH %s case %d\n" tag !cases)
let () =
  try while true do
    let t = tok () in if t = "" then raise End_of_file; assert (t = "CASE"); incr cases;
    let directed = tok () = "1" in let real = tok () = "1" in
    let l = int_of_string (tok ()) in let e = int_of_string (tok ()) in
    let recs = List.init e (fun _ -> assert (tok () = "R");
      let s = int_of_string (tok ()) in let t = int_of_string (tok ()) in
      let cs = List.init l (fun _ -> let w = tok () in
         if real then count_real (Float64.of_float (float_of_string w)) else count_int (int_of_string w)) in ((s, t), cs)) in
    let g = build_int directed l recs in
    assert (tok () = "NV"); let nv = int_of_string (tok ()) in assert (tok () = "NE"); let ne = int_of_string (tok ()) in
    assert (tok () = "NL"); let nl = int_of_string (tok ()) in
    if e = 0 then begin assert (tok () = "LAB"); ignore (read_ints ()); assert (tok () = "UL"); ignore (read_ints ()); assert (tok () = "VL"); ignore (read_ints ()) end
    else begin
      check "nv" nv (List.length g.tbl); check "ne" ne g.nedges; check "nl" nl (List.length g.lays);
      assert (tok () = "LAB"); check "labels" (read_ints ()) g.tbl;
      List.iter (fun y -> List.iter (fun ol -> assert (tok () = "OUT"); check "out" (read_ints ()) ol) y.lout) g.lays;
      if directed then List.iter (fun y -> List.iter (fun il -> assert (tok () = "IN"); check "in" (read_ints ()) il) y.lin) g.lays;
      assert (tok () = "UL"); check "ul" (read_ints ()) (u_list g);
      assert (tok () = "VL"); check "vl" (read_ints ()) (v_list directed g)
    end
  done with End_of_file -> Printf.printf "cases=%d compared=%d mismatches=%d\n" !cases !cmp !bad
