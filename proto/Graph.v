From Coq Require Import List Arith Bool ZArith Floats.
Import ListNotations.

Section Graph.
  Variable label : Type.
  Variable leqb : label -> label -> bool.

  (* one layer: out-lists and in-lists indexed by vertex *)
  Record layer := { lout : list (list nat); lin : list (list nat) }.
  Record net := { tbl : list label; lays : list layer; nedges : nat }.

  Fixpoint lookup_from (l : label) (t : list label) (i : nat) : option nat :=
    match t with [] => None | x :: r => if leqb l x then Some i else lookup_from l r (S i) end.
  Definition lookup l t := lookup_from l t 0.

  Definition grow (y : layer) : layer := {| lout := lout y ++ [[]]; lin := lin y ++ [[]] |}.
  Definition add_vertex (l : label) (g : net) : nat * net :=
    match lookup l (tbl g) with
    | Some i => (i, g)
    | None => (length (tbl g), {| tbl := tbl g ++ [l]; lays := map grow (lays g); nedges := nedges g |})
    end.

  Fixpoint app_at (i : nat) (x : nat) (ls : list (list nat)) : list (list nat) :=
    match ls, i with
    | [], _ => []
    | l :: r, O => (l ++ [x]) :: r
    | l :: r, S i' => l :: app_at i' x r
    end.
  Definition add_edge1 (directed : bool) (s t : nat) (y : layer) : layer :=
    if directed then {| lout := app_at s t (lout y); lin := app_at t s (lin y) |}
    else {| lout := app_at t s (app_at s t (lout y)); lin := lin y |}.
  Fixpoint iter {T} (n : nat) (f : T -> T) (x : T) : T := match n with O => x | S n' => iter n' f (f x) end.
  Fixpoint add_edges_layers (directed : bool) (s t : nat) (counts : list nat) (ys : list layer) : list layer :=
    match ys, counts with
    | y :: yr, c :: cr => iter c (add_edge1 directed s t) y :: add_edges_layers directed s t cr yr
    | _, _ => ys
    end.
  Definition add_record (directed : bool) (g : net) (r : label * label * list nat) : net :=
    let '(ls, lt, counts) := r in
    let '(s, g1) := add_vertex ls g in
    let '(t, g2) := add_vertex lt g1 in
    {| tbl := tbl g2; lays := add_edges_layers directed s t counts (lays g2);
       nedges := nedges g2 + fold_left Nat.add counts 0 |}.
  Definition empty_net (L : nat) : net := {| tbl := []; lays := repeat {| lout := []; lin := [] |} L; nedges := 0 |}.
  Definition build (directed : bool) (L : nat) (recs : list (label * label * list nat)) : net :=
    fold_left (add_record directed) recs (empty_net L).

  Definition nonempty (l : list nat) : bool := match l with [] => false | _ => true end.
  Definition has_edge (sel : layer -> list (list nat)) (g : net) (i : nat) : bool :=
    existsb (fun y => nonempty (nth i (sel y) [])) (lays g).
  Definition u_list (g : net) : list nat := filter (has_edge lout g) (seq 0 (length (tbl g))).
  Definition v_list (directed : bool) (g : net) : list nat :=
    if directed then filter (has_edge lin g) (seq 0 (length (tbl g))) else u_list g.
End Graph.

(* weights -> multiplicities *)
Definition count_int (w : Z) : nat := Z.to_nat w.             (* w > 1e-6 iff w >= 1; loop runs w times *)
Definition count_real (w : float) : nat :=
  if PrimFloat.ltb 0x1.0c6f7a0b5ed8dp-20 w then
    match Prim2SF w with
    | S754_finite false m e =>
        if (0 <=? e)%Z then Z.to_nat (Z.pos m * 2 ^ e)
        else if (e <? -53)%Z then 1%nat       (* 0 < m*2^e < 1 since m < 2^53 *)
        else let d := (2 ^ (- e))%Z in Z.to_nat ((Z.pos m + d - 1) / d)
    | _ => O
    end
  else O.

Require Import Extraction ExtrOcamlBasic ExtrOCamlFloats ExtrOCamlInt63 ExtrOcamlNatInt ExtrOcamlZInt.
Definition build_int := build Z Z.eqb.
Extraction "graph.ml" build_int u_list v_list count_int count_real.
