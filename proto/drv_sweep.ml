open Sweep
let ib = Scanf.Scanning.open_in Sys.argv.(1)
let tok () = Scanf.bscanf ib " %s" (fun s -> s)
let ff s = Float64.of_float (float_of_string s)
let lnf x = Float64.of_float (log (Float64.to_float x))
let ofc n = Float64.of_float (float_of_int n)
let rec read_list () = let t = tok () in if t = ";" then [] else let x = int_of_string t in x :: read_list ()
let read_floats n = List.init n (fun _ -> ff (tok ()))
let chunk n l = let rec go acc cur k = function [] -> List.rev (if cur=[] then acc else List.rev cur :: acc)
   | x::r -> if k+1 = n then go (List.rev (x::cur) :: acc) [] 0 r else go acc (x::cur) (k+1) r in go [] [] 0 l
let hex x = Float64.to_hex_string x
let mism = ref 0 and total = ref 0 and cases = ref 0 and likm = ref 0
let cmp tag a b = incr total; if hex a <> hex b then (incr mism; if !mism < 10 then Printf.printf "MISMATCH %s case %d: model %s impl %s\n" tag !cases (hex a) (hex b))
let () =
  try while true do
    let t = tok () in
    if t = "" then raise End_of_file;
    assert (t = "CASE");
    incr cases;
    let directed = tok () = "1" in let assort = tok () = "1" in
    let n = int_of_string (tok ()) in let k = int_of_string (tok ()) in let l = int_of_string (tok ()) in
    let rd tag = Array.init l (fun _ -> Array.init n (fun _ -> assert (tok () = tag); read_list ())) in
    let out = rd "OUT" in let inn = rd "IN" in
    assert (tok () = "UL"); let ul = read_list () in assert (tok () = "VL"); let vl = read_list () in
    let g = { gout = (fun a i -> out.(a).(i)); gin = (fun a i -> inn.(a).(i)); gul = ul; gvl = vl } in
    let read_state () =
      let u = chunk k (read_floats (n*k)) in let v = chunk k (read_floats (n*k)) in
      let wn = if assort then k*l else k*k*l in let w = read_floats wn in (u, v, w) in
    (* flat w -> model repr: general: layers of matrices rows k, cols q from flat index k + q*K + a*K*K *)
    let w_gen w = let a = Array.of_list w in List.init l (fun al -> List.init k (fun kk -> List.init k (fun q -> a.(kk + q*k + al*k*k)))) in
    let w_ass w = let a = Array.of_list w in List.init l (fun al -> List.init k (fun kk -> a.(kk + al*k))) in
    assert (tok () = "INIT");
    let (u0, v0, w0) = read_state () in
    assert (tok () = "T"); let tt = int_of_string (tok ()) in
    let cmpm tag m1 m2 = List.iter2 (fun r1 r2 -> List.iter2 (cmp tag) r1 r2) m1 m2 in
    if assort then begin
      let st = ref ((u0, v0), w_ass w0) in
      for it = 1 to tt do
        st := sweep_ass_F lnf ofc n k l directed g !st;
        assert (tok () = "STATE"); let (u, v, w) = read_state () in
        let ((mu, mv), mw) = !st in
        cmpm "u" mu u; if directed then cmpm "v" mv v; List.iter2 (fun r1 r2 -> List.iter2 (cmp "w") r1 r2) mw (w_ass w);
        if it = 1 then begin assert (tok () = "L2"); let l2 = ff (tok ()) in let ml = lik_ass_F lnf ofc n k l directed g !st in
          incr total; if hex ml <> hex l2 then (incr likm; if !likm < 5 then Printf.printf "LIK MISMATCH case %d model %s impl %s\n" !cases (hex ml) (hex l2)) end
      done end
    else begin
      let st = ref ((u0, v0), w_gen w0) in
      for it = 1 to tt do
        st := sweep_gen_F lnf ofc n k l directed g !st;
        assert (tok () = "STATE"); let (u, v, w) = read_state () in
        let ((mu, mv), mw) = !st in
        cmpm "u" mu u; if directed then cmpm "v" mv v; List.iter2 (cmpm "w") mw (w_gen w);
        if it = 1 then begin assert (tok () = "L2"); let l2 = ff (tok ()) in let ml = lik_gen_F lnf ofc n k l directed g !st in
          incr total; if hex ml <> hex l2 then (incr likm; if !likm < 5 then Printf.printf "LIK MISMATCH case %d model %s impl %s\n" !cases (hex ml) (hex l2)) end
      done end
  done with End_of_file -> Printf.printf "cases=%d compared=%d mismatches=%d lik_mismatches=%d\n" !cases !total !mism !likm
