#include <cmath>
#include <random>
#include <cstdio>
#include <memory>
#include <map>
#include "multitensor/params.hpp"
#include "multitensor/graph.hpp"
using namespace multitensor; using namespace boost;
template<class Dir> void run(std::mt19937&g, FILE*f, bool directed){
  size_t N0=1+g()%7, L=1+g()%3, E=g()%12; bool real=g()%2;
  std::vector<long> s,t; std::vector<double> wd; std::vector<long> wi;
  for(size_t e=0;e<E;e++){ s.push_back((long)(g()%N0)*7-13); t.push_back((long)(g()%N0)*7-13);
    for(size_t a=0;a<L;a++){ int c=g()%8; double x = c==0?0: c==1?1: c==2?2: c==3?2.5: c==4?1e-6: c==5?1.0000001e-6: c==6? 3.0000000000000004: 1e-7; wd.push_back(x); wi.push_back(c%4); } }
  fprintf(f,"CASE %d %d %zu %zu\n",(int)directed,(int)real,L,E);
  for(size_t e=0;e<E;e++){ fprintf(f,"R %ld %ld",s[e],t[e]); for(size_t a=0;a<L;a++){ if(real) fprintf(f," %a",wd[e*L+a]); else fprintf(f," %ld",wi[e*L+a]); } fprintf(f,"\n"); }
  auto dump=[&](auto& A){
    fprintf(f,"NV %zu NE %zu NL %zu\n",A.num_vertices(),A.num_edges(),A.num_layers());
    fprintf(f,"LAB"); for(size_t i=0;i<A.num_vertices();i++) fprintf(f," %ld",A(0)[i].label); fprintf(f," ;\n");
    for(size_t a=0;a<A.num_layers();a++) for(size_t i=0;i<A.num_vertices();i++){ fprintf(f,"OUT"); auto pr=out_edges(i,A(a)); for(auto it=pr.first;it!=pr.second;++it) fprintf(f," %zu",(size_t)target(*it,A(a))); fprintf(f," ;\n"); }
    if constexpr(std::is_same_v<Dir,bidirectionalS>) for(size_t a=0;a<A.num_layers();a++) for(size_t i=0;i<A.num_vertices();i++){ fprintf(f,"IN"); auto pr=in_edges(i,A(a)); for(auto it=pr.first;it!=pr.second;++it) fprintf(f," %zu",(size_t)source(*it,A(a))); fprintf(f," ;\n"); }
    auto ul=std::make_shared<std::vector<size_t>>(), vl=std::make_shared<std::vector<size_t>>(); A.extract_vertices_with_edges(ul,vl);
    fprintf(f,"UL"); for(auto i:*ul) fprintf(f," %zu",i); fprintf(f," ;\nVL"); for(auto i:*vl) fprintf(f," %zu",i); fprintf(f," ;\n"); };
  if(E==0){ fprintf(f,"NV 0 NE 0 NL 0\nLAB ;\nUL ;\nVL ;\n"); return; }
  if(real){ multitensor::graph::Network<long,Dir> A(s,t,wd); dump(A);} else { multitensor::graph::Network<long,Dir> A(s,t,wi); dump(A);} }
int main(int argc,char**argv){ std::mt19937 g(atoi(argv[1])); int n=atoi(argv[2]); FILE*f=fopen(argv[3],"w");
  for(int c=0;c<n;c++){ if(g()%2) run<bidirectionalS>(g,f,true); else run<undirectedS>(g,f,false);} fclose(f);} 
