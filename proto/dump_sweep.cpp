#include <cmath>
#include <random>
#include <cstdio>
#include "multitensor/main.hpp"
using namespace multitensor; using namespace boost;
struct Scripted { std::time_t seed=0; std::vector<double>* vals; size_t pos=0; double operator()(){ return (*vals)[pos++]; } };
struct init_exact { template<class T,class R> void operator()(const T& Tinit, T& t, R&){ t = Tinit; } };
template<class Dir,class Ten>
void run_case(std::mt19937& g, FILE* f, bool directed, bool assort){
  size_t N0=2+g()%6, L=1+g()%3, K=2+g()%3, E=1+g()%(3*N0);
  std::vector<size_t> s,t; std::vector<double> wt;
  for(size_t e=0;e<E;e++){ s.push_back(g()%N0); t.push_back(g()%N0); for(size_t a=0;a<L;a++){ int c=g()%4; wt.push_back(c==0?0:c==1?1:c==2?2.5:1e-7);} }
  std::set<size_t> S(s.begin(),s.end()); S.insert(t.begin(),t.end()); size_t N=S.size(); if(N<2) return;
  multitensor::graph::Network<size_t,Dir> A(s,t,wt);
  auto ul=std::make_shared<std::vector<size_t>>(), vl=std::make_shared<std::vector<size_t>>(); A.extract_vertices_with_edges(ul,vl);
  std::uniform_real_distribution<double> U(-7.5,2);
  auto rnd=[&](){ int c=g()%10; if(c==0) return 0.0; return std::pow(10,U(g)); };
  std::vector<double> aff0(assort?K*L:K*K*L); for(auto&x:aff0) x=rnd();
  std::vector<double> vals; size_t nd=(directed?vl->size()*K:0)+ul->size()*K; for(size_t i=0;i<nd;i++) vals.push_back(rnd()); vals.resize(nd+8,0.5);
  // initial state
  tensor::Matrix<double> u0(N,K), v0(N,K); size_t p=0;
  if(directed) for(size_t k=0;k<K;k++) for(auto j:*vl) v0(j,k)=vals[p++];
  for(size_t k=0;k<K;k++) for(auto j:*ul) u0(j,k)=vals[p++];
  fprintf(f,"CASE %d %d %zu %zu %zu\n",(int)directed,(int)assort,N,K,L);
  for(size_t a=0;a<L;a++) for(size_t i=0;i<N;i++){ fprintf(f,"OUT"); auto pr=out_edges(i,A(a)); for(auto it=pr.first;it!=pr.second;++it) fprintf(f," %zu",(size_t)target(*it,A(a))); fprintf(f," ;\n"); }
  for(size_t a=0;a<L;a++) for(size_t i=0;i<N;i++){ fprintf(f,"IN"); if constexpr(std::is_same_v<Dir,bidirectionalS>){ auto pr=in_edges(i,A(a)); for(auto it=pr.first;it!=pr.second;++it) fprintf(f," %zu",(size_t)source(*it,A(a))); } fprintf(f," ;\n"); }
  fprintf(f,"UL"); for(auto i:*ul) fprintf(f," %zu",i); fprintf(f," ;\nVL"); for(auto i:*vl) fprintf(f," %zu",i); fprintf(f," ;\n");
  auto dumpstate=[&](const char*tag,const tensor::Matrix<double>&u,const tensor::Matrix<double>&v,const std::vector<double>&w){
    fprintf(f,"%s\n",tag); for(size_t i=0;i<N;i++){ for(size_t k=0;k<K;k++) fprintf(f," %a",u(i,k)); } fprintf(f,"\n");
    for(size_t i=0;i<N;i++){ for(size_t k=0;k<K;k++) fprintf(f," %a",directed?v(i,k):0.0); } fprintf(f,"\n");
    for(double x:w) fprintf(f," %a",x); fprintf(f,"\n"); };
  dumpstate("INIT",u0,v0,aff0);
  size_t T=1+g()%6; fprintf(f,"T %zu\n",T);
  for(size_t it=1;it<=T;it++){
    Scripted r; r.vals=&vals; tensor::Matrix<double> u(N,K), v; std::vector<double> aff=aff0; std::vector<size_t> labels;
    auto rep=multitensor_factorization<Dir,Ten,init_exact>(s,t,wt,1,it,1000,labels,u,v,aff,r);
    dumpstate("STATE",u,directed?v:u0,aff);
    if(it==1) fprintf(f,"L2 %a\n",rep.vec_L2[0]);
  }
}
int main(int argc,char**argv){ std::mt19937 g(atoi(argv[1])); int n=atoi(argv[2]); FILE*f=fopen(argv[3],"w"); std::cout.setstate(std::ios::failbit);
  for(int c=0;c<n;c++){ int var=g()%4;
    if(var==0) run_case<undirectedS,tensor::SymmetricTensor<double>>(g,f,false,false);
    if(var==1) run_case<bidirectionalS,tensor::SymmetricTensor<double>>(g,f,true,false);
    if(var==2) run_case<undirectedS,tensor::DiagonalTensor<double>>(g,f,false,true);
    if(var==3) run_case<bidirectionalS,tensor::DiagonalTensor<double>>(g,f,true,true); }
  fclose(f); }
