(* SeedCorollaries.v -- every draw of the modelled stream of RandomGenerator<>{seed} lies in [0,1) (binary64 comparison, so it is
   not NaN either): the word bounds of the engine (SeedProofs.next32_ok) composed with the floating-point theorem
   CanonicalRange.canonical_in_unit_interval (Flocq). *)
From Coq Require Import List ZArith Floats Lia.
Import ListNotations.
From MT Require Import Mt19937 InitProofs SeedProofs CanonicalRange.

Definition in_unit (d : float) : Prop := PrimFloat.leb 0%float d = true /\ PrimFloat.ltb d 1%float = true.

Lemma next_draw_ok (s : mt_state) : mt_ok s -> mt_ok (snd (next_draw s)) /\ in_unit (fst (next_draw s)).
Proof.
  intros Hs. unfold next_draw.
  destruct (next32 s) as [x1 s1] eqn:E1.
  destruct (next32_ok s Hs) as [Hs1 Hx1]. rewrite E1 in Hs1, Hx1. cbn [fst snd] in Hs1, Hx1.
  destruct (next32 s1) as [x2 s2] eqn:E2.
  destruct (next32_ok s1 Hs1) as [Hs2 Hx2]. rewrite E2 in Hs2, Hx2. cbn [fst snd] in Hs2, Hx2.
  cbn [fst snd]. split; [exact Hs2|].
  unfold W32 in Hx1, Hx2. exact (canonical_in_unit_interval x1 x2 Hx1 Hx2).
Qed.

Lemma draws_from_in_unit (n : nat) : forall s, mt_ok s -> Forall in_unit (draws_from n s).
Proof.
  induction n as [|n IH]; intros s Hs; cbn [draws_from]; [constructor|].
  destruct (next_draw s) as [d s'] eqn:E.
  destruct (next_draw_ok s Hs) as [Hs' Hd]. rewrite E in Hs', Hd. cbn [fst snd] in Hs', Hd.
  constructor; [exact Hd | apply IH; exact Hs'].
Qed.

Theorem mt_draws_in_unit (seed : Z) (n : nat) : Forall in_unit (mt_draws seed n).
Proof. unfold mt_draws. apply draws_from_in_unit, mt_init_ok. Qed.

(* the engine is the standard one: the 10000th output of the default-seeded engine is the value the C++ standard prescribes *)
Example mt19937_standard_check : nth (Z.to_nat 9999) (outputs_from (Z.to_nat 10000) (mt_init 5489)) 0%Z = 4123659995%Z.
Proof. vm_compute. reflexivity. Qed.
