(* CliMainProofs.v -- end-to-end theorems about the command line model CliMain.cli_main:
     - what the options denote (parse_options) and the decomposition cli_main = parse_options ; cli_body
     - the abort stages (1 options, 2 adjacency file, 5 the library), the stage range
     - cli_main_is_library: on a rendered adjacency file (CliProofs.parse_render) the result files are exactly those built from
       the result of SeededModel.factorize_seeded on the parsed data
     - the names of the files written
     - parse_options / cli_main depend on argv only through has/val of the ten option names *)
From Coq Require Import List Arith Bool ZArith NArith Floats Lia.
Import ListNotations.
From MT Require Import Arith SweepModel GraphModel InitModel CtrlModel MainModel Layout CliModel Mt19937 SeededModel CliMain CliProofs.

Record cli_cfg := { c_K : nat; c_adj : str; c_wfile : str; c_out : str; c_r : nat; c_seed : str;
                    c_maxit : nat; c_nconv : nat; c_directed : bool; c_assort : bool }.

(* the ten option names *)
Definition option_names : list str :=
  [s_k; s_a; s_w; s_o; s_r; s_s; s_maxit; s_y; s_undirected; s_assortative].

Section CliMainProofs.
  Variable A : Arith float.
  Variable stoi : str -> option Z.
  Variable fs : str -> option (list byte).
  Variable now : Z.
  Variable tokenize : list byte -> list (list str).
  Variable is_hash : str -> bool.
  Variable pnum : str -> option float.
  Variable puint : str -> option nat.
  Variable fmt : float -> str.
  Variable fmt_int : float -> str.
  Variable fmt_nat : nat -> str.
  Variable fmt_N : N -> str.
  Variable fmt_Z : Z -> str.
  Variable word : nat -> str.
  Variable reason_name : reason -> str.

  Local Notation main := (cli_main A stoi fs now tokenize is_hash pnum puint fmt fmt_int fmt_nat fmt_N fmt_Z word reason_name).

  (* what the options denote: Some exactly when --k is present and the eight size_opt/str_opt calls of cli_main succeed *)
  Definition parse_options (argv : list str) : option cli_cfg :=
    if negb (has argv s_k) then None else
    match size_opt stoi argv s_k 0, str_opt argv s_a d_adjacency, str_opt argv s_w [], str_opt argv s_o d_results,
          size_opt stoi argv s_r 1, str_opt argv s_s s_random, size_opt stoi argv s_maxit 500, size_opt stoi argv s_y 10 with
    | Some K, Some adj, Some wfile, Some outdir, Some r, Some seedstr, Some maxit, Some nconv =>
        Some {| c_K := K; c_adj := adj; c_wfile := wfile; c_out := outdir; c_r := r; c_seed := seedstr;
                c_maxit := maxit; c_nconv := nconv;
                c_directed := negb (has argv s_undirected); c_assort := has argv s_assortative |}
    | _, _, _, _, _, _, _, _ => None
    end.

  (* the seed as cli_main determines it *)
  Definition seed_of (seedstr : str) : option Z := if str_eqb seedstr s_random then Some now else stoi seedstr.

  (* the files built from a library result *)
  Definition result_files (c : cli_cfg) (nv L : nat) (sd : Z) (res : result float N) : list (str * list (list str)) :=
    let best := max_L2 float A (map snd (r_rep _ _ res)) in
    let labels := map fmt_N (r_labels _ _ res) in
    let head := header fmt_int fmt_nat word best (length (r_rep _ _ res)) in
    [ (f_info, info_rows A fmt fmt_nat fmt_Z word reason_name sd (r_rep _ _ res));
      (f_w, head :: affinity_rows float A str fmt fmt_nat word (r_aff _ _ res) (c_K c) L);
      (f_u, head :: membership_rows float A str fmt word labels (r_u _ _ res) nv (c_K c)) ] ++
    (if c_directed c then [(f_v, head :: membership_rows float A str fmt word labels (r_v _ _ res) nv (c_K c))] else []).

  (* everything after the option scan, as a function of the configuration *)
  Definition cli_body (c : cli_cfg) : cli_result :=
    match fs (c_adj c) with
    | None => CliThrow 2
    | Some bytes =>
        let '(starts, ends, weights) := parse_adjacency bytes in
        let nv := get_num_vertices N N.eqb starts ends in
        let L := match starts with [] => 0 | _ => length weights / length starts end in
        let aff_size := if c_assort c then c_K c * L else c_K c * c_K c * L in
        let aff0 := repeat (zero A) aff_size in
        let from_file := negb (match c_wfile c with [] => true | _ => false end) in
        let aff1 :=
          if from_file then
            match fs (c_wfile c) with
            | None => None
            | Some wb => match read_affinity float str is_hash pnum puint (c_assort c) (tokenize wb) aff0 (c_K c) with
                         | AffOk _ w => Some w
                         | AffError _ => None
                         end
            end
          else Some aff0 in
        match aff1 with
        | None => CliThrow 3
        | Some aff =>
            match seed_of (c_seed c) with
            | None => CliThrow 4
            | Some sd =>
                let u0 := zeros float A nv (c_K c) in
                let v0 := if c_directed c then zeros float A nv (c_K c) else [] in
                match factorize_seeded A N N.eqb N N.to_nat (fun _ _ x => x) (c_directed c) (c_assort c) from_file
                                       starts ends weights (c_r c) (c_maxit c) (c_nconv c) nv (c_K c) u0 v0 aff sd with
                | Error _ _ _ => CliThrow 5
                | Ok _ _ res => CliOk (c_out c) (result_files c nv L sd res)
                end
            end
        end
    end.

  (* the decomposition *)
  Lemma cli_main_decompose argv :
    main argv = match parse_options argv with None => CliThrow 1 | Some c => cli_body c end.
  Proof.
    unfold cli_main, parse_options.
    destruct (negb (has argv s_k)); [reflexivity|].
    destruct (size_opt stoi argv s_k 0); [|reflexivity].
    destruct (str_opt argv s_a d_adjacency); [|reflexivity].
    destruct (str_opt argv s_w []); [|reflexivity].
    destruct (str_opt argv s_o d_results); [|reflexivity].
    destruct (size_opt stoi argv s_r 1); [|reflexivity].
    destruct (str_opt argv s_s s_random); [|reflexivity].
    destruct (size_opt stoi argv s_maxit 500); [|reflexivity].
    destruct (size_opt stoi argv s_y 10); [|reflexivity].
    reflexivity.
  Qed.

  Lemma parse_options_directed argv c : parse_options argv = Some c -> c_directed c = negb (has argv s_undirected).
  Proof.
    unfold parse_options.
    destruct (negb (has argv s_k)); [discriminate|].
    destruct (size_opt stoi argv s_k 0); [|discriminate].
    destruct (str_opt argv s_a d_adjacency); [|discriminate].
    destruct (str_opt argv s_w []); [|discriminate].
    destruct (str_opt argv s_o d_results); [|discriminate].
    destruct (size_opt stoi argv s_r 1); [|discriminate].
    destruct (str_opt argv s_s s_random); [|discriminate].
    destruct (size_opt stoi argv s_maxit 500); [|discriminate].
    destruct (size_opt stoi argv s_y 10); [|discriminate].
    intros E; injection E as <-. reflexivity.
  Qed.

  (* each of the three switches that select the variant is decided by the presence of ITS OWN option alone: `--assortative` counts whether or not
     `--undirected` is given (and in whatever order), `--w` likewise *)
  Lemma parse_options_flags argv c : parse_options argv = Some c ->
    c_directed c = negb (has argv s_undirected) /\ c_assort c = has argv s_assortative /\ str_opt argv s_w [] = Some (c_wfile c).
  Proof.
    unfold parse_options.
    destruct (negb (has argv s_k)); [discriminate|].
    destruct (size_opt stoi argv s_k 0); [|discriminate].
    destruct (str_opt argv s_a d_adjacency); [|discriminate].
    destruct (str_opt argv s_w []); [|discriminate].
    destruct (str_opt argv s_o d_results); [|discriminate].
    destruct (size_opt stoi argv s_r 1); [|discriminate].
    destruct (str_opt argv s_s s_random); [|discriminate].
    destruct (size_opt stoi argv s_maxit 500); [|discriminate].
    destruct (size_opt stoi argv s_y 10); [|discriminate].
    intros E; injection E as <-. repeat split.
  Qed.

  (* ---- 1 ---- *)
  Theorem cli_main_no_options_no_run argv : parse_options argv = None -> main argv = CliThrow 1.
  Proof. intros H. rewrite cli_main_decompose, H. reflexivity. Qed.

  (* ---- 2 ---- *)
  Theorem cli_main_missing_adjacency argv c :
    parse_options argv = Some c -> fs (c_adj c) = None -> main argv = CliThrow 2.
  Proof. intros H Hf. rewrite cli_main_decompose, H. unfold cli_body. rewrite Hf. reflexivity. Qed.

  (* ---- 3a ---- *)
  Lemma cli_body_stage c :
    (exists st, cli_body c = CliThrow st /\ 1 <= st <= 5) \/ (exists d fl, cli_body c = CliOk d fl).
  Proof.
    unfold cli_body.
    destruct (fs (c_adj c)) as [bytes|]; [|left; exists 2; split; [reflexivity|lia]].
    destruct (parse_adjacency bytes) as [[starts ends] weights].
    cbv zeta.
    match goal with |- context [match ?a with Some aff => _ | None => CliThrow 3 end] => destruct a as [aff|] end;
      [|left; exists 3; split; [reflexivity|lia]].
    destruct (seed_of (c_seed c)) as [sd|]; [|left; exists 4; split; [reflexivity|lia]].
    match goal with |- context [match ?f with Error _ _ _ => _ | Ok _ _ _ => _ end] => destruct f as [code|res] end.
    - left; exists 5; split; [reflexivity|lia].
    - right. eexists _, _. reflexivity.
  Qed.

  Theorem cli_main_rejected_writes_nothing argv :
    (exists st, main argv = CliThrow st /\ 1 <= st <= 5) \/ (exists d fl, main argv = CliOk d fl).
  Proof.
    rewrite cli_main_decompose. destruct (parse_options argv) as [c|].
    - apply cli_body_stage.
    - left; exists 1; split; [reflexivity|lia].
  Qed.

  (* the body when no initial affinity file is given and the seed is determined *)
  Lemma cli_body_no_wfile c bytes starts ends weights sd :
    fs (c_adj c) = Some bytes ->
    parse_adjacency bytes = (starts, ends, weights) ->
    c_wfile c = [] ->
    seed_of (c_seed c) = Some sd ->
    let nv := get_num_vertices N N.eqb starts ends in
    let L := match starts with [] => 0 | _ => length weights / length starts end in
    cli_body c =
    match factorize_seeded A N N.eqb N N.to_nat (fun _ _ x => x) (c_directed c) (c_assort c) false
                           starts ends weights (c_r c) (c_maxit c) (c_nconv c) nv (c_K c)
                           (zeros float A nv (c_K c)) (if c_directed c then zeros float A nv (c_K c) else [])
                           (repeat (zero A) (if c_assort c then c_K c * L else c_K c * c_K c * L)) sd with
    | Error _ _ _ => CliThrow 5
    | Ok _ _ res => CliOk (c_out c) (result_files c nv L sd res)
    end.
  Proof.
    intros Hf Hp Hw Hs nv L. unfold cli_body. rewrite Hf, Hp, Hw, Hs. reflexivity.
  Qed.

  Lemma str_eqb_eq : forall a b, str_eqb a b = true <-> a = b.
  Proof.
    induction a as [|x a IH]; destruct b as [|y b]; cbn [str_eqb]; split; try discriminate; try reflexivity.
    - intros H. apply andb_true_iff in H. destruct H as [H1 H2]. apply N.eqb_eq in H1. apply IH in H2. congruence.
    - intros E. injection E as -> ->. rewrite N.eqb_refl. apply IH. reflexivity.
  Qed.

  (* seed_of in words: `--s random` (or no --s) gives the clock, anything else goes through std::stoi *)
  Lemma seed_of_cases seedstr sd :
    (seedstr = s_random /\ sd = now) \/ (seedstr <> s_random /\ stoi seedstr = Some sd) <->
    seed_of seedstr = Some sd.
  Proof.
    unfold seed_of. destruct (str_eqb seedstr s_random) eqn:E.
    - apply str_eqb_eq in E. split.
      + intros [[_ ->]|[N _]]; [reflexivity|contradiction].
      + intros H. injection H as <-. left. split; [exact E|reflexivity].
    - assert (N : seedstr <> s_random) by (intros H; apply str_eqb_eq in H; congruence). split.
      + intros [[H _]|[_ H]]; [contradiction|exact H].
      + intros H. right. split; assumption.
  Qed.

  (* ---- 3b ---- *)
  Theorem cli_main_library_error argv c bytes starts ends weights sd code :
    parse_options argv = Some c ->
    fs (c_adj c) = Some bytes ->
    parse_adjacency bytes = (starts, ends, weights) ->
    c_wfile c = [] ->
    seed_of (c_seed c) = Some sd ->
    let nv := get_num_vertices N N.eqb starts ends in
    let L := match starts with [] => 0 | _ => length weights / length starts end in
    factorize_seeded A N N.eqb N N.to_nat (fun _ _ x => x) (c_directed c) (c_assort c) false
                     starts ends weights (c_r c) (c_maxit c) (c_nconv c) nv (c_K c)
                     (zeros float A nv (c_K c)) (if c_directed c then zeros float A nv (c_K c) else [])
                     (repeat (zero A) (if c_assort c then c_K c * L else c_K c * c_K c * L)) sd = Error _ _ code ->
    main argv = CliThrow 5.
  Proof.
    intros Ho Hf Hp Hw Hs nv L Hlib.
    rewrite cli_main_decompose, Ho.
    rewrite (cli_body_no_wfile c bytes starts ends weights sd Hf Hp Hw Hs).
    fold nv L. rewrite Hlib. reflexivity.
  Qed.

  (* ---- 4 ---- *)
  Theorem cli_main_is_library argv c items nl sd res :
    parse_options argv = Some c ->
    c_wfile c = [] ->
    fs (c_adj c) = Some (render_file items nl) ->
    Forall item_ok items ->
    seed_of (c_seed c) = Some sd ->
    let starts := flat_map item_src items in
    let ends := flat_map item_tgt items in
    let weights := flat_map item_wts items in
    let nv := get_num_vertices N N.eqb starts ends in
    let L := match starts with [] => 0 | _ => length weights / length starts end in
    factorize_seeded A N N.eqb N N.to_nat (fun _ _ x => x) (c_directed c) (c_assort c) false
                     starts ends weights (c_r c) (c_maxit c) (c_nconv c) nv (c_K c)
                     (zeros float A nv (c_K c)) (if c_directed c then zeros float A nv (c_K c) else [])
                     (repeat (zero A) (if c_assort c then c_K c * L else c_K c * c_K c * L)) sd = Ok _ _ res ->
    main argv = CliOk (c_out c) (result_files c nv L sd res).
  Proof.
    intros Ho Hw Hf Hok Hs starts ends weights nv L Hlib.
    rewrite cli_main_decompose, Ho.
    rewrite (cli_body_no_wfile c _ starts ends weights sd Hf (parse_render items nl Hok) Hw Hs).
    fold nv L. rewrite Hlib. reflexivity.
  Qed.

  (* the same with the files spelled out as in the definition of cli_main *)
  Corollary cli_main_is_library_files argv c items nl sd res :
    parse_options argv = Some c ->
    c_wfile c = [] ->
    fs (c_adj c) = Some (render_file items nl) ->
    Forall item_ok items ->
    (c_seed c = s_random /\ sd = now \/ c_seed c <> s_random /\ stoi (c_seed c) = Some sd) ->
    let starts := flat_map item_src items in
    let ends := flat_map item_tgt items in
    let weights := flat_map item_wts items in
    let nv := get_num_vertices N N.eqb starts ends in
    let L := match starts with [] => 0 | _ => length weights / length starts end in
    factorize_seeded A N N.eqb N N.to_nat (fun _ _ x => x) (c_directed c) (c_assort c) false
                     starts ends weights (c_r c) (c_maxit c) (c_nconv c) nv (c_K c)
                     (zeros float A nv (c_K c)) (if c_directed c then zeros float A nv (c_K c) else [])
                     (repeat (zero A) (if c_assort c then c_K c * L else c_K c * c_K c * L)) sd = Ok _ _ res ->
    let best := max_L2 float A (map snd (r_rep _ _ res)) in
    let labels := map fmt_N (r_labels _ _ res) in
    let head := header fmt_int fmt_nat word best (length (r_rep _ _ res)) in
    main argv =
    CliOk (c_out c)
      ([ (f_info, info_rows A fmt fmt_nat fmt_Z word reason_name sd (r_rep _ _ res));
         (f_w, head :: affinity_rows float A str fmt fmt_nat word (r_aff _ _ res) (c_K c) L);
         (f_u, head :: membership_rows float A str fmt word labels (r_u _ _ res) nv (c_K c)) ] ++
       (if c_directed c then [(f_v, head :: membership_rows float A str fmt word labels (r_v _ _ res) nv (c_K c))] else [])).
  Proof.
    intros Ho Hw Hf Hok Hs starts ends weights nv L Hlib best labels head.
    exact (cli_main_is_library argv c items nl sd res Ho Hw Hf Hok (proj1 (seed_of_cases _ _) Hs) Hlib).
  Qed.

  (* ---- 5 ---- *)
  Lemma result_files_names c nv L sd res :
    map fst (result_files c nv L sd res) = [f_info; f_w; f_u] ++ (if c_directed c then [f_v] else []).
  Proof. unfold result_files. cbv zeta. rewrite map_app. destruct (c_directed c); reflexivity. Qed.

  Lemma cli_body_files c d fl :
    cli_body c = CliOk d fl -> d = c_out c /\ map fst fl = [f_info; f_w; f_u] ++ (if c_directed c then [f_v] else []).
  Proof.
    unfold cli_body.
    destruct (fs (c_adj c)) as [bytes|]; [|discriminate].
    destruct (parse_adjacency bytes) as [[starts ends] weights].
    cbv zeta.
    match goal with |- context [match ?a with Some aff => _ | None => CliThrow 3 end] => destruct a as [aff|] end;
      [|discriminate].
    destruct (seed_of (c_seed c)) as [sd|]; [|discriminate].
    match goal with |- context [match ?f with Error _ _ _ => _ | Ok _ _ _ => _ end] => destruct f as [code|res] end;
      [discriminate|].
    intros E. injection E as <- <-. split; [reflexivity|apply result_files_names].
  Qed.

  Theorem cli_main_files_written argv d fl :
    main argv = CliOk d fl ->
    map fst fl = [f_info; f_w; f_u] ++ (if negb (has argv s_undirected) then [f_v] else []).
  Proof.
    rewrite cli_main_decompose. destruct (parse_options argv) as [c|] eqn:Ho; [|discriminate].
    intros E. apply cli_body_files in E. destruct E as [_ E].
    rewrite <- (parse_options_directed argv c Ho). exact E.
  Qed.

  (* the output directory is the one the options name *)
  Theorem cli_main_outdir argv d fl c :
    main argv = CliOk d fl -> parse_options argv = Some c -> d = c_out c.
  Proof.
    rewrite cli_main_decompose. intros E Ho. rewrite Ho in E. apply cli_body_files in E. tauto.
  Qed.

  (* ---- 6 ---- *)
  Definition same_options (argv argv' : list str) : Prop :=
    forall o, In o option_names -> has argv o = has argv' o /\ val argv o = val argv' o.

  Lemma size_opt_same argv argv' o d :
    has argv o = has argv' o -> val argv o = val argv' o -> size_opt stoi argv o d = size_opt stoi argv' o d.
  Proof. unfold size_opt. intros -> ->. reflexivity. Qed.
  Lemma str_opt_same argv argv' o d :
    has argv o = has argv' o -> val argv o = val argv' o -> str_opt argv o d = str_opt argv' o d.
  Proof. unfold str_opt. intros -> ->. reflexivity. Qed.

  Theorem cli_main_option_order_irrelevant argv argv' :
    same_options argv argv' -> parse_options argv = parse_options argv'.
  Proof using stoi.
    intros H. unfold parse_options.
    assert (Hin : forall o, In o option_names -> has argv o = has argv' o /\ val argv o = val argv' o) by exact H.
    destruct (Hin s_k) as [h1 v1]; [unfold option_names; repeat (first [left; reflexivity | right])|].
    destruct (Hin s_a) as [h2 v2]; [unfold option_names; repeat (first [left; reflexivity | right])|].
    destruct (Hin s_w) as [h3 v3]; [unfold option_names; repeat (first [left; reflexivity | right])|].
    destruct (Hin s_o) as [h4 v4]; [unfold option_names; repeat (first [left; reflexivity | right])|].
    destruct (Hin s_r) as [h5 v5]; [unfold option_names; repeat (first [left; reflexivity | right])|].
    destruct (Hin s_s) as [h6 v6]; [unfold option_names; repeat (first [left; reflexivity | right])|].
    destruct (Hin s_maxit) as [h7 v7]; [unfold option_names; repeat (first [left; reflexivity | right])|].
    destruct (Hin s_y) as [h8 v8]; [unfold option_names; repeat (first [left; reflexivity | right])|].
    destruct (Hin s_undirected) as [h9 _]; [unfold option_names; repeat (first [left; reflexivity | right])|].
    destruct (Hin s_assortative) as [h10 _]; [unfold option_names; repeat (first [left; reflexivity | right])|].
    rewrite (size_opt_same argv argv' s_k 0 h1 v1), (str_opt_same argv argv' s_a _ h2 v2),
            (str_opt_same argv argv' s_w _ h3 v3), (str_opt_same argv argv' s_o _ h4 v4),
            (size_opt_same argv argv' s_r 1 h5 v5), (str_opt_same argv argv' s_s _ h6 v6),
            (size_opt_same argv argv' s_maxit 500 h7 v7), (size_opt_same argv argv' s_y 10 h8 v8), h1, h9, h10.
    reflexivity.
  Qed.

  Corollary cli_main_same_options argv argv' : same_options argv argv' -> main argv = main argv'.
  Proof.
    intros H. rewrite !cli_main_decompose, (cli_main_option_order_irrelevant argv argv' H). reflexivity.
  Qed.
End CliMainProofs.

Check cli_main_no_options_no_run.
Check cli_main_missing_adjacency.
Check cli_main_rejected_writes_nothing.
Check cli_main_library_error.
Check cli_main_is_library.
Check cli_main_is_library_files.
Check cli_main_files_written.
Check cli_main_outdir.
Check cli_main_option_order_irrelevant.
Check cli_main_same_options.

Print Assumptions cli_main_no_options_no_run.
Print Assumptions cli_main_missing_adjacency.
Print Assumptions cli_main_rejected_writes_nothing.
Print Assumptions cli_main_library_error.
Print Assumptions cli_main_is_library.
Print Assumptions cli_main_is_library_files.
Print Assumptions cli_main_files_written.
Print Assumptions cli_main_outdir.
Print Assumptions cli_main_option_order_irrelevant.
Print Assumptions cli_main_same_options.
