(* Refute.v -- machine-checked refutation of the full undirected ascent claim (C01) for the general
   (asymmetric-affinity) model.  Witness: N = 2, K = 2, L = 1, one undirected edge 0-1,
   u = [[2/5; 2/5]; [3/5; 1/5]], w = [[1/5; 9/5]; [1/5; 6/5]].  One undirected sweep gives EXACTLY
   u1 = [[25/56; 75/161]; [375/592; 175/851]] and the w1 below; every guard passes, nothing is truncated,
   and LLspec drops from ln(42/125) + ln(74/125) - 229/125 (= -3.44689...) to
   ln(2198303000868849/5999202822117100) + ln(3845835354401929/5999202822117100) - 2 (= -3.44857...).
   The logarithm comparison is done by hand ((1 + y)^n <= exp (n y)), so no numeric library is needed. *)
From Coq Require Import Reals List Lra Lia Arith Bool Permutation.
Import ListNotations.
From MT Require Import Arith J MM SweepModel RInst SumLib UBlock WBlock Chain Spec LikProofs EmProofs AscentProofs.
Local Open Scope R_scope.

Definition Gx : graph :=
  {| gout := fun a i => if (a =? 0)%nat then (if (i =? 0)%nat then [1%nat] else if (i =? 1)%nat then [0%nat] else []) else [];
     gin := fun _ _ => []; gul := [0%nat;1%nat]; gvl := [0%nat;1%nat] |}.
Definition ux : matrix R := [[2/5; 2/5]; [3/5; 1/5]].
Definition wx : list (matrix R) := [[[1/5; 9/5]; [1/5; 6/5]]].
Definition u1x : matrix R := [[25/56; 75/161]; [375/592; 175/851]].


Ltac decide_guards :=
  repeat match goal with
  | |- context [Rltb (Rabs ?x) ?b] =>
      let H := fresh in
      assert (H : Rltb (Rabs x) b = false) by (apply Rltb_false; rewrite Rabs_pos_eq by lra; unfold epsR; lra);
      rewrite H; clear H
  | |- context [Rltb ?a ?b] =>
      let H := fresh in
      first [ assert (H : Rltb a b = true) by (apply Rltb_true; unfold epsR; lra)
            | assert (H : Rltb a b = false) by (apply Rltb_false; unfold epsR; lra) ];
      rewrite H; clear H
  end.

Lemma mat22 (a b c d a' b' c' d' : R) : a = a' -> b = b' -> c = c' -> d = d' -> [[a;b];[c;d]] = [[a';b'];[c';d']].
Proof. intros; subst; reflexivity. Qed.

Lemma u_step : upd_vertices_gen R ArithR 2 2 1 (gout Gx) (gul Gx) (gvl Gx) ux ux (tget R ArithR wx) = u1x.
Proof.
  cbv [upd_vertices_gen mtab map seq Zk_gen val_gen Zij_gen acc fold_left ks layers mget nth existsb Nat.eqb orb
       tget gout gul gvl Gx ux wx zero add mul div ltb eps ArithR trunc absn].
  decide_guards.
  unfold u1x. apply mat22; lra.
Qed.

Definition w1x : list (matrix R) :=
  [[[1423394748521984 / 7499003527646375; 1667100062038908 / 1047346861403125];
    [252164004371356 / 1047346861403125; 58381425232347 / 58510997843750]]].

Lemma w_step : upd_affinity_gen R ArithR 2 2 1 (gout Gx) (gul Gx) (gvl Gx) u1x u1x (tget R ArithR wx) = w1x.
Proof.
  cbv [upd_affinity_gen new_w_gen Zij_w vertices mtab map seq acc fold_left ks layers mget nth existsb Nat.eqb orb
       tget gout gul gvl Gx u1x wx zero add mul div ltb eps ArithR trunc absn].
  decide_guards.
  unfold w1x. f_equal. apply mat22; lra.
Qed.

Lemma sweep_exact v : sweep_gen R ArithR 2 2 1 false Gx (ux, v, wx) = (u1x, v, w1x).
Proof. unfold sweep_gen. rewrite u_step, w_step. reflexivity. Qed.

(* ---------------- side conditions of the witness ---------------- *)
Lemma Gx_wf : wfG 2 1 Gx.
Proof.
  constructor.
  - intros a i j Ha Hi Hj. destruct a as [|a]; [|lia].
    destruct i as [|[|i]]; cbn in Hj; intuition lia.
  - intros a j i _ _ [].
  - cbn. repeat constructor; cbn; intuition lia.
  - cbn. repeat constructor; cbn; intuition lia.
  - cbn. intuition lia.
  - cbn. intuition lia.
  - intros i a Hi Hn. exfalso. apply Hn. cbn. destruct i as [|[|i]]; [tauto|tauto|lia].
Qed.

Lemma Gx_wfu : wfG_undirected 2 1 Gx.
Proof.
  constructor; [|reflexivity].
  intros a Ha. destruct a as [|a]; [|lia].
  change (pairs_out 2 Gx 0) with [(0%nat, 1%nat); (1%nat, 0%nat)].
  cbn [map fst snd]. apply perm_swap.
Qed.

Lemma ux_nonneg : nonneg_m ux.
Proof.
  intros i k. destruct i as [|[|[|i]]]; destruct k as [|[|[|k]]]; cbv [mget nth ux zero ArithR]; lra.
Qed.

Lemma wx_nonneg : forall k q a, 0 <= tget R ArithR wx k q a.
Proof.
  intros k q a. destruct a as [|[|a]]; destruct k as [|[|[|k]]]; destruct q as [|[|[|q]]];
    cbv [tget mget nth wx zero ArithR]; lra.
Qed.

Lemma ux_zero_rows : zero_rows 2 (gul Gx) ux.
Proof.
  intros i k Hi Hn. exfalso. apply Hn. cbn. destruct i as [|[|i]]; [tauto|tauto|lia].
Qed.

Ltac cases2 i Hi := destruct i as [|[|i]]; [| |exfalso; lia].

Lemma witness_clean : clean_undirected_gen 2 2 1 Gx ux (tget R ArithR wx).
Proof.
  unfold clean_undirected_gen. cbv zeta. rewrite u_step.
  split; [|split; [|split]].
  - intros a i j Ha Hi Hj. destruct a as [|a]; [|lia]. cases2 i Hi; cbn in Hj; destruct Hj as [<-|[]];
      cbv [rate_gen sumR fold_right seq mget nth tget ux wx zero ArithR]; unfold epsR; lra.
  - intros i k Hi Hk. cases2 i Hi; cases2 k Hk;
      cbv [ZkR valR MijR sumR fold_right seq mget nth tget gout gvl Gx Nat.eqb ux wx zero ArithR trunc absn ltb eps];
      decide_guards; reflexivity.
  - intros a i j Ha Hi Hj. destruct a as [|a]; [|lia]. cases2 i Hi; cbn in Hj; destruct Hj as [<-|[]];
      cbv [rate_gen sumR fold_right seq mget nth tget u1x wx zero ArithR]; unfold epsR; lra.
  - intros k q a Hk Hq Ha. destruct a as [|a]; [|lia]. cases2 k Hk; cases2 q Hq;
      cbv [Du Dv wnum Mw sumR fold_right seq mget nth tget gout Gx Nat.eqb u1x wx zero ArithR trunc absn ltb eps];
      decide_guards; reflexivity.
Qed.

(* every entry before and after the sweep is far above eps (nothing is skipped, nothing truncated) *)
Definition all_above (m : matrix R) : Prop := Forall (Forall (fun x => epsR < x)) m.
Lemma entries_above : all_above ux /\ Forall all_above wx /\ all_above u1x /\ Forall all_above w1x.
Proof. unfold all_above, ux, wx, u1x, w1x, epsR. repeat constructor; lra. Qed.

(* ---------------- the likelihoods ---------------- *)
Lemma Amul_Gx : Amul (gout Gx) 0 0 0 = 0 /\ Amul (gout Gx) 0 0 1 = 1 /\ Amul (gout Gx) 0 1 0 = 1 /\ Amul (gout Gx) 0 1 1 = 0.
Proof. repeat split; reflexivity. Qed.

Lemma LL_before : LLspec 2 1 (gout Gx) (rate_gen 2 ux ux (tget R ArithR wx))
  = Rpower.ln (42/125) + Rpower.ln (74/125) - 229/125.
Proof.
  destruct Amul_Gx as (A00 & A01 & A10 & A11).
  cbv [LLspec sumR fold_right seq]. rewrite A00, A01, A10, A11.
  replace (rate_gen 2 ux ux (tget R ArithR wx) 0 1 0) with (42/125)
    by (cbv [rate_gen sumR fold_right seq mget nth tget ux wx zero ArithR]; lra).
  replace (rate_gen 2 ux ux (tget R ArithR wx) 1 0 0) with (74/125)
    by (cbv [rate_gen sumR fold_right seq mget nth tget ux wx zero ArithR]; lra).
  replace (rate_gen 2 ux ux (tget R ArithR wx) 0 0 0) with (68/125)
    by (cbv [rate_gen sumR fold_right seq mget nth tget ux wx zero ArithR]; lra).
  replace (rate_gen 2 ux ux (tget R ArithR wx) 1 1 0) with (9/25)
    by (cbv [rate_gen sumR fold_right seq mget nth tget ux wx zero ArithR]; lra).
  lra.
Qed.

Lemma LL_after : LLspec 2 1 (gout Gx) (rate_gen 2 u1x u1x (tget R ArithR w1x))
  = Rpower.ln (2198303000868849/5999202822117100) + Rpower.ln (3845835354401929/5999202822117100) - 2.
Proof.
  destruct Amul_Gx as (A00 & A01 & A10 & A11).
  cbv [LLspec sumR fold_right seq]. rewrite A00, A01, A10, A11.
  replace (rate_gen 2 u1x u1x (tget R ArithR w1x) 0 1 0) with (2198303000868849/5999202822117100)
    by (cbv [rate_gen sumR fold_right seq mget nth tget u1x w1x zero ArithR]; lra).
  replace (rate_gen 2 u1x u1x (tget R ArithR w1x) 1 0 0) with (3845835354401929/5999202822117100)
    by (cbv [rate_gen sumR fold_right seq mget nth tget u1x w1x zero ArithR]; lra).
  replace (rate_gen 2 u1x u1x (tget R ArithR w1x) 0 0 0) with (1906089391716413/2999601411058550)
    by (cbv [rate_gen sumR fold_right seq mget nth tget u1x w1x zero ArithR]; lra).
  replace (rate_gen 2 u1x u1x (tget R ArithR w1x) 1 1 0) with (535522126382649/1499800705529275)
    by (cbv [rate_gen sumR fold_right seq mget nth tget u1x w1x zero ArithR]; lra).
  lra.
Qed.

(* exp lower bound without any numeric library: (1 + y)^n <= exp (n y) *)
Lemma exp_pow_lower (y : R) (n : nat) : 0 < y -> (1 + y) ^ n <= exp (INR n * y).
Proof.
  intros Hy. induction n as [|n IH].
  - cbn [pow INR]. rewrite Rmult_0_l, exp_0. lra.
  - rewrite S_INR. replace ((INR n + 1) * y) with (y + INR n * y) by ring.
    rewrite exp_plus. cbn [pow].
    assert (H1 : 1 + y < exp y) by (apply exp_ineq1; lra).
    assert (H2 : 0 <= (1 + y) ^ n) by (apply pow_le; lra).
    apply Rmult_le_compat; lra.
Qed.

Lemma exp_167 : (1 + 167 / 64000) ^ 64 <= exp (167 / 1000).
Proof.
  replace (167 / 1000) with (INR 64 * (167 / 64000)).
  - apply exp_pow_lower. lra.
  - change 64%nat with (Z.to_nat 64). rewrite INR_IZR_INZ, Z2Nat.id by lia. lra.
Qed.

Lemma LL_decreases :
  LLspec 2 1 (gout Gx) (rate_gen 2 u1x u1x (tget R ArithR w1x)) + 1/1000
  < LLspec 2 1 (gout Gx) (rate_gen 2 ux ux (tget R ArithR wx)).
Proof.
  rewrite LL_before, LL_after.
  set (a1 := 2198303000868849/5999202822117100). set (b1 := 3845835354401929/5999202822117100).
  set (a0 := 42/125). set (b0 := 74/125).
  assert (Ha1 : 0 < a1) by (unfold a1; lra). assert (Hb1 : 0 < b1) by (unfold b1; lra).
  assert (Ha0 : 0 < a0) by (unfold a0; lra). assert (Hb0 : 0 < b0) by (unfold b0; lra).
  pose proof (exp_pos (167/1000)) as He.
  assert (H : Rpower.ln (a1 * b1) < Rpower.ln (a0 * b0 * exp (167/1000))).
  { apply ln_increasing; [apply Rmult_lt_0_compat; assumption|].
    pose proof exp_167 as E.
    assert (C : a1 * b1 < a0 * b0 * (1 + 167 / 64000) ^ 64) by (unfold a1, b1, a0, b0; lra).
    assert (P : 0 < a0 * b0) by (apply Rmult_lt_0_compat; assumption).
    apply Rlt_le_trans with (1 := C). apply Rmult_le_compat_l; lra. }
  rewrite !ln_mult, ln_exp in H; try assumption; [lra|apply Rmult_lt_0_compat; assumption].
Qed.

(* ---------------- R1: the undirected sweep of the general model can DECREASE the likelihood ---------------- *)
(* All hypotheses of AscentProofs.C01_undirected_partial hold for the witness (well-formed undirected
   graph, non-negative state, zero rows, clean step: no guard fires, nothing is truncated), and yet the
   Poisson log-likelihood after one full undirected sweep is strictly smaller than before. *)
Theorem C01_refuted_undirected_asym :
  exists (N K L : nat) (G : graph) (u v : matrix R) (w : list (matrix R)),
    wfG N L G /\ wfG_undirected N L G /\
    nonneg_m u /\ (forall k q a, 0 <= tget R ArithR w k q a) /\ zero_rows N (gul G) u /\
    clean_undirected_gen N K L G u (tget R ArithR w) /\
    let '(u1, v', w1) := sweep_gen R ArithR N K L false G (u, v, w) in
    (* nothing skipped, nothing truncated: every entry before and after is above eps *)
    all_above u /\ Forall all_above w /\ all_above u1 /\ Forall all_above w1 /\
    (* observed pairs keep a rate above eps after the sweep as well *)
    (forall a i j, (a < L)%nat -> (i < N)%nat -> In j (gout G a i) ->
        epsR < rate_gen K u1 u1 (tget R ArithR w1) i j a) /\
    LLspec N L (gout G) (rate_gen K u1 u1 (tget R ArithR w1))
      < LLspec N L (gout G) (rate_gen K u u (tget R ArithR w)).
Proof.
  exists 2%nat, 2%nat, 1%nat, Gx, ux, [], wx.
  split; [exact Gx_wf|]. split; [exact Gx_wfu|]. split; [exact ux_nonneg|].
  split; [exact wx_nonneg|]. split; [exact ux_zero_rows|]. split; [exact witness_clean|].
  rewrite sweep_exact.
  destruct entries_above as (E1 & E2 & E3 & E4).
  split; [exact E1|]. split; [exact E2|]. split; [exact E3|]. split; [exact E4|]. split.
  - intros a i j Ha Hi Hj. destruct a as [|a]; [|lia]. cases2 i Hi; cbn in Hj; destruct Hj as [<-|[]];
      cbv [rate_gen sumR fold_right seq mget nth tget u1x w1x zero ArithR]; unfold epsR; lra.
  - pose proof LL_decreases. lra.
Qed.

(* the same with the concrete witness and the exact result of the sweep spelled out *)
Theorem C01_refuted_undirected_asym_concrete :
  sweep_gen R ArithR 2 2 1 false Gx (ux, [], wx) = (u1x, [], w1x) /\
  LLspec 2 1 (gout Gx) (rate_gen 2 u1x u1x (tget R ArithR w1x)) + 1/1000
    < LLspec 2 1 (gout Gx) (rate_gen 2 ux ux (tget R ArithR wx)).
Proof. split; [apply sweep_exact|exact LL_decreases]. Qed.

(* ---------------- R2: the same for the code-level likelihood (Solver::calculate_likelyhood) ---------------- *)
Theorem C01_refuted_undirected_asym_lik :
  lik_gen_state R ArithR 2 2 1 false Gx (sweep_gen R ArithR 2 2 1 false Gx (ux, [], wx))
    < lik_gen_state R ArithR 2 2 1 false Gx (ux, [], wx).
Proof.
  rewrite sweep_exact.
  rewrite !lik_gen_state_formula.
  - pose proof LL_decreases. lra.
  - intros a i j Ha Hi Hj Hc. destruct a as [|a]; [|lia]. cases2 i Hi; cases2 j Hj;
      try (exfalso; cbv in Hc; lia);
      cbv [rate_gen sumR fold_right seq mget nth tget ux wx zero ArithR]; unfold epsR; lra.
  - intros a i j Ha Hi Hj Hc. destruct a as [|a]; [|lia]. cases2 i Hi; cases2 j Hj;
      try (exfalso; cbv in Hc; lia);
      cbv [rate_gen sumR fold_right seq mget nth tget u1x w1x zero ArithR]; unfold epsR; lra.
Qed.

Print Assumptions C01_refuted_undirected_asym.
Print Assumptions C01_refuted_undirected_asym_concrete.
Print Assumptions C01_refuted_undirected_asym_lik.
