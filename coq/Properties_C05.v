(* Properties_C05.v -- C05: stopping rule CONVERGED / MAX_ITER exactly as documented.
   Unbounded in max_nof_iterations, nof_convergences and in the pass/fail sequence; for every
   arithmetic, sweep and likelihood function. *)
From Coq Require Import Arith List Floats Reals String.
Import ListNotations.
From MT Require Import Arith SweepModel InitModel CtrlModel CtrlSpec CtrlProofs GenParams FloatInst.

(* A realization started in s0 stops after n sweeps with reason rs where (Post):
     1 <= n <= maxit;
     rs = CONVERGED and conv_at n   [n = 1, 11, 21, ... and the last nconv evaluations all passed],
       or rs = MAX_ITER and n = maxit and not conv_at n          (CONVERGED wins a tie);
     no earlier sweep m < n satisfies conv_at m or m = maxit;
   exactly n sweeps were applied to the state, the reported iteration count is n, and the fuel of
   the model's loop is never exhausted (rs <> NO_TERMINATION). *)
Theorem C05_stop : forall num (A : Arith num) W sweepf likf (r maxit nconv : nat) s0,
  1 <= maxit -> 1 <= nconv ->
  let '(c, rs) := realization num A W sweepf likf maxit r maxit nconv
                    {| ls_s := s0; ls_it := 0; ls_coin := 0; ls_L2 := lowest A |} in
  Post maxit nconv (passes num A W sweepf likf r s0) 0 (ls_it c) rs /\
  ls_s c = iter_sweep num W sweepf (ls_it c) s0 /\ rs <> NoTerm.
Proof.
  intros num A W sweepf likf r maxit nconv s0 Hm Hn.
  pose proof (realization_post num A W sweepf likf r maxit nconv s0 Hm Hn) as HP.
  pose proof (realization_spec num A W sweepf likf r maxit nconv s0 Hm Hn) as HS.
  destruct (realization num A W sweepf likf maxit r maxit nconv _) as [c rs].
  destruct (run_ctrl maxit nconv _ maxit 0 0) as [n rs'].
  destruct HS as [Hit [_ [Hs [_ Hnt]]]]. split; [exact HP|]. split; [rewrite Hs, Hit; reflexivity|exact Hnt].
Qed.
Print Assumptions C05_stop.

(* the pass/fail outcome of evaluation j is the documented relative-change test against the previous
   evaluation (std::numeric_limits<double>::lowest() before the first one); a failing evaluation resets
   the count: `streak` restarts at 0 (definition of streak in CtrlSpec). *)
Theorem C05_pass_predicate : forall num (A : Arith num) W sweepf likf r s0 j,
  passes num A W sweepf likf r s0 j =
  ltb A (div A (absn A (sub A (Lprev num A W sweepf likf r s0 j) (Lseq num W sweepf likf r s0 j)))
               (absn A (Lprev num A W sweepf likf r s0 j))) (eps_lik A)
  /\ Lprev num A W sweepf likf r s0 0 = lowest A
  /\ Lprev num A W sweepf likf r s0 (S j) = Lseq num W sweepf likf r s0 j
  /\ Lseq num W sweepf likf r s0 j = likf r (10 * j) (iter_sweep num W sweepf (10 * j + 1) s0).
Proof. intros. repeat split. Qed.
Print Assumptions C05_pass_predicate.

(* constants and cadence as they stand in params.hpp / solver.hpp NOW (regenerated on every run) *)
Theorem C05_params :
  cxx_eval_period = 10 /\
  cxx_EPS_PRECISION_LIKELIHOOD_F = 0x1.a36e2eb1c432dp-14%float /\      (* the double nearest 1e-4 *)
  cxx_EPS_PRECISION_LIKELIHOOD_R = (1 / 10000)%R /\
  cxx_reason_enum = ["NO_TERMINATION"; "MAX_ITER"; "CONVERGED"]%string /\
  (forall lnf, eps_lik (ArithF lnf) = cxx_EPS_PRECISION_LIKELIHOOD_F).
Proof. repeat split. Qed.
Print Assumptions C05_params.

(* (the strictness of `relative change < 1e-4` is pinned behaviourally: K-CTRL scripts likelihood pairs whose relative change is EXACTLY 1e-4 in binary64) *)

(* non-vacuity: convergence at sweep 21, MAX_ITER at 15, the tie at maxit = 21 (CONVERGED wins) *)
Example C05_ex_conv : run_ctrl 100 2 (fun j => negb (j =? 0)) 100 0 0 = (21, Converged).
Proof. vm_compute. reflexivity. Qed.
Example C05_ex_maxit : run_ctrl 15 2 (fun j => negb (j =? 0)) 15 0 0 = (15, MaxIter).
Proof. vm_compute. reflexivity. Qed.
Example C05_ex_tie : run_ctrl 21 2 (fun j => negb (j =? 0)) 21 0 0 = (21, Converged).
Proof. vm_compute. reflexivity. Qed.
