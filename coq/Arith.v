(* Arith.v -- the arithmetic the model is parametric in.  The carrier is a PARAMETER of the
   record (a field would extract to an ill-typed constant).  Mirrors params.hpp. *)
From Coq Require Import List.
Import ListNotations.

Record Arith (num : Type) := {
  zero : num; add : num -> num -> num; sub : num -> num -> num;
  mul : num -> num -> num; div : num -> num -> num; absn : num -> num;
  ltb : num -> num -> bool;
  eps : num;        (* EPS_PRECISION             params.hpp *)
  eps_lik : num;    (* EPS_PRECISION_LIKELIHOOD  params.hpp *)
  noise : num;      (* EPS_NOISE                 params.hpp *)
  lowest : num;     (* std::numeric_limits<double>::lowest() *)
  ln : num -> num;  (* std::log *)
  of_count : nat -> num  (* size_t -> double conversion *) }.

Arguments zero {num}. Arguments add {num}. Arguments sub {num}. Arguments mul {num}. Arguments div {num}.
Arguments absn {num}. Arguments ltb {num}. Arguments eps {num}. Arguments eps_lik {num}.
Arguments noise {num}. Arguments lowest {num}. Arguments ln {num}. Arguments of_count {num}.
