(* FmtGProofs.v -- correctness of the decimal rendering core of FmtG.fmt_g6 (printf("%.6g") on binary64).

   1. round6_half_unit       : round6 returns a nearest integer of the exactly scaled value, ties to even.
   2. dec_exponent_spec_cond : the two bounded correction loops find X with 10^X <= p/q < 10^(X+1) as soon as the estimate
                               est = ((log2 p - log2 q) * 30103) / 100000 satisfies 10^(est-3) <= p/q < 10^(est+6)   (the WINDOW);
      dec_exponent_window    : the window holds whenever |log2 p - log2 q| <= 1100 (checked on the 2201 values of the difference
                               against the enclosing powers of two, by two incremental scans evaluated with vm_compute);
      dec_exponent_spec      : hence the specification under that bound, and dec_exponent_spec_b64 for every (p, q) that fmt_g6
                               builds from a finite binary64 (mantissa < 2^53, -1074 <= e <= 971).
      REMARK: without any bound on log2 p - log2 q the statement is FALSE: 30103/100000 exceeds log10 2 by about 4.3e-9, so for
      p = 2^(2*10^9), q = 1 the estimate is about 8 too large and the loops (which can go down by 4 only) stop at est - 3 unchecked.
   3. fmt_digits_correct     : the pair (D, X) used by fmt_pos: 100000 <= D <= 999999, D * 10^(X-5) is p/q rounded to the nearest
                               (half to even) multiple of 10^(X-5), and X is the decimal exponent of p/q or that plus one (carry).
   4. Examples by vm_compute.
   Everything is integer arithmetic on Z (stdlib + lia/nia); no axioms. *)
From Coq Require Import List ZArith NArith Floats Bool Lia.
From MT Require Import FmtG.
Import ListNotations.
Local Open Scope Z_scope.

(* ------------------------------------------------------------------------------------------------------------------ *)
(* 1. round6                                                                                                            *)

(* the numerator / denominator round6 divides:  nn/dd = (p/q) * 10^(5 - X) exactly *)
Definition scaled (p q X : Z) : Z * Z :=
  if X <=? 5 then (p * 10 ^ (5 - X), q) else (p, q * 10 ^ (X - 5)).

(* D is a nearest integer to nn/dd, and the even one when nn/dd is half-way *)
Definition nearest_even (nn dd D : Z) : Prop :=
  2 * Z.abs (nn - D * dd) <= dd /\ (2 * Z.abs (nn - D * dd) = dd -> Z.even D = true).

Lemma round6_unfold p q X :
  round6 p q X =
  let '(nn, dd) := scaled p q X in
  let d := nn / dd in
  let r := nn mod dd in
  if (dd <? 2 * r) || ((dd =? 2 * r) && Z.odd d) then d + 1 else d.
Proof. reflexivity. Qed.

Lemma scaled_pos p q X : 0 < p -> 0 < q -> 0 < fst (scaled p q X) /\ 0 < snd (scaled p q X).
Proof.
  intros Hp Hq. unfold scaled. destruct (Z.leb_spec X 5); cbn [fst snd].
  - split; [|assumption]. apply Z.mul_pos_pos; [assumption|]. apply Z.pow_pos_nonneg; lia.
  - split; [assumption|]. apply Z.mul_pos_pos; [assumption|]. apply Z.pow_pos_nonneg; lia.
Qed.

(* nn/dd is exactly (p/q) * 10^(5-X) *)
Lemma scaled_exact p q X :
  fst (scaled p q X) * q * 10 ^ Z.max 0 (X - 5) = p * snd (scaled p q X) * 10 ^ Z.max 0 (5 - X).
Proof.
  unfold scaled. destruct (Z.leb_spec X 5); cbn [fst snd].
  - rewrite (Z.max_l 0 (X - 5)) by lia. rewrite (Z.max_r 0 (5 - X)) by lia. rewrite Z.pow_0_r. ring.
  - rewrite (Z.max_r 0 (X - 5)) by lia. rewrite (Z.max_l 0 (5 - X)) by lia. rewrite Z.pow_0_r. ring.
Qed.

Lemma round_half_even_spec nn dd : 0 < dd ->
  let d := nn / dd in
  let r := nn mod dd in
  nearest_even nn dd (if (dd <? 2 * r) || ((dd =? 2 * r) && Z.odd d) then d + 1 else d).
Proof.
  intros Hdd d r.
  assert (Hdm : nn = dd * d + r) by (apply Z.div_mod; lia).
  assert (Hr : 0 <= r < dd) by (apply Z.mod_pos_bound; lia).
  clearbody d r.
  unfold nearest_even.
  destruct (Z.ltb_spec dd (2 * r)); cbn [orb andb].
  - replace (nn - (d + 1) * dd) with (r - dd) by lia. split; lia.
  - destruct (Z.eqb_spec dd (2 * r)); cbn [orb andb].
    + destruct (Z.odd d) eqn:Ho.
      * replace (nn - (d + 1) * dd) with (r - dd) by lia. split; [lia|]. intros _.
        change (d + 1) with (Z.succ d). rewrite Z.even_succ. exact Ho.
      * replace (nn - d * dd) with r by lia. split; [lia|]. intros _.
        rewrite <- Z.negb_odd, Ho. reflexivity.
    + replace (nn - d * dd) with r by lia. split; lia.
Qed.

Theorem round6_half_unit : forall p q X, 0 < p -> 0 < q ->
  let '(nn, dd) := scaled p q X in
  let D := round6 p q X in
  0 < nn /\ 0 < dd /\
  2 * Z.abs (nn - D * dd) <= dd /\
  (2 * Z.abs (nn - D * dd) = dd -> Z.even D = true).
Proof.
  intros p q X Hp Hq. rewrite round6_unfold.
  pose proof (scaled_pos p q X Hp Hq) as [Hn Hd].
  destruct (scaled p q X) as [nn dd]. simpl in Hn, Hd. cbv zeta.
  split; [assumption|]. split; [assumption|].
  exact (round_half_even_spec nn dd Hd).
Qed.

Corollary round6_nearest_even p q X : 0 < p -> 0 < q ->
  nearest_even (fst (scaled p q X)) (snd (scaled p q X)) (round6 p q X).
Proof.
  intros Hp Hq. pose proof (round6_half_unit p q X Hp Hq) as H.
  destruct (scaled p q X) as [nn dd]. cbv zeta in H. cbn [fst snd]. unfold nearest_even. tauto.
Qed.

(* ------------------------------------------------------------------------------------------------------------------ *)
(* 2. dec_exponent                                                                                                      *)

(* le_pow10 X p q  <->  10^X <= p/q ; monotone in X *)
Lemma le_pow10_pred X p q : 0 < p -> 0 < q -> le_pow10 (X + 1) p q = true -> le_pow10 X p q = true.
Proof.
  intros Hp Hq. unfold le_pow10.
  destruct (Z.leb_spec 0 X).
  - destruct (Z.leb_spec 0 (X + 1)); [|lia].
    rewrite !Z.leb_le. replace (X + 1) with (Z.succ X) by lia. rewrite Z.pow_succ_r by lia.
    assert (0 < 10 ^ X) by (apply Z.pow_pos_nonneg; lia). nia.
  - destruct (Z.leb_spec 0 (X + 1)).
    + assert (X = -1) by lia. subst X. change (10 ^ (-1 + 1)) with 1. change (10 ^ (- -1)) with 10. rewrite !Z.leb_le. lia.
    + rewrite !Z.leb_le. replace (- X) with (Z.succ (- (X + 1))) by lia. rewrite Z.pow_succ_r by lia.
      assert (0 < 10 ^ (- (X + 1))) by (apply Z.pow_pos_nonneg; lia). nia.
Qed.

Lemma le_pow10_down X p q : 0 < p -> 0 < q -> le_pow10 X p q = true -> forall Y, Y <= X -> le_pow10 Y p q = true.
Proof.
  intros Hp Hq H Y HY. remember (Z.to_nat (X - Y)) as n eqn:En. revert Y HY En.
  induction n as [|n IH]; intros Y HY En.
  - assert (Y = X) by lia. subst Y. exact H.
  - apply le_pow10_pred; try assumption. apply IH; lia.
Qed.

Lemma le_pow10_up X p q : 0 < p -> 0 < q -> le_pow10 X p q = false -> forall Y, X <= Y -> le_pow10 Y p q = false.
Proof.
  intros Hp Hq H Y HY. destruct (le_pow10 Y p q) eqn:E; [|reflexivity].
  rewrite (le_pow10_down Y p q Hp Hq E X HY) in H. discriminate.
Qed.

(* the two bounded loops *)
Lemma adjust_down_spec p q : forall fuel X,
  le_pow10 (X - Z.of_nat fuel) p q = true ->
  le_pow10 (adjust_down fuel X p q) p q = true /\
  X - Z.of_nat fuel <= adjust_down fuel X p q <= X /\
  (adjust_down fuel X p q = X \/ le_pow10 (adjust_down fuel X p q + 1) p q = false).
Proof.
  induction fuel as [|fuel IH]; intros X H.
  - simpl in *. rewrite Z.sub_0_r in H. split; [exact H|]. split; [lia|]. left; reflexivity.
  - cbn [adjust_down]. destruct (le_pow10 X p q) eqn:E.
    + split; [exact E|]. split; [lia|]. left; reflexivity.
    + destruct (IH (X - 1)) as (A & B & C).
      { replace (X - 1 - Z.of_nat fuel) with (X - Z.of_nat (S fuel)) by lia. exact H. }
      split; [exact A|]. split; [lia|]. right. destruct C as [C|C]; [|exact C].
      rewrite C. replace (X - 1 + 1) with X by lia. exact E.
Qed.

Lemma adjust_up_spec p q : forall fuel X,
  le_pow10 X p q = true -> le_pow10 (X + Z.of_nat fuel + 1) p q = false ->
  le_pow10 (adjust_up fuel X p q) p q = true /\ le_pow10 (adjust_up fuel X p q + 1) p q = false.
Proof.
  induction fuel as [|fuel IH]; intros X H1 H2.
  - simpl in *. rewrite Z.add_0_r in H2. split; assumption.
  - cbn [adjust_up]. destruct (le_pow10 (X + 1) p q) eqn:E.
    + apply IH; [exact E|]. replace (X + 1 + Z.of_nat fuel + 1) with (X + Z.of_nat (S fuel) + 1) by lia. exact H2.
    + split; assumption.
Qed.

Definition est_of (k : Z) : Z := (k * 30103) / 100000.

Lemma dec_exponent_unfold p q :
  dec_exponent p q = adjust_up 4 (adjust_down 4 (est_of (Z.log2 p - Z.log2 q) + 1) p q) p q.
Proof. reflexivity. Qed.

(* CONDITIONAL form: the estimate is within the window the loops can correct *)
Theorem dec_exponent_spec_cond : forall p q, 0 < p -> 0 < q ->
  let est := ((Z.log2 p - Z.log2 q) * 30103) / 100000 in
  le_pow10 (est - 3) p q = true -> le_pow10 (est + 6) p q = false ->
  let X := dec_exponent p q in
  le_pow10 X p q = true /\ le_pow10 (X + 1) p q = false.
Proof.
  intros p q Hp Hq est Hlo Hhi X. subst X. rewrite dec_exponent_unfold.
  change (est_of (Z.log2 p - Z.log2 q)) with est.
  destruct (adjust_down_spec p q 4 (est + 1)) as (A & B & C).
  { replace (est + 1 - Z.of_nat 4) with (est - 3) by lia. exact Hlo. }
  apply adjust_up_spec; [exact A|].
  destruct C as [C|C].
  - rewrite C. replace (est + 1 + Z.of_nat 4 + 1) with (est + 6) by lia. exact Hhi.
  - apply (le_pow10_up _ p q Hp Hq C). lia.
Qed.

(* the window.  With k = log2 p - log2 q:  2^(k-1) < p/q < 2^(k+1); it suffices that 10^(est k - 3) <= 2^(k-1) and
   2^(k+1) < 10^(est k + 6).  Both are checked for every |k| <= 1100 by two incremental scans (one upwards from 0, one downwards
   from 0) that carry 2^|k| and 10^|est k| along, so that the whole check is a few thousand additions. *)
Definition est_neg (n : Z) : Z := - est_of (- n).

Lemma est_of_nonneg k : 0 <= k -> 0 <= est_of k.
Proof. intros H. unfold est_of. apply Z.div_pos; lia. Qed.

Lemma est_neg_nonneg n : 0 <= n -> 0 <= est_neg n.
Proof.
  intros H. unfold est_neg, est_of.
  assert (- n * 30103 / 100000 <= 0) by (apply Z.div_le_upper_bound; lia). lia.
Qed.

Lemma est_neg_pos n : 0 < n -> 0 < est_neg n.
Proof.
  intros H. unfold est_neg, est_of.
  assert (- n * 30103 / 100000 < 0) by (apply Z.div_lt_upper_bound; lia). lia.
Qed.

(* scan g ok n k (2^k) (10^(g k)) checks ok (2^i) (10^(g i)) for k <= i < k + n *)
Fixpoint scan (g : Z -> Z) (ok : Z -> Z -> bool) (n : nat) (k P2 P10 : Z) : bool :=
  match n with
  | O => true
  | S m =>
      ok P2 P10 &&
      (let k' := k + 1 in
       let P10' := if g k' =? g k then P10 else if g k' =? g k + 1 then 10 * P10 else 10 ^ g k' in
       scan g ok m k' (2 * P2) P10')
  end.

Lemma scan_spec g ok : (forall k, 0 <= k -> 0 <= g k) ->
  forall n k P2 P10, 0 <= k -> P2 = 2 ^ k -> P10 = 10 ^ g k -> scan g ok n k P2 P10 = true ->
  forall i, k <= i < k + Z.of_nat n -> ok (2 ^ i) (10 ^ g i) = true.
Proof.
  intros Hg. induction n as [|n IH]; intros k P2 P10 Hk E2 E10 H i Hi.
  - lia.
  - cbn [scan] in H. apply andb_prop in H. destruct H as [H0 H1]. cbv zeta in H1.
    destruct (Z.eq_dec i k) as [->|Hne]; [rewrite <- E2, <- E10; exact H0|].
    apply (IH (k + 1) _ _ ltac:(lia)) with (i := i) in H1; [exact H1| | |lia].
    + rewrite E2. replace (k + 1) with (Z.succ k) by lia. rewrite Z.pow_succ_r by lia. reflexivity.
    + destruct (Z.eqb_spec (g (k + 1)) (g k)) as [E|_]; [rewrite E; exact E10|].
      destruct (Z.eqb_spec (g (k + 1)) (g k + 1)) as [E|_]; [|reflexivity].
      rewrite E, E10. replace (g k + 1) with (Z.succ (g k)) by lia.
      rewrite Z.pow_succ_r by (apply Hg; lia). reflexivity.
Qed.

Definition ok_pos (P2 P10 : Z) : bool := (2 * P10 <=? 1000 * P2) && (2 * P2 <? 1000000 * P10).
Definition ok_neg (P2 P10 : Z) : bool := (2 * P2 <=? 1000 * P10) && (2 * P10 <? 1000000 * P2).

Definition window_bound : Z := 1100.

Lemma scan_pos : scan est_of ok_pos (Z.to_nat (window_bound + 1)) 0 1 1 = true.
Proof. vm_cast_no_check (eq_refl true). Qed.
Lemma scan_neg : scan est_neg ok_neg (Z.to_nat (window_bound + 1)) 0 1 1 = true.
Proof. vm_cast_no_check (eq_refl true). Qed.

(* k >= 0:  10^(est k - 3) <= 2^(k-1)  and  2^(k+1) < 10^(est k + 6), cleared of negative exponents *)
Lemma window_pos k : 0 <= k <= window_bound ->
  2 * 10 ^ est_of k <= 1000 * 2 ^ k /\ 2 * 2 ^ k < 1000000 * 10 ^ est_of k.
Proof.
  intros Hk.
  pose proof (scan_spec est_of ok_pos est_of_nonneg _ 0 1 1 ltac:(lia) eq_refl eq_refl scan_pos k) as H.
  rewrite Z2Nat.id in H by (unfold window_bound; lia).
  specialize (H ltac:(lia)). unfold ok_pos in H. apply andb_prop in H.
  rewrite Z.leb_le, Z.ltb_lt in H. exact H.
Qed.

(* k = -n < 0, est k = - est_neg n:  2^(n+1) <= 10^(est_neg n + 3)  and  10^(est_neg n) * 2 < 10^6 * 2^n *)
Lemma window_neg n : 0 <= n <= window_bound ->
  2 * 2 ^ n <= 1000 * 10 ^ est_neg n /\ 2 * 10 ^ est_neg n < 1000000 * 2 ^ n.
Proof.
  intros Hn.
  pose proof (scan_spec est_neg ok_neg est_neg_nonneg _ 0 1 1 ltac:(lia) eq_refl eq_refl scan_neg n) as H.
  rewrite Z2Nat.id in H by (unfold window_bound; lia).
  specialize (H ltac:(lia)). unfold ok_neg in H. apply andb_prop in H.
  rewrite Z.leb_le, Z.ltb_lt in H. exact H.
Qed.

Lemma pow10_split c e : 0 <= c -> c <= e -> 10 ^ e = 10 ^ c * 10 ^ (e - c).
Proof. intros Hc He. rewrite <- Z.pow_add_r by lia. f_equal. lia. Qed.

Theorem dec_exponent_window : forall p q, 0 < p -> 0 < q ->
  - window_bound <= Z.log2 p - Z.log2 q <= window_bound ->
  let est := ((Z.log2 p - Z.log2 q) * 30103) / 100000 in
  le_pow10 (est - 3) p q = true /\ le_pow10 (est + 6) p q = false.
Proof.
  intros p q Hp Hq Hk est.
  set (a := Z.log2 p) in *. set (b := Z.log2 q) in *.
  assert (Ha : 0 <= a) by apply Z.log2_nonneg.
  assert (Hb : 0 <= b) by apply Z.log2_nonneg.
  destruct (Z.log2_spec p Hp) as [Hp1 Hp2]. destruct (Z.log2_spec q Hq) as [Hq1 Hq2].
  fold a in Hp1, Hp2. fold b in Hq1, Hq2.
  rewrite Z.pow_succ_r in Hp2, Hq2 by assumption.
  destruct (Z.le_gt_cases 0 (a - b)) as [Hs|Hs].
  - (* k >= 0 : p/q in (2^(k-1), 2^(k+1)) with 2^a = 2^b * 2^k *)
    change est with (est_of (a - b)). set (k := a - b) in *. clear est.
    destruct (window_pos k ltac:(lia)) as [FA FB].
    pose proof (est_of_nonneg k Hs) as He. set (e := est_of k) in *.
    assert (Ea : 2 ^ a = 2 ^ b * 2 ^ k) by (rewrite <- Z.pow_add_r by lia; f_equal; unfold k; lia).
    rewrite Ea in Hp1, Hp2.
    assert (PB : 0 < 2 ^ b) by (apply Z.pow_pos_nonneg; lia).
    assert (PK : 0 < 2 ^ k) by (apply Z.pow_pos_nonneg; lia).
    set (B := 2 ^ b) in *. set (K := 2 ^ k) in *. clearbody B K.
    unfold le_pow10. split.
    + destruct (Z.leb_spec 0 (e - 3)).
      * apply Z.leb_le. rewrite (pow10_split 3 e) in FA by lia. change (10 ^ 3) with 1000 in FA.
        assert (Pt : 0 < 10 ^ (e - 3)) by (apply Z.pow_pos_nonneg; lia).
        set (t := 10 ^ (e - 3)) in *. clearbody t.
        assert (t * q <= t * (2 * B)) by (apply Z.mul_le_mono_nonneg_l; lia).
        assert (2 * t * B <= K * B) by (apply Z.mul_le_mono_nonneg_r; lia).
        lia.
      * apply Z.leb_le. replace (- (e - 3)) with (3 - e) by lia.
        assert (E3 : 1000 = 10 ^ e * 10 ^ (3 - e)) by (change 1000 with (10 ^ 3); apply pow10_split; lia).
        assert (Pu : 0 < 10 ^ e) by (apply Z.pow_pos_nonneg; lia).
        assert (Ps : 0 < 10 ^ (3 - e)) by (apply Z.pow_pos_nonneg; lia).
        set (u := 10 ^ e) in *. set (s := 10 ^ (3 - e)) in *. clearbody u s.
        assert (2 <= s * K) by nia.
        assert (2 * B <= s * K * B) by (apply Z.mul_le_mono_nonneg_r; lia).
        assert (B * K * s <= p * s) by (apply Z.mul_le_mono_nonneg_r; lia).
        lia.
    + destruct (Z.leb_spec 0 (e + 6)); [|lia].
      apply Z.leb_gt. rewrite (pow10_split 6 (e + 6)) by lia. change (10 ^ 6) with 1000000.
      replace (e + 6 - 6) with e by lia.
      assert (Pu : 0 < 10 ^ e) by (apply Z.pow_pos_nonneg; lia).
      set (u := 10 ^ e) in *. clearbody u.
      assert (2 * K * B <= 1000000 * u * B) by (apply Z.mul_le_mono_nonneg_r; lia).
      assert (1000000 * u * B <= 1000000 * u * q) by (apply Z.mul_le_mono_nonneg_l; lia).
      lia.
  - (* k = -n < 0 : 2^b = 2^a * 2^n, est = - f with f > 0 *)
    set (n := b - a). assert (Hn : 0 < n <= window_bound) by (unfold n; lia).
    assert (Ee : est = - est_neg n).
    { unfold est_neg, est_of, est, n. replace (- (b - a)) with (a - b) by lia. lia. }
    destruct (window_neg n ltac:(lia)) as [FA FB].
    pose proof (est_neg_pos n ltac:(lia)) as Hf. set (f := est_neg n) in *.
    rewrite Ee. clear Ee est.
    assert (Eb : 2 ^ b = 2 ^ a * 2 ^ n) by (rewrite <- Z.pow_add_r by lia; f_equal; unfold n; lia).
    rewrite Eb in Hq1, Hq2.
    assert (PA : 0 < 2 ^ a) by (apply Z.pow_pos_nonneg; lia).
    assert (PN : 0 < 2 ^ n) by (apply Z.pow_pos_nonneg; lia).
    set (A := 2 ^ a) in *. set (N := 2 ^ n) in *. clearbody A N.
    unfold le_pow10. split.
    + destruct (Z.leb_spec 0 (- f - 3)); [lia|].
      apply Z.leb_le. replace (- (- f - 3)) with (f + 3) by lia.
      rewrite (pow10_split 3 (f + 3)) by lia. change (10 ^ 3) with 1000. replace (f + 3 - 3) with f by lia.
      assert (Pw : 0 < 10 ^ f) by (apply Z.pow_pos_nonneg; lia).
      set (w := 10 ^ f) in *. clearbody w.
      assert (2 * N * A <= 1000 * w * A) by (apply Z.mul_le_mono_nonneg_r; lia).
      assert (A * (1000 * w) <= p * (1000 * w)) by (apply Z.mul_le_mono_nonneg_r; lia).
      lia.
    + destruct (Z.leb_spec 0 (- f + 6)).
      * apply Z.leb_gt. replace (- f + 6) with (6 - f) by lia.
        assert (E6 : 1000000 = 10 ^ f * 10 ^ (6 - f)) by (change 1000000 with (10 ^ 6); apply pow10_split; lia).
        assert (Pw : 0 < 10 ^ f) by (apply Z.pow_pos_nonneg; lia).
        assert (Pv : 0 < 10 ^ (6 - f)) by (apply Z.pow_pos_nonneg; lia).
        set (w := 10 ^ f) in *. set (v := 10 ^ (6 - f)) in *. clearbody w v.
        assert (2 < v * N) by nia.
        assert (2 * A <= v * N * A) by (apply Z.mul_le_mono_nonneg_r; lia).
        assert (v * (A * N) <= v * q) by (apply Z.mul_le_mono_nonneg_l; lia).
        lia.
      * apply Z.leb_gt. replace (- (- f + 6)) with (f - 6) by lia.
        rewrite (pow10_split 6 f) in FB by lia. change (10 ^ 6) with 1000000 in FB.
        assert (Pz : 0 < 10 ^ (f - 6)) by (apply Z.pow_pos_nonneg; lia).
        set (z := 10 ^ (f - 6)) in *. clearbody z.
        assert (p * z <= (2 * A - 1) * z) by (apply Z.mul_le_mono_nonneg_r; lia).
        assert (2 * z * A <= N * A) by (apply Z.mul_le_mono_nonneg_r; lia).
        lia.
Qed.

(* the specification, for every p/q whose binary exponents differ by at most 1100 (all binary64 values do) *)
Theorem dec_exponent_spec : forall p q, 0 < p -> 0 < q ->
  - window_bound <= Z.log2 p - Z.log2 q <= window_bound ->
  let X := dec_exponent p q in
  le_pow10 X p q = true /\ le_pow10 (X + 1) p q = false.
Proof.
  intros p q Hp Hq Hk. destruct (dec_exponent_window p q Hp Hq Hk) as [A B].
  exact (dec_exponent_spec_cond p q Hp Hq A B).
Qed.

(* the (p, q) that fmt_g6 builds from a finite binary64 *)
Definition b64_frac (m : positive) (e : Z) : Z * Z :=
  if 0 <=? e then (Z.pos m * 2 ^ e, 1) else (Z.pos m, 2 ^ (- e)).

Lemma fmt_g6_finite x s m e : Prim2SF x = S754_finite s m e ->
  fmt_g6 x = (if s then [45%N] else []) ++ fmt_pos (fst (b64_frac m e)) (snd (b64_frac m e)).
Proof.
  intros H. unfold fmt_g6, b64_frac. rewrite H. destruct (0 <=? e); reflexivity.
Qed.

Lemma b64_frac_bounds m e : Z.pos m < 2 ^ 53 -> -1074 <= e <= 971 ->
  let '(p, q) := b64_frac m e in
  0 < p /\ 0 < q /\ - window_bound <= Z.log2 p - Z.log2 q <= window_bound.
Proof.
  intros Hm He. unfold b64_frac, window_bound.
  assert (Hl : 0 <= Z.log2 (Z.pos m) < 53).
  { split; [apply Z.log2_nonneg|]. apply Z.log2_lt_pow2; lia. }
  destruct (Z.leb_spec 0 e).
  - assert (0 < 2 ^ e) by (apply Z.pow_pos_nonneg; lia).
    split; [nia|]. split; [lia|].
    rewrite Z.log2_mul_pow2 by lia. change (Z.log2 1) with 0. lia.
  - assert (0 < 2 ^ (- e)) by (apply Z.pow_pos_nonneg; lia).
    split; [lia|]. split; [assumption|].
    rewrite Z.log2_pow2 by lia. lia.
Qed.

Corollary dec_exponent_spec_b64 : forall m e, Z.pos m < 2 ^ 53 -> -1074 <= e <= 971 ->
  let '(p, q) := b64_frac m e in
  let X := dec_exponent p q in
  le_pow10 X p q = true /\ le_pow10 (X + 1) p q = false.
Proof.
  intros m e Hm He. pose proof (b64_frac_bounds m e Hm He) as H.
  destruct (b64_frac m e) as [p q]. destruct H as (Hp & Hq & Hk).
  exact (dec_exponent_spec p q Hp Hq Hk).
Qed.

(* ------------------------------------------------------------------------------------------------------------------ *)
(* 3. composition                                                                                                       *)

(* 10^X <= p/q  gives  10^5 <= nn/dd ;  p/q < 10^(X+1)  gives  nn/dd < 10^6 *)
Lemma scaled_lower p q X : 0 < p -> 0 < q -> le_pow10 X p q = true ->
  100000 * snd (scaled p q X) <= fst (scaled p q X).
Proof.
  intros Hp Hq. unfold le_pow10, scaled.
  destruct (Z.leb_spec 0 X); destruct (Z.leb_spec X 5); cbn [fst snd]; rewrite Z.leb_le; intros H1; try lia.
  - assert (E : 10 ^ X * 10 ^ (5 - X) = 100000).
    { rewrite <- Z.pow_add_r by lia. replace (X + (5 - X)) with 5 by lia. reflexivity. }
    assert (0 < 10 ^ (5 - X)) by (apply Z.pow_pos_nonneg; lia).
    set (u := 10 ^ X) in *. set (v := 10 ^ (5 - X)) in *. nia.
  - assert (E : 10 ^ X = 100000 * 10 ^ (X - 5)).
    { change 100000 with (10 ^ 5). rewrite <- Z.pow_add_r by lia. f_equal. lia. }
    rewrite E in H1. lia.
  - assert (E : 10 ^ (5 - X) = 100000 * 10 ^ (- X)).
    { change 100000 with (10 ^ 5). rewrite <- Z.pow_add_r by lia. f_equal. }
    rewrite E. set (t := 10 ^ (- X)) in *. nia.
Qed.

Lemma scaled_upper p q X : 0 < p -> 0 < q -> le_pow10 (X + 1) p q = false ->
  fst (scaled p q X) < 1000000 * snd (scaled p q X).
Proof.
  intros Hp Hq. unfold le_pow10, scaled.
  destruct (Z.leb_spec 0 (X + 1)); destruct (Z.leb_spec X 5); cbn [fst snd]; rewrite Z.leb_gt; intros H1; try lia.
  - assert (E : 10 ^ (X + 1) * 10 ^ (5 - X) = 1000000).
    { rewrite <- Z.pow_add_r by lia. replace (X + 1 + (5 - X)) with 6 by lia. reflexivity. }
    assert (0 < 10 ^ (5 - X)) by (apply Z.pow_pos_nonneg; lia).
    set (u := 10 ^ (X + 1)) in *. set (v := 10 ^ (5 - X)) in *. nia.
  - assert (E : 10 ^ (X + 1) = 1000000 * 10 ^ (X - 5)).
    { change 1000000 with (10 ^ 6). rewrite <- Z.pow_add_r by lia. f_equal. lia. }
    rewrite E in H1. lia.
  - assert (E : 10 ^ (5 - X) = 1000000 * 10 ^ (- (X + 1))).
    { change 1000000 with (10 ^ 6). rewrite <- Z.pow_add_r by lia. f_equal. lia. }
    rewrite E. set (t := 10 ^ (- (X + 1))) in *. nia.
Qed.

(* one decimal place up: nn'/dd' = (nn/dd) / 10 *)
Lemma scaled_succ p q X :
  fst (scaled p q X) * snd (scaled p q (X + 1)) = 10 * fst (scaled p q (X + 1)) * snd (scaled p q X).
Proof.
  unfold scaled. destruct (Z.leb_spec X 5); destruct (Z.leb_spec (X + 1) 5); cbn [fst snd]; try lia.
  - replace (5 - X) with (Z.succ (5 - (X + 1))) by lia. rewrite Z.pow_succ_r by lia. ring.
  - assert (X = 5) by lia. subst X. change (10 ^ (5 - 5)) with 1. change (10 ^ (5 + 1 - 5)) with 10. ring.
  - replace (X + 1 - 5) with (Z.succ (X - 5)) by lia. rewrite Z.pow_succ_r by lia. ring.
Qed.

(* the pair (D, X) fmt_pos prints *)
Definition fmt_digits (p q : Z) : Z * Z :=
  let X0 := dec_exponent p q in
  let D0 := round6 p q X0 in
  if D0 =? 1000000 then (100000, X0 + 1) else (D0, X0).

Lemma fmt_pos_unfold p q :
  fmt_pos p q =
  let '(D, X) := fmt_digits p q in
  let ds := pad_left 6 (digits_of D) in
  if (X <? -4) || (6 <=? X) then
    let frac := strip_trailing_zeros (tl ds) in
    let mant := match frac with [] => [hd 48%N ds] | _ => hd 48%N ds :: 46%N :: frac end in
    let ex := pad_left 2 (digits_of (Z.abs X)) in
    mant ++ [101%N; (if X <? 0 then 45%N else 43%N)] ++ ex
  else if 0 <=? X then
    let ip := firstn (Z.to_nat (X + 1)) ds in
    let frac := strip_trailing_zeros (skipn (Z.to_nat (X + 1)) ds) in
    match frac with [] => ip | _ => ip ++ 46%N :: frac end
  else
    let frac := strip_trailing_zeros (repeat 48%N (Z.to_nat (- X - 1)) ++ ds) in
    [48%N; 46%N] ++ frac.
Proof. reflexivity. Qed.

(* "D * 10^(X-5) is p/q correctly rounded to 6 significant decimal digits, half to even":
   - X0 is the decimal exponent of p/q;
   - D has exactly 6 digits;
   - D is the nearest integer (half to even) to (p/q) * 10^(5-X), i.e. D * 10^(X-5) is the nearest multiple of 10^(X-5);
   - X = X0, except when rounding carries to 10^(X0+1): then X = X0 + 1 and D = 100000  (D * 10^(X-X0) = D0 always). *)
Definition fmt_digits_spec (p q : Z) : Prop :=
  let X0 := dec_exponent p q in
  let D0 := round6 p q X0 in
  let '(D, X) := fmt_digits p q in
  (le_pow10 X0 p q = true /\ le_pow10 (X0 + 1) p q = false) /\
  100000 <= D <= 999999 /\
  (X0 <= X <= X0 + 1 /\ D * 10 ^ (X - X0) = D0) /\
  (let '(nn, dd) := scaled p q X in
   0 < dd /\ 2 * Z.abs (nn - D * dd) <= dd /\ (2 * Z.abs (nn - D * dd) = dd -> Z.even D = true)).

Lemma fmt_digits_of_exponent p q : 0 < p -> 0 < q ->
  (let X0 := dec_exponent p q in le_pow10 X0 p q = true /\ le_pow10 (X0 + 1) p q = false) ->
  fmt_digits_spec p q.
Proof.
  intros Hp Hq HX. unfold fmt_digits_spec, fmt_digits. cbv zeta in *.
  set (X0 := dec_exponent p q) in *. destruct HX as [HX1 HX2].
  pose proof (round6_nearest_even p q X0 Hp Hq) as [HN HE].
  pose proof (scaled_lower p q X0 Hp Hq HX1) as HL.
  pose proof (scaled_upper p q X0 Hp Hq HX2) as HU.
  pose proof (scaled_pos p q X0 Hp Hq) as [Hn0 Hd0].
  pose proof (scaled_pos p q (X0 + 1) Hp Hq) as [Hn1 Hd1].
  pose proof (scaled_succ p q X0) as HS.
  set (D0 := round6 p q X0) in *.
  assert (HD : 100000 <= D0 <= 1000000).
  { set (nn := fst (scaled p q X0)) in *. set (dd := snd (scaled p q X0)) in *. split; nia. }
  destruct (Z.eqb_spec D0 1000000) as [Heq|Hne].
  - split; [split; assumption|]. split; [lia|]. split.
    { split; [lia|]. replace (X0 + 1 - X0) with 1 by lia. rewrite Heq. reflexivity. }
    destruct (scaled p q (X0 + 1)) as [nn1 dd1]. destruct (scaled p q X0) as [nn dd]. cbn [fst snd] in *.
    rewrite Heq in HN. clear HE HL HU.
    assert (2 * Z.abs (nn1 - 100000 * dd1) <= dd1).
    { assert (2 * Z.abs (nn * dd1 - 1000000 * dd * dd1) <= dd * dd1).
      { replace (nn * dd1 - 1000000 * dd * dd1) with ((nn - 1000000 * dd) * dd1) by ring.
        rewrite Z.abs_mul, (Z.abs_eq dd1) by lia. nia. }
      rewrite HS in H.
      replace (10 * nn1 * dd - 1000000 * dd * dd1) with ((nn1 - 100000 * dd1) * (10 * dd)) in H by ring.
      rewrite Z.abs_mul in H. rewrite (Z.abs_eq (10 * dd)) in H by lia.
      assert (0 <= Z.abs (nn1 - 100000 * dd1)) by apply Z.abs_nonneg.
      nia. }
    split; [assumption|]. split; [assumption|]. intros _. reflexivity.
  - split; [split; assumption|]. split; [lia|]. split.
    { split; [lia|]. rewrite Z.sub_diag. rewrite Z.pow_0_r. ring. }
    destruct (scaled p q X0) as [nn dd]. cbn [fst snd] in *. tauto.
Qed.

(* conditional on the window of the estimate *)
Theorem fmt_digits_correct_cond : forall p q, 0 < p -> 0 < q ->
  let est := ((Z.log2 p - Z.log2 q) * 30103) / 100000 in
  le_pow10 (est - 3) p q = true -> le_pow10 (est + 6) p q = false ->
  fmt_digits_spec p q.
Proof.
  intros p q Hp Hq est A B. apply fmt_digits_of_exponent; try assumption.
  exact (dec_exponent_spec_cond p q Hp Hq A B).
Qed.

(* under the bound on the binary exponents (no window hypothesis) *)
Theorem fmt_digits_correct : forall p q, 0 < p -> 0 < q ->
  - window_bound <= Z.log2 p - Z.log2 q <= window_bound ->
  fmt_digits_spec p q.
Proof.
  intros p q Hp Hq Hk. apply fmt_digits_of_exponent; try assumption.
  exact (dec_exponent_spec p q Hp Hq Hk).
Qed.

(* for every finite non-zero binary64 *)
Corollary fmt_digits_correct_b64 : forall m e, Z.pos m < 2 ^ 53 -> -1074 <= e <= 971 ->
  fmt_digits_spec (fst (b64_frac m e)) (snd (b64_frac m e)).
Proof.
  intros m e Hm He. pose proof (b64_frac_bounds m e Hm He) as H.
  destruct (b64_frac m e) as [p q]. destruct H as (Hp & Hq & Hk). simpl.
  exact (fmt_digits_correct p q Hp Hq Hk).
Qed.

(* ------------------------------------------------------------------------------------------------------------------ *)
(* 4. sanity                                                                                                            *)

Local Set Warnings "-inexact-float".
Example fmt_g6_one : fmt_g6 1%float = [49%N].
Proof. vm_compute. reflexivity. Qed.
Example fmt_g6_tenth : fmt_g6 0.1%float = [48%N; 46%N; 49%N].                                   (* 0.1 *)
Proof. vm_compute. reflexivity. Qed.
Example fmt_g6_123456789 : fmt_g6 123456789%float
  = [49%N; 46%N; 50%N; 51%N; 52%N; 53%N; 55%N; 101%N; 43%N; 48%N; 56%N].                         (* 1.23457e+08 *)
Proof. vm_compute. reflexivity. Qed.
Example fmt_g6_1em5 : fmt_g6 1e-5%float = [49%N; 101%N; 45%N; 48%N; 53%N].                       (* 1e-05 *)
Proof. vm_compute. reflexivity. Qed.
Example fmt_g6_carry : fmt_g6 999999.5%float = [49%N; 101%N; 43%N; 48%N; 54%N].                  (* 1e+06 *)
Proof. vm_compute. reflexivity. Qed.
Example fmt_g6_half_even_down : fmt_g6 0.5%float = [48%N; 46%N; 53%N].                           (* 0.5 *)
Proof. vm_compute. reflexivity. Qed.
Example fmt_g6_tie_even : fmt_g6 1000002.5%float = [49%N; 101%N; 43%N; 48%N; 54%N].              (* 1e+06 *)
Proof. vm_compute. reflexivity. Qed.
Example fmt_g6_tie_even_2 : fmt_g6 100000.5%float = [49%N; 48%N; 48%N; 48%N; 48%N; 48%N].        (* exact tie, even digit kept: 100000 *)
Proof. vm_compute. reflexivity. Qed.
Example fmt_g6_tie_even_3 : fmt_g6 100001.5%float = [49%N; 48%N; 48%N; 48%N; 48%N; 50%N].        (* exact tie, up to even: 100002 *)
Proof. vm_compute. reflexivity. Qed.
Example fmt_g6_neg_min : fmt_g6 (-5e-324)%float
  = [45%N; 52%N; 46%N; 57%N; 52%N; 48%N; 54%N; 54%N; 101%N; 45%N; 51%N; 50%N; 52%N].            (* -4.94066e-324 *)
Proof. vm_compute. reflexivity. Qed.
Example fmt_g6_max : fmt_g6 0x1.fffffffffffffp+1023%float
  = [49%N; 46%N; 55%N; 57%N; 55%N; 54%N; 57%N; 101%N; 43%N; 51%N; 48%N; 56%N].                  (* 1.79769e+308 *)
Proof. vm_compute. reflexivity. Qed.

Check round6_half_unit.
Check dec_exponent_spec_cond.
Check dec_exponent_window.
Check dec_exponent_spec.
Check dec_exponent_spec_b64.
Check fmt_digits_correct_cond.
Check fmt_digits_correct.
Check fmt_digits_correct_b64.
Print Assumptions round6_half_unit.
Print Assumptions dec_exponent_spec_cond.
Print Assumptions dec_exponent_window.
Print Assumptions dec_exponent_spec.
Print Assumptions dec_exponent_spec_b64.
Print Assumptions fmt_digits_correct_cond.
Print Assumptions fmt_digits_correct.
Print Assumptions fmt_digits_correct_b64.
