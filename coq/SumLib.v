From Coq Require Import Reals List Lra Lia Arith Bool.
Import ListNotations.
From MT Require Import J MM.
Local Open Scope R_scope.

Lemma sumR_app {A} (f : A -> R) l1 l2 : sumR f (l1 ++ l2) = sumR f l1 + sumR f l2.
Proof. induction l1 as [|a l IH]; simpl; [lra|]. rewrite IH; lra. Qed.
Lemma sumR_map {A B} (f : B -> R) (g : A -> B) l : sumR f (map g l) = sumR (fun a => f (g a)) l.
Proof. induction l as [|a l IH]; simpl; [reflexivity|]. rewrite IH; reflexivity. Qed.
Lemma sumR_flat_map {A B} (f : B -> R) (g : A -> list B) l : sumR f (flat_map g l) = sumR (fun a => sumR f (g a)) l.
Proof. induction l as [|a l IH]; simpl; [reflexivity|]. rewrite sumR_app, IH; reflexivity. Qed.
Lemma sumR_zero {A} (l : list A) : sumR (fun _ => 0) l = 0.
Proof. induction l as [|a l IH]; simpl; [reflexivity|]. rewrite IH; lra. Qed.
Lemma sumR_list_prod {A B} (f : A * B -> R) la lb :
  sumR f (list_prod la lb) = sumR (fun a => sumR (fun b => f (a, b)) lb) la.
Proof.
  induction la as [|a la IH]; simpl; [reflexivity|].
  rewrite sumR_app, IH, sumR_map. reflexivity.
Qed.
(* Kronecker collapse over seq *)
Lemma sumR_delta_notin (h : nat -> R) (i : nat) (l : list nat) :
  (forall i', In i' l -> i' <> i) -> sumR (fun i' => if Nat.eqb i i' then h i' else 0) l = 0.
Proof.
  intros H. transitivity (sumR (fun _ : nat => 0) l); [|apply sumR_zero]. apply sumR_ext. intros i' Hi'.
  destruct (Nat.eqb i i') eqn:E; [|reflexivity]. apply Nat.eqb_eq in E. exfalso. apply (H i' Hi'). congruence.
Qed.
Lemma sumR_delta (h : nat -> R) (i n : nat) : (i < n)%nat ->
  sumR (fun i' => if Nat.eqb i i' then h i' else 0) (seq 0 n) = h i.
Proof.
  intros Hi.
  assert (Hs : seq 0 n = seq 0 i ++ [i] ++ seq (S i) (n - S i)).
  { replace n with (i + S (n - S i))%nat at 1 by lia. rewrite seq_app. simpl. reflexivity. }
  rewrite Hs, !sumR_app.
  assert (Hm : sumR (fun i' => if Nat.eqb i i' then h i' else 0) [i] = h i).
  { unfold sumR; simpl. rewrite Nat.eqb_refl. lra. }
  rewrite Hm, !sumR_delta_notin.
  - lra.
  - intros i' H'. apply in_seq in H'. lia.
  - intros i' H'. apply in_seq in H'. lia.
Qed.

(* sum over a duplicate-free sublist of indices equals the dense sum when f vanishes outside *)
Lemma sumR_sublist_dense (f : nat -> R) (l : list nat) (n : nat) :
  NoDup l -> (forall i, In i l -> (i < n)%nat) -> (forall i, (i < n)%nat -> ~ In i l -> f i = 0) ->
  sumR f l = sumR f (seq 0 n).
Proof.
  intros Hnd Hlt Hz.
  (* both equal the sum over seq of (if mem then f else 0) *)
  assert (H1 : sumR f (seq 0 n) = sumR (fun i => if existsb (Nat.eqb i) l then f i else 0) (seq 0 n)).
  { apply sumR_ext. intros i Hi. apply in_seq in Hi. destruct (existsb (Nat.eqb i) l) eqn:E; [reflexivity|].
    apply Hz; [lia|]. intros Hin. assert (existsb (Nat.eqb i) l = true); [|congruence].
    apply existsb_exists. exists i. split; [exact Hin|apply Nat.eqb_refl]. }
  rewrite H1. clear H1 Hz.
  induction l as [|a l IH]; simpl.
  - symmetry. apply sumR_zero.
  - inversion Hnd as [|a' l' Hna Hnd']; subst.
    rewrite IH; [|exact Hnd'|intros i Hi; apply Hlt; right; exact Hi].
    rewrite <- (sumR_delta (fun i => f i) a n) at 1 by (apply Hlt; left; reflexivity).
    rewrite <- sumR_plus. apply sumR_ext. intros i Hi.
    destruct (Nat.eqb a i) eqn:Ea.
    + apply Nat.eqb_eq in Ea. subst i. rewrite Nat.eqb_refl. simpl.
      destruct (existsb (Nat.eqb a) l) eqn:E; [|lra].
      exfalso. apply Hna. apply existsb_exists in E. destruct E as [x [Hx Hax]]. apply Nat.eqb_eq in Hax. subst x. exact Hx.
    + rewrite Nat.eqb_sym, Ea. simpl. lra.
Qed.
