(* Properties_C02.v -- C02: one iteration equals the published EM update equations, in the documented order.
   ArithR (exact reals): the code-shaped model -- sums over adjacency lists and vertex lists in the C++ evaluation order -- equals
   the dense multiplicative updates of De Bacco et al. (2017) written in Spec.v (em_u, em_v, em_w; em_sweep_* = u first, then v from
   the NEW u, then w from both new; undirected: one matrix in both roles, v returned untouched; assortative: only k = q).
   Not verified: binary64 rounding (the property's own tolerance is 1e-10 relative; the oracle checks it on the implementation).
   Only statements; every proof is `exact <lemma>` (proofs live in the files imported below). *)
From Coq Require Import Arith List Bool Reals Floats.
Import ListNotations.
From MT Require Import Arith J SweepModel RInst Spec EmProofs AscentProofs GenParams.
Local Open Scope R_scope.

(* general affinity, directed and undirected: for every well-formed graph view and every state whose membership rows outside *)
(* the source/target lists are zero (true of every reachable state: C17 start + C02_invariant_preserved) *)
Theorem C02_sweep_is_em_general : forall (N K L : nat) (directed : bool) (G : graph) (u v : matrix R) (w : list (matrix R)),
       wfG N L G ->
       (if directed then wfG_directed N L G /\ zero_rows N (gvl G) v else wfG_undirected N L G) ->
       zero_rows N (gul G) u ->
       sweep_gen R ArithR N K L directed G (u, v, w) = em_sweep_gen N K L (gout G) directed (u, v, w).
Proof. exact sweep_gen_is_em. Qed.
Print Assumptions C02_sweep_is_em_general.

Theorem C02_sweep_is_em_assortative : forall (N K L : nat) (directed : bool) (G : graph) (u v : matrix R) (w : list (list R)),
       wfG N L G ->
       (if directed then wfG_directed N L G /\ zero_rows N (gvl G) v else wfG_undirected N L G) ->
       zero_rows N (gul G) u ->
       sweep_ass R ArithR N K L directed G (u, v, w) = em_sweep_ass N K L (gout G) directed (u, v, w).
Proof. exact sweep_ass_is_em. Qed.
Print Assumptions C02_sweep_is_em_assortative.

(* entries that are zero (indeed <= 1e-6) are returned unchanged by all three updates *)
Theorem C02_zero_stays_zero : forall (N K L : nat) (G : graph) (u v : matrix R) (w : list (matrix R)),
       let
       '(u1, v1, w1) := sweep_gen R ArithR N K L true G (u, v, w) in
        (forall i k : nat, (i < N)%nat -> (k < K)%nat -> g u i k <= epsR -> g u1 i k = g u i k) /\
        (forall j k : nat, (j < N)%nat -> (k < K)%nat -> g v j k <= epsR -> g v1 j k = g v j k) /\
        (forall k q a : nat,
         (k < K)%nat -> (q < K)%nat -> (a < L)%nat -> tg w k q a <= epsR -> tg w1 k q a = tg w k q a).
Proof. exact zero_stays_zero. Qed.
Print Assumptions C02_zero_stays_zero.

(* results below 1e-6 in absolute value are snapped to zero, others kept *)
Theorem C02_snap_small : forall x : R, Rabs x < epsR -> truncR x = 0.
Proof. exact truncR_small. Qed.
Print Assumptions C02_snap_small.

Theorem C02_snap_big : forall x : R, epsR <= Rabs x -> truncR x = x.
Proof. exact truncR_big. Qed.
Print Assumptions C02_snap_big.

(* non-negativity and the zero rows are preserved by a sweep, so the hypotheses above hold along every trajectory *)
Theorem C02_invariant_preserved : forall (N K L : nat) (G : graph) (s : matrix R * matrix R * list (matrix R)),
       wfG N L G -> inv_gen N G s -> inv_gen N G (sweep_gen R ArithR N K L true G s).
Proof. exact sweep_gen_directed_inv. Qed.
Print Assumptions C02_invariant_preserved.

(* and every network the builder produces is well-formed (also build_wfG_directed / build_wfG_undirected in AscentProofs.v) *)
Theorem C02_graphs_from_builder : forall (label : Type) (leqb : label -> label -> bool),
       (forall a b : label, leqb a b = true <-> a = b) ->
       forall (L : nat) (recs : list (label * label * list nat)) (directed : bool),
       let net := GraphModel.build label leqb directed L recs in
       wfG (GraphModel.num_vertices label net) L (GraphModel.graph_of label directed net).
Proof. exact build_wfG. Qed.
Print Assumptions C02_graphs_from_builder.

(* the threshold of the documented guards as it stands in params.hpp NOW *)
Theorem C02_params : cxx_EPS_PRECISION_R = epsR /\ cxx_EPS_PRECISION_F = 0x1.0c6f7a0b5ed8dp-20%float.
Proof. split; reflexivity. Qed.
Print Assumptions C02_params.
