(* FloatNonneg.v -- the binary64 model never produces a negative membership or affinity.

   "never negative" is FloatSign.notneg: the sign bit is clear (+0, positive finite, +inf) or the value is NaN; in
   particular  x < 0  is false (FloatSign.notneg_not_negative).

   1. notneg holds of 0 and is closed under binary64 + * /            (FloatSign)      -> ArithF_closed
   2. every draw of the modelled mt19937 stream is notneg              (no range hypothesis on the words is needed)
   3. every entry of the start state of a realization is a stream element, the zero written by resize, or (from-file
      initialisers) file value + EPS_NOISE * draw: proved GENERICALLY for a predicate P with P zero, by induction on
      the folds of InitModel (no NoDup / range hypothesis on the vertex lists is needed)
   4. ClosureProofs: any number of sweeps preserves "every entry satisfies P".  *)
From Coq Require Import List Arith Bool Lia ZArith Floats.
Import ListNotations.
From MT Require Import Arith SweepModel InitModel CtrlModel CtrlProofs InitProofs ClosureProofs
                       FloatInst FloatSign Mt19937.

(* ====================================================================== *)
(* generic list facts                                                       *)
Lemma nth_Forall_any {T} (Q : T -> Prop) (l : list T) d i : Forall Q l -> Q d -> Q (nth i l d).
Proof. intros Hl Hd. revert i. induction Hl; intros [|i]; simpl; auto. Qed.

Lemma Forall_of_nth {T} (Q : T -> Prop) (l : list T) d : (forall i, Q (nth i l d)) -> Forall Q l.
Proof.
  induction l as [|x l IH]; intros H; constructor.
  - exact (H 0).
  - apply IH. intros i. exact (H (S i)).
Qed.

Lemma Forall_tl_any {T} (Q : T -> Prop) (l : list T) : Forall Q l -> Forall Q (tl l).
Proof. intros H. destruct H; simpl; [constructor | assumption]. Qed.

Lemma Forall_skipn_any {T} (Q : T -> Prop) n : forall l : list T, Forall Q l -> Forall Q (skipn n l).
Proof.
  induction n as [|n IH]; intros l H; simpl; [exact H|].
  destruct H; [constructor | apply IH; assumption].
Qed.

Lemma Forall_firstn_any {T} (Q : T -> Prop) n : forall l : list T, Forall Q l -> Forall Q (firstn n l).
Proof.
  induction n as [|n IH]; intros l H; simpl; [constructor|].
  destruct H; constructor; auto.
Qed.

Lemma Forall_repeat_any {T} (Q : T -> Prop) (x : T) n : Q x -> Forall Q (repeat x n).
Proof. intros H. induction n; simpl; constructor; auto. Qed.

Lemma Forall_snoc_any {T} (Q : T -> Prop) (l : list T) x : Forall Q l -> Q x -> Forall Q (l ++ [x]).
Proof. intros Hl Hx. apply Forall_app. split; [exact Hl | constructor; [exact Hx | constructor]]. Qed.

(* a fold_left whose step preserves an invariant *)
Lemma fold_left_inv {S X} (I : S -> Prop) (f : S -> X -> S) (l : list X) :
  (forall s x, I s -> I (f s x)) -> forall s, I s -> I (fold_left f l s).
Proof. intros Hf. induction l as [|a l IH]; intros s Hs; simpl; auto. Qed.

(* ====================================================================== *)
(* 3. the start state, for ANY arithmetic and ANY predicate holding of zero  *)
Section GenericStart.
  Variable num : Type.
  Variable A : Arith num.
  Variable P : num -> Prop.
  Hypothesis P_zero : P (zero A).

  Notation Z0 := (zero A).
  Notation PL := (Forall P).
  Notation PM := (Forall (Forall P)).
  Notation PT := (Forall (Forall (Forall P))).

  (* structural form  <->  accessor form (ClosureProofs.Pm / Pt / Pd: all indices, out-of-range reads give zero) *)
  Lemma PM_Pm (M : matrix num) : PM M -> Pm num A P M.
  Proof.
    intros H i k. unfold mget. apply nth_Forall_any; [|exact P_zero].
    apply nth_Forall_any; [exact H | constructor].
  Qed.

  Lemma Pm_PM (M : matrix num) : Pm num A P M -> PM M.
  Proof.
    induction M as [|r M IH]; intros H; constructor.
    - apply (Forall_of_nth P r Z0). intros k. exact (H 0 k).
    - apply IH. intros i k. exact (H (S i) k).
  Qed.

  Lemma PT_Pt (w : list (matrix num)) : PT w -> Pt num A P w.
  Proof.
    intros H k q a. unfold tget. apply PM_Pm. apply nth_Forall_any; [exact H | constructor].
  Qed.

  Lemma Pt_PT (w : list (matrix num)) : Pt num A P w -> PT w.
  Proof.
    induction w as [|m w IH]; intros H; constructor.
    - apply Pm_PM. intros i k. exact (H i k 0).
    - apply IH. intros k q a. exact (H k q (S a)).
  Qed.

  Lemma PM_Pd (w : list (list num)) : PM w -> Pd num A P w.
  Proof. intros H k a. exact (PM_Pm w H a k). Qed.

  Lemma Pd_PM (w : list (list num)) : Pd num A P w -> PM w.
  Proof. intros H. apply Pm_PM. intros i k. exact (H k i). Qed.

  (* stream reads *)
  Lemma hd0_P s : PL s -> P (hd0 num A s).
  Proof. intros H. destruct H; simpl; auto. Qed.

  (* writes *)
  Lemma lset_P {T} (Q : T -> Prop) (l : list T) k x : Forall Q l -> Q x -> Forall Q (lset l k x).
  Proof. intros Hl Hx. apply Forall_lset; auto. Qed.

  Lemma mset_PM (M : matrix num) i k x : PM M -> P x -> PM (mset num M i k x).
  Proof.
    intros HM Hx. unfold mset. apply lset_P; [exact HM|].
    apply lset_P; [|exact Hx]. apply nth_Forall_any; [exact HM | constructor].
  Qed.

  Lemma zeros_PM n m : PM (zeros num A n m).
  Proof. unfold zeros. apply Forall_repeat_any. apply Forall_repeat_any. exact P_zero. Qed.

  (* the invariant of every (matrix, stream) fold *)
  Definition Inv (p : matrix num * list num) : Prop := PM (fst p) /\ PL (snd p).
  Definition InvT (p : list (matrix num) * list num) : Prop := PT (fst p) /\ PL (snd p).

  Lemma draw_step_Inv (p : matrix num * list num) i k :
    Inv p -> Inv (mset num (fst p) i k (hd0 num A (snd p)), tl (snd p)).
  Proof.
    intros [HM Hs]. split; cbn [fst snd].
    - apply mset_PM; [exact HM | apply hd0_P; exact Hs].
    - apply Forall_tl_any; exact Hs.
  Qed.

  (* memberships *)
  Theorem init_rows_P K elements M s : PM M -> PL s -> Inv (init_rows num A K elements M s).
  Proof.
    intros HM Hs. unfold init_rows.
    apply (fold_left_inv Inv); [|split; assumption].
    intros p k Hp. apply (fold_left_inv Inv); [|exact Hp].
    intros p' j Hp'. apply draw_step_Inv. exact Hp'.
  Qed.

  (* random general affinity *)
  Lemma init_sym_layer_P K s : PL s -> Inv (init_sym_layer num A K s).
  Proof.
    intros Hs. unfold init_sym_layer.
    apply (fold_left_inv Inv); [|split; [apply zeros_PM | exact Hs]].
    intros p i Hp. apply (fold_left_inv Inv); [|exact Hp].
    intros p' j [HM' Hs']. cbv zeta. split; cbn [fst snd].
    - apply mset_PM; [apply mset_PM|]; try assumption; apply hd0_P; exact Hs'.
    - apply Forall_tl_any; exact Hs'.
  Qed.

  Theorem init_sym_random_P K L s : PL s -> InvT (init_sym_random num A K L s).
  Proof.
    intros Hs. unfold init_sym_random.
    apply (fold_left_inv InvT); [|split; [constructor | exact Hs]].
    intros p a [Hw Hs']. pose proof (init_sym_layer_P K (snd p) Hs') as [Hm Hs''].
    destruct (init_sym_layer num A K (snd p)) as [m s'']. cbn [fst snd] in *.
    split; cbn [fst snd]; [apply Forall_snoc_any; assumption | exact Hs''].
  Qed.

  (* random assortative affinity *)
  Theorem init_diag_random_P K L s : PL s -> Inv (init_diag_random num A K L s).
  Proof.
    intros Hs. unfold init_diag_random.
    apply (fold_left_inv Inv); [|split; [constructor | exact Hs]].
    intros p a [Hw Hs']. split; cbn [fst snd].
    - apply Forall_snoc_any; [exact Hw|]. apply Forall_firstn_any. apply Forall_app. split; [exact Hs'|].
      apply Forall_repeat_any. exact P_zero.
    - apply Forall_skipn_any. exact Hs'.
  Qed.

  (* from-file affinity: value + EPS_NOISE * draw *)
  Section FromFile.
    Hypothesis P_add : forall x y, P x -> P y -> P (add A x y).
    Hypothesis P_mul : forall x y, P x -> P y -> P (mul A x y).
    Hypothesis P_noise : P (noise A).

    Lemma noisy_P x d : P x -> P d -> P (noisy num A x d).
    Proof. intros Hx Hd. unfold noisy. apply P_add; [exact Hx|]. apply P_mul; [exact P_noise | exact Hd]. Qed.

    Theorem init_from_gen_P K L cache s : PT cache -> PL s -> InvT (init_from_gen num A K L cache s).
    Proof.
      intros Hc Hs. unfold init_from_gen.
      apply (fold_left_inv InvT); [|split; [constructor | exact Hs]].
      intros p a [Hw Hs'].
      match goal with |- InvT (let '(m, s') := ?t in _) => assert (H : Inv t); [|destruct t as [m s'']] end.
      { apply (fold_left_inv Inv).
        - intros p1 k Hp1. apply (fold_left_inv Inv); [|exact Hp1].
          intros p2 q [HM2 Hs2]. split; cbn [fst snd].
          + apply mset_PM; [exact HM2|]. apply noisy_P; [apply PM_Pm; exact HM2 | apply hd0_P; exact Hs2].
          + apply Forall_tl_any; exact Hs2.
        - split; cbn [fst snd]; [|exact Hs']. apply nth_Forall_any; [exact Hc | constructor]. }
      destruct H as [Hm Hs''].
      cbn [fst snd] in *.
      split; cbn [fst snd]; [apply Forall_snoc_any; assumption | exact Hs''].
    Qed.

    Theorem init_from_ass_P K L cache s : PM cache -> PL s -> Inv (init_from_ass num A K L cache s).
    Proof.
      intros Hc Hs. unfold init_from_ass.
      apply (fold_left_inv Inv); [|split; [constructor | exact Hs]].
      intros p a [Hw Hs'].
      match goal with |- Inv (let '(m, s') := ?t in _) =>
        assert (H : (fun r : list num * list num => PL (fst r) /\ PL (snd r)) t); [|destruct t as [row s'']] end.
      { apply (fold_left_inv (fun r : list num * list num => PL (fst r) /\ PL (snd r))).
        - intros p1 k [Hr1 Hs1]. split; cbn [fst snd].
          + apply lset_P; [exact Hr1|]. apply noisy_P; [|apply hd0_P; exact Hs1].
            apply nth_Forall_any; [exact Hr1 | exact P_zero].
          + apply Forall_tl_any; exact Hs1.
        - split; cbn [fst snd]; [|exact Hs']. apply nth_Forall_any; [exact Hc | constructor]. }
      cbv beta in H. destruct H as [Hm Hs''].
      cbn [fst snd] in *.
      split; cbn [fst snd]; [apply Forall_snoc_any; assumption | exact Hs''].
    Qed.
  End FromFile.

  (* CtrlModel.start_of, over an abstract affinity initialiser *)
  Section Start.
    Variables (W IC : Type) (initw : IC -> W -> list num -> IC * W * list num).
    Variables (directed : bool) (N K : nat) (ul vl : list nat).
    Variable PW : W -> Prop.

    Lemma start_of_P (b : bufs num W IC) :
      PL (strm _ _ _ b) ->
      PW (snd (fst (initw (ic _ _ _ b) (cw _ _ _ b) (strm _ _ _ b)))) /\
      PL (snd (initw (ic _ _ _ b) (cw _ _ _ b) (strm _ _ _ b))) ->
      forall ic' ut vt wt s3,
        start_of num A W IC initw directed N K ul vl b = (ic', (ut, vt, wt), s3) ->
        PM ut /\ (directed = true -> PM vt) /\ (directed = false -> vt = tv _ _ _ b) /\ PW wt /\ PL s3.
    Proof.
      intros Hs [Hw Hs1] ic' ut vt wt s3 E. unfold start_of in E.
      destruct (initw (ic _ _ _ b) (cw _ _ _ b) (strm _ _ _ b)) as [[ic1 w1] s1]. cbn [fst snd] in Hw, Hs1.
      destruct directed.
      - pose proof (init_rows_P K vl (zeros num A N K) s1 (zeros_PM N K) Hs1) as [Hv Hs2].
        destruct (init_rows num A K vl (zeros num A N K) s1) as [vt' s2]. cbn [fst snd] in Hv, Hs2.
        pose proof (init_rows_P K ul (zeros num A N K) s2 (zeros_PM N K) Hs2) as [Hu Hs3].
        destruct (init_rows num A K ul (zeros num A N K) s2) as [ut' s3']. cbn [fst snd] in Hu, Hs3.
        inversion E; subst. repeat split; auto. intros H; discriminate H.
      - pose proof (init_rows_P K ul (zeros num A N K) s1 (zeros_PM N K) Hs1) as [Hu Hs3].
        destruct (init_rows num A K ul (zeros num A N K) s1) as [ut' s3']. cbn [fst snd] in Hu, Hs3.
        inversion E; subst. repeat split; auto. intros H; discriminate H.
    Qed.
  End Start.

  (* the four initialiser objects *)
  Section Steps.
    Variables (directed : bool) (N K L : nat) (ul vl : list nat).

    Theorem start_random_gen_P (b : bufs num (list (matrix num)) unit) :
      PL (strm _ _ _ b) ->
      forall ic' ut vt wt s3,
        start_of num A _ _ (step_random_gen num A K L) directed N K ul vl b = (ic', (ut, vt, wt), s3) ->
        Pm num A P ut /\ (directed = true -> Pm num A P vt) /\ (directed = false -> vt = tv _ _ _ b) /\
        Pt num A P wt /\ PL s3.
    Proof.
      intros Hs ic' ut vt wt s3 E.
      assert (Hinit : PT (snd (fst (step_random_gen num A K L (ic _ _ _ b) (cw _ _ _ b) (strm _ _ _ b)))) /\
                      PL (snd (step_random_gen num A K L (ic _ _ _ b) (cw _ _ _ b) (strm _ _ _ b))));
        [|destruct (start_of_P _ _ (step_random_gen num A K L) directed N K ul vl PT b Hs Hinit _ _ _ _ _ E)
            as (Hu & Hv & Hvt & Hw & Hs3)].
      { unfold step_random_gen. pose proof (init_sym_random_P K L _ Hs) as [H1 H2].
        destruct (init_sym_random num A K L (strm _ _ _ b)) as [w s']. split; assumption. }
      split; [apply PM_Pm; exact Hu|]. split; [intros Hd; apply PM_Pm; auto|].
      split; [exact Hvt|]. split; [apply PT_Pt; exact Hw | exact Hs3].
    Qed.

    Theorem start_random_ass_P (b : bufs num (list (list num)) unit) :
      PL (strm _ _ _ b) ->
      forall ic' ut vt wt s3,
        start_of num A _ _ (step_random_ass num A K L) directed N K ul vl b = (ic', (ut, vt, wt), s3) ->
        Pm num A P ut /\ (directed = true -> Pm num A P vt) /\ (directed = false -> vt = tv _ _ _ b) /\
        Pd num A P wt /\ PL s3.
    Proof.
      intros Hs ic' ut vt wt s3 E.
      assert (Hinit : PM (snd (fst (step_random_ass num A K L (ic _ _ _ b) (cw _ _ _ b) (strm _ _ _ b)))) /\
                      PL (snd (step_random_ass num A K L (ic _ _ _ b) (cw _ _ _ b) (strm _ _ _ b))));
        [|destruct (start_of_P _ _ (step_random_ass num A K L) directed N K ul vl PM b Hs Hinit _ _ _ _ _ E)
            as (Hu & Hv & Hvt & Hw & Hs3)].
      { unfold step_random_ass. pose proof (init_diag_random_P K L _ Hs) as [H1 H2].
        destruct (init_diag_random num A K L (strm _ _ _ b)) as [w s']. split; assumption. }
      split; [apply PM_Pm; exact Hu|]. split; [intros Hd; apply PM_Pm; auto|].
      split; [exact Hvt|]. split; [apply PM_Pd; exact Hw | exact Hs3].
    Qed.

    Section FromFileSteps.
      Hypothesis P_add : forall x y, P x -> P y -> P (add A x y).
      Hypothesis P_mul : forall x y, P x -> P y -> P (mul A x y).
      Hypothesis P_noise : P (noise A).

      (* the affinity the initialiser reads: its cache if it has one, the caller's tensor otherwise *)
      Theorem start_from_gen_P (b : bufs num (list (matrix num)) (option (list (matrix num)))) :
        PL (strm _ _ _ b) ->
        Pt num A P (cache_of (ic _ _ _ b) (cw _ _ _ b)) ->
        forall ic' ut vt wt s3,
          start_of num A _ _ (step_from_gen num A K L) directed N K ul vl b = (ic', (ut, vt, wt), s3) ->
          Pm num A P ut /\ (directed = true -> Pm num A P vt) /\ (directed = false -> vt = tv _ _ _ b) /\
          Pt num A P wt /\ PL s3.
      Proof.
        intros Hs Hc ic' ut vt wt s3 E.
        assert (Hinit : PT (snd (fst (step_from_gen num A K L (ic _ _ _ b) (cw _ _ _ b) (strm _ _ _ b)))) /\
                      PL (snd (step_from_gen num A K L (ic _ _ _ b) (cw _ _ _ b) (strm _ _ _ b))));
        [|destruct (start_of_P _ _ (step_from_gen num A K L) directed N K ul vl PT b Hs Hinit _ _ _ _ _ E)
            as (Hu & Hv & Hvt & Hw & Hs3)].
        { rewrite step_from_gen_eq. cbn [fst snd].
          pose proof (init_from_gen_P P_add P_mul P_noise K L _ _ (Pt_PT _ Hc) Hs) as [H1 H2].
          split; [exact H1|]. rewrite <- (init_from_gen_stream num A K L (cache_of (ic _ _ _ b) (cw _ _ _ b))).
          exact H2. }
        split; [apply PM_Pm; exact Hu|]. split; [intros Hd; apply PM_Pm; auto|].
        split; [exact Hvt|]. split; [apply PT_Pt; exact Hw | exact Hs3].
      Qed.

      Theorem start_from_ass_P (b : bufs num (list (list num)) (option (list (list num)))) :
        PL (strm _ _ _ b) ->
        Pd num A P (cache_of (ic _ _ _ b) (cw _ _ _ b)) ->
        forall ic' ut vt wt s3,
          start_of num A _ _ (step_from_ass num A K L) directed N K ul vl b = (ic', (ut, vt, wt), s3) ->
          Pm num A P ut /\ (directed = true -> Pm num A P vt) /\ (directed = false -> vt = tv _ _ _ b) /\
          Pd num A P wt /\ PL s3.
      Proof.
        intros Hs Hc ic' ut vt wt s3 E.
        assert (Hinit : PM (snd (fst (step_from_ass num A K L (ic _ _ _ b) (cw _ _ _ b) (strm _ _ _ b)))) /\
                      PL (snd (step_from_ass num A K L (ic _ _ _ b) (cw _ _ _ b) (strm _ _ _ b))));
        [|destruct (start_of_P _ _ (step_from_ass num A K L) directed N K ul vl PM b Hs Hinit _ _ _ _ _ E)
            as (Hu & Hv & Hvt & Hw & Hs3)].
        { rewrite step_from_ass_eq. cbn [fst snd].
          pose proof (init_from_ass_P P_add P_mul P_noise K L _ _ (Pd_PM _ Hc) Hs) as [H1 H2].
          split; [exact H1|]. rewrite <- (init_from_ass_stream num A K L (cache_of (ic _ _ _ b) (cw _ _ _ b))).
          exact H2. }
        split; [apply PM_Pm; exact Hu|]. split; [intros Hd; apply PM_Pm; auto|].
        split; [exact Hvt|]. split; [apply PM_Pd; exact Hw | exact Hs3].
      Qed.
    End FromFileSteps.
  End Steps.

  (* ---------- sweeps: in undirected mode v is neither read nor written, so nothing is needed of it ---------- *)
  Section Sweeps.
    Hypothesis P_add : forall x y, P x -> P y -> P (add A x y).
    Hypothesis P_mul : forall x y, P x -> P y -> P (mul A x y).
    Hypothesis P_div : forall x y, P x -> P y -> P (div A x y).

    Lemma sweep_gen_undirected_P N K L (G : graph) u v w :
      Pm num A P u -> Pt num A P w ->
      Pm num A P (fst (fst (sweep_gen num A N K L false G (u, v, w)))) /\
      snd (fst (sweep_gen num A N K L false G (u, v, w))) = v /\
      Pt num A P (snd (sweep_gen num A N K L false G (u, v, w))).
    Proof.
      intros Hu Hw.
      destruct (sweep_gen_P num A P P_zero P_add P_mul P_div N K L false G u u w Hu Hu Hw) as (H1 & _ & H3).
      split; [exact H1|]. split; [reflexivity | exact H3].
    Qed.

    Lemma sweep_ass_undirected_P N K L (G : graph) u v w :
      Pm num A P u -> Pd num A P w ->
      Pm num A P (fst (fst (sweep_ass num A N K L false G (u, v, w)))) /\
      snd (fst (sweep_ass num A N K L false G (u, v, w))) = v /\
      Pd num A P (snd (sweep_ass num A N K L false G (u, v, w))).
    Proof.
      intros Hu Hw.
      destruct (sweep_ass_P num A P P_zero P_add P_mul P_div N K L false G u u w Hu Hu Hw) as (H1 & _ & H3).
      split; [exact H1|]. split; [reflexivity | exact H3].
    Qed.

    Theorem iter_sweep_gen_P_weak N K L directed (G : graph) n u v w :
      Pm num A P u -> (directed = true -> Pm num A P v) -> Pt num A P w ->
      let s' := iter_sweep num (list (matrix num)) (sweep_gen num A N K L directed G) n (u, v, w) in
      Pm num A P (fst (fst s')) /\ (Pm num A P v -> Pm num A P (snd (fst s'))) /\ Pt num A P (snd s').
    Proof.
      intros Hu Hv Hw. cbv zeta. destruct directed.
      - destruct (iter_sweep_gen_P num A P P_zero P_add P_mul P_div N K L true G n u v w Hu (Hv eq_refl) Hw)
          as (H1 & H2 & H3).
        split; [exact H1|]. split; [intros _; exact H2 | exact H3].
      - clear Hv.
        assert (H : Pm num A P (fst (fst (iter_sweep num (list (matrix num)) (sweep_gen num A N K L false G) n (u, v, w)))) /\
                    snd (fst (iter_sweep num (list (matrix num)) (sweep_gen num A N K L false G) n (u, v, w))) = v /\
                    Pt num A P (snd (iter_sweep num (list (matrix num)) (sweep_gen num A N K L false G) n (u, v, w)))).
        { induction n as [|n IH]; cbn [iter_sweep].
          - cbn [fst snd]. auto.
          - destruct (iter_sweep num (list (matrix num)) (sweep_gen num A N K L false G) n (u, v, w)) as [[u' v'] w'].
            cbn [fst snd] in IH. destruct IH as (H1 & -> & H3). apply sweep_gen_undirected_P; assumption. }
        destruct H as (H1 & H2 & H3). split; [exact H1|]. split; [|exact H3]. rewrite H2. auto.
    Qed.

    Theorem iter_sweep_ass_P_weak N K L directed (G : graph) n u v w :
      Pm num A P u -> (directed = true -> Pm num A P v) -> Pd num A P w ->
      let s' := iter_sweep num (list (list num)) (sweep_ass num A N K L directed G) n (u, v, w) in
      Pm num A P (fst (fst s')) /\ (Pm num A P v -> Pm num A P (snd (fst s'))) /\ Pd num A P (snd s').
    Proof.
      intros Hu Hv Hw. cbv zeta. destruct directed.
      - destruct (iter_sweep_ass_P num A P P_zero P_add P_mul P_div N K L true G n u v w Hu (Hv eq_refl) Hw)
          as (H1 & H2 & H3).
        split; [exact H1|]. split; [intros _; exact H2 | exact H3].
      - clear Hv.
        assert (H : Pm num A P (fst (fst (iter_sweep num (list (list num)) (sweep_ass num A N K L false G) n (u, v, w)))) /\
                    snd (fst (iter_sweep num (list (list num)) (sweep_ass num A N K L false G) n (u, v, w))) = v /\
                    Pd num A P (snd (iter_sweep num (list (list num)) (sweep_ass num A N K L false G) n (u, v, w)))).
        { induction n as [|n IH]; cbn [iter_sweep].
          - cbn [fst snd]. auto.
          - destruct (iter_sweep num (list (list num)) (sweep_ass num A N K L false G) n (u, v, w)) as [[u' v'] w'].
            cbn [fst snd] in IH. destruct IH as (H1 & -> & H3). apply sweep_ass_undirected_P; assumption. }
        destruct H as (H1 & H2 & H3). split; [exact H1|]. split; [|exact H3]. rewrite H2. auto.
    Qed.
  End Sweeps.
End GenericStart.

(* ====================================================================== *)
(* 1. the float instance                                                    *)
Theorem ArithF_closed (lnf : float -> float) :
  notneg (zero (ArithF lnf)) /\
  (forall x y, notneg x -> notneg y -> notneg (add (ArithF lnf) x y)) /\
  (forall x y, notneg x -> notneg y -> notneg (mul (ArithF lnf) x y)) /\
  (forall x y, notneg x -> notneg y -> notneg (div (ArithF lnf) x y)).
Proof.
  split; [exact notneg_zero|]. split; [exact notneg_add|]. split; [exact notneg_mul | exact notneg_div].
Qed.

Lemma ArithF_noise_notneg (lnf : float -> float) : notneg (noise (ArithF lnf)).
Proof. vm_compute. reflexivity. Qed.

(* ====================================================================== *)
(* 2. the random stream                                                     *)
Theorem canonical_notneg : forall x1 x2, notneg (canonical_of x1 x2).
Proof.
  intros x1 x2. unfold canonical_of. cbv zeta.
  destruct (PrimFloat.leb 1 _).
  - vm_compute. reflexivity.
  - apply notneg_div; [|vm_compute; reflexivity].
    apply notneg_add; [apply notneg_of_uint63|].
    apply notneg_mul; [apply notneg_of_uint63 | vm_compute; reflexivity].
Qed.

Lemma next_draw_notneg (s : mt_state) : notneg (fst (next_draw s)).
Proof.
  unfold next_draw. destruct (next32 s) as [x1 s1]. destruct (next32 s1) as [x2 s2].
  apply canonical_notneg.
Qed.

Lemma draws_from_notneg (n : nat) : forall s, Forall notneg (draws_from n s).
Proof.
  induction n as [|n IH]; intros s; cbn [draws_from]; [constructor|].
  pose proof (next_draw_notneg s) as Hd.
  destruct (next_draw s) as [d s']. constructor; [exact Hd | apply IH].
Qed.

Theorem mt_draws_notneg : forall seed n, Forall notneg (mt_draws seed n).
Proof. intros seed n. unfold mt_draws. apply draws_from_notneg. Qed.

(* ====================================================================== *)
(* 3./4. the float theorems                                                 *)
Lemma notneg_both (x : float) : notneg x -> notneg x /\ PrimFloat.ltb x 0 = false.
Proof. intros H. split; [exact H | apply notneg_not_negative; exact H]. Qed.

Section FloatTheorems.
  Variable lnf : float -> float.
  Notation A := (ArithF lnf).
  Variables (directed : bool) (N K L : nat) (ul vl : list nat).

  (* ---------- 3. start states ---------- *)
  Theorem start_random_general_notneg (b : bufs float (list (matrix float)) unit) :
    Forall notneg (strm _ _ _ b) ->
    forall ic' ut vt wt s3,
      start_of float A _ _ (step_random_gen float A K L) directed N K ul vl b = (ic', (ut, vt, wt), s3) ->
      (forall i k, notneg (mget float A ut i k)) /\
      (directed = true -> forall i k, notneg (mget float A vt i k)) /\
      (directed = false -> vt = tv _ _ _ b) /\
      (forall k q a, notneg (tget float A wt k q a)) /\
      Forall notneg s3.
  Proof. exact (start_random_gen_P float A notneg notneg_zero directed N K L ul vl b). Qed.

  Theorem start_random_assortative_notneg (b : bufs float (list (list float)) unit) :
    Forall notneg (strm _ _ _ b) ->
    forall ic' ut vt wt s3,
      start_of float A _ _ (step_random_ass float A K L) directed N K ul vl b = (ic', (ut, vt, wt), s3) ->
      (forall i k, notneg (mget float A ut i k)) /\
      (directed = true -> forall i k, notneg (mget float A vt i k)) /\
      (directed = false -> vt = tv _ _ _ b) /\
      (forall k a, notneg (dget float A wt k a)) /\
      Forall notneg s3.
  Proof. exact (start_random_ass_P float A notneg notneg_zero directed N K L ul vl b). Qed.

  (* from file: the affinity the initialiser reads is its cache if it has one, the caller's tensor otherwise *)
  Theorem start_from_file_general_notneg (b : bufs float (list (matrix float)) (option (list (matrix float)))) :
    Forall notneg (strm _ _ _ b) ->
    (forall k q a, notneg (tget float A (match ic _ _ _ b with Some c => c | None => cw _ _ _ b end) k q a)) ->
    forall ic' ut vt wt s3,
      start_of float A _ _ (step_from_gen float A K L) directed N K ul vl b = (ic', (ut, vt, wt), s3) ->
      (forall i k, notneg (mget float A ut i k)) /\
      (directed = true -> forall i k, notneg (mget float A vt i k)) /\
      (directed = false -> vt = tv _ _ _ b) /\
      (forall k q a, notneg (tget float A wt k q a)) /\
      Forall notneg s3.
  Proof.
    exact (start_from_gen_P float A notneg notneg_zero directed N K L ul vl
             notneg_add notneg_mul (ArithF_noise_notneg lnf) b).
  Qed.

  Theorem start_from_file_assortative_notneg (b : bufs float (list (list float)) (option (list (list float)))) :
    Forall notneg (strm _ _ _ b) ->
    (forall k a, notneg (dget float A (match ic _ _ _ b with Some c => c | None => cw _ _ _ b end) k a)) ->
    forall ic' ut vt wt s3,
      start_of float A _ _ (step_from_ass float A K L) directed N K ul vl b = (ic', (ut, vt, wt), s3) ->
      (forall i k, notneg (mget float A ut i k)) /\
      (directed = true -> forall i k, notneg (mget float A vt i k)) /\
      (directed = false -> vt = tv _ _ _ b) /\
      (forall k a, notneg (dget float A wt k a)) /\
      Forall notneg s3.
  Proof.
    exact (start_from_ass_P float A notneg notneg_zero directed N K L ul vl
             notneg_add notneg_mul (ArithF_noise_notneg lnf) b).
  Qed.

  (* ---------- 4. trajectories ---------- *)
  Lemma trajectory_gen_core (G : graph) (n : nat) (ut vt tvb : matrix float) (wt : list (matrix float)) :
    (forall i k, notneg (mget float A ut i k)) ->
    (directed = true -> forall i k, notneg (mget float A vt i k)) ->
    (directed = false -> vt = tvb) ->
    (forall k q a, notneg (tget float A wt k q a)) ->
    let '(u', v', w') := iter_sweep float (list (matrix float)) (sweep_gen float A N K L directed G) n (ut, vt, wt) in
    (forall i k, notneg (mget float A u' i k) /\ PrimFloat.ltb (mget float A u' i k) 0 = false) /\
    ((directed = false -> forall i k, notneg (mget float A tvb i k)) ->
       forall i k, notneg (mget float A v' i k) /\ PrimFloat.ltb (mget float A v' i k) 0 = false) /\
    (forall k q a, notneg (tget float A w' k q a) /\ PrimFloat.ltb (tget float A w' k q a) 0 = false).
  Proof.
    intros Hu Hv Hvt Hw.
    pose proof (iter_sweep_gen_P_weak float A notneg notneg_zero notneg_add notneg_mul notneg_div
                  N K L directed G n ut vt wt Hu Hv Hw) as H. cbv zeta in H.
    destruct (iter_sweep float (list (matrix float)) (sweep_gen float A N K L directed G) n (ut, vt, wt))
      as [[u' v'] w']. cbn [fst snd] in H. destruct H as (H1 & H2 & H3).
    split; [intros i k; apply notneg_both, H1|]. split; [|intros k q a; apply notneg_both, H3].
    intros Hq i k. apply notneg_both. apply H2.
    destruct directed; [exact (Hv eq_refl)|]. rewrite (Hvt eq_refl). exact (Hq eq_refl).
  Qed.

  Lemma trajectory_ass_core (G : graph) (n : nat) (ut vt tvb : matrix float) (wt : list (list float)) :
    (forall i k, notneg (mget float A ut i k)) ->
    (directed = true -> forall i k, notneg (mget float A vt i k)) ->
    (directed = false -> vt = tvb) ->
    (forall k a, notneg (dget float A wt k a)) ->
    let '(u', v', w') := iter_sweep float (list (list float)) (sweep_ass float A N K L directed G) n (ut, vt, wt) in
    (forall i k, notneg (mget float A u' i k) /\ PrimFloat.ltb (mget float A u' i k) 0 = false) /\
    ((directed = false -> forall i k, notneg (mget float A tvb i k)) ->
       forall i k, notneg (mget float A v' i k) /\ PrimFloat.ltb (mget float A v' i k) 0 = false) /\
    (forall k a, notneg (dget float A w' k a) /\ PrimFloat.ltb (dget float A w' k a) 0 = false).
  Proof.
    intros Hu Hv Hvt Hw.
    pose proof (iter_sweep_ass_P_weak float A notneg notneg_zero notneg_add notneg_mul notneg_div
                  N K L directed G n ut vt wt Hu Hv Hw) as H. cbv zeta in H.
    destruct (iter_sweep float (list (list float)) (sweep_ass float A N K L directed G) n (ut, vt, wt))
      as [[u' v'] w']. cbn [fst snd] in H. destruct H as (H1 & H2 & H3).
    split; [intros i k; apply notneg_both, H1|]. split; [|intros k a; apply notneg_both, H3].
    intros Hq i k. apply notneg_both. apply H2.
    destruct directed; [exact (Hv eq_refl)|]. rewrite (Hvt eq_refl). exact (Hq eq_refl).
  Qed.

  (* RANDOM affinity initialiser, seeded stream: nothing is assumed of the draws, of the graph, of the vertex lists.
     In undirected mode v_temp is neither initialised nor touched by the sweeps (it stays the buffer's tv b), hence the
     premise of the middle claim; in directed mode that premise is vacuous. *)
  Theorem float_trajectory_never_negative_general :
    forall (seed : Z) (m n : nat) (G : graph) (b : bufs float (list (matrix float)) unit) ic' ut vt wt s3,
      strm _ _ _ b = mt_draws seed m ->
      start_of float A _ _ (step_random_gen float A K L) directed N K ul vl b = (ic', (ut, vt, wt), s3) ->
      let '(u', v', w') := iter_sweep float (list (matrix float)) (sweep_gen float A N K L directed G) n (ut, vt, wt) in
      (forall i k, notneg (mget float A u' i k) /\ PrimFloat.ltb (mget float A u' i k) 0 = false) /\
      ((directed = false -> forall i k, notneg (mget float A (tv _ _ _ b) i k)) ->
         forall i k, notneg (mget float A v' i k) /\ PrimFloat.ltb (mget float A v' i k) 0 = false) /\
      (forall k q a, notneg (tget float A w' k q a) /\ PrimFloat.ltb (tget float A w' k q a) 0 = false).
  Proof.
    intros seed m n G b ic' ut vt wt s3 Hs E.
    assert (HF : Forall notneg (strm _ _ _ b)) by (rewrite Hs; apply mt_draws_notneg).
    destruct (start_random_general_notneg b HF _ _ _ _ _ E) as (Hu & Hv & Hvt & Hw & _).
    apply trajectory_gen_core; assumption.
  Qed.

  Theorem float_trajectory_never_negative_assortative :
    forall (seed : Z) (m n : nat) (G : graph) (b : bufs float (list (list float)) unit) ic' ut vt wt s3,
      strm _ _ _ b = mt_draws seed m ->
      start_of float A _ _ (step_random_ass float A K L) directed N K ul vl b = (ic', (ut, vt, wt), s3) ->
      let '(u', v', w') := iter_sweep float (list (list float)) (sweep_ass float A N K L directed G) n (ut, vt, wt) in
      (forall i k, notneg (mget float A u' i k) /\ PrimFloat.ltb (mget float A u' i k) 0 = false) /\
      ((directed = false -> forall i k, notneg (mget float A (tv _ _ _ b) i k)) ->
         forall i k, notneg (mget float A v' i k) /\ PrimFloat.ltb (mget float A v' i k) 0 = false) /\
      (forall k a, notneg (dget float A w' k a) /\ PrimFloat.ltb (dget float A w' k a) 0 = false).
  Proof.
    intros seed m n G b ic' ut vt wt s3 Hs E.
    assert (HF : Forall notneg (strm _ _ _ b)) by (rewrite Hs; apply mt_draws_notneg).
    destruct (start_random_assortative_notneg b HF _ _ _ _ _ E) as (Hu & Hv & Hvt & Hw & _).
    apply trajectory_ass_core; assumption.
  Qed.

  (* FROM-FILE affinity initialiser: the same, provided no value of the affinity it reads is negative *)
  Theorem float_trajectory_never_negative_general_from_file :
    forall (seed : Z) (m n : nat) (G : graph)
           (b : bufs float (list (matrix float)) (option (list (matrix float)))) ic' ut vt wt s3,
      strm _ _ _ b = mt_draws seed m ->
      (forall k q a, notneg (tget float A (match ic _ _ _ b with Some c => c | None => cw _ _ _ b end) k q a)) ->
      start_of float A _ _ (step_from_gen float A K L) directed N K ul vl b = (ic', (ut, vt, wt), s3) ->
      let '(u', v', w') := iter_sweep float (list (matrix float)) (sweep_gen float A N K L directed G) n (ut, vt, wt) in
      (forall i k, notneg (mget float A u' i k) /\ PrimFloat.ltb (mget float A u' i k) 0 = false) /\
      ((directed = false -> forall i k, notneg (mget float A (tv _ _ _ b) i k)) ->
         forall i k, notneg (mget float A v' i k) /\ PrimFloat.ltb (mget float A v' i k) 0 = false) /\
      (forall k q a, notneg (tget float A w' k q a) /\ PrimFloat.ltb (tget float A w' k q a) 0 = false).
  Proof.
    intros seed m n G b ic' ut vt wt s3 Hs Hc E.
    assert (HF : Forall notneg (strm _ _ _ b)) by (rewrite Hs; apply mt_draws_notneg).
    destruct (start_from_file_general_notneg b HF Hc _ _ _ _ _ E) as (Hu & Hv & Hvt & Hw & _).
    apply trajectory_gen_core; assumption.
  Qed.

  Theorem float_trajectory_never_negative_assortative_from_file :
    forall (seed : Z) (m n : nat) (G : graph)
           (b : bufs float (list (list float)) (option (list (list float)))) ic' ut vt wt s3,
      strm _ _ _ b = mt_draws seed m ->
      (forall k a, notneg (dget float A (match ic _ _ _ b with Some c => c | None => cw _ _ _ b end) k a)) ->
      start_of float A _ _ (step_from_ass float A K L) directed N K ul vl b = (ic', (ut, vt, wt), s3) ->
      let '(u', v', w') := iter_sweep float (list (list float)) (sweep_ass float A N K L directed G) n (ut, vt, wt) in
      (forall i k, notneg (mget float A u' i k) /\ PrimFloat.ltb (mget float A u' i k) 0 = false) /\
      ((directed = false -> forall i k, notneg (mget float A (tv _ _ _ b) i k)) ->
         forall i k, notneg (mget float A v' i k) /\ PrimFloat.ltb (mget float A v' i k) 0 = false) /\
      (forall k a, notneg (dget float A w' k a) /\ PrimFloat.ltb (dget float A w' k a) 0 = false).
  Proof.
    intros seed m n G b ic' ut vt wt s3 Hs Hc E.
    assert (HF : Forall notneg (strm _ _ _ b)) by (rewrite Hs; apply mt_draws_notneg).
    destruct (start_from_file_assortative_notneg b HF Hc _ _ _ _ _ E) as (Hu & Hv & Hvt & Hw & _).
    apply trajectory_ass_core; assumption.
  Qed.
End FloatTheorems.

Check ArithF_closed.
Check canonical_notneg.
Check mt_draws_notneg.
Check init_rows_P.
Check init_sym_random_P.
Check init_diag_random_P.
Check init_from_gen_P.
Check init_from_ass_P.
Check start_of_P.
Check start_random_gen_P.
Check start_random_ass_P.
Check start_from_gen_P.
Check start_from_ass_P.
Check iter_sweep_gen_P_weak.
Check iter_sweep_ass_P_weak.
Check start_random_general_notneg.
Check start_random_assortative_notneg.
Check start_from_file_general_notneg.
Check start_from_file_assortative_notneg.
Check float_trajectory_never_negative_general.
Check float_trajectory_never_negative_assortative.
Check float_trajectory_never_negative_general_from_file.
Check float_trajectory_never_negative_assortative_from_file.

Print Assumptions ArithF_closed.
Print Assumptions canonical_notneg.
Print Assumptions mt_draws_notneg.
Print Assumptions start_random_general_notneg.
Print Assumptions start_random_assortative_notneg.
Print Assumptions start_from_file_general_notneg.
Print Assumptions start_from_file_assortative_notneg.
Print Assumptions float_trajectory_never_negative_general.
Print Assumptions float_trajectory_never_negative_assortative.
Print Assumptions float_trajectory_never_negative_general_from_file.
Print Assumptions float_trajectory_never_negative_assortative_from_file.
