(* SweepModel.v -- code-shaped model of Solver::update_vertices, Solver::update_affinity,
   Solver::calculate_likelyhood and of one sweep (the three updates of Solver::loop), for the
   general (SymmetricTensor) and assortative (DiagonalTensor) affinity, directed and undirected.
   Every accumulation mirrors the C++ evaluation order (x = 0; for ... x += ...  ==  fold_left).
   Mirrors include/multitensor/solver.hpp:61-353, 370-441, 476-493. *)
From Coq Require Import List Arith Bool.
Import ListNotations.
From MT Require Import Arith.

Section Model.
  Variable num : Type.
  Variable A : Arith num.
  Notation "x +! y" := (add A x y) (at level 50, left associativity).
  Notation "x -! y" := (sub A x y) (at level 50, left associativity).
  Notation "x *! y" := (mul A x y) (at level 40, left associativity).
  Notation "x /! y" := (div A x y) (at level 40, left associativity).
  Notation Z0 := (zero A).
  Notation eps_lt x := (ltb A (eps A) x).

  Definition matrix := list (list num).          (* rows *)
  Definition mget (M : matrix) (i k : nat) : num := nth k (nth i M []) Z0.
  Definition mtab (n m : nat) (f : nat -> nat -> num) : matrix :=
    map (fun i => map (fun k => f i k) (seq 0 m)) (seq 0 n).
  (* accumulate: x = init; for a in l: x += f a *)
  Definition acc {T} (l : list T) (f : T -> num) (init : num) : num :=
    fold_left (fun s a => s +! f a) l init.
  Definition trunc (x : num) : num := if ltb A (absn A x) (eps A) then Z0 else x.

  Variables (N K L : nat).
  Definition ks := seq 0 K.
  Definition layers := seq 0 L.

  (* affinity accessor w k q a ; for the assortative model wd k a *)
  Section Vertices.
    Variable adj : nat -> nat -> list nat.     (* layer -> vertex -> neighbours, in iteration order *)
    Variables (numl denl : list nat).
    Variables (fixed old : matrix).

    (* general *)
    Variable w : nat -> nat -> nat -> num.
    Definition Zk_gen (k : nat) : num :=
      acc ks (fun l => acc layers (fun a => w k l a) Z0 *! acc denl (fun i => mget fixed i l) Z0) Z0.
    Definition Zij_gen (i j a : nat) : num :=
      fold_left (fun s m => acc ks (fun l => mget old i m *! mget fixed j l *! w m l a) s) ks Z0.
    Definition val_gen (i k : nat) : num :=
      fold_left (fun s a =>
        fold_left (fun s j =>
          let Zij := Zij_gen i j a in
          if eps_lt Zij then s +! (acc ks (fun q => mget fixed j q *! w k q a) Z0 /! Zij) else s)
          (adj a i) s) layers Z0.
    Definition upd_vertices_gen : matrix :=
      mtab N K (fun i k =>
        let o := mget old i k in
        if existsb (Nat.eqb i) numl then
          if eps_lt (Zk_gen k) then
            if eps_lt o then trunc (o /! Zk_gen k *! val_gen i k) else o
          else o
        else o).

    (* assortative *)
    Variable wd : nat -> nat -> num.
    Definition Zk_ass (k : nat) : num :=
      Z0 +! acc layers (fun a => wd k a) Z0 *! acc denl (fun i => mget fixed i k) Z0.
    Definition Zij_ass (i j a : nat) : num :=
      acc ks (fun m => mget old i m *! mget fixed j m *! wd m a) Z0.
    Definition val_ass (i k : nat) : num :=
      fold_left (fun s a =>
        fold_left (fun s j =>
          let Zij := Zij_ass i j a in
          if eps_lt Zij then s +! ((Z0 +! mget fixed j k *! wd k a) /! Zij) else s)
          (adj a i) s) layers Z0.
    Definition upd_vertices_ass : matrix :=
      mtab N K (fun i k =>
        let o := mget old i k in
        if existsb (Nat.eqb i) numl then
          if eps_lt (Zk_ass k) then
            if eps_lt o then trunc (o /! Zk_ass k *! val_ass i k) else o
          else o
        else o).
  End Vertices.

  Section Affinity.
    Variable out : nat -> nat -> list nat.
    Variables (ul vl : list nat) (u v : matrix).
    Definition vertices := seq 0 N.

    Variable w : nat -> nat -> nat -> num.
    Definition Zij_w (i j a : nat) : num :=
      fold_left (fun s m => acc ks (fun l => mget u i m *! mget v j l *! w m l a) s) ks Z0.
    Definition new_w_gen (k q a : nat) : num :=
      let Dv := acc vl (fun i => mget v i q) Z0 in
      let Du := acc ul (fun i => mget u i k) Z0 in
      let Zkq := Du *! Dv in
      let o := w k q a in
      if eps_lt Zkq then
        if eps_lt o then
          let wkqa := acc vertices (fun i =>
                        mget u i k *! fold_left (fun r j => let Zij := Zij_w i j a in
                                                   if eps_lt Zij then r +! (mget v j q /! Zij) else r) (out a i) Z0) Z0 in
          trunc (o /! Zkq *! wkqa)
        else o
      else o.

    Variable wd : nat -> nat -> num.
    Definition Zij_wd (i j a : nat) : num := acc ks (fun m => mget u i m *! mget v j m *! wd m a) Z0.
    Definition new_w_ass (k a : nat) : num :=
      let Dv := acc vl (fun i => mget v i k) Z0 in
      let Du := acc ul (fun i => mget u i k) Z0 in
      let Zkq := Du *! Dv in
      let o := wd k a in
      if eps_lt Zkq then
        if eps_lt o then
          let wkqa := acc vertices (fun i =>
                        mget u i k *! fold_left (fun r j => let Zij := Zij_wd i j a in
                                                   if eps_lt Zij then r +! (mget v j k /! Zij) else r) (out a i) Z0) Z0 in
          trunc (o /! Zkq *! wkqa)
        else o
      else o.

    (* likelihood *)
    Definition count (j : nat) (l : list nat) : nat := length (filter (Nat.eqb j) l).
    Definition lik_gen : num :=
      fold_left (fun l a => fold_left (fun l i => fold_left (fun l j =>
        let has := existsb (Nat.eqb j) (out a i) in
        let '(l1, la) := fold_left (fun (p : num * num) k =>
                           fold_left (fun (p : num * num) q =>
                             let uvw := mget u i k *! mget v j q *! w k q a in
                             (fst p -! uvw, if has then snd p +! uvw else snd p)) ks p) ks (l, Z0) in
        if eps_lt la then l1 +! of_count A (count j (out a i)) *! ln A la else l1)
        vertices l) vertices l) layers Z0.
    Definition lik_ass : num :=
      fold_left (fun l a => fold_left (fun l i => fold_left (fun l j =>
        let has := existsb (Nat.eqb j) (out a i) in
        let '(l1, la) := fold_left (fun (p : num * num) k =>
                             let uvw := mget u i k *! mget v j k *! wd k a in
                             (fst p -! uvw, if has then snd p +! uvw else snd p)) ks (l, Z0) in
        if eps_lt la then l1 +! of_count A (count j (out a i)) *! ln A la else l1)
        vertices l) vertices l) layers Z0.
  End Affinity.

  (* tensors as layer -> matrix (general) / layer -> list (assortative); accessor views *)
  Definition tget (w : list matrix) (k q a : nat) : num := mget (nth a w []) k q.
  Definition dget (w : list (list num)) (k a : nat) : num := nth k (nth a w []) Z0.

  (* Solver::update_affinity as a whole: every entry from the frozen copy w_old *)
  Definition upd_affinity_gen (out : nat -> nat -> list nat) (ul vl : list nat) (u v : matrix)
             (w : nat -> nat -> nat -> num) : list matrix :=
    map (fun a => mtab K K (fun k q => new_w_gen out ul vl u v w k q a)) layers.
  Definition upd_affinity_ass (out : nat -> nat -> list nat) (ul vl : list nat) (u v : matrix)
             (wd : nat -> nat -> num) : list (list num) :=
    map (fun a => map (fun k => new_w_ass out ul vl u v wd k a) ks) layers.

  Record graph := { gout : nat -> nat -> list nat; gin : nat -> nat -> list nat; gul : list nat; gvl : list nat }.

  Definition sweep_gen (directed : bool) (G : graph) (s : matrix * matrix * list matrix) :=
    let '(u, v, w) := s in
    let wv := tget w in
    if directed then
      let u1 := upd_vertices_gen (gout G) (gul G) (gvl G) v u wv in
      let v1 := upd_vertices_gen (gin G) (gvl G) (gul G) u1 v (fun k l a => wv l k a) in
      let w1 := upd_affinity_gen (gout G) (gul G) (gvl G) u1 v1 wv in
      (u1, v1, w1)
    else
      let u1 := upd_vertices_gen (gout G) (gul G) (gvl G) u u wv in
      let w1 := upd_affinity_gen (gout G) (gul G) (gvl G) u1 u1 wv in
      (u1, v, w1).

  Definition sweep_ass (directed : bool) (G : graph) (s : matrix * matrix * list (list num)) :=
    let '(u, v, w) := s in
    let wv := dget w in
    if directed then
      let u1 := upd_vertices_ass (gout G) (gul G) (gvl G) v u wv in
      let v1 := upd_vertices_ass (gin G) (gvl G) (gul G) u1 v wv in
      let w1 := upd_affinity_ass (gout G) (gul G) (gvl G) u1 v1 wv in
      (u1, v1, w1)
    else
      let u1 := upd_vertices_ass (gout G) (gul G) (gvl G) u u wv in
      let w1 := upd_affinity_ass (gout G) (gul G) (gvl G) u1 u1 wv in
      (u1, v, w1).

  Definition lik_gen_state (directed : bool) (G : graph) (s : matrix * matrix * list matrix) :=
    let '(u, v, w) := s in lik_gen (gout G) u (if directed then v else u) (tget w).
  Definition lik_ass_state (directed : bool) (G : graph) (s : matrix * matrix * list (list num)) :=
    let '(u, v, w) := s in lik_ass (gout G) u (if directed then v else u) (dget w).
End Model.
