(* WeightProofs.v -- weights -> multiplicities: count_real computes the ceiling of the binary64 value it decodes
   (the C++ loop `for (weight_t w = 0; w < weight; w++)` runs ceil(weight) times for weight > 0). *)
From Coq Require Import ZArith Floats Lia List.
From MT Require Import Arith SweepModel GraphModel.
Local Open Scope Z_scope.

(* the value of a finite positive float is m * 2^e *)
Lemma count_real_ceiling (w : float) (m : positive) (e : Z) :
  Prim2SF w = S754_finite false m e ->
  PrimFloat.ltb 0x1.0c6f7a0b5ed8dp-20 w = true ->
  Z.pos m < 2 ^ 53 ->
  let c := Z.of_nat (count_real w) in
  (0 <= e -> c = Z.pos m * 2 ^ e) /\
  (e < 0 -> (c - 1) * 2 ^ (- e) < Z.pos m <= c * 2 ^ (- e)).      (* i.e. c - 1 < m * 2^e <= c *)
Proof.
  intros HS Hlt Hm. unfold count_real. rewrite Hlt, HS. cbv zeta.
  destruct (0 <=? e) eqn:E0.
  - apply Z.leb_le in E0. split; [|lia]. intros _. rewrite Z2Nat.id; [reflexivity|].
    apply Z.mul_nonneg_nonneg; [lia|]. apply Z.pow_nonneg. lia.
  - apply Z.leb_gt in E0. split; [lia|]. intros _.
    destruct (e <? -53) eqn:E1.
    + apply Z.ltb_lt in E1. cbn [Z.of_nat Pos.of_succ_nat]. change (Z.of_nat 1) with 1.
      assert (H : 2 ^ 53 < 2 ^ (- e)) by (apply Z.pow_lt_mono_r; lia).
      lia.
    + apply Z.ltb_ge in E1.
      set (d := 2 ^ (- e)).
      assert (Hd : 0 < d) by (apply Z.pow_pos_nonneg; lia).
      assert (Hq : 0 <= (Z.pos m + d - 1) / d) by (apply Z.div_pos; lia).
      rewrite Z2Nat.id by exact Hq.
      pose proof (Z.div_mod (Z.pos m + d - 1) d ltac:(lia)) as Hdm.
      pose proof (Z.mod_pos_bound (Z.pos m + d - 1) d Hd) as Hb.
      nia.
Qed.

(* integer weights: negative and zero weights give no edge, a positive weight w gives w edges *)
Lemma count_int_spec (w : Z) : (w <= 0 -> count_int w = 0%nat) /\ (0 < w -> Z.of_nat (count_int w) = w).
Proof.
  unfold count_int. split; intros H.
  - destruct w; try reflexivity. lia.
  - rewrite Z2Nat.id; lia.
Qed.

(* weights <= 1e-6 give none (the comparison is made on the float itself) *)
Lemma count_real_small (w : float) : PrimFloat.ltb 0x1.0c6f7a0b5ed8dp-20 w = false -> count_real w = 0%nat.
Proof. intros H. unfold count_real. rewrite H. reflexivity. Qed.
