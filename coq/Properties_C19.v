(* Properties_C19.v -- C19: the Python front end dispatches to the variant its arguments name.
   Over the table regenerated on every run from python/package/multitensor.pyx (translator T5: the 16 top-level `if` blocks of
   the try/finally dispatch: condition literals, the five template arguments, presence of c_v.resize, positional arguments,
   number of calls) and from applications/src/multitensor.cpp (T3).  Finite: case analysis on the 16 combinations + vm_compute.
   No runtime correspondence is possible here (the extension is not built; no Cython): the tie is the translator alone.
   Only statements; every proof is `exact <lemma>` (proofs live in the files imported below). *)
From Coq Require Import List String Bool Arith.
Import ListNotations.
From MT Require Import GenCli GenPyx DispatchSpec CliDispatchProofs PyxDispatchProofs.
Local Open Scope string_scope.

(* for each of the 16 combinations of (integer weights, directed, assortative, affinity file) EXACTLY ONE block's condition holds; it makes *)
(* exactly one library call whose graph direction, affinity tensor, affinity initialiser, vertex and weight types are the expected ones, *)
(* with the expected positional arguments; it allocates the in-membership matrix (c_v.resize) exactly when directed *)
Theorem C19_dispatch : forall wint directed assort file : bool,
       exists r : pyrow,
         py_selected wint directed assort file = [r] /\
         p_targs r = expected_pyx wint directed assort file /\
         p_vresize r = directed /\ p_ncalls r = 1 /\ p_args r = expected_pyx_args wint.
Proof. exact pyx_dispatch. Qed.
Print Assumptions C19_dispatch.

(* the in-membership is returned as None unless `directed`; 16 blocks in all *)
Theorem C19_returns_none : cxx_pyx_v_returned_when = "directed"%string /\
       cxx_pyx_reshape_transposed = true /\ Datatypes.length cxx_pyx_rows = 16.
Proof. exact pyx_tail. Qed.
Print Assumptions C19_returns_none.

(* the selection table agrees with the command line's (same instantiation, same allocation of v), for both weight types *)
Theorem C19_agrees_with_cli : forall wint directed assort file : bool,
       exists (rp : pyrow) (rc : clirow),
         py_selected wint directed assort file = [rp] /\
         cli_selected directed assort file = [rc] /\
         map pyx_to_cxx (firstn 3 (p_targs rp)) = with_defaults (c_targs rc) /\
         p_vresize rp = c_vresize rc.
Proof. exact tables_agree. Qed.
Print Assumptions C19_agrees_with_cli.

(* and the command line's own table is the canonical one (template arguments left out take the defaults of main.hpp) *)
Theorem C19_cli_table : forall directed assort file : bool,
       exists r : clirow,
         cli_selected directed assort file = [r] /\
         with_defaults (c_targs r) = expected_cli directed assort file /\
         c_vresize r = directed /\ c_args r = cxx_formal_parameters.
Proof. exact cli_dispatch. Qed.
Print Assumptions C19_cli_table.

