(* Properties_C19.v -- C19: the Python front end dispatches to the variant its arguments name.
   Over the behaviour table regenerated on every run from python/package/multitensor.pyx by the SEMANTIC translator T5 (tools/pyxsim.py):
   the body of run() -- Cython-only syntax removed -- is executed once per combination of (weight type, directed, assortative, affinity file)
   against recording stand-ins for numpy, the C++ containers and c_multitensor_factorization[...]; recorded are every library call (template
   arguments; what each positional argument IS, recognised by value) and what run() returns.  How the dispatch is spelled (16 ifs, elif chain,
   computed case number) does not matter.  The command line's table comes from applications/src/multitensor.cpp (T3).
   Finite: case analysis on the 16 combinations + vm_compute.  The extension itself cannot be built here (no Cython): no runtime tie.
   Only statements; every proof is `exact <lemma>` (proofs live in the files imported below). *)
From Coq Require Import List String Bool Arith ZArith NArith Floats.
Import ListNotations.
From MT Require Import GenCli GenPyx DispatchSpec CliDispatchProofs PyxDispatchProofs Arith CliModel CliMain CliMainProofs.
Local Open Scope string_scope.

(* for each of the 16 combinations run() makes EXACTLY ONE library call; its graph direction, affinity tensor, affinity initialiser, vertex and *)
(* weight types are the ones the arguments name; its positional arguments are the adjacency columns (weights in the named type), the three scalars *)
(* in the library's order, N labels, an N x K out-membership, an in-membership that is N x K exactly when directed (0 x 0 otherwise), the affinity *)
(* vector of the model's size (zeros, or the file's values) and a generator seeded with the user's seed *)
Theorem C19_dispatch : forall wint directed assort file : bool,
       exists (r : pybeh) (c : pycall),
         py_behaviour wint directed assort file = [r] /\
         pb_calls r = [c] /\
         pc_targs c = expected_pyx wint directed assort file /\
         pc_args c = expected_pyx_args wint directed assort file.
Proof. exact pyx_dispatch. Qed.
Print Assumptions C19_dispatch.

(* the in-membership is returned as None exactly for undirected runs; u, v, the affinity blocks (entry (k,q) of layer a at row k, column q) and the *)
(* report are the library's results *)
Theorem C19_returns : forall wint directed assort file : bool,
       exists r : pybeh,
         py_behaviour wint directed assort file = [r] /\
         pb_v_none r = negb directed /\
         pb_u_ok r = true /\ pb_v_ok r = true /\ pb_aff_ok r = true /\ pb_report_ok r = true.
Proof. exact pyx_returns. Qed.
Print Assumptions C19_returns.

(* one behaviour per combination *)
Theorem C19_sixteen : Datatypes.length cxx_pyx_behaviour = 16.
Proof. exact pyx_table_size. Qed.
Print Assumptions C19_sixteen.

(* the selection agrees with the command line's (same instantiation, same allocation of v), for both weight types *)
Theorem C19_agrees_with_cli : forall wint directed assort file : bool,
       exists (rp : pybeh) (cp : pycall) (rc : clirow),
         py_behaviour wint directed assort file = [rp] /\
         pb_calls rp = [cp] /\
         cli_selected directed assort file = [rc] /\
         map pyx_to_cxx (firstn 3 (pc_targs cp)) = with_defaults (c_targs rc) /\
         v_allocated cp = c_vresize rc.
Proof. exact tables_agree. Qed.
Print Assumptions C19_agrees_with_cli.

(* and the command line's own table is the canonical one (template arguments left out take the defaults of main.hpp) *)
Theorem C19_cli_table : forall directed assort file : bool,
       exists r : clirow,
         cli_selected directed assort file = [r] /\
         with_defaults (c_targs r) = expected_cli directed assort file /\
         c_vresize r = directed /\ c_args r = cxx_formal_parameters.
Proof. exact cli_dispatch. Qed.
Print Assumptions C19_cli_table.

(* the command line side of "the variant its arguments name": in the front end (CliMain.cli_main, compared with the real binary on every run) each of the three *)
(* switches that index the selection table is decided by the presence of ITS OWN option alone -- `--assortative` counts whether or not `--undirected` *)
(* is given, in whatever order; `--w` likewise *)
Theorem C19_cli_switches_independent : forall (stoi : str -> option Z) (argv : list str) (c : cli_cfg),
       parse_options stoi argv = Some c ->
       c_directed c = negb (has argv s_undirected) /\
       c_assort c = has argv s_assortative /\ str_opt argv s_w [] = Some (c_wfile c).
Proof. exact parse_options_flags. Qed.
Print Assumptions C19_cli_switches_independent.

