(* Properties_C10.v -- C10: the assortative model is the general model restricted to diagonal affinities.
   ArithR (exact reals).  embed K L wd places the K x L diagonal tensor on the diagonals of a K x K x L tensor (off-diagonals 0).
   In exact arithmetic the two models agree EXACTLY (the property allows 1e-10 relative for binary64); off-diagonals stay exactly
   zero because entries <= 1e-6 are never updated.  Directed and undirected, any graph, any memberships, zeros allowed.
   Only statements; every proof is `exact <lemma>` (proofs live in the files imported below). *)
From Coq Require Import Arith List Bool Reals Floats.
Import ListNotations.
From MT Require Import Arith J SweepModel RInst Spec EmbedProofs.
Local Open Scope R_scope.

(* one iteration: sweep_gen on (u, v, embed wd) = (u', v', embed wd') where (u', v', wd') = sweep_ass on (u, v, wd) *)
Theorem C10_sweep : forall (N K L : nat) (directed : bool) (G : graph) (u v : matrix R) (wd : list (list R)),
       sweep_gen R ArithR N K L directed G (u, v, embed K L wd) =
       (let '(u', v', wd') := sweep_ass R ArithR N K L directed G (u, v, wd) in (u', v', embed K L wd')).
Proof. exact E5_sweep. Qed.
Print Assumptions C10_sweep.

(* both report the same likelihood *)
Theorem C10_likelihood : forall (N K L : nat) (directed : bool) (G : graph) (u v : matrix R) (wd : list (list R)),
       lik_gen_state R ArithR N K L directed G (u, v, embed K L wd) =
       lik_ass_state R ArithR N K L directed G (u, v, wd).
Proof. exact E5_lik_state. Qed.
Print Assumptions C10_likelihood.

Theorem C10_any_number_of_iterations : forall (N K L : nat) (directed : bool) (G : graph) (n : nat) (u v : matrix R)
         (wd : list (list R)),
       iter n (sweep_gen R ArithR N K L directed G) (u, v, embed K L wd) =
       (let
        '(u', v', wd') := iter n (sweep_ass R ArithR N K L directed G) (u, v, wd) in
         (u', v', embed K L wd')).
Proof. exact E6_iter_sweep. Qed.
Print Assumptions C10_any_number_of_iterations.

(* hence the same pass/fail sequence, iteration counts and termination reasons (C05 depends on the likelihoods only) *)
Theorem C10_likelihood_any_iteration : forall (N K L : nat) (directed : bool) (G : graph) (n : nat) (u v : matrix R)
         (wd : list (list R)),
       lik_gen_state R ArithR N K L directed G
         (iter n (sweep_gen R ArithR N K L directed G) (u, v, embed K L wd)) =
       lik_ass_state R ArithR N K L directed G
         (iter n (sweep_ass R ArithR N K L directed G) (u, v, wd)).
Proof. exact E6_iter_lik. Qed.
Print Assumptions C10_likelihood_any_iteration.

(* entrywise: diagonal entries follow the assortative update, off-diagonal entries are returned as exactly 0 *)
Theorem C10_off_diagonal_exactly_zero : forall (N K L : nat) (wdv : nat -> nat -> R) (out : nat -> nat -> list nat) 
         (ul vl : list nat) (u v : matrix R) (k q a : nat),
       (k < K)%nat ->
       (q < K)%nat ->
       (a < L)%nat ->
       new_w_gen R ArithR N K out ul vl u v (we wdv) k q a =
       (if k =? q then new_w_ass R ArithR N K out ul vl u v wdv k a else 0).
Proof. exact E3_new_w. Qed.
Print Assumptions C10_off_diagonal_exactly_zero.

Theorem C10_embed_accessor : forall (K L : nat) (wd : list (list R)) (k q a : nat),
       (k < K)%nat ->
       (q < K)%nat ->
       (a < L)%nat -> tget R ArithR (embed K L wd) k q a = (if k =? q then dget R ArithR wd k a else 0).
Proof. exact tget_embed. Qed.
Print Assumptions C10_embed_accessor.

