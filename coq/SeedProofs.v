(* SeedProofs.v -- the seeded library model reads no draw beyond `draws_needed`:
   (1) factorize / factorize_starts ignore any tail of the stream beyond draws_needed (any arithmetic);
   (2) the mt19937 model keeps its invariant, mt_draws is prefix-stable and depends on seed mod 2^32;
   (3) factorize on any long-enough prefix of the seed's stream = factorize_seeded. *)
From Coq Require Import List Arith Bool Lia ZArith Floats.
Import ListNotations.
From MT Require Import Arith SweepModel GraphModel InitModel CtrlModel MainModel InitProofs Mt19937 SeededModel.

(* ====================================================================== *)
(* Part 1: stream consumers                                                 *)
Section Consume.
  Variable num : Type.
  Variable A : Arith num.
  Notation Z0 := (zero A).

  (* f reads exactly n draws: on a stream of at least n draws, whatever follows is handed back untouched *)
  Definition consumes {T} (f : list num -> T * list num) (n : nat) : Prop :=
    forall s t, n <= length s ->
      f (s ++ t) = (fst (f s), snd (f s) ++ t) /\ length (snd (f s)) + n = length s.

  Lemma consumes_ext {T} (f g : list num -> T * list num) n :
    (forall s, f s = g s) -> consumes g n -> consumes f n.
  Proof. intros E H s t Hl. rewrite !E. apply H, Hl. Qed.

  Lemma consumes_eqn {T} (f : list num -> T * list num) n m :
    consumes f n -> n = m -> consumes f m.
  Proof. intros H <-; auto. Qed.

  Lemma consumes_map {T U} (f : list num -> T * list num) (g : T -> U) n :
    consumes f n -> consumes (fun s => let '(m, s') := f s in (g m, s')) n.
  Proof.
    intros H s t Hl. destruct (H s t Hl) as [E Ln]. rewrite E.
    destruct (f s) as [m s1]; simpl in *. split; [reflexivity | exact Ln].
  Qed.

  Lemma consumes_one {T} (g : num -> T) :
    consumes (fun s => (g (hd0 num A s), tl s)) 1.
  Proof.
    intros s t Hl. destruct s as [|x s]; simpl in *; [lia|]. split; [reflexivity | lia].
  Qed.

  Lemma consumes_fold {V X} (F : V -> X -> list num -> V * list num) (c : X -> nat) :
    (forall v x, consumes (F v x) (c x)) ->
    forall l v, consumes (fun s => fold_left (fun p x => F (fst p) x (snd p)) l (v, s))
                         (list_sum (map c l)).
  Proof.
    intros H l; induction l as [|a l IH]; intros v s t Hl; simpl in *.
    - split; [reflexivity | lia].
    - destruct (H v a s t ltac:(lia)) as [E Ln]. rewrite E.
      destruct (F v a s) as [v1 s1]; simpl in *.
      destruct (IH v1 s1 t ltac:(lia)) as [E' Ln']. split; [exact E' | lia].
  Qed.

  Lemma list_sum_const {X} (l : list X) c : list_sum (map (fun _ => c) l) = length l * c.
  Proof. induction l; simpl; [reflexivity | rewrite IHl; reflexivity]. Qed.

  Lemma consumes_fold_const {V X} (F : V -> X -> list num -> V * list num) (c : nat) :
    (forall v x, consumes (F v x) c) ->
    forall l v, consumes (fun s => fold_left (fun p x => F (fst p) x (snd p)) l (v, s)) (length l * c).
  Proof.
    intros H l v. eapply consumes_eqn; [|apply (list_sum_const l c)].
    apply (consumes_fold F (fun _ => c)); auto.
  Qed.

  Lemma fold_left_ext {S X} (f g : S -> X -> S) :
    (forall a x, f a x = g a x) -> forall l a, fold_left f l a = fold_left g l a.
  Proof. intros E l; induction l; intros a0; simpl; [reflexivity | rewrite E; apply IHl]. Qed.

  (* ---------------- the initialisers ---------------- *)
  Lemma consumes_init_rows K elements M :
    consumes (init_rows num A K elements M) (K * length elements).
  Proof.
    eapply consumes_eqn; [eapply consumes_ext; [|
      apply (consumes_fold_const
               (fun (M : matrix num) (k : nat) (s : list num) =>
                  fold_left (fun (p : matrix num * list num) j =>
                               (mset num (fst p) j k (hd0 num A (snd p)), tl (snd p))) elements (M, s))
               (length elements * 1))]|].
    - intros s. unfold init_rows. apply fold_left_ext. intros [M' s'] k. reflexivity.
    - intros M' k.
      apply (consumes_fold_const (fun (M : matrix num) (j : nat) (s : list num) =>
                                    (mset num M j k (hd0 num A s), tl s)) 1).
      intros M'' j. apply (consumes_one (fun x => mset num M'' j k x)).
    - rewrite seq_length. lia.
  Qed.

  Lemma tri_sum K n : list_sum (map (fun i => K - i) (seq 0 n)) = tri K n.
  Proof.
    induction n; [reflexivity|].
    rewrite seq_S, map_app, list_sum_app, IHn. simpl. lia.
  Qed.

  Lemma consumes_init_sym_layer K :
    consumes (init_sym_layer num A K) (K * (K + 1) / 2).
  Proof.
    eapply consumes_eqn; [eapply consumes_ext; [|
      apply (consumes_fold
               (fun (M : matrix num) (i : nat) (s : list num) =>
                  fold_left (fun (p : matrix num * list num) j =>
                               let x := hd0 num A (snd p) in
                               (mset num (mset num (fst p) i j x) j i x, tl (snd p)))
                            (seq i (K - i)) (M, s))
               (fun i => K - i))]|].
    - intros s. unfold init_sym_layer. apply fold_left_ext. intros [M' s'] k. reflexivity.
    - intros M' i.
      eapply consumes_eqn; [
        apply (consumes_fold_const (fun (M : matrix num) (j : nat) (s : list num) =>
                                      let x := hd0 num A s in
                                      (mset num (mset num M i j x) j i x, tl s)) 1)|].
      + intros M'' j. apply (consumes_one (fun x => mset num (mset num M'' i j x) j i x)).
      + rewrite seq_length. lia.
    - rewrite tri_sum. apply tri_total.
  Qed.

  Lemma consumes_init_sym_random K L :
    consumes (init_sym_random num A K L) (L * (K * (K + 1) / 2)).
  Proof.
    eapply consumes_eqn; [eapply consumes_ext; [|
      apply (consumes_fold_const
               (fun (acc : list (matrix num)) (_ : nat) (s : list num) =>
                  let '(m, s') := init_sym_layer num A K s in (acc ++ [m], s'))
               (K * (K + 1) / 2))]|].
    - intros s. reflexivity.
    - intros acc _. apply (consumes_map (init_sym_layer num A K) (fun m => acc ++ [m])).
      apply consumes_init_sym_layer.
    - rewrite seq_length. reflexivity.
  Qed.

  Lemma consumes_init_diag_random K L :
    consumes (init_diag_random num A K L) (L * K).
  Proof.
    eapply consumes_eqn; [eapply consumes_ext; [|
      apply (consumes_fold_const
               (fun (acc : list (list num)) (_ : nat) (s : list num) =>
                  (acc ++ [firstn K (s ++ repeat Z0 K)], skipn K s))
               K)]|].
    - intros s. reflexivity.
    - intros acc _ s t Hl. simpl. split.
      + f_equal.
        * f_equal. f_equal. rewrite <- !app_assoc. rewrite !firstn_app.
          replace (K - length s) with 0 by lia. simpl. rewrite !app_nil_r. reflexivity.
        * rewrite skipn_app. replace (K - length s) with 0 by lia. reflexivity.
      + rewrite skipn_length. lia.
    - rewrite seq_length. reflexivity.
  Qed.

  Lemma consumes_init_from_gen K L cache :
    consumes (init_from_gen num A K L cache) (L * K * K).
  Proof.
    eapply consumes_eqn; [eapply consumes_ext; [|
      apply (consumes_fold_const
               (fun (acc : list (matrix num)) (a : nat) (s : list num) =>
                  let '(m, s') :=
                    fold_left (fun (p : matrix num * list num) k =>
                      fold_left (fun (p : matrix num * list num) q =>
                         (mset num (fst p) k q (noisy num A (mget num A (fst p) k q) (hd0 num A (snd p))),
                          tl (snd p)))
                        (seq 0 K) p) (seq 0 K) (nth a cache [], s) in
                  (acc ++ [m], s'))
               (K * (K * 1)))]|].
    - intros s. reflexivity.
    - intros acc a.
      apply (consumes_map
               (fun s => fold_left (fun (p : matrix num * list num) k =>
                      fold_left (fun (p : matrix num * list num) q =>
                         (mset num (fst p) k q (noisy num A (mget num A (fst p) k q) (hd0 num A (snd p))),
                          tl (snd p)))
                        (seq 0 K) p) (seq 0 K) (nth a cache [], s))
               (fun m => acc ++ [m])).
      eapply consumes_eqn; [eapply consumes_ext; [|
        apply (consumes_fold_const
                 (fun (M : matrix num) (k : nat) (s : list num) =>
                    fold_left (fun (p : matrix num * list num) q =>
                         (mset num (fst p) k q (noisy num A (mget num A (fst p) k q) (hd0 num A (snd p))),
                          tl (snd p))) (seq 0 K) (M, s))
                 (K * 1))]|].
      + intros s. apply fold_left_ext. intros [M' s'] k. reflexivity.
      + intros M' k.
        eapply consumes_eqn; [
          apply (consumes_fold_const
                   (fun (M : matrix num) (q : nat) (s : list num) =>
                      (mset num M k q (noisy num A (mget num A M k q) (hd0 num A s)), tl s)) 1)|].
        * intros M'' q. apply (consumes_one (fun x => mset num M'' k q (noisy num A (mget num A M'' k q) x))).
        * rewrite seq_length. reflexivity.
      + rewrite seq_length. reflexivity.
    - rewrite seq_length. lia.
  Qed.

  Lemma consumes_init_from_ass K L cache :
    consumes (init_from_ass num A K L cache) (L * K).
  Proof.
    eapply consumes_eqn; [eapply consumes_ext; [|
      apply (consumes_fold_const
               (fun (acc : list (list num)) (a : nat) (s : list num) =>
                  let '(row, s') :=
                    fold_left (fun (p : list num * list num) k =>
                                 (lset (fst p) k (noisy num A (nth k (fst p) Z0) (hd0 num A (snd p))), tl (snd p)))
                              (seq 0 K) (nth a cache [], s) in
                  (acc ++ [row], s'))
               (K * 1))]|].
    - intros s. reflexivity.
    - intros acc a.
      apply (consumes_map
               (fun s => fold_left (fun (p : list num * list num) k =>
                                 (lset (fst p) k (noisy num A (nth k (fst p) Z0) (hd0 num A (snd p))), tl (snd p)))
                              (seq 0 K) (nth a cache [], s))
               (fun row => acc ++ [row])).
      eapply consumes_eqn; [
        apply (consumes_fold_const
                 (fun (row : list num) (k : nat) (s : list num) =>
                    (lset row k (noisy num A (nth k row Z0) (hd0 num A s)), tl s)) 1)|].
      + intros row k. apply (consumes_one (fun x => lset row k (noisy num A (nth k row Z0) x))).
      + rewrite seq_length. reflexivity.
    - rewrite seq_length. lia.
  Qed.

  (* the four initialiser objects *)
  Lemma consumes_step_random_gen K L c T :
    consumes (step_random_gen num A K L c T) (draws_affinity false false K L).
  Proof.
    apply (consumes_map (init_sym_random num A K L) (fun w => (tt, w))), consumes_init_sym_random.
  Qed.
  Lemma consumes_step_random_ass K L c T from_init :
    consumes (step_random_ass num A K L c T) (draws_affinity true from_init K L).
  Proof.
    apply (consumes_map (init_diag_random num A K L) (fun w => (tt, w))), consumes_init_diag_random.
  Qed.
  Lemma consumes_step_from_gen K L c T :
    consumes (step_from_gen num A K L c T) (draws_affinity false true K L).
  Proof.
    unfold step_from_gen.
    apply (consumes_map (init_from_gen num A K L _) (fun w => (Some _, w))), consumes_init_from_gen.
  Qed.
  Lemma consumes_step_from_ass K L c T from_init :
    consumes (step_from_ass num A K L c T) (draws_affinity true from_init K L).
  Proof.
    unfold step_from_ass.
    apply (consumes_map (init_from_ass num A K L _) (fun w => (Some _, w))), consumes_init_from_ass.
  Qed.
End Consume.


(* ====================================================================== *)
(* Part 1b: Solver::run over an arbitrary affinity initialiser that consumes nw draws *)
Section RunTail.
  Variable num : Type.
  Variable A : Arith num.
  Variable W : Type.
  Notation st := (matrix num * matrix num * W)%type.
  Variable sweepf : st -> st.
  Variable likf : nat -> nat -> st -> num.
  Variable IC : Type.
  Variable initw : IC -> W -> list num -> IC * W * list num.
  Variables (directed : bool) (N K : nat) (ul vl : list nat).
  Variables (maxit nconv : nat).
  Variable nw : nat.
  Hypothesis Hinitw : forall c w, consumes num (initw c w) nw.

  Notation bufs := (bufs num W IC).
  Notation start_of := (CtrlModel.start_of num A W IC initw directed N K ul vl).
  Notation one_real := (one_realization num A W sweepf likf IC initw directed N K ul vl maxit nconv).

  Definition per : nat := nw + (if directed then K * length vl else 0) + K * length ul.

  (* the same buffers with another stream *)
  Definition with_strm (b : bufs) (s : list num) : bufs :=
    {| cu := cu _ _ _ b; cv := cv _ _ _ b; cw := cw _ _ _ b;
       tu := tu _ _ _ b; tv := tv _ _ _ b; tw := tw _ _ _ b;
       ic := ic _ _ _ b; strm := s; rep := rep _ _ _ b |}.
  Definition more (b : bufs) (t : list num) : bufs := with_strm b (strm _ _ _ b ++ t).

  Lemma start_of_more b t :
    per <= length (strm _ _ _ b) ->
    start_of (more b t) = (fst (start_of b), snd (start_of b) ++ t) /\
    length (snd (start_of b)) + per = length (strm _ _ _ b).
  Proof.
    unfold per, CtrlModel.start_of, more, with_strm; simpl. intros Hl.
    destruct (Hinitw (ic _ _ _ b) (cw _ _ _ b) (strm _ _ _ b) t ltac:(lia)) as [E Ln]. rewrite E.
    destruct (initw (ic _ _ _ b) (cw _ _ _ b) (strm _ _ _ b)) as [[ic' wt] s1]; simpl in *.
    destruct directed.
    - destruct (consumes_init_rows num A K vl (zeros num A N K) s1 t ltac:(lia)) as [E2 Ln2]. rewrite E2.
      destruct (init_rows num A K vl (zeros num A N K) s1) as [vt s2]; simpl in *.
      destruct (consumes_init_rows num A K ul (zeros num A N K) s2 t ltac:(lia)) as [E3 Ln3]. rewrite E3.
      destruct (init_rows num A K ul (zeros num A N K) s2) as [ut s3]; simpl in *.
      split; [reflexivity | lia].
    - destruct (consumes_init_rows num A K ul (zeros num A N K) s1 t ltac:(lia)) as [E3 Ln3]. rewrite E3.
      destruct (init_rows num A K ul (zeros num A N K) s1) as [ut s3]; simpl in *.
      split; [reflexivity | lia].
  Qed.

  Lemma one_real_more b t i :
    per <= length (strm _ _ _ b) ->
    one_real (more b t) i = more (one_real b i) t /\
    length (strm _ _ _ (one_real b i)) + per = length (strm _ _ _ b).
  Proof.
    intros Hl. destruct (start_of_more b t Hl) as [E Ln].
    unfold one_realization. rewrite E.
    destruct (start_of b) as [[ic' s0] s3]; simpl in *.
    destruct (realization num A W sweepf likf maxit i maxit nconv
                {| ls_s := s0; ls_it := 0; ls_coin := 0; ls_L2 := lowest A |}) as [c rs].
    destruct (ls_s c) as [[ut vt] wt].
    destruct (ltb A (max_L2 num A (map snd (rep _ _ _ b))) (ls_L2 c)); simpl; split; try reflexivity; exact Ln.
  Qed.

  Lemma fold_real_more l : forall b t,
    length l * per <= length (strm _ _ _ b) ->
    fold_left one_real l (more b t) = more (fold_left one_real l b) t.
  Proof.
    induction l as [|i l IH]; intros b t Hl; simpl in *; [reflexivity|].
    destruct (one_real_more b t i ltac:(lia)) as [E Ln]. rewrite E. apply IH. lia.
  Qed.

  Lemma run_tr_more l : forall b t,
    length l * per <= length (strm _ _ _ b) ->
    map fst (run_tr num A W sweepf likf IC initw directed N K ul vl l maxit nconv (more b t))
    = map fst (run_tr num A W sweepf likf IC initw directed N K ul vl l maxit nconv b).
  Proof.
    induction l as [|i l IH]; intros b t Hl; simpl in *; [reflexivity|].
    destruct (one_real_more b t i ltac:(lia)) as [E Ln].
    destruct (start_of_more b t ltac:(lia)) as [E' _].
    rewrite E, E'. simpl. f_equal. apply IH. lia.
  Qed.

  Section CoreTail.
    Variable label : Type.
    Variable toflat : W -> list num.
    Variable r : nat.

    Lemma core_more labels b t :
      r * per <= length (strm _ _ _ b) ->
      core num A label W sweepf likf IC initw toflat directed N K ul vl r maxit nconv labels (more b t)
      = core num A label W sweepf likf IC initw toflat directed N K ul vl r maxit nconv labels b.
    Proof.
      intros Hl. unfold core, run. rewrite fold_real_more by (rewrite seq_length; exact Hl). reflexivity.
    Qed.

    Lemma core_starts_more b t :
      r * per <= length (strm _ _ _ b) ->
      core_starts num A W sweepf likf IC initw toflat directed N K ul vl r maxit nconv (more b t)
      = core_starts num A W sweepf likf IC initw toflat directed N K ul vl r maxit nconv b.
    Proof.
      intros Hl. unfold core_starts.
      rewrite <- !(map_map fst (fun q : st => let '(u, v, w) := q in (u, v, toflat w))).
      rewrite run_tr_more by (rewrite seq_length; exact Hl). reflexivity.
    Qed.
  End CoreTail.
End RunTail.


(* ====================================================================== *)
(* Theorem 1: the library model ignores everything beyond draws_needed      *)
Section MainTail.
  Variable num : Type.
  Variable A : Arith num.
  Variable label : Type.
  Variable leqb : label -> label -> bool.
  Variable wt : Type.
  Variable countf : wt -> nat.
  Variable ovr : nat -> nat -> num -> num.

  Ltac tail_case lem cons :=
    match goal with
    | |- context [bufs0 ?n ?a ?W ?IC ?N ?K ?u0 ?v0 ?w0 ?wz ?ic0 (?s ++ ?t)] =>
        change (bufs0 n a W IC N K u0 v0 w0 wz ic0 (s ++ t))
          with (more n W IC (bufs0 n a W IC N K u0 v0 w0 wz ic0 s) t)
    end;
    eapply lem; [ intros; apply cons | ].

  Theorem factorize_ignores_stream_tail :
    forall (directed assort from_init : bool) (starts ends : list label) (weights : list wt)
           (r maxit nconv u_rows u_cols : nat) (u0 v0 : matrix num) (aff0 : list num) (s t : list num),
      draws_needed label leqb wt countf directed assort from_init starts ends weights
                   (length aff0) u_rows u_cols r maxit nconv <= length s ->
      factorize num A label leqb wt countf ovr directed assort from_init starts ends weights
                r maxit nconv u_rows u_cols u0 v0 aff0 (s ++ t)
      = factorize num A label leqb wt countf ovr directed assort from_init starts ends weights
                  r maxit nconv u_rows u_cols u0 v0 aff0 s.
  Proof.
    intros directed assort from_init starts ends weights r maxit nconv u_rows u_cols u0 v0 aff0 s t.
    unfold factorize, draws_needed.
    destruct (validate label leqb wt assort starts ends weights (length aff0) u_rows u_cols r maxit nconv)
      as [c | L K N]; [reflexivity|].
    cbv zeta. unfold draws_per_realization. intros Hl.
    destruct assort, from_init; f_equal.
    - tail_case core_more consumes_step_from_ass. exact Hl.
    - tail_case core_more consumes_step_random_ass. exact Hl.
    - tail_case core_more consumes_step_from_gen. exact Hl.
    - tail_case core_more consumes_step_random_gen. exact Hl.
  Qed.

  Theorem factorize_starts_ignores_stream_tail :
    forall (directed assort from_init : bool) (starts ends : list label) (weights : list wt)
           (r maxit nconv u_rows u_cols : nat) (u0 v0 : matrix num) (aff0 : list num) (s t : list num),
      draws_needed label leqb wt countf directed assort from_init starts ends weights
                   (length aff0) u_rows u_cols r maxit nconv <= length s ->
      factorize_starts num A label leqb wt countf ovr directed assort from_init starts ends weights
                r maxit nconv u_rows u_cols u0 v0 aff0 (s ++ t)
      = factorize_starts num A label leqb wt countf ovr directed assort from_init starts ends weights
                  r maxit nconv u_rows u_cols u0 v0 aff0 s.
  Proof.
    intros directed assort from_init starts ends weights r maxit nconv u_rows u_cols u0 v0 aff0 s t.
    unfold factorize_starts, draws_needed.
    destruct (validate label leqb wt assort starts ends weights (length aff0) u_rows u_cols r maxit nconv)
      as [c | L K N]; [reflexivity|].
    cbv zeta. unfold draws_per_realization. intros Hl.
    destruct assort, from_init.
    - tail_case core_starts_more consumes_step_from_ass. exact Hl.
    - tail_case core_starts_more consumes_step_random_ass. exact Hl.
    - tail_case core_starts_more consumes_step_from_gen. exact Hl.
    - tail_case core_starts_more consumes_step_random_gen. exact Hl.
  Qed.
End MainTail.


(* ====================================================================== *)
(* Part 2: the generator                                                    *)
Section Generator.
  Local Open Scope Z_scope.

  (* a 32-bit word: nonnegative with nothing at or above bit 32 *)
  Definition bnd (a : Z) : Prop := 0 <= a /\ Z.shiftr a 32 = 0.

  Lemma w32_iff a : (0 <= a < W32) <-> bnd a.
  Proof.
    unfold bnd. rewrite Z.shiftr_div_pow2 by lia. change (2 ^ 32) with W32. split.
    - intros H; split; [lia | apply Z.div_small; exact H].
    - intros [H0 H]. apply Z.div_small_iff in H; [|unfold W32; lia]. unfold W32 in *; lia.
  Qed.

  Lemma bnd_0 : bnd 0.
  Proof. apply w32_iff. unfold W32; lia. Qed.

  Lemma bnd_lxor a b : bnd a -> bnd b -> bnd (Z.lxor a b).
  Proof.
    intros [A0 A1] [B0 B1]; split.
    - apply Z.lxor_nonneg; tauto.
    - rewrite Z.shiftr_lxor, A1, B1. reflexivity.
  Qed.

  Lemma bnd_lor a b : bnd a -> bnd b -> bnd (Z.lor a b).
  Proof.
    intros [A0 A1] [B0 B1]; split.
    - apply Z.lor_nonneg; tauto.
    - rewrite Z.shiftr_lor, A1, B1. reflexivity.
  Qed.

  Lemma bnd_land_r a b : bnd b -> bnd (Z.land a b).
  Proof.
    intros [B0 B1]; split.
    - apply Z.land_nonneg; tauto.
    - rewrite Z.shiftr_land, B1. apply Z.land_0_r.
  Qed.

  Lemma bnd_shiftr a k : 0 <= k -> bnd a -> bnd (Z.shiftr a k).
  Proof.
    intros Hk [A0 A1]; split.
    - apply Z.shiftr_nonneg; exact A0.
    - rewrite Z.shiftr_shiftr by lia. replace (k + 32) with (32 + k) by lia.
      rewrite <- Z.shiftr_shiftr by exact Hk. rewrite A1. apply Z.shiftr_0_l.
  Qed.

  Lemma bnd_t_shr y k : 0 <= k -> bnd y -> bnd (Z.lxor y (Z.shiftr y k)).
  Proof. intros Hk H. apply bnd_lxor; [exact H | apply bnd_shiftr; assumption]. Qed.

  Lemma bnd_t_and y k m : bnd m -> bnd y -> bnd (Z.lxor y (Z.land (Z.shiftl y k) m)).
  Proof. intros Hm H. apply bnd_lxor; [exact H | apply bnd_land_r; exact Hm]. Qed.

  Lemma temper_bnd y : bnd y -> bnd (temper y).
  Proof.
    intros H. unfold temper. cbv zeta.
    apply bnd_t_shr; [lia|]. apply bnd_t_and; [apply w32_iff; unfold W32; lia|].
    apply bnd_t_and; [apply w32_iff; unfold W32; lia|]. apply bnd_t_shr; [lia|]. exact H.
  Qed.

  Lemma mix_bnd xk xk1 xkm : bnd xkm -> bnd (mix xk xk1 xkm).
  Proof.
    intros H. unfold mix. cbv zeta.
    assert (Hy : bnd (Z.lor (Z.land xk 2147483648) (Z.land xk1 2147483647))).
    { apply bnd_lor; apply bnd_land_r; apply w32_iff; unfold W32; lia. }
    assert (Hv : bnd (Z.lxor xkm (Z.shiftr (Z.lor (Z.land xk 2147483648) (Z.land xk1 2147483647)) 1))).
    { apply bnd_lxor; [exact H | apply bnd_shiftr; [lia | exact Hy]]. }
    destruct (Z.odd _); [|exact Hv].
    apply bnd_lxor; [exact Hv | apply w32_iff; unfold W32; lia].
  Qed.

  Local Close Scope Z_scope.

  Lemma map3_length f a : forall b c,
    length (map3 f a b c) = Nat.min (length a) (Nat.min (length b) (length c)).
  Proof.
    induction a as [|x a IH]; intros b c; [reflexivity|].
    destruct b as [|y b]; [reflexivity|]. destruct c as [|z c]; [simpl; lia|].
    simpl. rewrite IH. reflexivity.
  Qed.

  Lemma map3_Forall (P : Z -> Prop) f a : forall b c,
    (forall x y z, P z -> P (f x y z)) -> Forall P c -> Forall P (map3 f a b c).
  Proof.
    induction a as [|x a IH]; intros b c Hf Hc; [constructor|].
    destruct b as [|y b]; [constructor|]. destruct c as [|z c]; [constructor|].
    inversion Hc; subst. simpl. constructor; [apply Hf; assumption | apply IH; assumption].
  Qed.

  Lemma Forall_skipn' {T} (P : T -> Prop) n : forall l, Forall P l -> Forall P (skipn n l).
  Proof.
    induction n; intros l H; [exact H|]. destruct l; [constructor|].
    inversion H; subst. simpl. apply IHn; assumption.
  Qed.

  Lemma Forall_nth_d {T} (P : T -> Prop) d : P d -> forall l n, Forall P l -> P (nth n l d).
  Proof.
    intros Hd l; induction l; intros n H; destruct n; simpl; auto; inversion H; subst; auto.
  Qed.

  Lemma twist_length x : length x = 624 -> length (twist x) = 624.
  Proof.
    intros H. unfold twist. cbv zeta.
    rewrite !app_length, !map3_length, !firstn_length, !skipn_length, H. reflexivity.
  Qed.

  Lemma twist_bnd x : Forall bnd x -> Forall bnd (twist x).
  Proof.
    intros H. unfold twist. cbv zeta.
    assert (Ha : Forall bnd (map3 mix (firstn 227 x) (firstn 227 (skipn 1 x)) (skipn 397 x))).
    { apply map3_Forall; [intros; apply mix_bnd; assumption | apply Forall_skipn'; exact H]. }
    assert (Hb1 : Forall bnd (map3 mix (firstn 227 (skipn 227 x)) (firstn 227 (skipn 228 x))
                                  (map3 mix (firstn 227 x) (firstn 227 (skipn 1 x)) (skipn 397 x)))).
    { apply map3_Forall; [intros; apply mix_bnd; assumption | exact Ha]. }
    apply Forall_app; split; [exact Ha|]. apply Forall_app; split; [exact Hb1|].
    apply Forall_app; split.
    - apply map3_Forall; [intros; apply mix_bnd; assumption | exact Hb1].
    - constructor; [|constructor]. apply mix_bnd. apply Forall_nth_d; [apply bnd_0 | exact Hb1].
  Qed.

  Definition mt_ok (s : mt_state) : Prop :=
    length (words s) = 624 /\ Forall (fun x => (0 <= x < W32)%Z) (words s) /\ pos s <= 624.

  Lemma Forall_w32_bnd l : Forall (fun x => (0 <= x < W32)%Z) l <-> Forall bnd l.
  Proof. split; apply Forall_impl; intros a; apply w32_iff. Qed.

  Lemma seed_words_length n : forall i prev, length (seed_words n i prev) = n.
  Proof. induction n; intros; simpl; [reflexivity | rewrite IHn; reflexivity]. Qed.

  Lemma seed_words_w32 n : forall i prev, Forall (fun x => (0 <= x < W32)%Z) (seed_words n i prev).
  Proof.
    induction n; intros; cbn [seed_words]; constructor; [|apply IHn].
    apply Z.mod_pos_bound. unfold W32; lia.
  Qed.

  Lemma mt_init_ok : forall seed, mt_ok (mt_init seed).
  Proof.
    intros seed. unfold mt_ok, mt_init, mt_seed. cbn [words pos]. split; [|split].
    - cbn zeta. cbn [length]. rewrite seed_words_length. reflexivity.
    - constructor; [apply Z.mod_pos_bound; unfold W32; lia | apply seed_words_w32].
    - unfold mtN. lia.
  Qed.

  Lemma next32_ok : forall s, mt_ok s -> mt_ok (snd (next32 s)) /\ (0 <= fst (next32 s) < W32)%Z.
  Proof.
    intros s (Hlen & Hw & Hp). unfold next32.
    destruct (Nat.leb mtN (pos s)) eqn:E; cbv zeta; cbn [words pos fst snd].
    - apply Forall_w32_bnd in Hw. pose proof (twist_bnd _ Hw) as Hb. split.
      + unfold mt_ok; cbn [words pos].
        repeat split; [apply twist_length; exact Hlen | apply Forall_w32_bnd; exact Hb | lia].
      + apply w32_iff, temper_bnd. apply Forall_nth_d; [apply bnd_0 | exact Hb].
    - apply Nat.leb_gt in E. unfold mtN in E. split.
      + unfold mt_ok; cbn [words pos]. repeat split; [exact Hlen | exact Hw | lia].
      + apply w32_iff, temper_bnd. apply Forall_nth_d; [apply bnd_0 | apply Forall_w32_bnd; exact Hw].
  Qed.

  (* ---- the draw stream ---- *)
  Lemma draws_from_S n s :
    draws_from (S n) s = fst (next_draw s) :: draws_from n (snd (next_draw s)).
  Proof. cbn [draws_from]. destruct (next_draw s); reflexivity. Qed.

  Fixpoint after (n : nat) (s : mt_state) : mt_state :=
    match n with O => s | S n' => after n' (snd (next_draw s)) end.

  Lemma draws_from_length n : forall s, length (draws_from n s) = n.
  Proof.
    induction n; intros s; [reflexivity|]. rewrite draws_from_S. cbn [length]. rewrite IHn. reflexivity.
  Qed.

  Lemma draws_from_app n m : forall s,
    draws_from (n + m) s = draws_from n s ++ draws_from m (after n s).
  Proof.
    induction n; intros s; [reflexivity|].
    change (S n + m) with (S (n + m)). rewrite !draws_from_S, IHn. reflexivity.
  Qed.

  Lemma mt_draws_length : forall seed n, length (mt_draws seed n) = n.
  Proof. intros; apply draws_from_length. Qed.

  Lemma mt_draws_app : forall seed n m,
    exists rest, mt_draws seed (n + m) = mt_draws seed n ++ rest /\ length rest = m.
  Proof.
    intros seed n m. exists (draws_from m (after n (mt_init seed))). split.
    - apply draws_from_app.
    - apply draws_from_length.
  Qed.

  Lemma mt_draws_prefix : forall seed n m, firstn n (mt_draws seed (n + m)) = mt_draws seed n.
  Proof.
    intros seed n m. destruct (mt_draws_app seed n m) as (rest & E & _). rewrite E.
    rewrite firstn_app, mt_draws_length, Nat.sub_diag. cbn [firstn]. rewrite app_nil_r.
    rewrite <- (mt_draws_length seed n) at 1. apply firstn_all.
  Qed.

  (* seeds congruent mod 2^32 give the same stream: static_cast<unsigned int>(seed) *)
  Lemma mt_seed_mod : forall seed k n, mt_draws (seed + k * W32)%Z n = mt_draws seed n.
  Proof.
    intros seed k n. unfold mt_draws, mt_init, mt_seed.
    rewrite Z.mod_add by (unfold W32; lia). reflexivity.
  Qed.
End Generator.


(* ====================================================================== *)
(* Part 3: the library call as a function of the seed                       *)
Section SeededStable.
  Variable A : Arith float.
  Variable label : Type.
  Variable leqb : label -> label -> bool.
  Variable wt : Type.
  Variable countf : wt -> nat.
  Variable ovr : nat -> nat -> float -> float.

  Lemma mt_draws_split seed d n :
    d <= n -> exists rest, mt_draws seed n = mt_draws seed d ++ rest.
  Proof.
    intros H. destruct (mt_draws_app seed d (n - d)) as (rest & E & _).
    exists rest. rewrite <- E. f_equal. lia.
  Qed.

  Theorem factorize_seeded_stable :
    forall (directed assort from_init : bool) (starts ends : list label) (weights : list wt)
           (r maxit nconv u_rows u_cols : nat) (u0 v0 : matrix float) (aff0 : list float)
           (seed : Z) (n : nat),
      draws_needed label leqb wt countf directed assort from_init starts ends weights
                   (length aff0) u_rows u_cols r maxit nconv <= n ->
      factorize float A label leqb wt countf ovr directed assort from_init starts ends weights
                r maxit nconv u_rows u_cols u0 v0 aff0 (mt_draws seed n)
      = factorize_seeded A label leqb wt countf ovr directed assort from_init starts ends weights
                         r maxit nconv u_rows u_cols u0 v0 aff0 seed.
  Proof.
    intros directed assort from_init starts ends weights r maxit nconv u_rows u_cols u0 v0 aff0 seed n H.
    unfold factorize_seeded.
    destruct (mt_draws_split seed _ n H) as (rest & E). rewrite E.
    apply factorize_ignores_stream_tail. rewrite mt_draws_length. apply le_n.
  Qed.

  Theorem factorize_starts_seeded_stable :
    forall (directed assort from_init : bool) (starts ends : list label) (weights : list wt)
           (r maxit nconv u_rows u_cols : nat) (u0 v0 : matrix float) (aff0 : list float)
           (seed : Z) (n : nat),
      draws_needed label leqb wt countf directed assort from_init starts ends weights
                   (length aff0) u_rows u_cols r maxit nconv <= n ->
      factorize_starts float A label leqb wt countf ovr directed assort from_init starts ends weights
                r maxit nconv u_rows u_cols u0 v0 aff0 (mt_draws seed n)
      = factorize_starts_seeded A label leqb wt countf ovr directed assort from_init starts ends weights
                         r maxit nconv u_rows u_cols u0 v0 aff0 seed.
  Proof.
    intros directed assort from_init starts ends weights r maxit nconv u_rows u_cols u0 v0 aff0 seed n H.
    unfold factorize_starts_seeded.
    destruct (mt_draws_split seed _ n H) as (rest & E). rewrite E.
    apply factorize_starts_ignores_stream_tail. rewrite mt_draws_length. apply le_n.
  Qed.

  Theorem factorize_seeded_mod32 :
    forall (directed assort from_init : bool) (starts ends : list label) (weights : list wt)
           (r maxit nconv u_rows u_cols : nat) (u0 v0 : matrix float) (aff0 : list float)
           (seed k : Z),
      factorize_seeded A label leqb wt countf ovr directed assort from_init starts ends weights
                       r maxit nconv u_rows u_cols u0 v0 aff0 (seed + k * W32)%Z
      = factorize_seeded A label leqb wt countf ovr directed assort from_init starts ends weights
                         r maxit nconv u_rows u_cols u0 v0 aff0 seed.
  Proof. intros. unfold factorize_seeded. rewrite mt_seed_mod. reflexivity. Qed.

  Theorem factorize_starts_seeded_mod32 :
    forall (directed assort from_init : bool) (starts ends : list label) (weights : list wt)
           (r maxit nconv u_rows u_cols : nat) (u0 v0 : matrix float) (aff0 : list float)
           (seed k : Z),
      factorize_starts_seeded A label leqb wt countf ovr directed assort from_init starts ends weights
                       r maxit nconv u_rows u_cols u0 v0 aff0 (seed + k * W32)%Z
      = factorize_starts_seeded A label leqb wt countf ovr directed assort from_init starts ends weights
                         r maxit nconv u_rows u_cols u0 v0 aff0 seed.
  Proof. intros. unfold factorize_starts_seeded. rewrite mt_seed_mod. reflexivity. Qed.
End SeededStable.

Check factorize_ignores_stream_tail.
Check factorize_starts_ignores_stream_tail.
Check mt_init_ok.
Check next32_ok.
Check mt_draws_length.
Check mt_draws_app.
Check mt_draws_prefix.
Check mt_seed_mod.
Check factorize_seeded_stable.
Check factorize_starts_seeded_stable.
Check factorize_seeded_mod32.
Check factorize_starts_seeded_mod32.

Print Assumptions factorize_ignores_stream_tail.
Print Assumptions factorize_starts_ignores_stream_tail.
Print Assumptions mt_init_ok.
Print Assumptions next32_ok.
Print Assumptions mt_draws_length.
Print Assumptions mt_draws_app.
Print Assumptions mt_draws_prefix.
Print Assumptions mt_seed_mod.
Print Assumptions factorize_seeded_stable.
Print Assumptions factorize_starts_seeded_stable.
Print Assumptions factorize_seeded_mod32.
Print Assumptions factorize_starts_seeded_mod32.
