(* Properties_C17.v -- C17: initialisation contract -- fresh, seeded, correctly ranged starts.
   The random generator is an explicit stream of draws (an INPUT of the model; the driver supplies mt19937 +
   uniform_real_distribution<double>, compared with libstdc++ by the K-RNG correspondence).  dr s p = draw number p.
   Every arithmetic; no bound on sizes.
   Only statements; every proof is `exact <lemma>` (proofs live in the files imported below). *)
From Coq Require Import Arith List Bool ZArith NArith Floats Reals.
Import ListNotations.
From MT Require Import Arith SweepModel InitModel CtrlModel InitProofs RunProofs MainModel InitProofs Mt19937 SeededModel SeedProofs CanonicalRange SeedCorollaries GenParams FloatInst ParamFacts StartRangeProofs GraphModel Layout CliModel CliProofs CliMain CliMainProofs CliAffinityProofs.

(* a realization of the general model with random affinity consumes EXACTLY n = L*K(K+1)/2 + [directed] K*|v_list| + K*|u_list| *)
(* draws, in this order: affinity, in-memberships (column by column over v_list), out-memberships; rows outside the lists are zero; *)
(* (start_post spells out the positions: see InitProofs.v) *)
Theorem C17_start_random_general : forall (num : Type) (A : Arith num) (directed : bool) (N K L : nat) 
         (ul vl : list nat) (b : bufs num (list (matrix num)) unit),
       exists (ut vt : matrix num) (s3 : list num),
         start_of num A (list (matrix num)) unit (step_random_gen num A K L) directed N K ul vl b =
         (tt, (ut, vt, fst (init_sym_random num A K L (strm b))), s3) /\
         start_post num A (list (matrix num)) unit directed N K ul vl b (L * (K * (K + 1) / 2)) ut vt
           s3.
Proof. exact start_of_consumption_random_gen. Qed.
Print Assumptions C17_start_random_general.

(* assortative: n_w = L*K *)
Theorem C17_start_random_assortative : forall (num : Type) (A : Arith num) (directed : bool) (N K L : nat) 
         (ul vl : list nat) (b : bufs num (list (list num)) unit),
       exists (ut vt : matrix num) (s3 : list num),
         start_of num A (list (list num)) unit (step_random_ass num A K L) directed N K ul vl b =
         (tt, (ut, vt, fst (init_diag_random num A K L (strm b))), s3) /\
         start_post num A (list (list num)) unit directed N K ul vl b (L * K) ut vt s3.
Proof. exact start_of_consumption_random_ass. Qed.
Print Assumptions C17_start_random_assortative.

(* user-supplied affinity: n_w = L*K*K draws, the start is the cached file tensor plus 0.1 x draw per entry *)
Theorem C17_start_from_general : forall (num : Type) (A : Arith num) (directed : bool) (N K L : nat) 
         (ul vl : list nat) (b : bufs num (list (matrix num)) (option (list (matrix num)))),
       let cache := cache_of (ic b) (cw b) in
       exists (ut vt : matrix num) (s3 : list num),
         start_of num A (list (matrix num)) (option (list (matrix num))) (step_from_gen num A K L)
           directed N K ul vl b =
         (Some cache, (ut, vt, fst (init_from_gen num A K L cache (strm b))), s3) /\
         start_post num A (list (matrix num)) (option (list (matrix num))) directed N K ul vl b
           (L * K * K) ut vt s3.
Proof. exact start_of_consumption_from_gen. Qed.
Print Assumptions C17_start_from_general.

(* n_w = L*K *)
Theorem C17_start_from_assortative : forall (num : Type) (A : Arith num) (directed : bool) (N K L : nat) 
         (ul vl : list nat) (b : bufs num (list (list num)) (option (list (list num)))),
       let cache := cache_of (ic b) (cw b) in
       exists (ut vt : matrix num) (s3 : list num),
         start_of num A (list (list num)) (option (list (list num))) (step_from_ass num A K L) directed
           N K ul vl b = (Some cache, (ut, vt, fst (init_from_ass num A K L cache (strm b))), s3) /\
         start_post num A (list (list num)) (option (list (list num))) directed N K ul vl b 
           (L * K) ut vt s3.
Proof. exact start_of_consumption_from_ass. Qed.
Print Assumptions C17_start_from_assortative.

(* random general affinity: layer a, entries (i,j) and (j,i), i <= j, share the ONE draw number a*T + pos K i j (T = K(K+1)/2): *)
(* symmetric per layer, each draw used for exactly one unordered pair (pos is a bijection: next theorems) *)
Theorem C17_affinity_random_symmetric : forall (num : Type) (A : Arith num) (K L : nat) (s : list num),
       let r := init_sym_random num A K L s in
       let T := K * (K + 1) / 2 in
       snd r = skipn (L * T) s /\
       length (fst r) = L /\
       (forall a : nat, a < L -> nth a (fst r) [] = fst (init_sym_layer num A K (skipn (a * T) s))) /\
       (forall a i j : nat,
        a < L ->
        i <= j < K ->
        tget num A (fst r) i j a = dr num A s (a * T + InitProofs.pos K i j) /\
        tget num A (fst r) j i a = dr num A s (a * T + InitProofs.pos K i j)).
Proof. exact init_sym_random_spec. Qed.
Print Assumptions C17_affinity_random_symmetric.

Theorem C17_pair_position_injective : forall (assort : bool) (K L k k' a a' : nat),
       k < K -> k' < K -> pos assort K L k a = pos assort K L k' a' -> k = k' /\ a = a'.
Proof. exact pos_inj. Qed.
Print Assumptions C17_pair_position_injective.

Theorem C17_pair_position_onto : forall K p : nat, p < tri K K -> exists i j : nat, i <= j < K /\ InitProofs.pos K i j = p.
Proof. exact pos_surj. Qed.
Print Assumptions C17_pair_position_onto.

Theorem C17_affinity_random_diagonal : forall (num : Type) (A : Arith num) (K L : nat) (s : list num),
       let r := init_diag_random num A K L s in
       snd r = skipn (L * K) s /\
       length (fst r) = L /\
       (forall a : nat, a < L -> length (nth a (fst r) []) = K) /\
       (forall k a : nat, k < K -> a < L -> dget num A (fst r) k a = dr num A s (a * K + k)).
Proof. exact init_diag_random_spec. Qed.
Print Assumptions C17_affinity_random_diagonal.

(* value + 0.1 x draw per entry, every entry its own draw *)
Theorem C17_affinity_from_file_general : forall (num : Type) (A : Arith num) (K L : nat) (cache : list (list (list num))) (s : list num),
       (forall a : nat, a < L -> mshape num K K (nth a cache [])) ->
       let r := init_from_gen num A K L cache s in
       snd r = skipn (L * K * K) s /\
       length (fst r) = L /\
       (forall a : nat, a < L -> mshape num K K (nth a (fst r) [])) /\
       (forall k q a : nat,
        k < K ->
        q < K ->
        a < L ->
        tget num A (fst r) k q a =
        noisy num A (tget num A cache k q a) (dr num A s (a * K * K + k * K + q))).
Proof. exact init_from_gen_spec. Qed.
Print Assumptions C17_affinity_from_file_general.

Theorem C17_affinity_from_file_assortative : forall (num : Type) (A : Arith num) (K L : nat) (cache : list (list num)) (s : list num),
       (forall a : nat, a < L -> length (nth a cache []) = K) ->
       let r := init_from_ass num A K L cache s in
       snd r = skipn (L * K) s /\
       length (fst r) = L /\
       (forall a : nat, a < L -> length (nth a (fst r) []) = K) /\
       (forall k a : nat,
        k < K ->
        a < L -> dget num A (fst r) k a = noisy num A (dget num A cache k a) (dr num A s (a * K + k))).
Proof. exact init_from_ass_spec. Qed.
Print Assumptions C17_affinity_from_file_assortative.

(* memberships of the listed vertices are the draws, column by column; all other rows keep the (zero) prior value *)
Theorem C17_membership_rows : forall (num : Type) (A : Arith num) (N K : nat) (elements : list nat),
       NoDup elements ->
       Forall (fun i : nat => i < N) elements ->
       forall (M : matrix num) (s : list num),
       mshape num N K M ->
       let r := init_rows num A K elements M s in
       snd r = skipn (K * length elements) s /\
       mshape num N K (fst r) /\
       (forall p i k : nat,
        nth_error elements p = Some i ->
        k < K -> mget num A (fst r) i k = dr num A s (k * length elements + p)) /\
       (forall i k : nat, ~ In i elements -> mget num A (fst r) i k = mget num A M i k).
Proof. exact init_rows_spec. Qed.
Print Assumptions C17_membership_rows.

(* the stream left by a realization is the stream its successor starts from (sweeps draw nothing): consecutive, disjoint *)
(* segments; together with the consumption theorems: realization i uses draws [off_i, off_i + n), off_{i+1} = off_i + n *)
Theorem C17_stream_threaded : forall (num : Type) (A : Arith num) (W : Type)
         (sweepf : matrix num * matrix num * W -> matrix num * matrix num * W)
         (likf : nat -> nat -> matrix num * matrix num * W -> num) (IC : Type)
         (initw : IC -> W -> list num -> IC * W * list num) (directed : bool) 
         (N K : nat) (ul vl : list nat) (maxit nconv : nat) (b : bufs num W IC) 
         (i : nat),
       strm (one_realization num A W sweepf likf IC initw directed N K ul vl maxit nconv b i) =
       snd (start_of num A W IC initw directed N K ul vl b).
Proof. exact run_stream. Qed.
Print Assumptions C17_stream_threaded.

(* the stream itself is part of the model (Mt19937.v: mt19937 seeding, twist, tempering on Z; generate_canonical<double,53> on binary64): *)
(* the engine reproduces the value the C++ standard prescribes for the 10000th output of a default-seeded mt19937 *)
Theorem C17_engine_is_mt19937 : nth (Z.to_nat 9999) (outputs_from (Z.to_nat 10000) (mt_init 5489)) 0%Z = 4123659995%Z.
Proof. exact mt19937_standard_check. Qed.
Print Assumptions C17_engine_is_mt19937.

(* 624 words below 2^32, position at most 624; every output is a 32-bit word *)
Theorem C17_engine_invariant : forall s : mt_state, mt_ok s -> mt_ok (snd (next32 s)) /\ (0 <= fst (next32 s) < W32)%Z.
Proof. exact next32_ok. Qed.
Print Assumptions C17_engine_invariant.

(* every draw d of RandomGenerator<>{seed} satisfies 0 <= d and d < 1 as binary64 comparisons (so it is not NaN): ranges of the random starts *)
(* (floating-point proof: CanonicalRange.v, Flocq) *)
Theorem C17_draws_in_unit_interval : forall (seed : Z) (n : nat), Forall in_unit (mt_draws seed n).
Proof. exact mt_draws_in_unit. Qed.
Print Assumptions C17_draws_in_unit_interval.

(* the first n draws do not depend on how many are requested: one stream per seed *)
Theorem C17_stream_prefix : forall (seed : Z) (n m : nat), firstn n (mt_draws seed (n + m)) = mt_draws seed n.
Proof. exact mt_draws_prefix. Qed.
Print Assumptions C17_stream_prefix.

(* the library call as a function of the SEED (SeededModel.factorize_seeded: factorize on the first draws_needed draws of that seed's stream): any longer *)
(* prefix of the stream gives the same result -- no draw beyond  r * (affinity draws + K|v_list| [directed] + K|u_list|)  is ever read *)
Theorem C17_reproducible_from_seed : forall (A : Arith float) (label : Type) (leqb : label -> label -> bool) 
         (wt : Type) (countf : wt -> nat) (ovr : nat -> nat -> float -> float)
         (directed assort from_init : bool) (starts ends : list label) (weights : list wt)
         (r maxit nconv u_rows u_cols : nat) (u0 v0 : matrix float) (aff0 : list float) 
         (seed : Z) (n : nat),
       draws_needed label leqb wt countf directed assort from_init starts ends weights 
         (length aff0) u_rows u_cols r maxit nconv <= n ->
       factorize float A label leqb wt countf ovr directed assort from_init starts ends weights r maxit
         nconv u_rows u_cols u0 v0 aff0 (mt_draws seed n) =
       factorize_seeded A label leqb wt countf ovr directed assort from_init starts ends weights r
         maxit nconv u_rows u_cols u0 v0 aff0 seed.
Proof. exact factorize_seeded_stable. Qed.
Print Assumptions C17_reproducible_from_seed.

(* the same for the start state of every realization *)
Theorem C17_starts_reproducible_from_seed : forall (A : Arith float) (label : Type) (leqb : label -> label -> bool) 
         (wt : Type) (countf : wt -> nat) (ovr : nat -> nat -> float -> float)
         (directed assort from_init : bool) (starts ends : list label) (weights : list wt)
         (r maxit nconv u_rows u_cols : nat) (u0 v0 : matrix float) (aff0 : list float) 
         (seed : Z) (n : nat),
       draws_needed label leqb wt countf directed assort from_init starts ends weights 
         (length aff0) u_rows u_cols r maxit nconv <= n ->
       factorize_starts float A label leqb wt countf ovr directed assort from_init starts ends weights
         r maxit nconv u_rows u_cols u0 v0 aff0 (mt_draws seed n) =
       factorize_starts_seeded A label leqb wt countf ovr directed assort from_init starts ends weights
         r maxit nconv u_rows u_cols u0 v0 aff0 seed.
Proof. exact factorize_starts_seeded_stable. Qed.
Print Assumptions C17_starts_reproducible_from_seed.

(* static_cast<unsigned int>(seed): seeds congruent modulo 2^32 give the same run *)
Theorem C17_seed_taken_modulo_2_32 : forall (A : Arith float) (label : Type) (leqb : label -> label -> bool) 
         (wt : Type) (countf : wt -> nat) (ovr : nat -> nat -> float -> float)
         (directed assort from_init : bool) (starts ends : list label) (weights : list wt)
         (r maxit nconv u_rows u_cols : nat) (u0 v0 : matrix float) (aff0 : list float) 
         (seed k : Z),
       factorize_seeded A label leqb wt countf ovr directed assort from_init starts ends weights r
         maxit nconv u_rows u_cols u0 v0 aff0 (seed + k * W32) =
       factorize_seeded A label leqb wt countf ovr directed assort from_init starts ends weights r
         maxit nconv u_rows u_cols u0 v0 aff0 seed.
Proof. exact factorize_seeded_mod32. Qed.
Print Assumptions C17_seed_taken_modulo_2_32.

(* the amplitude of the noise added to a user-supplied affinity, as it stands in params.hpp now: 0.1 (exactly the double nearest to 0.1 in the executed model) *)
Theorem C17_params : cxx_EPS_NOISE_R = (1 / 10)%R /\
       cxx_EPS_NOISE_F = 0.10000000000000001%float /\
       (forall lnf : float -> float, noise (ArithF lnf) = cxx_EPS_NOISE_F).
Proof. exact noise_is_one_tenth. Qed.
Print Assumptions C17_params.

(* every entry of the random start of a realization drawn from RandomGenerator<>{seed} -- out-memberships, in-memberships (directed), affinity -- *)
(* is a binary64 number d with 0 <= d and d < 1 (general model) *)
Theorem C17_random_start_in_unit_interval_general : forall (lnf : float -> float) (directed : bool) (N K L : nat) (ul vl : list nat) 
         (seed : Z) (n : nat) (b : bufs float (list (matrix float)) unit),
       strm b = mt_draws seed n ->
       NoDup ul ->
       Forall (fun i : nat => i < N) ul ->
       (directed = true -> NoDup vl /\ Forall (fun i : nat => i < N) vl) ->
       forall (ic' : unit) (ut vt : matrix float) (wt : list (matrix float)) (s3 : list float),
       start_of float (ArithF lnf) (list (matrix float)) unit (step_random_gen float (ArithF lnf) K L)
         directed N K ul vl b = (ic', (ut, vt, wt), s3) ->
       (forall i k : nat, i < N -> k < K -> in_unit (mget float (ArithF lnf) ut i k)) /\
       (directed = true -> forall i k : nat, i < N -> k < K -> in_unit (mget float (ArithF lnf) vt i k)) /\
       (forall i j a : nat, i < K -> j < K -> a < L -> in_unit (tget float (ArithF lnf) wt i j a)).
Proof. exact seeded_random_start_in_unit_general. Qed.
Print Assumptions C17_random_start_in_unit_interval_general.

(* the same for the assortative model *)
Theorem C17_random_start_in_unit_interval_assortative : forall (lnf : float -> float) (directed : bool) (N K L : nat) (ul vl : list nat) 
         (seed : Z) (n : nat) (b : bufs float (list (list float)) unit),
       strm b = mt_draws seed n ->
       NoDup ul ->
       Forall (fun i : nat => i < N) ul ->
       (directed = true -> NoDup vl /\ Forall (fun i : nat => i < N) vl) ->
       forall (ic' : unit) (ut vt : matrix float) (wt : list (list float)) (s3 : list float),
       start_of float (ArithF lnf) (list (list float)) unit (step_random_ass float (ArithF lnf) K L)
         directed N K ul vl b = (ic', (ut, vt, wt), s3) ->
       (forall i k : nat, i < N -> k < K -> in_unit (mget float (ArithF lnf) ut i k)) /\
       (directed = true -> forall i k : nat, i < N -> k < K -> in_unit (mget float (ArithF lnf) vt i k)) /\
       (forall k a : nat, k < K -> a < L -> in_unit (dget float (ArithF lnf) wt k a)).
Proof. exact seeded_random_start_in_unit_assortative. Qed.
Print Assumptions C17_random_start_in_unit_interval_assortative.

(* the front end hands the seed it was given to the library: for every selection without an affinity file, what `cli_main` writes is built from the *)
(* library's run from the generator seeded with the value of `--s` (the clock only for `--s random` / no `--s`), whatever the other options are *)
Theorem C17_cli_runs_from_the_given_seed : forall (A : Arith float) (stoi : str -> option Z) (fs : str -> option (list byte)) 
         (now : Z) (tokenize : list byte -> list (list str)) (is_hash : str -> bool)
         (pnum : str -> option float) (puint : str -> option nat) (fmt fmt_int : float -> str)
         (fmt_nat : nat -> str) (fmt_N : N -> str) (fmt_Z : Z -> str) (word : nat -> str)
         (reason_name : reason -> str) (argv : list str) (c : cli_cfg) (items : list item) 
         (nl : bool) (sd : Z) (res : result float N),
       parse_options stoi argv = Some c ->
       c_wfile c = [] ->
       fs (c_adj c) = Some (render_file items nl) ->
       Forall item_ok items ->
       c_seed c = s_random /\ sd = now \/ c_seed c <> s_random /\ stoi (c_seed c) = Some sd ->
       let starts := flat_map item_src items in
       let ends := flat_map item_tgt items in
       let weights := flat_map item_wts items in
       let nv := get_num_vertices N N.eqb starts ends in
       let L := match starts with
                | [] => 0
                | _ :: _ => length weights / length starts
                end in
       factorize_seeded A N N.eqb N N.to_nat (fun (_ _ : nat) (x : float) => x) 
         (c_directed c) (c_assort c) false starts ends weights (c_r c) (c_maxit c) 
         (c_nconv c) nv (c_K c) (zeros float A nv (c_K c))
         (if c_directed c then zeros float A nv (c_K c) else [])
         (repeat (zero A) (if c_assort c then c_K c * L else c_K c * c_K c * L)) sd = 
       Ok float N res ->
       let best := max_L2 float A (map snd (r_rep float N res)) in
       let labels := map fmt_N (r_labels float N res) in
       let head := header fmt_int fmt_nat word best (length (r_rep float N res)) in
       cli_main A stoi fs now tokenize is_hash pnum puint fmt fmt_int fmt_nat fmt_N fmt_Z word
         reason_name argv =
       CliOk (c_out c)
         ([(f_info, info_rows A fmt fmt_nat fmt_Z word reason_name sd (r_rep float N res));
           (f_w, head :: affinity_rows float A str fmt fmt_nat word (r_aff float N res) (c_K c) L);
           (f_u, head :: membership_rows float A str fmt word labels (r_u float N res) nv (c_K c))] ++
          (if c_directed c
           then
            [(f_v, head :: membership_rows float A str fmt word labels (r_v float N res) nv (c_K c))]
           else [])).
Proof. exact cli_main_is_library_files. Qed.
Print Assumptions C17_cli_runs_from_the_given_seed.

(* the same for the four selections with `--w` *)
Theorem C17_cli_runs_from_the_given_seed_with_affinity_file : forall (A : Arith float) (stoi : str -> option Z) (fs : str -> option (list byte)) 
         (now : Z) (tokenize : list byte -> list (list str)) (is_hash : str -> bool)
         (pnum : str -> option float) (puint : str -> option nat) (fmt fmt_int : float -> str)
         (fmt_nat : nat -> str) (fmt_N : N -> str) (fmt_Z : Z -> str) (word : nat -> str)
         (reason_name : reason -> str) (argv : list str) (c : cli_cfg) (items : list item) 
         (nl : bool) (wb : list byte) (w : list float) (sd : Z) (res : result float N),
       parse_options stoi argv = Some c ->
       c_wfile c <> [] ->
       fs (c_adj c) = Some (render_file items nl) ->
       Forall item_ok items ->
       fs (c_wfile c) = Some wb ->
       let starts := flat_map item_src items in
       let ends := flat_map item_tgt items in
       let weights := flat_map item_wts items in
       let nv := get_num_vertices N N.eqb starts ends in
       let L := match starts with
                | [] => 0
                | _ :: _ => length weights / length starts
                end in
       let K := c_K c in
       let size := if c_assort c then K * L else K * K * L in
       read_affinity float str is_hash pnum puint (c_assort c) (tokenize wb) (repeat (zero A) size) K =
       AffOk float w ->
       seed_of stoi now (c_seed c) = Some sd ->
       factorize_seeded A N N.eqb N N.to_nat (fun (_ _ : nat) (x : float) => x) 
         (c_directed c) (c_assort c) true starts ends weights (c_r c) (c_maxit c) 
         (c_nconv c) nv K (zeros float A nv K) (if c_directed c then zeros float A nv K else []) w sd =
       Ok float N res ->
       cli_main A stoi fs now tokenize is_hash pnum puint fmt fmt_int fmt_nat fmt_N fmt_Z word
         reason_name argv =
       CliOk (c_out c) (result_files A fmt fmt_int fmt_nat fmt_N fmt_Z word reason_name c nv L sd res).
Proof. exact cli_main_with_affinity_file. Qed.
Print Assumptions C17_cli_runs_from_the_given_seed_with_affinity_file.

