(* Properties_C17.v -- C17: initialisation contract -- fresh, seeded, correctly ranged starts.
   The random generator is an explicit stream of draws (an INPUT of the model; the driver supplies mt19937 +
   uniform_real_distribution<double>, compared with libstdc++ by the K-RNG correspondence).  dr s p = draw number p.
   Every arithmetic; no bound on sizes.
   Only statements; every proof is `exact <lemma>` (proofs live in the files imported below). *)
From Coq Require Import Arith List Bool.
Import ListNotations.
From MT Require Import Arith SweepModel InitModel CtrlModel InitProofs RunProofs.

(* a realization of the general model with random affinity consumes EXACTLY n = L*K(K+1)/2 + [directed] K*|v_list| + K*|u_list| *)
(* draws, in this order: affinity, in-memberships (column by column over v_list), out-memberships; rows outside the lists are zero; *)
(* (start_post spells out the positions: see InitProofs.v) *)
Theorem C17_start_random_general : forall (num : Type) (A : Arith num) (directed : bool) (N K L : nat) 
         (ul vl : list nat) (b : bufs num (list (matrix num)) unit),
       exists (ut vt : matrix num) (s3 : list num),
         start_of num A (list (matrix num)) unit (step_random_gen num A K L) directed N K ul vl b =
         (tt, (ut, vt, fst (init_sym_random num A K L (strm b))), s3) /\
         start_post num A (list (matrix num)) unit directed N K ul vl b
           (L * PeanoNat.Nat.div (K * (K + 1)) 2) ut vt s3.
Proof. exact start_of_consumption_random_gen. Qed.
Print Assumptions C17_start_random_general.

(* assortative: n_w = L*K *)
Theorem C17_start_random_assortative : forall (num : Type) (A : Arith num) (directed : bool) (N K L : nat) 
         (ul vl : list nat) (b : bufs num (list (list num)) unit),
       exists (ut vt : matrix num) (s3 : list num),
         start_of num A (list (list num)) unit (step_random_ass num A K L) directed N K ul vl b =
         (tt, (ut, vt, fst (init_diag_random num A K L (strm b))), s3) /\
         start_post num A (list (list num)) unit directed N K ul vl b (L * K) ut vt s3.
Proof. exact start_of_consumption_random_ass. Qed.
Print Assumptions C17_start_random_assortative.

(* user-supplied affinity: n_w = L*K*K draws, the start is the cached file tensor plus 0.1 x draw per entry *)
Theorem C17_start_from_general : forall (num : Type) (A : Arith num) (directed : bool) (N K L : nat) 
         (ul vl : list nat) (b : bufs num (list (matrix num)) (option (list (matrix num)))),
       let cache := cache_of (ic b) (cw b) in
       exists (ut vt : matrix num) (s3 : list num),
         start_of num A (list (matrix num)) (option (list (matrix num))) (step_from_gen num A K L)
           directed N K ul vl b =
         (Some cache, (ut, vt, fst (init_from_gen num A K L cache (strm b))), s3) /\
         start_post num A (list (matrix num)) (option (list (matrix num))) directed N K ul vl b
           (L * K * K) ut vt s3.
Proof. exact start_of_consumption_from_gen. Qed.
Print Assumptions C17_start_from_general.

(* n_w = L*K *)
Theorem C17_start_from_assortative : forall (num : Type) (A : Arith num) (directed : bool) (N K L : nat) 
         (ul vl : list nat) (b : bufs num (list (list num)) (option (list (list num)))),
       let cache := cache_of (ic b) (cw b) in
       exists (ut vt : matrix num) (s3 : list num),
         start_of num A (list (list num)) (option (list (list num))) (step_from_ass num A K L) directed
           N K ul vl b = (Some cache, (ut, vt, fst (init_from_ass num A K L cache (strm b))), s3) /\
         start_post num A (list (list num)) (option (list (list num))) directed N K ul vl b 
           (L * K) ut vt s3.
Proof. exact start_of_consumption_from_ass. Qed.
Print Assumptions C17_start_from_assortative.

(* random general affinity: layer a, entries (i,j) and (j,i), i <= j, share the ONE draw number a*T + pos K i j (T = K(K+1)/2): *)
(* symmetric per layer, each draw used for exactly one unordered pair (pos is a bijection: next theorems) *)
Theorem C17_affinity_random_symmetric : forall (num : Type) (A : Arith num) (K L : nat) (s : list num),
       let r := init_sym_random num A K L s in
       let T := PeanoNat.Nat.div (K * (K + 1)) 2 in
       snd r = List.skipn (L * T) s /\
       length (fst r) = L /\
       (forall a : nat,
        a < L -> List.nth a (fst r) nil = fst (init_sym_layer num A K (List.skipn (a * T) s))) /\
       (forall a i j : nat,
        a < L ->
        i <= j < K ->
        tget num A (fst r) i j a = dr num A s (a * T + pos K i j) /\
        tget num A (fst r) j i a = dr num A s (a * T + pos K i j)).
Proof. exact init_sym_random_spec. Qed.
Print Assumptions C17_affinity_random_symmetric.

Theorem C17_pair_position_injective : forall K i j i' j' : nat,
       i <= j < K -> i' <= j' < K -> pos K i j = pos K i' j' -> i = i' /\ j = j'.
Proof. exact pos_inj. Qed.
Print Assumptions C17_pair_position_injective.

Theorem C17_pair_position_onto : forall K p : nat, p < tri K K -> exists i j : nat, i <= j < K /\ pos K i j = p.
Proof. exact pos_surj. Qed.
Print Assumptions C17_pair_position_onto.

Theorem C17_affinity_random_diagonal : forall (num : Type) (A : Arith num) (K L : nat) (s : list num),
       let r := init_diag_random num A K L s in
       snd r = List.skipn (L * K) s /\
       length (fst r) = L /\
       (forall a : nat, a < L -> length (List.nth a (fst r) nil) = K) /\
       (forall k a : nat, k < K -> a < L -> dget num A (fst r) k a = dr num A s (a * K + k)).
Proof. exact init_diag_random_spec. Qed.
Print Assumptions C17_affinity_random_diagonal.

(* value + 0.1 x draw per entry, every entry its own draw *)
Theorem C17_affinity_from_file_general : forall (num : Type) (A : Arith num) (K L : nat) (cache : list (list (list num))) (s : list num),
       (forall a : nat, a < L -> mshape num K K (List.nth a cache nil)) ->
       let r := init_from_gen num A K L cache s in
       snd r = List.skipn (L * K * K) s /\
       length (fst r) = L /\
       (forall a : nat, a < L -> mshape num K K (List.nth a (fst r) nil)) /\
       (forall k q a : nat,
        k < K ->
        q < K ->
        a < L ->
        tget num A (fst r) k q a =
        noisy num A (tget num A cache k q a) (dr num A s (a * K * K + k * K + q))).
Proof. exact init_from_gen_spec. Qed.
Print Assumptions C17_affinity_from_file_general.

Theorem C17_affinity_from_file_assortative : forall (num : Type) (A : Arith num) (K L : nat) (cache : list (list num)) (s : list num),
       (forall a : nat, a < L -> length (List.nth a cache nil) = K) ->
       let r := init_from_ass num A K L cache s in
       snd r = List.skipn (L * K) s /\
       length (fst r) = L /\
       (forall a : nat, a < L -> length (List.nth a (fst r) nil) = K) /\
       (forall k a : nat,
        k < K ->
        a < L -> dget num A (fst r) k a = noisy num A (dget num A cache k a) (dr num A s (a * K + k))).
Proof. exact init_from_ass_spec. Qed.
Print Assumptions C17_affinity_from_file_assortative.

(* memberships of the listed vertices are the draws, column by column; all other rows keep the (zero) prior value *)
Theorem C17_membership_rows : forall (num : Type) (A : Arith num) (N K : nat) (elements : list nat),
       List.NoDup elements ->
       List.Forall (fun i : nat => i < N) elements ->
       forall (M : matrix num) (s : list num),
       mshape num N K M ->
       let r := init_rows num A K elements M s in
       snd r = List.skipn (K * length elements) s /\
       mshape num N K (fst r) /\
       (forall p i k : nat,
        List.nth_error elements p = Some i ->
        k < K -> mget num A (fst r) i k = dr num A s (k * length elements + p)) /\
       (forall i k : nat, ~ List.In i elements -> mget num A (fst r) i k = mget num A M i k).
Proof. exact init_rows_spec. Qed.
Print Assumptions C17_membership_rows.

(* the stream left by a realization is the stream its successor starts from (sweeps draw nothing): consecutive, disjoint *)
(* segments; together with the consumption theorems: realization i uses draws [off_i, off_i + n), off_{i+1} = off_i + n *)
Theorem C17_stream_threaded : forall (num : Type) (A : Arith num) (W : Type)
         (sweepf : matrix num * matrix num * W -> matrix num * matrix num * W)
         (likf : nat -> nat -> matrix num * matrix num * W -> num) (IC : Type)
         (initw : IC -> W -> list num -> IC * W * list num) (directed : bool) 
         (N K : nat) (ul vl : list nat) (maxit nconv : nat) (b : bufs num W IC) 
         (i : nat),
       strm (one_realization num A W sweepf likf IC initw directed N K ul vl maxit nconv b i) =
       snd (start_of num A W IC initw directed N K ul vl b).
Proof. exact run_stream. Qed.
Print Assumptions C17_stream_threaded.

