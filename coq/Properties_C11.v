(* Properties_C11.v -- C11: undirected mode -- orientation-blind, single membership, symmetric affinity.
   Reversal and the untouched in-membership: every arithmetic (so bit-identical for binary64), whole entry point, no bound on sizes.
   Symmetry of the affinity from the random start: ArithR (exact reals; in binary64 the symmetry holds up to rounding: oracle 1e-10).
   Only statements; every proof is `exact <lemma>` (proofs live in the files imported below). *)
From Coq Require Import Arith List Bool Reals Floats.
Import ListNotations.
From MT Require Import Arith J SweepModel RInst Spec GraphModel InitModel CtrlModel MainModel GraphRelabel FactorizeProofs InvProofs.

(* reversing ANY subset of records, with the order of first appearance of the vertices unchanged, leaves the whole result of the *)
(* undirected entry point unchanged (also its error behaviour) *)
Theorem C11_reversal : forall (num : Type) (A : Arith num) (label : Type) (leqb : label -> label -> bool) 
         (wt : Type) (countf : wt -> nat) (ovr : nat -> nat -> num -> num),
       (forall a b : label, leqb a b = true <-> a = b) ->
       forall (assort from_init : bool) (starts ends starts' ends' : list label) 
         (weights : list wt) (r maxit nconv u_rows u_cols : nat) (u0 v0 : matrix num)
         (aff0 stream : list num),
       length starts = length ends ->
       length starts' = length ends' ->
       Forall2 (fun p p' : label * label => p' = p \/ p' = (snd p, fst p)) 
         (combine starts ends) (combine starts' ends') ->
       dedup label leqb [] (flat_map (fun p : label * label => [fst p; snd p]) (combine starts' ends')) =
       dedup label leqb [] (flat_map (fun p : label * label => [fst p; snd p]) (combine starts ends)) ->
       factorize num A label leqb wt countf ovr false assort from_init starts' ends' weights r maxit
         nconv u_rows u_cols u0 v0 aff0 stream =
       factorize num A label leqb wt countf ovr false assort from_init starts ends weights r maxit
         nconv u_rows u_cols u0 v0 aff0 stream.
Proof. exact factorize_reversal_undirected. Qed.
Print Assumptions C11_reversal.

(* because the network itself is unchanged: same adjacency lists in the same order *)
Theorem C11_reversal_network : forall (label : Type) (leqb : label -> label -> bool),
       (forall a b : label, leqb a b = true <-> a = b) ->
       forall (L : nat) (recs recs' : list (label * label * list nat)),
       Forall2 (same_or_flipped label) recs recs' ->
       tbl label (build label leqb false L recs') = tbl label (build label leqb false L recs) ->
       build label leqb false L recs' = build label leqb false L recs.
Proof. exact build_reverse_undirected_global. Qed.
Print Assumptions C11_reversal_network.

(* the in-membership argument is returned exactly as passed ... *)
Theorem C11_v_not_written : forall (num : Type) (A : Arith num) (label : Type) (leqb : label -> label -> bool) 
         (wt : Type) (countf : wt -> nat) (ovr : nat -> nat -> num -> num) 
         (assort from_init : bool) (starts ends : list label) (weights : list wt)
         (r maxit nconv u_rows u_cols : nat) (aff0 stream : list num) (u0 v0 : matrix num)
         (res : result num label),
       factorize num A label leqb wt countf ovr false assort from_init starts ends weights r maxit
         nconv u_rows u_cols u0 v0 aff0 stream = Ok num label res -> r_v num label res = v0.
Proof. exact factorize_v_untouched. Qed.
Print Assumptions C11_v_not_written.

(* ... and no other result depends on it *)
Theorem C11_v_not_read : forall (num : Type) (A : Arith num) (label : Type) (leqb : label -> label -> bool) 
         (wt : Type) (countf : wt -> nat) (ovr : nat -> nat -> num -> num) 
         (assort from_init : bool) (starts ends : list label) (weights : list wt)
         (r maxit nconv u_rows u_cols : nat) (aff0 stream : list num) (u0 v0 v0' : matrix num)
         (res res' : result num label),
       factorize num A label leqb wt countf ovr false assort from_init starts ends weights r maxit
         nconv u_rows u_cols u0 v0 aff0 stream = Ok num label res ->
       factorize num A label leqb wt countf ovr false assort from_init starts ends weights r maxit
         nconv u_rows u_cols u0 v0' aff0 stream = Ok num label res' ->
       r_labels num label res = r_labels num label res' /\
       r_u num label res = r_u num label res' /\
       r_aff num label res = r_aff num label res' /\ r_rep num label res = r_rep num label res'.
Proof. exact factorize_v_irrelevant. Qed.
Print Assumptions C11_v_not_read.

(* from the random start (symmetric per layer: next theorem) the affinity of every layer stays symmetric after any number of *)
(* undirected sweeps, for any memberships; wsym K L w := forall k q < K, a < L, w(k,q,a) = w(q,k,a) *)
Theorem C11_affinity_symmetric : forall (N K L : nat) (G : graph) (strm : list R) (w0 : list (matrix R)) 
         (strm' : list R) (u0 v0 : matrix R) (n : nat),
       wfG_undirected N L G ->
       init_sym_random R ArithR K L strm = (w0, strm') ->
       wsym K L (snd (iter n (sweep_gen R ArithR N K L false G) (u0, v0, w0))).
Proof. exact C11_affinity_symmetric_from_random_start. Qed.
Print Assumptions C11_affinity_symmetric.

(* (any arithmetic) *)
Theorem C11_random_start_symmetric : forall (num : Type) (A : Arith num) (K L : nat) (s : list num) (w : list (matrix num))
         (s' : list num),
       init_sym_random num A K L s = (w, s') ->
       forall i j a : nat, i < K -> j < K -> tget num A w i j a = tget num A w j i a.
Proof. exact init_sym_random_symmetric_gen. Qed.
Print Assumptions C11_random_start_symmetric.

Theorem C11_symmetry_preserved_by_a_sweep : forall (N K L : nat) (G : graph) (u v : matrix R) (w : list (matrix R)),
       wfG_undirected N L G ->
       wsym K L w -> wsym K L (snd (sweep_gen R ArithR N K L false G (u, v, w))).
Proof. exact sweep_gen_undirected_symmetric. Qed.
Print Assumptions C11_symmetry_preserved_by_a_sweep.

