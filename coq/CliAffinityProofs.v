(* CliAffinityProofs.v -- the command line model CliMain.cli_main with an initial-affinity file (`--w FILE`), end to end:
     - cli_main_with_affinity_file: an accepted file -> the library is called with from_init = true and the vector the reader
       produced; the result files are those built from that call
     - cli_main_affinity_file_missing / _rejected: the file cannot be opened / the reader reports an error -> stage 3, nothing written
     - cli_main_mismatching_affinity_file_rejected: the causes of CliProofs.read_affinity_rejects, for the command line
     - cli_main_accepts_only_matching_affinity_files: a successful run with `--w` implies every well-formedness condition of
       CliProofs.read_affinity_ok_inv on the file (and, in the _strong form, that the number of columns IS --k and the number of
       data lines IS the number of layers of the adjacency data)
   Only new statements; the definitions (parse_options, cli_cfg, cli_body, seed_of, result_files) are those of CliMainProofs. *)
From Coq Require Import List Arith Bool ZArith NArith Floats Lia.
Import ListNotations.
From MT Require Import Arith SweepModel GraphModel InitModel CtrlModel MainModel Layout CliModel Mt19937 SeededModel CliMain CliProofs
                       CliMainProofs.

Section CliAffinityProofs.
  Variable A : Arith float.
  Variable stoi : str -> option Z.
  Variable fs : str -> option (list byte).
  Variable now : Z.
  Variable tokenize : list byte -> list (list str).
  Variable is_hash : str -> bool.
  Variable pnum : str -> option float.
  Variable puint : str -> option nat.
  Variable fmt : float -> str.
  Variable fmt_int : float -> str.
  Variable fmt_nat : nat -> str.
  Variable fmt_N : N -> str.
  Variable fmt_Z : Z -> str.
  Variable word : nat -> str.
  Variable reason_name : reason -> str.

  Local Notation main := (cli_main A stoi fs now tokenize is_hash pnum puint fmt fmt_int fmt_nat fmt_N fmt_Z word reason_name).
  Local Notation body := (cli_body A stoi fs now tokenize is_hash pnum puint fmt fmt_int fmt_nat fmt_N fmt_Z word reason_name).
  Local Notation files := (result_files A fmt fmt_int fmt_nat fmt_N fmt_Z word reason_name).
  Local Notation popts := (parse_options stoi).
  Local Notation seedof := (seed_of stoi now).
  Local Notation reader := (read_affinity float str is_hash pnum puint).

  (* the body when an initial affinity file is named *)
  Lemma cli_body_wfile c bytes starts ends weights :
    fs (c_adj c) = Some bytes ->
    parse_adjacency bytes = (starts, ends, weights) ->
    c_wfile c <> [] ->
    let nv := get_num_vertices N N.eqb starts ends in
    let L := match starts with [] => 0 | _ => length weights / length starts end in
    let size := if c_assort c then c_K c * L else c_K c * c_K c * L in
    body c =
    match fs (c_wfile c) with
    | None => CliThrow 3
    | Some wb =>
        match reader (c_assort c) (tokenize wb) (repeat (zero A) size) (c_K c) with
        | AffError _ => CliThrow 3
        | AffOk _ w =>
            match seedof (c_seed c) with
            | None => CliThrow 4
            | Some sd =>
                match factorize_seeded A N N.eqb N N.to_nat (fun _ _ x => x) (c_directed c) (c_assort c) true
                                       starts ends weights (c_r c) (c_maxit c) (c_nconv c) nv (c_K c)
                                       (zeros float A nv (c_K c)) (if c_directed c then zeros float A nv (c_K c) else [])
                                       w sd with
                | Error _ _ _ => CliThrow 5
                | Ok _ _ res => CliOk (c_out c) (files c nv L sd res)
                end
            end
        end
    end.
  Proof.
    intros Hf Hp Hw nv L size. unfold cli_body. rewrite Hf, Hp.
    destruct (c_wfile c) as [|b wf] eqn:Ew; [contradiction|].
    cbv zeta. cbn [negb].
    destruct (fs (b :: wf)) as [wb|]; [|reflexivity].
    fold nv L size.
    destruct (reader (c_assort c) (tokenize wb) (repeat (zero A) size) (c_K c)) as [|w]; reflexivity.
  Qed.

  (* ---- 1 ---- *)
  Theorem cli_main_with_affinity_file argv c items nl wb w sd res :
    popts argv = Some c ->
    c_wfile c <> [] ->
    fs (c_adj c) = Some (render_file items nl) ->
    Forall item_ok items ->
    fs (c_wfile c) = Some wb ->
    let starts := flat_map item_src items in
    let ends := flat_map item_tgt items in
    let weights := flat_map item_wts items in
    let nv := get_num_vertices N N.eqb starts ends in
    let L := match starts with [] => 0 | _ => length weights / length starts end in
    let K := c_K c in
    let size := if c_assort c then K * L else K * K * L in
    reader (c_assort c) (tokenize wb) (repeat (zero A) size) K = AffOk float w ->
    seedof (c_seed c) = Some sd ->
    factorize_seeded A N N.eqb N N.to_nat (fun _ _ x => x) (c_directed c) (c_assort c) true
                     starts ends weights (c_r c) (c_maxit c) (c_nconv c) nv K
                     (zeros float A nv K) (if c_directed c then zeros float A nv K else [])
                     w sd = Ok float N res ->
    main argv = CliOk (c_out c) (files c nv L sd res).
  Proof.
    intros Ho Hw Hf Hok Hwf starts ends weights nv L K size Hr Hs Hlib.
    rewrite cli_main_decompose, Ho.
    rewrite (cli_body_wfile c _ starts ends weights Hf (parse_render items nl Hok) Hw).
    rewrite Hwf. fold nv L K size. rewrite Hr, Hs, Hlib. reflexivity.
  Qed.

  (* ---- 2 ---- *)
  Theorem cli_main_affinity_file_missing argv c bytes :
    popts argv = Some c ->
    fs (c_adj c) = Some bytes ->
    c_wfile c <> [] ->
    fs (c_wfile c) = None ->
    main argv = CliThrow 3.
  Proof.
    intros Ho Hf Hw Hn. rewrite cli_main_decompose, Ho.
    destruct (parse_adjacency bytes) as [[starts ends] weights] eqn:Hp.
    rewrite (cli_body_wfile c bytes starts ends weights Hf Hp Hw), Hn. reflexivity.
  Qed.

  (* ---- 3 ---- *)
  Theorem cli_main_affinity_file_rejected argv c bytes starts ends weights wb :
    popts argv = Some c ->
    fs (c_adj c) = Some bytes ->
    parse_adjacency bytes = (starts, ends, weights) ->
    c_wfile c <> [] ->
    fs (c_wfile c) = Some wb ->
    let L := match starts with [] => 0 | _ => length weights / length starts end in
    let size := if c_assort c then c_K c * L else c_K c * c_K c * L in
    reader (c_assort c) (tokenize wb) (repeat (zero A) size) (c_K c) = AffError float ->
    main argv = CliThrow 3.
  Proof.
    intros Ho Hf Hp Hw Hwf L size Hr. rewrite cli_main_decompose, Ho.
    rewrite (cli_body_wfile c bytes starts ends weights Hf Hp Hw), Hwf.
    fold L size. rewrite Hr. reflexivity.
  Qed.

  (* ---- 4 ---- the causes of CliProofs.read_affinity_rejects with w := the zero vector of the demanded size, eK := --k.
     `aff_size assort Kf (length dl) <> size`: the number of data lines (layers of the file) times the block size of the file
     differs from the size the adjacency data and --k demand. *)
  Theorem cli_main_mismatching_affinity_file_rejected argv c bytes starts ends weights wb :
    popts argv = Some c ->
    fs (c_adj c) = Some bytes ->
    parse_adjacency bytes = (starts, ends, weights) ->
    c_wfile c <> [] ->
    fs (c_wfile c) = Some wb ->
    let L := match starts with [] => 0 | _ => length weights / length starts end in
    let size := if c_assort c then c_K c * L else c_K c * c_K c * L in
    let dl := data_lines str is_hash (tokenize wb) in
    let Kf := hd 0 (counts float str pnum dl) in
    (exists l1 l2, In l1 dl /\ In l2 dl /\
                   length (take_nums float str pnum (tl l1)) <> length (take_nums float str pnum (tl l2))) \/
    Kf = 0 \/
    aff_size (c_assort c) Kf (length dl) <> size \/
    (c_K c <> 0 /\ c_K c <> Kf) \/
    (exists t vs, In (t :: vs) dl /\ puint t = None) \/
    (exists t vs a, In (t :: vs) dl /\ puint t = Some a /\ length dl <= a) \/
    (exists l1 l2 l3 t1 v1 t2 v2 a, dl = l1 ++ (t1 :: v1) :: l2 ++ (t2 :: v2) :: l3 /\
                                    puint t1 = Some a /\ puint t2 = Some a) ->
    main argv = CliThrow 3.
  Proof.
    intros Ho Hf Hp Hw Hwf L size dl Kf Hc.
    apply (cli_main_affinity_file_rejected argv c bytes starts ends weights wb Ho Hf Hp Hw Hwf).
    fold L size.
    apply (read_affinity_rejects float str is_hash pnum puint (c_assort c) (tokenize wb) (repeat (zero A) size) (c_K c)).
    rewrite repeat_length. exact Hc.
  Qed.

  (* the three causes of the property's last sentence, in words of --k and the number of layers L of the adjacency data:
     different numbers of values / a common number of values that is not --k / a number of data lines that is not L *)
  Corollary cli_main_mismatching_affinity_file_rejected_KL argv c bytes starts ends weights wb :
    popts argv = Some c ->
    fs (c_adj c) = Some bytes ->
    parse_adjacency bytes = (starts, ends, weights) ->
    c_wfile c <> [] ->
    fs (c_wfile c) = Some wb ->
    let L := match starts with [] => 0 | _ => length weights / length starts end in
    let dl := data_lines str is_hash (tokenize wb) in
    ~ Forall (fun n => n = c_K c) (counts float str pnum dl) \/ length dl <> L ->
    main argv = CliThrow 3.
  Proof.
    intros Ho Hf Hp Hw Hwf L dl Hc.
    set (size := if c_assort c then c_K c * L else c_K c * c_K c * L).
    destruct (reader (c_assort c) (tokenize wb) (repeat (zero A) size) (c_K c)) as [|w] eqn:Er.
    - exact (cli_main_affinity_file_rejected argv c bytes starts ends weights wb Ho Hf Hp Hw Hwf Er).
    - exfalso. apply read_affinity_ok_inv in Er. cbv zeta in Er. fold dl in Er.
      destruct Er as (Hcnt & HK & Hsz & HeK & _).
      rewrite repeat_length in Hsz.
      set (Kf := hd 0 (counts float str pnum dl)) in *.
      assert (HKK : c_K c = Kf /\ length dl = L).
      { unfold aff_size, size in Hsz. destruct HeK as [E0|E1].
        - exfalso. rewrite E0 in Hsz. cbn in Hsz.
          assert (length dl = 0) by (destruct (c_assort c); nia).
          apply HK. unfold Kf. destruct dl; [reflexivity|discriminate].
        - split; [exact E1|]. rewrite E1 in Hsz. destruct (c_assort c); nia. }
      destruct HKK as [E1 E2]. destruct Hc as [Hc|Hc]; [|contradiction].
      apply Hc. rewrite E1. exact Hcnt.
  Qed.

  (* ---- 5 ---- *)
  Theorem cli_main_accepts_only_matching_affinity_files argv c d fl :
    popts argv = Some c ->
    c_wfile c <> [] ->
    main argv = CliOk d fl ->
    exists bytes starts ends weights wb,
      fs (c_adj c) = Some bytes /\ parse_adjacency bytes = (starts, ends, weights) /\ fs (c_wfile c) = Some wb /\
      let L := match starts with [] => 0 | _ => length weights / length starts end in
      let size := if c_assort c then c_K c * L else c_K c * c_K c * L in
      let dl := data_lines str is_hash (tokenize wb) in
      let Kf := hd 0 (counts float str pnum dl) in
      Forall (fun n => n = Kf) (counts float str pnum dl) /\ Kf <> 0 /\
      aff_size (c_assort c) Kf (length dl) = size /\ (c_K c = 0 \/ c_K c = Kf) /\
      exists ids, Forall2 (fun l a => exists t vs, l = t :: vs /\ puint t = Some a) dl ids /\
                  NoDup ids /\ Forall (fun a => a < length dl) ids.
  Proof.
    intros Ho Hw E. rewrite cli_main_decompose, Ho in E.
    destruct (fs (c_adj c)) as [bytes|] eqn:Hf; [|unfold cli_body in E; rewrite Hf in E; discriminate].
    destruct (parse_adjacency bytes) as [[starts ends] weights] eqn:Hp.
    rewrite (cli_body_wfile c bytes starts ends weights Hf Hp Hw) in E.
    destruct (fs (c_wfile c)) as [wb|] eqn:Hwf; [|discriminate].
    exists bytes, starts, ends, weights, wb. split; [reflexivity|]. split; [exact Hp|]. split; [reflexivity|].
    intros L size dl Kf. fold L size in E.
    destruct (reader (c_assort c) (tokenize wb) (repeat (zero A) size) (c_K c)) as [|w] eqn:Er; [discriminate|].
    apply read_affinity_ok_inv in Er. cbv zeta in Er. rewrite repeat_length in Er. exact Er.
  Qed.

  (* the same in words of --k and L: every data line has exactly --k values, --k >= 1, the file has exactly as many data lines
     as the adjacency data has layers, the layer ids are numbers, pairwise distinct and below L *)
  Theorem cli_main_accepts_only_matching_affinity_files_strong argv c d fl :
    popts argv = Some c ->
    c_wfile c <> [] ->
    main argv = CliOk d fl ->
    exists bytes starts ends weights wb,
      fs (c_adj c) = Some bytes /\ parse_adjacency bytes = (starts, ends, weights) /\ fs (c_wfile c) = Some wb /\
      let L := match starts with [] => 0 | _ => length weights / length starts end in
      let dl := data_lines str is_hash (tokenize wb) in
      Forall (fun n => n = c_K c) (counts float str pnum dl) /\ c_K c <> 0 /\ length dl = L /\ L <> 0 /\
      exists ids, Forall2 (fun l a => exists t vs, l = t :: vs /\ puint t = Some a) dl ids /\
                  NoDup ids /\ Forall (fun a => a < L) ids.
  Proof.
    intros Ho Hw E.
    destruct (cli_main_accepts_only_matching_affinity_files argv c d fl Ho Hw E)
      as (bytes & starts & ends & weights & wb & Hf & Hp & Hwf & H).
    exists bytes, starts, ends, weights, wb. split; [exact Hf|]. split; [exact Hp|]. split; [exact Hwf|].
    cbv zeta in H. cbv zeta.
    set (L := match starts with [] => 0 | _ => length weights / length starts end) in *.
    set (dl := data_lines str is_hash (tokenize wb)) in *.
    set (Kf := hd 0 (counts float str pnum dl)) in *.
    destruct H as (Hcnt & HK & Hsz & HeK & ids & F2 & ND & Hlt).
    assert (HKK : c_K c = Kf /\ length dl = L).
    { unfold aff_size in Hsz. destruct HeK as [E0|E1].
      - exfalso. rewrite E0 in Hsz. cbn in Hsz.
        assert (length dl = 0) by (destruct (c_assort c); nia).
        apply HK. unfold Kf. destruct dl; [reflexivity|discriminate].
      - split; [exact E1|]. rewrite E1 in Hsz. destruct (c_assort c); nia. }
    destruct HKK as [E1 E2].
    split; [rewrite E1; exact Hcnt|]. split; [rewrite E1; exact HK|]. split; [exact E2|].
    split.
    - rewrite <- E2. intros H0. apply HK. unfold Kf. destruct dl; [reflexivity|discriminate].
    - exists ids. split; [exact F2|]. split; [exact ND|]. rewrite <- E2. exact Hlt.
  Qed.
End CliAffinityProofs.

Check cli_main_with_affinity_file.
Check cli_main_affinity_file_missing.
Check cli_main_affinity_file_rejected.
Check cli_main_mismatching_affinity_file_rejected.
Check cli_main_mismatching_affinity_file_rejected_KL.
Check cli_main_accepts_only_matching_affinity_files.
Check cli_main_accepts_only_matching_affinity_files_strong.

Print Assumptions cli_main_with_affinity_file.
Print Assumptions cli_main_affinity_file_missing.
Print Assumptions cli_main_affinity_file_rejected.
Print Assumptions cli_main_mismatching_affinity_file_rejected.
Print Assumptions cli_main_mismatching_affinity_file_rejected_KL.
Print Assumptions cli_main_accepts_only_matching_affinity_files.
Print Assumptions cli_main_accepts_only_matching_affinity_files_strong.
