(* FmtG.v -- operator<<(std::ostream&, double) with precision 6 and default float format, i.e. printf("%.6g"), on binary64:
   the exact value m * 2^e is rounded to 6 significant decimal digits (round half to even on the EXACT value, as glibc does),
   written in fixed notation when the decimal exponent X satisfies -4 <= X < 6 and in exponent notation otherwise, trailing zeros
   (and a trailing point) removed.  Everything is integer arithmetic on Z; no approximation.  Bytes are ASCII codes. *)
From Coq Require Import List ZArith NArith Floats Bool.
Import ListNotations.
Local Open Scope Z_scope.

Definition digit_byte (d : Z) : N := Z.to_N (48 + d).
(* the decimal digits of n >= 0, most significant first, at least `width` of them (left-padded with zeros) *)
Fixpoint digits_fuel (fuel : nat) (n : Z) (acc : list N) : list N :=
  match fuel with
  | O => acc
  | S f => if n <? 10 then digit_byte n :: acc else digits_fuel f (n / 10) (digit_byte (n mod 10) :: acc)
  end.
Definition digits_of (n : Z) : list N := digits_fuel (S (Z.to_nat (Z.log2 (Z.max n 1)))) n [].
Definition pad_left (width : nat) (l : list N) : list N := repeat 48%N (width - length l) ++ l.

Fixpoint strip_zeros_rev (l : list N) : list N :=       (* l reversed: drop leading '0's *)
  match l with
  | 48%N :: r => strip_zeros_rev r
  | _ => l
  end.
Definition strip_trailing_zeros (l : list N) : list N := rev (strip_zeros_rev (rev l)).

(* p/q > 0: the decimal exponent X with 10^X <= p/q < 10^(X+1), found from an estimate by a bounded correction *)
Definition le_pow10 (X : Z) (p q : Z) : bool :=          (* 10^X <= p/q *)
  if 0 <=? X then (10 ^ X * q <=? p) else (q <=? p * 10 ^ (- X)).
Fixpoint adjust_up (fuel : nat) (X p q : Z) : Z :=
  match fuel with O => X | S f => if le_pow10 (X + 1) p q then adjust_up f (X + 1) p q else X end.
Fixpoint adjust_down (fuel : nat) (X p q : Z) : Z :=
  match fuel with O => X | S f => if le_pow10 X p q then X else adjust_down f (X - 1) p q end.
Definition dec_exponent (p q : Z) : Z :=
  let est := ((Z.log2 p - Z.log2 q) * 30103) / 100000 in
  adjust_up 4 (adjust_down 4 (est + 1) p q) p q.

(* round p/q * 10^(5 - X) to an integer, half to even *)
Definition round6 (p q X : Z) : Z :=
  let '(nn, dd) := if X <=? 5 then (p * 10 ^ (5 - X), q) else (p, q * 10 ^ (X - 5)) in
  let d := nn / dd in
  let r := nn mod dd in
  if (dd <? 2 * r) || ((dd =? 2 * r) && Z.odd d) then d + 1 else d.

Definition fmt_pos (p q : Z) : list N :=
  let X0 := dec_exponent p q in
  let D0 := round6 p q X0 in
  let '(D, X) := if D0 =? 1000000 then (100000, X0 + 1) else (D0, X0) in
  let ds := pad_left 6 (digits_of D) in
  if (X <? -4) || (6 <=? X) then
    (* d.ddddde+XX *)
    let frac := strip_trailing_zeros (tl ds) in
    let mant := match frac with [] => [hd 48%N ds] | _ => hd 48%N ds :: 46%N :: frac end in
    let ex := pad_left 2 (digits_of (Z.abs X)) in
    mant ++ [101%N; (if X <? 0 then 45%N else 43%N)] ++ ex
  else if 0 <=? X then
    let ip := firstn (Z.to_nat (X + 1)) ds in
    let frac := strip_trailing_zeros (skipn (Z.to_nat (X + 1)) ds) in
    match frac with [] => ip | _ => ip ++ 46%N :: frac end
  else
    let frac := strip_trailing_zeros (repeat 48%N (Z.to_nat (- X - 1)) ++ ds) in
    [48%N; 46%N] ++ frac.

Definition fmt_g6 (x : float) : list N :=
  match Prim2SF x with
  | S754_zero s => if s then [45%N; 48%N] else [48%N]
  | S754_infinity s => (if s then [45%N] else []) ++ [105%N; 110%N; 102%N]
  | S754_nan => [110%N; 97%N; 110%N]
  | S754_finite s m e =>
      let '(p, q) := if 0 <=? e then (Z.pos m * 2 ^ e, 1) else (Z.pos m, 2 ^ (- e)) in
      (if s then [45%N] else []) ++ fmt_pos p q
  end.
