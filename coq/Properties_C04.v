(* Properties_C04.v -- C04: the best realization is what is returned and reported.
   For every arithmetic, sweep, likelihood (so also for scripted likelihoods), initialiser, r. *)
From Coq Require Import Arith List.
Import ListNotations.
From MT Require Import Arith SweepModel InitModel CtrlModel RunProofs.

Section C04.
  Variables (num : Type) (A : Arith num) (W : Type).
  Notation st := (matrix num * matrix num * W)%type.
  Variables (sweepf : st -> st) (likf : nat -> nat -> st -> num) (IC : Type)
            (initw : IC -> W -> list num -> IC * W * list num)
            (directed : bool) (N K : nat) (ul vl : list nat) (maxit nconv : nat).
  Notation run := (CtrlModel.run num A W sweepf likf IC initw directed N K ul vl).
  Notation final_of := (RunProofs.final_of num A W sweepf likf IC initw directed N K ul vl maxit nconv).
  Notation real_of := (RunProofs.real_of num A W sweepf likf IC initw directed N K ul vl maxit nconv).
  Notation best := (best_index num A).

  (* the returned factors are exactly the final factors of ONE realization i -- affinity, out-membership and
     (directed) in-membership all from the same i -- where i = best_index of the reported likelihoods *)
  Theorem C04_select : forall r b0, rep b0 = [] ->
    (forall i, best (map snd (rep (run r maxit nconv b0))) = Some i ->
       i < r /\
       cu (run r maxit nconv b0) = fu num W (final_of (run i maxit nconv b0) i) /\
       cw (run r maxit nconv b0) = fw num W (final_of (run i maxit nconv b0) i) /\
       (directed = true -> cv (run r maxit nconv b0) = fv num W (final_of (run i maxit nconv b0) i))) /\
    (best (map snd (rep (run r maxit nconv b0))) = None ->
       cu (run r maxit nconv b0) = cu b0 /\ cv (run r maxit nconv b0) = cv b0 /\ cw (run r maxit nconv b0) = cw b0) /\
    (directed = false -> cv (run r maxit nconv b0) = cv b0).
  Proof. exact (run_select num A W sweepf likf IC initw directed N K ul vl maxit nconv). Qed.

  (* best_index is the FIRST index attaining the maximum (earliest on ties), and the report's maximum is that
     realization's likelihood -- whenever ltb is a strict total order on the reported values (no NaN) *)
  Theorem C04_argmax_first : forall ls, strict_total_on num A ls -> ls <> [] ->
    In (max_L2 num A ls) ls /\
    (forall y, In y ls -> ltb A (max_L2 num A ls) y = false) /\
    (forall i, best ls = Some i ->
       i < length ls /\ nth i ls (lowest A) = max_L2 num A ls /\
       (forall j, j < i -> ltb A (nth j ls (lowest A)) (max_L2 num A ls) = true)) /\
    (best ls = None -> max_L2 num A ls = hd (lowest A) ls /\ ltb A (lowest A) (hd (lowest A) ls) = false) /\
    (ltb A (lowest A) (hd (lowest A) ls) = true -> exists i, best ls = Some i).
  Proof. exact (max_L2_spec num A). Qed.

  (* the report lists (iterations, reason, likelihood) of every realization in execution order *)
  Theorem C04_report : forall r b0,
    length (rep (run r maxit nconv b0)) = length (rep b0) + r /\
    (forall i, i < r ->
       nth_error (rep (run r maxit nconv b0)) (length (rep b0) + i) =
       Some (let c := fst (real_of (run i maxit nconv b0) i) in
             (ls_it c, snd (real_of (run i maxit nconv b0) i), ls_L2 c))).
  Proof. intros r b0. exact (proj2 (run_report num A W sweepf likf IC initw directed N K ul vl maxit nconv r b0)). Qed.

  (* with a fixed seed (same initial buffers and stream) the first r' entries of an r-realization run are the
     r'-realization run's report: the best likelihood is non-decreasing in r *)
  Theorem C04_prefix : forall r r' b0, r' <= r ->
    firstn (length (rep b0) + r') (rep (run r maxit nconv b0)) = rep (run r' maxit nconv b0).
  Proof. intros r r' b0 H. exact (proj2 (run_prefix num A W sweepf likf IC initw directed N K ul vl maxit nconv r r' b0 H)). Qed.
End C04.
Print Assumptions C04_select.
Print Assumptions C04_argmax_first.
Print Assumptions C04_report.
Print Assumptions C04_prefix.

(* (the strictness of the adoption test -- ties go to the EARLIEST realization -- is pinned behaviourally: K-SELECT runs every weak ordering of scripted likelihoods) *)

(* non-vacuity: ties and later winners on a toy arithmetic *)
Example C04_ex_tie : best_index nat natA [3; 5; 5; 2; 4] = Some 1.
Proof. vm_compute. reflexivity. Qed.
Example C04_ex_later : best_index nat natA [3; 5; 2; 7; 7] = Some 3.
Proof. vm_compute. reflexivity. Qed.
