(* Spec.v -- the DECLARATIVE side of the analytic properties, over exact reals: multiplicities,
   model rates, the Poisson log-likelihood, the published multiplicative EM updates of
   De Bacco et al. (2017) written densely over all vertex pairs, expected edge counts.
   Short on purpose: this is what the code-shaped model (SweepModel.v) is proved equal to. *)
From Coq Require Import Reals List Arith Bool Permutation.
Import ListNotations.
From MT Require Import Arith J SweepModel RInst.
Local Open Scope R_scope.

Section Spec.
  Variables (N K L : nat).
  Notation g := (mget R ArithR).
  Notation vs := (seq 0 N).
  Notation ks := (seq 0 K).
  Notation las := (seq 0 L).

  (* A_ija : number of parallel edges i -> j in layer a.  `out a i` lists the neighbours of i with
     repetition; in an undirected layer every edge is listed at both endpoints (a self-loop twice). *)
  Definition Acount (out : nat -> nat -> list nat) (a i j : nat) : nat :=
    count_occ Nat.eq_dec (out a i) j.
  Definition Amul (out : nat -> nat -> list nat) (a i j : nat) : R := INR (Acount out a i j).

  (* model rate M_ija = sum_kq u_ik v_jq w_kqa   (assortative: only k = q) *)
  Definition rate_gen (u v : matrix R) (w : nat -> nat -> nat -> R) (i j a : nat) : R :=
    sumR (fun k => sumR (fun q => g u i k * g v j q * w k q a) ks) ks.
  Definition rate_ass (u v : matrix R) (wd : nat -> nat -> R) (i j a : nat) : R :=
    sumR (fun k => g u i k * g v j k * wd k a) ks.

  (* Poisson log-likelihood (up to the constant -sum ln A!) : sum_a sum_ij A ln M - M *)
  Definition LLspec (out : nat -> nat -> list nat) (rate : nat -> nat -> nat -> R) : R :=
    sumR (fun a => sumR (fun i => sumR (fun j =>
      Amul out a i j * Rpower.ln (rate i j a) - rate i j a) vs) vs) las.
  (* the general form the code computes: the log term only where the rate exceeds eps *)
  Definition LLguard (out : nat -> nat -> list nat) (rate : nat -> nat -> nat -> R) : R :=
    sumR (fun a => sumR (fun i => sumR (fun j =>
      (if Rltb epsR (if (0 <? Acount out a i j)%nat then rate i j a else 0)
       then Amul out a i j * Rpower.ln (rate i j a) else 0) - rate i j a) vs) vs) las.

  (* expected number of edges of layer a, and observed number (oriented; both orientations when undirected) *)
  Definition expected_edges (rate : nat -> nat -> nat -> R) (a : nat) : R :=
    sumR (fun i => sumR (fun j => rate i j a) vs) vs.
  Definition observed_edges (out : nat -> nat -> list nat) (a : nat) : R :=
    sumR (fun i => INR (length (out a i))) vs.

  Definition truncR (x : R) : R := if Rltb (Rabs x) epsR then 0 else x.
  (* the documented guards of one multiplicative update: skip when the denominator is <= eps or the old
     value is <= eps; results below eps are snapped to zero; zero stays zero *)
  Definition guarded (old den num : R) : R :=
    if Rltb epsR den then (if Rltb epsR old then truncR (old / den * num) else old) else old.
  (* an edge term is dropped when its rate is <= eps *)
  Definition over (num rate : R) : R := if Rltb epsR rate then num / rate else 0.

  (* ---------------- general model ---------------- *)
  Section General.
    Variable out : nat -> nat -> list nat.
    (* out-membership:  u_ik <- u_ik * [sum_a sum_j A_ija (sum_q v_jq w_kqa) / M_ija] / [sum_q (sum_a w_kqa)(sum_j v_jq)] *)
    Definition em_u (u v : matrix R) (w : nat -> nat -> nat -> R) : matrix R :=
      mtab R N K (fun i k =>
        guarded (g u i k)
          (sumR (fun q => sumR (fun a => w k q a) las * sumR (fun j => g v j q) vs) ks)
          (sumR (fun a => sumR (fun j => Amul out a i j *
              over (sumR (fun q => g v j q * w k q a) ks) (rate_gen u v w i j a)) vs) las)).
    (* in-membership:  v_jk <- v_jk * [sum_a sum_i A_ija (sum_q u_iq w_qka) / M_ija] / [sum_q (sum_a w_qka)(sum_i u_iq)] *)
    Definition em_v (u v : matrix R) (w : nat -> nat -> nat -> R) : matrix R :=
      mtab R N K (fun j k =>
        guarded (g v j k)
          (sumR (fun q => sumR (fun a => w q k a) las * sumR (fun i => g u i q) vs) ks)
          (sumR (fun a => sumR (fun i => Amul out a i j *
              over (sumR (fun q => g u i q * w q k a) ks) (rate_gen u v w i j a)) vs) las)).
    (* affinity:  w_kqa <- w_kqa * [sum_ij A_ija u_ik v_jq / M_ija] / [(sum_i u_ik)(sum_j v_jq)] *)
    Definition em_w (u v : matrix R) (w : nat -> nat -> nat -> R) (k q a : nat) : R :=
      guarded (w k q a)
        (sumR (fun i => g u i k) vs * sumR (fun j => g v j q) vs)
        (sumR (fun i => sumR (fun j => Amul out a i j * over (g u i k * g v j q) (rate_gen u v w i j a)) vs) vs).
    Definition em_w_tensor (u v : matrix R) (w : nat -> nat -> nat -> R) : list (matrix R) :=
      map (fun a => mtab R K K (fun k q => em_w u v w k q a)) las.

    (* one iteration in the documented order; undirected: the single membership matrix plays both roles on
       the symmetrised network, the in-membership argument is returned untouched *)
    Definition em_sweep_gen (directed : bool) (s : matrix R * matrix R * list (matrix R)) :=
      let '(u, v, w) := s in
      let wv := tget R ArithR w in
      if directed then
        let u1 := em_u u v wv in
        let v1 := em_v u1 v wv in
        (u1, v1, em_w_tensor u1 v1 wv)
      else
        let u1 := em_u u u wv in
        (u1, v, em_w_tensor u1 u1 wv).
  End General.

  (* ---------------- assortative model: only the diagonal affinities exist ---------------- *)
  Section Assortative.
    Variable out : nat -> nat -> list nat.
    Definition ema_u (u v : matrix R) (wd : nat -> nat -> R) : matrix R :=
      mtab R N K (fun i k =>
        guarded (g u i k)
          (sumR (fun a => wd k a) las * sumR (fun j => g v j k) vs)
          (sumR (fun a => sumR (fun j => Amul out a i j * over (g v j k * wd k a) (rate_ass u v wd i j a)) vs) las)).
    Definition ema_v (u v : matrix R) (wd : nat -> nat -> R) : matrix R :=
      mtab R N K (fun j k =>
        guarded (g v j k)
          (sumR (fun a => wd k a) las * sumR (fun i => g u i k) vs)
          (sumR (fun a => sumR (fun i => Amul out a i j * over (g u i k * wd k a) (rate_ass u v wd i j a)) vs) las)).
    Definition ema_w (u v : matrix R) (wd : nat -> nat -> R) (k a : nat) : R :=
      guarded (wd k a)
        (sumR (fun i => g u i k) vs * sumR (fun j => g v j k) vs)
        (sumR (fun i => sumR (fun j => Amul out a i j * over (g u i k * g v j k) (rate_ass u v wd i j a)) vs) vs).
    Definition ema_w_tensor (u v : matrix R) (wd : nat -> nat -> R) : list (list R) :=
      map (fun a => map (fun k => ema_w u v wd k a) ks) las.
    Definition em_sweep_ass (directed : bool) (s : matrix R * matrix R * list (list R)) :=
      let '(u, v, w) := s in
      let wv := dget R ArithR w in
      if directed then
        let u1 := ema_u u v wv in
        let v1 := ema_v u1 v wv in
        (u1, v1, ema_w_tensor u1 v1 wv)
      else
        let u1 := ema_u u u wv in
        (u1, v, ema_w_tensor u1 u1 wv).
  End Assortative.

  (* embedding of a diagonal tensor into a general one (C10) *)
  Definition embed (wd : list (list R)) : list (matrix R) :=
    map (fun a => mtab R K K (fun k q => if (k =? q)%nat then dget R ArithR wd k a else 0)) las.

  (* invariants of the solver state w.r.t. a graph view *)
  Record wfG (G : graph) : Prop := {
    wf_out_lt : forall a i j, (a < L)%nat -> (i < N)%nat -> In j (gout G a i) -> (j < N)%nat;
    wf_in_lt : forall a j i, (a < L)%nat -> (j < N)%nat -> In i (gin G a j) -> (i < N)%nat;
    wf_ul_nodup : NoDup (gul G); wf_vl_nodup : NoDup (gvl G);
    wf_ul_lt : forall i, In i (gul G) -> (i < N)%nat; wf_vl_lt : forall j, In j (gvl G) -> (j < N)%nat;
    (* vertices outside u_list have no out-neighbours *)
    wf_ul_out : forall i a, (i < N)%nat -> ~ In i (gul G) -> gout G a i = [] }.
  (* directed graphs: the in-lists are the transposed out-lists (as multisets of oriented edges), and
     vertices outside v_list have no in-neighbours *)
  Definition pairs_out (G : graph) (a : nat) : list (nat * nat) :=
    flat_map (fun i => map (fun j => (i, j)) (gout G a i)) vs.
  Definition pairs_in (G : graph) (a : nat) : list (nat * nat) :=
    flat_map (fun j => map (fun i => (i, j)) (gin G a j)) vs.
  Record wfG_directed (G : graph) : Prop := {
    wfd_perm : forall a, (a < L)%nat -> Permutation (pairs_out G a) (pairs_in G a);
    wfd_vl_in : forall j a, (j < N)%nat -> ~ In j (gvl G) -> gin G a j = [] }.
  (* undirected graphs: symmetric oriented edge multiset, one shared vertex list *)
  Record wfG_undirected (G : graph) : Prop := {
    wfu_sym : forall a, (a < L)%nat ->
      Permutation (pairs_out G a) (map (fun p => (snd p, fst p)) (pairs_out G a));
    wfu_shared : gvl G = gul G }.

  (* state invariant: non-negative entries, zero membership rows outside the vertex lists *)
  Definition nonneg_m (m : matrix R) : Prop := forall i k, 0 <= g m i k.
  Definition zero_rows (l : list nat) (m : matrix R) : Prop :=
    forall i k, (i < N)%nat -> ~ In i l -> g m i k = 0.
End Spec.
