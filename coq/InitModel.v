(* InitModel.v -- model of include/multitensor/initialization.hpp.  The random generator is an
   explicit stream of draws (list num); every initialiser consumes a prefix and returns the rest.
   A draw beyond the end of the stream reads as zero (the theorems assume the stream is long
   enough; the driver always supplies enough draws). *)
From Coq Require Import List Arith Bool.
Import ListNotations.
From MT Require Import Arith SweepModel.

Section Init.
  Variable num : Type.
  Variable A : Arith num.
  Notation Z0 := (zero A).

  Definition hd0 (s : list num) : num := match s with [] => Z0 | x :: _ => x end.

  (* matrix update mat(i,k) = x ; out-of-range indices leave the matrix unchanged *)
  Fixpoint lset {T} (l : list T) (k : nat) (x : T) : list T :=
    match l, k with
    | [], _ => []
    | _ :: r, O => x :: r
    | y :: r, S k' => y :: lset r k' x
    end.
  Definition mset (M : matrix num) (i k : nat) (x : num) : matrix num :=
    lset M i (lset (nth i M []) k x).

  Definition zeros (n m : nat) : matrix num := repeat (repeat Z0 m) n.

  (* init_tensor_rows_random: for k < ncols: for j in elements: mat(j,k) = draw *)
  Definition init_rows (K : nat) (elements : list nat) (M : matrix num) (s : list num)
    : matrix num * list num :=
    fold_left (fun (p : matrix num * list num) k =>
      fold_left (fun (p : matrix num * list num) j => (mset (fst p) j k (hd0 (snd p)), tl (snd p)))
                elements p) (seq 0 K) (M, s).

  (* init_symmetric_tensor_random on a SymmetricTensor: for alpha: for i: for j >= i:
     T(i,j,alpha) = T(j,i,alpha) = draw.  The tensor is layer -> K x K rows. *)
  Definition init_sym_layer (K : nat) (s : list num) : matrix num * list num :=
    fold_left (fun (p : matrix num * list num) i =>
      fold_left (fun (p : matrix num * list num) j =>
                   let x := hd0 (snd p) in
                   (mset (mset (fst p) i j x) j i x, tl (snd p)))
                (seq i (K - i)) p) (seq 0 K) (zeros K K, s).
  Definition init_sym_random (K L : nat) (s : list num) : list (matrix num) * list num :=
    fold_left (fun (p : list (matrix num) * list num) _ =>
                 let '(m, s') := init_sym_layer K (snd p) in (fst p ++ [m], s'))
              (seq 0 L) ([], s).

  (* ... on a DiagonalTensor: for alpha: for i: T(i,alpha) = draw.  layer -> K values *)
  Definition init_diag_random (K L : nat) (s : list num) : list (list num) * list num :=
    fold_left (fun (p : list (list num) * list num) _ =>
                 (fst p ++ [firstn K (snd p ++ repeat Z0 K)], skipn K (snd p)))
              (seq 0 L) ([], s).

  (* init_symmetric_tensor_from_initial: T = tensor_init; for alpha: for k: for q:
     T(k,q,alpha) += EPS_NOISE * draw *)
  Definition noisy (x d : num) : num := add A x (mul A (noise A) d).
  Definition init_from_gen (K L : nat) (cache : list (matrix num)) (s : list num)
    : list (matrix num) * list num :=
    fold_left (fun (p : list (matrix num) * list num) a =>
      let '(m, s') :=
        fold_left (fun (p : matrix num * list num) k =>
          fold_left (fun (p : matrix num * list num) q =>
                       (mset (fst p) k q (noisy (mget num A (fst p) k q) (hd0 (snd p))), tl (snd p)))
                    (seq 0 K) p) (seq 0 K) (nth a cache [], snd p) in
      (fst p ++ [m], s')) (seq 0 L) ([], s).
  Definition init_from_ass (K L : nat) (cache : list (list num)) (s : list num)
    : list (list num) * list num :=
    fold_left (fun (p : list (list num) * list num) a =>
      let '(row, s') :=
        fold_left (fun (p : list num * list num) k =>
                     (lset (fst p) k (noisy (nth k (fst p) Z0) (hd0 (snd p))), tl (snd p)))
                  (seq 0 K) (nth a cache [], snd p) in
      (fst p ++ [row], s')) (seq 0 L) ([], s).

  (* the initialiser object, as the solver sees it: a state (the one-slot cache of
     init_symmetric_tensor_from_initial; unit for the random initialiser), and a step
     taking the caller's current tensor (Tinit) *)
  Definition ic_random := unit.
  Definition step_random_gen (K L : nat) (_ : unit) (_ : list (matrix num)) (s : list num) :=
    let '(w, s') := init_sym_random K L s in (tt, w, s').
  Definition step_random_ass (K L : nat) (_ : unit) (_ : list (list num)) (s : list num) :=
    let '(w, s') := init_diag_random K L s in (tt, w, s').
  (* `if (tensor_init.size() == 0) tensor_init = Tinit;` *)
  Definition step_from_gen (K L : nat) (c : option (list (matrix num))) (Tinit : list (matrix num)) (s : list num) :=
    let cache := match c with Some x => x | None => Tinit end in
    let '(w, s') := init_from_gen K L cache s in (Some cache, w, s').
  Definition step_from_ass (K L : nat) (c : option (list (list num))) (Tinit : list (list num)) (s : list num) :=
    let cache := match c with Some x => x | None => Tinit end in
    let '(w, s') := init_from_ass K L cache s in (Some cache, w, s').
End Init.
