(* GraphModel.v -- model of graph::Network's constructor and of extract_vertices_with_edges /
   extract_vertices_labels (include/multitensor/graph.hpp:76-220) and of
   utils::get_num_vertices (utils.hpp:80-91).

   std::map<vertex_t,size_t> is an association list (only equality of labels is used);
   a boost adjacency_list<vecS,vecS,...> layer is a pair of per-vertex neighbour lists in
   insertion order: for an undirected layer each edge (s,t) appends t to out[s] and then s to
   out[t] (a self-loop therefore appears twice), for a bidirectional layer t is appended to
   out[s] and s to in[t]. *)
From Coq Require Import List Arith Bool ZArith Floats.
Import ListNotations.
From MT Require Import Arith SweepModel.

Section Graph.
  Variable label : Type.
  Variable leqb : label -> label -> bool.

  Record layer := { lout : list (list nat); lin : list (list nat) }.
  Record net := { tbl : list label; lays : list layer; nedges : nat }.

  Fixpoint lookup_from (l : label) (t : list label) (i : nat) : option nat :=
    match t with [] => None | x :: r => if leqb l x then Some i else lookup_from l r (S i) end.
  Definition lookup l t := lookup_from l t 0.

  Definition grow (y : layer) : layer := {| lout := lout y ++ [[]]; lin := lin y ++ [[]] |}.
  (* Network::add_vertex *)
  Definition add_vertex (l : label) (g : net) : nat * net :=
    match lookup l (tbl g) with
    | Some i => (i, g)
    | None => (length (tbl g), {| tbl := tbl g ++ [l]; lays := map grow (lays g); nedges := nedges g |})
    end.

  Fixpoint app_at (i : nat) (x : nat) (ls : list (list nat)) : list (list nat) :=
    match ls, i with
    | [], _ => []
    | l :: r, O => (l ++ [x]) :: r
    | l :: r, S i' => l :: app_at i' x r
    end.
  (* boost::add_edge on one layer *)
  Definition add_edge1 (directed : bool) (s t : nat) (y : layer) : layer :=
    if directed then {| lout := app_at s t (lout y); lin := app_at t s (lin y) |}
    else {| lout := app_at t s (app_at s t (lout y)); lin := lin y |}.
  Fixpoint iter {T} (n : nat) (f : T -> T) (x : T) : T :=
    match n with O => x | S n' => iter n' f (f x) end.
  Fixpoint add_edges_layers (directed : bool) (s t : nat) (counts : list nat) (ys : list layer) : list layer :=
    match ys, counts with
    | y :: yr, c :: cr => iter c (add_edge1 directed s t) y :: add_edges_layers directed s t cr yr
    | _, _ => ys
    end.
  (* one iteration of the constructor's loop over the records; counts = per-layer multiplicity *)
  Definition add_record (directed : bool) (g : net) (r : label * label * list nat) : net :=
    let '(ls, lt, counts) := r in
    let '(s, g1) := add_vertex ls g in
    let '(t, g2) := add_vertex lt g1 in
    {| tbl := tbl g2; lays := add_edges_layers directed s t counts (lays g2);
       nedges := nedges g2 + fold_left Nat.add counts 0 |}.
  Definition empty_net (L : nat) : net :=
    {| tbl := []; lays := repeat {| lout := []; lin := [] |} L; nedges := 0 |}.
  Definition build (directed : bool) (L : nat) (recs : list (label * label * list nat)) : net :=
    fold_left (add_record directed) recs (empty_net L).

  Definition num_vertices (g : net) : nat := length (tbl g).
  Definition nonempty (l : list nat) : bool := match l with [] => false | _ => true end.
  Definition has_edge (sel : layer -> list (list nat)) (g : net) (i : nat) : bool :=
    existsb (fun y => nonempty (nth i (sel y) [])) (lays g).
  (* extract_vertices_with_edges *)
  Definition u_list (g : net) : list nat := filter (has_edge lout g) (seq 0 (num_vertices g)).
  Definition v_list (directed : bool) (g : net) : list nat :=
    if directed then filter (has_edge lin g) (seq 0 (num_vertices g)) else u_list g.

  Definition empty_layer : layer := {| lout := []; lin := [] |}.
  (* the view of the network the solver model consumes *)
  Definition graph_of (directed : bool) (g : net) : graph :=
    {| gout := fun a i => nth i (lout (nth a (lays g) empty_layer)) [];
       gin := fun a i => nth i (lin (nth a (lays g) empty_layer)) [];
       gul := u_list g; gvl := v_list directed g |}.

  (* utils::get_num_vertices: size of the union of the two label sets *)
  Fixpoint dedup (seen : list label) (l : list label) : list label :=
    match l with
    | [] => seen
    | x :: r => if existsb (leqb x) seen then dedup seen r else dedup (seen ++ [x]) r
    end.
  Definition get_num_vertices (starts ends : list label) : nat := length (dedup [] (starts ++ ends)).
End Graph.


(* weights -> multiplicities: `if (weight > EPS_PRECISION) for (weight_t w = 0; w < weight; w++)` *)
Definition count_int (w : Z) : nat := Z.to_nat w.     (* integer weight: w > 1e-6 iff w >= 1 *)
Definition count_real (w : float) : nat :=
  if PrimFloat.ltb 0x1.0c6f7a0b5ed8dp-20 w then
    match Prim2SF w with
    | S754_finite false m e =>
        if (0 <=? e)%Z then Z.to_nat (Z.pos m * 2 ^ e)
        else if (e <? -53)%Z then 1%nat       (* 0 < m*2^e < 1 since m < 2^53 *)
        else let d := (2 ^ (- e))%Z in Z.to_nat ((Z.pos m + d - 1) / d)
    | _ => O
    end
  else O.
