(* LayoutShapeProofs.v -- what a tensor REPORTS about itself (dims(), size(), the named accessors), the two-index accessors of the
   transposed view, and the positions the front end's affinity reader writes to, all against Layout.idx.  Proofs only; the statements
   used by Properties_C18.v are restated there. *)
From Coq Require Import Arith List Lia.
Import ListNotations.
From MT Require Import Layout.

Lemma shape_make R C T :
  t_rows (t_make R C T) = R /\ t_cols (t_make R C T) = C /\ t_tubes (t_make R C T) = T /\ t_size (t_make R C T) = R * C * T.
Proof. repeat split. Qed.

(* resize forgets the old shape entirely, whatever it was (also when the element count is unchanged) *)
Lemma shape_resize old R C T : t_resize old R C T = t_make R C T.
Proof. reflexivity. Qed.

Lemma idx_after_resize old R C T i j a : t_idx (t_resize old R C T) i j a = idx R C T i j a.
Proof. reflexivity. Qed.

Lemma size_is_number_of_positions R C T : t_size (t_make R C T) = R * C * T.
Proof. reflexivity. Qed.

(* two-index accessor of the transposed view of an R x C matrix (T = 1, tube 0): (i,j) is the matrix's (j,i), at flat position i*R + j *)
Lemma transposed_matrix R C i j : idx_transposed R C 1 i j 0 = i * R + j.
Proof. unfold idx_transposed, idx. lia. Qed.

Lemma transposed_twice R C T i j a : idx_transposed R C T j i a = idx R C T i j a.
Proof. reflexivity. Qed.

(* the positions the initial-affinity reader writes to are the layout's: general (k,k,a) of a K x K x L tensor, assortative (k,0,a) of K x 1 x L *)
Lemma reader_positions K L k a :
  idx_gen K L k k a = idx K K L k k a /\ idx_ass K L k a = idx K 1 L k 0 a /\
  idx K K L k k a = a * K * K + k * K + k /\ idx K 1 L k 0 a = a * K + k.
Proof. unfold idx_gen, idx_ass, idx. repeat split; lia. Qed.

(* ... and the C = 1 layout is NOT the column-major L x K matrix `a + k*L` as soon as there are two groups and two layers
   (the slip of a reader filling the assortative vector through an L x K matrix) *)
Lemma assortative_layout_not_transposed K L : 2 <= K -> 2 <= L ->
  exists k a, k < K /\ a < L /\ idx K 1 L k 0 a <> a + k * L.
Proof. intros HK HL. exists 1, 0. unfold idx. repeat split; lia. Qed.

(* with a single layer or a single group the two coincide: why such a slip needs L >= 2 and K >= 2 to show *)
Lemma assortative_layout_transposed_when_degenerate K L k a : k < K -> a < L -> (L = 1 \/ K = 1) -> idx K 1 L k 0 a = a + k * L.
Proof. intros Hk Ha [->| ->]; unfold idx; [assert (a = 0) by lia|assert (k = 0) by lia]; subst; lia. Qed.
