(* MassProofs.v -- property C09 WITH truncation: per-layer mass balance of the affinity update
   "up to the mass of the entries snapped to zero by the 1e-6 truncation".
   Extends WBlock.mass_balance (which assumes that no truncation happens, `clean_trunc`) by dropping
   that hypothesis and accounting exactly for the snapped entries:
       sum_ij M'_ija  =  #edges(a)  -  snapped_mass a,      0 <= snapped_mass a <= eps * sum_kq Du_k Dv_q.
   General (SymmetricTensor) and assortative (DiagonalTensor) affinity; corollaries for the state
   produced by one directed / undirected sweep of the code-shaped model (SweepModel.sweep_gen/_ass). *)
From Coq Require Import Reals List Lra Lia Arith Bool.
Import ListNotations.
From MT Require Import Arith J MM SweepModel RInst SumLib UBlock WBlock Spec.
Local Open Scope R_scope.

(* ------------------------------------------------------------------------------------------ *)
(* scalar facts                                                                               *)
(* ------------------------------------------------------------------------------------------ *)
Lemma epsR_pos : 0 < epsR.
Proof. unfold epsR. lra. Qed.

Lemma trunc_R x : trunc R ArithR x = if Rltb (Rabs x) epsR then 0 else x.
Proof. reflexivity. Qed.

Lemma Rltb_eps_0 : Rltb epsR 0 = false.
Proof. apply Rltb_false. pose proof epsR_pos. lra. Qed.

(* one entry of the guarded multiplicative update, times its denominator A*B:
   the untruncated mass o*n minus what the truncation snapped away *)
Lemma entry_balance (o A B n : R) :
  (o = 0 \/ epsR < o) -> (0 < o -> epsR < A * B) ->
  (if Rltb epsR (A * B) then (if Rltb epsR o then trunc R ArithR (o / (A * B) * n) else o) else o) * (A * B)
  = o * n - (if (Rltb epsR (A * B) && Rltb epsR o) && Rltb (Rabs (o / (A * B) * n)) epsR
             then o / (A * B) * n * A * B else 0).
Proof.
  intros [Ho|Ho] HZ.
  - subst o. rewrite Rltb_eps_0. destruct (Rltb epsR (A * B)); cbn [andb]; ring.
  - pose proof epsR_pos as He.
    assert (HZ' : epsR < A * B) by (apply HZ; lra).
    assert (E1 : Rltb epsR (A * B) = true) by (apply Rltb_true; exact HZ').
    assert (E2 : Rltb epsR o = true) by (apply Rltb_true; exact Ho).
    rewrite E1, E2, trunc_R. cbn [andb].
    assert (HA : A <> 0) by (intro H0; rewrite H0, Rmult_0_l in HZ'; lra).
    assert (HB : B <> 0) by (intro H0; rewrite H0, Rmult_0_r in HZ'; lra).
    destruct (Rltb (Rabs (o / (A * B) * n)) epsR); field; split; assumption.
Qed.

Lemma sumR_const_1 {T} (l : list T) : sumR (fun _ : T => 1) l = INR (length l).
Proof.
  induction l as [|x l IH]; [reflexivity|].
  change (length (x :: l)) with (S (length l)). rewrite S_INR. cbn [sumR fold_right]. unfold sumR in IH. rewrite IH. lra.
Qed.

(* ------------------------------------------------------------------------------------------ *)
(* Spec.v notions vs WBlock's                                                                 *)
(* ------------------------------------------------------------------------------------------ *)
Lemma rate_gen_is_Mw K u v x i j a : rate_gen K u v x i j a = Mw K u v x i j a.
Proof. reflexivity. Qed.

Lemma expected_edges_is_mass N K u v x a :
  expected_edges N (rate_gen K u v x) a
  = sumR (fun i => sumR (fun j => Mw K u v x i j a) (seq 0 N)) (seq 0 N).
Proof. reflexivity. Qed.

Lemma observed_edges_is_edge_count N adj a : observed_edges N adj a = edge_count N adj a.
Proof.
  unfold observed_edges, edge_count. apply sumR_ext. intros i _. symmetry. apply sumR_const_1.
Qed.

(* the rate, hence the expected edge count of layer a, only reads the affinity at in-range indices *)
Lemma expected_edges_ext N K u v (x y : nat -> nat -> nat -> R) a :
  (forall k q, (k < K)%nat -> (q < K)%nat -> x k q a = y k q a) ->
  expected_edges N (rate_gen K u v x) a = expected_edges N (rate_gen K u v y) a.
Proof.
  intros H. unfold expected_edges, rate_gen. apply sumR_ext. intros i _. apply sumR_ext. intros j _.
  apply sumR_ext. intros k Hk. apply in_seq in Hk. apply sumR_ext. intros q Hq. apply in_seq in Hq.
  rewrite H by lia. reflexivity.
Qed.

(* ========================================================================================== *)
(* B1 / B2 : general affinity                                                                 *)
(* ========================================================================================== *)
Section MassGen.
  Variables (N K L : nat) (adj : nat -> nat -> list nat) (ul vl : list nat).
  Variables (u v : matrix R) (w : nat -> nat -> nat -> R).
  Notation g := (mget R ArithR).
  Notation ks := (seq 0 K).
  Notation vs := (seq 0 N).
  Notation DU := (Du N u).
  Notation DV := (Dv N v).

  (* non-negativity is only needed at in-range indices (weaker than WBlock's hypotheses) *)
  Hypothesis u_nonneg : forall i k, (i < N)%nat -> (k < K)%nat -> 0 <= g u i k.
  Hypothesis v_nonneg : forall j q, (j < N)%nat -> (q < K)%nat -> 0 <= g v j q.
  Hypothesis w_nonneg : forall k q a, (k < K)%nat -> (q < K)%nat -> (a < L)%nat -> 0 <= w k q a.
  Hypothesis ul_nodup : NoDup ul.
  Hypothesis vl_nodup : NoDup vl.
  Hypothesis ul_lt : forall i, In i ul -> (i < N)%nat.
  Hypothesis vl_lt : forall j, In j vl -> (j < N)%nat.
  Hypothesis u_zero_rows : forall i k, (i < N)%nat -> ~ In i ul -> g u i k = 0.
  Hypothesis v_zero_rows : forall j q, (j < N)%nat -> ~ In j vl -> g v j q = 0.
  Hypothesis adj_lt : forall a i j, (a < L)%nat -> (i < N)%nat -> In j (adj a i) -> (j < N)%nat.

  (* ---- B1 : definitions ---- *)
  (* the entry is touched by the update *)
  Definition updated (k q a : nat) : bool := Rltb epsR (DU k * DV q) && Rltb epsR (w k q a).
  (* value before the truncation *)
  Definition pre (k q a : nat) : R := w k q a / (DU k * DV q) * wnum N K adj u v w k q a.
  (* the truncation snapped it to zero *)
  Definition snapped (k q a : nat) : bool := updated k q a && Rltb (Rabs (pre k q a)) epsR.
  Definition snapped_mass (a : nat) : R :=
    sumR (fun k => sumR (fun q => if snapped k q a then pre k q a * DU k * DV q else 0) ks) ks.
  Definition w'acc (k q a : nat) : R := new_w_gen R ArithR N K adj ul vl u v w k q a.

  Lemma DU_nonneg k : (k < K)%nat -> 0 <= DU k.
  Proof. intros Hk. apply sumR_nonneg. intros i Hi. apply in_seq in Hi. apply u_nonneg; lia. Qed.
  Lemma DV_nonneg q : (q < K)%nat -> 0 <= DV q.
  Proof. intros Hq. apply sumR_nonneg. intros j Hj. apply in_seq in Hj. apply v_nonneg; lia. Qed.

  Lemma wnum_nonneg k q a : (k < K)%nat -> (q < K)%nat -> (a < L)%nat -> 0 <= wnum N K adj u v w k q a.
  Proof.
    intros Hk Hq Ha. unfold wnum. apply sumR_nonneg. intros i Hi. apply in_seq in Hi.
    apply Rmult_le_pos; [apply u_nonneg; lia|]. apply sumR_nonneg. intros j Hj.
    destruct (Rltb epsR (Mw K u v w i j a)) eqn:E; [|lra].
    apply Rltb_true in E. pose proof epsR_pos as He.
    assert (Hv : 0 <= g v j q) by (apply v_nonneg; [apply (adj_lt a i j); try lia; exact Hj|exact Hq]).
    unfold Rdiv. apply Rmult_le_pos; [exact Hv|]. apply Rlt_le, Rinv_0_lt_compat. lra.
  Qed.

  Lemma pre_nonneg k q a : (k < K)%nat -> (q < K)%nat -> (a < L)%nat -> 0 < DU k * DV q -> 0 <= pre k q a.
  Proof.
    intros Hk Hq Ha HZ. unfold pre. apply Rmult_le_pos; [|apply wnum_nonneg; assumption].
    unfold Rdiv. apply Rmult_le_pos; [apply w_nonneg; assumption|]. apply Rlt_le, Rinv_0_lt_compat. exact HZ.
  Qed.

  Lemma snapped_inv k q a : snapped k q a = true ->
    epsR < DU k * DV q /\ epsR < w k q a /\ Rabs (pre k q a) < epsR.
  Proof.
    unfold snapped, updated. intros H. apply andb_prop in H. destruct H as [H H3].
    apply andb_prop in H. destruct H as [H1 H2].
    apply Rltb_true in H1. apply Rltb_true in H2. apply Rltb_true in H3. auto.
  Qed.

  (* each term of the snapped mass lies in [0, eps * Du_k * Dv_q] *)
  Lemma snapped_term_bounds k q a : (k < K)%nat -> (q < K)%nat -> (a < L)%nat ->
    0 <= (if snapped k q a then pre k q a * DU k * DV q else 0) <= epsR * (DU k * DV q).
  Proof.
    intros Hk Hq Ha. pose proof epsR_pos as He.
    pose proof (DU_nonneg k Hk) as HU. pose proof (DV_nonneg q Hq) as HV.
    assert (HZ0 : 0 <= DU k * DV q) by (apply Rmult_le_pos; assumption).
    destruct (snapped k q a) eqn:E.
    - apply snapped_inv in E. destruct E as [HZ [_ Hab]].
      assert (Hp : 0 <= pre k q a) by (apply pre_nonneg; try assumption; lra).
      assert (Hp2 : pre k q a <= epsR) by (pose proof (Rle_abs (pre k q a)); lra).
      rewrite Rmult_assoc. split.
      + apply Rmult_le_pos; assumption.
      + apply Rmult_le_compat_r; assumption.
    - split; [lra|]. apply Rmult_le_pos; lra.
  Qed.

  Theorem snapped_mass_nonneg a : (a < L)%nat -> 0 <= snapped_mass a.
  Proof.
    intros Ha. unfold snapped_mass. apply sumR_nonneg. intros k Hk. apply in_seq in Hk.
    apply sumR_nonneg. intros q Hq. apply in_seq in Hq.
    apply (snapped_term_bounds k q a); lia.
  Qed.

  Theorem snapped_mass_le a : (a < L)%nat ->
    snapped_mass a <= epsR * sumR (fun k => sumR (fun q => DU k * DV q) ks) ks.
  Proof.
    intros Ha. unfold snapped_mass. rewrite <- sumR_scal. apply sumR_le. intros k Hk. apply in_seq in Hk.
    rewrite <- sumR_scal. apply sumR_le. intros q Hq. apply in_seq in Hq.
    apply (snapped_term_bounds k q a); lia.
  Qed.

  (* sum_kq Du_k Dv_q = (sum_ik u_ik)(sum_jq v_jq): the bound in terms of the total memberships *)
  Lemma sum_DuDv :
    sumR (fun k => sumR (fun q => DU k * DV q) ks) ks = sumR DU ks * sumR DV ks.
  Proof. symmetry. apply sumR_mul_sum. Qed.

  (* ---- B2 ---- *)
  Hypothesis clean_rates : forall a i j, (a < L)%nat -> (i < N)%nat -> In j (adj a i) -> epsR < Mw K u v w i j a.
  Hypothesis pre_ii : forall k q a, (k < K)%nat -> (q < K)%nat -> (a < L)%nat -> w k q a = 0 \/ epsR < w k q a.
  Hypothesis pre_iii : forall k q a, (k < K)%nat -> (q < K)%nat -> (a < L)%nat -> 0 < w k q a -> epsR < DU k * DV q.

  (* entrywise: new entry times its denominator = responsibility mass minus the snapped part *)
  Lemma w'acc_entry k q a : (k < K)%nat -> (q < K)%nat -> (a < L)%nat ->
    w'acc k q a * (DU k * DV q)
    = w k q a * wnum N K adj u v w k q a - (if snapped k q a then pre k q a * DU k * DV q else 0).
  Proof.
    intros Hk Hq Ha. unfold w'acc.
    rewrite (new_w_R N K adj ul vl u v w ul_nodup vl_nodup ul_lt vl_lt u_zero_rows v_zero_rows k q a).
    apply entry_balance.
    - apply pre_ii; assumption.
    - apply pre_iii; assumption.
  Qed.

  (* the new entry itself: pre-truncation value, or 0 when snapped, or the (zero) old value *)
  Lemma w'acc_value k q a : (k < K)%nat -> (q < K)%nat -> (a < L)%nat ->
    w'acc k q a = if updated k q a then (if Rltb (Rabs (pre k q a)) epsR then 0 else pre k q a) else 0.
  Proof.
    intros Hk Hq Ha. unfold w'acc.
    rewrite (new_w_R N K adj ul vl u v w ul_nodup vl_nodup ul_lt vl_lt u_zero_rows v_zero_rows k q a).
    unfold updated. fold (pre k q a). rewrite trunc_R.
    destruct (pre_ii k q a Hk Hq Ha) as [Hz|Hpos].
    - rewrite Hz, Rltb_eps_0. destruct (Rltb epsR (DU k * DV q)); reflexivity.
    - pose proof epsR_pos as He.
      assert (E1 : Rltb epsR (DU k * DV q) = true) by (apply Rltb_true; apply (pre_iii k q a); try assumption; lra).
      assert (E2 : Rltb epsR (w k q a) = true) by (apply Rltb_true; exact Hpos).
      rewrite E1, E2. reflexivity.
  Qed.

  Theorem mass_balance_trunc a : (a < L)%nat ->
    sumR (fun i => sumR (fun j => Mw K u v w'acc i j a) vs) vs = edge_count N adj a - snapped_mass a.
  Proof.
    intros Ha. rewrite mass_of_layer.
    rewrite <- (sum_w_wnum N K L adj u v w clean_rates a Ha). unfold snapped_mass.
    rewrite <- sumR_minus. apply sumR_ext. intros k Hk. apply in_seq in Hk.
    rewrite <- sumR_minus. apply sumR_ext. intros q Hq. apply in_seq in Hq.
    apply w'acc_entry; lia.
  Qed.

  (* the same, in the vocabulary of Spec.v *)
  Theorem mass_balance_trunc_spec a : (a < L)%nat ->
    expected_edges N (rate_gen K u v w'acc) a = observed_edges N adj a - snapped_mass a.
  Proof.
    intros Ha. rewrite expected_edges_is_mass, observed_edges_is_edge_count. apply mass_balance_trunc. exact Ha.
  Qed.

  (* consequences: the update never creates mass, and loses at most eps * sum_kq Du_k Dv_q *)
  Corollary mass_balance_trunc_bounds a : (a < L)%nat ->
    observed_edges N adj a - epsR * (sumR DU ks * sumR DV ks)
      <= expected_edges N (rate_gen K u v w'acc) a <= observed_edges N adj a.
  Proof.
    intros Ha. rewrite (mass_balance_trunc_spec a Ha).
    pose proof (snapped_mass_nonneg a Ha). pose proof (snapped_mass_le a Ha) as H2. rewrite sum_DuDv in H2. lra.
  Qed.

  (* when nothing is snapped the balance is exact (recovers WBlock.mass_balance) *)
  Corollary mass_balance_no_snap a : (a < L)%nat ->
    (forall k q, (k < K)%nat -> (q < K)%nat -> snapped k q a = false) ->
    expected_edges N (rate_gen K u v w'acc) a = observed_edges N adj a.
  Proof.
    intros Ha Hs. rewrite (mass_balance_trunc_spec a Ha).
    assert (E : snapped_mass a = 0).
    { unfold snapped_mass. transitivity (sumR (fun _ : nat => 0) ks); [|apply sumR_zero].
      apply sumR_ext. intros k Hk. apply in_seq in Hk.
      transitivity (sumR (fun _ : nat => 0) ks); [|apply sumR_zero].
      apply sumR_ext. intros q Hq. apply in_seq in Hq. rewrite Hs by lia. reflexivity. }
    rewrite E. lra.
  Qed.
End MassGen.

(* ========================================================================================== *)
(* B3 : the state produced by one sweep of the code-shaped model                              *)
(* ========================================================================================== *)
Lemma tget_upd_affinity_gen N K L out ul vl u v w k q a : (k < K)%nat -> (q < K)%nat -> (a < L)%nat ->
  tget R ArithR (upd_affinity_gen R ArithR N K L out ul vl u v w) k q a
  = new_w_gen R ArithR N K out ul vl u v w k q a.
Proof.
  intros Hk Hq Ha. unfold tget, upd_affinity_gen, layers.
  rewrite (nth_map_seq (fun a0 => mtab R K K (fun k0 q0 => new_w_gen R ArithR N K out ul vl u v w k0 q0 a0)) [] L a Ha).
  rewrite (mget_mtab K K (fun k0 q0 => new_w_gen R ArithR N K out ul vl u v w k0 q0 a) k q Hk Hq). reflexivity.
Qed.

Lemma sweep_gen_directed_inv N K L G u v w u1 v1 w1 :
  sweep_gen R ArithR N K L true G (u, v, w) = (u1, v1, w1) ->
  u1 = upd_vertices_gen R ArithR N K L (gout G) (gul G) (gvl G) v u (tget R ArithR w) /\
  v1 = upd_vertices_gen R ArithR N K L (gin G) (gvl G) (gul G) u1 v (fun k l a => tget R ArithR w l k a) /\
  w1 = upd_affinity_gen R ArithR N K L (gout G) (gul G) (gvl G) u1 v1 (tget R ArithR w).
Proof.
  unfold sweep_gen. cbv beta iota zeta. intros H. injection H as <- <- <-. repeat split.
Qed.

Lemma sweep_gen_undirected_inv N K L G u v w u1 v1 w1 :
  sweep_gen R ArithR N K L false G (u, v, w) = (u1, v1, w1) ->
  u1 = upd_vertices_gen R ArithR N K L (gout G) (gul G) (gvl G) u u (tget R ArithR w) /\
  v1 = v /\
  w1 = upd_affinity_gen R ArithR N K L (gout G) (gul G) (gvl G) u1 u1 (tget R ArithR w).
Proof.
  unfold sweep_gen. cbv beta iota zeta. intros H. injection H as <- <- <-. repeat split.
Qed.

(* the affinity block of a sweep, on its own: any u1, v1 (in the sweep: the freshly updated memberships).
   NOTE: the balance EQUATION needs neither non-negativity nor `neighbours in range'; those are only
   needed for the sign and the size of the snapped mass (mass_balance_upd_affinity_bounds). *)
Theorem mass_balance_upd_affinity N K L out ul vl (u1 v1 : matrix R) (w : list (matrix R)) :
  NoDup ul -> NoDup vl ->
  (forall i, In i ul -> (i < N)%nat) -> (forall j, In j vl -> (j < N)%nat) ->
  (forall i k, (i < N)%nat -> ~ In i ul -> mget R ArithR u1 i k = 0) ->
  (forall j q, (j < N)%nat -> ~ In j vl -> mget R ArithR v1 j q = 0) ->
  (* (i) *) (forall a i j, (a < L)%nat -> (i < N)%nat -> In j (out a i) -> epsR < rate_gen K u1 v1 (tget R ArithR w) i j a) ->
  (* (ii) *) (forall k q a, (k < K)%nat -> (q < K)%nat -> (a < L)%nat -> tget R ArithR w k q a = 0 \/ epsR < tget R ArithR w k q a) ->
  (* (iii) *) (forall k q a, (k < K)%nat -> (q < K)%nat -> (a < L)%nat -> 0 < tget R ArithR w k q a -> epsR < Du N u1 k * Dv N v1 q) ->
  forall a, (a < L)%nat ->
    expected_edges N (rate_gen K u1 v1 (tget R ArithR (upd_affinity_gen R ArithR N K L out ul vl u1 v1 (tget R ArithR w)))) a
    = observed_edges N out a - snapped_mass N K out u1 v1 (tget R ArithR w) a.
Proof.
  intros Hnu Hnv Hlu Hlv Hzu Hzv Hi Hii Hiii a Ha.
  rewrite <- (mass_balance_trunc_spec N K L out ul vl u1 v1 (tget R ArithR w)
                Hnu Hnv Hlu Hlv Hzu Hzv Hi Hii Hiii a Ha).
  apply expected_edges_ext. intros k q Hk Hq. unfold w'acc. apply tget_upd_affinity_gen; assumption.
Qed.

(* sign and size of the correction term, for a state (u1, v1, w) *)
Theorem snapped_mass_bounds N K L out (u1 v1 : matrix R) (w : list (matrix R)) :
  (forall i k, (i < N)%nat -> (k < K)%nat -> 0 <= mget R ArithR u1 i k) ->
  (forall j q, (j < N)%nat -> (q < K)%nat -> 0 <= mget R ArithR v1 j q) ->
  (forall k q a, (k < K)%nat -> (q < K)%nat -> (a < L)%nat -> 0 <= tget R ArithR w k q a) ->
  (forall a i j, (a < L)%nat -> (i < N)%nat -> In j (out a i) -> (j < N)%nat) ->
  forall a, (a < L)%nat ->
    0 <= snapped_mass N K out u1 v1 (tget R ArithR w) a
      <= epsR * (sumR (Du N u1) (seq 0 K) * sumR (Dv N v1) (seq 0 K)).
Proof.
  intros Hu Hv Hw Hadj a Ha. split.
  - apply (snapped_mass_nonneg N K L out u1 v1 (tget R ArithR w) Hu Hv Hw Hadj a Ha).
  - rewrite <- sum_DuDv. apply (snapped_mass_le N K L out u1 v1 (tget R ArithR w) Hu Hv Hw Hadj a Ha).
Qed.

(* ---- directed sweep ---- *)
Theorem mass_balance_sweep N K L G (u v u1 v1 : matrix R) (w w1 : list (matrix R)) :
  sweep_gen R ArithR N K L true G (u, v, w) = (u1, v1, w1) ->
  (* structure *)
  NoDup (gul G) -> NoDup (gvl G) ->
  (forall i, In i (gul G) -> (i < N)%nat) -> (forall j, In j (gvl G) -> (j < N)%nat) ->
  (forall i k, (i < N)%nat -> ~ In i (gul G) -> mget R ArithR u1 i k = 0) ->
  (forall j q, (j < N)%nat -> ~ In j (gvl G) -> mget R ArithR v1 j q = 0) ->
  (* (i) every observed edge has rate > eps under (u1, v1, w) *)
  (forall a i j, (a < L)%nat -> (i < N)%nat -> In j (gout G a i) -> epsR < rate_gen K u1 v1 (tget R ArithR w) i j a) ->
  (* (ii) every entry of w is 0 or > eps *)
  (forall k q a, (k < K)%nat -> (q < K)%nat -> (a < L)%nat -> tget R ArithR w k q a = 0 \/ epsR < tget R ArithR w k q a) ->
  (* (iii) Du(u1) k * Dv(v1) q > eps wherever w k q a > 0 *)
  (forall k q a, (k < K)%nat -> (q < K)%nat -> (a < L)%nat -> 0 < tget R ArithR w k q a -> epsR < Du N u1 k * Dv N v1 q) ->
  forall a, (a < L)%nat ->
    expected_edges N (rate_gen K u1 v1 (tget R ArithR w1)) a
    = observed_edges N (gout G) a - snapped_mass N K (gout G) u1 v1 (tget R ArithR w) a.
Proof.
  intros Hs Hnu Hnv Hlu Hlv Hzu Hzv Hi Hii Hiii a Ha.
  apply sweep_gen_directed_inv in Hs. destruct Hs as [_ [_ ->]].
  apply (mass_balance_upd_affinity N K L (gout G) (gul G) (gvl G) u1 v1 w); assumption.
Qed.

(* with non-negativity and neighbours in range: the sweep never creates layer mass and loses at most
   eps * (sum_ik u1_ik) * (sum_jq v1_jq) *)
Theorem mass_balance_sweep_bounds N K L G (u v u1 v1 : matrix R) (w w1 : list (matrix R)) :
  sweep_gen R ArithR N K L true G (u, v, w) = (u1, v1, w1) ->
  (forall a i j, (a < L)%nat -> (i < N)%nat -> In j (gout G a i) -> (j < N)%nat) ->
  NoDup (gul G) -> NoDup (gvl G) ->
  (forall i, In i (gul G) -> (i < N)%nat) -> (forall j, In j (gvl G) -> (j < N)%nat) ->
  (forall i k, (i < N)%nat -> (k < K)%nat -> 0 <= mget R ArithR u1 i k) ->
  (forall j q, (j < N)%nat -> (q < K)%nat -> 0 <= mget R ArithR v1 j q) ->
  (forall i k, (i < N)%nat -> ~ In i (gul G) -> mget R ArithR u1 i k = 0) ->
  (forall j q, (j < N)%nat -> ~ In j (gvl G) -> mget R ArithR v1 j q = 0) ->
  (forall k q a, (k < K)%nat -> (q < K)%nat -> (a < L)%nat -> 0 <= tget R ArithR w k q a) ->
  (forall a i j, (a < L)%nat -> (i < N)%nat -> In j (gout G a i) -> epsR < rate_gen K u1 v1 (tget R ArithR w) i j a) ->
  (forall k q a, (k < K)%nat -> (q < K)%nat -> (a < L)%nat -> tget R ArithR w k q a = 0 \/ epsR < tget R ArithR w k q a) ->
  (forall k q a, (k < K)%nat -> (q < K)%nat -> (a < L)%nat -> 0 < tget R ArithR w k q a -> epsR < Du N u1 k * Dv N v1 q) ->
  forall a, (a < L)%nat ->
    expected_edges N (rate_gen K u1 v1 (tget R ArithR w1)) a
      = observed_edges N (gout G) a - snapped_mass N K (gout G) u1 v1 (tget R ArithR w) a
    /\ 0 <= snapped_mass N K (gout G) u1 v1 (tget R ArithR w) a
         <= epsR * (sumR (Du N u1) (seq 0 K) * sumR (Dv N v1) (seq 0 K))
    /\ observed_edges N (gout G) a - epsR * (sumR (Du N u1) (seq 0 K) * sumR (Dv N v1) (seq 0 K))
         <= expected_edges N (rate_gen K u1 v1 (tget R ArithR w1)) a <= observed_edges N (gout G) a.
Proof.
  intros Hs Hadj Hnu Hnv Hlu Hlv Hu Hv Hzu Hzv Hw Hi Hii Hiii a Ha.
  pose proof (mass_balance_sweep N K L G u v u1 v1 w w1 Hs Hnu Hnv Hlu Hlv Hzu Hzv Hi Hii Hiii a Ha) as E.
  pose proof (snapped_mass_bounds N K L (gout G) u1 v1 w Hu Hv Hw Hadj a Ha) as B.
  split; [exact E|]. split; [exact B|]. rewrite E. lra.
Qed.

(* ---- undirected sweep: the single membership matrix u1 plays both roles; the model passes (gul G) and
   (gvl G) as the two vertex lists, so the hypotheses on the second list are stated for (gvl G) ... ---- *)
Theorem mass_balance_sweep_undirected N K L G (u v u1 v1 : matrix R) (w w1 : list (matrix R)) :
  sweep_gen R ArithR N K L false G (u, v, w) = (u1, v1, w1) ->
  NoDup (gul G) -> NoDup (gvl G) ->
  (forall i, In i (gul G) -> (i < N)%nat) -> (forall j, In j (gvl G) -> (j < N)%nat) ->
  (forall i k, (i < N)%nat -> ~ In i (gul G) -> mget R ArithR u1 i k = 0) ->
  (forall j q, (j < N)%nat -> ~ In j (gvl G) -> mget R ArithR u1 j q = 0) ->
  (forall a i j, (a < L)%nat -> (i < N)%nat -> In j (gout G a i) -> epsR < rate_gen K u1 u1 (tget R ArithR w) i j a) ->
  (forall k q a, (k < K)%nat -> (q < K)%nat -> (a < L)%nat -> tget R ArithR w k q a = 0 \/ epsR < tget R ArithR w k q a) ->
  (forall k q a, (k < K)%nat -> (q < K)%nat -> (a < L)%nat -> 0 < tget R ArithR w k q a -> epsR < Du N u1 k * Dv N u1 q) ->
  v1 = v /\
  forall a, (a < L)%nat ->
    expected_edges N (rate_gen K u1 u1 (tget R ArithR w1)) a
    = observed_edges N (gout G) a - snapped_mass N K (gout G) u1 u1 (tget R ArithR w) a.
Proof.
  intros Hs Hnu Hnv Hlu Hlv Hzu Hzv Hi Hii Hiii.
  apply sweep_gen_undirected_inv in Hs. destruct Hs as [_ [-> ->]]. split; [reflexivity|]. intros a Ha.
  apply (mass_balance_upd_affinity N K L (gout G) (gul G) (gvl G) u1 u1 w); assumption.
Qed.

(* ... and with the shared vertex list of an undirected graph (Spec.wfu_shared : gvl G = gul G) they collapse *)
Corollary mass_balance_sweep_undirected_shared N K L G (u v u1 v1 : matrix R) (w w1 : list (matrix R)) :
  sweep_gen R ArithR N K L false G (u, v, w) = (u1, v1, w1) ->
  gvl G = gul G ->
  NoDup (gul G) -> (forall i, In i (gul G) -> (i < N)%nat) ->
  (forall i k, (i < N)%nat -> ~ In i (gul G) -> mget R ArithR u1 i k = 0) ->
  (forall a i j, (a < L)%nat -> (i < N)%nat -> In j (gout G a i) -> epsR < rate_gen K u1 u1 (tget R ArithR w) i j a) ->
  (forall k q a, (k < K)%nat -> (q < K)%nat -> (a < L)%nat -> tget R ArithR w k q a = 0 \/ epsR < tget R ArithR w k q a) ->
  (forall k q a, (k < K)%nat -> (q < K)%nat -> (a < L)%nat -> 0 < tget R ArithR w k q a -> epsR < Du N u1 k * Dv N u1 q) ->
  forall a, (a < L)%nat ->
    expected_edges N (rate_gen K u1 u1 (tget R ArithR w1)) a
    = observed_edges N (gout G) a - snapped_mass N K (gout G) u1 u1 (tget R ArithR w) a.
Proof.
  intros Hs Hsh Hnu Hlu Hzu Hi Hii Hiii.
  apply (mass_balance_sweep_undirected N K L G u v u1 v1 w w1); try assumption; rewrite Hsh; assumption.
Qed.

(* ---- in the vocabulary of Spec.v's invariants (wfG, nonneg_m, zero_rows): equation + bounds ---- *)
Corollary mass_balance_sweep_wf N K L G (u v u1 v1 : matrix R) (w w1 : list (matrix R)) :
  sweep_gen R ArithR N K L true G (u, v, w) = (u1, v1, w1) ->
  wfG N L G -> nonneg_m u1 -> nonneg_m v1 -> zero_rows N (gul G) u1 -> zero_rows N (gvl G) v1 ->
  (forall k q a, (k < K)%nat -> (q < K)%nat -> (a < L)%nat -> 0 <= tget R ArithR w k q a) ->
  (forall a i j, (a < L)%nat -> (i < N)%nat -> In j (gout G a i) -> epsR < rate_gen K u1 v1 (tget R ArithR w) i j a) ->
  (forall k q a, (k < K)%nat -> (q < K)%nat -> (a < L)%nat -> tget R ArithR w k q a = 0 \/ epsR < tget R ArithR w k q a) ->
  (forall k q a, (k < K)%nat -> (q < K)%nat -> (a < L)%nat -> 0 < tget R ArithR w k q a -> epsR < Du N u1 k * Dv N v1 q) ->
  forall a, (a < L)%nat ->
    expected_edges N (rate_gen K u1 v1 (tget R ArithR w1)) a
      = observed_edges N (gout G) a - snapped_mass N K (gout G) u1 v1 (tget R ArithR w) a
    /\ 0 <= snapped_mass N K (gout G) u1 v1 (tget R ArithR w) a
         <= epsR * (sumR (Du N u1) (seq 0 K) * sumR (Dv N v1) (seq 0 K)).
Proof.
  intros Hs [Hout _ Hnu Hnv Hlu Hlv _] Hu Hv Hzu Hzv Hw Hi Hii Hiii a Ha.
  split.
  - apply (mass_balance_sweep N K L G u v u1 v1 w w1); assumption.
  - apply (snapped_mass_bounds N K L (gout G) u1 v1 w); try assumption.
    + intros i k _ _. apply Hu.
    + intros j q _ _. apply Hv.
Qed.

Corollary mass_balance_sweep_undirected_wf N K L G (u v u1 v1 : matrix R) (w w1 : list (matrix R)) :
  sweep_gen R ArithR N K L false G (u, v, w) = (u1, v1, w1) ->
  wfG N L G -> wfG_undirected N L G -> nonneg_m u1 -> zero_rows N (gul G) u1 ->
  (forall k q a, (k < K)%nat -> (q < K)%nat -> (a < L)%nat -> 0 <= tget R ArithR w k q a) ->
  (forall a i j, (a < L)%nat -> (i < N)%nat -> In j (gout G a i) -> epsR < rate_gen K u1 u1 (tget R ArithR w) i j a) ->
  (forall k q a, (k < K)%nat -> (q < K)%nat -> (a < L)%nat -> tget R ArithR w k q a = 0 \/ epsR < tget R ArithR w k q a) ->
  (forall k q a, (k < K)%nat -> (q < K)%nat -> (a < L)%nat -> 0 < tget R ArithR w k q a -> epsR < Du N u1 k * Dv N u1 q) ->
  forall a, (a < L)%nat ->
    expected_edges N (rate_gen K u1 u1 (tget R ArithR w1)) a
      = observed_edges N (gout G) a - snapped_mass N K (gout G) u1 u1 (tget R ArithR w) a
    /\ 0 <= snapped_mass N K (gout G) u1 u1 (tget R ArithR w) a
         <= epsR * (sumR (Du N u1) (seq 0 K) * sumR (Dv N u1) (seq 0 K)).
Proof.
  intros Hs [Hout _ Hnu Hnv Hlu Hlv _] [_ Hsh] Hu Hzu Hw Hi Hii Hiii a Ha.
  split.
  - apply (mass_balance_sweep_undirected_shared N K L G u v u1 v1 w w1); assumption.
  - apply (snapped_mass_bounds N K L (gout G) u1 u1 w); try assumption; intros i k _ _; apply Hu.
Qed.

(* ========================================================================================== *)
(* B4 : assortative (diagonal) affinity                                                       *)
(* ========================================================================================== *)
Section MassAss.
  Variables (N K L : nat) (adj : nat -> nat -> list nat) (ul vl : list nat).
  Variables (u v : matrix R) (wd : nat -> nat -> R).
  Notation g := (mget R ArithR).
  Notation ks := (seq 0 K).
  Notation vs := (seq 0 N).
  Notation DU := (Du N u).
  Notation DV := (Dv N v).

  Hypothesis u_nonneg : forall i k, (i < N)%nat -> (k < K)%nat -> 0 <= g u i k.
  Hypothesis v_nonneg : forall j q, (j < N)%nat -> (q < K)%nat -> 0 <= g v j q.
  Hypothesis wd_nonneg : forall k a, (k < K)%nat -> (a < L)%nat -> 0 <= wd k a.
  Hypothesis ul_nodup : NoDup ul.
  Hypothesis vl_nodup : NoDup vl.
  Hypothesis ul_lt : forall i, In i ul -> (i < N)%nat.
  Hypothesis vl_lt : forall j, In j vl -> (j < N)%nat.
  Hypothesis u_zero_rows : forall i k, (i < N)%nat -> ~ In i ul -> g u i k = 0.
  Hypothesis v_zero_rows : forall j q, (j < N)%nat -> ~ In j vl -> g v j q = 0.
  Hypothesis adj_lt : forall a i j, (a < L)%nat -> (i < N)%nat -> In j (adj a i) -> (j < N)%nat.

  (* rate of the assortative model = Spec.rate_ass *)
  Definition Ma (x : nat -> nat -> R) (i j a : nat) : R := sumR (fun k => g u i k * g v j k * x k a) ks.
  Definition wnum_a (k a : nat) : R :=
    sumR (fun i => g u i k * sumR (fun j => if Rltb epsR (Ma wd i j a) then g v j k / Ma wd i j a else 0) (adj a i)) vs.

  Lemma rate_ass_is_Ma x i j a : rate_ass K u v x i j a = Ma x i j a.
  Proof. reflexivity. Qed.

  Lemma Zij_wd_R i j a : Zij_wd R ArithR K u v wd i j a = Ma wd i j a.
  Proof. unfold Zij_wd, Ma, SweepModel.ks. rewrite acc_sum. cbn [zero ArithR]. rewrite Rplus_0_l. reflexivity. Qed.

  (* closed form of the code's new diagonal entry *)
  Lemma new_w_ass_R k a :
    new_w_ass R ArithR N K adj ul vl u v wd k a =
      if Rltb epsR (DU k * DV k) then
        if Rltb epsR (wd k a) then trunc R ArithR (wd k a / (DU k * DV k) * wnum_a k a) else wd k a
      else wd k a.
  Proof.
    unfold new_w_ass. cbv zeta. rewrite !acc_sum, !Rplus_0_l.
    assert (HDu : sumR (fun i => g u i k) ul = DU k).
    { apply sumR_sublist_dense; auto. }
    assert (HDv : sumR (fun i => g v i k) vl = DV k).
    { apply sumR_sublist_dense; auto. }
    rewrite HDu, HDv.
    assert (Hn : sumR (fun i => mul ArithR (g u i k)
                (fold_left (fun r j => let Zij := Zij_wd R ArithR K u v wd i j a in
                   if ltb ArithR (eps ArithR) Zij then add ArithR r (div ArithR (g v j k) Zij) else r) (adj a i) (zero ArithR))) (vertices N)
             = wnum_a k a).
    { unfold wnum_a, vertices. apply sumR_ext. intros i _. cbn [mul ArithR]. f_equal.
      cbv zeta. cbn [ltb eps add div zero ArithR].
      rewrite (fold_guard_sum (adj a i) (fun j => Rltb epsR (Zij_wd R ArithR K u v wd i j a)) (fun j => g v j k / Zij_wd R ArithR K u v wd i j a)).
      rewrite Rplus_0_l. apply sumR_ext. intros j _. rewrite Zij_wd_R. reflexivity. }
    cbn [mul ltb eps ArithR] in Hn |- *. rewrite Hn. reflexivity.
  Qed.

  Lemma mass_of_layer_ass (x : nat -> nat -> R) a :
    sumR (fun i => sumR (fun j => Ma x i j a) vs) vs = sumR (fun k => x k a * (DU k * DV k)) ks.
  Proof.
    symmetry. unfold Ma.
    transitivity (sumR (fun k => sumR (fun i => sumR (fun j => g u i k * g v j k * x k a) vs) vs) ks).
    { apply sumR_ext. intros k _. unfold Du, Dv.
      rewrite sumR_mul_sum, <- sumR_scal. apply sumR_ext. intros i _. rewrite <- sumR_scal. apply sumR_ext. intros j _. ring. }
    rewrite sumR_swap. apply sumR_ext. intros i _. rewrite sumR_swap. reflexivity.
  Qed.

  (* ---- definitions ---- *)
  Definition updated_a (k a : nat) : bool := Rltb epsR (DU k * DV k) && Rltb epsR (wd k a).
  Definition pre_a (k a : nat) : R := wd k a / (DU k * DV k) * wnum_a k a.
  Definition snapped_a (k a : nat) : bool := updated_a k a && Rltb (Rabs (pre_a k a)) epsR.
  Definition snapped_mass_a (a : nat) : R :=
    sumR (fun k => if snapped_a k a then pre_a k a * DU k * DV k else 0) ks.
  Definition wd'acc (k a : nat) : R := new_w_ass R ArithR N K adj ul vl u v wd k a.

  Lemma DU_nonneg_a k : (k < K)%nat -> 0 <= DU k.
  Proof. intros Hk. apply sumR_nonneg. intros i Hi. apply in_seq in Hi. apply u_nonneg; lia. Qed.
  Lemma DV_nonneg_a q : (q < K)%nat -> 0 <= DV q.
  Proof. intros Hq. apply sumR_nonneg. intros j Hj. apply in_seq in Hj. apply v_nonneg; lia. Qed.

  Lemma wnum_a_nonneg k a : (k < K)%nat -> (a < L)%nat -> 0 <= wnum_a k a.
  Proof.
    intros Hk Ha. unfold wnum_a. apply sumR_nonneg. intros i Hi. apply in_seq in Hi.
    apply Rmult_le_pos; [apply u_nonneg; lia|]. apply sumR_nonneg. intros j Hj.
    destruct (Rltb epsR (Ma wd i j a)) eqn:E; [|lra].
    apply Rltb_true in E. pose proof epsR_pos as He.
    assert (Hv : 0 <= g v j k) by (apply v_nonneg; [apply (adj_lt a i j); try lia; exact Hj|exact Hk]).
    unfold Rdiv. apply Rmult_le_pos; [exact Hv|]. apply Rlt_le, Rinv_0_lt_compat. lra.
  Qed.

  Lemma pre_a_nonneg k a : (k < K)%nat -> (a < L)%nat -> 0 < DU k * DV k -> 0 <= pre_a k a.
  Proof.
    intros Hk Ha HZ. unfold pre_a. apply Rmult_le_pos; [|apply wnum_a_nonneg; assumption].
    unfold Rdiv. apply Rmult_le_pos; [apply wd_nonneg; assumption|]. apply Rlt_le, Rinv_0_lt_compat. exact HZ.
  Qed.

  Lemma snapped_a_inv k a : snapped_a k a = true ->
    epsR < DU k * DV k /\ epsR < wd k a /\ Rabs (pre_a k a) < epsR.
  Proof.
    unfold snapped_a, updated_a. intros H. apply andb_prop in H. destruct H as [H H3].
    apply andb_prop in H. destruct H as [H1 H2].
    apply Rltb_true in H1. apply Rltb_true in H2. apply Rltb_true in H3. auto.
  Qed.

  Lemma snapped_a_term_bounds k a : (k < K)%nat -> (a < L)%nat ->
    0 <= (if snapped_a k a then pre_a k a * DU k * DV k else 0) <= epsR * (DU k * DV k).
  Proof.
    intros Hk Ha. pose proof epsR_pos as He.
    pose proof (DU_nonneg_a k Hk) as HU. pose proof (DV_nonneg_a k Hk) as HV.
    assert (HZ0 : 0 <= DU k * DV k) by (apply Rmult_le_pos; assumption).
    destruct (snapped_a k a) eqn:E.
    - apply snapped_a_inv in E. destruct E as [HZ [_ Hab]].
      assert (Hp : 0 <= pre_a k a) by (apply pre_a_nonneg; try assumption; lra).
      assert (Hp2 : pre_a k a <= epsR) by (pose proof (Rle_abs (pre_a k a)); lra).
      rewrite Rmult_assoc. split.
      + apply Rmult_le_pos; assumption.
      + apply Rmult_le_compat_r; assumption.
    - split; [lra|]. apply Rmult_le_pos; lra.
  Qed.

  Theorem snapped_mass_a_nonneg a : (a < L)%nat -> 0 <= snapped_mass_a a.
  Proof.
    intros Ha. unfold snapped_mass_a. apply sumR_nonneg. intros k Hk. apply in_seq in Hk.
    apply (snapped_a_term_bounds k a); lia.
  Qed.

  Theorem snapped_mass_a_le a : (a < L)%nat ->
    snapped_mass_a a <= epsR * sumR (fun k => DU k * DV k) ks.
  Proof.
    intros Ha. unfold snapped_mass_a. rewrite <- sumR_scal. apply sumR_le. intros k Hk. apply in_seq in Hk.
    apply (snapped_a_term_bounds k a); lia.
  Qed.

  (* ---- balance ---- *)
  Hypothesis clean_rates : forall a i j, (a < L)%nat -> (i < N)%nat -> In j (adj a i) -> epsR < Ma wd i j a.
  Hypothesis pre_ii : forall k a, (k < K)%nat -> (a < L)%nat -> wd k a = 0 \/ epsR < wd k a.
  Hypothesis pre_iii : forall k a, (k < K)%nat -> (a < L)%nat -> 0 < wd k a -> epsR < DU k * DV k.

  Lemma sum_wd_wnum a : (a < L)%nat -> sumR (fun k => wd k a * wnum_a k a) ks = edge_count N adj a.
  Proof.
    intros Ha. unfold wnum_a, edge_count.
    transitivity (sumR (fun k => sumR (fun i => sumR (fun j => g u i k * g v j k * wd k a / Ma wd i j a) (adj a i)) vs) ks).
    { apply sumR_ext. intros k _. rewrite <- sumR_scal. apply sumR_ext. intros i Hi. apply in_seq in Hi.
      rewrite <- Rmult_assoc, <- sumR_scal. apply sumR_ext. intros j Hj.
      assert (Hc : epsR < Ma wd i j a) by (apply clean_rates; try lia; exact Hj).
      replace (Rltb epsR (Ma wd i j a)) with true by (symmetry; apply Rltb_true; exact Hc). unfold Rdiv. ring. }
    rewrite sumR_swap. apply sumR_ext. intros i Hi. apply in_seq in Hi.
    rewrite sumR_swap. apply sumR_ext. intros j Hj.
    assert (Hc : epsR < Ma wd i j a) by (apply clean_rates; try lia; exact Hj).
    transitivity (/ Ma wd i j a * Ma wd i j a).
    - unfold Ma at 3. rewrite <- sumR_scal. apply sumR_ext. intros k _. unfold Rdiv. ring.
    - apply Rinv_l. pose proof epsR_pos. lra.
  Qed.

  Lemma wd'acc_entry k a : (k < K)%nat -> (a < L)%nat ->
    wd'acc k a * (DU k * DV k)
    = wd k a * wnum_a k a - (if snapped_a k a then pre_a k a * DU k * DV k else 0).
  Proof.
    intros Hk Ha. unfold wd'acc. rewrite new_w_ass_R. apply entry_balance.
    - apply pre_ii; assumption.
    - apply pre_iii; assumption.
  Qed.

  Theorem mass_balance_trunc_ass a : (a < L)%nat ->
    sumR (fun i => sumR (fun j => Ma wd'acc i j a) vs) vs = edge_count N adj a - snapped_mass_a a.
  Proof.
    intros Ha. rewrite mass_of_layer_ass. rewrite <- (sum_wd_wnum a Ha). unfold snapped_mass_a.
    rewrite <- sumR_minus. apply sumR_ext. intros k Hk. apply in_seq in Hk.
    apply wd'acc_entry; lia.
  Qed.

  Theorem mass_balance_trunc_ass_spec a : (a < L)%nat ->
    expected_edges N (rate_ass K u v wd'acc) a = observed_edges N adj a - snapped_mass_a a.
  Proof.
    intros Ha. rewrite observed_edges_is_edge_count. apply mass_balance_trunc_ass. exact Ha.
  Qed.
End MassAss.

(* ---- assortative sweep ---- *)
Lemma dget_upd_affinity_ass N K L out ul vl u v wd k a : (k < K)%nat -> (a < L)%nat ->
  dget R ArithR (upd_affinity_ass R ArithR N K L out ul vl u v wd) k a
  = new_w_ass R ArithR N K out ul vl u v wd k a.
Proof.
  intros Hk Ha. unfold dget, upd_affinity_ass, layers, SweepModel.ks.
  rewrite (nth_map_seq (fun a0 => map (fun k0 => new_w_ass R ArithR N K out ul vl u v wd k0 a0) (seq 0 K)) [] L a Ha).
  apply (nth_map_seq (fun k0 => new_w_ass R ArithR N K out ul vl u v wd k0 a) (zero ArithR) K k Hk).
Qed.

Lemma expected_edges_ass_ext N K u v (x y : nat -> nat -> R) a :
  (forall k, (k < K)%nat -> x k a = y k a) ->
  expected_edges N (rate_ass K u v x) a = expected_edges N (rate_ass K u v y) a.
Proof.
  intros H. unfold expected_edges, rate_ass. apply sumR_ext. intros i _. apply sumR_ext. intros j _.
  apply sumR_ext. intros k Hk. apply in_seq in Hk. rewrite H by lia. reflexivity.
Qed.

Lemma sweep_ass_directed_inv N K L G u v w u1 v1 w1 :
  sweep_ass R ArithR N K L true G (u, v, w) = (u1, v1, w1) ->
  w1 = upd_affinity_ass R ArithR N K L (gout G) (gul G) (gvl G) u1 v1 (dget R ArithR w).
Proof.
  unfold sweep_ass. cbv beta iota zeta. intros H. injection H as <- <- <-. reflexivity.
Qed.

Lemma sweep_ass_undirected_inv N K L G u v w u1 v1 w1 :
  sweep_ass R ArithR N K L false G (u, v, w) = (u1, v1, w1) ->
  v1 = v /\ w1 = upd_affinity_ass R ArithR N K L (gout G) (gul G) (gvl G) u1 u1 (dget R ArithR w).
Proof.
  unfold sweep_ass. cbv beta iota zeta. intros H. injection H as <- <- <-. split; reflexivity.
Qed.

Theorem mass_balance_upd_affinity_ass N K L out ul vl (u1 v1 : matrix R) (w : list (list R)) :
  NoDup ul -> NoDup vl ->
  (forall i, In i ul -> (i < N)%nat) -> (forall j, In j vl -> (j < N)%nat) ->
  (forall i k, (i < N)%nat -> ~ In i ul -> mget R ArithR u1 i k = 0) ->
  (forall j q, (j < N)%nat -> ~ In j vl -> mget R ArithR v1 j q = 0) ->
  (forall a i j, (a < L)%nat -> (i < N)%nat -> In j (out a i) -> epsR < rate_ass K u1 v1 (dget R ArithR w) i j a) ->
  (forall k a, (k < K)%nat -> (a < L)%nat -> dget R ArithR w k a = 0 \/ epsR < dget R ArithR w k a) ->
  (forall k a, (k < K)%nat -> (a < L)%nat -> 0 < dget R ArithR w k a -> epsR < Du N u1 k * Dv N v1 k) ->
  forall a, (a < L)%nat ->
    expected_edges N (rate_ass K u1 v1 (dget R ArithR (upd_affinity_ass R ArithR N K L out ul vl u1 v1 (dget R ArithR w)))) a
    = observed_edges N out a - snapped_mass_a N K out u1 v1 (dget R ArithR w) a.
Proof.
  intros Hnu Hnv Hlu Hlv Hzu Hzv Hi Hii Hiii a Ha.
  rewrite <- (mass_balance_trunc_ass_spec N K L out ul vl u1 v1 (dget R ArithR w)
                Hnu Hnv Hlu Hlv Hzu Hzv Hi Hii Hiii a Ha).
  apply expected_edges_ass_ext. intros k Hk. unfold wd'acc. apply dget_upd_affinity_ass; assumption.
Qed.

Theorem snapped_mass_a_bounds N K L out (u1 v1 : matrix R) (w : list (list R)) :
  (forall i k, (i < N)%nat -> (k < K)%nat -> 0 <= mget R ArithR u1 i k) ->
  (forall j q, (j < N)%nat -> (q < K)%nat -> 0 <= mget R ArithR v1 j q) ->
  (forall k a, (k < K)%nat -> (a < L)%nat -> 0 <= dget R ArithR w k a) ->
  (forall a i j, (a < L)%nat -> (i < N)%nat -> In j (out a i) -> (j < N)%nat) ->
  forall a, (a < L)%nat ->
    0 <= snapped_mass_a N K out u1 v1 (dget R ArithR w) a
      <= epsR * sumR (fun k => Du N u1 k * Dv N v1 k) (seq 0 K).
Proof.
  intros Hu Hv Hw Hadj a Ha. split.
  - apply (snapped_mass_a_nonneg N K L out u1 v1 (dget R ArithR w) Hu Hv Hw Hadj a Ha).
  - apply (snapped_mass_a_le N K L out u1 v1 (dget R ArithR w) Hu Hv Hw Hadj a Ha).
Qed.

Theorem mass_balance_sweep_ass N K L G (u v u1 v1 : matrix R) (w w1 : list (list R)) :
  sweep_ass R ArithR N K L true G (u, v, w) = (u1, v1, w1) ->
  NoDup (gul G) -> NoDup (gvl G) ->
  (forall i, In i (gul G) -> (i < N)%nat) -> (forall j, In j (gvl G) -> (j < N)%nat) ->
  (forall i k, (i < N)%nat -> ~ In i (gul G) -> mget R ArithR u1 i k = 0) ->
  (forall j q, (j < N)%nat -> ~ In j (gvl G) -> mget R ArithR v1 j q = 0) ->
  (forall a i j, (a < L)%nat -> (i < N)%nat -> In j (gout G a i) -> epsR < rate_ass K u1 v1 (dget R ArithR w) i j a) ->
  (forall k a, (k < K)%nat -> (a < L)%nat -> dget R ArithR w k a = 0 \/ epsR < dget R ArithR w k a) ->
  (forall k a, (k < K)%nat -> (a < L)%nat -> 0 < dget R ArithR w k a -> epsR < Du N u1 k * Dv N v1 k) ->
  forall a, (a < L)%nat ->
    expected_edges N (rate_ass K u1 v1 (dget R ArithR w1)) a
    = observed_edges N (gout G) a - snapped_mass_a N K (gout G) u1 v1 (dget R ArithR w) a.
Proof.
  intros Hs Hnu Hnv Hlu Hlv Hzu Hzv Hi Hii Hiii a Ha.
  apply sweep_ass_directed_inv in Hs. subst w1.
  apply (mass_balance_upd_affinity_ass N K L (gout G) (gul G) (gvl G) u1 v1 w); assumption.
Qed.

Theorem mass_balance_sweep_ass_undirected N K L G (u v u1 v1 : matrix R) (w w1 : list (list R)) :
  sweep_ass R ArithR N K L false G (u, v, w) = (u1, v1, w1) ->
  NoDup (gul G) -> NoDup (gvl G) ->
  (forall i, In i (gul G) -> (i < N)%nat) -> (forall j, In j (gvl G) -> (j < N)%nat) ->
  (forall i k, (i < N)%nat -> ~ In i (gul G) -> mget R ArithR u1 i k = 0) ->
  (forall j q, (j < N)%nat -> ~ In j (gvl G) -> mget R ArithR u1 j q = 0) ->
  (forall a i j, (a < L)%nat -> (i < N)%nat -> In j (gout G a i) -> epsR < rate_ass K u1 u1 (dget R ArithR w) i j a) ->
  (forall k a, (k < K)%nat -> (a < L)%nat -> dget R ArithR w k a = 0 \/ epsR < dget R ArithR w k a) ->
  (forall k a, (k < K)%nat -> (a < L)%nat -> 0 < dget R ArithR w k a -> epsR < Du N u1 k * Dv N u1 k) ->
  v1 = v /\
  forall a, (a < L)%nat ->
    expected_edges N (rate_ass K u1 u1 (dget R ArithR w1)) a
    = observed_edges N (gout G) a - snapped_mass_a N K (gout G) u1 u1 (dget R ArithR w) a.
Proof.
  intros Hs Hnu Hnv Hlu Hlv Hzu Hzv Hi Hii Hiii.
  apply sweep_ass_undirected_inv in Hs. destruct Hs as [-> ->]. split; [reflexivity|]. intros a Ha.
  apply (mass_balance_upd_affinity_ass N K L (gout G) (gul G) (gvl G) u1 u1 w); assumption.
Qed.

(* ------------------------------------------------------------------------------------------ *)
Check snapped_mass_nonneg.
Check snapped_mass_le.
Check mass_balance_trunc.
Check mass_balance_trunc_spec.
Check mass_balance_sweep.
Check mass_balance_sweep_undirected.
Check mass_balance_trunc_ass_spec.
Print Assumptions snapped_mass_nonneg.
Print Assumptions snapped_mass_le.
Print Assumptions mass_balance_trunc.
Print Assumptions mass_balance_trunc_spec.
Print Assumptions mass_balance_trunc_bounds.
Print Assumptions mass_balance_sweep.
Print Assumptions mass_balance_sweep_bounds.
Print Assumptions mass_balance_sweep_undirected.
Print Assumptions mass_balance_sweep_wf.
Print Assumptions mass_balance_sweep_undirected_wf.
Print Assumptions mass_balance_trunc_ass_spec.
Print Assumptions mass_balance_sweep_ass.
Print Assumptions mass_balance_sweep_ass_undirected.
