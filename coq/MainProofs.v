(* MainProofs.v -- proofs about MainModel.v: the argument-check chain `validate`,
   `factorize`'s error/ok behaviour, the shape of the result, and `records`.

   V1  shape_consistent, validate_accept_iff (+ shape_consistent_unique)
   V2  validate_reject_iff, validate_reject_code (table, one iff per code 1..11)
   V3  factorize_error_iff, factorize_ok_accept
   V4  run_rep_length, factorize_ok_shape
   V5  records_length, records_spec, records_weight_index *)
From Coq Require Import List Arith Bool Lia.
Import ListNotations.
From MT Require Import Arith SweepModel GraphModel InitModel CtrlModel MainModel.

Section MainProofs.
  Variable num : Type.
  Variable A : Arith num.
  Variable label : Type.
  Variable leqb : label -> label -> bool.
  Variable wt : Type.
  Variable countf : wt -> nat.
  Variable ovr : nat -> nat -> num -> num.

  (* ====================================================================== *)
  (* V1 / V2 : validate                                                     *)
  (* ====================================================================== *)
  Section Validate.
    Variables (assort : bool) (starts ends : list label) (weights : list wt)
              (aff_size u_rows u_cols r maxit nconv : nat).

    (* the quantities the code computes on the way (main.hpp: nlayers, K, N) *)
    Definition cL : nat := length weights / length starts.
    Definition cK : nat := if assort then aff_size / cL else Nat.sqrt (aff_size / cL).
    Definition cSz : nat := if assort then cK * cL else cK * cK * cL.
    Definition cN : nat := get_num_vertices label leqb starts ends.

    Definition shape_consistent (L K N : nat) : Prop :=
      1 <= length starts /\ length ends = length starts /\
      1 <= L /\ length weights = L * length starts /\
      2 <= K /\ aff_size = (if assort then K * L else K * K * L) /\
      N = get_num_vertices label leqb starts ends /\ 2 <= N /\
      u_rows = N /\ u_cols = K /\
      1 <= r /\ 1 <= maxit /\ 1 <= nconv.

    Notation V := (validate label leqb wt assort starts ends weights
                            aff_size u_rows u_cols r maxit nconv).

    (* Case analysis principle: validate is exactly the first-failing-check chain. *)
    Lemma validate_cases (P : verdict -> Prop) :
      (length starts < 1 -> P (Reject 1)) ->
      (1 <= length starts -> length ends <> length starts -> P (Reject 2)) ->
      (1 <= length starts -> length ends = length starts ->
       length weights mod length starts <> 0 -> P (Reject 3)) ->
      (1 <= length starts -> length ends = length starts ->
       length weights mod length starts = 0 -> cL < 1 -> P (Reject 4)) ->
      (1 <= length starts -> length ends = length starts ->
       length weights mod length starts = 0 -> 1 <= cL -> cK < 2 -> P (Reject 5)) ->
      (1 <= length starts -> length ends = length starts ->
       length weights mod length starts = 0 -> 1 <= cL -> 2 <= cK ->
       cSz <> aff_size -> P (Reject 6)) ->
      (1 <= length starts -> length ends = length starts ->
       length weights mod length starts = 0 -> 1 <= cL -> 2 <= cK ->
       cSz = aff_size -> cN < 2 -> P (Reject 7)) ->
      (1 <= length starts -> length ends = length starts ->
       length weights mod length starts = 0 -> 1 <= cL -> 2 <= cK ->
       cSz = aff_size -> 2 <= cN -> ~ (u_rows = cN /\ u_cols = cK) -> P (Reject 8)) ->
      (1 <= length starts -> length ends = length starts ->
       length weights mod length starts = 0 -> 1 <= cL -> 2 <= cK ->
       cSz = aff_size -> 2 <= cN -> u_rows = cN -> u_cols = cK -> r < 1 -> P (Reject 9)) ->
      (1 <= length starts -> length ends = length starts ->
       length weights mod length starts = 0 -> 1 <= cL -> 2 <= cK ->
       cSz = aff_size -> 2 <= cN -> u_rows = cN -> u_cols = cK -> 1 <= r ->
       maxit < 1 -> P (Reject 10)) ->
      (1 <= length starts -> length ends = length starts ->
       length weights mod length starts = 0 -> 1 <= cL -> 2 <= cK ->
       cSz = aff_size -> 2 <= cN -> u_rows = cN -> u_cols = cK -> 1 <= r ->
       1 <= maxit -> nconv < 1 -> P (Reject 11)) ->
      (1 <= length starts -> length ends = length starts ->
       length weights mod length starts = 0 -> 1 <= cL -> 2 <= cK ->
       cSz = aff_size -> 2 <= cN -> u_rows = cN -> u_cols = cK -> 1 <= r ->
       1 <= maxit -> 1 <= nconv -> P (Accept cL cK cN)) ->
      P V.
    Proof.
      intros H1 H2 H3 H4 H5 H6 H7 H8 H9 H10 H11 HA.
      unfold validate. cbv zeta.
      fold cL. fold cK. fold cSz. fold cN.
      destruct (length starts <? 1) eqn:E1.
      { apply Nat.ltb_lt in E1. auto. }
      apply Nat.ltb_ge in E1.
      destruct (length starts =? length ends) eqn:E2; cbn [negb].
      2:{ apply Nat.eqb_neq in E2. apply H2; auto. }
      apply Nat.eqb_eq in E2. symmetry in E2.
      destruct (length weights mod length starts =? 0) eqn:E3; cbn [negb].
      2:{ apply Nat.eqb_neq in E3. apply H3; auto. }
      apply Nat.eqb_eq in E3.
      destruct (cL <? 1) eqn:E4.
      { apply Nat.ltb_lt in E4. apply H4; auto. }
      apply Nat.ltb_ge in E4.
      destruct (cK <? 2) eqn:E5.
      { apply Nat.ltb_lt in E5. apply H5; auto. }
      apply Nat.ltb_ge in E5.
      destruct (cSz =? aff_size) eqn:E6; cbn [negb].
      2:{ apply Nat.eqb_neq in E6. apply H6; auto. }
      apply Nat.eqb_eq in E6.
      destruct (cN <? 2) eqn:E7.
      { apply Nat.ltb_lt in E7. apply H7; auto. }
      apply Nat.ltb_ge in E7.
      destruct (cN * cK =? u_rows * u_cols) eqn:E8a; cbn [negb].
      2:{ apply Nat.eqb_neq in E8a. apply H8; auto.
          intros [Ha Hb]. apply E8a. rewrite Ha, Hb. reflexivity. }
      destruct (u_rows =? cN) eqn:E8b; cbn [andb negb].
      2:{ apply Nat.eqb_neq in E8b. apply H8; auto. intros [Ha _]. auto. }
      apply Nat.eqb_eq in E8b.
      destruct (u_cols =? cK) eqn:E8c; cbn [andb negb].
      2:{ apply Nat.eqb_neq in E8c. apply H8; auto. intros [_ Hb]. auto. }
      apply Nat.eqb_eq in E8c.
      destruct (r <? 1) eqn:E9.
      { apply Nat.ltb_lt in E9. apply H9; auto. }
      apply Nat.ltb_ge in E9.
      destruct (maxit <? 1) eqn:E10.
      { apply Nat.ltb_lt in E10. apply H10; auto. }
      apply Nat.ltb_ge in E10.
      destruct (nconv <? 1) eqn:E11.
      { apply Nat.ltb_lt in E11. apply H11; auto. }
      apply Nat.ltb_ge in E11.
      apply HA; auto.
    Qed.

    (* A consistent shape pins down the computed quantities; this contains the
       integer-square-root step: for aff_size = K*K*L, Nat.sqrt (aff_size / L) = K. *)
    Lemma shape_determines L K N :
      shape_consistent L K N ->
      cL = L /\ cK = K /\ cN = N /\
      length weights mod length starts = 0 /\ cSz = aff_size.
    Proof.
      intros (H1 & H2 & H3 & H4 & H5 & H6 & H7 & H8 & H9 & H10 & H11 & H12 & H13).
      assert (HL : cL = L).
      { unfold cL. rewrite H4. apply Nat.div_mul. lia. }
      assert (HK : cK = K).
      { unfold cK. rewrite HL, H6. destruct assort.
        - apply Nat.div_mul. lia.
        - rewrite Nat.div_mul by lia. apply Nat.sqrt_square. }
      repeat split; auto.
      - rewrite H4. apply Nat.mod_mul. lia.
      - unfold cSz. rewrite HK, HL, H6. reflexivity.
    Qed.

    (* the converse square-root direction, stated on its own:
       with K := Nat.sqrt (aff_size / L), the check K*K*L = aff_size is the same as
       aff_size being of the form K'*K'*L for SOME K' (and then K' = K). *)
    Lemma sqrt_check_iff L : 1 <= L ->
      (Nat.sqrt (aff_size / L) * Nat.sqrt (aff_size / L) * L = aff_size
       <-> exists K', aff_size = K' * K' * L).
    Proof.
      intros HL. split.
      - intros H. eexists. symmetry. exact H.
      - intros [K' H]. rewrite H at 1 2.
        rewrite Nat.div_mul by lia. rewrite Nat.sqrt_square. auto.
    Qed.

    (* ---------------- V1 ---------------- *)
    Theorem validate_accept_iff L K N :
      V = Accept L K N <-> shape_consistent L K N.
    Proof.
      split.
      - pattern V. apply validate_cases; intros; try discriminate.
        match goal with H : Accept _ _ _ = Accept _ _ _ |- _ => injection H as <- <- <- end.
        unfold shape_consistent.
        repeat split; auto.
        + (* length weights = cL * length starts *)
          unfold cL. rewrite Nat.mul_comm.
          apply Nat.div_exact; [lia | assumption].
          (* the size formula  aff_size = if assort then cK*cL else cK*cK*cL  is cSz = aff_size
             up to unfolding and symmetry: closed by auto above *)
      - intros S. pose proof (shape_determines _ _ _ S) as (HL & HK & HN & HM & HS).
        destruct S as (S1 & S2 & S3 & S4 & S5 & S6 & S7 & S8 & S9 & S10 & S11 & S12 & S13).
        pattern V. apply validate_cases; intros; try (exfalso; lia).
        (* only the accepting branch is left *)
        congruence.
    Qed.

    (* uniqueness: L, K, N are determined by the request *)
    Corollary shape_consistent_unique L K N L' K' N' :
      shape_consistent L K N -> shape_consistent L' K' N' -> L = L' /\ K = K' /\ N = N'.
    Proof.
      intros S S'.
      apply shape_determines in S. apply shape_determines in S'.
      destruct S as (a & b & c & _). destruct S' as (a' & b' & c' & _).
      repeat split; congruence.
    Qed.

    Corollary validate_accept_computed L K N :
      V = Accept L K N -> L = cL /\ K = cK /\ N = cN.
    Proof.
      intros H. apply validate_accept_iff in H. apply shape_determines in H.
      destruct H as (a & b & c & _). auto.
    Qed.

    (* ---------------- V2 ---------------- *)
    Theorem validate_reject_iff :
      (exists c, V = Reject c) <-> ~ exists L K N, shape_consistent L K N.
    Proof.
      split.
      - intros [c H] (L & K & N & S). apply validate_accept_iff in S. congruence.
      - intros H. destruct V as [c | L K N] eqn:E.
        + eauto.
        + exfalso. apply H. exists L, K, N. apply validate_accept_iff. exact E.
    Qed.

    (* Table: each code is returned exactly when all earlier checks pass and its own
       check is the first one to fail (stated as iff, which is stronger than the
       implication asked for); and no other code is ever produced. *)
    Theorem validate_reject_code :
      (V = Reject 1 <-> length starts < 1) /\
      (V = Reject 2 <-> 1 <= length starts /\ length ends <> length starts) /\
      (V = Reject 3 <-> 1 <= length starts /\ length ends = length starts /\
                        length weights mod length starts <> 0) /\
      (V = Reject 4 <-> 1 <= length starts /\ length ends = length starts /\
                        length weights mod length starts = 0 /\
                        length weights / length starts < 1) /\
      (V = Reject 5 <-> 1 <= length starts /\ length ends = length starts /\
                        length weights mod length starts = 0 /\ 1 <= cL /\
                        cK < 2) /\
      (V = Reject 6 <-> 1 <= length starts /\ length ends = length starts /\
                        length weights mod length starts = 0 /\ 1 <= cL /\ 2 <= cK /\
                        (if assort then cK * cL else cK * cK * cL) <> aff_size) /\
      (V = Reject 7 <-> 1 <= length starts /\ length ends = length starts /\
                        length weights mod length starts = 0 /\ 1 <= cL /\ 2 <= cK /\
                        (if assort then cK * cL else cK * cK * cL) = aff_size /\
                        cN < 2) /\
      (V = Reject 8 <-> 1 <= length starts /\ length ends = length starts /\
                        length weights mod length starts = 0 /\ 1 <= cL /\ 2 <= cK /\
                        (if assort then cK * cL else cK * cK * cL) = aff_size /\
                        2 <= cN /\ (u_rows, u_cols) <> (cN, cK)) /\
      (V = Reject 9 <-> 1 <= length starts /\ length ends = length starts /\
                        length weights mod length starts = 0 /\ 1 <= cL /\ 2 <= cK /\
                        (if assort then cK * cL else cK * cK * cL) = aff_size /\
                        2 <= cN /\ (u_rows, u_cols) = (cN, cK) /\ r < 1) /\
      (V = Reject 10 <-> 1 <= length starts /\ length ends = length starts /\
                        length weights mod length starts = 0 /\ 1 <= cL /\ 2 <= cK /\
                        (if assort then cK * cL else cK * cK * cL) = aff_size /\
                        2 <= cN /\ (u_rows, u_cols) = (cN, cK) /\ 1 <= r /\ maxit < 1) /\
      (V = Reject 11 <-> 1 <= length starts /\ length ends = length starts /\
                        length weights mod length starts = 0 /\ 1 <= cL /\ 2 <= cK /\
                        (if assort then cK * cL else cK * cK * cL) = aff_size /\
                        2 <= cN /\ (u_rows, u_cols) = (cN, cK) /\ 1 <= r /\ 1 <= maxit /\
                        nconv < 1) /\
      (forall c, V = Reject c -> 1 <= c <= 11).
    Proof.
      assert (PE : forall a b c d : nat, (a, b) = (c, d) <-> a = c /\ b = d).
      { intros. split; [intros H; injection H; auto | intros [-> ->]; reflexivity]. }
      change (if assort then cK * cL else cK * cK * cL) with cSz.
      change (length weights / length starts) with cL.
      rewrite !PE.
      pattern V. apply validate_cases; intros;
        (repeat match goal with |- _ /\ _ => split end);
        try (intros c Hc; first [discriminate Hc | injection Hc as <-; lia]);
        (split; [ try discriminate; intros _;
                  repeat match goal with |- _ /\ _ => split end; auto; try lia
                | intros Hx; try reflexivity; decompose [and] Hx; exfalso;
                  try lia; tauto ]).
    Qed.

    (* code 4 really means "weights is empty" *)
    Lemma reject4_weights_empty :
      V = Reject 4 <-> 1 <= length starts /\ length ends = length starts /\ weights = [].
    Proof.
      destruct validate_reject_code as (_ & _ & _ & H4 & _). rewrite H4. clear H4.
      split.
      - intros (H1 & H2 & H3 & H4). repeat split; auto.
        apply Nat.div_exact in H3; [| lia].
        assert (length weights / length starts = 0) as E by lia.
        rewrite E, Nat.mul_0_r in H3. destruct weights; [reflexivity | discriminate].
      - intros (H1 & H2 & ->). simpl length.
        rewrite Nat.mod_0_l, Nat.div_0_l by lia. repeat split; auto; lia.
    Qed.
  End Validate.

  (* ====================================================================== *)
  (* V4 helper : run appends exactly r report entries                       *)
  (* ====================================================================== *)
  Section RunLen.
    Variable W : Type.
    Variable sw : matrix num * matrix num * W -> matrix num * matrix num * W.
    Variable lk : nat -> nat -> matrix num * matrix num * W -> num.
    Variable IC : Type.
    Variable initw : IC -> W -> list num -> IC * W * list num.
    Variables (directed : bool) (N K : nat) (ul vl : list nat).

    Lemma one_realization_rep_length maxit nconv b i :
      length (rep _ _ _ (one_realization num A W sw lk IC initw directed N K ul vl
                                         maxit nconv b i))
      = S (length (rep _ _ _ b)).
    Proof.
      unfold one_realization.
      destruct (start_of num A W IC initw directed N K ul vl b) as [[ic' s0] s3].
      destruct (realization num A W sw lk maxit i maxit nconv _) as [c rs].
      destruct (ls_s c) as [[ut vt] wtt].
      destruct (ltb A _ _); cbn [rep]; rewrite app_length; simpl; lia.
    Qed.

    Lemma run_rep_length r maxit nconv b0 :
      length (rep _ _ _ (run num A W sw lk IC initw directed N K ul vl r maxit nconv b0))
      = length (rep _ _ _ b0) + r.
    Proof.
      unfold run. generalize 0 as s. revert b0.
      induction r as [|r' IH]; intros b0 s; simpl.
      - lia.
      - rewrite IH, one_realization_rep_length. lia.
    Qed.
  End RunLen.

  (* ====================================================================== *)
  (* V3 / V4 : factorize                                                    *)
  (* ====================================================================== *)
  Section Factorize.
    Variables (directed assort from_init : bool)
              (starts ends : list label) (weights : list wt) (r maxit nconv : nat)
              (u_rows u_cols : nat) (u0 v0 : matrix num) (aff0 : list num)
              (stream : list num).

    Notation F := (factorize num A label leqb wt countf ovr directed assort from_init
                             starts ends weights r maxit nconv u_rows u_cols u0 v0 aff0 stream).
    Notation V := (validate label leqb wt assort starts ends weights
                            (length aff0) u_rows u_cols r maxit nconv).

    (* ---------------- V3 ---------------- *)
    Theorem factorize_error_iff c :
      F = Error num label c <-> V = Reject c.
    Proof.
      unfold factorize. destruct V as [c' | L K N].
      - split; intros H; injection H as ->; reflexivity.
      - split; intros H; [| discriminate].
        destruct assort, from_init; discriminate.
    Qed.

    Theorem factorize_ok_accept res :
      F = Ok num label res -> exists L K N, V = Accept L K N.
    Proof.
      unfold factorize. destruct V as [c' | L K N].
      - discriminate.
      - intros _. eauto.
    Qed.

    (* and conversely an accepted request always yields Ok *)
    Theorem factorize_accept_ok L K N :
      V = Accept L K N -> exists res, F = Ok num label res.
    Proof.
      unfold factorize. intros ->. destruct assort, from_init; eauto.
    Qed.

    (* ---------------- V4 ---------------- *)
    Theorem factorize_ok_shape res L K N :
      F = Ok num label res -> V = Accept L K N ->
      length (r_rep _ _ res) = r /\
      r_labels _ _ res
        = tbl label (build label leqb directed L (records label wt countf L starts ends weights)).
    Proof.
      unfold factorize. intros H HV. rewrite HV in H.
      destruct assort, from_init; injection H as <-;
        unfold core, the_net; cbn [r_rep r_labels];
        (split; [rewrite run_rep_length; reflexivity | reflexivity]).
    Qed.
  End Factorize.

  (* ====================================================================== *)
  (* V5 : records                                                           *)
  (* ====================================================================== *)
  Section Records.
    Lemma skipn_skipn' {T} (x y : nat) (l : list T) :
      skipn x (skipn y l) = skipn (y + x) l.
    Proof.
      revert l. induction y as [|y IH]; intros l; simpl.
      - reflexivity.
      - destruct l as [|a l]; simpl.
        + destruct x; reflexivity.
        + apply IH.
    Qed.

    Lemma nth_skipn' {T} (k a : nat) (l : list T) (d : T) :
      nth a (skipn k l) d = nth (k + a) l d.
    Proof.
      revert l. induction k as [|k IH]; intros l; simpl.
      - reflexivity.
      - destruct l as [|x l]; simpl.
        + destruct a; reflexivity.
        + apply IH.
    Qed.

    Lemma nth_firstn' {T} (L a : nat) (l : list T) (d : T) :
      a < L -> nth a (firstn L l) d = nth a l d.
    Proof.
      revert a l. induction L as [|L IH]; intros a l H.
      - lia.
      - destruct l as [|x l]; simpl.
        + reflexivity.
        + destruct a; simpl; [reflexivity | apply IH; lia].
    Qed.

    Lemma chunk_length {T} (L n : nat) (l : list T) : length (chunk L n l) = n.
    Proof.
      revert l. induction n as [|n IH]; intros l; simpl; [reflexivity | now rewrite IH].
    Qed.

    Lemma chunk_nth_error {T} (L n i : nat) (l : list T) :
      i < n -> nth_error (chunk L n l) i = Some (firstn L (skipn (i * L) l)).
    Proof.
      revert i l. induction n as [|n IH]; intros i l H.
      - lia.
      - destruct i as [|i]; simpl.
        + reflexivity.
        + rewrite IH by lia. rewrite skipn_skipn'. reflexivity.
    Qed.

    Lemma zip3_length (s e : list label) (c : list (list nat)) :
      length e = length s -> length c = length s ->
      length (zip3 label s e c) = length s.
    Proof.
      revert e c. induction s as [|x s IH]; intros e c He Hc.
      - reflexivity.
      - destruct e as [|y e]; [discriminate|]. destruct c as [|z c]; [discriminate|].
        simpl in *. f_equal. apply IH; lia.
    Qed.

    Lemma zip3_nth_error (s e : list label) (c : list (list nat)) n x y z :
      nth_error s n = Some x -> nth_error e n = Some y -> nth_error c n = Some z ->
      nth_error (zip3 label s e c) n = Some (x, y, z).
    Proof.
      revert e c n. induction s as [|x0 s IH]; intros e c n Hs He Hc.
      - destruct n; discriminate.
      - destruct e as [|y0 e]; [destruct n; discriminate|].
        destruct c as [|z0 c]; [destruct n; discriminate|].
        destruct n as [|n]; simpl in *.
        + congruence.
        + apply IH; assumption.
    Qed.

    Variables (L : nat) (starts ends : list label) (weights : list wt).
    Notation R := (records label wt countf L starts ends weights).

    (* NOTE: the hypothesis on `length weights` is not needed for the length nor for the
       firstn/skipn form of the n-th record (chunk produces `length starts` pieces
       whatever the list is); it is needed to know every piece has exactly L entries,
       i.e. for records_weight_index below. *)
    Theorem records_length :
      length ends = length starts ->
      length R = length starts.
    Proof.
      intros He. unfold records. apply zip3_length; [assumption|].
      rewrite map_length. apply chunk_length.
    Qed.

    Theorem records_spec n (ds de : label) :
      length ends = length starts -> n < length starts ->
      nth_error R n
      = Some (nth n starts ds, nth n ends de,
              map countf (firstn L (skipn (n * L) weights))).
    Proof.
      intros He Hn. unfold records. apply zip3_nth_error.
      - apply nth_error_nth'. assumption.
      - apply nth_error_nth'. lia.
      - apply map_nth_error. apply chunk_nth_error. assumption.
    Qed.

    (* every record carries exactly L multiplicities, and the one for layer a is that of
       weights[n * L + a]   (C++: edges_weight[i * nlayers + alpha]) *)
    Theorem records_weight_index n a (dw : wt) :
      length weights = L * length starts -> n < length starts -> a < L ->
      length (map countf (firstn L (skipn (n * L) weights))) = L /\
      nth a (map countf (firstn L (skipn (n * L) weights))) 0
      = countf (nth (n * L + a) weights dw).
    Proof.
      intros Hw Hn Ha.
      assert (Hlen : length (firstn L (skipn (n * L) weights)) = L).
      { rewrite firstn_length, skipn_length, Hw. nia. }
      split.
      - rewrite map_length. exact Hlen.
      - rewrite (nth_indep _ 0 (countf dw)) by (rewrite map_length; lia).
        rewrite map_nth. f_equal.
        rewrite nth_firstn' by assumption. apply nth_skipn'.
    Qed.

    (* all three packaged, in the form asked for (with both hypotheses) *)
    Corollary records_spec_full n (ds de : label) (dw : wt) :
      length ends = length starts -> length weights = L * length starts ->
      n < length starts ->
      exists cs,
        nth_error R n = Some (nth n starts ds, nth n ends de, cs) /\
        cs = map countf (firstn L (skipn (n * L) weights)) /\
        length cs = L /\
        forall a, a < L -> nth a cs 0 = countf (nth (n * L + a) weights dw).
    Proof.
      intros He Hw Hn. eexists. split; [apply records_spec; assumption|].
      split; [reflexivity|]. split.
      - destruct L as [|L'] eqn:EL.
        + simpl. reflexivity.
        + rewrite <- EL in *. apply (records_weight_index n 0 dw); try assumption. lia.
      - intros a Ha. apply (records_weight_index n a dw); assumption.
    Qed.
  End Records.
End MainProofs.

Print Assumptions validate_accept_iff.
Print Assumptions shape_consistent_unique.
Print Assumptions validate_reject_iff.
Print Assumptions validate_reject_code.
Print Assumptions factorize_error_iff.
Print Assumptions factorize_ok_accept.
Print Assumptions factorize_accept_ok.
Print Assumptions run_rep_length.
Print Assumptions factorize_ok_shape.
Print Assumptions records_length.
Print Assumptions records_spec.
Print Assumptions records_weight_index.
Print Assumptions records_spec_full.
Print Assumptions reject4_weights_empty.
