(* InvProofs.v -- invariants of the code-shaped model over the real instance ArithR.
   GROUP S (C11, third sentence): in undirected mode the inferred affinity of every layer is symmetric,
     from the random symmetric start, after any number of sweeps.
   GROUP P (C03): all values stay non-negative; every division and every logarithm of the model sits
     under a guard that makes its argument > eps > 0. *)
From Coq Require Import Reals List Lra Lia Arith Bool Permutation.
Import ListNotations.
From MT Require Import Arith J MM SweepModel RInst SumLib UBlock WBlock Chain Spec InitModel.

(* ------------------------------------------------------------------------------------------ *)
(* Part A : list / matrix bookkeeping, for an arbitrary Arith instance                         *)
(* ------------------------------------------------------------------------------------------ *)

Lemma fold_left_inv {S T} (P : S -> Prop) (f : S -> T -> S) (l : list T) :
  (forall s x, In x l -> P s -> P (f s x)) -> forall s, P s -> P (fold_left f l s).
Proof.
  induction l as [|a l IH]; simpl; intros H s Hs; [exact Hs|].
  apply IH; [intros s' x Hx; apply H; right; exact Hx|]. apply H; [left; reflexivity|exact Hs].
Qed.

Lemma lset_length {T} (l : list T) k x : length (lset l k x) = length l.
Proof. revert k; induction l as [|y l IH]; intros [|k]; simpl; auto. Qed.

Lemma nth_lset {T} (l : list T) k x k' d :
  nth k' (lset l k x) d = if (k' =? k) && (k <? length l) then x else nth k' l d.
Proof.
  revert k k'. induction l as [|y l IH]; intros k k'.
  - destruct k; simpl; rewrite andb_false_r; reflexivity.
  - destruct k as [|k], k' as [|k']; simpl; try reflexivity.
    rewrite IH. reflexivity.
Qed.

Lemma nth_default_or {T} (P : T -> Prop) (l : list T) (d : T) n : Forall P l -> P d -> P (nth n l d).
Proof.
  intros Hl Hd. destruct (nth_in_or_default n l d) as [H|H]; [|rewrite H; exact Hd].
  rewrite Forall_forall in Hl. apply Hl. exact H.
Qed.

Lemma nth_repeat_lt {T} (a d : T) n i : i < n -> nth i (repeat a n) d = a.
Proof. revert i; induction n as [|n IH]; intros [|i] H; simpl; try lia; auto. apply IH; lia. Qed.

Lemma nth_repeat_or {T} (a d : T) n i : nth i (repeat a n) d = a \/ nth i (repeat a n) d = d.
Proof.
  destruct (lt_dec i n) as [H|H]; [left; apply nth_repeat_lt; exact H|right].
  apply nth_overflow. rewrite repeat_length. lia.
Qed.

Section MatGen.
  Variable num : Type.
  Variable A : Arith num.
  Notation mg := (mget num A).
  Notation Z0 := (zero A).

  Lemma mget_nil i k : mg [] i k = Z0.
  Proof. unfold mget. destruct i; destruct k; reflexivity. Qed.

  Lemma mget_mset M i k x i' k' :
    mg (mset num M i k x) i' k' =
      if (i' =? i) && (i <? length M) && ((k' =? k) && (k <? length (nth i M []))) then x else mg M i' k'.
  Proof.
    unfold mget, mset. rewrite nth_lset.
    destruct ((i' =? i) && (i <? length M)) eqn:E; simpl; [|reflexivity].
    apply andb_prop in E. destruct E as [E _]. apply Nat.eqb_eq in E. subst i'.
    rewrite nth_lset. reflexivity.
  Qed.

  (* a predicate true of the written value and of every old accessor value is true of every new one *)
  Lemma mget_mset_P (P : num -> Prop) M i k x :
    P x -> (forall i' k', P (mg M i' k')) -> forall i' k', P (mg (mset num M i k x) i' k').
  Proof. intros Hx HM i' k'. rewrite mget_mset. destruct (_ && _); auto. Qed.

  Definition shape (n m : nat) (M : matrix num) : Prop :=
    length M = n /\ forall i, i < n -> length (nth i M []) = m.

  Lemma shape_zeros n m : shape n m (zeros num A n m).
  Proof.
    unfold zeros. split; [apply repeat_length|]. intros i Hi.
    rewrite nth_repeat_lt by exact Hi. apply repeat_length.
  Qed.

  Lemma shape_mset n m M i k x : shape n m M -> shape n m (mset num M i k x).
  Proof.
    intros [HL HR]. unfold mset. split; [rewrite lset_length; exact HL|].
    intros i' Hi'. rewrite nth_lset. destruct (_ && _) eqn:E; [|apply HR; exact Hi'].
    rewrite lset_length. apply andb_prop in E. destruct E as [_ E]. apply Nat.ltb_lt in E.
    apply HR. lia.
  Qed.

  Lemma mget_mset_in n m M i k x i' k' : shape n m M -> i < n -> k < m ->
    mg (mset num M i k x) i' k' = if (i' =? i) && (k' =? k) then x else mg M i' k'.
  Proof.
    intros [HL HR] Hi Hk. rewrite mget_mset, HL, (HR i Hi).
    replace (i <? n) with true by (symmetry; apply Nat.ltb_lt; exact Hi).
    replace (k <? m) with true by (symmetry; apply Nat.ltb_lt; exact Hk).
    rewrite !andb_true_r. reflexivity.
  Qed.

  Lemma mget_zeros n m i k : mg (zeros num A n m) i k = Z0.
  Proof.
    unfold mget, zeros. destruct (nth_repeat_or (repeat Z0 m) [] n i) as [H|H]; rewrite H.
    - destruct (nth_repeat_or Z0 Z0 m k) as [H'|H']; exact H'.
    - destruct k; reflexivity.
  Qed.

  (* ---------------- S3 : the random symmetric start is symmetric, layer by layer ---------------- *)
  Definition msym (K : nat) (M : matrix num) : Prop := forall i j, i < K -> j < K -> mg M i j = mg M j i.

  Lemma msym_nil K : msym K [].
  Proof. intros i j _ _. rewrite !mget_nil. reflexivity. Qed.

  Lemma sym_step K M i j x : shape K K M -> msym K M -> i < K -> j < K ->
    msym K (mset num (mset num M i j x) j i x).
  Proof.
    intros Hs Hsym Hi Hj a b Ha Hb.
    assert (Hs1 : shape K K (mset num M i j x)) by (apply shape_mset; exact Hs).
    rewrite !(mget_mset_in K K _ j i x _ _ Hs1 Hj Hi).
    rewrite !(mget_mset_in K K _ i j x _ _ Hs Hi Hj).
    destruct (Nat.eqb_spec a j), (Nat.eqb_spec b i), (Nat.eqb_spec a i), (Nat.eqb_spec b j);
      subst; simpl; try reflexivity; try congruence; apply Hsym; assumption.
  Qed.

  Lemma init_sym_layer_inv K s :
    shape K K (fst (init_sym_layer num A K s)) /\ msym K (fst (init_sym_layer num A K s)).
  Proof.
    unfold init_sym_layer.
    apply (fold_left_inv (fun p : matrix num * list num => shape K K (fst p) /\ msym K (fst p))).
    - intros p i Hi Hp. apply in_seq in Hi.
      apply (fold_left_inv (fun p : matrix num * list num => shape K K (fst p) /\ msym K (fst p))); [|exact Hp].
      intros p' j Hj [Hs Hm]. apply in_seq in Hj. cbv zeta. cbn [fst]. split.
      + apply shape_mset, shape_mset. exact Hs.
      + apply sym_step; try assumption; lia.
    - cbn [fst]. split; [apply shape_zeros|]. intros i j _ _. rewrite !mget_zeros. reflexivity.
  Qed.

  Lemma init_sym_random_Forall K L s : Forall (msym K) (fst (init_sym_random num A K L s)).
  Proof.
    unfold init_sym_random.
    apply (fold_left_inv (fun p : list (matrix num) * list num => Forall (msym K) (fst p))).
    - intros p _ _ Hp. pose proof (init_sym_layer_inv K (snd p)) as [_ Hm].
      destruct (init_sym_layer num A K (snd p)) as [m s'] eqn:E. cbn [fst] in *.
      apply Forall_app. split; [exact Hp|]. constructor; [exact Hm|constructor].
    - constructor.
  Qed.

  (* S3, for ANY arithmetic instance; holds for every layer index a (beyond the last layer both sides
     read the default zero), in particular for a < L. *)
  Theorem init_sym_random_symmetric_gen K L s w s' :
    init_sym_random num A K L s = (w, s') ->
    forall i j a, i < K -> j < K -> tget num A w i j a = tget num A w j i a.
  Proof.
    intros E i j a Hi Hj. pose proof (init_sym_random_Forall K L s) as H. rewrite E in H. cbn [fst] in H.
    unfold tget. apply (nth_default_or (msym K) w [] a H (msym_nil K)); assumption.
  Qed.
End MatGen.

Theorem init_sym_random_symmetric K L s w s' :
  init_sym_random R ArithR K L s = (w, s') ->
  forall i j a, i < K -> j < K -> a < L -> tget R ArithR w i j a = tget R ArithR w j i a.
Proof. intros E i j a Hi Hj _. eapply init_sym_random_symmetric_gen; eassumption. Qed.

(* ------------------------------------------------------------------------------------------ *)
(* Part B : the real instance                                                                  *)
(* ------------------------------------------------------------------------------------------ *)
Local Open Scope R_scope.
Local Notation g := (mget R ArithR).
Definition nn (x : R) : Prop := 0 <= x.

(* P5 (i) : a passed guard makes the guarded quantity strictly positive *)
Lemma Rltb_eps_pos x : Rltb epsR x = true -> 0 < x.
Proof. intros H. apply Rltb_true in H. unfold epsR in H. lra. Qed.

Lemma fold_left_ext {S T} (f h : S -> T -> S) (l : list T) :
  (forall s x, In x l -> f s x = h s x) -> forall s, fold_left f l s = fold_left h l s.
Proof.
  induction l as [|a l IH]; simpl; intros H s; [reflexivity|].
  rewrite H by (left; reflexivity). apply IH. intros s' x Hx. apply H. right. exact Hx.
Qed.

Lemma fold_fold_guard_sum {T U} (la : list T) (lb : T -> list U) (c : T -> U -> bool) (f : T -> U -> R) init :
  fold_left (fun s a => fold_left (fun s0 j => if c a j then s0 + f a j else s0) (lb a) s) la init
  = init + sumR (fun a => sumR (fun j => if c a j then f a j else 0) (lb a)) la.
Proof.
  revert init. induction la as [|a la IH]; intros init; simpl; [lra|].
  rewrite IH, fold_guard_sum. lra.
Qed.

(* one guarded multiplicative update keeps non-negativity *)
Lemma guarded_step_nonneg (o Z X : R) : 0 <= o -> 0 <= X ->
  0 <= (if Rltb epsR Z then if Rltb epsR o then trunc R ArithR (o / Z * X) else o else o).
Proof.
  intros Ho HX. destruct (Rltb epsR Z) eqn:EZ; [|exact Ho]. destruct (Rltb epsR o); [|exact Ho].
  apply trunc_nonneg. apply Rltb_eps_pos in EZ. apply Rmult_le_pos; [|exact HX].
  unfold Rdiv. apply Rmult_le_pos; [exact Ho|]. left. apply Rinv_0_lt_compat. exact EZ.
Qed.

Lemma guarded_term_nonneg (M x : R) : 0 <= x -> 0 <= (if Rltb epsR M then x / M else 0).
Proof.
  intros Hx. destruct (Rltb epsR M) eqn:E; [|lra]. apply Rltb_eps_pos in E.
  unfold Rdiv. apply Rmult_le_pos; [exact Hx|]. left. apply Rinv_0_lt_compat. exact E.
Qed.

Lemma mget_mtab_nonneg n m f :
  (forall i k, (i < n)%nat -> (k < m)%nat -> 0 <= f i k) -> forall i k, 0 <= g (mtab R n m f) i k.
Proof.
  intros H i k. destruct (lt_dec i n) as [Hi|Hi]; [destruct (lt_dec k m) as [Hk|Hk]|].
  - rewrite mget_mtab by assumption. apply H; assumption.
  - rewrite mget_mtab_out by lia. lra.
  - rewrite mget_mtab_out by lia. lra.
Qed.

(* ---------------- closed forms without side conditions ---------------- *)
Section WClosed.
  Variables (N K : nat) (out : nat -> nat -> list nat) (ul vl : list nat) (u v : matrix R).
  Definition DuL (k : nat) : R := sumR (fun i => g u i k) ul.
  Definition DvL (q : nat) : R := sumR (fun i => g v i q) vl.

  (* general affinity entry.  P5: the divisor Du*Dv only under its guard; inside wnum (WBlock.wnum) every
     edge rate Mw only under `if Rltb epsR (Mw ...)`. *)
  Lemma new_w_gen_closed w k q a :
    new_w_gen R ArithR N K out ul vl u v w k q a =
      if Rltb epsR (DuL k * DvL q) then
        if Rltb epsR (w k q a) then trunc R ArithR (w k q a / (DuL k * DvL q) * wnum N K out u v w k q a)
        else w k q a
      else w k q a.
  Proof.
    unfold new_w_gen. cbv zeta. rewrite !acc_sum, !Rplus_0_l. fold (DuL k) (DvL q).
    assert (Hn : sumR (fun i => mul ArithR (g u i k)
                (fold_left (fun r j => let Zij := Zij_w R ArithR K u v w i j a in
                   if ltb ArithR (eps ArithR) Zij then add ArithR r (div ArithR (g v j q) Zij) else r) (out a i) (zero ArithR))) (vertices N)
             = wnum N K out u v w k q a).
    { unfold wnum, vertices. apply sumR_ext. intros i _. simpl. f_equal.
      rewrite (fold_guard_sum (out a i) (fun j => Rltb epsR (Zij_w R ArithR K u v w i j a)) (fun j => g v j q / Zij_w R ArithR K u v w i j a)).
      rewrite Rplus_0_l. apply sumR_ext. intros j _. rewrite Zij_w_R. reflexivity. }
    simpl in Hn |- *. rewrite Hn. reflexivity.
  Qed.

  (* assortative affinity entry *)
  Definition MwA (wd : nat -> nat -> R) (i j a : nat) : R := sumR (fun m => g u i m * g v j m * wd m a) (seq 0 K).
  Definition wnumA (wd : nat -> nat -> R) (k a : nat) : R :=
    sumR (fun i => g u i k * sumR (fun j => if Rltb epsR (MwA wd i j a) then g v j k / MwA wd i j a else 0) (out a i)) (seq 0 N).

  Lemma Zij_wd_R wd i j a : Zij_wd R ArithR K u v wd i j a = MwA wd i j a.
  Proof. unfold Zij_wd, MwA, ks. rewrite acc_sum. exact (Rplus_0_l _). Qed.

  Lemma new_w_ass_closed wd k a :
    new_w_ass R ArithR N K out ul vl u v wd k a =
      if Rltb epsR (DuL k * DvL k) then
        if Rltb epsR (wd k a) then trunc R ArithR (wd k a / (DuL k * DvL k) * wnumA wd k a)
        else wd k a
      else wd k a.
  Proof.
    unfold new_w_ass. cbv zeta. rewrite !acc_sum, !Rplus_0_l. fold (DuL k) (DvL k).
    assert (Hn : sumR (fun i => mul ArithR (g u i k)
                (fold_left (fun r j => let Zij := Zij_wd R ArithR K u v wd i j a in
                   if ltb ArithR (eps ArithR) Zij then add ArithR r (div ArithR (g v j k) Zij) else r) (out a i) (zero ArithR))) (vertices N)
             = wnumA wd k a).
    { unfold wnumA, vertices. apply sumR_ext. intros i _. simpl. f_equal.
      rewrite (fold_guard_sum (out a i) (fun j => Rltb epsR (Zij_wd R ArithR K u v wd i j a)) (fun j => g v j k / Zij_wd R ArithR K u v wd i j a)).
      rewrite Rplus_0_l. apply sumR_ext. intros j _. rewrite Zij_wd_R. reflexivity. }
    simpl in Hn |- *. rewrite Hn. reflexivity.
  Qed.

  (* P2 *)
  Hypothesis u_nonneg : forall i k, 0 <= g u i k.
  Hypothesis v_nonneg : forall j q, 0 <= g v j q.

  Lemma wnum_nonneg w k q a : 0 <= wnum N K out u v w k q a.
  Proof.
    unfold wnum. apply sumR_nonneg. intros i _. apply Rmult_le_pos; [apply u_nonneg|].
    apply sumR_nonneg. intros j _. apply guarded_term_nonneg. apply v_nonneg.
  Qed.
  Lemma wnumA_nonneg wd k a : 0 <= wnumA wd k a.
  Proof.
    unfold wnumA. apply sumR_nonneg. intros i _. apply Rmult_le_pos; [apply u_nonneg|].
    apply sumR_nonneg. intros j _. apply guarded_term_nonneg. apply v_nonneg.
  Qed.

  Theorem new_w_gen_nonneg_entry w k q a : 0 <= w k q a -> 0 <= new_w_gen R ArithR N K out ul vl u v w k q a.
  Proof. intros Hw. rewrite new_w_gen_closed. apply guarded_step_nonneg; [exact Hw|apply wnum_nonneg]. Qed.
  Theorem new_w_ass_nonneg_entry wd k a : 0 <= wd k a -> 0 <= new_w_ass R ArithR N K out ul vl u v wd k a.
  Proof. intros Hw. rewrite new_w_ass_closed. apply guarded_step_nonneg; [exact Hw|apply wnumA_nonneg]. Qed.
End WClosed.

(* P2, as asked *)
Theorem new_w_gen_nonneg N K out ul vl u v w :
  (forall i k, 0 <= g u i k) -> (forall j q, 0 <= g v j q) -> (forall k q a, 0 <= w k q a) ->
  forall k q a, 0 <= new_w_gen R ArithR N K out ul vl u v w k q a.
Proof. intros Hu Hv Hw k q a. apply new_w_gen_nonneg_entry; auto. Qed.
Theorem new_w_ass_nonneg N K out ul vl u v wd :
  (forall i k, 0 <= g u i k) -> (forall j q, 0 <= g v j q) -> (forall k a, 0 <= wd k a) ->
  forall k a, 0 <= new_w_ass R ArithR N K out ul vl u v wd k a.
Proof. intros Hu Hv Hw k a. apply new_w_ass_nonneg_entry; auto. Qed.

(* ---------------- membership update, assortative: closed form ---------------- *)
Section UAssFormula.
  Variables (N K L : nat) (adj : nat -> nat -> list nat) (numl denl : list nat) (fixed old : matrix R)
            (wd : nat -> nat -> R).
  Definition ZkA (k : nat) : R := sumR (fun a => wd k a) (seq 0 L) * sumR (fun i => g fixed i k) denl.
  Definition MijA (i j a : nat) : R := sumR (fun m => g old i m * g fixed j m * wd m a) (seq 0 K).
  Definition valA (i k : nat) : R :=
    sumR (fun a => sumR (fun j => if Rltb epsR (MijA i j a) then (g fixed j k * wd k a) / MijA i j a else 0) (adj a i)) (seq 0 L).

  Lemma Zk_ass_R k : Zk_ass R ArithR L denl fixed wd k = ZkA k.
  Proof. unfold Zk_ass, ZkA, layers. rewrite !acc_sum. simpl. lra. Qed.
  Lemma Zij_ass_R i j a : Zij_ass R ArithR K fixed old wd i j a = MijA i j a.
  Proof. unfold Zij_ass, MijA, ks. rewrite acc_sum. exact (Rplus_0_l _). Qed.
  Lemma val_ass_R i k : val_ass R ArithR K L adj fixed old wd i k = valA i k.
  Proof.
    unfold val_ass, valA, layers.
    etransitivity.
    { apply (fold_fold_guard_sum (seq 0 L) (fun a => adj a i)
               (fun a j => Rltb epsR (Zij_ass R ArithR K fixed old wd i j a))
               (fun a j => (0 + g fixed j k * wd k a) / Zij_ass R ArithR K fixed old wd i j a)). }
    simpl. rewrite Rplus_0_l. apply sumR_ext. intros a _. apply sumR_ext. intros j _.
    rewrite Zij_ass_R, Rplus_0_l. reflexivity.
  Qed.

  (* P5: divisor ZkA only under `Rltb epsR (ZkA k)`, each MijA (inside valA) only under `Rltb epsR (MijA ..)` *)
  Lemma upd_entry_ass i k : (i < N)%nat -> (k < K)%nat ->
    g (upd_vertices_ass R ArithR N K L adj numl denl fixed old wd) i k =
      if existsb (Nat.eqb i) numl then
        if Rltb epsR (ZkA k) then
          if Rltb epsR (g old i k) then trunc R ArithR (g old i k / ZkA k * valA i k) else g old i k
        else g old i k
      else g old i k.
  Proof.
    intros Hi Hk. unfold upd_vertices_ass. rewrite mget_mtab by assumption.
    rewrite Zk_ass_R, val_ass_R. reflexivity.
  Qed.

  Hypothesis old_nonneg : forall i k, 0 <= g old i k.
  Hypothesis fixed_nonneg : forall j q, 0 <= g fixed j q.
  Hypothesis wd_nonneg : forall k a, 0 <= wd k a.

  Lemma valA_nonneg i k : 0 <= valA i k.
  Proof.
    unfold valA. apply sumR_nonneg. intros a _. apply sumR_nonneg. intros j _.
    apply guarded_term_nonneg. apply Rmult_le_pos; auto.
  Qed.

  Lemma upd_ass_nonneg_all i k : 0 <= g (upd_vertices_ass R ArithR N K L adj numl denl fixed old wd) i k.
  Proof.
    destruct (lt_dec i N) as [Hi|Hi]; [destruct (lt_dec k K) as [Hk|Hk]|].
    - rewrite upd_entry_ass by assumption. destruct (existsb (Nat.eqb i) numl); [|apply old_nonneg].
      apply guarded_step_nonneg; [apply old_nonneg|apply valA_nonneg].
    - unfold upd_vertices_ass. rewrite mget_mtab_out by lia. lra.
    - unfold upd_vertices_ass. rewrite mget_mtab_out by lia. lra.
  Qed.
End UAssFormula.

(* P1.  Stated for ALL indices (out-of-range reads of the new matrix give the default zero), hence in
   particular for i < N, k < K. *)
Theorem upd_vertices_gen_nonneg N K L adj numl denl fixed old w :
  (forall i k, 0 <= g old i k) -> (forall j q, 0 <= g fixed j q) -> (forall k q a, 0 <= w k q a) ->
  forall i k, 0 <= g (upd_vertices_gen R ArithR N K L adj numl denl fixed old w) i k.
Proof. intros Ho Hf Hw i k. apply upd_nonneg; assumption. Qed.

Theorem upd_vertices_ass_nonneg N K L adj numl denl fixed old wd :
  (forall i k, 0 <= g old i k) -> (forall j q, 0 <= g fixed j q) -> (forall k a, 0 <= wd k a) ->
  forall i k, 0 <= g (upd_vertices_ass R ArithR N K L adj numl denl fixed old wd) i k.
Proof. intros Ho Hf Hw i k. apply upd_ass_nonneg_all; assumption. Qed.

(* ------------------------------------------------------------------------------------------ *)
(* GROUP S : symmetry of the affinity in undirected mode                                       *)
(* ------------------------------------------------------------------------------------------ *)
(* the edge rate with the same membership in both roles is symmetric in (i,j) when w is *)
Lemma Mw_sym K u w i j a :
  (forall k q, (k < K)%nat -> (q < K)%nat -> w k q a = w q k a) -> Mw K u u w i j a = Mw K u u w j i a.
Proof.
  intros Hw. unfold Mw. rewrite sumR_swap.
  apply sumR_ext. intros x Hx. apply sumR_ext. intros y Hy. apply in_seq in Hx. apply in_seq in Hy.
  rewrite (Hw y x) by lia. ring.
Qed.

(* the numerator of the affinity update as a sum over oriented edges *)
Lemma wnum_pairs N K G u v w k q a :
  wnum N K (gout G) u v w k q a =
    sumR (fun p => g u (fst p) k * (if Rltb epsR (Mw K u v w (fst p) (snd p) a)
                                     then g v (snd p) q / Mw K u v w (fst p) (snd p) a else 0))
         (Spec.pairs_out N G a).
Proof.
  unfold wnum, Spec.pairs_out. rewrite sumR_flat_map. apply sumR_ext. intros i _.
  rewrite sumR_map. cbn [fst snd]. rewrite <- sumR_scal. reflexivity.
Qed.

Lemma wnum_sym N K G u w k q a :
  (forall k q, (k < K)%nat -> (q < K)%nat -> w k q a = w q k a) ->
  Permutation (Spec.pairs_out N G a) (map (fun p => (snd p, fst p)) (Spec.pairs_out N G a)) ->
  wnum N K (gout G) u u w k q a = wnum N K (gout G) u u w q k a.
Proof.
  intros Hw Hp. rewrite !wnum_pairs. rewrite (sumR_perm _ _ _ Hp) at 1. rewrite sumR_map.
  apply sumR_ext. intros [i j] _. cbn [fst snd].
  rewrite (Mw_sym K u w j i a Hw). destruct (Rltb epsR (Mw K u u w i j a)); unfold Rdiv; ring.
Qed.

(* S1, strong form: symmetry of w is only needed on in-range indices of layer a; the neighbours-in-range
   hypothesis and k, q < K are not needed. *)
Theorem new_w_gen_symmetric_layer N K G ul u w a :
  (forall k q, (k < K)%nat -> (q < K)%nat -> w k q a = w q k a) ->
  Permutation (Spec.pairs_out N G a) (map (fun p => (snd p, fst p)) (Spec.pairs_out N G a)) ->
  forall k q, w k q a = w q k a ->
  new_w_gen R ArithR N K (gout G) ul ul u u w k q a = new_w_gen R ArithR N K (gout G) ul ul u u w q k a.
Proof.
  intros Hw Hp k q Hkq. rewrite !new_w_gen_closed.
  rewrite (wnum_sym N K G u w k q a Hw Hp), Hkq.
  replace (DuL ul u q * DvL ul u k) with (DuL ul u k * DvL ul u q) by (unfold DuL, DvL; ring).
  reflexivity.
Qed.

(* S1, as stated in the task *)
Theorem new_w_gen_symmetric N K L G ul u w :
  (forall k q a, w k q a = w q k a) ->
  (forall a, (a < L)%nat -> Permutation (Spec.pairs_out N G a) (map (fun p => (snd p, fst p)) (Spec.pairs_out N G a))) ->
  (forall a i j, (a < L)%nat -> (i < N)%nat -> In j (gout G a i) -> (j < N)%nat) ->
  forall k q a, (k < K)%nat -> (q < K)%nat -> (a < L)%nat ->
  new_w_gen R ArithR N K (gout G) ul ul u u w k q a = new_w_gen R ArithR N K (gout G) ul ul u u w q k a.
Proof.
  intros Hw Hp _ k q a _ _ Ha. apply new_w_gen_symmetric_layer; [intros; apply Hw|apply Hp; exact Ha|apply Hw].
Qed.

(* ---- S2 : one undirected sweep, and any number of them ---- *)
Lemma tget_upd_affinity_gen N K L out ul vl u v w k q a : (k < K)%nat -> (q < K)%nat -> (a < L)%nat ->
  tget R ArithR (upd_affinity_gen R ArithR N K L out ul vl u v w) k q a = new_w_gen R ArithR N K out ul vl u v w k q a.
Proof.
  intros Hk Hq Ha. unfold tget, upd_affinity_gen, layers.
  rewrite (nth_map_seq (fun a => mtab R K K (fun k q => new_w_gen R ArithR N K out ul vl u v w k q a)) [] L a Ha).
  apply (mget_mtab K K (fun k q => new_w_gen R ArithR N K out ul vl u v w k q a)); assumption.
Qed.

Definition wsym (K L : nat) (w : list (matrix R)) : Prop :=
  forall k q a, (k < K)%nat -> (q < K)%nat -> (a < L)%nat -> tget R ArithR w k q a = tget R ArithR w q k a.

Fixpoint iter {T} (n : nat) (f : T -> T) (x : T) : T :=
  match n with O => x | S n' => f (iter n' f x) end.

(* wfG is not needed; of wfG_undirected both fields are used *)
Theorem sweep_gen_undirected_symmetric N K L G u v w :
  wfG_undirected N L G -> wsym K L w ->
  wsym K L (snd (sweep_gen R ArithR N K L false G (u, v, w))).
Proof.
  intros [Hsym Hsh] Hw k q a Hk Hq Ha. unfold sweep_gen. cbv beta iota zeta. cbn [snd].
  rewrite Hsh. rewrite !tget_upd_affinity_gen by assumption.
  apply new_w_gen_symmetric_layer.
  - intros k' q' Hk' Hq'. apply Hw; assumption.
  - apply Hsym. exact Ha.
  - apply Hw; assumption.
Qed.

Corollary sweep_gen_undirected_symmetric_wf N K L G u v w :
  wfG N L G -> wfG_undirected N L G -> wsym K L w ->
  wsym K L (snd (sweep_gen R ArithR N K L false G (u, v, w))).
Proof. intros _. apply sweep_gen_undirected_symmetric. Qed.

Theorem sweeps_gen_undirected_symmetric N K L G n s :
  wfG_undirected N L G -> wsym K L (snd s) ->
  wsym K L (snd (iter n (sweep_gen R ArithR N K L false G) s)).
Proof.
  intros HG Hs. induction n as [|n IH]; [exact Hs|]. cbn [iter].
  destruct (iter n (sweep_gen R ArithR N K L false G) s) as [[u v] w].
  apply sweep_gen_undirected_symmetric; assumption.
Qed.

(* C11, third sentence: from the random symmetric start, after any number of undirected sweeps, the
   affinity matrix of every layer is symmetric *)
Theorem C11_affinity_symmetric_from_random_start N K L G strm w0 strm' u0 v0 n :
  wfG_undirected N L G ->
  init_sym_random R ArithR K L strm = (w0, strm') ->
  wsym K L (snd (iter n (sweep_gen R ArithR N K L false G) (u0, v0, w0))).
Proof.
  intros HG E. apply sweeps_gen_undirected_symmetric; [exact HG|]. cbn [snd].
  intros k q a Hk Hq Ha. apply (init_sym_random_symmetric K L strm w0 strm' E); assumption.
Qed.

(* ------------------------------------------------------------------------------------------ *)
(* GROUP P3 : a sweep keeps the whole state non-negative (accessor level, all indices)         *)
(* ------------------------------------------------------------------------------------------ *)
Definition nonneg_t (w : list (matrix R)) : Prop := forall k q a, 0 <= tget R ArithR w k q a.
Definition nonneg_d (w : list (list R)) : Prop := forall k a, 0 <= dget R ArithR w k a.
Definition nonneg_state_gen (s : matrix R * matrix R * list (matrix R)) : Prop :=
  nonneg_m (fst (fst s)) /\ nonneg_m (snd (fst s)) /\ nonneg_t (snd s).
Definition nonneg_state_ass (s : matrix R * matrix R * list (list R)) : Prop :=
  nonneg_m (fst (fst s)) /\ nonneg_m (snd (fst s)) /\ nonneg_d (snd s).

Lemma upd_affinity_gen_nonneg N K L out ul vl u v w :
  nonneg_m u -> nonneg_m v -> (forall k q a, 0 <= w k q a) ->
  nonneg_t (upd_affinity_gen R ArithR N K L out ul vl u v w).
Proof.
  intros Hu Hv Hw k q a. unfold tget, upd_affinity_gen, layers.
  destruct (lt_dec a L) as [Ha|Ha].
  - rewrite (nth_map_seq (fun a => mtab R K K (fun k q => new_w_gen R ArithR N K out ul vl u v w k q a)) [] L a Ha).
    apply mget_mtab_nonneg. intros k' q' _ _. apply new_w_gen_nonneg; assumption.
  - rewrite nth_overflow by (rewrite map_length, seq_length; lia). rewrite mget_nil. simpl. lra.
Qed.

Lemma upd_affinity_ass_nonneg N K L out ul vl u v wd :
  nonneg_m u -> nonneg_m v -> (forall k a, 0 <= wd k a) ->
  nonneg_d (upd_affinity_ass R ArithR N K L out ul vl u v wd).
Proof.
  intros Hu Hv Hw k a. unfold dget, upd_affinity_ass, layers, ks.
  destruct (lt_dec a L) as [Ha|Ha].
  - rewrite (nth_map_seq (fun a => map (fun k => new_w_ass R ArithR N K out ul vl u v wd k a) (seq 0 K)) [] L a Ha).
    destruct (lt_dec k K) as [Hk|Hk].
    + rewrite (nth_map_seq (fun k => new_w_ass R ArithR N K out ul vl u v wd k a) (zero ArithR) K k Hk).
      apply new_w_ass_nonneg; assumption.
    + rewrite nth_overflow by (rewrite map_length, seq_length; lia). simpl. lra.
  - rewrite (nth_overflow (map _ _)) by (rewrite map_length, seq_length; lia).
    destruct k; simpl; lra.
Qed.

Theorem sweep_gen_nonneg N K L d G s :
  nonneg_state_gen s -> nonneg_state_gen (sweep_gen R ArithR N K L d G s).
Proof.
  destruct s as [[u v] w]. unfold nonneg_state_gen. cbn [fst snd]. intros (Hu & Hv & Hw).
  unfold sweep_gen. destruct d; cbv beta iota zeta; cbn [fst snd].
  - assert (Hu1 : nonneg_m (upd_vertices_gen R ArithR N K L (gout G) (gul G) (gvl G) v u (tget R ArithR w))).
    { intros i k. apply upd_vertices_gen_nonneg; auto. }
    assert (Hv1 : nonneg_m (upd_vertices_gen R ArithR N K L (gin G) (gvl G) (gul G)
                     (upd_vertices_gen R ArithR N K L (gout G) (gul G) (gvl G) v u (tget R ArithR w)) v
                     (fun k l a => tget R ArithR w l k a))).
    { intros i k. apply upd_vertices_gen_nonneg; auto. }
    split; [exact Hu1|]. split; [exact Hv1|]. apply upd_affinity_gen_nonneg; auto.
  - assert (Hu1 : nonneg_m (upd_vertices_gen R ArithR N K L (gout G) (gul G) (gvl G) u u (tget R ArithR w))).
    { intros i k. apply upd_vertices_gen_nonneg; auto. }
    split; [exact Hu1|]. split; [exact Hv|]. apply upd_affinity_gen_nonneg; auto.
Qed.

Theorem sweep_ass_nonneg N K L d G s :
  nonneg_state_ass s -> nonneg_state_ass (sweep_ass R ArithR N K L d G s).
Proof.
  destruct s as [[u v] w]. unfold nonneg_state_ass. cbn [fst snd]. intros (Hu & Hv & Hw).
  unfold sweep_ass. destruct d; cbv beta iota zeta; cbn [fst snd].
  - assert (Hu1 : nonneg_m (upd_vertices_ass R ArithR N K L (gout G) (gul G) (gvl G) v u (dget R ArithR w))).
    { intros i k. apply upd_vertices_ass_nonneg; auto. }
    assert (Hv1 : nonneg_m (upd_vertices_ass R ArithR N K L (gin G) (gvl G) (gul G)
                     (upd_vertices_ass R ArithR N K L (gout G) (gul G) (gvl G) v u (dget R ArithR w)) v
                     (dget R ArithR w))).
    { intros i k. apply upd_vertices_ass_nonneg; auto. }
    split; [exact Hu1|]. split; [exact Hv1|]. apply upd_affinity_ass_nonneg; auto.
  - assert (Hu1 : nonneg_m (upd_vertices_ass R ArithR N K L (gout G) (gul G) (gvl G) u u (dget R ArithR w))).
    { intros i k. apply upd_vertices_ass_nonneg; auto. }
    split; [exact Hu1|]. split; [exact Hv|]. apply upd_affinity_ass_nonneg; auto.
Qed.

(* P3 : after any number of sweeps, both models, both directions *)
Theorem sweep_nonneg N K L d G n :
  (forall s, nonneg_state_gen s -> nonneg_state_gen (iter n (sweep_gen R ArithR N K L d G) s)) /\
  (forall s, nonneg_state_ass s -> nonneg_state_ass (iter n (sweep_ass R ArithR N K L d G) s)).
Proof.
  split; intros s Hs; (induction n as [|n IH]; [exact Hs|]); cbn [iter].
  - apply sweep_gen_nonneg. exact IH.
  - apply sweep_ass_nonneg. exact IH.
Qed.

(* ------------------------------------------------------------------------------------------ *)
(* GROUP P4 : every initialiser produces non-negative entries from a non-negative stream       *)
(* ------------------------------------------------------------------------------------------ *)
Lemma hd0_nn s : Forall nn s -> 0 <= hd0 R ArithR s.
Proof. intros H. destruct s as [|x s]; simpl; [lra|]. inversion H; subst. assumption. Qed.
Lemma tl_nn s : Forall nn s -> Forall nn (tl s).
Proof. intros H. destruct s as [|x s]; simpl; [constructor|]. inversion H; subst. assumption. Qed.
Lemma Forall_firstn' {T} (P : T -> Prop) n l : Forall P l -> Forall P (firstn n l).
Proof.
  revert l. induction n as [|n IH]; intros [|x l] H; simpl; try constructor; inversion H; subst; auto.
Qed.
Lemma Forall_skipn' {T} (P : T -> Prop) n l : Forall P l -> Forall P (skipn n l).
Proof.
  revert l. induction n as [|n IH]; intros [|x l] H; simpl; try assumption. inversion H; subst; auto.
Qed.
Lemma Forall_repeat' {T} (P : T -> Prop) x n : P x -> Forall P (repeat x n).
Proof. intros H. induction n; simpl; constructor; auto. Qed.

Definition mnn (M : matrix R) : Prop := forall i k, 0 <= g M i k.   (* = Spec.nonneg_m *)
Definition MS_inv (p : matrix R * list R) : Prop := mnn (fst p) /\ Forall nn (snd p).

Lemma mnn_nil : mnn [].
Proof. intros i k. rewrite mget_nil. simpl. lra. Qed.
Lemma mnn_mset M i k x : mnn M -> 0 <= x -> mnn (mset R M i k x).
Proof. intros HM Hx. exact (mget_mset_P R ArithR nn M i k x Hx HM). Qed.
Lemma mnn_zeros n m : mnn (zeros R ArithR n m).
Proof. intros i k. rewrite mget_zeros. simpl. lra. Qed.
Lemma tget_nn (w : list (matrix R)) : Forall mnn w -> nonneg_t w.
Proof. intros H k q a. unfold tget. apply (nth_default_or mnn w [] a H mnn_nil). Qed.
Lemma noisy_nn x d : 0 <= x -> 0 <= d -> 0 <= noisy R ArithR x d.
Proof. intros Hx Hd. unfold noisy. simpl. lra. Qed.

(* symmetric random start *)
Lemma init_sym_layer_nonneg K s : Forall nn s -> MS_inv (init_sym_layer R ArithR K s).
Proof.
  intros Hs. unfold init_sym_layer. apply (fold_left_inv MS_inv).
  - intros p i _ Hp. apply (fold_left_inv MS_inv); [|exact Hp].
    intros p' j _ [HM HS]. cbv zeta. split; cbn [fst snd].
    + apply mnn_mset; [apply mnn_mset|]; auto using hd0_nn.
    + apply tl_nn. exact HS.
  - split; cbn [fst snd]; [apply mnn_zeros|exact Hs].
Qed.

Theorem init_sym_random_nonneg K L s : Forall nn s ->
  nonneg_t (fst (init_sym_random R ArithR K L s)) /\ Forall nn (snd (init_sym_random R ArithR K L s)).
Proof.
  intros Hs.
  assert (H : Forall mnn (fst (init_sym_random R ArithR K L s)) /\ Forall nn (snd (init_sym_random R ArithR K L s))).
  { unfold init_sym_random.
    apply (fold_left_inv (fun p : list (matrix R) * list R => Forall mnn (fst p) /\ Forall nn (snd p))).
    - intros p _ _ [Hp1 Hp2]. pose proof (init_sym_layer_nonneg K (snd p) Hp2) as [Hm Hs'].
      destruct (init_sym_layer R ArithR K (snd p)) as [m s'']. cbn [fst snd] in *. split; [|exact Hs'].
      apply Forall_app. split; [exact Hp1|]. constructor; [exact Hm|constructor].
    - split; [constructor|exact Hs]. }
  destruct H as [H1 H2]. split; [apply tget_nn; exact H1|exact H2].
Qed.

(* diagonal random start *)
Theorem init_diag_random_nonneg K L s : Forall nn s ->
  nonneg_d (fst (init_diag_random R ArithR K L s)) /\ Forall nn (snd (init_diag_random R ArithR K L s)).
Proof.
  intros Hs.
  assert (H : Forall (Forall nn) (fst (init_diag_random R ArithR K L s)) /\ Forall nn (snd (init_diag_random R ArithR K L s))).
  { unfold init_diag_random.
    apply (fold_left_inv (fun p : list (list R) * list R => Forall (Forall nn) (fst p) /\ Forall nn (snd p))).
    - intros p _ _ [Hp1 Hp2]. cbn [fst snd]. split; [|apply Forall_skipn'; exact Hp2].
      apply Forall_app. split; [exact Hp1|]. constructor; [|constructor].
      apply Forall_firstn'. apply Forall_app. split; [exact Hp2|]. apply Forall_repeat'. unfold nn. simpl. lra.
    - split; [constructor|exact Hs]. }
  destruct H as [H1 H2]. split; [|exact H2]. intros k a. unfold dget.
  apply (nth_default_or nn); [|unfold nn; simpl; lra].
  apply (nth_default_or (Forall nn)); [exact H1|constructor].
Qed.

(* membership start: init_rows *)
Lemma init_rows_inv K elements M s : mnn M -> Forall nn s -> MS_inv (init_rows R ArithR K elements M s).
Proof.
  intros HM Hs. unfold init_rows. apply (fold_left_inv MS_inv).
  - intros p k _ Hp. apply (fold_left_inv MS_inv); [|exact Hp].
    intros p' j _ [HM' HS']. split; cbn [fst snd].
    + apply mnn_mset; auto using hd0_nn.
    + apply tl_nn. exact HS'.
  - split; cbn [fst snd]; assumption.
Qed.

Theorem init_rows_nonneg N K elements s : Forall nn s ->
  nonneg_m (fst (init_rows R ArithR K elements (zeros R ArithR N K) s)) /\
  Forall nn (snd (init_rows R ArithR K elements (zeros R ArithR N K) s)).
Proof. intros Hs. apply (init_rows_inv K elements _ s (mnn_zeros N K) Hs). Qed.

(* restart from a cached tensor plus noise, general *)
Lemma from_gen_layer_inv K M s : mnn M -> Forall nn s ->
  MS_inv (fold_left (fun (p : matrix R * list R) k =>
            fold_left (fun (p : matrix R * list R) q =>
                         (mset R (fst p) k q (noisy R ArithR (g (fst p) k q) (hd0 R ArithR (snd p))), tl (snd p)))
                      (seq 0 K) p) (seq 0 K) (M, s)).
Proof.
  intros HM Hs. apply (fold_left_inv MS_inv).
  - intros p k _ Hp. apply (fold_left_inv MS_inv); [|exact Hp].
    intros p' q _ [HM' HS']. split; cbn [fst snd].
    + apply mnn_mset; [exact HM'|]. apply noisy_nn; [apply HM'|apply hd0_nn; exact HS'].
    + apply tl_nn. exact HS'.
  - split; cbn [fst snd]; assumption.
Qed.

Theorem init_from_gen_nonneg K L cache s : nonneg_t cache -> Forall nn s ->
  nonneg_t (fst (init_from_gen R ArithR K L cache s)) /\ Forall nn (snd (init_from_gen R ArithR K L cache s)).
Proof.
  intros Hc Hs.
  assert (H : Forall mnn (fst (init_from_gen R ArithR K L cache s)) /\ Forall nn (snd (init_from_gen R ArithR K L cache s))).
  { unfold init_from_gen.
    apply (fold_left_inv (fun p : list (matrix R) * list R => Forall mnn (fst p) /\ Forall nn (snd p))).
    - intros p a _ [Hp1 Hp2].
      assert (Hca : mnn (nth a cache [])) by (intros i k; apply (Hc i k a)).
      pose proof (from_gen_layer_inv K (nth a cache []) (snd p) Hca Hp2) as Hl.
      match goal with |- context [match ?X with pair _ _ => _ end] => set (r := X) in * end.
      assert (Hl' : MS_inv r) by exact Hl. clear Hl. clearbody r. destruct r as [m s'']. destruct Hl' as [Hm Hs''].
      cbn [fst snd] in *. split; [|exact Hs''].
      apply Forall_app. split; [exact Hp1|]. constructor; [exact Hm|constructor].
    - split; [constructor|exact Hs]. }
  destruct H as [H1 H2]. split; [apply tget_nn; exact H1|exact H2].
Qed.

(* restart from a cached tensor plus noise, assortative *)
Definition LS_inv (p : list R * list R) : Prop := (forall k, 0 <= nth k (fst p) 0) /\ Forall nn (snd p).

Lemma from_ass_layer_inv K row s : (forall k, 0 <= nth k row 0) -> Forall nn s ->
  LS_inv (fold_left (fun (p : list R * list R) k =>
            (lset (fst p) k (noisy R ArithR (nth k (fst p) 0) (hd0 R ArithR (snd p))), tl (snd p)))
          (seq 0 K) (row, s)).
Proof.
  intros Hr Hs. apply (fold_left_inv LS_inv).
  - intros p k _ [Hp1 Hp2]. split; cbn [fst snd]; [|apply tl_nn; exact Hp2].
    intros k'. rewrite nth_lset. destruct (_ && _); [|apply Hp1].
    apply noisy_nn; [apply Hp1|apply hd0_nn; exact Hp2].
  - split; cbn [fst snd]; assumption.
Qed.

Theorem init_from_ass_nonneg K L cache s : nonneg_d cache -> Forall nn s ->
  nonneg_d (fst (init_from_ass R ArithR K L cache s)) /\ Forall nn (snd (init_from_ass R ArithR K L cache s)).
Proof.
  intros Hc Hs.
  assert (H : Forall (fun row => forall k, 0 <= nth k row 0) (fst (init_from_ass R ArithR K L cache s))
              /\ Forall nn (snd (init_from_ass R ArithR K L cache s))).
  { unfold init_from_ass.
    apply (fold_left_inv (fun p : list (list R) * list R =>
             Forall (fun row => forall k, 0 <= nth k row 0) (fst p) /\ Forall nn (snd p))).
    - intros p a _ [Hp1 Hp2].
      assert (Hca : forall k, 0 <= nth k (nth a cache []) 0) by (intros k; apply (Hc k a)).
      pose proof (from_ass_layer_inv K (nth a cache []) (snd p) Hca Hp2) as Hl.
      match goal with |- context [match ?X with pair _ _ => _ end] => set (r := X) in * end.
      assert (Hl' : LS_inv r) by exact Hl. clear Hl. clearbody r. destruct r as [m s'']. destruct Hl' as [Hm Hs''].
      cbn [fst snd] in *. split; [|exact Hs''].
      apply Forall_app. split; [exact Hp1|]. constructor; [exact Hm|constructor].
    - split; [constructor|exact Hs]. }
  destruct H as [H1 H2]. split; [|exact H2]. intros k a. unfold dget.
  apply (nth_default_or (fun row => forall k, 0 <= nth k row (zero ArithR)) _ [] a H1).
  intros k'. destruct k'; simpl; lra.
Qed.

(* P4, collected *)
Theorem init_nonneg N K L elements cache_g cache_a s : Forall nn s ->
  nonneg_t (fst (init_sym_random R ArithR K L s)) /\
  nonneg_d (fst (init_diag_random R ArithR K L s)) /\
  nonneg_m (fst (init_rows R ArithR K elements (zeros R ArithR N K) s)) /\
  (nonneg_t cache_g -> nonneg_t (fst (init_from_gen R ArithR K L cache_g s))) /\
  (nonneg_d cache_a -> nonneg_d (fst (init_from_ass R ArithR K L cache_a s))).
Proof.
  intros Hs. repeat split.
  - apply init_sym_random_nonneg; exact Hs.
  - apply init_diag_random_nonneg; exact Hs.
  - apply (init_rows_nonneg N K elements s Hs).
  - intros Hc. apply init_from_gen_nonneg; assumption.
  - intros Hc. apply init_from_ass_nonneg; assumption.
Qed.

(* ------------------------------------------------------------------------------------------ *)
(* GROUP P5 : every division / logarithm is guarded                                            *)
(* ------------------------------------------------------------------------------------------ *)
(* (i)  Rltb_eps_pos (above): a passed guard `Rltb epsR x = true` gives 0 < x.
   (ii) closed forms exhibiting the guards:
        RInst.upd_entry / upd_entry_ass  : divisor Zk under `Rltb epsR Zk`, each Mij (in valR / valA) under `Rltb epsR Mij`;
        new_w_gen_closed / new_w_ass_closed : divisor Du*Dv under its guard, each Mw (in wnum / wnumA) under its guard;
        lik_gen_closed below : the logarithm under `Rltb epsR la`.
   (iii) guard_independent_* : the results do not depend on what division and logarithm return on
        arguments <= eps -- the formal content of "never evaluated outside the guard". *)

Lemma fold_pair_sum {T} (has : bool) (t : T -> R) (l : list T) (p : R * R) :
  fold_left (fun (p : R * R) x => (fst p - t x, if has then snd p + t x else snd p)) l p
  = (fst p - sumR t l, if has then snd p + sumR t l else snd p).
Proof.
  revert p. induction l as [|x l IH]; intros [a b]; simpl.
  - f_equal; [lra|destruct has; lra].
  - rewrite IH. simpl. f_equal; [lra|destruct has; lra].
Qed.

Lemma lik_inner_R K (u v : matrix R) (w : nat -> nat -> nat -> R) i j a (has : bool) (l : R) :
  fold_left (fun (p : R * R) k =>
     fold_left (fun (p : R * R) q =>
        (fst p - g u i k * g v j q * w k q a,
         if has then snd p + g u i k * g v j q * w k q a else snd p)) (seq 0 K) p) (seq 0 K) (l, 0)
  = (l - Mw K u v w i j a, if has then Mw K u v w i j a else 0).
Proof.
  assert (H : forall lk (p : R * R),
    fold_left (fun (p : R * R) k =>
     fold_left (fun (p : R * R) q =>
        (fst p - g u i k * g v j q * w k q a,
         if has then snd p + g u i k * g v j q * w k q a else snd p)) (seq 0 K) p) lk p
    = (fst p - sumR (fun k => sumR (fun q => g u i k * g v j q * w k q a) (seq 0 K)) lk,
       if has then snd p + sumR (fun k => sumR (fun q => g u i k * g v j q * w k q a) (seq 0 K)) lk else snd p)).
  { induction lk as [|k lk IH]; intros [x y]; simpl.
    - f_equal; [lra|destruct has; lra].
    - cbv zeta. rewrite (fold_pair_sum has (fun q => g u i k * g v j q * w k q a) (seq 0 K) (x, y)).
      rewrite IH. simpl. f_equal; [lra|destruct has; lra]. }
  rewrite H. unfold Mw. simpl. f_equal; destruct has; lra.
Qed.

(* one (layer, i, j) step of the likelihood accumulation: the log is taken only when la > eps *)
Definition lik_step (K : nat) (out : nat -> nat -> list nat) (u v : matrix R) (w : nat -> nat -> nat -> R)
           (a i j : nat) (l : R) : R :=
  let M := Mw K u v w i j a in
  let la := if existsb (Nat.eqb j) (out a i) then M else 0 in
  if Rltb epsR la then l - M + INR (count j (out a i)) * Rpower.ln la else l - M.

Lemma lik_gen_closed N K L out u v w :
  lik_gen R ArithR N K L out u v w =
    fold_left (fun l a => fold_left (fun l i => fold_left (fun l j => lik_step K out u v w a i j l)
      (seq 0 N) l) (seq 0 N) l) (seq 0 L) 0.
Proof.
  unfold lik_gen, layers, vertices, ks.
  apply fold_left_ext. intros l a _. apply fold_left_ext. intros l' i _. apply fold_left_ext. intros l'' j _.
  cbn [add sub mul ltb eps ln of_count zero ArithR].
  rewrite (lik_inner_R K u v w i j a (existsb (Nat.eqb j) (out a i)) l'').
  unfold lik_step. cbv zeta. reflexivity.
Qed.

Lemma lik_step_log_guarded K out u v w a i j :
  let la := if existsb (Nat.eqb j) (out a i) then Mw K u v w i j a else 0 in
  Rltb epsR la = true -> 0 < la.
Proof. cbv zeta. apply Rltb_eps_pos. Qed.

(* (iii) guard independence.  ArithR' dv lg is ArithR with division and logarithm replaced.  If two such
   instances agree on divisors > eps and on logarithm arguments > eps, every function of the model returns
   the same result: no division and no logarithm is ever evaluated outside its guard. *)
Definition ArithR' (dv : R -> R -> R) (lg : R -> R) : Arith R :=
  {| zero := 0; add := Rplus; sub := Rminus; mul := Rmult; div := dv; absn := Rabs; ltb := Rltb;
     eps := epsR; eps_lik := 1 / 10000; noise := 1 / 10; lowest := lowestR;
     ln := lg; of_count := INR |}.
Lemma ArithR_as_ArithR' : ArithR = ArithR' Rdiv Rpower.ln.
Proof. reflexivity. Qed.

Lemma if3_ext (b1 b2 : bool) (x y o : R) :
  (b1 = true -> b2 = true -> x = y) ->
  (if b1 then if b2 then x else o else o) = (if b1 then if b2 then y else o else o).
Proof. destruct b1, b2; auto. Qed.
Lemma trunc_ext' (x y : R) : x = y -> (if Rltb (Rabs x) epsR then 0 else x) = (if Rltb (Rabs y) epsR then 0 else y).
Proof. intros ->. reflexivity. Qed.

Section GuardIndependence.
  Variables (dv1 dv2 : R -> R -> R) (lg1 lg2 : R -> R).
  Hypothesis Hd : forall x y, epsR < y -> dv1 x y = dv2 x y.
  Hypothesis Hl : forall x, epsR < x -> lg1 x = lg2 x.
  Notation A1 := (ArithR' dv1 lg1).
  Notation A2 := (ArithR' dv2 lg2).

  Ltac expose := cbv zeta; cbn [zero add sub mul div absn ltb eps ln of_count ArithR'].
  Ltac gcase E := match goal with |- (if ?b then _ else _) = _ => destruct b eqn:E; [|reflexivity] end.

  Lemma upd_vertices_gen_indep N K L adj numl denl fixed old w :
    upd_vertices_gen R A1 N K L adj numl denl fixed old w = upd_vertices_gen R A2 N K L adj numl denl fixed old w.
  Proof.
    unfold upd_vertices_gen, mtab. apply map_ext. intros i. apply map_ext. intros k.
    unfold Zk_gen, val_gen, Zij_gen, acc, trunc, mget, ks, layers. expose.
    destruct (existsb (Nat.eqb i) numl); [|reflexivity].
    apply if3_ext. intros EZ _. apply trunc_ext'. apply Rltb_true in EZ. rewrite (Hd _ _ EZ). f_equal.
    apply fold_left_ext. intros s a _. apply fold_left_ext. intros s' j _.
    gcase E. apply Rltb_true in E. rewrite (Hd _ _ E). reflexivity.
  Qed.

  Lemma upd_vertices_ass_indep N K L adj numl denl fixed old wd :
    upd_vertices_ass R A1 N K L adj numl denl fixed old wd = upd_vertices_ass R A2 N K L adj numl denl fixed old wd.
  Proof.
    unfold upd_vertices_ass, mtab. apply map_ext. intros i. apply map_ext. intros k.
    unfold Zk_ass, val_ass, Zij_ass, acc, trunc, mget, ks, layers. expose.
    destruct (existsb (Nat.eqb i) numl); [|reflexivity].
    apply if3_ext. intros EZ _. apply trunc_ext'. apply Rltb_true in EZ. rewrite (Hd _ _ EZ). f_equal.
    apply fold_left_ext. intros s a _. apply fold_left_ext. intros s' j _.
    gcase E. apply Rltb_true in E. rewrite (Hd _ _ E). reflexivity.
  Qed.

  Lemma new_w_gen_indep N K out ul vl u v w k q a :
    new_w_gen R A1 N K out ul vl u v w k q a = new_w_gen R A2 N K out ul vl u v w k q a.
  Proof.
    unfold new_w_gen, Zij_w, acc, trunc, mget, ks, vertices. expose.
    apply if3_ext. intros EZ _. apply trunc_ext'. apply Rltb_true in EZ. rewrite (Hd _ _ EZ). f_equal.
    apply fold_left_ext. intros s i _. f_equal. f_equal.
    apply fold_left_ext. intros r j _.
    gcase E. apply Rltb_true in E. rewrite (Hd _ _ E). reflexivity.
  Qed.

  Lemma new_w_ass_indep N K out ul vl u v wd k a :
    new_w_ass R A1 N K out ul vl u v wd k a = new_w_ass R A2 N K out ul vl u v wd k a.
  Proof.
    unfold new_w_ass, Zij_wd, acc, trunc, mget, ks, vertices. expose.
    apply if3_ext. intros EZ _. apply trunc_ext'. apply Rltb_true in EZ. rewrite (Hd _ _ EZ). f_equal.
    apply fold_left_ext. intros s i _. f_equal. f_equal.
    apply fold_left_ext. intros r j _.
    gcase E. apply Rltb_true in E. rewrite (Hd _ _ E). reflexivity.
  Qed.

  Lemma upd_affinity_gen_indep N K L out ul vl u v w :
    upd_affinity_gen R A1 N K L out ul vl u v w = upd_affinity_gen R A2 N K L out ul vl u v w.
  Proof.
    unfold upd_affinity_gen, mtab. apply map_ext. intros a. apply map_ext. intros k. apply map_ext. intros q.
    apply new_w_gen_indep.
  Qed.
  Lemma upd_affinity_ass_indep N K L out ul vl u v wd :
    upd_affinity_ass R A1 N K L out ul vl u v wd = upd_affinity_ass R A2 N K L out ul vl u v wd.
  Proof.
    unfold upd_affinity_ass. apply map_ext. intros a. apply map_ext. intros k. apply new_w_ass_indep.
  Qed.

  Theorem sweep_gen_indep N K L d G s : sweep_gen R A1 N K L d G s = sweep_gen R A2 N K L d G s.
  Proof.
    destruct s as [[u v] w]. unfold sweep_gen. cbv zeta.
    change (tget R A1) with (tget R A2).
    destruct d; rewrite ?upd_vertices_gen_indep, ?upd_affinity_gen_indep; reflexivity.
  Qed.
  Theorem sweep_ass_indep N K L d G s : sweep_ass R A1 N K L d G s = sweep_ass R A2 N K L d G s.
  Proof.
    destruct s as [[u v] w]. unfold sweep_ass. cbv zeta.
    change (dget R A1) with (dget R A2).
    destruct d; rewrite ?upd_vertices_ass_indep, ?upd_affinity_ass_indep; reflexivity.
  Qed.

  Theorem lik_gen_indep N K L out u v w : lik_gen R A1 N K L out u v w = lik_gen R A2 N K L out u v w.
  Proof.
    unfold lik_gen, mget, ks, vertices, layers.
    apply fold_left_ext. intros l a _. apply fold_left_ext. intros l' i _. apply fold_left_ext. intros l'' j _.
    expose.
    match goal with |- (let '(_, _) := ?X in _) = _ => destruct X as [l1 la] end.
    gcase E. apply Rltb_true in E. rewrite (Hl _ E). reflexivity.
  Qed.
  Theorem lik_ass_indep N K L out u v wd : lik_ass R A1 N K L out u v wd = lik_ass R A2 N K L out u v wd.
  Proof.
    unfold lik_ass, mget, ks, vertices, layers.
    apply fold_left_ext. intros l a _. apply fold_left_ext. intros l' i _. apply fold_left_ext. intros l'' j _.
    expose.
    match goal with |- (let '(_, _) := ?X in _) = _ => destruct X as [l1 la] end.
    gcase E. apply Rltb_true in E. rewrite (Hl _ E). reflexivity.
  Qed.
End GuardIndependence.

(* P5, collected: with ANY division dv and logarithm lg that agree with / and ln above eps, the sweeps and
   the likelihood of the real model are unchanged. *)
Theorem guards_positive (dv : R -> R -> R) (lg : R -> R) :
  (forall x y, epsR < y -> dv x y = x / y) -> (forall x, epsR < x -> lg x = Rpower.ln x) ->
  (forall x, Rltb epsR x = true -> 0 < x) /\
  (forall N K L d G s, sweep_gen R (ArithR' dv lg) N K L d G s = sweep_gen R ArithR N K L d G s) /\
  (forall N K L d G s, sweep_ass R (ArithR' dv lg) N K L d G s = sweep_ass R ArithR N K L d G s) /\
  (forall N K L out u v w, lik_gen R (ArithR' dv lg) N K L out u v w = lik_gen R ArithR N K L out u v w) /\
  (forall N K L out u v wd, lik_ass R (ArithR' dv lg) N K L out u v wd = lik_ass R ArithR N K L out u v wd).
Proof.
  intros Hd Hl. rewrite ArithR_as_ArithR'. split; [exact Rltb_eps_pos|]. split; [|split; [|split]]; intros.
  - apply sweep_gen_indep; assumption.
  - apply sweep_ass_indep; assumption.
  - apply lik_gen_indep; assumption.
  - apply lik_ass_indep; assumption.
Qed.

(* ------------------------------------------------------------------------------------------ *)
Print Assumptions new_w_gen_symmetric.
Print Assumptions sweep_gen_undirected_symmetric.
Print Assumptions sweeps_gen_undirected_symmetric.
Print Assumptions init_sym_random_symmetric_gen.
Print Assumptions init_sym_random_symmetric.
Print Assumptions C11_affinity_symmetric_from_random_start.
Print Assumptions upd_vertices_gen_nonneg.
Print Assumptions upd_vertices_ass_nonneg.
Print Assumptions new_w_gen_nonneg.
Print Assumptions new_w_ass_nonneg.
Print Assumptions sweep_gen_nonneg.
Print Assumptions sweep_ass_nonneg.
Print Assumptions sweep_nonneg.
Print Assumptions init_nonneg.
Print Assumptions lik_gen_closed.
Print Assumptions guards_positive.
