(* Properties_C12.v -- C12: vertex labels are opaque.
   Any two label types with a decidable equality reflecting =; any injective relabelling; all variants; no bound on sizes.
   Only statements; every proof is `exact <lemma>` (proofs live in the files imported below). *)
From Coq Require Import Arith List Bool.
Import ListNotations.
From MT Require Import Arith SweepModel GraphModel InitModel CtrlModel MainModel GraphRelabel RunProofs MainProofs FactorizeProofs.

(* replacing the labels by any injective relabelling (same record order), possibly into ANOTHER label type, *)
(* yields the same error / the same numeric results (u, v, affinity, report) with rows carrying the new labels *)
Theorem C12_relabel : forall (label1 label2 : Type) (leqb1 : label1 -> label1 -> bool)
         (leqb2 : label2 -> label2 -> bool),
       (forall a b : label1, leqb1 a b = true <-> a = b) ->
       (forall a b : label2, leqb2 a b = true <-> a = b) ->
       forall (f : label1 -> label2) (wt : Type) (countf : wt -> nat) (num : Type) 
         (A : Arith num) (ovr : nat -> nat -> num -> num) (directed assort from_init : bool)
         (starts ends : list label1) (weights : list wt) (r maxit nconv u_rows u_cols : nat)
         (u0 v0 : matrix num) (aff0 stream : list num),
       inj_on label1 label2 f (starts ++ ends) ->
       factorize num A label2 leqb2 wt countf ovr directed assort from_init 
         (List.map f starts) (List.map f ends) weights r maxit nconv u_rows u_cols u0 v0 aff0 stream =
       match
         factorize num A label1 leqb1 wt countf ovr directed assort from_init starts ends weights r
           maxit nconv u_rows u_cols u0 v0 aff0 stream
       with
       | Error _ _ c => Error num label2 c
       | Ok _ _ res =>
           Ok num label2
             {|
               r_labels := List.map f (r_labels num label1 res);
               r_u := r_u num label1 res;
               r_v := r_v num label1 res;
               r_aff := r_aff num label1 res;
               r_rep := r_rep num label1 res
             |}
       end.
Proof. exact factorize_relabel. Qed.
Print Assumptions C12_relabel.

(* the network itself: same vertex indices, same adjacency lists in the same order, same edge count; *)
(* only the label table is mapped -- label values, gaps, magnitude or ordering have no effect *)
Theorem C12_network : forall (label1 label2 : Type) (leqb1 : label1 -> label1 -> bool)
         (leqb2 : label2 -> label2 -> bool),
       (forall a b : label1, leqb1 a b = true <-> a = b) ->
       (forall a b : label2, leqb2 a b = true <-> a = b) ->
       forall (f : label1 -> label2) (directed : bool) (L : nat)
         (recs : list (label1 * label1 * list nat)),
       (forall x y : label1, occurs label1 x recs -> occurs label1 y recs -> f x = f y -> x = y) ->
       build label2 leqb2 directed L (List.map (map_rec label1 label2 f) recs) =
       {|
         tbl := List.map f (tbl label1 (build label1 leqb1 directed L recs));
         lays := lays label1 (build label1 leqb1 directed L recs);
         nedges := nedges label1 (build label1 leqb1 directed L recs)
       |}.
Proof. exact build_relabel. Qed.
Print Assumptions C12_network.

(* the argument checks (in particular the number of distinct vertices) are invariant too *)
Theorem C12_validation : forall (label1 label2 : Type) (leqb1 : label1 -> label1 -> bool)
         (leqb2 : label2 -> label2 -> bool),
       (forall a b : label1, leqb1 a b = true <-> a = b) ->
       (forall a b : label2, leqb2 a b = true <-> a = b) ->
       forall (f : label1 -> label2) (wt : Type) (assort : bool) (starts ends : list label1)
         (weights : list wt) (aff_size u_rows u_cols r maxit nconv : nat),
       inj_on label1 label2 f (starts ++ ends) ->
       validate label2 leqb2 wt assort (List.map f starts) (List.map f ends) weights aff_size u_rows
         u_cols r maxit nconv =
       validate label1 leqb1 wt assort starts ends weights aff_size u_rows u_cols r maxit nconv.
Proof. exact validate_relabel. Qed.
Print Assumptions C12_validation.

(* non-vacuity: an order-reversing, sparse relabelling into strings is injective on the labels used *)
Example C12_ex : build nat Nat.eqb true 1 [(5, 2, [1]); (2, 9, [2])] =
  {| tbl := [5; 2; 9]; lays := lays nat (build nat Nat.eqb true 1 [(0, 1, [1]); (1, 2, [2])]); nedges := 3 |}.
Proof. vm_compute. reflexivity. Qed.
