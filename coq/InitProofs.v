(* InitProofs.v -- draw-by-draw specification of the initialisers of InitModel.v and of
   CtrlModel.start_of: which draw of the stream lands in which entry, and how many draws are
   consumed.  No axioms. *)
From Coq Require Import List Arith Bool Lia ZifyNat.
Import ListNotations.
From MT Require Import Arith SweepModel InitModel CtrlModel.

Section InitProofs.
  Variable num : Type.
  Variable A : Arith num.
  Notation Z0 := (zero A).
  Notation mget := (mget num A).
  Notation tget := (tget num A).
  Notation dget := (dget num A).
  Notation hd0 := (hd0 num A).
  Notation mset := (mset num).
  Notation zeros := (zeros num A).
  Notation noisy := (noisy num A).
  Notation init_rows := (init_rows num A).
  Notation init_sym_layer := (init_sym_layer num A).
  Notation init_sym_random := (init_sym_random num A).
  Notation init_diag_random := (init_diag_random num A).
  Notation init_from_gen := (init_from_gen num A).
  Notation init_from_ass := (init_from_ass num A).

  (* draw number p of the stream s (zero beyond the end) *)
  Definition dr (s : list num) (p : nat) : num := nth p s Z0.

  (* ------------------------------------------------------------------ *)
  (* streams                                                              *)
  Lemma hd0_dr s : hd0 s = dr s 0.
  Proof. destruct s; reflexivity. Qed.

  Lemma dr_tl s p : dr (tl s) p = dr s (S p).
  Proof. destruct s; simpl; [destruct p|]; reflexivity. Qed.

  Lemma skipn_tl n (s : list num) : skipn n (tl s) = skipn (S n) s.
  Proof. destruct s; simpl; [rewrite skipn_nil|]; reflexivity. Qed.

  Lemma skipn_skipn_add a b (s : list num) : skipn a (skipn b s) = skipn (b + a) s.
  Proof.
    revert s; induction b; intros s; simpl; [reflexivity|].
    destruct s; [apply skipn_nil | apply IHb].
  Qed.

  Lemma dr_skipn n s p : dr (skipn n s) p = dr s (n + p).
  Proof.
    revert s; induction n; intros s; simpl; [reflexivity|].
    destruct s; [destruct p; reflexivity | apply IHn].
  Qed.

  Lemma hd0_skipn n s : hd0 (skipn n s) = dr s n.
  Proof. rewrite hd0_dr, dr_skipn. f_equal; lia. Qed.

  (* ------------------------------------------------------------------ *)
  (* lset / mset                                                          *)
  Lemma lset_length {T} (l : list T) k x : length (lset l k x) = length l.
  Proof. revert k; induction l; intros [|k]; simpl; auto. Qed.

  Lemma nth_lset_eq {T} (l : list T) k x d : k < length l -> nth k (lset l k x) d = x.
  Proof.
    revert k; induction l; intros [|k]; simpl; intros H; try lia; auto.
    apply IHl; lia.
  Qed.

  Lemma nth_lset_neq {T} (l : list T) k k' x d : k' <> k -> nth k' (lset l k x) d = nth k' l d.
  Proof.
    revert k k'; induction l; intros [|k] [|k']; simpl; intros H; try lia; auto.
  Qed.

  Lemma lset_oob {T} (l : list T) k x : length l <= k -> lset l k x = l.
  Proof.
    revert k; induction l; intros [|k]; simpl; intros H; try lia; auto.
    f_equal; apply IHl; lia.
  Qed.

  Lemma Forall_lset {T} (P : T -> Prop) l k x :
    Forall P l -> (k < length l -> P x) -> Forall P (lset l k x).
  Proof.
    revert k; induction l; intros [|k]; simpl; intros HF HP; auto.
    - inversion HF; subst. constructor; auto. apply HP; lia.
    - inversion HF; subst. constructor; auto. apply IHl; auto. intros; apply HP; lia.
  Qed.

  (* M has N rows, all of length K *)
  Definition mshape (N K : nat) (M : matrix num) : Prop :=
    length M = N /\ Forall (fun row => length row = K) M.

  Lemma mshape_row N K M i : mshape N K M -> i < N -> length (nth i M []) = K.
  Proof.
    intros [HL HF] Hi. rewrite Forall_forall in HF. apply HF. apply nth_In. lia.
  Qed.

  Lemma mset_shape N K M i k x : mshape N K M -> mshape N K (mset M i k x).
  Proof.
    intros [HL HF]. unfold mset. split.
    - rewrite lset_length; auto.
    - apply Forall_lset; auto. intros Hi. rewrite lset_length.
      apply (mshape_row N K); [split; auto | lia].
  Qed.

  Lemma mget_mset_eq N K M i k x :
    mshape N K M -> i < N -> k < K -> mget (mset M i k x) i k = x.
  Proof.
    intros HS Hi Hk. unfold SweepModel.mget, mset.
    rewrite nth_lset_eq by (destruct HS; lia).
    apply nth_lset_eq. rewrite (mshape_row N K); auto.
  Qed.

  Lemma mget_mset_neq M i k x i' k' :
    i' <> i \/ k' <> k -> mget (mset M i k x) i' k' = mget M i' k'.
  Proof.
    intros H. unfold SweepModel.mget, mset.
    destruct (Nat.eq_dec i' i) as [->|Hn].
    - destruct (lt_dec i (length M)) as [Hl|Hl].
      + rewrite nth_lset_eq by auto. apply nth_lset_neq. lia.
      + rewrite lset_oob by lia. reflexivity.
    - rewrite nth_lset_neq by auto. reflexivity.
  Qed.

  Lemma zeros_shape N K : mshape N K (zeros N K).
  Proof.
    unfold zeros; split; [apply repeat_length|].
    apply Forall_forall. intros r Hr. apply repeat_spec in Hr. subst. apply repeat_length.
  Qed.

  Lemma nth_repeat_any {T} (a d : T) m n : n < m -> nth n (repeat a m) d = a.
  Proof. revert n; induction m; intros [|n] H; simpl; try lia; auto. apply IHm; lia. Qed.

  Lemma mget_zeros N K i k : mget (zeros N K) i k = Z0.
  Proof.
    unfold SweepModel.mget, zeros.
    destruct (lt_dec i N).
    - rewrite nth_repeat_any by auto. apply nth_repeat.
    - rewrite (nth_overflow (repeat _ N)) by (rewrite repeat_length; lia). destruct k; reflexivity.
  Qed.

  (* ------------------------------------------------------------------ *)
  (* generic: how many draws a fold consumes                              *)
  Lemma fold_tl_snd {V X} (g : V * list num -> X -> V) l p :
    snd (fold_left (fun p x => (g p x, tl (snd p))) l p) = skipn (length l) (snd p).
  Proof.
    revert p; induction l; intros p; simpl; [reflexivity|].
    rewrite IHl. simpl. apply skipn_tl.
  Qed.

  Lemma fold_snd_const {V X} (F : V * list num -> X -> V * list num) c :
    (forall p x, snd (F p x) = skipn c (snd p)) ->
    forall l p, snd (fold_left F l p) = skipn (length l * c) (snd p).
  Proof.
    intros HF l; induction l; intros p; simpl; [reflexivity|].
    rewrite IHl, HF, skipn_skipn_add. reflexivity.
  Qed.

  (* ================================================================== *)
  (* I1  init_rows                                                        *)
  Section Rows.
    Variables (N K : nat) (elements : list nat).
    Notation n := (length elements).

    Definition rows_inner (k : nat) (p : matrix num * list num) (j : nat) :=
      (mset (fst p) j k (hd0 (snd p)), tl (snd p)).

    (* one column k: the p-th element of the list receives draw p *)
    Lemma rows_inner_spec k : k < K -> forall els M s,
      NoDup els -> Forall (fun i => i < N) els -> mshape N K M ->
      let r := fold_left (rows_inner k) els (M, s) in
      snd r = skipn (length els) s /\ mshape N K (fst r) /\
      (forall i k', k' <> k \/ ~ In i els -> mget (fst r) i k' = mget M i k') /\
      (forall p i, nth_error els p = Some i -> mget (fst r) i k = dr s p).
    Proof.
      intros Hk els; induction els as [|j els IH]; intros M s HND HLT HS; simpl.
      - repeat split; try apply HS; auto. intros [|p] i; discriminate.
      - inversion HND as [|? ? Hnin HND']; subst. inversion HLT as [|? ? Hj HLT']; subst.
        specialize (IH (mset M j k (hd0 s)) (tl s) HND' HLT' (mset_shape _ _ _ _ _ _ HS)).
        simpl in IH. destruct IH as (I1 & I2 & I3 & I4).
        unfold rows_inner at 2 4 6 8; simpl.
        repeat split; try apply I2.
        + rewrite I1. apply skipn_tl.
        + intros i k' H. simpl in H. rewrite I3 by tauto. apply mget_mset_neq.
          destruct H as [H|H]; [right; auto | left; intros ->; apply H; auto].
        + intros [|p] i Hp; simpl in Hp.
          * inversion Hp; subst i. rewrite I3 by tauto.
            rewrite (mget_mset_eq N K) by auto. apply hd0_dr.
          * rewrite (I4 p i Hp). apply dr_tl.
    Qed.

    Definition rows_outer (p : matrix num * list num) (k : nat) :=
      fold_left (rows_inner k) elements p.

    Lemma init_rows_unfold M s :
      init_rows K elements M s = fold_left rows_outer (seq 0 K) (M, s).
    Proof. reflexivity. Qed.

    Hypothesis HND : NoDup elements.
    Hypothesis HLT : Forall (fun i => i < N) elements.

    Lemma rows_outer_spec c : forall k0 M s, k0 + c <= K -> mshape N K M ->
      let r := fold_left rows_outer (seq k0 c) (M, s) in
      snd r = skipn (c * n) s /\ mshape N K (fst r) /\
      (forall i k, k < k0 \/ k0 + c <= k \/ ~ In i elements -> mget (fst r) i k = mget M i k) /\
      (forall p i k, nth_error elements p = Some i -> k0 <= k < k0 + c ->
                     mget (fst r) i k = dr s ((k - k0) * n + p)).
    Proof.
      induction c as [|c IH]; intros k0 M s Hc HS; simpl.
      - repeat split; try apply HS; auto. intros; lia.
      - assert (Hk0 : k0 < K) by lia.
        pose proof (rows_inner_spec k0 Hk0 elements M s HND HLT HS) as R. simpl in R.
        unfold rows_outer at 2 4 6 8.
        destruct (fold_left (rows_inner k0) elements (M, s)) as [M1 s1].
        simpl in R. destruct R as (R1 & R2 & R3 & R4). subst s1.
        specialize (IH (S k0) M1 (skipn n s) ltac:(lia) R2). simpl in IH.
        destruct IH as (I1 & I2 & I3 & I4).
        repeat split; try apply I2.
        + rewrite I1, skipn_skipn_add. f_equal; lia.
        + intros i k H. rewrite I3 by (destruct H as [H|[H|H]]; [left|right;left|right;right]; auto; lia).
          apply R3. destruct H as [H|[H|H]]; [left|left|right]; auto; lia.
        + intros p i k Hp Hk.
          destruct (Nat.eq_dec k k0) as [->|Hne].
          * rewrite I3 by (left; lia). rewrite (R4 p i Hp). f_equal; lia.
          * rewrite (I4 p i k Hp) by lia. rewrite dr_skipn. f_equal.
            replace (k - k0) with (S (k - S k0)) by lia. simpl. lia.
    Qed.

    Theorem init_rows_spec M s :
      mshape N K M ->
      let r := init_rows K elements M s in
      snd r = skipn (K * n) s /\
      mshape N K (fst r) /\
      (forall p i k, nth_error elements p = Some i -> k < K ->
                     mget (fst r) i k = dr s (k * n + p)) /\
      (forall i k, ~ In i elements -> mget (fst r) i k = mget M i k).
    Proof.
      intros HS. rewrite init_rows_unfold.
      pose proof (rows_outer_spec K 0 M s ltac:(lia) HS) as R. simpl in R.
      destruct R as (R1 & R2 & R3 & R4).
      repeat split; try apply R2; auto.
      intros p i k Hp Hk. rewrite (R4 p i k Hp) by lia. f_equal. f_equal. f_equal. lia.
    Qed.
  End Rows.

  (* the two parts of I1 that need no hypothesis at all *)
  Lemma init_rows_stream K elements M s :
    snd (init_rows K elements M s) = skipn (K * length elements) s.
  Proof.
    rewrite init_rows_unfold.
    rewrite (fold_snd_const (rows_outer elements) (length elements)).
    - rewrite seq_length. reflexivity.
    - intros p x. unfold rows_outer, rows_inner.
      apply (fold_tl_snd (fun p j => mset (fst p) j x (hd0 (snd p)))).
  Qed.

  Lemma init_rows_outside K elements M s i k :
    ~ In i elements -> mget (fst (init_rows K elements M s)) i k = mget M i k.
  Proof.
    intros Hi. rewrite init_rows_unfold.
    assert (Hin : forall k' els p, ~ In i els ->
              mget (fst (fold_left (rows_inner k') els p)) i k = mget (fst p) i k).
    { intros k' els; induction els as [|j els IH]; intros p Hn; simpl; [reflexivity|].
      rewrite IH by (simpl in Hn; tauto). unfold rows_inner; simpl.
      apply mget_mset_neq. left. intros ->. apply Hn; left; reflexivity. }
    change (mget M i k) with (mget (fst (M, s)) i k).
    generalize (seq 0 K) (M, s). intros l; induction l as [|k' l IH]; intros p; simpl; [reflexivity|].
    rewrite IH. apply Hin, Hi.
  Qed.

  Corollary init_rows_zeros_outside N K elements s i k :
    ~ In i elements -> mget (fst (init_rows K elements (zeros N K) s)) i k = Z0.
  Proof. intros H. rewrite init_rows_outside by auto. apply mget_zeros. Qed.

  (* ================================================================== *)
  (* I2  init_sym_layer                                                   *)
  Section Sym.
    Variable K : nat.

    (* number of draws consumed by the rows before row i: sum_{i' < i} (K - i') *)
    Fixpoint tri (i : nat) : nat :=
      match i with 0 => 0 | S i' => tri i' + (K - i') end.

    Lemma tri_S i : tri (S i) = tri i + (K - i).
    Proof. reflexivity. Qed.

    Lemma tri_le i i' : i <= i' -> tri i <= tri i'.
    Proof. induction 1; [lia | rewrite tri_S; lia]. Qed.

    (* position, inside the layer's segment of the stream, of the draw of the pair i <= j *)
    Definition pos (i j : nat) : nat := tri i + (j - i).

    Definition sym_inner (i : nat) (p : matrix num * list num) (j : nat) :=
      let x := hd0 (snd p) in (mset (mset (fst p) i j x) j i x, tl (snd p)).
    Definition sym_outer (p : matrix num * list num) (i : nat) :=
      fold_left (sym_inner i) (seq i (K - i)) p.

    Lemma init_sym_layer_unfold s :
      init_sym_layer K s = fold_left sym_outer (seq 0 K) (zeros K K, s).
    Proof. reflexivity. Qed.

    Lemma sym_inner_spec i : i < K -> forall c j0 M s,
      i <= j0 -> j0 + c <= K -> mshape K K M ->
      let r := fold_left (sym_inner i) (seq j0 c) (M, s) in
      snd r = skipn c s /\ mshape K K (fst r) /\
      (forall a b, ~ (a = i /\ j0 <= b < j0 + c) -> ~ (b = i /\ j0 <= a < j0 + c) ->
                   mget (fst r) a b = mget M a b) /\
      (forall j, j0 <= j < j0 + c ->
                 mget (fst r) i j = dr s (j - j0) /\ mget (fst r) j i = dr s (j - j0)).
    Proof.
      intros Hi c; induction c as [|c IH]; intros j0 M s Hj0 Hc HS; simpl.
      - repeat split; try apply HS; auto; lia.
      - unfold sym_inner at 2 4 6 8 10; simpl.
        set (x := hd0 s).
        assert (HS0 : mshape K K (mset M i j0 x)) by (apply mset_shape; auto).
        assert (HS1 : mshape K K (mset (mset M i j0 x) j0 i x)) by (apply mset_shape; auto).
        specialize (IH (S j0) _ (tl s) ltac:(lia) ltac:(lia) HS1). simpl in IH.
        destruct IH as (I1 & I2 & I3 & I4).
        repeat split; try apply I2.
        + rewrite I1. apply skipn_tl.
        + intros a b H1 H2. rewrite I3 by lia.
          rewrite mget_mset_neq by lia. apply mget_mset_neq. lia.
        + destruct (Nat.eq_dec j j0) as [->|Hne].
          * rewrite I3 by lia. rewrite Nat.sub_diag. fold (dr s 0). rewrite <- hd0_dr. fold x.
            destruct (Nat.eq_dec i j0) as [->|Hij].
            -- apply (mget_mset_eq K K); auto; lia.
            -- rewrite mget_mset_neq by lia. apply (mget_mset_eq K K); auto; lia.
          * destruct (I4 j ltac:(lia)) as [E _]. rewrite E, dr_tl. f_equal; lia.
        + destruct (Nat.eq_dec j j0) as [->|Hne].
          * rewrite I3 by lia. rewrite Nat.sub_diag. fold (dr s 0). rewrite <- hd0_dr. fold x.
            apply (mget_mset_eq K K); auto; lia.
          * destruct (I4 j ltac:(lia)) as [_ E]. rewrite E, dr_tl. f_equal; lia.
    Qed.

    Lemma sym_outer_spec c : forall i0 M s, i0 + c <= K -> mshape K K M ->
      let r := fold_left sym_outer (seq i0 c) (M, s) in
      snd r = skipn (tri (i0 + c) - tri i0) s /\ mshape K K (fst r) /\
      (forall a b, a < i0 \/ b < i0 \/ (i0 + c <= a /\ i0 + c <= b) ->
                   mget (fst r) a b = mget M a b) /\
      (forall i j, i0 <= i < i0 + c -> i <= j < K ->
                   mget (fst r) i j = dr s (tri i - tri i0 + (j - i)) /\
                   mget (fst r) j i = dr s (tri i - tri i0 + (j - i))).
    Proof.
      induction c as [|c IH]; intros i0 M s Hc HS; simpl.
      - repeat split; try apply HS; auto; try lia.
        replace (i0 + 0) with i0 by lia. rewrite Nat.sub_diag. reflexivity.
      - assert (Hi0 : i0 < K) by lia.
        pose proof (sym_inner_spec i0 Hi0 (K - i0) i0 M s ltac:(lia) ltac:(lia) HS) as R.
        simpl in R. unfold sym_outer at 2 4 6 8 10.
        destruct (fold_left (sym_inner i0) (seq i0 (K - i0)) (M, s)) as [M1 s1].
        simpl in R. destruct R as (R1 & R2 & R3 & R4). subst s1.
        specialize (IH (S i0) M1 (skipn (K - i0) s) ltac:(lia) R2). simpl in IH.
        destruct IH as (I1 & I2 & I3 & I4).
        pose proof (tri_S i0) as T1. pose proof (tri_S (i0 + c)) as T3.
        pose proof (tri_le (S i0) (S (i0 + c)) ltac:(lia)) as T2.
        replace (i0 + S c) with (S (i0 + c)) by lia.
        repeat split; try apply I2.
        + rewrite I1, skipn_skipn_add. f_equal. lia.
        + intros a b H. rewrite I3 by lia. apply R3; lia.
        + destruct (Nat.eq_dec i i0) as [->|Hne].
          * rewrite I3 by lia. destruct (R4 j ltac:(lia)) as [E _]. rewrite E. f_equal; lia.
          * destruct (I4 i j ltac:(lia) ltac:(lia)) as [E _]. rewrite E, dr_skipn. f_equal.
            pose proof (tri_le (S i0) i ltac:(lia)). lia.
        + destruct (Nat.eq_dec i i0) as [->|Hne].
          * rewrite I3 by lia. destruct (R4 j ltac:(lia)) as [_ E]. rewrite E. f_equal; lia.
          * destruct (I4 i j ltac:(lia) ltac:(lia)) as [_ E]. rewrite E, dr_skipn. f_equal.
            pose proof (tri_le (S i0) i ltac:(lia)). lia.
    Qed.

    Theorem init_sym_layer_spec s :
      let r := init_sym_layer K s in
      snd r = skipn (tri K) s /\
      mshape K K (fst r) /\
      (forall i j, i <= j < K ->
                   mget (fst r) i j = dr s (pos i j) /\ mget (fst r) j i = dr s (pos i j)).
    Proof.
      rewrite init_sym_layer_unfold.
      pose proof (sym_outer_spec K 0 (zeros K K) s ltac:(lia) (zeros_shape K K)) as R.
      simpl in R. destruct R as (R1 & R2 & R3 & R4). simpl.
      repeat split; try apply R2.
      - rewrite R1. f_equal. lia.
      - destruct (R4 i j ltac:(lia) ltac:(lia)) as [E _]. rewrite E. unfold pos. f_equal; lia.
      - destruct (R4 i j ltac:(lia) ltac:(lia)) as [_ E]. rewrite E. unfold pos. f_equal; lia.
    Qed.

    Corollary init_sym_layer_symmetric s i j :
      i < K -> j < K ->
      mget (fst (init_sym_layer K s)) i j = mget (fst (init_sym_layer K s)) j i.
    Proof.
      intros Hi Hj. destruct (init_sym_layer_spec s) as (_ & _ & H).
      destruct (le_lt_dec i j).
      - destruct (H i j ltac:(lia)) as [E1 E2]. rewrite E1, E2. reflexivity.
      - destruct (H j i ltac:(lia)) as [E1 E2]. rewrite E1, E2. reflexivity.
    Qed.

    (* the map (i, j), i <= j < K  |->  pos i j  is a bijection onto 0 .. tri K - 1 *)
    Lemma pos_range i j : i <= j < K -> pos i j < tri K.
    Proof.
      intros H. unfold pos. pose proof (tri_le (S i) K ltac:(lia)). rewrite tri_S in *. lia.
    Qed.

    Lemma pos_inj i j i' j' :
      i <= j < K -> i' <= j' < K -> pos i j = pos i' j' -> i = i' /\ j = j'.
    Proof.
      intros H H' E. unfold pos in E.
      destruct (lt_eq_lt_dec i i') as [[Hl|He]|Hl].
      - pose proof (tri_le (S i) i' ltac:(lia)). rewrite tri_S in *. lia.
      - subst. lia.
      - pose proof (tri_le (S i') i ltac:(lia)). rewrite tri_S in *. lia.
    Qed.

    Lemma pos_surj_aux c : c <= K -> forall p, p < tri c ->
      exists i j, i < c /\ i <= j < K /\ pos i j = p.
    Proof.
      induction c as [|c IH]; intros Hc p Hp; simpl in Hp; [lia|].
      destruct (lt_dec p (tri c)) as [Hl|Hl].
      - destruct (IH ltac:(lia) p Hl) as (i & j & ? & ? & ?). exists i, j. repeat split; lia.
      - exists c, (c + (p - tri c)). unfold pos. repeat split; lia.
    Qed.

    Lemma pos_surj p : p < tri K -> exists i j, i <= j < K /\ pos i j = p.
    Proof.
      intros Hp. destruct (pos_surj_aux K (le_n K) p Hp) as (i & j & _ & H1 & H2).
      exists i, j; auto.
    Qed.

    (* closed forms *)
    Lemma half_S i : S i * (S i - 1) / 2 = i * (i - 1) / 2 + i.
    Proof.
      replace (S i * (S i - 1)) with (i * (i - 1) + i * 2) by (destruct i; simpl; lia).
      apply Nat.div_add. lia.
    Qed.

    Lemma half_double i : 2 * (i * (i - 1) / 2) = i * (i - 1).
    Proof.
      induction i; [reflexivity|]. rewrite half_S.
      replace (S i * (S i - 1)) with (i * (i - 1) + i * 2) by (destruct i; simpl; lia). lia.
    Qed.

    Lemma tri_closed_aux i : i <= K -> tri i + i * (i - 1) / 2 = i * K.
    Proof.
      induction i; intros H; [reflexivity|].
      rewrite tri_S, half_S. specialize (IHi ltac:(lia)). lia.
    Qed.

    Lemma tri_closed i : i <= K -> tri i = i * K - i * (i - 1) / 2.
    Proof. intros H. pose proof (tri_closed_aux i H). lia. Qed.

    Lemma tri_total : tri K = K * (K + 1) / 2.
    Proof.
      pose proof (tri_closed_aux K (le_n K)) as H. pose proof (half_double K) as D.
      apply Nat.div_unique with (r := 0); [lia|].
      assert (K * (K + 1) = K * (K - 1) + 2 * K) by nia.
      assert (K * K = K * (K - 1) + K) by nia. lia.
    Qed.

    (* I2 with the closed forms spelled out *)
    Corollary init_sym_layer_closed s :
      let r := init_sym_layer K s in
      snd r = skipn (K * (K + 1) / 2) s /\
      (forall i j, i <= j < K ->
         mget (fst r) i j = dr s (i * K - i * (i - 1) / 2 + (j - i)) /\
         mget (fst r) j i = dr s (i * K - i * (i - 1) / 2 + (j - i))).
    Proof.
      destruct (init_sym_layer_spec s) as (H1 & _ & H3). cbv zeta. split.
      - rewrite <- tri_total. exact H1.
      - intros i j Hij. rewrite <- tri_closed by lia. apply (H3 i j Hij).
    Qed.
  End Sym.

  (* ------------------------------------------------------------------ *)
  (* generic: a fold that appends one layer per list element, each layer consuming c draws *)
  Definition layer_step {X T} (f : X -> list num -> T * list num)
             (p : list T * list num) (x : X) : list T * list num :=
    let '(m, s') := f x (snd p) in (fst p ++ [m], s').

  Lemma fold_layers {X T} (f : X -> list num -> T * list num) c (dx : X) (dt : T) :
    (forall x s, snd (f x s) = skipn c s) ->
    forall l acc s,
      let r := fold_left (layer_step f) l (acc, s) in
      snd r = skipn (length l * c) s /\
      length (fst r) = length acc + length l /\
      (forall a, a < length acc -> nth a (fst r) dt = nth a acc dt) /\
      (forall a, a < length l ->
                 nth (length acc + a) (fst r) dt = fst (f (nth a l dx) (skipn (a * c) s))).
  Proof.
    intros Hc l; induction l as [|x l IH]; intros acc s; simpl.
    - repeat split; auto; intros; lia.
    - unfold layer_step at 2 4 6 8; simpl.
      pose proof (Hc x s) as Hx. destruct (f x s) as [m s1] eqn:E. simpl in Hx. subst s1.
      specialize (IH (acc ++ [m]) (skipn c s)). simpl in IH.
      destruct IH as (I1 & I2 & I3 & I4). rewrite app_length in *. simpl in *.
      repeat split.
      + rewrite I1, skipn_skipn_add. reflexivity.
      + lia.
      + intros a Ha. rewrite I3 by lia. apply app_nth1; auto.
      + intros [|a] Ha.
        * rewrite Nat.add_0_r, I3 by lia. rewrite app_nth2, Nat.sub_diag by lia. simpl.
          rewrite E. reflexivity.
        * replace (length acc + S a) with (length acc + 1 + a) by lia.
          rewrite I4 by lia. rewrite skipn_skipn_add. reflexivity.
  Qed.

  Corollary fold_layers_nil {X T} (f : X -> list num -> T * list num) c (dx : X) (dt : T) :
    (forall x s, snd (f x s) = skipn c s) ->
    forall l s,
      let r := fold_left (layer_step f) l ([], s) in
      snd r = skipn (length l * c) s /\
      length (fst r) = length l /\
      (forall a, a < length l -> nth a (fst r) dt = fst (f (nth a l dx) (skipn (a * c) s))).
  Proof.
    intros Hc l s. destruct (fold_layers f c dx dt Hc l [] s) as (H1 & H2 & _ & H4).
    repeat split; auto.
  Qed.

  (* ================================================================== *)
  (* I3  init_sym_random                                                  *)
  Lemma init_sym_random_unfold K L s :
    init_sym_random K L s = fold_left (layer_step (fun (_ : nat) s => init_sym_layer K s)) (seq 0 L) ([], s).
  Proof. reflexivity. Qed.

  Theorem init_sym_random_spec K L s :
    let r := init_sym_random K L s in
    let T := K * (K + 1) / 2 in
    snd r = skipn (L * T) s /\
    length (fst r) = L /\
    (forall a, a < L -> nth a (fst r) [] = fst (init_sym_layer K (skipn (a * T) s))) /\
    (forall a i j, a < L -> i <= j < K ->
       tget (fst r) i j a = dr s (a * T + pos K i j) /\
       tget (fst r) j i a = dr s (a * T + pos K i j)).
  Proof.
    cbv zeta. rewrite init_sym_random_unfold, <- tri_total.
    destruct (fold_layers_nil (fun (_ : nat) s => init_sym_layer K s) (tri K K) 0 []
                (fun _ s0 => proj1 (init_sym_layer_spec K s0)) (seq 0 L) s) as (H1 & H2 & H3).
    rewrite seq_length in *.
    assert (H3' : forall a, a < L ->
              nth a (fst (fold_left (layer_step (fun (_ : nat) s => init_sym_layer K s)) (seq 0 L) ([], s))) []
              = fst (init_sym_layer K (skipn (a * tri K K) s))) by (intros a Ha; apply (H3 a Ha)).
    repeat split; auto.
    - unfold SweepModel.tget. rewrite H3' by auto.
      destruct (init_sym_layer_spec K (skipn (a * tri K K) s)) as (_ & _ & HH).
      destruct (HH i j ltac:(lia)) as [E _]. rewrite E. apply dr_skipn.
    - unfold SweepModel.tget. rewrite H3' by auto.
      destruct (init_sym_layer_spec K (skipn (a * tri K K) s)) as (_ & _ & HH).
      destruct (HH i j ltac:(lia)) as [_ E]. rewrite E. apply dr_skipn.
  Qed.

  (* ================================================================== *)
  (* I4  init_diag_random                                                 *)
  Lemma init_diag_random_unfold K L s :
    init_diag_random K L s
    = fold_left (layer_step (fun (_ : nat) s => (firstn K (s ++ repeat Z0 K), skipn K s))) (seq 0 L) ([], s).
  Proof. reflexivity. Qed.

  (* the zero padding makes the row exactly what `dr` reads: no length hypothesis needed *)
  Lemma nth_firstn_pad K (t : list num) k :
    k < K -> nth k (firstn K (t ++ repeat Z0 K)) Z0 = dr t k.
  Proof.
    intros Hk. unfold dr.
    assert (HL : length (firstn K (t ++ repeat Z0 K)) = K)
      by (rewrite firstn_length, app_length, repeat_length; lia).
    transitivity (nth k (t ++ repeat Z0 K) Z0).
    - rewrite <- (firstn_skipn K (t ++ repeat Z0 K)) at 2. rewrite app_nth1 by lia. reflexivity.
    - destruct (lt_dec k (length t)).
      + apply app_nth1; auto.
      + rewrite app_nth2 by lia. rewrite nth_repeat. rewrite nth_overflow by lia. reflexivity.
  Qed.

  Theorem init_diag_random_spec K L s :
    let r := init_diag_random K L s in
    snd r = skipn (L * K) s /\
    length (fst r) = L /\
    (forall a, a < L -> length (nth a (fst r) []) = K) /\
    (forall k a, k < K -> a < L -> dget (fst r) k a = dr s (a * K + k)).
  Proof.
    simpl. rewrite init_diag_random_unfold.
    destruct (fold_layers_nil (fun (_ : nat) s => (firstn K (s ++ repeat Z0 K), skipn K s)) K 0 []
                (fun _ _ => eq_refl) (seq 0 L) s) as (H1 & H2 & H3).
    rewrite seq_length in *.
    repeat split; auto.
    - intros a Ha. rewrite (H3 a Ha). simpl.
      rewrite firstn_length, app_length, repeat_length. lia.
    - intros k a Hk Ha. unfold SweepModel.dget. rewrite (H3 a Ha). simpl.
      rewrite nth_firstn_pad by auto. apply dr_skipn.
  Qed.

  Lemma Forall_nth_lt {T} (P : T -> Prop) (l : list T) (d : T) L :
    length l = L -> Forall P l -> forall a, a < L -> P (nth a l d).
  Proof.
    intros HL HF a Ha. rewrite Forall_forall in HF. apply HF, nth_In. lia.
  Qed.

  (* ================================================================== *)
  (* I5  init_from_gen / init_from_ass                                    *)
  Section FromGen.
    Variable K : nat.

    Definition gen_inner (k : nat) (p : matrix num * list num) (q : nat) :=
      (mset (fst p) k q (noisy (mget (fst p) k q) (hd0 (snd p))), tl (snd p)).
    Definition gen_outer (p : matrix num * list num) (k : nat) :=
      fold_left (gen_inner k) (seq 0 K) p.
    Definition gen_layer (cache : list (matrix num)) (a : nat) (s : list num) :=
      fold_left gen_outer (seq 0 K) (nth a cache [], s).

    Lemma init_from_gen_unfold L cache s :
      init_from_gen K L cache s = fold_left (layer_step (gen_layer cache)) (seq 0 L) ([], s).
    Proof. reflexivity. Qed.

    Lemma gen_layer_stream cache a s : snd (gen_layer cache a s) = skipn (K * K) s.
    Proof.
      unfold gen_layer. rewrite (fold_snd_const gen_outer K).
      - rewrite seq_length. reflexivity.
      - intros p x. unfold gen_outer, gen_inner.
        rewrite (fold_tl_snd (fun p q => mset (fst p) x q (noisy (mget (fst p) x q) (hd0 (snd p))))).
        rewrite seq_length. reflexivity.
    Qed.

    Lemma gen_inner_spec k : k < K -> forall c q0 M s, q0 + c <= K -> mshape K K M ->
      let r := fold_left (gen_inner k) (seq q0 c) (M, s) in
      snd r = skipn c s /\ mshape K K (fst r) /\
      (forall a b, a <> k \/ b < q0 \/ q0 + c <= b -> mget (fst r) a b = mget M a b) /\
      (forall q, q0 <= q < q0 + c -> mget (fst r) k q = noisy (mget M k q) (dr s (q - q0))).
    Proof.
      intros Hk c; induction c as [|c IH]; intros q0 M s Hc HS; simpl.
      - repeat split; try apply HS; auto; lia.
      - unfold gen_inner at 2 4 6 8; simpl.
        set (x := noisy (mget M k q0) (hd0 s)).
        assert (HS1 : mshape K K (mset M k q0 x)) by (apply mset_shape; auto).
        specialize (IH (S q0) _ (tl s) ltac:(lia) HS1). simpl in IH.
        destruct IH as (I1 & I2 & I3 & I4).
        repeat split; try apply I2.
        + rewrite I1. apply skipn_tl.
        + intros a b H. rewrite I3 by lia. apply mget_mset_neq. lia.
        + intros q Hq. destruct (Nat.eq_dec q q0) as [->|Hne].
          * rewrite I3 by lia. rewrite (mget_mset_eq K K) by (auto; lia).
            unfold x. rewrite Nat.sub_diag, hd0_dr. reflexivity.
          * rewrite I4 by lia. rewrite mget_mset_neq by lia. rewrite dr_tl.
            f_equal. f_equal. lia.
    Qed.

    Lemma gen_outer_spec c : forall k0 M s, k0 + c <= K -> mshape K K M ->
      let r := fold_left gen_outer (seq k0 c) (M, s) in
      snd r = skipn (c * K) s /\ mshape K K (fst r) /\
      (forall a b, a < k0 \/ k0 + c <= a -> mget (fst r) a b = mget M a b) /\
      (forall k q, k0 <= k < k0 + c -> q < K ->
                   mget (fst r) k q = noisy (mget M k q) (dr s ((k - k0) * K + q))).
    Proof.
      induction c as [|c IH]; intros k0 M s Hc HS; simpl.
      - repeat split; try apply HS; auto; lia.
      - assert (Hk0 : k0 < K) by lia.
        pose proof (gen_inner_spec k0 Hk0 K 0 M s ltac:(lia) HS) as R. simpl in R.
        unfold gen_outer at 2 4 6 8.
        destruct (fold_left (gen_inner k0) (seq 0 K) (M, s)) as [M1 s1].
        simpl in R. destruct R as (R1 & R2 & R3 & R4). subst s1.
        specialize (IH (S k0) M1 (skipn K s) ltac:(lia) R2). simpl in IH.
        destruct IH as (I1 & I2 & I3 & I4).
        repeat split; try apply I2.
        + rewrite I1, skipn_skipn_add. reflexivity.
        + intros a b H. rewrite I3 by lia. apply R3. lia.
        + intros k q Hk Hq. destruct (Nat.eq_dec k k0) as [->|Hne].
          * rewrite I3 by lia. rewrite R4 by lia. f_equal. f_equal. lia.
          * rewrite I4 by lia. rewrite R3 by lia. rewrite dr_skipn. f_equal. f_equal.
            replace (k - k0) with (S (k - S k0)) by lia. simpl. lia.
    Qed.

    Theorem init_from_gen_spec L cache s :
      (forall a, a < L -> mshape K K (nth a cache [])) ->
      let r := init_from_gen K L cache s in
      snd r = skipn (L * K * K) s /\
      length (fst r) = L /\
      (forall a, a < L -> mshape K K (nth a (fst r) [])) /\
      (forall k q a, k < K -> q < K -> a < L ->
         tget (fst r) k q a = noisy (tget cache k q a) (dr s (a * K * K + k * K + q))).
    Proof.
      intros HC. simpl. rewrite init_from_gen_unfold.
      destruct (fold_layers_nil (gen_layer cache) (K * K) 0 [] (gen_layer_stream cache) (seq 0 L) s)
        as (H1 & H2 & H3).
      rewrite seq_length in *.
      assert (H3' : forall a, a < L ->
                nth a (fst (fold_left (layer_step (gen_layer cache)) (seq 0 L) ([], s))) []
                = fst (gen_layer cache a (skipn (a * (K * K)) s))).
      { intros a Ha. rewrite (H3 a Ha). rewrite seq_nth by auto. reflexivity. }
      repeat split.
      - rewrite H1. f_equal. lia.
      - auto.
      - rewrite H3' by auto. unfold gen_layer.
        apply (gen_outer_spec K 0 _ _ ltac:(lia) (HC a H)).
      - rewrite H3' by auto. unfold gen_layer.
        apply (gen_outer_spec K 0 _ _ ltac:(lia) (HC a H)).
      - intros k q a Hk Hq Ha. unfold SweepModel.tget. rewrite H3' by auto. unfold gen_layer.
        destruct (gen_outer_spec K 0 (nth a cache []) (skipn (a * (K * K)) s) ltac:(lia) (HC a Ha))
          as (_ & _ & _ & R).
        rewrite R by lia. rewrite dr_skipn. f_equal. f_equal. lia.
    Qed.

    (* the stream part holds whatever the shape of the cache *)
    Lemma init_from_gen_stream L cache s :
      snd (init_from_gen K L cache s) = skipn (L * K * K) s.
    Proof.
      rewrite init_from_gen_unfold.
      destruct (fold_layers_nil (gen_layer cache) (K * K) 0 [] (gen_layer_stream cache) (seq 0 L) s)
        as (H1 & _). rewrite H1, seq_length. f_equal. lia.
    Qed.

    (* --- init_from_ass --- *)
    Definition ass_step (p : list num * list num) (k : nat) :=
      (lset (fst p) k (noisy (nth k (fst p) Z0) (hd0 (snd p))), tl (snd p)).
    Definition ass_layer (cache : list (list num)) (a : nat) (s : list num) :=
      fold_left ass_step (seq 0 K) (nth a cache [], s).

    Lemma init_from_ass_unfold L cache s :
      init_from_ass K L cache s = fold_left (layer_step (ass_layer cache)) (seq 0 L) ([], s).
    Proof. reflexivity. Qed.

    Lemma ass_layer_stream cache a s : snd (ass_layer cache a s) = skipn K s.
    Proof.
      unfold ass_layer, ass_step.
      rewrite (fold_tl_snd (fun p k => lset (fst p) k (noisy (nth k (fst p) Z0) (hd0 (snd p))))).
      rewrite seq_length. reflexivity.
    Qed.

    Lemma ass_step_spec c : forall k0 row s, k0 + c <= K -> length row = K ->
      let r := fold_left ass_step (seq k0 c) (row, s) in
      snd r = skipn c s /\ length (fst r) = K /\
      (forall k, k < k0 \/ k0 + c <= k -> nth k (fst r) Z0 = nth k row Z0) /\
      (forall k, k0 <= k < k0 + c -> nth k (fst r) Z0 = noisy (nth k row Z0) (dr s (k - k0))).
    Proof.
      induction c as [|c IH]; intros k0 row s Hc HL; simpl.
      - repeat split; auto; lia.
      - unfold ass_step at 2 4 6 8; simpl.
        set (x := noisy (nth k0 row Z0) (hd0 s)).
        specialize (IH (S k0) (lset row k0 x) (tl s) ltac:(lia)
                       ltac:(rewrite lset_length; exact HL)). simpl in IH.
        destruct IH as (I1 & I2 & I3 & I4).
        repeat split; auto.
        + rewrite I1. apply skipn_tl.
        + intros k H. rewrite I3 by lia. apply nth_lset_neq. lia.
        + intros k Hk. destruct (Nat.eq_dec k k0) as [->|Hne].
          * rewrite I3 by lia. rewrite nth_lset_eq by lia.
            unfold x. rewrite Nat.sub_diag, hd0_dr. reflexivity.
          * rewrite I4 by lia. rewrite nth_lset_neq by lia. rewrite dr_tl.
            f_equal. f_equal. lia.
    Qed.

    Theorem init_from_ass_spec L cache s :
      (forall a, a < L -> length (nth a cache []) = K) ->
      let r := init_from_ass K L cache s in
      snd r = skipn (L * K) s /\
      length (fst r) = L /\
      (forall a, a < L -> length (nth a (fst r) []) = K) /\
      (forall k a, k < K -> a < L ->
         dget (fst r) k a = noisy (dget cache k a) (dr s (a * K + k))).
    Proof.
      intros HC. simpl. rewrite init_from_ass_unfold.
      destruct (fold_layers_nil (ass_layer cache) K 0 [] (ass_layer_stream cache) (seq 0 L) s)
        as (H1 & H2 & H3).
      rewrite seq_length in *.
      assert (H3' : forall a, a < L ->
                nth a (fst (fold_left (layer_step (ass_layer cache)) (seq 0 L) ([], s))) []
                = fst (ass_layer cache a (skipn (a * K) s))).
      { intros a Ha. rewrite (H3 a Ha). rewrite seq_nth by auto. reflexivity. }
      repeat split; auto.
      - intros a Ha. rewrite H3' by auto. unfold ass_layer.
        apply (ass_step_spec K 0 _ _ ltac:(lia) (HC a Ha)).
      - intros k a Hk Ha. unfold SweepModel.dget. rewrite H3' by auto. unfold ass_layer.
        destruct (ass_step_spec K 0 (nth a cache []) (skipn (a * K) s) ltac:(lia) (HC a Ha))
          as (_ & _ & _ & R).
        rewrite R by lia. rewrite dr_skipn. f_equal. f_equal. lia.
    Qed.

    Lemma init_from_ass_stream L cache s :
      snd (init_from_ass K L cache s) = skipn (L * K) s.
    Proof.
      rewrite init_from_ass_unfold.
      destruct (fold_layers_nil (ass_layer cache) K 0 [] (ass_layer_stream cache) (seq 0 L) s)
        as (H1 & _). rewrite H1, seq_length. reflexivity.
    Qed.

    (* the same with the hypotheses in the form "cache has L layers, each K x K / of length K" *)
    Corollary init_from_gen_spec' L cache s :
      length cache = L -> Forall (mshape K K) cache ->
      let r := init_from_gen K L cache s in
      snd r = skipn (L * K * K) s /\
      (forall k q a, k < K -> q < K -> a < L ->
         tget (fst r) k q a = noisy (tget cache k q a) (dr s (a * K * K + k * K + q))).
    Proof.
      intros HL HF.
      destruct (init_from_gen_spec L cache s (Forall_nth_lt _ cache [] L HL HF)) as (H1 & _ & _ & H4).
      split; assumption.
    Qed.

    Corollary init_from_ass_spec' L cache s :
      length cache = L -> Forall (fun row => length row = K) cache ->
      let r := init_from_ass K L cache s in
      snd r = skipn (L * K) s /\
      (forall k a, k < K -> a < L ->
         dget (fst r) k a = noisy (dget cache k a) (dr s (a * K + k))).
    Proof.
      intros HL HF.
      destruct (init_from_ass_spec L cache s
                  (Forall_nth_lt (fun row => length row = K) cache [] L HL HF)) as (H1 & _ & _ & H4).
      split; assumption.
    Qed.
  End FromGen.

  (* ================================================================== *)
  (* I6  CtrlModel.start_of                                               *)
  Section Start.
    Variables (W IC : Type) (initw : IC -> W -> list num -> IC * W * list num).
    Variables (directed : bool) (N K : nat) (ul vl : list nat).
    Notation bufs := (bufs num W IC).
    Notation strm := (strm num W IC).
    Notation tv := (tv num W IC).
    Notation ic := (ic num W IC).
    Notation cw := (cw num W IC).

    (* what start_of returns for u_temp, v_temp and the stream, when the affinity initialiser
       consumed exactly nw draws: w first, then v (directed only), then u *)
    Definition start_post (b : bufs) (nw : nat) (ut vt : matrix num) (s3 : list num) : Prop :=
      let s := strm b in
      let nv := if directed then K * length vl else 0 in
      s3 = skipn (nw + nv + K * length ul) s /\
      ut = fst (init_rows K ul (zeros N K) (skipn (nw + nv) s)) /\
      vt = (if directed then fst (init_rows K vl (zeros N K) (skipn nw s)) else tv b) /\
      (forall i k, ~ In i ul -> mget ut i k = Z0) /\
      (directed = true -> forall i k, ~ In i vl -> mget vt i k = Z0) /\
      (NoDup ul -> Forall (fun i => i < N) ul ->
         mshape N K ut /\
         forall p i k, nth_error ul p = Some i -> k < K ->
                       mget ut i k = dr s (nw + nv + k * length ul + p)) /\
      (directed = true -> NoDup vl -> Forall (fun i => i < N) vl ->
         mshape N K vt /\
         forall p i k, nth_error vl p = Some i -> k < K ->
                       mget vt i k = dr s (nw + k * length vl + p)).

    Theorem start_of_spec (b : bufs) ic' wt nw :
      initw (ic b) (cw b) (strm b) = (ic', wt, skipn nw (strm b)) ->
      exists ut vt s3,
        start_of num A W IC initw directed N K ul vl b = (ic', (ut, vt, wt), s3) /\
        start_post b nw ut vt s3.
    Proof.
      intros Hw. unfold start_of. rewrite Hw. unfold start_post.
      set (s := strm b). set (nv := if directed then K * length vl else 0).
      assert (Hv : (if directed then init_rows K vl (zeros N K) (skipn nw s) else (tv b, skipn nw s))
                   = (if directed then fst (init_rows K vl (zeros N K) (skipn nw s)) else tv b,
                      skipn (nw + nv) s)).
      { unfold nv. destruct directed.
        - rewrite (surjective_pairing (init_rows K vl (zeros N K) (skipn nw s))) at 1.
          rewrite init_rows_stream, skipn_skipn_add. reflexivity.
        - rewrite Nat.add_0_r. reflexivity. }
      rewrite Hv.
      rewrite (surjective_pairing (init_rows K ul (zeros N K) (skipn (nw + nv) s))).
      rewrite init_rows_stream, skipn_skipn_add.
      do 3 eexists. split; [reflexivity|].
      repeat split.
      - intros i k Hi. apply init_rows_zeros_outside; auto.
      - intros Hd i k Hi. rewrite Hd. apply init_rows_zeros_outside; auto.
      - destruct (init_rows_spec N K ul H H0 (zeros N K) (skipn (nw + nv) s) (zeros_shape N K))
          as (_ & R & _). apply R.
      - destruct (init_rows_spec N K ul H H0 (zeros N K) (skipn (nw + nv) s) (zeros_shape N K))
          as (_ & R & _). apply R.
      - intros p i k Hp Hk.
        destruct (init_rows_spec N K ul H H0 (zeros N K) (skipn (nw + nv) s) (zeros_shape N K))
          as (_ & _ & R & _).
        rewrite (R p i k Hp Hk), dr_skipn. f_equal. lia.
      - rewrite H.
        destruct (init_rows_spec N K vl H0 H1 (zeros N K) (skipn nw s) (zeros_shape N K))
          as (_ & R & _). apply R.
      - rewrite H.
        destruct (init_rows_spec N K vl H0 H1 (zeros N K) (skipn nw s) (zeros_shape N K))
          as (_ & R & _). apply R.
      - intros p i k Hp Hk. rewrite H.
        destruct (init_rows_spec N K vl H0 H1 (zeros N K) (skipn nw s) (zeros_shape N K))
          as (_ & _ & R & _).
        rewrite (R p i k Hp Hk), dr_skipn. f_equal. lia.
    Qed.
  End Start.

  (* the four affinity initialisers: number of draws, result, initialiser state *)
  Lemma step_random_gen_eq K L c T s :
    step_random_gen num A K L c T s
    = (tt, fst (init_sym_random K L s), skipn (L * (K * (K + 1) / 2)) s).
  Proof.
    unfold step_random_gen.
    destruct (init_sym_random_spec K L s) as (H & _). cbv zeta in H.
    destruct (init_sym_random K L s) as [w s']. simpl in *. subst. reflexivity.
  Qed.

  Lemma step_random_ass_eq K L c T s :
    step_random_ass num A K L c T s = (tt, fst (init_diag_random K L s), skipn (L * K) s).
  Proof.
    unfold step_random_ass.
    destruct (init_diag_random_spec K L s) as (H & _).
    destruct (init_diag_random K L s) as [w s']. simpl in *. subst. reflexivity.
  Qed.

  Definition cache_of {T} (c : option T) (Tinit : T) : T :=
    match c with Some x => x | None => Tinit end.

  Lemma step_from_gen_eq K L c T s :
    step_from_gen num A K L c T s
    = (Some (cache_of c T), fst (init_from_gen K L (cache_of c T) s), skipn (L * K * K) s).
  Proof.
    unfold step_from_gen. fold (cache_of c T).
    pose proof (init_from_gen_stream K L (cache_of c T) s) as H.
    destruct (init_from_gen K L (cache_of c T) s) as [w s']. simpl in *. subst. reflexivity.
  Qed.

  Lemma step_from_ass_eq K L c T s :
    step_from_ass num A K L c T s
    = (Some (cache_of c T), fst (init_from_ass K L (cache_of c T) s), skipn (L * K) s).
  Proof.
    unfold step_from_ass. fold (cache_of c T).
    pose proof (init_from_ass_stream K L (cache_of c T) s) as H.
    destruct (init_from_ass K L (cache_of c T) s) as [w s']. simpl in *. subst. reflexivity.
  Qed.

  (* the cache is set by the first call and never changes; from the second call on the
     caller's tensor is ignored *)
  Lemma step_from_gen_ignores_caller K L c T1 T2 s :
    step_from_gen num A K L (Some c) T1 s = step_from_gen num A K L (Some c) T2 s.
  Proof. reflexivity. Qed.
  Lemma step_from_ass_ignores_caller K L c T1 T2 s :
    step_from_ass num A K L (Some c) T1 s = step_from_ass num A K L (Some c) T2 s.
  Proof. reflexivity. Qed.
  Lemma step_from_gen_cache K L c T s :
    fst (fst (step_from_gen num A K L c T s)) = Some (cache_of c T).
  Proof. rewrite step_from_gen_eq. reflexivity. Qed.
  Lemma step_from_ass_cache K L c T s :
    fst (fst (step_from_ass num A K L c T s)) = Some (cache_of c T).
  Proof. rewrite step_from_ass_eq. reflexivity. Qed.
  Lemma step_from_gen_cache_stable K L c T s :
    fst (fst (step_from_gen num A K L (Some c) T s)) = Some c.
  Proof. apply step_from_gen_cache. Qed.
  Lemma step_from_ass_cache_stable K L c T s :
    fst (fst (step_from_ass num A K L (Some c) T s)) = Some c.
  Proof. apply step_from_ass_cache. Qed.

  Section StartSteps.
    Variables (directed : bool) (N K L : nat) (ul vl : list nat).

    Theorem start_of_consumption_random_gen (b : bufs num (list (matrix num)) unit) :
      exists ut vt s3,
        start_of num A _ _ (step_random_gen num A K L) directed N K ul vl b
        = (tt, (ut, vt, fst (init_sym_random K L (strm _ _ _ b))), s3) /\
        start_post _ _ directed N K ul vl b (L * (K * (K + 1) / 2)) ut vt s3.
    Proof. apply start_of_spec. apply step_random_gen_eq. Qed.

    Theorem start_of_consumption_random_ass (b : bufs num (list (list num)) unit) :
      exists ut vt s3,
        start_of num A _ _ (step_random_ass num A K L) directed N K ul vl b
        = (tt, (ut, vt, fst (init_diag_random K L (strm _ _ _ b))), s3) /\
        start_post _ _ directed N K ul vl b (L * K) ut vt s3.
    Proof. apply start_of_spec. apply step_random_ass_eq. Qed.

    Theorem start_of_consumption_from_gen (b : bufs num (list (matrix num)) (option (list (matrix num)))) :
      let cache := cache_of (ic _ _ _ b) (cw _ _ _ b) in
      exists ut vt s3,
        start_of num A _ _ (step_from_gen num A K L) directed N K ul vl b
        = (Some cache, (ut, vt, fst (init_from_gen K L cache (strm _ _ _ b))), s3) /\
        start_post _ _ directed N K ul vl b (L * K * K) ut vt s3.
    Proof. intros cache. apply start_of_spec. apply step_from_gen_eq. Qed.

    Theorem start_of_consumption_from_ass (b : bufs num (list (list num)) (option (list (list num)))) :
      let cache := cache_of (ic _ _ _ b) (cw _ _ _ b) in
      exists ut vt s3,
        start_of num A _ _ (step_from_ass num A K L) directed N K ul vl b
        = (Some cache, (ut, vt, fst (init_from_ass K L cache (strm _ _ _ b))), s3) /\
        start_post _ _ directed N K ul vl b (L * K) ut vt s3.
    Proof. intros cache. apply start_of_spec. apply step_from_ass_eq. Qed.
  End StartSteps.
End InitProofs.

Print Assumptions init_rows_spec.
Print Assumptions init_rows_stream.
Print Assumptions init_rows_zeros_outside.
Print Assumptions init_sym_layer_spec.
Print Assumptions init_sym_layer_symmetric.
Print Assumptions pos_inj.
Print Assumptions pos_range.
Print Assumptions pos_surj.
Print Assumptions tri_closed.
Print Assumptions tri_total.
Print Assumptions init_sym_layer_closed.
Print Assumptions init_sym_random_spec.
Print Assumptions init_diag_random_spec.
Print Assumptions init_from_gen_spec.
Print Assumptions init_from_gen_stream.
Print Assumptions init_from_ass_spec.
Print Assumptions init_from_ass_stream.
Print Assumptions init_from_gen_spec'.
Print Assumptions init_from_ass_spec'.
Print Assumptions start_of_spec.
Print Assumptions start_of_consumption_random_gen.
Print Assumptions start_of_consumption_random_ass.
Print Assumptions start_of_consumption_from_gen.
Print Assumptions start_of_consumption_from_ass.
Print Assumptions step_from_gen_ignores_caller.
Print Assumptions step_from_ass_ignores_caller.
Print Assumptions step_from_gen_cache.
Print Assumptions step_from_ass_cache.
