From Coq Require Import Reals List Lra Lia Arith Bool.
Import ListNotations.
From MT Require Import Arith J MM SweepModel RInst SumLib.
Local Open Scope R_scope.

(* Block "u" of the directed general model: ascent of the Poisson log-likelihood under upd_vertices_gen *)
Section UBlock.
  Variables (N K L : nat) (adj : nat -> nat -> list nat) (numl denl : list nat).
  Variables (v u : matrix R) (w : nat -> nat -> nat -> R).
  Notation g := (mget R ArithR).

  (* well-formedness / invariant *)
  Hypothesis adj_lt : forall a i j, (a < L)%nat -> (i < N)%nat -> In j (adj a i) -> (j < N)%nat.
  Hypothesis u_nonneg : forall i k, 0 <= g u i k.
  Hypothesis v_nonneg : forall j q, 0 <= g v j q.
  Hypothesis w_nonneg : forall k q a, 0 <= w k q a.
  Hypothesis denl_nodup : NoDup denl.
  Hypothesis denl_lt : forall j, In j denl -> (j < N)%nat.
  Hypothesis v_zero_rows : forall j q, (j < N)%nat -> ~ In j denl -> g v j q = 0.

  (* dense quantities *)
  Definition s_ (j k a : nat) : R := sumR (fun q => g v j q * w k q a) (seq 0 K).
  Definition M_ (x : matrix R) (i j a : nat) : R := sumR (fun k => g x i k * s_ j k a) (seq 0 K).
  Definition Bk (k : nat) : R := sumR (fun a => sumR (fun j => s_ j k a) (seq 0 N)) (seq 0 L).
  Definition edges : list (nat * nat * nat) :=
    flat_map (fun a => flat_map (fun i => map (fun j => (a, i, j)) (adj a i)) (seq 0 N)) (seq 0 L).
  Definition LLu (x : matrix R) : R :=
    sumR (fun e => let '(a, i, j) := e in Rpower.ln (M_ x i j a)) edges
    - sumR (fun a => sumR (fun i => sumR (fun j => M_ x i j a) (seq 0 N)) (seq 0 N)) (seq 0 L).

  (* the step is "clean": every observed edge has rate above eps, nothing is truncated *)
  Hypothesis clean_rates : forall a i j, (a < L)%nat -> (i < N)%nat -> In j (adj a i) -> epsR < M_ u i j a.
  Definition u' : matrix R := upd_vertices_gen R ArithR N K L adj numl denl v u w.
  Hypothesis clean_trunc : forall i k, (i < N)%nat -> (k < K)%nat ->
    let x := g u i k / ZkR K L denl v w k * valR K L adj v u w i k in trunc R ArithR x = x.

  (* --- identification of the code quantities with the dense ones --- *)
  Lemma MijR_M i j a : MijR K v u w i j a = M_ u i j a.
  Proof.
    unfold MijR, M_, s_. apply sumR_ext. intros m _. rewrite <- sumR_scal. apply sumR_ext. intros l _. ring.
  Qed.

  Lemma ZkR_Bk k : ZkR K L denl v w k = Bk k.
  Proof.
    unfold ZkR, Bk, s_.
    transitivity (sumR (fun l => sumR (fun a => w k l a) (seq 0 L) * sumR (fun j => g v j l) (seq 0 N)) (seq 0 K)).
    { apply sumR_ext. intros l _. f_equal. apply sumR_sublist_dense; auto. }
    transitivity (sumR (fun l => sumR (fun a => sumR (fun j => g v j l * w k l a) (seq 0 N)) (seq 0 L)) (seq 0 K)).
    { apply sumR_ext. intros l _. rewrite Rmult_comm, <- sumR_scal. apply sumR_ext. intros a _.
      rewrite (Rmult_comm _ (w k l a)), <- sumR_scal. apply sumR_ext. intros j _. ring. }
    rewrite sumR_swap. apply sumR_ext. intros a _. rewrite sumR_swap. reflexivity.
  Qed.

  (* --- MM instance --- *)
  Definition cs : list (nat * nat) := list_prod (seq 0 N) (seq 0 K).
  Definition bcoef (e : nat * nat * nat) (c : nat * nat) : R :=
    let '(a, i, j) := e in let '(i', k) := c in if Nat.eqb i i' then s_ j k a else 0.
  Definition Bc (c : nat * nat) : R := Bk (snd c).
  Definition xc (x : matrix R) (c : nat * nat) : R := g x (fst c) (snd c).
  Definition updc (c : nat * nat) : bool :=
    existsb (Nat.eqb (fst c)) numl && Rltb epsR (Bk (snd c)) && Rltb epsR (g u (fst c) (snd c)).

  Lemma in_edges e : In e edges -> let '(a, i, j) := e in (a < L)%nat /\ (i < N)%nat /\ In j (adj a i).
  Proof.
    unfold edges. intros H. apply in_flat_map in H. destruct H as [a [Ha H]]. apply in_flat_map in H.
    destruct H as [i [Hi H]]. apply in_map_iff in H. destruct H as [j [<- Hj]].
    apply in_seq in Ha. apply in_seq in Hi. repeat split; try lia; assumption.
  Qed.

  Lemma s_nonneg j k a : 0 <= s_ j k a.
  Proof. unfold s_. apply sumR_nonneg. intros q _. apply Rmult_le_pos; auto. Qed.

  Lemma rate_is_M (x : matrix R) e : In e edges -> let '(a, i, j) := e in rate cs bcoef (xc x) e = M_ x i j a.
  Proof.
    intros He. pose proof (in_edges e He) as H. destruct e as [[a i] j]. destruct H as [Ha [Hi Hj]].
    unfold rate, cs. rewrite sumR_list_prod. unfold xc, bcoef. cbn [fst snd].
    transitivity (sumR (fun i' => if Nat.eqb i i' then sumR (fun k => g x i' k * s_ j k a) (seq 0 K) else 0) (seq 0 N)).
    { apply sumR_ext. intros i' _. destruct (Nat.eqb i i'); [reflexivity|].
      transitivity (sumR (fun _ : nat => 0) (seq 0 K)); [|apply sumR_zero]. apply sumR_ext. intros; ring. }
    rewrite (sumR_delta (fun i' => sumR (fun k => g x i' k * s_ j k a) (seq 0 K)) i N Hi). reflexivity.
  Qed.

  Lemma F_is_LL (x : matrix R) : F cs edges bcoef Bc (xc x) = LLu x.
  Proof.
    unfold F, LLu. f_equal.
    - apply sumR_ext. intros e He. pose proof (rate_is_M x e He) as H. destruct e as [[a i] j]. rewrite H. reflexivity.
    - unfold cs. rewrite sumR_list_prod. unfold xc, Bc, Bk. cbn [fst snd].
      (* sum_i sum_k x_ik * sum_a sum_j s = sum_a sum_i sum_j sum_k x_ik s *)
      transitivity (sumR (fun i => sumR (fun a => sumR (fun j => M_ x i j a) (seq 0 N)) (seq 0 L)) (seq 0 N)).
      { apply sumR_ext. intros i _.
        transitivity (sumR (fun k => sumR (fun a => sumR (fun j => g x i k * s_ j k a) (seq 0 N)) (seq 0 L)) (seq 0 K)).
        { apply sumR_ext. intros k _. rewrite <- sumR_scal. apply sumR_ext. intros a _. rewrite <- sumR_scal. reflexivity. }
        rewrite sumR_swap. apply sumR_ext. intros a _. rewrite sumR_swap. reflexivity. }
      rewrite sumR_swap. reflexivity.
  Qed.

  (* resp of coordinate (i,k) = u_ik * valR i k under clean rates *)
  Lemma resp_is_val i k : (i < N)%nat ->
    resp cs edges bcoef (xc u) (i, k) = g u i k * valR K L adj v u w i k.
  Proof.
    intros Hi. unfold resp, edges, valR. rewrite sumR_flat_map.
    rewrite <- sumR_scal. apply sumR_ext. intros a Ha. apply in_seq in Ha.
    rewrite sumR_flat_map.
    transitivity (sumR (fun i' => if Nat.eqb i' i then g u i k * sumR (fun j =>
                     if Rltb epsR (MijR K v u w i j a) then sumR (fun q => g v j q * w k q a) (seq 0 K) / MijR K v u w i j a else 0) (adj a i) else 0) (seq 0 N)).
    { apply sumR_ext. intros i' Hi'. apply in_seq in Hi'. rewrite sumR_map.
      destruct (Nat.eqb i' i) eqn:E.
      - apply Nat.eqb_eq in E. subst i'. rewrite <- sumR_scal. apply sumR_ext. intros j Hj.
        assert (He : In (a, i, j) edges).
        { unfold edges. apply in_flat_map. exists a. split; [apply in_seq; lia|]. apply in_flat_map. exists i. split; [apply in_seq; lia|].
          apply in_map. exact Hj. }
        unfold rho. pose proof (rate_is_M u (a, i, j) He) as Hr. cbn in Hr. rewrite Hr.
        rewrite MijR_M. assert (Hc : epsR < M_ u i j a) by (apply clean_rates; try lia; exact Hj).
        replace (Rltb epsR (M_ u i j a)) with true by (symmetry; apply Rltb_true; exact Hc).
        unfold xc, bcoef. cbn [fst snd]. rewrite Nat.eqb_refl. unfold s_. unfold Rdiv. ring.
      - transitivity (sumR (fun _ : nat => 0) (adj a i')); [|apply sumR_zero]. apply sumR_ext. intros j _.
        unfold rho, bcoef, xc. cbn [fst snd]. rewrite E. unfold Rdiv. ring. }
    transitivity (sumR (fun i' => if Nat.eqb i i' then g u i k * sumR (fun j =>
                     if Rltb epsR (MijR K v u w i j a) then sumR (fun q => g v j q * w k q a) (seq 0 K) / MijR K v u w i j a else 0) (adj a i) else 0) (seq 0 N)).
    { apply sumR_ext. intros i' _. rewrite Nat.eqb_sym. reflexivity. }
    rewrite (sumR_delta (fun _ => g u i k * sumR (fun j => if Rltb epsR (MijR K v u w i j a) then sumR (fun q => g v j q * w k q a) (seq 0 K) / MijR K v u w i j a else 0) (adj a i)) i N Hi).
    reflexivity.
  Qed.

  (* the code's new matrix is exactly the MM update *)
  Lemma code_is_mm c : In c cs -> xc u' c = x' cs edges bcoef Bc (xc u) updc c.
  Proof.
    intros Hc. destruct c as [i k]. unfold cs in Hc. apply in_prod_iff in Hc. destruct Hc as [Hi Hk].
    apply in_seq in Hi. apply in_seq in Hk.
    change (xc u' (i, k)) with (g u' i k). unfold u'. rewrite upd_entry by lia. unfold x'.
    change (updc (i, k)) with (existsb (Nat.eqb i) numl && Rltb epsR (Bk k) && Rltb epsR (g u i k))%bool.
    change (xc u (i, k)) with (g u i k). change (Bc (i, k)) with (Bk k).
    rewrite ZkR_Bk.
    destruct (existsb (Nat.eqb i) numl); cbn [andb]; [|reflexivity].
    destruct (Rltb epsR (Bk k)) eqn:EB; cbn [andb]; [|reflexivity].
    destruct (Rltb epsR (g u i k)) eqn:Eu; [|reflexivity].
    pose proof (clean_trunc i k ltac:(lia) ltac:(lia)) as Ht. cbv zeta in Ht. rewrite ZkR_Bk in Ht. rewrite Ht.
    rewrite (resp_is_val i k ltac:(lia)). apply Rltb_true in EB. unfold epsR in EB. field. lra.
  Qed.

  Theorem u_block_ascent : LLu u <= LLu u' /\
     (forall a i j, (a < L)%nat -> (i < N)%nat -> In j (adj a i) -> 0 < M_ u' i j a).
  Proof.
    assert (Hb : forall e c, In e edges -> In c cs -> 0 <= bcoef e c).
    { intros [[a i] j] [i' k] _ _. unfold bcoef. destruct (Nat.eqb i i'); [apply s_nonneg|lra]. }
    assert (Hx : forall c, In c cs -> 0 <= xc u c) by (intros c _; apply u_nonneg).
    assert (HB : forall c, In c cs -> updc c = true -> 0 < Bc c).
    { intros c _ H. unfold updc in H. apply andb_prop in H. destruct H as [H _]. apply andb_prop in H. destruct H as [_ H].
      apply Rltb_true in H. unfold Bc, epsR in *. lra. }
    assert (Hr : forall e, In e edges -> 0 < rate cs bcoef (xc u) e).
    { intros e He. pose proof (rate_is_M u e He) as H. pose proof (in_edges e He) as H2. destruct e as [[a i] j].
      rewrite H. destruct H2 as [Ha [Hi Hj]]. pose proof (clean_rates a i j Ha Hi Hj). unfold epsR in *. lra. }
    (* F (x') = F (xc u') because x' and xc u' agree on cs *)
    assert (Hagree : forall c, In c cs -> xc u' c = x' cs edges bcoef Bc (xc u) updc c) by (apply code_is_mm).
    assert (HF : F cs edges bcoef Bc (xc u') = F cs edges bcoef Bc (x' cs edges bcoef Bc (xc u) updc)).
    { unfold F, rate. f_equal.
      - apply sumR_ext. intros e _. f_equal. apply sumR_ext. intros c Hc. rewrite Hagree by exact Hc. reflexivity.
      - apply sumR_ext. intros c Hc. rewrite Hagree by exact Hc. reflexivity. }
    split.
    - rewrite <- !F_is_LL. rewrite HF. apply mm_ascent; assumption.
    - intros a i j Ha Hi Hj.
      assert (He : In (a, i, j) edges).
      { unfold edges. apply in_flat_map. exists a. split; [apply in_seq; lia|]. apply in_flat_map. exists i. split; [apply in_seq; lia|]. apply in_map. exact Hj. }
      pose proof (rate_is_M u' (a, i, j) He) as H. cbn in H. rewrite <- H.
      replace (rate cs bcoef (xc u') (a, i, j)) with (rate cs bcoef (x' cs edges bcoef Bc (xc u) updc) (a, i, j)).
      + apply mm_rate_pos; assumption.
      + unfold rate. apply sumR_ext. intros c Hc. rewrite Hagree by exact Hc. reflexivity.
  Qed.
End UBlock.
Check u_block_ascent.
Print Assumptions u_block_ascent.
