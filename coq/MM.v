From Coq Require Import Reals List Lra Lia Bool.
Import ListNotations.
From MT Require Import J.
Local Open Scope R_scope.

Lemma sumR_nonneg {A} (f : A -> R) l : (forall a, In a l -> 0 <= f a) -> 0 <= sumR f l.
Proof. induction l as [|a l IH]; simpl; intros H; [lra|]. pose proof (H a (or_introl eq_refl)). assert (0 <= sumR f l) by (apply IH; auto). lra. Qed.

Lemma sumR_term_le {A} (f : A -> R) l a : (forall a, In a l -> 0 <= f a) -> In a l -> f a <= sumR f l.
Proof.
  induction l as [|a0 l IH]; simpl; intros H Ha; [tauto|].
  assert (0 <= sumR f l) by (apply sumR_nonneg; auto).
  pose proof (H a0 (or_introl eq_refl)).
  destruct Ha as [->|Ha]; [lra|]. assert (f a <= sumR f l) by (apply IH; auto). lra.
Qed.

Lemma sumR_pos_exists {A} (f : A -> R) l : (forall a, In a l -> 0 <= f a) -> 0 < sumR f l -> exists a, In a l /\ 0 < f a.
Proof.
  induction l as [|a l IH]; simpl; intros H Hp; [lra|].
  destruct (Rle_lt_or_eq_dec _ _ (H a (or_introl eq_refl))) as [Hlt|Heq].
  - exists a; auto.
  - destruct IH as [a' [Ha' Hf]]; auto. lra. exists a'; auto.
Qed.

Lemma sumR_swap {A B} (f : A -> B -> R) la lb :
  sumR (fun a => sumR (fun b => f a b) lb) la = sumR (fun b => sumR (fun a => f a b) la) lb.
Proof.
  induction la as [|a la IH]; simpl.
  - induction lb as [|b lb IHb]; simpl; [reflexivity|]. rewrite <- IHb; lra.
  - rewrite IH. rewrite <- sumR_plus. reflexivity.
Qed.

Lemma sumR_minus {A} (f g : A -> R) l : sumR (fun a => f a - g a) l = sumR f l - sumR g l.
Proof. induction l as [|a l IH]; simpl; [lra|]. rewrite IH; lra. Qed.

Lemma ln_ge_1_minus_inv y : 0 < y -> 1 - / y <= ln y.
Proof.
  intros Hy. assert (Hi : 0 < / y) by (apply Rinv_0_lt_compat; exact Hy).
  pose proof (ln_le_minus_1 (/ y) Hi) as H. rewrite ln_Rinv in H by exact Hy. lra.
Qed.

Section MM.
  Context {C E : Type}.
  Variables (cs : list C) (es : list E).
  Variables (b : E -> C -> R) (B : C -> R) (x : C -> R) (upd : C -> bool).
  Hypothesis b_nonneg : forall e c, In e es -> In c cs -> 0 <= b e c.
  Hypothesis x_nonneg : forall c, In c cs -> 0 <= x c.
  Hypothesis B_pos : forall c, In c cs -> upd c = true -> 0 < B c.

  Definition rate (y : C -> R) (e : E) : R := sumR (fun c => y c * b e c) cs.
  Hypothesis rate_pos : forall e, In e es -> 0 < rate x e.

  Definition rho (e : E) (c : C) : R := x c * b e c / rate x e.
  Definition resp (c : C) : R := sumR (fun e => rho e c) es.
  Definition x' (c : C) : R := if upd c then resp c / B c else x c.
  Definition F (y : C -> R) : R := sumR (fun e => ln (rate y e)) es - sumR (fun c => y c * B c) cs.

  Lemma rho_nonneg e c : In e es -> In c cs -> 0 <= rho e c.
  Proof.
    intros He Hc. unfold rho, Rdiv. apply Rmult_le_pos.
    - apply Rmult_le_pos; auto.
    - left. apply Rinv_0_lt_compat. auto.
  Qed.

  Lemma resp_nonneg c : In c cs -> 0 <= resp c.
  Proof. intros Hc. apply sumR_nonneg. intros e He. apply rho_nonneg; auto. Qed.

  Lemma x'_nonneg c : In c cs -> 0 <= x' c.
  Proof.
    intros Hc. unfold x'. destruct (upd c) eqn:Hu; [|auto].
    unfold Rdiv. apply Rmult_le_pos; [apply resp_nonneg; auto|]. left. apply Rinv_0_lt_compat. auto.
  Qed.

  Lemma x'_pos e c : In e es -> In c cs -> 0 < x c * b e c -> 0 < x' c.
  Proof.
    intros He Hc Hpos.
    assert (Hx : 0 < x c).
    { destruct (Rle_lt_or_eq_dec _ _ (x_nonneg c Hc)) as [H|H]; [exact H|]. rewrite <- H in Hpos. lra. }
    unfold x'. destruct (upd c) eqn:Hu; [|exact Hx].
    apply Rdiv_lt_0_compat; [|auto].
    assert (Hr : 0 < rho e c). { unfold rho. apply Rdiv_lt_0_compat; auto. }
    assert (rho e c <= resp c).
    { unfold resp. apply (sumR_term_le (fun e => rho e c)); [|exact He]. intros e' He'. apply rho_nonneg; auto. }
    lra.
  Qed.

  Theorem mm_rate_pos e : In e es -> 0 < rate x' e.
  Proof.
    intros He. destruct (sumR_pos_exists (fun c => x c * b e c) cs) as [c [Hc Hpos]].
    - intros c Hc. apply Rmult_le_pos; auto.
    - apply rate_pos; exact He.
    - assert (Hx' : 0 < x' c) by (apply (x'_pos e); auto).
      assert (Hb : 0 < b e c).
      { destruct (Rle_lt_or_eq_dec _ _ (b_nonneg e c He Hc)) as [H|H]; [exact H|]. rewrite <- H in Hpos. lra. }
      assert (Hterm : 0 < x' c * b e c) by (apply Rmult_lt_0_compat; assumption).
      assert (x' c * b e c <= rate x' e).
      { unfold rate. apply (sumR_term_le (fun c => x' c * b e c)); [|exact Hc].
        intros c' Hc'. apply Rmult_le_pos; [apply x'_nonneg|]; auto. }
      lra.
  Qed.

  (* ratio, defined to be 1 where x vanishes *)
  Definition yr (c : C) : R := if Rlt_dec 0 (x c) then x' c / x c else 1.

  Lemma x'_eq c : In c cs -> x' c = x c * yr c.
  Proof.
    intros Hc. unfold yr. destruct (Rlt_dec 0 (x c)) as [Hx|Hx].
    - field. lra.
    - assert (Hx0 : x c = 0) by (pose proof (x_nonneg c Hc); lra).
      rewrite Hx0, Rmult_0_l. unfold x'. destruct (upd c); [|exact Hx0].
      unfold resp. replace (sumR (fun e => rho e c) es) with 0; [unfold Rdiv; ring|].
      symmetry. transitivity (sumR (fun _ : E => 0) es).
      + apply sumR_ext. intros e _. unfold rho. rewrite Hx0. unfold Rdiv. ring.
      + clear. induction es as [|e l IH]; simpl; [reflexivity|]. rewrite IH. ring.
  Qed.

  Lemma sum_rho e : In e es -> sumR (fun c => rho e c) cs = 1.
  Proof.
    intros He. unfold rho. transitivity (/ rate x e * rate x e).
    - change (rate x e) with (sumR (fun c => x c * b e c) cs) at 3. rewrite <- sumR_scal. apply sumR_ext. intros; unfold Rdiv; ring.
    - apply Rinv_l. pose proof (rate_pos e He). lra.
  Qed.

  Lemma rate_x'_eq e : In e es -> rate x' e = rate x e * sumR (fun c => rho e c * yr c) cs.
  Proof.
    intros He. unfold rate at 1. rewrite <- sumR_scal. apply sumR_ext. intros c Hc.
    rewrite (x'_eq c Hc). unfold rho. field. pose proof (rate_pos e He). lra.
  Qed.

  Lemma ln_gain e : In e es -> sumR (fun c => rho e c * ln (yr c)) cs <= ln (rate x' e) - ln (rate x e).
  Proof.
    intros He. pose proof (rate_pos e He) as Hr. pose proof (mm_rate_pos e He) as Hr'.
    rewrite (rate_x'_eq e He) in Hr' |- *.
    assert (Hs : 0 < sumR (fun c => rho e c * yr c) cs).
    { destruct (Rlt_dec 0 (sumR (fun c => rho e c * yr c) cs)) as [H|H]; [exact H|].
      exfalso. assert (rate x e * sumR (fun c => rho e c * yr c) cs <= 0); [|lra].
      apply Rnot_lt_le in H. replace 0 with (rate x e * 0) by ring. apply Rmult_le_compat_l; lra. }
    rewrite ln_mult by assumption.
    replace (ln (rate x e) + ln (sumR (fun c => rho e c * yr c) cs) - ln (rate x e))
      with (ln (sumR (fun c => rho e c * yr c) cs)) by ring.
    apply jensen_ln.
    - intros c Hc. apply rho_nonneg; auto.
    - intros c Hc Hrho. unfold yr. destruct (Rlt_dec 0 (x c)) as [Hx|Hx]; [|lra].
      apply Rdiv_lt_0_compat; [|exact Hx]. apply (x'_pos e); auto.
      unfold rho in Hrho. unfold Rdiv in Hrho.
      destruct (Rle_lt_or_eq_dec 0 (x c * b e c)) as [H|H]; [apply Rmult_le_pos; auto|exact H|].
      rewrite <- H in Hrho. lra.
    - apply sum_rho; exact He.
    - exact Hs.
  Qed.

  Lemma coord_gain c : In c cs -> 0 <= resp c * ln (yr c) - (x' c - x c) * B c.
  Proof.
    intros Hc. pose proof (resp_nonneg c Hc) as Hresp. pose proof (x_nonneg c Hc) as Hx0.
    unfold yr. destruct (Rlt_dec 0 (x c)) as [Hx|Hx].
    - unfold x'. destruct (upd c) eqn:Hu.
      + pose proof (B_pos c Hc Hu) as HB.
        destruct (Rle_lt_or_eq_dec _ _ Hresp) as [Hr|Hr].
        * set (y := resp c / B c / x c).
          assert (Hy : 0 < y) by (unfold y; repeat apply Rdiv_lt_0_compat; assumption).
          pose proof (ln_ge_1_minus_inv y Hy) as Hln.
          assert (Hxy : x c * B c = resp c * / y). { unfold y. field. repeat split; lra. }
          replace ((resp c / B c - x c) * B c) with (resp c - x c * B c) by (field; lra).
          rewrite Hxy.
          replace (resp c * ln y - (resp c - resp c * / y)) with (resp c * (ln y - (1 - / y))) by ring.
          apply Rmult_le_pos; lra.
        * rewrite <- Hr. unfold Rdiv. rewrite !Rmult_0_l.
          replace (0 - (0 - x c) * B c) with (x c * B c) by ring. apply Rmult_le_pos; lra.
      + replace (x c / x c) with 1 by (field; lra). rewrite ln_1. lra.
    - assert (Hxz : x c = 0) by lra. rewrite (x'_eq c Hc), Hxz, ln_1. lra.
  Qed.

  Theorem mm_ascent : F x <= F x'.
  Proof.
    unfold F.
    assert (H1 : sumR (fun e => sumR (fun c => rho e c * ln (yr c)) cs) es
                 <= sumR (fun e => ln (rate x' e)) es - sumR (fun e => ln (rate x e)) es).
    { rewrite <- sumR_minus. apply sumR_le. intros e He. apply ln_gain; exact He. }
    rewrite sumR_swap in H1.
    assert (H2 : sumR (fun c => sumR (fun e => rho e c * ln (yr c)) es) cs = sumR (fun c => resp c * ln (yr c)) cs).
    { apply sumR_ext. intros c _. unfold resp. rewrite Rmult_comm, <- sumR_scal. apply sumR_ext. intros; ring. }
    rewrite H2 in H1.
    assert (H3 : 0 <= sumR (fun c => resp c * ln (yr c) - (x' c - x c) * B c) cs).
    { apply sumR_nonneg. intros c Hc. apply coord_gain; exact Hc. }
    rewrite sumR_minus in H3.
    assert (H4 : sumR (fun c => (x' c - x c) * B c) cs = sumR (fun c => x' c * B c) cs - sumR (fun c => x c * B c) cs).
    { rewrite <- sumR_minus. apply sumR_ext. intros; ring. }
    rewrite H4 in H3. lra.
  Qed.
End MM.
Check @mm_ascent.
Print Assumptions mm_ascent.
