(* GuardLik.v -- comparison operator of the log-argument guard of the likelihood (C06) *)
From Coq Require Import List String Bool.
Import ListNotations.
From MT Require Import GenGuards GuardDefs.
Local Open Scope string_scope.

Lemma likelihood_guard : map (fun r => (g_lhs r, g_op r)) (filter is_lik cxx_guards) = [("log_arg", ">")].
Proof. reflexivity. Qed.
