(* LayoutProofs.v -- proofs about the storage layout (C18): range, bijection, transposed view,
   the flat affinity vector of the model, the writer's and the generated C++ index expressions. *)
From Coq Require Import Arith List Lia ZArith.
Import ListNotations.
From MT Require Import Arith SweepModel MainModel Layout GenLayout GenCliIdx.
Require Import ZifyNat.
Ltac Zify.zify_post_hook ::= Z.div_mod_to_equations.

Lemma idx_in_range R C T i j a : i < R -> j < C -> a < T -> idx R C T i j a < R * C * T.
Proof.
  unfold idx. intros Hi Hj Ha.
  assert (H1 : a * R * C + R * C <= T * (R * C)).
  { replace (a * R * C + R * C) with (S a * (R * C)) by ring. apply Nat.mul_le_mono_r. lia. }
  assert (H2 : j * R + R <= C * R).
  { replace (j * R + R) with (S j * R) by ring. apply Nat.mul_le_mono_r. lia. }
  lia.
Qed.

Lemma unidx_idx R C T i j a : i < R -> j < C -> a < T -> unidx R C T (idx R C T i j a) = (i, j, a).
Proof.
  unfold idx, unidx. intros Hi Hj Ha.
  assert (HR : R <> 0) by lia. assert (HC : C <> 0) by lia.
  assert (E1 : (a * R * C + j * R + i) mod R = i).
  { replace (a * R * C + j * R + i) with (i + (j + a * C) * R) by ring.
    rewrite Nat.mod_add by exact HR. apply Nat.mod_small; exact Hi. }
  assert (E2 : (a * R * C + j * R + i) / R = j + a * C).
  { replace (a * R * C + j * R + i) with (i + (j + a * C) * R) by ring.
    rewrite Nat.div_add by exact HR. rewrite (Nat.div_small i R) by exact Hi. reflexivity. }
  assert (E3 : (a * R * C + j * R + i) / (R * C) = a).
  { replace (a * R * C + j * R + i) with ((i + j * R) + a * (R * C)) by ring.
    assert (H2 : j * R + R <= C * R).
    { replace (j * R + R) with (S j * R) by ring. apply Nat.mul_le_mono_r. lia. }
    rewrite Nat.div_add by nia. rewrite Nat.div_small by lia. reflexivity. }
  rewrite E1, E2, E3. rewrite Nat.mod_add by exact HC. rewrite Nat.mod_small by exact Hj. reflexivity.
Qed.

Lemma idx_injective R C T i j a i' j' a' :
  i < R -> j < C -> a < T -> i' < R -> j' < C -> a' < T ->
  idx R C T i j a = idx R C T i' j' a' -> (i, j, a) = (i', j', a').
Proof.
  intros Hi Hj Ha Hi' Hj' Ha' E.
  rewrite <- (unidx_idx R C T i j a), <- (unidx_idx R C T i' j' a') by assumption. now rewrite E.
Qed.

Lemma idx_unidx R C T p : p < R * C * T ->
  let '(i, j, a) := unidx R C T p in i < R /\ j < C /\ a < T /\ idx R C T i j a = p.
Proof.
  unfold unidx, idx. intros Hp.
  assert (HR : R <> 0) by nia. assert (HC : C <> 0) by nia.
  split; [apply Nat.mod_upper_bound; exact HR|]. split; [apply Nat.mod_upper_bound; exact HC|].
  split.
  - apply Nat.div_lt_upper_bound; [nia|nia].
  - pose proof (Nat.div_mod p R HR). pose proof (Nat.div_mod (p / R) C HC).
    rewrite <- (Nat.div_div p R C HR HC). nia.
Qed.

Lemma cxx_idx_is_idx R C T i j a : cxx_idx R C T i j a = idx R C T i j a.
Proof. unfold cxx_idx, idx. ring. Qed.

Lemma writer_gen_is_idx K L k q a : cxx_writer_idx_gen K L k q a = idx_gen K L k q a.
Proof. unfold cxx_writer_idx_gen, idx_gen, idx. ring. Qed.
Lemma writer_ass_is_idx K L k a : cxx_writer_idx_ass K L k a = idx_ass K L k a.
Proof. unfold cxx_writer_idx_ass, idx_ass, idx. ring. Qed.

(* ---- the model's flat affinity vector uses the layout ---- *)
Section Flat.
  Variable num : Type.
  Variable A : Arith num.

  Lemma flat_map_const_length {X Y} (f : X -> list Y) (l : list X) n :
    (forall x, In x l -> length (f x) = n) -> length (flat_map f l) = length l * n.
  Proof.
    induction l as [|x l IH]; intros H; cbn [flat_map length]; [reflexivity|].
    rewrite app_length, H by (left; reflexivity). rewrite IH by (intros y Hy; apply H; right; exact Hy). lia.
  Qed.

  Lemma nth_flat_map_seq {Y} (f : nat -> list Y) (n m : nat) (d : Y) :
    (forall a, a < n -> length (f a) = m) ->
    forall a r, a < n -> r < m -> nth (a * m + r) (flat_map f (seq 0 n)) d = nth r (f a) d.
  Proof.
    intros Hlen. 
    assert (G : forall s n', (forall a, s <= a < s + n' -> length (f a) = m) ->
                forall a r, a < n' -> r < m -> nth (a * m + r) (flat_map f (seq s n')) d = nth r (f (s + a)) d).
    { intros s n'. revert s. induction n' as [|n' IH]; intros s Hl a r Ha Hr; [lia|].
      cbn [seq flat_map]. destruct a as [|a].
      - rewrite app_nth1 by (rewrite Hl by lia; lia). rewrite Nat.add_0_r. reflexivity.
      - rewrite app_nth2 by (rewrite Hl by lia; lia). rewrite Hl by lia.
        replace (S a * m + r - m) with (a * m + r) by lia.
        rewrite IH by (try (intros; apply Hl); lia). f_equal. f_equal. lia. }
    intros a r Ha Hr. rewrite G; auto. intros; apply Hlen; lia.
  Qed.

  Lemma flat_of_w_gen_length K L w : length (flat_of_w_gen num A K L w) = K * K * L.
  Proof.
    unfold flat_of_w_gen. rewrite (flat_map_const_length _ _ (K * K)).
    - rewrite seq_length. lia.
    - intros a _. rewrite (flat_map_const_length _ _ K); [rewrite seq_length; lia|].
      intros q _. rewrite map_length, seq_length. reflexivity.
  Qed.

  Lemma flat_of_w_gen_nth K L w k q a : k < K -> q < K -> a < L ->
    nth (idx_gen K L k q a) (flat_of_w_gen num A K L w) (zero A) = tget num A w k q a.
  Proof.
    intros Hk Hq Ha. unfold idx_gen, idx, flat_of_w_gen.
    replace (a * K * K + q * K + k) with (a * (K * K) + (q * K + k)) by ring.
    rewrite (nth_flat_map_seq _ L (K * K)); [| |exact Ha|nia].
    - rewrite (nth_flat_map_seq _ K K); [| |exact Hq|exact Hk].
      + rewrite (nth_indep _ _ (tget num A w 0 q a)) by (rewrite map_length, seq_length; exact Hk).
        rewrite (map_nth (fun k => tget num A w k q a)). rewrite seq_nth by exact Hk. reflexivity.
      + intros q' _. rewrite map_length, seq_length. reflexivity.
    - intros a' _. rewrite (flat_map_const_length _ _ K); [rewrite seq_length; lia|].
      intros q' _. rewrite map_length, seq_length. reflexivity.
  Qed.

  Lemma flat_of_w_ass_length K L w : length (flat_of_w_ass num A K L w) = K * L.
  Proof.
    unfold flat_of_w_ass. rewrite (flat_map_const_length _ _ K).
    - rewrite seq_length. lia.
    - intros a _. rewrite map_length, seq_length. reflexivity.
  Qed.

  Lemma flat_of_w_ass_nth K L w k a : k < K -> a < L ->
    nth (idx_ass K L k a) (flat_of_w_ass num A K L w) (zero A) = dget num A w k a.
  Proof.
    intros Hk Ha. unfold idx_ass, idx, flat_of_w_ass.
    replace (a * K * 1 + 0 * K + k) with (a * K + k) by ring.
    rewrite (nth_flat_map_seq _ L K); [| |exact Ha|exact Hk].
    - rewrite (nth_indep _ _ (dget num A w 0 a)) by (rewrite map_length, seq_length; exact Hk).
      rewrite (map_nth (fun k => dget num A w k a)). rewrite seq_nth by exact Hk. reflexivity.
    - intros a' _. rewrite map_length, seq_length. reflexivity.
  Qed.

  Lemma nth_map_seq' {B} (f : nat -> B) (d : B) n i : i < n -> nth i (map f (seq 0 n)) d = f i.
  Proof.
    intros Hi. rewrite (nth_indep _ d (f 0)) by (rewrite map_length, seq_length; exact Hi).
    rewrite (map_nth f (seq 0 n) 0 i). rewrite seq_nth by exact Hi. reflexivity.
  Qed.

  (* reading a flat vector into the model's tensor uses the same positions *)
  Lemma w_of_flat_gen_get K L f k q a : k < K -> q < K -> a < L ->
    tget num A (w_of_flat_gen num A K L f) k q a = nth (idx_gen K L k q a) f (zero A).
  Proof.
    intros Hk Hq Ha. unfold tget, w_of_flat_gen, mget, mtab.
    rewrite (nth_map_seq' (B:=list (list num)) _ [] L a Ha). rewrite (nth_map_seq' (B:=list num) _ [] K k Hk). rewrite (nth_map_seq' _ _ K q Hq).
    unfold idx_gen, idx. f_equal. ring.
  Qed.
  Lemma w_of_flat_ass_get K L f k a : k < K -> a < L ->
    dget num A (w_of_flat_ass num A K L f) k a = nth (idx_ass K L k a) f (zero A).
  Proof.
    intros Hk Ha. unfold dget, w_of_flat_ass.
    rewrite (nth_map_seq' (B:=list num) _ [] L a Ha). rewrite (nth_map_seq' _ _ K k Hk).
    unfold idx_ass, idx. f_equal. ring.
  Qed.
End Flat.
