(* GraphMult.v -- edge multiplicities of the network built by GraphModel.build.

   M1 mult_directed        : #parallel edges i->j in layer a (seen from lout and from lin)
                             = sum of the multiplicities of the matching records
   M2 mult_undirected      : same for an undirected layer (both orientations contribute,
                             a self-loop record contributes 2*c)
   M3 pairs_perm_directed  : Permutation (pairs_out a) (pairs_in a)
   M4 pairs_sym_undirected : Permutation (pairs_out a) (map swap (pairs_out a))
   M5 expand_same_build    : a record with integer multiplicities = max_a c_a unit records

   Only the standard library is used; the only hypothesis is that leqb decides equality. *)
From Coq Require Import List Arith Bool Lia Permutation.
Import ListNotations.
From MT Require Import Arith SweepModel GraphModel.

(* The oriented edge lists, stated exactly as in Chain.v *)
Section Pairs.
  Variables (out inn : nat -> nat -> list nat) (N : nat).
  Definition pairs_out (a : nat) : list (nat * nat) := flat_map (fun i => map (fun j => (i, j)) (out a i)) (seq 0 N).
  Definition pairs_in (a : nat) : list (nat * nat) := flat_map (fun j => map (fun i => (i, j)) (inn a j)) (seq 0 N).
End Pairs.

(* ------------------------------------------------------------------------------------ *)
(* generic list lemmas                                                                  *)
(* ------------------------------------------------------------------------------------ *)
Definition b2n (b : bool) : nat := if b then 1 else 0.

Lemma fm_ext_in {A B} (f g : A -> list B) l :
  (forall a, In a l -> f a = g a) -> flat_map f l = flat_map g l.
Proof. induction l; simpl; intros H; auto. rewrite H by auto. rewrite IHl; auto. Qed.

Lemma fm_ins {A} (F G : nat -> list A) s p idx :
  NoDup idx -> In s idx -> (forall i, i <> s -> G i = F i) -> G s = F s ++ [p] ->
  Permutation (p :: flat_map F idx) (flat_map G idx).
Proof.
  intros ND IN HE HS. induction idx as [|a idx IH]; [inversion IN|].
  inversion ND as [|? ? Hn ND']; subst. simpl. destruct (Nat.eq_dec a s) as [->|ne].
  - rewrite HS. rewrite (fm_ext_in G F idx).
    + rewrite <- app_assoc. simpl. apply Permutation_middle.
    + intros i Hi. apply HE. intro; subst; contradiction.
  - rewrite (HE a ne). destruct IN as [|IN]; [contradiction|].
    eapply perm_trans; [apply Permutation_middle|]. apply Permutation_app_head. apply IH; auto.
Qed.

Lemma nth_app_at : forall s x ls i, s < length ls ->
  nth i (app_at s x ls) [] = if i =? s then nth s ls [] ++ [x] else nth i ls [].
Proof.
  induction s; intros x ls i H; destruct ls as [|l r]; simpl in *; try lia.
  - destruct i; reflexivity.
  - destruct i; simpl; [reflexivity|]. apply IHs. lia.
Qed.

Lemma length_app_at : forall s x ls, length (app_at s x ls) = length ls.
Proof. induction s; intros; destruct ls; simpl; auto. Qed.

Lemma nth_grow_list : forall (ls : list (list nat)) i, nth i (ls ++ [[]]) [] = nth i ls [].
Proof.
  intros. destruct (Nat.lt_ge_cases i (length ls)).
  - apply app_nth1; auto.
  - rewrite app_nth2 by lia. rewrite (nth_overflow ls) by lia.
    destruct (i - length ls) as [|k]; [reflexivity|destruct k; reflexivity].
Qed.

Lemma pairs_app_at {A} (f : nat -> nat -> A) s x ls N : s < N -> length ls = N ->
  Permutation (f s x :: flat_map (fun i => map (f i) (nth i ls [])) (seq 0 N))
              (flat_map (fun i => map (f i) (nth i (app_at s x ls) [])) (seq 0 N)).
Proof.
  intros. apply (fm_ins (fun i => map (f i) (nth i ls []))
                        (fun i => map (f i) (nth i (app_at s x ls) [])) s).
  - apply seq_NoDup.
  - apply in_seq; lia.
  - intros i ne. rewrite nth_app_at by lia. destruct (Nat.eqb_spec i s); [contradiction|reflexivity].
  - rewrite nth_app_at by lia. rewrite Nat.eqb_refl, map_app. reflexivity.
Qed.

Lemma count_single x j : count_occ Nat.eq_dec [x] j = b2n (j =? x).
Proof. simpl. destruct (Nat.eq_dec x j), (Nat.eqb_spec j x); simpl; congruence. Qed.

Lemma count_app_at s x ls i j : s < length ls ->
  count_occ Nat.eq_dec (nth i (app_at s x ls) []) j
  = count_occ Nat.eq_dec (nth i ls []) j + b2n ((i =? s) && (j =? x)).
Proof.
  intros. rewrite nth_app_at by auto. destruct (Nat.eqb_spec i s); simpl.
  - subst. rewrite count_occ_app, count_single. reflexivity.
  - lia.
Qed.

Lemma fold_add_sum l : forall a, fold_left Nat.add l a = a + list_sum l.
Proof. induction l; simpl; intros. lia. rewrite IHl. lia. Qed.

Lemma iter_add {T} (f : T -> T) a : forall b x, iter (a + b) f x = iter b f (iter a f x).
Proof. induction a; simpl; intros; auto. Qed.

Definition swap (p : nat * nat) : nat * nat := (snd p, fst p).

(* ------------------------------------------------------------------------------------ *)
Section GraphMult.
  Variable label : Type.
  Variable leqb : label -> label -> bool.
  Hypothesis leqb_spec : forall a b, leqb a b = true <-> a = b.

  Notation net := (net label).
  (* GraphModel declares `Arguments lout {_}`, which makes the layer argument itself implicit *)
  Notation lout := (@GraphModel.lout).
  Notation lin := (@GraphModel.lin).
  Notation lookup := (lookup label leqb).
  Notation lookup_from := (lookup_from label leqb).
  Notation tbl := (tbl label).
  Notation lays := (lays label).
  Notation nedges := (nedges label).
  Notation add_vertex := (add_vertex label leqb).
  Notation add_record := (add_record label leqb).
  Notation empty_net := (empty_net label).
  Notation build := (build label leqb).
  Notation graph_of := (graph_of label).
  Notation record := (label * label * list nat)%type.

  Lemma leqb_refl l : leqb l l = true.
  Proof. apply leqb_spec; reflexivity. Qed.

  (* ---------------- lookup ---------------- *)
  Lemma lookup_from_some : forall l t k i, lookup_from l t k = Some i ->
    k <= i /\ nth_error t (i - k) = Some l.
  Proof.
    induction t; simpl; intros k i H; [discriminate|].
    destruct (leqb l a) eqn:E.
    - inversion H; subst. apply leqb_spec in E; subst. split; auto.
      rewrite Nat.sub_diag. reflexivity.
    - apply IHt in H. destruct H. split; [lia|].
      replace (i - k) with (S (i - S k)) by lia. simpl. auto.
  Qed.

  Lemma lookup_some l t i : lookup l t = Some i -> nth_error t i = Some l.
  Proof. intros H. apply lookup_from_some in H. rewrite Nat.sub_0_r in H. tauto. Qed.

  Lemma lookup_from_none : forall l t k, lookup_from l t k = None -> ~ In l t.
  Proof.
    induction t; simpl; intros k H; auto.
    destruct (leqb l a) eqn:E; [discriminate|]. intros [->|HI].
    - rewrite leqb_refl in E. discriminate.
    - eapply IHt; eauto.
  Qed.

  Lemma lookup_from_app : forall l t x k, lookup_from l (t ++ [x]) k =
    match lookup_from l t k with
    | Some i => Some i
    | None => if leqb l x then Some (k + length t) else None
    end.
  Proof.
    induction t; simpl; intros.
    - rewrite Nat.add_0_r; reflexivity.
    - destruct (leqb l a); auto. rewrite IHt.
      replace (S k + length t) with (k + S (length t)) by lia. reflexivity.
  Qed.

  Lemma lookup_from_nth : forall t l i k, NoDup t -> nth_error t i = Some l ->
    lookup_from l t k = Some (k + i).
  Proof.
    induction t; intros l i k ND H; [destruct i; discriminate|].
    inversion ND; subst. destruct i; simpl in *.
    - inversion H; subst. rewrite leqb_refl. f_equal; lia.
    - destruct (leqb l a) eqn:E.
      + apply leqb_spec in E; subst. apply nth_error_In in H. contradiction.
      + rewrite (IHt l i (S k)); auto. f_equal; lia.
  Qed.

  Lemma lookup_nth t l i : NoDup t -> nth_error t i = Some l -> lookup l t = Some i.
  Proof. intros. unfold GraphModel.lookup. rewrite (lookup_from_nth t l i 0); auto. Qed.

  Lemma lookup_eqb a b t i j : lookup a t = Some i -> lookup b t = Some j -> (i =? j) = leqb a b.
  Proof.
    intros Ha Hb. destruct (leqb a b) eqn:E.
    - apply leqb_spec in E; subst. rewrite Ha in Hb. inversion Hb. apply Nat.eqb_refl.
    - apply lookup_some in Ha. apply lookup_some in Hb. destruct (Nat.eqb_spec i j); auto. subst. rewrite Ha in Hb. inversion Hb; subst.
      rewrite leqb_refl in E. discriminate.
  Qed.

  Lemma lookup_none_neq a b t i : lookup a t = None -> lookup b t = Some i -> leqb a b = false.
  Proof.
    intros Ha Hb. destruct (leqb a b) eqn:E; auto. apply leqb_spec in E; subst. congruence.
  Qed.

  (* ---------------- per-layer invariant ---------------- *)
  Definition lpo (N : nat) (y : layer) : list (nat * nat) :=
    flat_map (fun i => map (fun j => (i, j)) (nth i (lout y) [])) (seq 0 N).
  Definition lpi (N : nat) (y : layer) : list (nat * nat) :=
    flat_map (fun j => map (fun i => (i, j)) (nth j (lin y) [])) (seq 0 N).
  Definition Q (d : bool) (N : nat) (y : layer) : Prop :=
    if d then Permutation (lpo N y) (lpi N y) else Permutation (lpo N y) (map swap (lpo N y)).

  Record LP (d : bool) (N : nat) (y : layer) : Prop := {
    lp_lo : length (lout y) = N;
    lp_li : length (lin y) = N;
    lp_bo : forall i x, In x (nth i (lout y) []) -> x < N;
    lp_bi : forall i x, In x (nth i (lin y) []) -> x < N;
    lp_q : Q d N y }.

  Lemma LP_empty d : LP d 0 empty_layer.
  Proof.
    split; simpl; auto.
    - intros i x; destruct i; simpl; tauto.
    - intros i x; destruct i; simpl; tauto.
    - destruct d; simpl; constructor.
  Qed.

  Lemma lpo_grow N y : length (lout y) = N -> lpo (S N) (grow y) = lpo N y.
  Proof.
    intros H. unfold lpo. rewrite seq_S, flat_map_app. simpl.
    rewrite nth_grow_list, (nth_overflow (lout y)) by lia. simpl. rewrite app_nil_r.
    apply flat_map_ext. intros i. rewrite nth_grow_list. reflexivity.
  Qed.

  Lemma lpi_grow N y : length (lin y) = N -> lpi (S N) (grow y) = lpi N y.
  Proof.
    intros H. unfold lpi. rewrite seq_S, flat_map_app. simpl.
    rewrite nth_grow_list, (nth_overflow (lin y)) by lia. simpl. rewrite app_nil_r.
    apply flat_map_ext. intros i. rewrite nth_grow_list. reflexivity.
  Qed.

  Lemma LP_grow d N y : LP d N y -> LP d (S N) (grow y).
  Proof.
    intros [Ho Hi Bo Bi HQ]. split; simpl.
    - rewrite app_length; simpl; lia.
    - rewrite app_length; simpl; lia.
    - intros i x. rewrite nth_grow_list. intros HI. apply Bo in HI. lia.
    - intros i x. rewrite nth_grow_list. intros HI. apply Bi in HI. lia.
    - unfold Q in *. rewrite lpo_grow by auto. destruct d; [rewrite lpi_grow by auto|]; auto.
  Qed.

  Lemma in_app_at s x ls i z : s < length ls ->
    In z (nth i (app_at s x ls) []) -> In z (nth i ls []) \/ z = x.
  Proof.
    intros H. rewrite nth_app_at by auto. destruct (Nat.eqb_spec i s); auto.
    subst. intros HI. apply in_app_or in HI. destruct HI as [|[|[]]]; auto.
  Qed.

  Lemma LP_add_edge1 d N s t y : s < N -> t < N -> LP d N y -> LP d N (add_edge1 d s t y).
  Proof.
    intros Hs Ht [Ho Hi Bo Bi HQ]. unfold GraphModel.add_edge1. destruct d; split; simpl; auto.
    - rewrite length_app_at; auto.
    - rewrite length_app_at; auto.
    - intros i x HI. apply in_app_at in HI; [|lia]. destruct HI; [eauto|lia].
    - intros i x HI. apply in_app_at in HI; [|lia]. destruct HI; [eauto|lia].
    - unfold Q, lpo, lpi in *. simpl.
      eapply perm_trans; [apply Permutation_sym, (pairs_app_at (fun i j => (i, j))); auto|].
      eapply perm_trans; [apply perm_skip, HQ|].
      apply (pairs_app_at (fun j i => (i, j))); auto.
    - rewrite !length_app_at; auto.
    - intros i x HI. apply in_app_at in HI; [|rewrite length_app_at; lia].
      destruct HI as [HI|]; [|lia]. apply in_app_at in HI; [|lia]. destruct HI; [eauto|lia].
    - unfold Q, lpo in *. simpl.
      assert (P : Permutation ((t, s) :: (s, t) :: lpo N y)
                   (flat_map (fun i => map (fun j => (i, j)) (nth i (app_at t s (app_at s t (lout y))) [])) (seq 0 N))).
      { eapply perm_trans; [apply perm_skip, (pairs_app_at (fun i j => (i, j)) s t (lout y) N); auto|].
        apply (pairs_app_at (fun i j => (i, j))); auto. rewrite length_app_at; auto. }
      eapply perm_trans; [apply Permutation_sym, P|].
      eapply perm_trans; [|apply Permutation_map, P].
      simpl. unfold swap at 1 2. simpl.
      eapply perm_trans; [apply perm_swap|]. do 2 apply perm_skip. exact HQ.
  Qed.

  Lemma LP_iter d N s t n : s < N -> t < N -> forall y, LP d N y -> LP d N (iter n (add_edge1 d s t) y).
  Proof. intros Hs Ht. induction n; simpl; intros; auto. apply IHn. apply LP_add_edge1; auto. Qed.

  (* multiplicity of j in out(i) / of i in in(j) *)
  Definition co (y : layer) (i j : nat) : nat := count_occ Nat.eq_dec (nth i (lout y) []) j.
  Definition ci (y : layer) (i j : nat) : nat := count_occ Nat.eq_dec (nth j (lin y) []) i.
  (* contribution of one edge s->t (index form) *)
  Definition w (d : bool) (i j s t : nat) : nat :=
    b2n ((i =? s) && (j =? t)) + (if d then 0 else b2n ((i =? t) && (j =? s))).

  Lemma co_add_edge1 d N s t y i j : s < N -> t < N -> LP d N y ->
    co (add_edge1 d s t y) i j = co y i j + w d i j s t.
  Proof.
    intros Hs Ht [Ho Hi _ _ _]. unfold co, w, GraphModel.add_edge1. destruct d; simpl.
    - rewrite count_app_at by lia. lia.
    - rewrite count_app_at by (rewrite length_app_at; lia). rewrite count_app_at by lia. lia.
  Qed.

  Lemma ci_add_edge1 N s t y i j : s < N -> t < N -> LP true N y ->
    ci (add_edge1 true s t y) i j = ci y i j + w true i j s t.
  Proof.
    intros Hs Ht [Ho Hi _ _ _]. unfold ci, w, GraphModel.add_edge1. simpl.
    rewrite count_app_at by lia. rewrite (andb_comm (j =? t)). lia.
  Qed.

  Lemma co_iter d N s t i j n : s < N -> t < N -> forall y, LP d N y ->
    co (iter n (add_edge1 d s t) y) i j = co y i j + n * w d i j s t.
  Proof.
    intros Hs Ht. induction n; simpl; intros y H; [lia|].
    rewrite IHn by (apply LP_add_edge1; auto). rewrite (co_add_edge1 d N) by auto. lia.
  Qed.

  Lemma ci_iter N s t i j n : s < N -> t < N -> forall y, LP true N y ->
    ci (iter n (add_edge1 true s t) y) i j = ci y i j + n * w true i j s t.
  Proof.
    intros Hs Ht. induction n; cbn [iter]; intros y H; [lia|].
    rewrite IHn by (apply (LP_add_edge1 true); auto). rewrite (ci_add_edge1 N) by auto. lia.
  Qed.

  (* ---------------- add_edges_layers ---------------- *)
  Lemma length_ael d s t : forall c ys, length (add_edges_layers d s t c ys) = length ys.
  Proof. induction c; destruct ys; simpl; auto. Qed.

  Lemma nth_ael d s t : forall c ys a, a < length ys ->
    nth a (add_edges_layers d s t c ys) empty_layer
    = iter (nth a c 0) (add_edge1 d s t) (nth a ys empty_layer).
  Proof.
    induction c as [|c0 c IH]; intros ys a H; destruct ys as [|y yr]; simpl in H; try lia.
    - destruct a; reflexivity.
    - destruct a; simpl; [reflexivity|]. apply IH. lia.
  Qed.

  Lemma Forall_ael (P : layer -> Prop) d s t :
    (forall n y, P y -> P (iter n (add_edge1 d s t) y)) ->
    forall c ys, Forall P ys -> Forall P (add_edges_layers d s t c ys).
  Proof.
    intros HP. induction c; intros ys H; destruct ys; simpl; auto.
    inversion H; subst. constructor; auto.
  Qed.

  (* ---------------- net invariant ---------------- *)
  Record wf (d : bool) (L : nat) (g : net) : Prop := {
    wf_nd : NoDup (tbl g);
    wf_L : length (lays g) = L;
    wf_lp : Forall (LP d (length (tbl g))) (lays g) }.

  Lemma wf_empty d L : wf d L (empty_net L).
  Proof.
    split; simpl.
    - constructor.
    - apply repeat_length.
    - apply Forall_forall. intros y H. apply repeat_spec in H. subst. apply LP_empty.
  Qed.

  Lemma nth_lout_map_grow ys a i :
    nth i (lout (nth a (map grow ys) empty_layer)) [] = nth i (lout (nth a ys empty_layer)) [].
  Proof.
    destruct (Nat.lt_ge_cases a (length ys)).
    - rewrite (nth_indep _ empty_layer (grow empty_layer)) by (rewrite map_length; auto).
      rewrite map_nth. simpl. apply nth_grow_list.
    - rewrite (nth_overflow (map grow ys)), (nth_overflow ys); auto. rewrite map_length; auto.
  Qed.

  Lemma nth_lin_map_grow ys a i :
    nth i (lin (nth a (map grow ys) empty_layer)) [] = nth i (lin (nth a ys empty_layer)) [].
  Proof.
    destruct (Nat.lt_ge_cases a (length ys)).
    - rewrite (nth_indep _ empty_layer (grow empty_layer)) by (rewrite map_length; auto).
      rewrite map_nth. simpl. apply nth_grow_list.
    - rewrite (nth_overflow (map grow ys)), (nth_overflow ys); auto. rewrite map_length; auto.
  Qed.

  (* multiplicities addressed by labels (0 when a label is not in the table) *)
  Definition cnt_o (g : net) (a : nat) (li lj : label) : nat :=
    match lookup li (tbl g), lookup lj (tbl g) with
    | Some i, Some j => co (nth a (lays g) empty_layer) i j
    | _, _ => 0
    end.
  Definition cnt_i (g : net) (a : nat) (li lj : label) : nat :=
    match lookup li (tbl g), lookup lj (tbl g) with
    | Some i, Some j => ci (nth a (lays g) empty_layer) i j
    | _, _ => 0
    end.

  Lemma add_vertex_lookup l g i g' : add_vertex l g = (i, g') ->
    lookup l (tbl g') = Some i /\
    (forall x k, lookup x (tbl g) = Some k -> lookup x (tbl g') = Some k).
  Proof.
    unfold GraphModel.add_vertex. destruct (lookup l (tbl g)) eqn:E; intros H; inversion H; subst; clear H; simpl.
    - auto.
    - unfold GraphModel.lookup in *. split.
      + rewrite lookup_from_app, E, leqb_refl. reflexivity.
      + intros x k Hx. rewrite lookup_from_app, Hx. reflexivity.
  Qed.

  Lemma add_vertex_wf d L l g i g' : wf d L g -> add_vertex l g = (i, g') ->
    wf d L g' /\ i < length (tbl g') /\
    (forall a li lj, a < L ->
       cnt_o g' a li lj = cnt_o g a li lj /\ cnt_i g' a li lj = cnt_i g a li lj).
  Proof.
    intros [ND HL HF]. unfold GraphModel.add_vertex.
    destruct (lookup l (tbl g)) eqn:E; intros H; inversion H; subst; clear H.
    - split; [split; auto|]. split; auto.
      apply lookup_some in E. apply nth_error_Some. congruence.
    - split; [|split].
      + split; simpl.
        * eapply Permutation_NoDup; [apply Permutation_cons_append|].
          constructor; auto. eapply lookup_from_none; eauto.
        * apply map_length.
        * rewrite app_length. simpl. rewrite Nat.add_1_r. apply Forall_map.
          eapply Forall_impl; [|exact HF]. intros y. apply LP_grow.
      + simpl. rewrite app_length. simpl. lia.
      + intros a li lj Ha.
        assert (HY : LP d (length (tbl g)) (nth a (lays g) empty_layer)) by (apply Forall_nth; auto; lia).
        destruct HY as [Ho Hi Bo Bi _].
        set (y := nth a (lays g) empty_layer) in *.
        assert (F1 : forall i, count_occ Nat.eq_dec (nth i (lout y) []) (length (tbl g)) = 0).
        { intros i. apply count_occ_not_In. intros HI. apply Bo in HI. lia. }
        assert (F2 : forall i, count_occ Nat.eq_dec (nth i (lin y) []) (length (tbl g)) = 0).
        { intros i. apply count_occ_not_In. intros HI. apply Bi in HI. lia. }
        assert (F3 : nth (length (tbl g)) (lout y) [] = []) by (apply nth_overflow; lia).
        assert (F4 : nth (length (tbl g)) (lin y) [] = []) by (apply nth_overflow; lia).
        unfold cnt_o, cnt_i, co, ci. cbn [GraphModel.tbl GraphModel.lays].
        unfold GraphModel.lookup. rewrite !lookup_from_app.
        fold y.
        destruct (lookup_from li (tbl g) 0) eqn:Ei; destruct (lookup_from lj (tbl g) 0) eqn:Ej;
          try destruct (leqb li l); try destruct (leqb lj l);
          rewrite ?nth_lout_map_grow, ?nth_lin_map_grow; fold y; cbn [Nat.add];
          rewrite ?F1, ?F2, ?F3, ?F4; auto.
  Qed.

  Definition src (r : record) : label := fst (fst r).
  Definition tgt (r : record) : label := snd (fst r).
  Definition cnts (r : record) : list nat := snd r.

  (* contribution of one unit edge ls->lt (label form) *)
  Definition wl (d : bool) (li lj ls lt : label) : nat :=
    b2n (leqb li ls && leqb lj lt) + (if d then 0 else b2n (leqb li lt && leqb lj ls)).
  Definition contrib (d : bool) (a : nat) (li lj : label) (r : record) : nat :=
    nth a (cnts r) 0 * wl d li lj (src r) (tgt r).

  Lemma add_record_step d L g r : wf d L g ->
    wf d L (add_record d g r) /\
    forall a li lj, a < L ->
      cnt_o (add_record d g r) a li lj = cnt_o g a li lj + contrib d a li lj r /\
      (d = true -> cnt_i (add_record d g r) a li lj = cnt_i g a li lj + contrib d a li lj r).
  Proof.
    intros W. destruct r as [[s t] c]. unfold contrib, src, tgt, cnts. cbn [fst snd].
    unfold GraphModel.add_record.
    destruct (add_vertex s g) as [si g1] eqn:E1. destruct (add_vertex t g1) as [ti g2] eqn:E2.
    destruct (add_vertex_wf _ _ _ _ _ _ W E1) as (W1 & Hsi & C1).
    destruct (add_vertex_wf _ _ _ _ _ _ W1 E2) as (W2 & Hti & C2).
    destruct (add_vertex_lookup _ _ _ _ E1) as (Ls1 & St1).
    destruct (add_vertex_lookup _ _ _ _ E2) as (Lt2 & St2).
    assert (Ls2 := St2 _ _ Ls1).
    assert (Hsi2 : si < length (tbl g2)).
    { apply lookup_some in Ls2. apply nth_error_Some. congruence. }
    destruct W2 as [ND2 HL2 HF2].
    split.
    - split; cbn [GraphModel.tbl GraphModel.lays]; auto.
      + rewrite length_ael; auto.
      + apply Forall_ael; auto. intros; apply LP_iter; auto.
    - intros a li lj Ha.
      destruct (C1 a li lj Ha) as [Co1 Ci1]. destruct (C2 a li lj Ha) as [Co2 Ci2].
      rewrite <- Co1, <- Co2, <- Ci1, <- Ci2.
      assert (HY : LP d (length (tbl g2)) (nth a (lays g2) empty_layer)) by (apply Forall_nth; auto; lia).
      split; [|intros ->]; unfold cnt_o, cnt_i; cbn [GraphModel.tbl GraphModel.lays];
        destruct (lookup li (tbl g2)) as [i|] eqn:Ei; destruct (lookup lj (tbl g2)) as [j|] eqn:Ej;
        unfold wl;
        try (rewrite nth_ael by lia;
             first [rewrite (co_iter _ (length (tbl g2))) by auto | rewrite (ci_iter (length (tbl g2))) by auto];
             unfold w;
             rewrite (lookup_eqb _ _ _ _ _ Ei Ls2), (lookup_eqb _ _ _ _ _ Ej Lt2),
                     ?(lookup_eqb _ _ _ _ _ Ei Lt2), ?(lookup_eqb _ _ _ _ _ Ej Ls2); reflexivity);
        rewrite ?(lookup_none_neq _ _ _ _ Ej Lt2), ?(lookup_none_neq _ _ _ _ Ej Ls2),
                ?(lookup_none_neq _ _ _ _ Ei Lt2), ?(lookup_none_neq _ _ _ _ Ei Ls2), ?andb_false_r;
        try destruct d; simpl; lia.
  Qed.

  Lemma fold_step d L : forall recs g, wf d L g ->
    wf d L (fold_left (add_record d) recs g) /\
    forall a li lj, a < L ->
      cnt_o (fold_left (add_record d) recs g) a li lj
        = cnt_o g a li lj + list_sum (map (contrib d a li lj) recs) /\
      (d = true -> cnt_i (fold_left (add_record d) recs g) a li lj
        = cnt_i g a li lj + list_sum (map (contrib d a li lj) recs)).
  Proof.
    induction recs as [|r recs IH]; intros g W; simpl.
    - split; auto.
    - destruct (add_record_step d L g r W) as (W1 & C1). destruct (IH _ W1) as (W' & C').
      split; auto. intros a li lj Ha.
      destruct (C1 a li lj Ha) as [Co Ci]. destruct (C' a li lj Ha) as [Co' Ci'].
      split; [rewrite Co', Co; lia|]. intros D. rewrite Ci', Ci by auto. lia.
  Qed.

  Theorem build_wf d L recs : wf d L (build d L recs).
  Proof. apply fold_step. apply wf_empty. Qed.

  Lemma cnt_o_empty L a li lj : cnt_o (empty_net L) a li lj = 0.
  Proof. reflexivity. Qed.
  Lemma cnt_i_empty L a li lj : cnt_i (empty_net L) a li lj = 0.
  Proof. reflexivity. Qed.

  (* ================= M1 ================= *)
  (* li, lj are the labels of vertices i, j (nth_error avoids a default label; see the
     _nth corollary below for the `nth i (tbl g) d` form with i, j < N). *)
  Theorem mult_directed L recs a i j li lj :
    let g := build true L recs in
    a < L -> nth_error (tbl g) i = Some li -> nth_error (tbl g) j = Some lj ->
    count_occ Nat.eq_dec (nth i (lout (nth a (lays g) empty_layer)) []) j
      = list_sum (map (fun r => if leqb li (src r) && leqb lj (tgt r) then nth a (cnts r) 0 else 0) recs)
    /\
    count_occ Nat.eq_dec (nth j (lin (nth a (lays g) empty_layer)) []) i
      = list_sum (map (fun r => if leqb li (src r) && leqb lj (tgt r) then nth a (cnts r) 0 else 0) recs).
  Proof.
    intros g Ha Hi Hj.
    destruct (fold_step true L recs (empty_net L) (wf_empty true L)) as (W & C).
    destruct (C a li lj Ha) as [Co Ci]. specialize (Ci eq_refl).
    rewrite cnt_o_empty in Co. rewrite cnt_i_empty in Ci.
    change (fold_left (add_record true) recs (empty_net L)) with g in *.
    unfold cnt_o in Co. unfold cnt_i in Ci.
    rewrite (lookup_nth _ _ _ (wf_nd _ _ _ W) Hi), (lookup_nth _ _ _ (wf_nd _ _ _ W) Hj) in Co, Ci.
    assert (E : map (contrib true a li lj) recs
                = map (fun r => if leqb li (src r) && leqb lj (tgt r) then nth a (cnts r) 0 else 0) recs).
    { apply map_ext. intros r. unfold contrib, wl.
      destruct (leqb li (src r) && leqb lj (tgt r)); simpl; lia. }
    rewrite E in Co, Ci. split; [exact Co|exact Ci].
  Qed.

  Corollary mult_directed_nth (dl : label) L recs a i j :
    let g := build true L recs in
    let N := length (tbl g) in
    let lab v := nth v (tbl g) dl in
    a < L -> i < N -> j < N ->
    count_occ Nat.eq_dec (nth i (lout (nth a (lays g) empty_layer)) []) j
      = list_sum (map (fun r => if leqb (lab i) (src r) && leqb (lab j) (tgt r) then nth a (cnts r) 0 else 0) recs)
    /\
    count_occ Nat.eq_dec (nth j (lin (nth a (lays g) empty_layer)) []) i
      = list_sum (map (fun r => if leqb (lab i) (src r) && leqb (lab j) (tgt r) then nth a (cnts r) 0 else 0) recs).
  Proof.
    intros g N lab Ha Hi Hj. apply mult_directed; auto; apply nth_error_nth'; auto.
  Qed.

  (* ================= M2 ================= *)
  Theorem mult_undirected L recs a i j li lj :
    let g := build false L recs in
    a < L -> nth_error (tbl g) i = Some li -> nth_error (tbl g) j = Some lj ->
    count_occ Nat.eq_dec (nth i (lout (nth a (lays g) empty_layer)) []) j
      = list_sum (map (fun r =>
          (if leqb li (src r) && leqb lj (tgt r) then nth a (cnts r) 0 else 0)
        + (if leqb li (tgt r) && leqb lj (src r) then nth a (cnts r) 0 else 0)) recs).
  Proof.
    intros g Ha Hi Hj.
    destruct (fold_step false L recs (empty_net L) (wf_empty false L)) as (W & C).
    destruct (C a li lj Ha) as [Co _].
    rewrite cnt_o_empty in Co.
    change (fold_left (add_record false) recs (empty_net L)) with g in *.
    unfold cnt_o in Co.
    rewrite (lookup_nth _ _ _ (wf_nd _ _ _ W) Hi), (lookup_nth _ _ _ (wf_nd _ _ _ W) Hj) in Co.
    unfold co in Co. rewrite Co. simpl. f_equal. apply map_ext. intros r. unfold contrib, wl.
    destruct (leqb li (src r) && leqb lj (tgt r)); destruct (leqb li (tgt r) && leqb lj (src r)); simpl; lia.
  Qed.

  Corollary mult_undirected_nth (dl : label) L recs a i j :
    let g := build false L recs in
    let N := length (tbl g) in
    let lab v := nth v (tbl g) dl in
    a < L -> i < N -> j < N ->
    count_occ Nat.eq_dec (nth i (lout (nth a (lays g) empty_layer)) []) j
      = list_sum (map (fun r =>
          (if leqb (lab i) (src r) && leqb (lab j) (tgt r) then nth a (cnts r) 0 else 0)
        + (if leqb (lab i) (tgt r) && leqb (lab j) (src r) then nth a (cnts r) 0 else 0)) recs).
  Proof.
    intros g N lab Ha Hi Hj. apply mult_undirected; auto; apply nth_error_nth'; auto.
  Qed.

  (* the undirected count is symmetric in i, j *)
  Corollary mult_undirected_sym L recs a i j :
    let g := build false L recs in
    a < L -> i < length (tbl g) -> j < length (tbl g) ->
    count_occ Nat.eq_dec (nth i (lout (nth a (lays g) empty_layer)) []) j
    = count_occ Nat.eq_dec (nth j (lout (nth a (lays g) empty_layer)) []) i.
  Proof.
    intros g Ha Hi Hj.
    destruct (nth_error (tbl g) i) as [li|] eqn:Ei; [|apply nth_error_None in Ei; lia].
    destruct (nth_error (tbl g) j) as [lj|] eqn:Ej; [|apply nth_error_None in Ej; lia].
    unfold g in *.
    rewrite (mult_undirected L recs a i j li lj), (mult_undirected L recs a j i lj li); auto.
    f_equal. apply map_ext. intros r.
    destruct (leqb li (src r)), (leqb lj (tgt r)), (leqb li (tgt r)), (leqb lj (src r)); simpl; lia.
  Qed.

  (* ================= M3 / M4 ================= *)
  Theorem pairs_perm_directed L recs a :
    let g := build true L recs in
    let G := graph_of true g in
    let N := length (tbl g) in
    a < L -> Permutation (pairs_out (gout G) N a) (pairs_in (gin G) N a).
  Proof.
    intros g G N Ha. destruct (build_wf true L recs) as [_ HL HF]. fold g in HL, HF.
    assert (HY : LP true N (nth a (lays g) empty_layer)) by (apply Forall_nth; auto; lia).
    exact (lp_q _ _ _ HY).
  Qed.

  Theorem pairs_sym_undirected L recs a :
    let g := build false L recs in
    let G := graph_of false g in
    let N := length (tbl g) in
    a < L ->
    Permutation (pairs_out (gout G) N a) (map (fun p => (snd p, fst p)) (pairs_out (gout G) N a)).
  Proof.
    intros g G N Ha. destruct (build_wf false L recs) as [_ HL HF]. fold g in HL, HF.
    assert (HY : LP false N (nth a (lays g) empty_layer)) by (apply Forall_nth; auto; lia).
    exact (lp_q _ _ _ HY).
  Qed.

  (* ================= M5 ================= *)
  (* record (s,t,[c_1..c_L]) -> m := max c_a unit records, the k-th having b_a = [k < c_a];
     a single all-zero record when m = 0 so that the endpoints are still created *)
  Definition unit_counts (k : nat) (c : list nat) : list nat := map (fun ca => if k <? ca then 1 else 0) c.
  Definition expand1 (r : record) : list record :=
    let '(s, t, c) := r in
    match list_max c with
    | 0 => [(s, t, map (fun _ => 0) c)]
    | S m' => map (fun k => (s, t, unit_counts k c)) (seq 0 (S m'))
    end.
  Definition expand (recs : list record) : list record := flat_map expand1 recs.

  (* add_record once both endpoints are known to be in the table *)
  Definition add_rec_idx (d : bool) (si ti : nat) (c : list nat) (g : net) : net :=
    {| GraphModel.tbl := tbl g; GraphModel.lays := add_edges_layers d si ti c (lays g);
       GraphModel.nedges := nedges g + fold_left Nat.add c 0 |}.

  Lemma add_record_found d g s t c si ti :
    lookup s (tbl g) = Some si -> lookup t (tbl g) = Some ti ->
    add_record d g (s, t, c) = add_rec_idx d si ti c g.
  Proof.
    intros Hs Ht. unfold GraphModel.add_record, GraphModel.add_vertex. rewrite Hs. rewrite Ht. reflexivity.
  Qed.

  Lemma add_record_idx d g s t : exists si ti g2,
    lookup s (tbl g2) = Some si /\ lookup t (tbl g2) = Some ti /\
    forall c, add_record d g (s, t, c) = add_rec_idx d si ti c g2.
  Proof.
    destruct (add_vertex s g) as [si g1] eqn:E1. destruct (add_vertex t g1) as [ti g2] eqn:E2.
    destruct (add_vertex_lookup _ _ _ _ E1) as (Ls1 & St1).
    destruct (add_vertex_lookup _ _ _ _ E2) as (Lt2 & St2).
    exists si, ti, g2. split; [auto|]. split; [auto|].
    intros c. unfold GraphModel.add_record. rewrite E1, E2. reflexivity.
  Qed.

  Lemma fold_found d s t si ti (f : nat -> list nat) : forall ks h,
    lookup s (tbl h) = Some si -> lookup t (tbl h) = Some ti ->
    fold_left (add_record d) (map (fun k => (s, t, f k)) ks) h
    = fold_left (fun h k => add_rec_idx d si ti (f k) h) ks h.
  Proof.
    induction ks as [|k ks IH]; intros h Hs Ht; cbn [map fold_left]; auto.
    rewrite (add_record_found d h s t (f k) si ti Hs Ht). apply IH; auto.
  Qed.

  Lemma ael_zero d s t : forall c ys, add_edges_layers d s t (map (fun _ : nat => 0) c) ys = ys.
  Proof. induction c; destruct ys; simpl; auto. rewrite IHc. reflexivity. Qed.

  Lemma ael_compose d s t (f1 f2 f3 : nat -> nat) : (forall x, f1 x + f2 x = f3 x) ->
    forall c ys, add_edges_layers d s t (map f2 c) (add_edges_layers d s t (map f1 c) ys)
                 = add_edges_layers d s t (map f3 c) ys.
  Proof.
    intros H. induction c; destruct ys; simpl; auto.
    rewrite IHc, <- H, iter_add. reflexivity.
  Qed.

  Lemma sum_compose (f1 f2 f3 : nat -> nat) : (forall x, f1 x + f2 x = f3 x) ->
    forall c, list_sum (map f1 c) + list_sum (map f2 c) = list_sum (map f3 c).
  Proof. intros H. induction c; simpl; auto. rewrite <- IHc, <- H. lia. Qed.

  Lemma add_rec_idx_compose d si ti (f1 f2 f3 : nat -> nat) c h : (forall x, f1 x + f2 x = f3 x) ->
    add_rec_idx d si ti (map f2 c) (add_rec_idx d si ti (map f1 c) h) = add_rec_idx d si ti (map f3 c) h.
  Proof.
    intros H. unfold add_rec_idx. cbn [GraphModel.tbl GraphModel.lays GraphModel.nedges].
    rewrite (ael_compose d si ti f1 f2 f3 H). f_equal.
    rewrite !fold_add_sum. rewrite <- (sum_compose f1 f2 f3 H). lia.
  Qed.

  Lemma fold_units d si ti c : forall n h,
    fold_left (fun h k => add_rec_idx d si ti (unit_counts k c) h) (seq 0 n) h
    = add_rec_idx d si ti (map (Nat.min n) c) h.
  Proof.
    induction n; intros h.
    - simpl. unfold add_rec_idx. rewrite ael_zero, fold_add_sum.
      replace (list_sum (map (fun _ : nat => 0) c)) with 0 by (induction c; simpl; auto).
      destruct h; simpl. f_equal. lia.
    - rewrite seq_S, fold_left_app, IHn. cbn [fold_left Nat.add]. unfold unit_counts.
      apply add_rec_idx_compose. intros x. destruct (Nat.ltb_spec n x); lia.
  Qed.

  Lemma map_min_id m c : list_max c <= m -> map (Nat.min m) c = c.
  Proof.
    intros H. apply list_max_le in H. rewrite <- (map_id c) at 2. apply map_ext_in.
    intros x Hx. rewrite Forall_forall in H. apply H in Hx. lia.
  Qed.

  Lemma expand1_fold d g r : fold_left (add_record d) (expand1 r) g = add_record d g r.
  Proof.
    destruct r as [[s t] c]. unfold expand1.
    destruct (add_record_idx d g s t) as (si & ti & g2 & Hs & Ht & HR).
    destruct (list_max c) as [|m'] eqn:Em.
    - cbn [fold_left]. f_equal. f_equal.
      transitivity (map (fun x : nat => x) c); [|apply map_id]. apply map_ext_in.
      intros x Hx. assert (H : list_max c <= 0) by lia. apply list_max_le in H.
      rewrite Forall_forall in H. apply H in Hx. lia.
    - cbn [seq map fold_left]. rewrite !HR.
      rewrite <- (add_record_found d g2 s t (unit_counts 0 c) si ti Hs Ht).
      change (fold_left (add_record d) (map (fun k => (s, t, unit_counts k c)) (seq 1 m')) (add_record d g2 (s, t, unit_counts 0 c)))
        with (fold_left (add_record d) (map (fun k => (s, t, unit_counts k c)) (seq 0 (S m'))) g2).
      rewrite (fold_found d s t si ti (fun k => unit_counts k c)) by auto.
      rewrite fold_units, map_min_id by lia. reflexivity.
  Qed.

  (* No hypothesis on the number of counts per record is needed: add_edges_layers truncates
     to min(L, length counts) on both sides and nedges sums all of them on both sides. *)
  Theorem expand_same_build d L recs : build d L (expand recs) = build d L recs.
  Proof.
    unfold GraphModel.build, expand. generalize (empty_net L).
    induction recs as [|r recs IH]; intros g; simpl; auto.
    rewrite fold_left_app, expand1_fold. apply IH.
  Qed.

End GraphMult.

Print Assumptions mult_directed.
Print Assumptions mult_directed_nth.
Print Assumptions mult_undirected.
Print Assumptions mult_undirected_nth.
Print Assumptions mult_undirected_sym.
Print Assumptions pairs_perm_directed.
Print Assumptions pairs_sym_undirected.
Print Assumptions expand_same_build.
Print Assumptions build_wf.
