(* Extract.v -- extraction of the executable model to OCaml (ocaml/model.ml).
   Directives used: exactly those of the three standard files below (no hand-written
   Extract Constant / Extract Inductive).  nat, Z, N, positive stay Coq's own datatypes. *)
From Coq Require Import Extraction ExtrOcamlBasic ExtrOCamlFloats ExtrOCamlInt63.
From Coq Require Import List ZArith Floats.
From MT Require Import Arith SweepModel GraphModel InitModel CtrlModel MainModel Layout GenLayout
     GenParams FloatInst CliModel Mt19937 SeededModel CliMain FmtG.

Extraction Language OCaml.
Set Extraction Optimize.
Extraction "../ocaml/model.ml"
  ArithF float_of_nat
  build u_list v_list graph_of get_num_vertices count_int count_real num_vertices
  upd_vertices_gen upd_vertices_ass new_w_gen new_w_ass upd_affinity_gen upd_affinity_ass sweep_gen sweep_ass
  lik_gen_state lik_ass_state tget dget mget mtab
  init_rows init_sym_random init_diag_random init_from_gen init_from_ass zeros
  passb loop_step realization realization_tr max_L2 run run_tr
  validate factorize factorize_starts factorize_seeded factorize_starts_seeded draws_needed mt_draws outputs_from mt_init
  w_of_flat_gen w_of_flat_ass flat_of_w_gen flat_of_w_ass
  idx unidx t_make t_resize t_idx idx_gen idx_ass cxx_idx cxx_transpose_perm cxx_diag_dims cxx_diag_access cxx_sym_dims
  cxx_eval_period
  parse_adjacency read_affinity render_nat membership_rows affinity_rows opt_exists opt_value cli_main fmt_g6.
