(* StartRangeProofs.v -- every entry of the RANDOM start of a realization (out-/in-memberships, affinity) is a binary64
   number d with 0 <= d and d < 1 (binary64 comparisons, so it is not NaN): every entry is either a draw of the stream or
   the zero written by resize.  For the seeded stream (mt_draws seed n) the hypothesis on the stream is the theorem
   SeedCorollaries.mt_draws_in_unit.  Proofs compose the draw-by-draw specifications of InitProofs.v. *)
From Coq Require Import List Arith Bool Lia ZArith Floats.
Import ListNotations.
From MT Require Import Arith SweepModel InitModel CtrlModel InitProofs FloatInst Mt19937 SeedCorollaries.

Lemma in_unit_zero : in_unit 0%float.
Proof. split; vm_compute; reflexivity. Qed.

Lemma Forall_skipn_local {T} (P : T -> Prop) n : forall l, Forall P l -> Forall P (skipn n l).
Proof.
  induction n as [|n IH]; intros l H; simpl; [exact H|].
  destruct l as [|x l]; [constructor|]. inversion H; subst. apply IH; assumption.
Qed.

Section Range.
  Variable lnf : float -> float.
  Notation A := (ArithF lnf).

  (* a read inside the stream is a stream element, a read beyond its end is zero *)
  Lemma dr_in_unit (s : list float) : Forall in_unit s -> forall p, in_unit (dr float A s p).
  Proof.
    intros HF p. unfold dr.
    destruct (lt_dec p (length s)) as [Hl|Hl].
    - rewrite Forall_forall in HF. apply HF, nth_In, Hl.
    - rewrite nth_overflow by lia. exact in_unit_zero.
  Qed.

  (* memberships: listed rows are draws, the others are zero *)
  Theorem init_rows_in_unit (N K : nat) (elements : list nat) (s : list float) :
    Forall in_unit s -> NoDup elements -> Forall (fun i => i < N) elements ->
    forall i k, i < N -> k < K ->
      in_unit (mget float A (fst (init_rows float A K elements (zeros float A N K) s)) i k).
  Proof.
    intros HF HND HLT i k Hi Hk.
    destruct (in_dec Nat.eq_dec i elements) as [Hin|Hnin].
    - destruct (In_nth_error _ _ Hin) as [p Hp].
      destruct (init_rows_spec float A N K elements HND HLT (zeros float A N K) s (zeros_shape float A N K))
        as (_ & _ & R & _).
      rewrite (R p i k Hp Hk). apply dr_in_unit, HF.
    - rewrite init_rows_zeros_outside by exact Hnin. exact in_unit_zero.
  Qed.

  (* general affinity *)
  Theorem init_sym_random_in_unit (K L : nat) (s : list float) :
    Forall in_unit s ->
    forall a i j, a < L -> i < K -> j < K ->
      in_unit (tget float A (fst (init_sym_random float A K L s)) i j a).
  Proof.
    intros HF a i j Ha Hi Hj.
    destruct (init_sym_random_spec float A K L s) as (_ & _ & _ & R).
    destruct (le_lt_dec i j) as [Hij|Hij].
    - destruct (R a i j Ha (conj Hij Hj)) as [E _]. rewrite E. apply dr_in_unit, HF.
    - destruct (R a j i Ha (conj (Nat.lt_le_incl _ _ Hij) Hi)) as [_ E]. rewrite E. apply dr_in_unit, HF.
  Qed.

  (* assortative affinity *)
  Theorem init_diag_random_in_unit (K L : nat) (s : list float) :
    Forall in_unit s ->
    forall k a, k < K -> a < L ->
      in_unit (dget float A (fst (init_diag_random float A K L s)) k a).
  Proof.
    intros HF k a Hk Ha.
    destruct (init_diag_random_spec float A K L s) as (_ & _ & _ & R).
    rewrite (R k a Hk Ha). apply dr_in_unit, HF.
  Qed.

  Section Start.
    Variables (directed : bool) (N K L : nat) (ul vl : list nat).

    (* the two membership parts, from start_post *)
    Lemma start_post_in_unit (W IC : Type) (b : bufs float W IC) nw ut vt s3 :
      start_post float A W IC directed N K ul vl b nw ut vt s3 ->
      Forall in_unit (strm _ _ _ b) ->
      NoDup ul -> Forall (fun i => i < N) ul ->
      (directed = true -> NoDup vl /\ Forall (fun i => i < N) vl) ->
      (forall i k, i < N -> k < K -> in_unit (mget float A ut i k)) /\
      (directed = true -> forall i k, i < N -> k < K -> in_unit (mget float A vt i k)).
    Proof.
      intros P HF HNDu HLTu Hv. unfold start_post in P. cbv zeta in P.
      destruct P as (_ & Eu & Ev & _). split.
      - intros i k Hi Hk. rewrite Eu.
        apply init_rows_in_unit; auto. apply Forall_skipn_local, HF.
      - intros Hd i k Hi Hk. rewrite Ev, Hd. destruct (Hv Hd) as [HNDv HLTv].
        apply init_rows_in_unit; auto. apply Forall_skipn_local, HF.
    Qed.

    Theorem start_random_general_in_unit (b : bufs float (list (matrix float)) unit) :
      Forall in_unit (strm _ _ _ b) ->
      NoDup ul -> Forall (fun i => i < N) ul ->
      (directed = true -> NoDup vl /\ Forall (fun i => i < N) vl) ->
      forall ic' ut vt wt s3,
        start_of float A _ _ (step_random_gen float A K L) directed N K ul vl b = (ic', (ut, vt, wt), s3) ->
        (forall i k, i < N -> k < K -> in_unit (mget float A ut i k)) /\
        (directed = true -> forall i k, i < N -> k < K -> in_unit (mget float A vt i k)) /\
        (forall i j a, i < K -> j < K -> a < L -> in_unit (tget float A wt i j a)).
    Proof.
      intros HF HNDu HLTu Hv ic' ut vt wt s3 E.
      destruct (start_of_consumption_random_gen float A directed N K L ul vl b) as (ut' & vt' & s3' & E' & P).
      rewrite E' in E. inversion E; subst.
      destruct (start_post_in_unit _ _ b _ _ _ _ P HF HNDu HLTu Hv) as [Hu Hvt].
      split; [exact Hu|]. split; [exact Hvt|].
      intros i j a Hi Hj Ha. apply init_sym_random_in_unit; auto.
    Qed.

    Theorem start_random_assortative_in_unit (b : bufs float (list (list float)) unit) :
      Forall in_unit (strm _ _ _ b) ->
      NoDup ul -> Forall (fun i => i < N) ul ->
      (directed = true -> NoDup vl /\ Forall (fun i => i < N) vl) ->
      forall ic' ut vt wt s3,
        start_of float A _ _ (step_random_ass float A K L) directed N K ul vl b = (ic', (ut, vt, wt), s3) ->
        (forall i k, i < N -> k < K -> in_unit (mget float A ut i k)) /\
        (directed = true -> forall i k, i < N -> k < K -> in_unit (mget float A vt i k)) /\
        (forall k a, k < K -> a < L -> in_unit (dget float A wt k a)).
    Proof.
      intros HF HNDu HLTu Hv ic' ut vt wt s3 E.
      destruct (start_of_consumption_random_ass float A directed N K L ul vl b) as (ut' & vt' & s3' & E' & P).
      rewrite E' in E. inversion E; subst.
      destruct (start_post_in_unit _ _ b _ _ _ _ P HF HNDu HLTu Hv) as [Hu Hvt].
      split; [exact Hu|]. split; [exact Hvt|].
      intros k a Hk Ha. apply init_diag_random_in_unit; auto.
    Qed.

    (* the seeded stream: no hypothesis on the draws is left *)
    Corollary seeded_random_start_in_unit_general (seed : Z) (n : nat) (b : bufs float (list (matrix float)) unit) :
      strm _ _ _ b = mt_draws seed n ->
      NoDup ul -> Forall (fun i => i < N) ul ->
      (directed = true -> NoDup vl /\ Forall (fun i => i < N) vl) ->
      forall ic' ut vt wt s3,
        start_of float A _ _ (step_random_gen float A K L) directed N K ul vl b = (ic', (ut, vt, wt), s3) ->
        (forall i k, i < N -> k < K -> in_unit (mget float A ut i k)) /\
        (directed = true -> forall i k, i < N -> k < K -> in_unit (mget float A vt i k)) /\
        (forall i j a, i < K -> j < K -> a < L -> in_unit (tget float A wt i j a)).
    Proof.
      intros Hs. apply start_random_general_in_unit. rewrite Hs. apply mt_draws_in_unit.
    Qed.

    Corollary seeded_random_start_in_unit_assortative (seed : Z) (n : nat) (b : bufs float (list (list float)) unit) :
      strm _ _ _ b = mt_draws seed n ->
      NoDup ul -> Forall (fun i => i < N) ul ->
      (directed = true -> NoDup vl /\ Forall (fun i => i < N) vl) ->
      forall ic' ut vt wt s3,
        start_of float A _ _ (step_random_ass float A K L) directed N K ul vl b = (ic', (ut, vt, wt), s3) ->
        (forall i k, i < N -> k < K -> in_unit (mget float A ut i k)) /\
        (directed = true -> forall i k, i < N -> k < K -> in_unit (mget float A vt i k)) /\
        (forall k a, k < K -> a < L -> in_unit (dget float A wt k a)).
    Proof.
      intros Hs. apply start_random_assortative_in_unit. rewrite Hs. apply mt_draws_in_unit.
    Qed.
  End Start.
End Range.

Check in_unit_zero.
Check dr_in_unit.
Check init_rows_in_unit.
Check init_sym_random_in_unit.
Check init_diag_random_in_unit.
Check start_random_general_in_unit.
Check start_random_assortative_in_unit.
Check seeded_random_start_in_unit_general.
Check seeded_random_start_in_unit_assortative.

Print Assumptions in_unit_zero.
Print Assumptions dr_in_unit.
Print Assumptions init_rows_in_unit.
Print Assumptions init_sym_random_in_unit.
Print Assumptions init_diag_random_in_unit.
Print Assumptions start_random_general_in_unit.
Print Assumptions start_random_assortative_in_unit.
Print Assumptions seeded_random_start_in_unit_general.
Print Assumptions seeded_random_start_in_unit_assortative.
