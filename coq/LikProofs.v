(* LikProofs.v -- the likelihood of the code-shaped model (SweepModel.lik_gen / lik_ass) over exact
   reals is the guarded Poisson log-likelihood LLguard of Spec.v (L1); when every observed pair has a
   rate above eps it is the plain Poisson log-likelihood LLspec (L2, property C06); the edge-list form
   Chain.LL used by the ascent proofs is LLspec as well (L3); observed edge count = sum of
   multiplicities (L4). *)
From Coq Require Import Reals List Lra Lia Arith Bool.
Import ListNotations.
From MT Require Import Arith J MM SweepModel RInst SumLib UBlock WBlock Chain Spec.
Local Open Scope R_scope.

(* ------------------------------------------------------------------------------------------ *)
(* counting                                                                                    *)
(* ------------------------------------------------------------------------------------------ *)
Lemma count_count_occ (j : nat) (l : list nat) : count j l = count_occ Nat.eq_dec l j.
Proof.
  unfold count. induction l as [|x l IH]; [reflexivity|].
  cbn [filter count_occ]. destruct (Nat.eq_dec x j) as [E|E].
  - subst x. rewrite Nat.eqb_refl. cbn [length]. rewrite IH. reflexivity.
  - assert (Hb : Nat.eqb j x = false) by (apply Nat.eqb_neq; congruence).
    rewrite Hb. exact IH.
Qed.

Lemma existsb_count_occ (j : nat) (l : list nat) :
  existsb (Nat.eqb j) l = (0 <? count_occ Nat.eq_dec l j)%nat.
Proof.
  induction l as [|x l IH]; [reflexivity|].
  cbn [existsb count_occ]. destruct (Nat.eq_dec x j) as [E|E].
  - subst x. rewrite Nat.eqb_refl. reflexivity.
  - assert (Hb : Nat.eqb j x = false) by (apply Nat.eqb_neq; congruence).
    rewrite Hb. exact IH.
Qed.

(* a list of naturals below N, summed through its multiplicities *)
Lemma sumR_count_occ (h : nat -> R) (N : nat) (l : list nat) :
  (forall j, In j l -> (j < N)%nat) ->
  sumR h l = sumR (fun j => INR (count_occ Nat.eq_dec l j) * h j) (seq 0 N).
Proof.
  induction l as [|x l IH]; intros Hlt.
  - cbn [sumR fold_right count_occ]. symmetry.
    transitivity (sumR (fun _ : nat => 0) (seq 0 N)); [|apply sumR_zero].
    apply sumR_ext. intros j _. cbn [INR]. ring.
  - change (sumR h (x :: l)) with (h x + sumR h l).
    rewrite IH by (intros j Hj; apply Hlt; right; exact Hj).
    rewrite <- (sumR_delta h x N) by (apply Hlt; left; reflexivity).
    rewrite <- sumR_plus. apply sumR_ext. intros j _.
    cbn [count_occ]. destruct (Nat.eq_dec x j) as [E|E].
    + subst j. rewrite Nat.eqb_refl. rewrite S_INR. ring.
    + assert (Hb : Nat.eqb x j = false) by (apply Nat.eqb_neq; exact E).
      rewrite Hb. ring.
Qed.

Lemma sumR_one_length {T} (l : list T) : sumR (fun _ => 1) l = INR (length l).
Proof.
  induction l as [|x l IH]; [reflexivity|].
  change (sumR (fun _ : T => 1) (x :: l)) with (1 + sumR (fun _ : T => 1) l).
  rewrite IH. cbn [length]. rewrite S_INR. ring.
Qed.

(* ------------------------------------------------------------------------------------------ *)
(* folds                                                                                       *)
(* ------------------------------------------------------------------------------------------ *)
(* a fold whose step adds a term is the running value plus the sum of the terms *)
Lemma fold_add_sum {T} (F : R -> T -> R) (t : T -> R) (xs : list T) :
  (forall l x, In x xs -> F l x = l + t x) ->
  forall l, fold_left F xs l = l + sumR t xs.
Proof.
  induction xs as [|x xs IH]; intros HF l.
  - cbn [fold_left sumR fold_right]. lra.
  - cbn [fold_left]. rewrite IH by (intros l0 y Hy; apply HF; right; exact Hy).
    rewrite HF by (left; reflexivity).
    change (sumR t (x :: xs)) with (t x + sumR t xs). lra.
Qed.

(* the pair-carrying inner fold: the first component keeps subtracting, the second accumulates
   the same terms iff `has` *)
Lemma pairfold1 (f : nat -> R) (has : bool) (qs : list nat) (p : R * R) :
  fold_left (fun (p : R * R) q => (fst p - f q, if has then snd p + f q else snd p)) qs p
  = (fst p - sumR f qs, if has then snd p + sumR f qs else snd p).
Proof.
  revert p. induction qs as [|q qs IH]; intros p.
  - cbn [fold_left sumR fold_right]. destruct p as [a b]. cbn [fst snd].
    f_equal; [lra|destruct has; lra].
  - cbn [fold_left]. rewrite IH. cbn [fst snd].
    change (sumR f (q :: qs)) with (f q + sumR f qs).
    f_equal; [lra|destruct has; lra].
Qed.

Lemma pairfold2 (f : nat -> nat -> R) (has : bool) (qs l1 : list nat) (p : R * R) :
  fold_left (fun (p : R * R) k =>
     fold_left (fun (p : R * R) q => (fst p - f k q, if has then snd p + f k q else snd p)) qs p) l1 p
  = (fst p - sumR (fun k => sumR (f k) qs) l1,
     if has then snd p + sumR (fun k => sumR (f k) qs) l1 else snd p).
Proof.
  revert p. induction l1 as [|k l1 IH]; intros p.
  - cbn [fold_left sumR fold_right]. destruct p as [a b]. cbn [fst snd].
    f_equal; [lra|destruct has; lra].
  - cbn [fold_left]. rewrite IH. rewrite (pairfold1 (f k) has qs p). cbn [fst snd].
    change (sumR (fun k0 => sumR (f k0) qs) (k :: l1))
      with (sumR (f k) qs + sumR (fun k0 => sumR (f k0) qs) l1).
    f_equal; [lra|destruct has; lra].
Qed.

(* the form asked for: started from (l, 0) *)
Lemma pairfold2_start (f : nat -> nat -> R) (has : bool) (qs : list nat) (l : R) :
  fold_left (fun (p : R * R) k =>
     fold_left (fun (p : R * R) q => (fst p - f k q, if has then snd p + f k q else snd p)) qs p) qs (l, 0)
  = (l - sumR (fun k => sumR (f k) qs) qs, if has then sumR (fun k => sumR (f k) qs) qs else 0).
Proof.
  rewrite pairfold2. cbn [fst snd]. f_equal. destruct has; lra.
Qed.

Lemma pairfold1_start (f : nat -> R) (has : bool) (qs : list nat) (l : R) :
  fold_left (fun (p : R * R) q => (fst p - f q, if has then snd p + f q else snd p)) qs (l, 0)
  = (l - sumR f qs, if has then sumR f qs else 0).
Proof.
  rewrite pairfold1. cbn [fst snd]. f_equal. destruct has; lra.
Qed.

(* ------------------------------------------------------------------------------------------ *)
(* L1 : closed form of the model likelihood                                                    *)
(* ------------------------------------------------------------------------------------------ *)
Section Closed.
  Variables (N K L : nat) (out : nat -> nat -> list nat).

  (* the (a,i,j) summand of LLguard *)
  Definition gterm (rate : nat -> nat -> nat -> R) (a i j : nat) : R :=
    (if Rltb epsR (if (0 <? Acount out a i j)%nat then rate i j a else 0)
     then Amul out a i j * Rpower.ln (rate i j a) else 0) - rate i j a.

  (* one (i,j) step, after the inner folds have been summed *)
  Lemma step_closed (l M : R) (a i j : nat) (rate : nat -> nat -> nat -> R) :
    rate i j a = M ->
    (let la := if existsb (Nat.eqb j) (out a i) then M else 0 in
     if Rltb epsR la then (l - M) + INR (count j (out a i)) * Rpower.ln la else l - M)
    = l + gterm rate a i j.
  Proof.
    intros HM. cbv zeta. unfold gterm, Amul, Acount. rewrite HM.
    rewrite existsb_count_occ, count_count_occ.
    destruct (0 <? count_occ Nat.eq_dec (out a i) j)%nat.
    - destruct (Rltb epsR M); ring.
    - assert (Hf : Rltb epsR 0 = false) by (apply Rltb_false; unfold epsR; lra).
      rewrite Hf. ring.
  Qed.

  Theorem lik_gen_closed (u v : matrix R) (w : nat -> nat -> nat -> R) :
    lik_gen R ArithR N K L out u v w = LLguard N L out (rate_gen K u v w).
  Proof.
    unfold lik_gen, LLguard, layers, vertices, ks.
    transitivity (0 + sumR (fun a => sumR (fun i => sumR (fun j => gterm (rate_gen K u v w) a i j)
                                                     (seq 0 N)) (seq 0 N)) (seq 0 L)).
    2:{ unfold gterm. lra. }
    apply fold_add_sum. intros l a _.
    apply fold_add_sum. intros l0 i _.
    apply fold_add_sum. intros l1 j _.
    cbv beta zeta. cbn [sub add mul zero ltb eps ln of_count ArithR].
    rewrite (pairfold2_start (fun k q => mget R ArithR u i k * mget R ArithR v j q * w k q a)
               (existsb (Nat.eqb j) (out a i)) (seq 0 K) l1).
    cbv beta iota.
    apply (step_closed l1 _ a i j (rate_gen K u v w)). reflexivity.
  Qed.

  Theorem lik_ass_closed (u v : matrix R) (wd : nat -> nat -> R) :
    lik_ass R ArithR N K L out u v wd = LLguard N L out (rate_ass K u v wd).
  Proof.
    unfold lik_ass, LLguard, layers, vertices, ks.
    transitivity (0 + sumR (fun a => sumR (fun i => sumR (fun j => gterm (rate_ass K u v wd) a i j)
                                                     (seq 0 N)) (seq 0 N)) (seq 0 L)).
    2:{ unfold gterm. lra. }
    apply fold_add_sum. intros l a _.
    apply fold_add_sum. intros l0 i _.
    apply fold_add_sum. intros l1 j _.
    cbv beta zeta. cbn [sub add mul zero ltb eps ln of_count ArithR].
    rewrite (pairfold1_start (fun k => mget R ArithR u i k * mget R ArithR v j k * wd k a)
               (existsb (Nat.eqb j) (out a i)) (seq 0 K) l1).
    cbv beta iota.
    apply (step_closed l1 _ a i j (rate_ass K u v wd)). reflexivity.
  Qed.

  (* ---------------------------------------------------------------------------------------- *)
  (* L2 : above eps on every observed pair, the guard disappears  (property C06)               *)
  (* ---------------------------------------------------------------------------------------- *)
  Lemma LLguard_LLspec (rate : nat -> nat -> nat -> R) :
    (forall a i j, (a < L)%nat -> (i < N)%nat -> (j < N)%nat ->
                   (0 < Acount out a i j)%nat -> epsR < rate i j a) ->
    LLguard N L out rate = LLspec N L out rate.
  Proof.
    intros H. unfold LLguard, LLspec.
    apply sumR_ext. intros a Ha. apply in_seq in Ha.
    apply sumR_ext. intros i Hi. apply in_seq in Hi.
    apply sumR_ext. intros j Hj. apply in_seq in Hj.
    f_equal. unfold Amul.
    destruct (0 <? Acount out a i j)%nat eqn:E.
    - apply Nat.ltb_lt in E.
      assert (Hr : epsR < rate i j a) by (apply H; lia).
      apply Rltb_true in Hr. rewrite Hr. reflexivity.
    - apply Nat.ltb_ge in E. assert (E0 : Acount out a i j = 0%nat) by lia.
      rewrite E0. cbn [INR].
      assert (Hf : Rltb epsR 0 = false) by (apply Rltb_false; unfold epsR; lra).
      rewrite Hf. ring.
  Qed.

  Theorem lik_gen_formula (u v : matrix R) (w : nat -> nat -> nat -> R) :
    (forall a i j, (a < L)%nat -> (i < N)%nat -> (j < N)%nat ->
                   (0 < Acount out a i j)%nat -> epsR < rate_gen K u v w i j a) ->
    lik_gen R ArithR N K L out u v w = LLspec N L out (rate_gen K u v w).
  Proof. intros H. rewrite lik_gen_closed. apply LLguard_LLspec. exact H. Qed.

  Theorem lik_ass_formula (u v : matrix R) (wd : nat -> nat -> R) :
    (forall a i j, (a < L)%nat -> (i < N)%nat -> (j < N)%nat ->
                   (0 < Acount out a i j)%nat -> epsR < rate_ass K u v wd i j a) ->
    lik_ass R ArithR N K L out u v wd = LLspec N L out (rate_ass K u v wd).
  Proof. intros H. rewrite lik_ass_closed. apply LLguard_LLspec. exact H. Qed.
End Closed.

(* the state-level versions: undirected uses the single membership matrix for both roles *)
Theorem lik_gen_state_closed (N K L : nat) (directed : bool) (G : graph)
        (u v : matrix R) (w : list (matrix R)) :
  lik_gen_state R ArithR N K L directed G (u, v, w)
  = LLguard N L (gout G) (rate_gen K u (if directed then v else u) (tget R ArithR w)).
Proof. unfold lik_gen_state. apply lik_gen_closed. Qed.

Theorem lik_ass_state_closed (N K L : nat) (directed : bool) (G : graph)
        (u v : matrix R) (w : list (list R)) :
  lik_ass_state R ArithR N K L directed G (u, v, w)
  = LLguard N L (gout G) (rate_ass K u (if directed then v else u) (dget R ArithR w)).
Proof. unfold lik_ass_state. apply lik_ass_closed. Qed.

Theorem lik_gen_state_formula (N K L : nat) (directed : bool) (G : graph)
        (u v : matrix R) (w : list (matrix R)) :
  (forall a i j, (a < L)%nat -> (i < N)%nat -> (j < N)%nat -> (0 < Acount (gout G) a i j)%nat ->
     epsR < rate_gen K u (if directed then v else u) (tget R ArithR w) i j a) ->
  lik_gen_state R ArithR N K L directed G (u, v, w)
  = LLspec N L (gout G) (rate_gen K u (if directed then v else u) (tget R ArithR w)).
Proof. intros H. unfold lik_gen_state. apply lik_gen_formula. exact H. Qed.

Theorem lik_ass_state_formula (N K L : nat) (directed : bool) (G : graph)
        (u v : matrix R) (w : list (list R)) :
  (forall a i j, (a < L)%nat -> (i < N)%nat -> (j < N)%nat -> (0 < Acount (gout G) a i j)%nat ->
     epsR < rate_ass K u (if directed then v else u) (dget R ArithR w) i j a) ->
  lik_ass_state R ArithR N K L directed G (u, v, w)
  = LLspec N L (gout G) (rate_ass K u (if directed then v else u) (dget R ArithR w)).
Proof. intros H. unfold lik_ass_state. apply lik_ass_formula. exact H. Qed.

(* ------------------------------------------------------------------------------------------ *)
(* L3 : the edge-list log-likelihood of Chain.v is LLspec                                      *)
(* ------------------------------------------------------------------------------------------ *)
Lemma rateS_rate_gen K u v w i j a : rateS K u v w i j a = rate_gen K u v w i j a.
Proof. reflexivity. Qed.

Theorem LL_chain_is_spec (N K L : nat) (G : graph) (u v : matrix R) (w : nat -> nat -> nat -> R) :
  (forall a i j, (a < L)%nat -> (i < N)%nat -> In j (gout G a i) -> (j < N)%nat) ->
  LL N K L G u v w = LLspec N L (gout G) (rate_gen K u v w).
Proof.
  intros Hlt. unfold LL, LLspec, Chain.pairs_out.
  rewrite <- sumR_minus. apply sumR_ext. intros a Ha. apply in_seq in Ha.
  rewrite sumR_flat_map. rewrite <- sumR_minus. apply sumR_ext. intros i Hi. apply in_seq in Hi.
  rewrite sumR_map. cbn [fst snd].
  rewrite (sumR_count_occ (fun j => Rpower.ln (rateS K u v w i j a)) N (gout G a i))
    by (intros j Hj; apply (Hlt a i j); [lia|lia|exact Hj]).
  rewrite <- sumR_minus. apply sumR_ext. intros j _.
  unfold Amul, Acount. rewrite rateS_rate_gen. reflexivity.
Qed.

(* ------------------------------------------------------------------------------------------ *)
(* L4 : observed edges = sum of multiplicities                                                 *)
(* ------------------------------------------------------------------------------------------ *)
Theorem observed_edges_count (N L : nat) (out : nat -> nat -> list nat) (a : nat) :
  (forall a i j, (a < L)%nat -> (i < N)%nat -> In j (out a i) -> (j < N)%nat) ->
  (a < L)%nat ->
  observed_edges N out a = sumR (fun i => sumR (fun j => Amul out a i j) (seq 0 N)) (seq 0 N).
Proof.
  intros Hlt Ha. unfold observed_edges.
  apply sumR_ext. intros i Hi. apply in_seq in Hi.
  rewrite <- sumR_one_length.
  rewrite (sumR_count_occ (fun _ => 1) N (out a i))
    by (intros j Hj; apply (Hlt a i j); [exact Ha|lia|exact Hj]).
  apply sumR_ext. intros j _. unfold Amul, Acount. ring.
Qed.

(* corollaries under the packaged graph invariant of Spec.v; the two `pairs_out` are the same list *)
Lemma pairs_out_same (N : nat) (G : graph) (a : nat) : Chain.pairs_out N G a = Spec.pairs_out N G a.
Proof. reflexivity. Qed.

Corollary LL_chain_is_spec_wf (N K L : nat) (G : graph) (u v : matrix R) (w : nat -> nat -> nat -> R) :
  wfG N L G -> LL N K L G u v w = LLspec N L (gout G) (rate_gen K u v w).
Proof. intros W. apply LL_chain_is_spec. exact (wf_out_lt N L G W). Qed.

Corollary observed_edges_count_wf (N L : nat) (G : graph) (a : nat) :
  wfG N L G -> (a < L)%nat ->
  observed_edges N (gout G) a = sumR (fun i => sumR (fun j => Amul (gout G) a i j) (seq 0 N)) (seq 0 N).
Proof. intros W Ha. apply (observed_edges_count N L); [exact (wf_out_lt N L G W)|exact Ha]. Qed.

Check lik_gen_closed. Check lik_ass_closed. Check lik_gen_formula. Check lik_ass_formula.
Check lik_gen_state_closed. Check lik_ass_state_closed.
Check lik_gen_state_formula. Check lik_ass_state_formula.
Check LL_chain_is_spec. Check observed_edges_count.

Print Assumptions lik_gen_closed.
Print Assumptions lik_ass_closed.
Print Assumptions lik_gen_formula.
Print Assumptions lik_ass_formula.
Print Assumptions lik_gen_state_formula.
Print Assumptions lik_ass_state_formula.
Print Assumptions LL_chain_is_spec.
Print Assumptions observed_edges_count.
