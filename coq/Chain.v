From Coq Require Import Reals List Lra Lia Arith Bool Permutation.
Import ListNotations.
From MT Require Import Arith J MM SweepModel RInst SumLib UBlock WBlock.
Local Open Scope R_scope.

Lemma sumR_perm {A} (f : A -> R) l1 l2 : Permutation l1 l2 -> sumR f l1 = sumR f l2.
Proof. induction 1; simpl; lra. Qed.

(* One directed sweep of the general model never decreases the Poisson log-likelihood (clean step) *)
Section Chain.
  Variables (N K L : nat) (G : graph).
  Notation g := (mget R ArithR).
  Notation out := (gout G). Notation inn := (gin G). Notation ul := (gul G). Notation vl := (gvl G).

  (* rate and log-likelihood of a state, written with out-adjacency *)
  Definition rateS (u v : matrix R) (w : nat -> nat -> nat -> R) (i j a : nat) : R :=
    sumR (fun k => sumR (fun q => g u i k * g v j q * w k q a) (seq 0 K)) (seq 0 K).
  Definition pairs_out (a : nat) : list (nat * nat) := flat_map (fun i => map (fun j => (i, j)) (out a i)) (seq 0 N).
  Definition pairs_in (a : nat) : list (nat * nat) := flat_map (fun j => map (fun i => (i, j)) (inn a j)) (seq 0 N).
  Definition LL (u v : matrix R) (w : nat -> nat -> nat -> R) : R :=
    sumR (fun a => sumR (fun p => Rpower.ln (rateS u v w (fst p) (snd p) a)) (pairs_out a)) (seq 0 L)
    - sumR (fun a => sumR (fun i => sumR (fun j => rateS u v w i j a) (seq 0 N)) (seq 0 N)) (seq 0 L).

  (* graph well-formedness *)
  Hypothesis out_lt : forall a i j, (a < L)%nat -> (i < N)%nat -> In j (out a i) -> (j < N)%nat.
  Hypothesis in_lt : forall a j i, (a < L)%nat -> (j < N)%nat -> In i (inn a j) -> (i < N)%nat.
  Hypothesis in_out : forall a, (a < L)%nat -> Permutation (pairs_out a) (pairs_in a).
  Hypothesis ul_nodup : NoDup ul. Hypothesis vl_nodup : NoDup vl.
  Hypothesis ul_lt : forall i, In i ul -> (i < N)%nat. Hypothesis vl_lt : forall j, In j vl -> (j < N)%nat.

  (* LL in the three block forms *)
  Lemma LL_as_LLu u v w : LL u v w = LLu N K L out v w u.
  Proof.
    unfold LL, LLu, edges, pairs_out. f_equal.
    - rewrite sumR_flat_map. apply sumR_ext. intros a _. rewrite !sumR_flat_map. apply sumR_ext. intros i _.
      rewrite !sumR_map. apply sumR_ext. intros j _. cbn [fst snd]. f_equal.
      unfold rateS, M_, s_. apply sumR_ext. intros k _. rewrite <- sumR_scal. apply sumR_ext. intros q _. ring.
    - apply sumR_ext. intros a _. apply sumR_ext. intros i _. apply sumR_ext. intros j _.
      unfold rateS, M_, s_. apply sumR_ext. intros k _. rewrite <- sumR_scal. apply sumR_ext. intros q _. ring.
  Qed.

  Lemma LL_as_LLw u v w : LL u v w = LLw N K L out u v w.
  Proof.
    unfold LL, LLw, wedges, pairs_out. f_equal.
    rewrite sumR_flat_map. apply sumR_ext. intros a _. rewrite !sumR_flat_map. apply sumR_ext. intros i _.
    rewrite !sumR_map. reflexivity.
  Qed.

  (* v-block: LL written over in-adjacency, transposed affinity, roles exchanged *)
  Lemma LL_as_LLv u v w : LL u v w = LLu N K L inn u (fun k l a => w l k a) v.
  Proof.
    unfold LL, LLu, edges. f_equal.
    - rewrite sumR_flat_map. apply sumR_ext. intros a Ha. apply in_seq in Ha.
      rewrite (sumR_perm _ _ _ (in_out a ltac:(lia))). unfold pairs_in.
      rewrite !sumR_flat_map. apply sumR_ext. intros j _. rewrite !sumR_map. apply sumR_ext. intros i _. cbn [fst snd]. f_equal.
      unfold rateS, M_, s_.
      transitivity (sumR (fun q => sumR (fun k => g u i k * g v j q * w k q a) (seq 0 K)) (seq 0 K)); [apply sumR_swap|].
      apply sumR_ext. intros q _. rewrite <- sumR_scal. apply sumR_ext. intros k _. ring.
    - apply sumR_ext. intros a _.
      transitivity (sumR (fun j => sumR (fun i => rateS u v w i j a) (seq 0 N)) (seq 0 N)); [apply sumR_swap|].
      apply sumR_ext. intros j _. apply sumR_ext. intros i _.
      unfold rateS, M_, s_.
      transitivity (sumR (fun q => sumR (fun k => g u i k * g v j q * w k q a) (seq 0 K)) (seq 0 K)); [apply sumR_swap|].
      apply sumR_ext. intros q _. rewrite <- sumR_scal. apply sumR_ext. intros k _. ring.
  Qed.

  (* ---- invariants preserved by the membership update ---- *)
  Section UpdInv.
    Variables (adj : nat -> nat -> list nat) (numl denl : list nat) (fixed old : matrix R) (w : nat -> nat -> nat -> R).
    Hypothesis old_nonneg : forall i k, 0 <= g old i k.
    Hypothesis fixed_nonneg : forall j q, 0 <= g fixed j q.
    Hypothesis w_nonneg : forall k q a, 0 <= w k q a.
    Let new := upd_vertices_gen R ArithR N K L adj numl denl fixed old w.

    Lemma mget_default (M : matrix R) i k : (forall i k, 0 <= g M i k) -> 0 <= g M i k.
    Proof. auto. Qed.

    Lemma valR_nonneg i k : 0 <= valR K L adj fixed old w i k.
    Proof.
      unfold valR. apply sumR_nonneg. intros a _. apply sumR_nonneg. intros j _.
      destruct (Rltb epsR (MijR K fixed old w i j a)) eqn:E; [|lra].
      apply Rltb_true in E. unfold epsR in E. unfold Rdiv. apply Rmult_le_pos.
      - apply sumR_nonneg. intros q _. apply Rmult_le_pos; auto.
      - left. apply Rinv_0_lt_compat. lra.
    Qed.

    Lemma trunc_nonneg x : 0 <= x -> 0 <= trunc R ArithR x.
    Proof. intros Hx. unfold trunc. simpl. destruct (Rltb (Rabs x) epsR); lra. Qed.

    Lemma upd_nonneg_in i k : (i < N)%nat -> (k < K)%nat -> 0 <= g new i k.
    Proof.
      intros Hi Hk. unfold new. rewrite upd_entry by assumption.
      destruct (existsb (Nat.eqb i) numl); [|auto].
      destruct (Rltb epsR (ZkR K L denl fixed w k)) eqn:EZ; [|auto].
      destruct (Rltb epsR (g old i k)); [|auto].
      apply trunc_nonneg. apply Rltb_true in EZ. unfold epsR in EZ.
      apply Rmult_le_pos; [|apply valR_nonneg]. unfold Rdiv. apply Rmult_le_pos; [auto|]. left. apply Rinv_0_lt_compat. lra.
    Qed.

    (* out-of-range reads of a tabulated matrix give zero *)
    Lemma mget_mtab_out n m f i k : (n <= i)%nat \/ (m <= k)%nat -> mget R ArithR (mtab R n m f) i k = 0.
    Proof.
      intros H. unfold mget, mtab. destruct (lt_dec i n) as [Hi|Hi].
      - rewrite (nth_map_seq (fun i => map (fun k => f i k) (seq 0 m)) [] n i Hi).
        apply nth_overflow. rewrite map_length, seq_length. lia.
      - rewrite (nth_overflow (map _ (seq 0 n))) by (rewrite map_length, seq_length; lia).
        destruct k; reflexivity.
    Qed.

    Lemma upd_nonneg i k : 0 <= g new i k.
    Proof.
      destruct (lt_dec i N) as [Hi|Hi]; [destruct (lt_dec k K) as [Hk|Hk]|].
      - apply upd_nonneg_in; assumption.
      - unfold new, upd_vertices_gen. rewrite mget_mtab_out by lia. lra.
      - unfold new, upd_vertices_gen. rewrite mget_mtab_out by lia. lra.
    Qed.

    Lemma upd_zero_rows i k : (i < N)%nat -> ~ In i numl -> g old i k = 0 -> g new i k = 0.
    Proof.
      intros Hi Hn H0. destruct (lt_dec k K) as [Hk|Hk].
      - unfold new. rewrite upd_entry by assumption.
        replace (existsb (Nat.eqb i) numl) with false; [exact H0|].
        symmetry. apply not_true_is_false. intros E. apply existsb_exists in E. destruct E as [x [Hx Hix]].
        apply Nat.eqb_eq in Hix. subst x. contradiction.
      - unfold new, upd_vertices_gen. rewrite mget_mtab_out by lia. reflexivity.
    Qed.
  End UpdInv.

  (* ---- the three blocks chained: one directed sweep of the general model ---- *)
  Lemma M_rate x y z i j a : M_ K y z x i j a = rateS x y z i j a.
  Proof. unfold M_, s_, rateS. apply sumR_ext. intros k _. rewrite <- sumR_scal. apply sumR_ext. intros q _. ring. Qed.
  Lemma M_rate_T x y z i j a : M_ K y (fun k l a0 => z l k a0) x j i a = rateS y x z i j a.
  Proof.
    unfold M_, s_, rateS.
    transitivity (sumR (fun q => sumR (fun k => g y i k * g x j q * z k q a) (seq 0 K)) (seq 0 K)).
    - apply sumR_ext. intros q _. rewrite <- sumR_scal. apply sumR_ext. intros k _. ring.
    - apply sumR_swap.
  Qed.

  Section SweepAscent.
    Variables (u v : matrix R) (w : nat -> nat -> nat -> R).
    Hypothesis u_nonneg : forall i k, 0 <= g u i k.
    Hypothesis v_nonneg : forall j q, 0 <= g v j q.
    Hypothesis w_nonneg : forall k q a, 0 <= w k q a.
    Hypothesis u_zero : forall i k, (i < N)%nat -> ~ In i ul -> g u i k = 0.
    Hypothesis v_zero : forall j q, (j < N)%nat -> ~ In j vl -> g v j q = 0.

    Let wT := fun k l a => w l k a.
    Let u1 := upd_vertices_gen R ArithR N K L out ul vl v u w.
    Let v1 := upd_vertices_gen R ArithR N K L inn vl ul u1 v wT.
    Let w1 := fun k q a => new_w_gen R ArithR N K out ul vl u1 v1 w k q a.

    (* "clean" sweep: every guard on an observed edge passes, nothing is truncated *)
    Hypothesis c1 : forall a i j, (a < L)%nat -> (i < N)%nat -> In j (out a i) -> epsR < rateS u v w i j a.
    Hypothesis t1 : forall i k, (i < N)%nat -> (k < K)%nat ->
      let x := g u i k / ZkR K L vl v w k * valR K L out v u w i k in trunc R ArithR x = x.
    Hypothesis c2 : forall a j i, (a < L)%nat -> (j < N)%nat -> In i (inn a j) -> epsR < rateS u1 v w i j a.
    Hypothesis t2 : forall j k, (j < N)%nat -> (k < K)%nat ->
      let x := g v j k / ZkR K L ul u1 wT k * valR K L inn u1 v wT j k in trunc R ArithR x = x.
    Hypothesis c3 : forall a i j, (a < L)%nat -> (i < N)%nat -> In j (out a i) -> epsR < rateS u1 v1 w i j a.
    Hypothesis t3 : forall k q a, (k < K)%nat -> (q < K)%nat -> (a < L)%nat ->
      let x := w k q a / (Du N u1 k * Dv N v1 q) * wnum N K out u1 v1 w k q a in trunc R ArithR x = x.

    Theorem sweep_ascent_directed_general :
      LL u v w <= LL u1 v1 w1 /\
      (forall a i j, (a < L)%nat -> (i < N)%nat -> In j (out a i) -> 0 < rateS u1 v1 w1 i j a).
    Proof.
      (* block 1 *)
      assert (B1 : LL u v w <= LL u1 v w).
      { rewrite !LL_as_LLu. apply (u_block_ascent N K L out ul vl v u w); auto.
        intros a i j Ha Hi Hj. rewrite M_rate. apply c1; assumption. }
      assert (u1_nonneg : forall i k, 0 <= g u1 i k) by (intros; apply upd_nonneg; auto).
      assert (u1_zero : forall i k, (i < N)%nat -> ~ In i ul -> g u1 i k = 0).
      { intros i k Hi Hn. apply upd_zero_rows; auto. }
      (* block 2 *)
      assert (wT_nonneg : forall k q a, 0 <= wT k q a) by (intros; apply w_nonneg).
      assert (B2 : LL u1 v w <= LL u1 v1 w).
      { rewrite !LL_as_LLv. apply (u_block_ascent N K L inn vl ul u1 v wT); auto.
        intros a j i Ha Hj Hi. unfold wT. rewrite M_rate_T. apply c2; assumption. }
      assert (v1_nonneg : forall j q, 0 <= g v1 j q) by (intros; apply upd_nonneg; auto).
      assert (v1_zero : forall j q, (j < N)%nat -> ~ In j vl -> g v1 j q = 0).
      { intros j q Hj Hn. apply upd_zero_rows; auto. }
      (* block 3 *)
      pose proof (w_block_ascent N K L out ul vl u1 v1 w u1_nonneg v1_nonneg w_nonneg ul_nodup vl_nodup ul_lt vl_lt u1_zero v1_zero c3 t3) as [B3 P3].
      split.
      - rewrite (LL_as_LLw u1 v1 w), (LL_as_LLw u1 v1 w1) in *. unfold w1. fold (w' N K out ul vl u1 v1 w). lra.
      - exact P3.
    Qed.
  End SweepAscent.
End Chain.
Check sweep_ascent_directed_general.
Print Assumptions sweep_ascent_directed_general.

