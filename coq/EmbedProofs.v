(* EmbedProofs.v -- property C10: the assortative (DiagonalTensor) model is the general
   (SymmetricTensor) model restricted to diagonal affinities.  Over the exact-real instance ArithR:
   embedding a diagonal tensor on the diagonals of a general one (Spec.embed) commutes with the
   membership update, the affinity update, the likelihood, one sweep and any number of sweeps.
   No hypotheses on signs, on the graph, or on the shape of the diagonal tensor are needed. *)
From Coq Require Import Reals List Lra Lia Arith Bool.
Import ListNotations.
From MT Require Import Arith J MM SweepModel RInst SumLib Spec.
Local Open Scope R_scope.

Ltac ared := cbn [zero add sub mul div ltb eps absn of_count ArithR fst snd].

(* ------------------------------------------------------------------ generic list lemmas *)
Lemma fold_left_ext_in {A B} (f g : A -> B -> A) (l : list B) (init : A) :
  (forall s x, In x l -> f s x = g s x) -> fold_left f l init = fold_left g l init.
Proof.
  revert init. induction l as [|b l IH]; intros init H; simpl; [reflexivity|].
  rewrite H by (left; reflexivity). apply IH. intros s x Hx. apply H. right; exact Hx.
Qed.

Lemma fold_left_id_in {A B} (f : A -> B -> A) (l : list B) (init : A) :
  (forall s x, In x l -> f s x = s) -> fold_left f l init = init.
Proof.
  revert init. induction l as [|b l IH]; intros init H; simpl; [reflexivity|].
  rewrite H by (left; reflexivity). apply IH. intros s x Hx. apply H. right; exact Hx.
Qed.

(* a fold over 0..n-1 whose step is the identity except at index k *)
Lemma fold_left_single {A} (f : A -> nat -> A) (k n : nat) (p : A) :
  (k < n)%nat -> (forall s q, (q < n)%nat -> q <> k -> f s q = s) ->
  fold_left f (seq 0 n) p = f p k.
Proof.
  intros Hk H.
  assert (Hs : seq 0 n = seq 0 k ++ [k] ++ seq (S k) (n - S k)).
  { replace n with (k + S (n - S k))%nat at 1 by lia. rewrite seq_app. simpl. reflexivity. }
  rewrite Hs, !fold_left_app. simpl.
  rewrite (fold_left_id_in f (seq 0 k)).
  2:{ intros s x Hx. apply in_seq in Hx. apply H; lia. }
  apply fold_left_id_in. intros s x Hx. apply in_seq in Hx. apply H; lia.
Qed.

Lemma acc_ext_in {T} (l : list T) (f g : T -> R) (init : R) :
  (forall x, In x l -> f x = g x) -> acc R ArithR l f init = acc R ArithR l g init.
Proof. intros H. rewrite !acc_sum. f_equal. apply sumR_ext; exact H. Qed.

Lemma mtab_ext n m (f g : nat -> nat -> R) :
  (forall i k, (i < n)%nat -> (k < m)%nat -> f i k = g i k) -> mtab R n m f = mtab R n m g.
Proof.
  intros H. unfold mtab. apply map_ext_in. intros i Hi. apply in_seq in Hi.
  apply map_ext_in. intros k Hk. apply in_seq in Hk. apply H; lia.
Qed.

Lemma sumR_collapse (F h : nat -> R) (k n : nat) :
  (k < n)%nat -> (forall q, (q < n)%nat -> F q = if Nat.eqb k q then h q else 0) ->
  sumR F (seq 0 n) = h k.
Proof.
  intros Hk H. rewrite <- (sumR_delta h k n Hk). apply sumR_ext.
  intros q Hq. apply in_seq in Hq. apply H. lia.
Qed.

Lemma eps_lt_0_false : ltb ArithR (eps ArithR) 0 = false.
Proof. apply Rltb_false. change (0 <= epsR). unfold epsR. lra. Qed.

Fixpoint iter {A} (n : nat) (f : A -> A) (x : A) : A :=
  match n with O => x | S n' => f (iter n' f x) end.

(* a general accessor w agrees, on in-range indices, with the embedding of a diagonal accessor wdv *)
Definition diag_on (K L : nat) (w : nat -> nat -> nat -> R) (wdv : nat -> nat -> R) : Prop :=
  forall k q a, (k < K)%nat -> (q < K)%nat -> (a < L)%nat ->
    w k q a = if (k =? q)%nat then wdv k a else 0.

(* the embedded accessor itself *)
Definition we (wdv : nat -> nat -> R) (k q a : nat) : R := if (k =? q)%nat then wdv k a else 0.

Lemma we_diag K L wdv : diag_on K L (we wdv) wdv.
Proof. intros k q a _ _ _. reflexivity. Qed.

Lemma diag_on_transpose K L w wdv : diag_on K L w wdv -> diag_on K L (fun k l a => w l k a) wdv.
Proof.
  intros H k q a Hk Hq Ha. rewrite (H q k a Hq Hk Ha). rewrite Nat.eqb_sym.
  destruct (k =? q)%nat eqn:E; [|reflexivity]. apply Nat.eqb_eq in E. subst q. reflexivity.
Qed.

(* the transposed embedded accessor is the same function on ALL indices *)
Lemma we_transpose wdv k l a : we wdv l k a = we wdv k l a.
Proof.
  unfold we. rewrite Nat.eqb_sym. destruct (k =? l)%nat eqn:E; [|reflexivity].
  apply Nat.eqb_eq in E. subst l. reflexivity.
Qed.

(* ------------------------------------------------------------------ E1 : accessor *)
Lemma tget_embed K L (wd : list (list R)) k q a :
  (k < K)%nat -> (q < K)%nat -> (a < L)%nat ->
  tget R ArithR (embed K L wd) k q a = if (k =? q)%nat then dget R ArithR wd k a else 0.
Proof.
  intros Hk Hq Ha. unfold tget, embed.
  rewrite (nth_map_seq (fun a => mtab R K K (fun k q => if (k =? q)%nat then dget R ArithR wd k a else 0)) [] L a Ha).
  apply mget_mtab; assumption.
Qed.

Lemma tget_embed_diag K L wd : diag_on K L (tget R ArithR (embed K L wd)) (dget R ArithR wd).
Proof. intros k q a Hk Hq Ha. apply tget_embed; assumption. Qed.

(* ------------------------------------------------------------------ E2..E4 for any accessor
   that is diagonal on the in-range indices (this subsumes extensionality on in-range indices) *)
Section Embed.
  Variables (N K L : nat).
  Variable w : nat -> nat -> nat -> R.
  Variable wdv : nat -> nat -> R.
  Hypothesis Hw : diag_on K L w wdv.
  Notation g := (mget R ArithR).

  Lemma Zk_embed denl fixed k : (k < K)%nat ->
    Zk_gen R ArithR K L denl fixed w k = Zk_ass R ArithR L denl fixed wdv k.
  Proof.
    intros Hk. unfold Zk_gen, Zk_ass. rewrite acc_sum. ared.
    rewrite (sumR_collapse _ (fun l => acc R ArithR (layers L) (fun a => wdv k a) 0
                                       * acc R ArithR denl (fun i => g fixed i l) 0) k K Hk).
    - lra.
    - intros q Hq. destruct (k =? q)%nat eqn:E.
      + f_equal. apply acc_ext_in. intros a Ha. unfold layers in Ha. apply in_seq in Ha.
        rewrite Hw by lia. rewrite E. reflexivity.
      + rewrite (acc_ext_in (layers L) (fun a => w k q a) (fun _ => 0)).
        * rewrite acc_sum, sumR_zero. lra.
        * intros a Ha. unfold layers in Ha. apply in_seq in Ha. rewrite Hw by lia. rewrite E. reflexivity.
  Qed.

  Lemma Zij_embed fixed old i j a : (a < L)%nat ->
    Zij_gen R ArithR K fixed old w i j a = Zij_ass R ArithR K fixed old wdv i j a.
  Proof.
    intros Ha. rewrite Zij_gen_R. unfold MijR, Zij_ass, ks. rewrite acc_sum. ared. rewrite Rplus_0_l.
    apply sumR_ext. intros m Hm. apply in_seq in Hm.
    apply (sumR_collapse _ (fun l => g old i m * g fixed j l * wdv m a) m K); [lia|].
    intros q Hq. rewrite Hw by lia. destruct (m =? q)%nat; ring.
  Qed.

  Lemma accq_embed fixed j k a : (k < K)%nat -> (a < L)%nat ->
    acc R ArithR (ks K) (fun q => mul ArithR (g fixed j q) (w k q a)) (zero ArithR)
    = add ArithR (zero ArithR) (mul ArithR (g fixed j k) (wdv k a)).
  Proof.
    intros Hk Ha. rewrite acc_sum. ared. f_equal. unfold ks.
    apply (sumR_collapse _ (fun q => g fixed j q * wdv k a) k K Hk).
    intros q Hq. rewrite Hw by lia. destruct (k =? q)%nat eqn:E; [|ring].
    reflexivity.
  Qed.

  Lemma val_embed adj fixed old i k : (k < K)%nat ->
    val_gen R ArithR K L adj fixed old w i k = val_ass R ArithR K L adj fixed old wdv i k.
  Proof.
    intros Hk. unfold val_gen, val_ass. apply fold_left_ext_in. intros s a Ha.
    unfold layers in Ha. apply in_seq in Ha.
    apply fold_left_ext_in. intros s' j _. cbv zeta.
    rewrite Zij_embed by lia. rewrite accq_embed by lia. reflexivity.
  Qed.

  (* E2 *)
  Lemma upd_vertices_embed adj numl denl fixed old :
    upd_vertices_gen R ArithR N K L adj numl denl fixed old w
    = upd_vertices_ass R ArithR N K L adj numl denl fixed old wdv.
  Proof.
    unfold upd_vertices_gen, upd_vertices_ass. apply mtab_ext. intros i k Hi Hk. cbv zeta.
    rewrite Zk_embed by exact Hk. rewrite val_embed by exact Hk. reflexivity.
  Qed.

  Lemma Zijw_embed u v i j a : (a < L)%nat ->
    Zij_w R ArithR K u v w i j a = Zij_wd R ArithR K u v wdv i j a.
  Proof. intros Ha. exact (Zij_embed v u i j a Ha). Qed.

  (* E3, entrywise *)
  Lemma new_w_embed out ul vl u v k q a : (k < K)%nat -> (q < K)%nat -> (a < L)%nat ->
    new_w_gen R ArithR N K out ul vl u v w k q a
    = if (k =? q)%nat then new_w_ass R ArithR N K out ul vl u v wdv k a else 0.
  Proof.
    intros Hk Hq Ha. unfold new_w_gen, new_w_ass. cbv zeta.
    rewrite (Hw k q a Hk Hq Ha). destruct (k =? q)%nat eqn:E.
    - apply Nat.eqb_eq in E. subst q.
      destruct (ltb ArithR (eps ArithR) _); [|reflexivity].
      destruct (ltb ArithR (eps ArithR) (wdv k a)); [|reflexivity].
      f_equal. f_equal. apply acc_ext_in. intros i _. f_equal.
      apply fold_left_ext_in. intros r j _. rewrite Zijw_embed by exact Ha. reflexivity.
    - rewrite eps_lt_0_false. destruct (ltb ArithR (eps ArithR) _); reflexivity.
  Qed.

  Lemma dget_upd_affinity_ass out ul vl u v (wd0 : nat -> nat -> R) k a : (k < K)%nat -> (a < L)%nat ->
    dget R ArithR (upd_affinity_ass R ArithR N K L out ul vl u v wd0) k a
    = new_w_ass R ArithR N K out ul vl u v wd0 k a.
  Proof.
    intros Hk Ha. unfold dget, upd_affinity_ass, layers, ks.
    rewrite (nth_map_seq (fun a => map (fun k => new_w_ass R ArithR N K out ul vl u v wd0 k a) (seq 0 K)) [] L a Ha).
    apply (nth_map_seq (fun k => new_w_ass R ArithR N K out ul vl u v wd0 k a)). exact Hk.
  Qed.

  (* E3, whole tensor *)
  Lemma upd_affinity_embed out ul vl u v :
    upd_affinity_gen R ArithR N K L out ul vl u v w
    = embed K L (upd_affinity_ass R ArithR N K L out ul vl u v wdv).
  Proof.
    unfold upd_affinity_gen, embed, layers. apply map_ext_in. intros a Ha. apply in_seq in Ha.
    apply mtab_ext. intros k q Hk Hq. rewrite new_w_embed by lia.
    destruct (k =? q)%nat; [|reflexivity].
    symmetry. apply dget_upd_affinity_ass; lia.
  Qed.

  (* E4 *)
  Lemma pairfold_embed (has : bool) u v i j a (l : R) : (a < L)%nat ->
    fold_left (fun (p : R * R) k =>
        fold_left (fun (p : R * R) q =>
          (sub ArithR (fst p) (mul ArithR (mul ArithR (g u i k) (g v j q)) (w k q a)),
           if has then add ArithR (snd p) (mul ArithR (mul ArithR (g u i k) (g v j q)) (w k q a)) else snd p))
          (ks K) p) (ks K) (l, zero ArithR)
    = fold_left (fun (p : R * R) k =>
          (sub ArithR (fst p) (mul ArithR (mul ArithR (g u i k) (g v j k)) (wdv k a)),
           if has then add ArithR (snd p) (mul ArithR (mul ArithR (g u i k) (g v j k)) (wdv k a)) else snd p))
          (ks K) (l, zero ArithR).
  Proof.
    intros Ha. apply fold_left_ext_in. intros p k Hk. unfold ks in Hk |- *. apply in_seq in Hk.
    rewrite (fold_left_single _ k K p); [|lia|].
    - rewrite Hw by lia. rewrite Nat.eqb_refl. reflexivity.
    - intros s q Hq Hne. rewrite Hw by lia.
      destruct (k =? q)%nat eqn:E; [apply Nat.eqb_eq in E; congruence|].
      destruct s as [s1 s2]. ared. f_equal; [ring|]. destruct has; ring.
  Qed.

  Lemma lik_embed out u v :
    lik_gen R ArithR N K L out u v w = lik_ass R ArithR N K L out u v wdv.
  Proof.
    unfold lik_gen, lik_ass. apply fold_left_ext_in. intros l a Ha.
    unfold layers in Ha. apply in_seq in Ha.
    apply fold_left_ext_in. intros l' i _. apply fold_left_ext_in. intros l'' j _.
    cbv zeta.
    rewrite (pairfold_embed (existsb (Nat.eqb j) (out a i)) u v i j a l'') by lia.
    reflexivity.
  Qed.
End Embed.

(* ------------------------------------------------------------------ extensionality on in-range
   indices of every general-model function (corollaries, through the same fold extensionality) *)
Section Ext.
  Variables (N K L : nat).
  Variables w1 w2 : nat -> nat -> nat -> R.
  Hypothesis H12 : forall k q a, (k < K)%nat -> (q < K)%nat -> (a < L)%nat -> w1 k q a = w2 k q a.
  Notation g := (mget R ArithR).

  Lemma Zk_gen_ext denl fixed k : (k < K)%nat ->
    Zk_gen R ArithR K L denl fixed w1 k = Zk_gen R ArithR K L denl fixed w2 k.
  Proof.
    intros Hk. unfold Zk_gen. apply acc_ext_in. intros l Hl. unfold ks in Hl. apply in_seq in Hl.
    f_equal. apply acc_ext_in. intros a Ha. unfold layers in Ha. apply in_seq in Ha. apply H12; lia.
  Qed.

  Lemma Zij_gen_ext fixed old i j a : (a < L)%nat ->
    Zij_gen R ArithR K fixed old w1 i j a = Zij_gen R ArithR K fixed old w2 i j a.
  Proof.
    intros Ha. unfold Zij_gen. apply fold_left_ext_in. intros s m Hm. unfold ks in Hm. apply in_seq in Hm.
    apply acc_ext_in. intros l Hl. unfold ks in Hl. apply in_seq in Hl. rewrite H12 by lia. reflexivity.
  Qed.

  Lemma val_gen_ext adj fixed old i k : (k < K)%nat ->
    val_gen R ArithR K L adj fixed old w1 i k = val_gen R ArithR K L adj fixed old w2 i k.
  Proof.
    intros Hk. unfold val_gen. apply fold_left_ext_in. intros s a Ha. unfold layers in Ha. apply in_seq in Ha.
    apply fold_left_ext_in. intros s' j _. cbv zeta. rewrite Zij_gen_ext by lia.
    rewrite (acc_ext_in (ks K) (fun q => mul ArithR (g fixed j q) (w1 k q a))
                              (fun q => mul ArithR (g fixed j q) (w2 k q a))).
    - reflexivity.
    - intros q Hq. unfold ks in Hq. apply in_seq in Hq. rewrite H12 by lia. reflexivity.
  Qed.

  Lemma upd_vertices_gen_ext adj numl denl fixed old :
    upd_vertices_gen R ArithR N K L adj numl denl fixed old w1
    = upd_vertices_gen R ArithR N K L adj numl denl fixed old w2.
  Proof.
    unfold upd_vertices_gen. apply mtab_ext. intros i k Hi Hk. cbv zeta.
    rewrite Zk_gen_ext by exact Hk. rewrite val_gen_ext by exact Hk. reflexivity.
  Qed.

  Lemma Zij_w_ext u v i j a : (a < L)%nat ->
    Zij_w R ArithR K u v w1 i j a = Zij_w R ArithR K u v w2 i j a.
  Proof. intros Ha. exact (Zij_gen_ext v u i j a Ha). Qed.

  Lemma new_w_gen_ext out ul vl u v k q a : (k < K)%nat -> (q < K)%nat -> (a < L)%nat ->
    new_w_gen R ArithR N K out ul vl u v w1 k q a = new_w_gen R ArithR N K out ul vl u v w2 k q a.
  Proof.
    intros Hk Hq Ha. unfold new_w_gen. cbv zeta. rewrite (H12 k q a Hk Hq Ha).
    destruct (ltb ArithR (eps ArithR) _); [|reflexivity].
    destruct (ltb ArithR (eps ArithR) (w2 k q a)); [|reflexivity].
    f_equal. f_equal. apply acc_ext_in. intros i _. f_equal.
    apply fold_left_ext_in. intros r j _. rewrite Zij_w_ext by exact Ha. reflexivity.
  Qed.

  Lemma upd_affinity_gen_ext out ul vl u v :
    upd_affinity_gen R ArithR N K L out ul vl u v w1 = upd_affinity_gen R ArithR N K L out ul vl u v w2.
  Proof.
    unfold upd_affinity_gen, layers. apply map_ext_in. intros a Ha. apply in_seq in Ha.
    apply mtab_ext. intros k q Hk Hq. apply new_w_gen_ext; lia.
  Qed.

  Lemma lik_gen_ext out u v :
    lik_gen R ArithR N K L out u v w1 = lik_gen R ArithR N K L out u v w2.
  Proof.
    unfold lik_gen. apply fold_left_ext_in. intros l a Ha. unfold layers in Ha. apply in_seq in Ha.
    apply fold_left_ext_in. intros l' i _. apply fold_left_ext_in. intros l'' j _. cbv zeta.
    match goal with |- (let '(_, _) := ?X in _) = (let '(_, _) := ?Y in _) => replace X with Y; [reflexivity|] end.
    apply fold_left_ext_in. intros p k Hk. unfold ks in Hk. apply in_seq in Hk.
    apply fold_left_ext_in. intros p' q Hq. unfold ks in Hq. apply in_seq in Hq.
    rewrite H12 by lia. reflexivity.
  Qed.
End Ext.

(* ------------------------------------------------------------------ the statements for the
   literal embedded accessor  we wdv k q a = if k =? q then wdv k a else 0 *)
Section EmbedWe.
  Variables (N K L : nat) (wdv : nat -> nat -> R).

  Theorem E2_Zk denl fixed k : (k < K)%nat ->
    Zk_gen R ArithR K L denl fixed (we wdv) k = Zk_ass R ArithR L denl fixed wdv k.
  Proof. apply Zk_embed. apply we_diag. Qed.

  Theorem E2_Zij fixed old i j a : (a < L)%nat ->
    Zij_gen R ArithR K fixed old (we wdv) i j a = Zij_ass R ArithR K fixed old wdv i j a.
  Proof. apply (Zij_embed K L). apply we_diag. Qed.

  Theorem E2_val adj fixed old i k : (k < K)%nat ->
    val_gen R ArithR K L adj fixed old (we wdv) i k = val_ass R ArithR K L adj fixed old wdv i k.
  Proof. apply val_embed. apply we_diag. Qed.

  Theorem E2_upd_vertices adj numl denl fixed old :
    upd_vertices_gen R ArithR N K L adj numl denl fixed old (we wdv)
    = upd_vertices_ass R ArithR N K L adj numl denl fixed old wdv.
  Proof. apply upd_vertices_embed. apply we_diag. Qed.

  Theorem E2_upd_vertices_transposed adj numl denl fixed old :
    upd_vertices_gen R ArithR N K L adj numl denl fixed old (fun k l a => we wdv l k a)
    = upd_vertices_ass R ArithR N K L adj numl denl fixed old wdv.
  Proof. apply upd_vertices_embed. apply diag_on_transpose. apply we_diag. Qed.

  Theorem E3_new_w out ul vl u v k q a : (k < K)%nat -> (q < K)%nat -> (a < L)%nat ->
    new_w_gen R ArithR N K out ul vl u v (we wdv) k q a
    = if (k =? q)%nat then new_w_ass R ArithR N K out ul vl u v wdv k a else 0.
  Proof. apply (new_w_embed N K L). apply we_diag. Qed.

  Theorem E3_upd_affinity out ul vl u v :
    upd_affinity_gen R ArithR N K L out ul vl u v (we wdv)
    = embed K L (upd_affinity_ass R ArithR N K L out ul vl u v wdv).
  Proof. apply upd_affinity_embed. apply we_diag. Qed.

  Theorem E4_lik out u v :
    lik_gen R ArithR N K L out u v (we wdv) = lik_ass R ArithR N K L out u v wdv.
  Proof. apply lik_embed. apply we_diag. Qed.
End EmbedWe.

(* ------------------------------------------------------------------ E5, E6 : sweeps *)
Section Sweeps.
  Variables (N K L : nat).

  Theorem E5_sweep (directed : bool) (G : graph) (u v : matrix R) (wd : list (list R)) :
    sweep_gen R ArithR N K L directed G (u, v, embed K L wd)
    = let '(u', v', wd') := sweep_ass R ArithR N K L directed G (u, v, wd) in (u', v', embed K L wd').
  Proof.
    pose proof (tget_embed_diag K L wd) as H1.
    pose proof (diag_on_transpose K L _ _ H1) as H2.
    unfold sweep_gen, sweep_ass. destruct directed; cbv zeta.
    - rewrite (upd_vertices_embed N K L _ _ H1).
      rewrite (upd_vertices_embed N K L _ _ H2).
      rewrite (upd_affinity_embed N K L _ _ H1). reflexivity.
    - rewrite (upd_vertices_embed N K L _ _ H1).
      rewrite (upd_affinity_embed N K L _ _ H1). reflexivity.
  Qed.

  Theorem E5_lik_state (directed : bool) (G : graph) (u v : matrix R) (wd : list (list R)) :
    lik_gen_state R ArithR N K L directed G (u, v, embed K L wd)
    = lik_ass_state R ArithR N K L directed G (u, v, wd).
  Proof.
    unfold lik_gen_state, lik_ass_state. apply lik_embed. apply tget_embed_diag.
  Qed.

  (* shape: L rows of length K *)
  Definition shapeKL (wd : list (list R)) : Prop :=
    length wd = L /\ forall row, In row wd -> length row = K.

  Lemma upd_affinity_ass_shape out ul vl u v wd0 :
    shapeKL (upd_affinity_ass R ArithR N K L out ul vl u v wd0).
  Proof.
    unfold shapeKL, upd_affinity_ass, layers, ks. split.
    - rewrite map_length, seq_length. reflexivity.
    - intros row Hrow. apply in_map_iff in Hrow. destruct Hrow as [a [Ea _]]. subst row.
      rewrite map_length, seq_length. reflexivity.
  Qed.

  (* sweep_ass produces a well-shaped diagonal tensor (whatever the input shape) *)
  Lemma sweep_ass_shape directed G u v wd :
    shapeKL (snd (sweep_ass R ArithR N K L directed G (u, v, wd))).
  Proof. unfold sweep_ass. destruct directed; cbv zeta; simpl snd; apply upd_affinity_ass_shape. Qed.

  Lemma iter_sweep_ass_shape directed G n u v wd : shapeKL wd ->
    shapeKL (snd (iter n (sweep_ass R ArithR N K L directed G) (u, v, wd))).
  Proof.
    intros Hs. induction n as [|n IH]; simpl iter; [exact Hs|].
    destruct (iter n (sweep_ass R ArithR N K L directed G) (u, v, wd)) as [[u' v'] wd'].
    apply sweep_ass_shape.
  Qed.

  Theorem E6_iter_sweep (directed : bool) (G : graph) (n : nat) (u v : matrix R) (wd : list (list R)) :
    iter n (sweep_gen R ArithR N K L directed G) (u, v, embed K L wd)
    = let '(u', v', wd') := iter n (sweep_ass R ArithR N K L directed G) (u, v, wd) in
      (u', v', embed K L wd').
  Proof.
    induction n as [|n IH]; simpl iter; [reflexivity|].
    rewrite IH.
    destruct (iter n (sweep_ass R ArithR N K L directed G) (u, v, wd)) as [[u' v'] wd'].
    apply E5_sweep.
  Qed.

  (* likelihood after any number of sweeps *)
  Corollary E6_iter_lik (directed : bool) (G : graph) (n : nat) (u v : matrix R) (wd : list (list R)) :
    lik_gen_state R ArithR N K L directed G (iter n (sweep_gen R ArithR N K L directed G) (u, v, embed K L wd))
    = lik_ass_state R ArithR N K L directed G (iter n (sweep_ass R ArithR N K L directed G) (u, v, wd)).
  Proof.
    rewrite E6_iter_sweep.
    destruct (iter n (sweep_ass R ArithR N K L directed G) (u, v, wd)) as [[u' v'] wd'].
    apply E5_lik_state.
  Qed.
End Sweeps.

Print Assumptions tget_embed.
Print Assumptions E2_upd_vertices.
Print Assumptions E2_upd_vertices_transposed.
Print Assumptions E3_new_w.
Print Assumptions E3_upd_affinity.
Print Assumptions E4_lik.
Print Assumptions E5_sweep.
Print Assumptions E5_lik_state.
Print Assumptions E6_iter_sweep.
Print Assumptions E6_iter_lik.
Print Assumptions upd_vertices_gen_ext.
Print Assumptions lik_gen_ext.
