(* Properties_C01.v -- C01: EM ascent -- the log-likelihood never decreases between iterations (clean steps).
   ArithR (exact reals).  LLspec = sum_a sum_ij A ln M - M (Spec.v).  `clean_*` = the two admissible exceptions of the property,
   negated: at each of the three intermediate states of the sweep every observed edge has rate > 1e-6, and no updated value is
   snapped to zero by the truncation.  Directed variants (general and assortative): PROVED, for every graph the builder can
   produce, every K, L, multiplicity, and along whole trajectories (minorise-maximise, MM.v).  Undirected variants: the
   simultaneous replacement of both roles of the single membership matrix is not a block-coordinate step; the two half-steps
   are proved (C01_undirected_partial) and the full claim is REFUTED for asymmetric affinities (C01_refuted_undirected_asym,
   witness replayed on the implementation by the check: known finding).  Not verified: binary64 rounding.
   Only statements; every proof is `exact <lemma>` (proofs live in the files imported below). *)
From Coq Require Import Arith List Bool Reals Floats.
Import ListNotations.
From MT Require Import Arith J SweepModel RInst Spec GraphModel AscentProofs Refute.
Local Open Scope R_scope.

(* one directed sweep of the general model: the Poisson log-likelihood does not decrease and every observed rate stays positive *)
Theorem C01_directed_general : forall (N K L : nat) (G : graph),
       wfG N L G ->
       wfG_directed N L G ->
       forall (u v : matrix R) (w : list (matrix R)),
       nonneg_m u ->
       nonneg_m v ->
       (forall k q a : nat, 0 <= tg w k q a) ->
       zero_rows N (gul G) u ->
       zero_rows N (gvl G) v ->
       clean_directed_gen N K L G u v (tg w) ->
       let
       '(u1, v1, w1) := sweep_gen R ArithR N K L true G (u, v, w) in
        LLspec N L (gout G) (rate_gen K u v (tg w)) <= LLspec N L (gout G) (rate_gen K u1 v1 (tg w1)) /\
        (forall a i j : nat,
         (a < L)%nat -> (i < N)%nat -> In j (gout G a i) -> 0 < rate_gen K u1 v1 (tg w1) i j a).
Proof. exact C01_sweep_directed_general. Qed.
Print Assumptions C01_directed_general.

(* the same for the quantity the solver itself computes (lik_gen_state), when observed rates exceed 1e-6 before and after *)
Theorem C01_directed_general_reported : forall (N K L : nat) (G : graph),
       wfG N L G ->
       wfG_directed N L G ->
       forall (u v : matrix R) (w : list (matrix R)),
       nonneg_m u ->
       nonneg_m v ->
       (forall k q a : nat, 0 <= tg w k q a) ->
       zero_rows N (gul G) u ->
       zero_rows N (gvl G) v ->
       clean_directed_gen N K L G u v (tg w) ->
       (let
        '(u1, v1, w1) := sweep_gen R ArithR N K L true G (u, v, w) in
         forall a i j : nat,
         (a < L)%nat -> (i < N)%nat -> In j (gout G a i) -> epsR < rate_gen K u1 v1 (tg w1) i j a) ->
       lik_gen_state R ArithR N K L true G (u, v, w) <=
       lik_gen_state R ArithR N K L true G (sweep_gen R ArithR N K L true G (u, v, w)).
Proof. exact C01_lik_directed_general. Qed.
Print Assumptions C01_directed_general_reported.

Theorem C01_directed_assortative : forall (N K L : nat) (G : graph),
       wfG N L G ->
       wfG_directed N L G ->
       forall (u v : matrix R) (wd : list (list R)),
       nonneg_m u ->
       nonneg_m v ->
       (forall k a : nat, (k < K)%nat -> (a < L)%nat -> 0 <= dg wd k a) ->
       zero_rows N (gul G) u ->
       zero_rows N (gvl G) v ->
       clean_directed_ass N K L G u v (dg wd) ->
       let
       '(u1, v1, wd1) := sweep_ass R ArithR N K L true G (u, v, wd) in
        LLspec N L (gout G) (rate_ass K u v (dg wd)) <= LLspec N L (gout G) (rate_ass K u1 v1 (dg wd1)) /\
        (forall a i j : nat,
         (a < L)%nat -> (i < N)%nat -> In j (gout G a i) -> 0 < rate_ass K u1 v1 (dg wd1) i j a).
Proof. exact C01_sweep_directed_assortative. Qed.
Print Assumptions C01_directed_assortative.

Theorem C01_directed_assortative_reported : forall (N K L : nat) (G : graph),
       wfG N L G ->
       wfG_directed N L G ->
       forall (u v : matrix R) (wd : list (list R)),
       nonneg_m u ->
       nonneg_m v ->
       (forall k a : nat, (k < K)%nat -> (a < L)%nat -> 0 <= dg wd k a) ->
       zero_rows N (gul G) u ->
       zero_rows N (gvl G) v ->
       clean_directed_ass N K L G u v (dg wd) ->
       (let
        '(u1, v1, wd1) := sweep_ass R ArithR N K L true G (u, v, wd) in
         forall a i j : nat,
         (a < L)%nat -> (i < N)%nat -> In j (gout G a i) -> epsR < rate_ass K u1 v1 (dg wd1) i j a) ->
       lik_ass_state R ArithR N K L true G (u, v, wd) <=
       lik_ass_state R ArithR N K L true G (sweep_ass R ArithR N K L true G (u, v, wd)).
Proof. exact C01_lik_directed_assortative. Qed.
Print Assumptions C01_directed_assortative_reported.

(* no graph hypothesis left: every network built from an edge list (parallel records, weights > 1, self-loops, sink/source vertices, all-zero records) *)
Theorem C01_directed_from_builder : forall (label : Type) (leqb : label -> label -> bool),
       (forall a b : label, leqb a b = true <-> a = b) ->
       forall (L : nat) (recs : list (label * label * list nat)) (K : nat) 
         (u v : matrix R) (w : list (matrix R)),
       let net := build label leqb true L recs in
       let N := num_vertices label net in
       let G := graph_of label true net in
       nonneg_m u ->
       nonneg_m v ->
       (forall k q a : nat, 0 <= tg w k q a) ->
       zero_rows N (gul G) u ->
       zero_rows N (gvl G) v ->
       clean_directed_gen N K L G u v (tg w) ->
       let
       '(u1, v1, w1) := sweep_gen R ArithR N K L true G (u, v, w) in
        LLspec N L (gout G) (rate_gen K u v (tg w)) <= LLspec N L (gout G) (rate_gen K u1 v1 (tg w1)) /\
        (forall a i j : nat,
         (a < L)%nat -> (i < N)%nat -> In j (gout G a i) -> 0 < rate_gen K u1 v1 (tg w1) i j a).
Proof. exact C01_from_build. Qed.
Print Assumptions C01_directed_from_builder.

(* every pair of consecutive iterations of a trajectory whose steps are clean (the invariants are preserved by the sweep) *)
Theorem C01_directed_trajectory : forall (N K L : nat) (G : graph),
       wfG N L G ->
       wfG_directed N L G ->
       forall (s : matrix R * matrix R * list (matrix R)) (n : nat),
       inv_gen N G s ->
       (forall m : nat, (m < n)%nat -> clean_state N K L G (traj N K L G m s)) ->
       forall m : nat,
       (m < n)%nat -> LLstate N K L G (traj N K L G m s) <= LLstate N K L G (traj N K L G (S m) s).
Proof. exact C01_trajectory_directed. Qed.
Print Assumptions C01_directed_trajectory.

Theorem C01_directed_trajectory_assortative : forall (N K L : nat) (G : graph),
       wfG N L G ->
       wfG_directed N L G ->
       forall (s : matrix R * matrix R * list (list R)) (n : nat),
       inv_ass N K L G s ->
       (forall m : nat, (m < n)%nat -> clean_state_ass N K L G (traj_ass N K L G m s)) ->
       forall m : nat,
       (m < n)%nat ->
       LLstate_ass N K L G (traj_ass N K L G m s) <= LLstate_ass N K L G (traj_ass N K L G (S m) s).
Proof. exact C01_trajectory_directed_assortative. Qed.
Print Assumptions C01_directed_trajectory_assortative.

(* undirected: (a) LL(u,u,w) <= LL(u1,u,w) and (b) LL(u1,u1,w) <= LL(u1,u1,w1) -- the two half-steps; *)
(* MISSING for the full statement LL(u,u,w) <= LL(u1,u1,w1): the inequality LL(u1,u,w) <= LL(u1,u1,w), which is false in general: *)
Theorem C01_undirected_partial : forall (N K L : nat) (G : graph) (u v : matrix R) (w : list (matrix R)),
       wfG N L G ->
       wfG_undirected N L G ->
       nonneg_m u ->
       (forall k q a : nat, 0 <= tg w k q a) ->
       zero_rows N (gul G) u ->
       clean_undirected_gen N K L G u (tg w) ->
       let
       '(u1, v', w1) := sweep_gen R ArithR N K L false G (u, v, w) in
        LLspec N L (gout G) (rate_gen K u u (tg w)) <= LLspec N L (gout G) (rate_gen K u1 u (tg w)) /\
        LLspec N L (gout G) (rate_gen K u1 u1 (tg w)) <= LLspec N L (gout G) (rate_gen K u1 u1 (tg w1)) /\
        v' = v /\
        (forall a i j : nat,
         (a < L)%nat -> (i < N)%nat -> In j (gout G a i) -> 0 < rate_gen K u1 u (tg w) i j a) /\
        (forall a i j : nat,
         (a < L)%nat -> (i < N)%nat -> In j (gout G a i) -> 0 < rate_gen K u1 u1 (tg w1) i j a).
Proof. exact AscentProofs.C01_undirected_partial. Qed.
Print Assumptions C01_undirected_partial.

(* a clean undirected step (every hypothesis of the partial theorem holds, nothing truncated, all rates far above 1e-6) on which the *)
(* log-likelihood strictly DECREASES: N=2, K=2, one edge, u = [[2/5,2/5],[3/5,1/5]], w = [[1/5,9/5],[1/5,6/5]] (asymmetric) *)
Theorem C01_refuted_undirected_asym : exists (N K L : nat) (G : graph) (u v : matrix R) (w : list (matrix R)),
         wfG N L G /\
         wfG_undirected N L G /\
         nonneg_m u /\
         (forall k q a : nat, 0 <= tg w k q a) /\
         zero_rows N (gul G) u /\
         clean_undirected_gen N K L G u (tg w) /\
         (let
          '(u1, _, w1) := sweep_gen R ArithR N K L false G (u, v, w) in
           all_above u /\
           Forall all_above w /\
           all_above u1 /\
           Forall all_above w1 /\
           (forall a i j : nat,
            (a < L)%nat -> (i < N)%nat -> In j (gout G a i) -> epsR < rate_gen K u1 u1 (tg w1) i j a) /\
           LLspec N L (gout G) (rate_gen K u1 u1 (tg w1)) < LLspec N L (gout G) (rate_gen K u u (tg w))).
Proof. exact Refute.C01_refuted_undirected_asym. Qed.
Print Assumptions C01_refuted_undirected_asym.

(* the same for the solver's own likelihood function *)
Theorem C01_refuted_undirected_asym_reported : lik_gen_state R ArithR 2 2 1 false Gx (sweep_gen R ArithR 2 2 1 false Gx (ux, [], wx)) <
       lik_gen_state R ArithR 2 2 1 false Gx (ux, [], wx).
Proof. exact C01_refuted_undirected_asym_lik. Qed.
Print Assumptions C01_refuted_undirected_asym_reported.

