(* Mt19937.v -- the random stream of utils::RandomGenerator<> (utils.hpp:100-129):
   std::mt19937 seeded with static_cast<unsigned int>(seed), drawn through
   std::uniform_real_distribution<double>(0,1), i.e. libstdc++'s
   generate_canonical<double,53>: two 32-bit outputs x1, x2; (x1 + x2*2^32) / 2^64 in binary64, and the
   value just below 1 when that quotient rounds to 1.

   The engine works on Z (words are kept below 2^32 explicitly: `mod 2^32` is written where C++ wraps);
   the state is the 624-word vector and the read position; the regeneration ("twist") of the in-place
   C++ loop is written as the usual three segments (positions k < 227 read only old words, positions
   227 <= k < 454 read new words of the first segment, positions 454 <= k < 623 new words of the second,
   position 623 reads new words 0 and 396). *)
From Coq Require Import List ZArith Floats Uint63.
Import ListNotations.
Local Open Scope Z_scope.

Definition W32 : Z := 4294967296.            (* 2^32 *)
Definition mtN : nat := 624.
Definition mtM : nat := 397.

(* seeding: x[0] = seed mod 2^32 ; x[i] = (1812433253 * (x[i-1] xor (x[i-1] >> 30)) + i) mod 2^32 *)
Fixpoint seed_words (n : nat) (i : Z) (prev : Z) : list Z :=
  match n with
  | O => []
  | S n' => let x := (1812433253 * (Z.lxor prev (Z.shiftr prev 30)) + i) mod W32 in
            x :: seed_words n' (i + 1) x
  end.
Definition mt_seed (seed : Z) : list Z :=
  let x0 := seed mod W32 in x0 :: seed_words (mtN - 1) 1 x0.

(* one regenerated word from x[k], x[k+1], x[k+m] *)
Definition mix (xk xk1 xkm : Z) : Z :=
  let y := Z.lor (Z.land xk 2147483648) (Z.land xk1 2147483647) in
  let v := Z.lxor xkm (Z.shiftr y 1) in
  if Z.odd y then Z.lxor v 2567483615 else v.           (* 0x9908b0df *)

Fixpoint map3 (f : Z -> Z -> Z -> Z) (a b c : list Z) : list Z :=
  match a, b, c with
  | x :: a', y :: b', z :: c' => f x y z :: map3 f a' b' c'
  | _, _, _ => []
  end.

Definition twist (x : list Z) : list Z :=
  let a := map3 mix (firstn 227 x) (firstn 227 (skipn 1 x)) (skipn 397 x) in                       (* k = 0..226 *)
  let b1 := map3 mix (firstn 227 (skipn 227 x)) (firstn 227 (skipn 228 x)) a in                     (* k = 227..453 *)
  let b2 := map3 mix (firstn 169 (skipn 454 x)) (firstn 169 (skipn 455 x)) b1 in                    (* k = 454..622 *)
  let last := mix (nth 623 x 0) (nth 0 a 0) (nth 169 b1 0) in                                       (* k = 623 *)
  a ++ b1 ++ b2 ++ [last].

Definition temper (y : Z) : Z :=
  let y := Z.lxor y (Z.shiftr y 11) in
  let y := Z.lxor y (Z.land (Z.shiftl y 7) 2636928640) in      (* 0x9d2c5680 *)
  let y := Z.lxor y (Z.land (Z.shiftl y 15) 4022730752) in     (* 0xefc60000 *)
  Z.lxor y (Z.shiftr y 18).

Record mt_state := { words : list Z; pos : nat }.
Definition mt_init (seed : Z) : mt_state := {| words := mt_seed seed; pos := mtN |}.

Definition next32 (s : mt_state) : Z * mt_state :=
  let s' := if Nat.leb mtN (pos s) then {| words := twist (words s); pos := 0 |} else s in
  (temper (nth (pos s') (words s') 0), {| words := words s'; pos := S (pos s') |}).

(* generate_canonical<double,53,mt19937> followed by uniform_real_distribution(0,1)'s  r*(b-a)+a  (exact) *)
Definition float_of_word (z : Z) : float := PrimFloat.of_uint63 (Uint63.of_Z z).
Definition canonical_of (x1 x2 : Z) : float :=
  let sum := PrimFloat.add (float_of_word x1) (PrimFloat.mul (float_of_word x2) 0x1p32%float) in
  let r := PrimFloat.div sum 0x1p64%float in
  if PrimFloat.leb 1%float r then 0x1.fffffffffffffp-1%float else r.
Definition next_draw (s : mt_state) : float * mt_state :=
  let '(x1, s1) := next32 s in
  let '(x2, s2) := next32 s1 in
  (canonical_of x1 x2, s2).

Fixpoint draws_from (n : nat) (s : mt_state) : list float :=
  match n with
  | O => []
  | S n' => let '(d, s') := next_draw s in d :: draws_from n' s'
  end.
(* the first n draws of RandomGenerator<>{seed} *)
Definition mt_draws (seed : Z) (n : nat) : list float := draws_from n (mt_init seed).

Fixpoint outputs_from (n : nat) (s : mt_state) : list Z :=
  match n with
  | O => []
  | S n' => let '(x, s') := next32 s in x :: outputs_from n' s'
  end.
