(* DispatchProofs.v -- the variant-selection tables of the two front ends (regenerated from the sources by the
   translators T3 and T5) against the canonical mapping (directed, assortative, affinity file[, weight type]) ->
   library instantiation.  Finite: closed by case analysis + vm_compute. *)
From Coq Require Import List String Bool Arith.
Import ListNotations.
From MT Require Import GenCli GenPyx.
Local Open Scope string_scope.

Fixpoint slist_eqb (a b : list string) : bool :=
  match a, b with
  | [], [] => true
  | x :: a', y :: b' => String.eqb x y && slist_eqb a' b'
  | _, _ => false
  end.
Lemma slist_eqb_eq a b : slist_eqb a b = true -> a = b.
Proof.
  revert b. induction a as [|x a IH]; intros [|y b] H; try discriminate; [reflexivity|].
  cbn in H. apply andb_true_iff in H. destruct H as [H1 H2]. apply String.eqb_eq in H1. subst. f_equal. apply IH, H2.
Qed.

(* ---------------- canonical mapping ---------------- *)
Definition dir_name (directed : bool) := if directed then "bidirectionalS" else "undirectedS".
(* C++ spelling *)
Definition tensor_cxx (assort : bool) := if assort then "DiagonalTensor<double>" else "SymmetricTensor<double>".
Definition init_cxx (assort file : bool) :=
  if file then "init_symmetric_tensor_from_initial<" ++ tensor_cxx assort ++ ">" else "init_symmetric_tensor_random".
Definition expected_cli (directed assort file : bool) : list string :=
  [dir_name directed; tensor_cxx assort; init_cxx assort file].
(* Cython spelling *)
Definition tensor_pyx (assort : bool) := if assort then "DiagonalTensor[numpy.float_t]" else "SymmetricTensor[numpy.float_t]".
Definition init_pyx (assort file : bool) :=
  if file then "init_symmetric_tensor_from_initial[" ++ tensor_pyx assort ++ "]" else "init_symmetric_tensor_random".
Definition weight_pyx (wint : bool) := if wint then "numpy.int_t" else "numpy.float_t".
Definition expected_pyx (wint directed assort file : bool) : list string :=
  [dir_name directed; tensor_pyx assort; init_pyx assort file; "vertex_t"; weight_pyx wint].
Definition expected_pyx_args (wint : bool) : list string :=
  ["< const vector[vertex_t] & > edges_start"; "< const vector[vertex_t] & > edges_end";
   "< const vector[" ++ weight_pyx wint ++ "] & > edges_weights";
   "nof_realizations"; "max_nof_iterations"; "nof_convergences"; "labels"; "c_u"; "c_v"; "c_affinity"; "deref(rng)"].

(* ---------------- Python table ---------------- *)
Definition lit_ok (l : option bool) (b : bool) : bool := match l with Some x => Bool.eqb x b | None => true end.
Definition py_matches (wint directed assort file : bool) (r : pyrow) : bool :=
  lit_ok (p_wint r) wint && lit_ok (p_directed r) directed && lit_ok (p_assort r) assort && lit_ok (p_file r) file.
Definition py_selected (wint directed assort file : bool) : list pyrow :=
  filter (py_matches wint directed assort file) cxx_pyx_rows.
Definition py_row_ok (wint directed assort file : bool) (r : pyrow) : bool :=
  slist_eqb (p_targs r) (expected_pyx wint directed assort file) &&
  Bool.eqb (p_vresize r) directed && (Nat.eqb (p_ncalls r) 1) && slist_eqb (p_args r) (expected_pyx_args wint).

Lemma pyx_dispatch : forall wint directed assort file,
  exists r, py_selected wint directed assort file = [r] /\
    p_targs r = expected_pyx wint directed assort file /\
    p_vresize r = directed /\ p_ncalls r = 1 /\ p_args r = expected_pyx_args wint.
Proof.
  intros [] [] [] []; vm_compute; eexists; (split; [reflexivity|]); repeat split.
Qed.

Lemma pyx_tail : cxx_pyx_v_returned_when = "directed" /\ cxx_pyx_reshape_transposed = true /\ List.length cxx_pyx_rows = 16.
Proof. repeat split. Qed.

(* ---------------- command line table ---------------- *)
Definition sel_of (directed assort file : bool) : nat :=
  ((if directed then 1 else 0) + 2 * (if assort then 1 else 0) + 4 * (if file then 1 else 0))%nat.
(* template arguments left out take the defaults of main.hpp *)
Definition with_defaults (targs : list string) : list string := targs ++ skipn (List.length targs) cxx_template_defaults.
Definition cli_selected (directed assort file : bool) : list clirow :=
  filter (fun r => Nat.eqb (c_sel r) (sel_of directed assort file)) cxx_cli_rows.

Lemma cli_dispatch : forall directed assort file,
  exists r, cli_selected directed assort file = [r] /\
    with_defaults (c_targs r) = expected_cli directed assort file /\
    c_vresize r = directed /\ c_args r = cxx_formal_parameters.
Proof.
  intros [] [] []; vm_compute; eexists; (split; [reflexivity|]); repeat split.
Qed.

Lemma cli_selection_expr :
  cxx_cli_selection = [("directed_graph", 1); ("assortative", 2); ("w_init_defined", 4)] /\ List.length cxx_cli_rows = 8.
Proof. split; reflexivity. Qed.

(* the two tables name the same instantiation for every variant (spelling aside), for both weight types *)
Definition pyx_to_cxx (s : string) : string :=
  if String.eqb s "SymmetricTensor[numpy.float_t]" then "SymmetricTensor<double>"
  else if String.eqb s "DiagonalTensor[numpy.float_t]" then "DiagonalTensor<double>"
  else if String.eqb s "init_symmetric_tensor_from_initial[SymmetricTensor[numpy.float_t]]" then "init_symmetric_tensor_from_initial<SymmetricTensor<double>>"
  else if String.eqb s "init_symmetric_tensor_from_initial[DiagonalTensor[numpy.float_t]]" then "init_symmetric_tensor_from_initial<DiagonalTensor<double>>"
  else s.
Lemma tables_agree : forall wint directed assort file,
  exists rp rc, py_selected wint directed assort file = [rp] /\ cli_selected directed assort file = [rc] /\
    map pyx_to_cxx (firstn 3 (p_targs rp)) = with_defaults (c_targs rc) /\ p_vresize rp = c_vresize rc.
Proof.
  intros [] [] [] []; vm_compute; do 2 eexists; (split; [reflexivity|]); (split; [reflexivity|]); split; reflexivity.
Qed.

(* ---------------- options of the command line ---------------- *)
Definition documented := ["--k"; "--a"; "--w"; "--assortative"; "--undirected"; "--r"; "--maxit"; "--y"; "--s"; "--o"].
Definition parsed_opts : list string := map (fun p => fst (fst (fst p))) cxx_cli_parsed_options.
Lemma cli_options :
  cxx_cli_help_options = documented /\
  (forall o, In o documented -> In o parsed_opts) /\
  (* each option is read from ITS OWN name and lands in the variable that reaches the library *)
  (forall p, In p cxx_cli_parsed_options -> fst (fst (fst p)) = snd p) /\
  cxx_cli_parsed_options =
    [("--k", "nof_groups", "stoi", "--k"); ("--a", "adjacency_filename", "string", "--a");
     ("--w", "affinity_filename", "string", "--w"); ("--undirected", "directed_graph", "false", "--undirected");
     ("--assortative", "assortative", "true", "--assortative"); ("--o", "output_directory", "string", "--o");
     ("--r", "nof_realizations", "stoi", "--r"); ("--s", "seed", "string", "--s");
     ("--maxit", "max_nof_iterations", "stoi", "--maxit"); ("--y", "nof_convergences", "stoi", "--y")].
Proof.
  split; [reflexivity|]. split.
  - intros o H. vm_compute in H. vm_compute. tauto.
  - split; [|reflexivity]. intros p H. vm_compute in H.
    repeat (destruct H as [<-|H]; [reflexivity|]). contradiction.
Qed.

Lemma cli_files :
  cxx_cli_writers =
    [("write_info_file", "INFO_FILENAME", "", "results"); ("write_affinity_file", "WOUT_FILENAME", "", "affinity results nof_groups nof_layers");
     ("write_membership_file", "UOUT_FILENAME", "", "labels u results"); ("write_membership_file", "VOUT_FILENAME", "directed_graph", "labels v results")] /\
  cxx_cli_fact_adjacency_read = true /\ cxx_cli_fact_affinity_read = true /\ cxx_cli_fact_u_alloc = true /\
  cxx_cli_fact_seed_stoi = true /\ cxx_cli_fact_rng_from_seed = true /\ cxx_cli_fact_w_init_defined = true /\
  cxx_cli_fact_affinity_size = true /\ cxx_cli_fact_outdir = true.
Proof. repeat split. Qed.
