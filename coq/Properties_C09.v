(* Properties_C09.v -- C09: mass balance -- expected edge count equals observed edge count per layer.
   ArithR (exact reals).  After a completed iteration t -> t+1 whose preconditions (i)-(iii) hold -- (i) every observed edge has rate
   > 1e-6 under (u_{t+1}, v_{t+1}, w_t), (ii) every entry of w_t is 0 or > 1e-6, (iii) (sum_i u_ik)(sum_j v_jq) > 1e-6 wherever w_kqa > 0 --
   for every layer: sum_ij M_ija(u_{t+1}, v_{t+1}, w_{t+1}) = E_a - snapped_mass_a, with 0 <= snapped_mass_a <= 1e-6 * (sum_k Du_k)(sum_q Dv_q),
   snapped_mass = the mass of the entries snapped to zero by the truncation (pre-truncation value x Du x Dv).  E_a counts oriented
   edges (both orientations in undirected mode).  Not verified: binary64 rounding (oracle: 1e-9 relative on the implementation).
   Only statements; every proof is `exact <lemma>` (proofs live in the files imported below). *)
From Coq Require Import Arith List Bool Reals Floats.
Import ListNotations.
From MT Require Import Arith J SweepModel RInst Spec WBlock MassProofs LikProofs.
Local Open Scope R_scope.

Theorem C09_balance_directed_general : forall (N K L : nat) (G : graph) (u v u1 v1 : matrix R) (w w1 : list (matrix R)),
       sweep_gen R ArithR N K L true G (u, v, w) = (u1, v1, w1) ->
       wfG N L G ->
       nonneg_m u1 ->
       nonneg_m v1 ->
       zero_rows N (gul G) u1 ->
       zero_rows N (gvl G) v1 ->
       (forall k q a : nat, (k < K)%nat -> (q < K)%nat -> (a < L)%nat -> 0 <= tget R ArithR w k q a) ->
       (forall a i j : nat,
        (a < L)%nat ->
        (i < N)%nat -> In j (gout G a i) -> epsR < rate_gen K u1 v1 (tget R ArithR w) i j a) ->
       (forall k q a : nat,
        (k < K)%nat ->
        (q < K)%nat -> (a < L)%nat -> tget R ArithR w k q a = 0 \/ epsR < tget R ArithR w k q a) ->
       (forall k q a : nat,
        (k < K)%nat ->
        (q < K)%nat -> (a < L)%nat -> 0 < tget R ArithR w k q a -> epsR < Du N u1 k * Dv N v1 q) ->
       forall a : nat,
       (a < L)%nat ->
       expected_edges N (rate_gen K u1 v1 (tget R ArithR w1)) a =
       observed_edges N (gout G) a - snapped_mass N K (gout G) u1 v1 (tget R ArithR w) a /\
       0 <= snapped_mass N K (gout G) u1 v1 (tget R ArithR w) a <=
       epsR * (sumR (Du N u1) (seq 0 K) * sumR (Dv N v1) (seq 0 K)).
Proof. exact mass_balance_sweep_wf. Qed.
Print Assumptions C09_balance_directed_general.

(* undirected: one membership matrix in both roles *)
Theorem C09_balance_undirected_general : forall (N K L : nat) (G : graph) (u v u1 v1 : matrix R) (w w1 : list (matrix R)),
       sweep_gen R ArithR N K L false G (u, v, w) = (u1, v1, w1) ->
       wfG N L G ->
       wfG_undirected N L G ->
       nonneg_m u1 ->
       zero_rows N (gul G) u1 ->
       (forall k q a : nat, (k < K)%nat -> (q < K)%nat -> (a < L)%nat -> 0 <= tget R ArithR w k q a) ->
       (forall a i j : nat,
        (a < L)%nat ->
        (i < N)%nat -> In j (gout G a i) -> epsR < rate_gen K u1 u1 (tget R ArithR w) i j a) ->
       (forall k q a : nat,
        (k < K)%nat ->
        (q < K)%nat -> (a < L)%nat -> tget R ArithR w k q a = 0 \/ epsR < tget R ArithR w k q a) ->
       (forall k q a : nat,
        (k < K)%nat ->
        (q < K)%nat -> (a < L)%nat -> 0 < tget R ArithR w k q a -> epsR < Du N u1 k * Dv N u1 q) ->
       forall a : nat,
       (a < L)%nat ->
       expected_edges N (rate_gen K u1 u1 (tget R ArithR w1)) a =
       observed_edges N (gout G) a - snapped_mass N K (gout G) u1 u1 (tget R ArithR w) a /\
       0 <= snapped_mass N K (gout G) u1 u1 (tget R ArithR w) a <=
       epsR * (sumR (Du N u1) (seq 0 K) * sumR (Dv N u1) (seq 0 K)).
Proof. exact mass_balance_sweep_undirected_wf. Qed.
Print Assumptions C09_balance_undirected_general.

Theorem C09_balance_directed_assortative : forall (N K L : nat) (G : graph) (u v u1 v1 : matrix R) (w w1 : list (list R)),
       sweep_ass R ArithR N K L true G (u, v, w) = (u1, v1, w1) ->
       NoDup (gul G) ->
       NoDup (gvl G) ->
       (forall i : nat, In i (gul G) -> (i < N)%nat) ->
       (forall j : nat, In j (gvl G) -> (j < N)%nat) ->
       (forall i k : nat, (i < N)%nat -> ~ In i (gul G) -> mget R ArithR u1 i k = 0) ->
       (forall j q : nat, (j < N)%nat -> ~ In j (gvl G) -> mget R ArithR v1 j q = 0) ->
       (forall a i j : nat,
        (a < L)%nat ->
        (i < N)%nat -> In j (gout G a i) -> epsR < rate_ass K u1 v1 (dget R ArithR w) i j a) ->
       (forall k a : nat,
        (k < K)%nat -> (a < L)%nat -> dget R ArithR w k a = 0 \/ epsR < dget R ArithR w k a) ->
       (forall k a : nat,
        (k < K)%nat -> (a < L)%nat -> 0 < dget R ArithR w k a -> epsR < Du N u1 k * Dv N v1 k) ->
       forall a : nat,
       (a < L)%nat ->
       expected_edges N (rate_ass K u1 v1 (dget R ArithR w1)) a =
       observed_edges N (gout G) a - snapped_mass_a N K (gout G) u1 v1 (dget R ArithR w) a.
Proof. exact mass_balance_sweep_ass. Qed.
Print Assumptions C09_balance_directed_assortative.

Theorem C09_balance_undirected_assortative : forall (N K L : nat) (G : graph) (u v u1 v1 : matrix R) (w w1 : list (list R)),
       sweep_ass R ArithR N K L false G (u, v, w) = (u1, v1, w1) ->
       NoDup (gul G) ->
       NoDup (gvl G) ->
       (forall i : nat, In i (gul G) -> (i < N)%nat) ->
       (forall j : nat, In j (gvl G) -> (j < N)%nat) ->
       (forall i k : nat, (i < N)%nat -> ~ In i (gul G) -> mget R ArithR u1 i k = 0) ->
       (forall j q : nat, (j < N)%nat -> ~ In j (gvl G) -> mget R ArithR u1 j q = 0) ->
       (forall a i j : nat,
        (a < L)%nat ->
        (i < N)%nat -> In j (gout G a i) -> epsR < rate_ass K u1 u1 (dget R ArithR w) i j a) ->
       (forall k a : nat,
        (k < K)%nat -> (a < L)%nat -> dget R ArithR w k a = 0 \/ epsR < dget R ArithR w k a) ->
       (forall k a : nat,
        (k < K)%nat -> (a < L)%nat -> 0 < dget R ArithR w k a -> epsR < Du N u1 k * Dv N u1 k) ->
       v1 = v /\
       (forall a : nat,
        (a < L)%nat ->
        expected_edges N (rate_ass K u1 u1 (dget R ArithR w1)) a =
        observed_edges N (gout G) a - snapped_mass_a N K (gout G) u1 u1 (dget R ArithR w) a).
Proof. exact mass_balance_sweep_ass_undirected. Qed.
Print Assumptions C09_balance_undirected_assortative.

(* when nothing is snapped the balance is exact *)
Theorem C09_exact_without_snapping : forall (N K L : nat) (adj : nat -> nat -> list nat) (ul vl : list nat) 
         (u v : matrix R) (w : nat -> nat -> nat -> R),
       NoDup ul ->
       NoDup vl ->
       (forall i : nat, In i ul -> (i < N)%nat) ->
       (forall j : nat, In j vl -> (j < N)%nat) ->
       (forall i k : nat, (i < N)%nat -> ~ In i ul -> mget R ArithR u i k = 0) ->
       (forall j q : nat, (j < N)%nat -> ~ In j vl -> mget R ArithR v j q = 0) ->
       (forall a i j : nat, (a < L)%nat -> (i < N)%nat -> In j (adj a i) -> epsR < Mw K u v w i j a) ->
       (forall k q a : nat, (k < K)%nat -> (q < K)%nat -> (a < L)%nat -> w k q a = 0 \/ epsR < w k q a) ->
       (forall k q a : nat,
        (k < K)%nat -> (q < K)%nat -> (a < L)%nat -> 0 < w k q a -> epsR < Du N u k * Dv N v q) ->
       forall a : nat,
       (a < L)%nat ->
       (forall k q : nat, (k < K)%nat -> (q < K)%nat -> snapped N K adj u v w k q a = false) ->
       expected_edges N (rate_gen K u v (w'acc N K adj ul vl u v w)) a = observed_edges N adj a.
Proof. exact mass_balance_no_snap. Qed.
Print Assumptions C09_exact_without_snapping.

(* the observed number of (oriented) edges of a layer is the sum of the multiplicities *)
Theorem C09_observed_is_edge_count : forall (N L : nat) (out : nat -> nat -> list nat) (a : nat),
       (forall a0 i j : nat, (a0 < L)%nat -> (i < N)%nat -> In j (out a0 i) -> (j < N)%nat) ->
       (a < L)%nat ->
       observed_edges N out a =
       sumR (fun i : nat => sumR (fun j : nat => Amul out a i j) (seq 0 N)) (seq 0 N).
Proof. exact observed_edges_count. Qed.
Print Assumptions C09_observed_is_edge_count.

