(* CliProofs.v -- proofs about the command line front end model (CliModel.v):
     P1  render_nat / read_digits round trip
     P2  read_uint on a rendered number
     P3  parse_adjacency on the documented grammar (C13, first half)
     P4  read_affinity: acceptance, positions, length, rejection (C14)
     P5  option scanning *)
From Coq Require Import List NArith ZArith Bool Arith Lia Permutation.
Require Import ZifyN ZifyNat ZifyBool.
Import ListNotations.
From MT Require Import Arith SweepModel Layout CliModel.
Ltac Zify.zify_post_hook ::= Z.div_mod_to_equations.

(* ================================================================== *)
(* P1                                                                  *)
(* ================================================================== *)
Section P1.
Local Open Scope N_scope.

Definition digit_list (l : list byte) : Prop := Forall (fun c => is_digit c = true) l.

(* `rest` is empty or starts with a non-digit *)
Definition stops (rest : list byte) : Prop :=
  match rest with [] => True | c :: _ => is_digit c = false end.

Lemma read_digits_stop a rest : stops rest -> read_digits a rest = (a, rest).
Proof. destruct rest as [|c r]; cbn [stops read_digits]; intros H; [reflexivity| now rewrite H]. Qed.

Lemma digits_fuel_spec : forall fuel n acc,
  (N.to_nat (N.log2 n) < fuel)%nat ->
  exists ds, digits_fuel fuel n acc = ds ++ acc /\ ds <> [] /\ digit_list ds /\
    forall a rest, read_digits a (ds ++ rest) = read_digits (a * 10 ^ N.of_nat (length ds) + n) rest.
Proof.
  induction fuel as [|f IH]; intros n acc Hf; [lia|].
  cbn [digits_fuel]. destruct (n / 10 =? 0) eqn:E.
  - exists [48 + n mod 10]. split; [reflexivity|]. split; [discriminate|]. split.
    + constructor; [|constructor]. unfold is_digit. lia.
    + intros a rest. cbn [app length read_digits].
      assert (D : is_digit (48 + n mod 10) = true) by (unfold is_digit; lia).
      rewrite D. f_equal. change (N.of_nat 1) with 1. rewrite N.pow_1_r. lia.
  - assert (Hn : 0 < n) by lia.
    destruct (N.log2_spec n Hn) as [Hlo Hhi]. rewrite N.pow_succ_r' in Hhi.
    assert (Hq : 0 < n / 10) by lia.
    assert (Hlt : N.log2 (n / 10) < N.log2 n).
    { apply (N.log2_lt_pow2 (n / 10) (N.log2 n) Hq). lia. }
    destruct (IH (n / 10) ((48 + n mod 10) :: acc)) as (ds & E1 & _ & D1 & R1); [lia|].
    exists (ds ++ [48 + n mod 10]). split; [|split; [|split]].
    + rewrite E1, <- app_assoc. reflexivity.
    + destruct ds; discriminate.
    + apply Forall_app. split; [exact D1|]. constructor; [|constructor]. unfold is_digit. lia.
    + intros a rest. rewrite <- app_assoc, R1. cbn [app read_digits].
      assert (D : is_digit (48 + n mod 10) = true) by (unfold is_digit; lia).
      rewrite D. f_equal. rewrite app_length. cbn [length].
      replace (N.of_nat (length ds + 1)) with (N.succ (N.of_nat (length ds))) by lia.
      rewrite N.pow_succ_r'.
      set (P := 10 ^ N.of_nat (length ds)). lia.
Qed.

Lemma render_nat_spec n :
  render_nat n <> [] /\ digit_list (render_nat n) /\
  forall a rest, read_digits a (render_nat n ++ rest)
                 = read_digits (a * 10 ^ N.of_nat (length (render_nat n)) + n) rest.
Proof.
  unfold render_nat.
  destruct (digits_fuel_spec (S (N.to_nat (N.log2 n))) n []) as (ds & E & NE & D & R); [lia|].
  rewrite app_nil_r in E. rewrite E. auto.
Qed.

(* the fuel S (log2 n) suffices: the rendering is a non-empty list of digits *)
Theorem render_nat_digits n : render_nat n <> [] /\ Forall (fun c => is_digit c = true) (render_nat n).
Proof. destruct (render_nat_spec n) as (A & B & _). split; assumption. Qed.

Theorem read_digits_render_gen acc n rest :
  stops rest ->
  read_digits acc (render_nat n ++ rest) = (acc * 10 ^ N.of_nat (length (render_nat n)) + n, rest).
Proof.
  intros S. destruct (render_nat_spec n) as (_ & _ & R). rewrite R. now apply read_digits_stop.
Qed.

Theorem read_digits_render n rest :
  stops rest -> read_digits 0 (render_nat n ++ rest) = (n, rest).
Proof. intros S. rewrite read_digits_render_gen by exact S. f_equal. Qed.

Lemma read_digits_zeros z l : read_digits 0 (repeat 48 z ++ l) = read_digits 0 l.
Proof. induction z as [|z IH]; [reflexivity|]. cbn [repeat app read_digits]. exact IH. Qed.

Theorem read_digits_leading_zeros z n rest :
  stops rest -> read_digits 0 (repeat 48 z ++ render_nat n ++ rest) = (n, rest).
Proof. intros S. rewrite read_digits_zeros. now apply read_digits_render. Qed.

End P1.

(* ================================================================== *)
(* P2                                                                  *)
(* ================================================================== *)
Section P2.
Local Open Scope N_scope.

Definition space_list (l : list byte) : Prop := Forall (fun c => is_space c = true) l.

Lemma digit_not_space c : is_digit c = true -> is_space c = false.
Proof. unfold is_digit, is_space. lia. Qed.

Lemma skip_ws_spaces ws l : space_list ws -> skip_ws (ws ++ l) = skip_ws l.
Proof. induction 1 as [|c ws Hc _ IH]; [reflexivity|]. cbn [app skip_ws]. now rewrite Hc. Qed.

Lemma read_uint_spaces_only l : space_list l -> read_uint l = None.
Proof.
  intros H. unfold read_uint. rewrite <- (app_nil_r l), (skip_ws_spaces l [] H). reflexivity.
Qed.

Theorem read_uint_render n ws rest :
  n < 2 ^ 64 -> space_list ws -> stops rest ->
  read_uint (ws ++ render_nat n ++ rest) = Some (n, rest).
Proof.
  intros Hn Hws Hst. unfold read_uint. rewrite skip_ws_spaces by exact Hws.
  pose proof (read_digits_render n rest Hst) as RD.
  destruct (render_nat_digits n) as [NE D].
  remember (render_nat n) as ds eqn:Eds. destruct ds as [|c r]; [contradiction|].
  inversion D as [|? ? Dc Dr]; subst.
  cbn [app skip_ws]. rewrite (digit_not_space c Dc), Dc.
  change (c :: r ++ rest) with ((c :: r) ++ rest). rewrite RD.
  apply N.ltb_lt in Hn. now rewrite Hn.
Qed.

End P2.

(* ================================================================== *)
(* P3  the documented grammar of the adjacency file                    *)
(* ================================================================== *)
Section P3.
Local Open Scope N_scope.

Definition blank (c : byte) : bool := (c =? 32) || (c =? 9).          (* space or tab *)
Definition blank_list (l : list byte) : Prop := Forall (fun c => blank c = true) l.

Record line_fmt := { indent : list byte; seps : list (list byte); trail : list byte; cr : bool }.
Definition sep_ok (s : list byte) : Prop := s <> [] /\ blank_list s.
Definition fmt_ok (f : line_fmt) (nfields : nat) : Prop :=
  blank_list (indent f) /\ length (seps f) = (nfields - 1)%nat /\
  Forall sep_ok (seps f) /\ blank_list (trail f).

Definition cr_bytes (b : bool) : list byte := if b then [13] else [].

(* every further field is preceded by its separator *)
Fixpoint join_rest (ns : list N) (ss : list (list byte)) : list byte :=
  match ns, ss with
  | n :: ns', s :: ss' => s ++ render_nat n ++ join_rest ns' ss'
  | _, _ => []
  end.

Definition render_record (a b : N) (ws : list N) (f : line_fmt) : list byte :=
  indent f ++ render_nat a ++ join_rest (b :: ws) (seps f) ++ trail f ++ cr_bytes (cr f).

Inductive item :=
| Rec (a b : N) (ws : list N) (f : line_fmt)
| Blank (bl : list byte) (c : bool).      (* empty or blank-only line, optional CR *)

Definition render_item (it : item) : list byte :=
  match it with
  | Rec a b ws f => render_record a b ws f
  | Blank bl c => bl ++ cr_bytes c
  end.

Fixpoint join_lines (ls : list (list byte)) : list byte :=
  match ls with
  | [] => []
  | l :: ls' => match ls' with [] => l | _ :: _ => l ++ [10] ++ join_lines ls' end
  end.

Definition render_file (items : list item) (final_newline : bool) : list byte :=
  join_lines (map render_item items) ++ (if final_newline then [10] else []).

Definition item_ok (it : item) : Prop :=
  match it with
  | Rec a b ws f => a < 2 ^ 64 /\ b < 2 ^ 64 /\ Forall (fun x => x < 2 ^ 64) ws /\
                    fmt_ok f (2 + length ws)
  | Blank bl _ => blank_list bl
  end.

Definition item_src (it : item) : list N := match it with Rec a _ _ _ => [a] | Blank _ _ => [] end.
Definition item_tgt (it : item) : list N := match it with Rec _ b _ _ => [b] | Blank _ _ => [] end.
Definition item_wts (it : item) : list N := match it with Rec _ _ ws _ => ws | Blank _ _ => [] end.

(* ---- character classes ---- *)
Lemma blank_space c : blank c = true -> is_space c = true.
Proof. unfold blank, is_space. lia. Qed.
Lemma blank_list_space l : blank_list l -> space_list l.
Proof. apply Forall_impl. exact blank_space. Qed.
Lemma space_not_digit c : is_space c = true -> is_digit c = false.
Proof. unfold is_digit, is_space. lia. Qed.
Lemma space_stops l : space_list l -> stops l.
Proof. destruct 1; cbn [stops]; [exact I| now apply space_not_digit]. Qed.
Lemma cr_space c : space_list (cr_bytes c).
Proof. destruct c; repeat constructor. Qed.

Definition nolf (l : list byte) : Prop := Forall (fun c => (c =? LF) = false) l.
Lemma blank_nolf l : blank_list l -> nolf l.
Proof. apply Forall_impl. intros c. unfold blank, LF. lia. Qed.
Lemma digit_nolf l : digit_list l -> nolf l.
Proof. apply Forall_impl. intros c. unfold is_digit, LF. lia. Qed.
Lemma cr_nolf c : nolf (cr_bytes c).
Proof. destruct c; repeat constructor. Qed.
Lemma nolf_app l1 l2 : nolf l1 -> nolf l2 -> nolf (l1 ++ l2).
Proof. intros. apply Forall_app. now split. Qed.

(* ---- getline ---- *)
Lemma split_lines_app : forall l cur r, nolf l ->
  split_lines cur (l ++ 10 :: r) = (rev cur ++ l) :: split_lines [] r.
Proof.
  induction l as [|c l IH]; intros cur r H.
  - cbn [app split_lines]. change (10 =? LF) with true. cbv iota. now rewrite app_nil_r.
  - inversion H as [|? ? Hc Hl]; subst. cbn [app split_lines]. rewrite Hc, IH by exact Hl.
    cbn [rev]. now rewrite <- app_assoc.
Qed.

Lemma split_lines_nolf : forall l cur, nolf l -> split_lines cur l = [rev cur ++ l].
Proof.
  induction l as [|c l IH]; intros cur H.
  - cbn [split_lines]. now rewrite app_nil_r.
  - inversion H as [|? ? Hc Hl]; subst. cbn [split_lines]. rewrite Hc, IH by exact Hl.
    cbn [rev]. now rewrite <- app_assoc.
Qed.

(* the user-facing form quoted in the task *)
Lemma split_lines_cons l1 l2 : nolf l1 ->
  split_lines [] (l1 ++ [10] ++ l2) = l1 :: split_lines [] l2.
Proof. intros H. cbn [app]. now rewrite split_lines_app. Qed.

Lemma split_join_lines : forall ls (fnl : bool), Forall nolf ls -> ls <> [] ->
  split_lines [] (join_lines ls ++ (if fnl then [10] else [])) = ls ++ (if fnl then [[]] else []).
Proof.
  induction ls as [|l ls IH]; intros fnl H NE; [contradiction|].
  inversion H as [|? ? Hl Hls]; subst.
  destruct ls as [|l2 ls].
  - cbn [join_lines]. destruct fnl.
    + rewrite split_lines_app by exact Hl. reflexivity.
    + rewrite app_nil_r, split_lines_nolf by exact Hl. reflexivity.
  - change (join_lines (l :: l2 :: ls)) with (l ++ [10] ++ join_lines (l2 :: ls)).
    rewrite <- !app_assoc. cbn [app]. rewrite split_lines_app by exact Hl.
    cbn [rev app]. f_equal. apply IH; [exact Hls| discriminate].
Qed.

(* ---- line.erase(line.find_last_not_of(" ") + 1) ---- *)
Lemma strip_cons_ne c t : (c =? SP) = false -> strip_trailing_sp (c :: t) = c :: strip_trailing_sp t.
Proof. intros H. cbn [strip_trailing_sp]. rewrite H. now destruct (strip_trailing_sp t). Qed.

Lemma strip_app_ne : forall l c t, (c =? SP) = false ->
  strip_trailing_sp (l ++ c :: t) = l ++ c :: strip_trailing_sp t.
Proof.
  induction l as [|x l IH]; intros c t H.
  - now apply strip_cons_ne.
  - cbn [app strip_trailing_sp]. rewrite IH by exact H. now destruct l.
Qed.

Lemma strip_render pre n t :
  strip_trailing_sp (pre ++ render_nat n ++ t) = pre ++ render_nat n ++ strip_trailing_sp t.
Proof.
  destruct (render_nat_digits n) as [NE D].
  destruct (exists_last NE) as (l' & c & E). rewrite E in *.
  apply Forall_app in D. destruct D as [_ Dc]. inversion Dc as [|? ? Hc _]; subst.
  assert (Hsp : (c =? SP) = false) by (revert Hc; unfold is_digit, SP; lia).
  rewrite <- !app_assoc. cbn [app]. rewrite (app_assoc pre l'), strip_app_ne by exact Hsp.
  now rewrite <- app_assoc.
Qed.

Lemma strip_join : forall ns ss pre n t,
  strip_trailing_sp (pre ++ render_nat n ++ join_rest ns ss ++ t)
  = pre ++ render_nat n ++ join_rest ns ss ++ strip_trailing_sp t.
Proof.
  induction ns as [|m ns IH]; intros ss pre n t.
  - cbn [join_rest app]. apply strip_render.
  - destruct ss as [|s ss]; [cbn [join_rest app]; apply strip_render|].
    cbn [join_rest].
    transitivity (strip_trailing_sp ((pre ++ render_nat n ++ s) ++ render_nat m ++ join_rest ns ss ++ t)).
    { f_equal. now rewrite <- !app_assoc. }
    rewrite IH. now rewrite <- !app_assoc.
Qed.

Lemma strip_spaces : forall t, space_list t -> space_list (strip_trailing_sp t).
Proof.
  induction 1 as [|c t Hc Ht IH]; [constructor|].
  cbn [strip_trailing_sp]. destruct (strip_trailing_sp t) as [|y r'].
  - destruct (c =? SP); repeat constructor; exact Hc.
  - constructor; assumption.
Qed.

(* ---- reading one record ---- *)
Lemma stops_join ws ss tl : Forall sep_ok ss -> space_list tl -> stops (join_rest ws ss ++ tl).
Proof.
  intros Hss Htl. destruct ws as [|n ws]; [now apply space_stops|].
  destruct ss as [|s ss]; [now apply space_stops|].
  inversion Hss as [|? ? [NE Hb] _]; subst. cbn [join_rest].
  destruct s as [|c s]; [contradiction|]. inversion Hb; subst. cbn [app stops].
  apply space_not_digit. now apply blank_space.
Qed.

Lemma read_all_join : forall ws ss tl fuel,
  Forall (fun x => x < 2 ^ 64) ws -> length ss = length ws -> Forall sep_ok ss -> space_list tl ->
  (length ws <= fuel)%nat ->
  read_all fuel (join_rest ws ss ++ tl) = ws.
Proof.
  induction ws as [|n ws IH]; intros ss tl fuel Hws Hlen Hss Htl Hf.
  - cbn [join_rest app]. destruct fuel; [reflexivity|]. cbn [read_all].
    now rewrite read_uint_spaces_only.
  - destruct ss as [|s ss]; [discriminate|]. destruct fuel as [|fuel]; [cbn [length] in Hf; lia|].
    inversion Hws as [|? ? Hn Hws']; subst. inversion Hss as [|? ? [NE Hb] Hss']; subst.
    cbn [join_rest read_all]. rewrite <- !app_assoc.
    rewrite read_uint_render; [| exact Hn | now apply blank_list_space | now apply stops_join].
    f_equal. apply IH; auto. cbn [length] in Hf. lia.
Qed.

Lemma join_rest_length : forall ws ss, length ss = length ws ->
  (length ws <= length (join_rest ws ss))%nat.
Proof.
  induction ws as [|n ws IH]; intros ss H; [cbn; lia|].
  destruct ss as [|s ss]; [discriminate|]. cbn [join_rest length]. rewrite !app_length.
  injection H as H. specialize (IH ss H).
  destruct (render_nat_digits n) as [NE _]. destruct (render_nat n); [contradiction|]. cbn [length]. lia.
Qed.

Lemma parse_line_record a b ws ind s ss tl :
  a < 2 ^ 64 -> b < 2 ^ 64 -> Forall (fun x => x < 2 ^ 64) ws ->
  space_list ind -> Forall sep_ok (s :: ss) -> length ss = length ws -> space_list tl ->
  parse_line (ind ++ render_nat a ++ join_rest (b :: ws) (s :: ss) ++ tl) = Some (a, b, ws).
Proof.
  intros Ha Hb Hws Hind Hss Hlen Htl. inversion Hss as [|? ? [NE Hbl] Hss']; subst.
  unfold parse_line.
  rewrite read_uint_render; [| exact Ha | exact Hind | now apply stops_join].
  cbn [join_rest]. rewrite <- !app_assoc.
  rewrite read_uint_render; [| exact Hb | now apply blank_list_space | now apply stops_join].
  f_equal. f_equal. apply read_all_join; auto.
  rewrite app_length. pose proof (join_rest_length ws ss Hlen). lia.
Qed.

(* ---- one step of the loop over lines ---- *)
Definition adj_step (acc : list N * list N * list N) (line : list byte) : list N * list N * list N :=
  match line with
  | [] => acc
  | _ => match parse_line (strip_trailing_sp line) with
         | Some (a, b, ws) => let '(s, e, w) := acc in (s ++ [a], e ++ [b], w ++ ws)
         | None => acc
         end
  end.

Lemma parse_adjacency_fold bytes :
  parse_adjacency bytes = fold_left adj_step (split_lines [] bytes) ([], [], []).
Proof. reflexivity. Qed.

Lemma adj_step_record a b ws f s e w :
  item_ok (Rec a b ws f) ->
  adj_step (s, e, w) (render_record a b ws f) = (s ++ [a], e ++ [b], w ++ ws).
Proof.
  intros (Ha & Hb & Hws & Hind & Hlen & Hss & Htr).
  assert (P : parse_line (strip_trailing_sp (render_record a b ws f)) = Some (a, b, ws)).
  { unfold render_record. rewrite strip_join.
    destruct (seps f) as [|s0 ss] eqn:Es; [cbn [length] in Hlen; lia|].
    apply parse_line_record; auto.
    - now apply blank_list_space.
    - apply strip_spaces. apply Forall_app. split; [now apply blank_list_space| apply cr_space]. }
  unfold adj_step. rewrite P.
  destruct (render_record a b ws f) eqn:E; [|reflexivity].
  unfold render_record in E. destruct (render_nat_digits a) as [NE _].
  apply app_eq_nil in E. destruct E as [_ E]. apply app_eq_nil in E. destruct E as [E _]. contradiction.
Qed.

Lemma adj_step_blank acc bl c : blank_list bl -> adj_step acc (bl ++ cr_bytes c) = acc.
Proof.
  intros H. unfold adj_step. destruct (bl ++ cr_bytes c) eqn:E; [reflexivity|]. rewrite <- E.
  unfold parse_line. rewrite read_uint_spaces_only; [reflexivity|].
  apply strip_spaces. apply Forall_app. split; [now apply blank_list_space| apply cr_space].
Qed.

Lemma adj_step_item it s e w : item_ok it ->
  adj_step (s, e, w) (render_item it) = (s ++ item_src it, e ++ item_tgt it, w ++ item_wts it).
Proof.
  destruct it as [a b ws f|bl c]; intros H; cbn [render_item item_src item_tgt item_wts].
  - now apply adj_step_record.
  - rewrite adj_step_blank by exact H. now rewrite !app_nil_r.
Qed.

Lemma fold_items : forall items s e w, Forall item_ok items ->
  fold_left adj_step (map render_item items) (s, e, w)
  = (s ++ flat_map item_src items, e ++ flat_map item_tgt items, w ++ flat_map item_wts items).
Proof.
  induction items as [|it items IH]; intros s e w H.
  - cbn. now rewrite !app_nil_r.
  - inversion H; subst. cbn [map fold_left flat_map]. rewrite adj_step_item by assumption.
    rewrite IH by assumption. now rewrite <- !app_assoc.
Qed.

(* ---- rendered lines contain no line feed ---- *)
Lemma join_rest_nolf : forall ws ss, Forall sep_ok ss -> nolf (join_rest ws ss).
Proof.
  induction ws as [|n ws IH]; intros ss H; [constructor|].
  destruct ss as [|s ss]; [constructor|]. inversion H as [|? ? [_ Hb] Hss]; subst.
  cbn [join_rest]. apply nolf_app; [now apply blank_nolf|].
  apply nolf_app; [apply digit_nolf, render_nat_digits| now apply IH].
Qed.

Lemma render_item_nolf it : item_ok it -> nolf (render_item it).
Proof.
  destruct it as [a b ws f|bl c]; cbn [render_item item_ok].
  - intros (_ & _ & _ & Hind & _ & Hss & Htr). unfold render_record.
    apply nolf_app; [now apply blank_nolf|].
    apply nolf_app; [apply digit_nolf, render_nat_digits|].
    apply nolf_app; [now apply join_rest_nolf|].
    apply nolf_app; [now apply blank_nolf| apply cr_nolf].
  - intros H. apply nolf_app; [now apply blank_nolf| apply cr_nolf].
Qed.

Lemma split_render_file items fnl : Forall item_ok items ->
  exists extras, split_lines [] (render_file items fnl) = map render_item items ++ extras /\
                 Forall (fun l => l = []) extras.
Proof.
  intros H. unfold render_file. destruct items as [|it items].
  - cbn [map join_lines app]. destruct fnl.
    + exists [[]; []]. split; [reflexivity| repeat constructor].
    + exists [[]]. split; [reflexivity| repeat constructor].
  - exists (if fnl then [[]] else []). split.
    + apply split_join_lines; [|discriminate].
      apply Forall_map. revert H. apply Forall_impl. exact render_item_nolf.
    + destruct fnl; repeat constructor.
Qed.

Lemma fold_extras : forall extras acc, Forall (fun l => l = []) extras ->
  fold_left adj_step extras acc = acc.
Proof. induction 1 as [|l extras Hl _ IH]; [reflexivity|]. subst l. exact IH. Qed.

(* C13, first half: the reader recovers exactly the records of a file written in the documented grammar *)
Theorem parse_render items final_newline :
  Forall item_ok items ->
  parse_adjacency (render_file items final_newline)
  = (flat_map item_src items, flat_map item_tgt items, flat_map item_wts items).
Proof.
  intros H. rewrite parse_adjacency_fold.
  destruct (split_render_file items final_newline H) as (extras & E & Hex). rewrite E.
  rewrite fold_left_app, fold_items by exact H. cbn [app]. now apply fold_extras.
Qed.

End P3.

(* ================================================================== *)
(* P4  reader of the initial-affinity file (token level)               *)
(* ================================================================== *)

(* ---- lset_n ---- *)
Lemma lset_n_length {T} : forall (l : list T) k x, length (lset_n l k x) = length l.
Proof. induction l as [|y l IH]; intros [|k] x; cbn [lset_n length]; auto. Qed.

Lemma lset_n_same {T} : forall (l : list T) k x d, k < length l -> nth k (lset_n l k x) d = x.
Proof.
  induction l as [|y l IH]; intros [|k] x d H; cbn [length] in H; try lia; cbn [lset_n nth]; auto.
  apply IH. lia.
Qed.

Lemma lset_n_other {T} : forall (l : list T) k j x d, j <> k -> nth j (lset_n l k x) d = nth j l d.
Proof.
  induction l as [|y l IH]; intros [|k] [|j] x d H; cbn [lset_n nth]; auto; try lia.
Qed.

(* ---- one data line: d_k goes to position g k ---- *)
Section WriteRow.
  Context {T : Type}.
  Variable g : nat -> nat.

  Definition write_row (ds : list T) (w : list T) (k0 : nat) : list T :=
    fst (fold_left (fun (p : list T * nat) x => (lset_n (fst p) (g (snd p)) x, S (snd p))) ds (w, k0)).

  Lemma write_row_cons x ds w k0 : write_row (x :: ds) w k0 = write_row ds (lset_n w (g k0) x) (S k0).
  Proof. reflexivity. Qed.

  Lemma write_row_length : forall ds w k0, length (write_row ds w k0) = length w.
  Proof.
    induction ds as [|x ds IH]; intros w k0; [reflexivity|].
    rewrite write_row_cons, IH. apply lset_n_length.
  Qed.

  Lemma write_row_other : forall ds w k0 p d,
    (forall i, i < length ds -> p <> g (k0 + i)) -> nth p (write_row ds w k0) d = nth p w d.
  Proof.
    induction ds as [|x ds IH]; intros w k0 p d H; [reflexivity|].
    rewrite write_row_cons, IH.
    - apply lset_n_other. specialize (H 0). rewrite Nat.add_0_r in H. apply H. cbn [length]. lia.
    - intros i Hi. replace (S k0 + i) with (k0 + S i) by lia. apply H. cbn [length]. lia.
  Qed.

  Lemma write_row_hit : forall ds w k0 i d,
    (forall i j, i < length ds -> j < length ds -> g (k0 + i) = g (k0 + j) -> i = j) ->
    (forall i, i < length ds -> g (k0 + i) < length w) ->
    i < length ds -> nth (g (k0 + i)) (write_row ds w k0) d = nth i ds d.
  Proof.
    induction ds as [|x ds IH]; intros w k0 i d Hinj Hlt Hi; [cbn [length] in Hi; lia|].
    rewrite write_row_cons. destruct i as [|i].
    - rewrite Nat.add_0_r. rewrite write_row_other.
      + cbn [nth]. apply lset_n_same. specialize (Hlt 0). rewrite Nat.add_0_r in Hlt.
        apply Hlt. cbn [length]. lia.
      + intros j Hj E. replace (S k0 + j) with (k0 + S j) in E by lia.
        rewrite <- (Nat.add_0_r k0) in E at 1. apply Hinj in E; cbn [length]; lia.
    - cbn [nth]. replace (k0 + S i) with (S k0 + i) by lia. apply IH.
      + intros a b Ha Hb E. replace (S k0 + a) with (k0 + S a) in E by lia.
        replace (S k0 + b) with (k0 + S b) in E by lia. apply Hinj in E; cbn [length]; lia.
      + intros j Hj. rewrite lset_n_length. replace (S k0 + j) with (k0 + S j) by lia.
        apply Hlt. cbn [length]. lia.
      + cbn [length] in Hi. lia.
  Qed.
End WriteRow.

(* ---- flat positions ---- *)
Definition pos (assort : bool) (K L k a : nat) : nat :=
  if assort then idx_ass K L k a else idx_gen K L k k a.
Definition aff_size (assort : bool) (K L : nat) : nat := if assort then K * L else K * K * L.

Lemma pos_lt assort K L k a : k < K -> a < L -> pos assort K L k a < aff_size assort K L.
Proof.
  intros Hk Ha. unfold pos, aff_size, idx_ass, idx_gen, idx. destruct assort.
  - assert (a * K + K <= K * L) by nia. lia.
  - assert (k * K + k < K * K) by nia. assert (a * K * K + K * K <= K * K * L) by nia. lia.
Qed.

Lemma pos_inj assort K L k k' a a' :
  k < K -> k' < K -> pos assort K L k a = pos assort K L k' a' -> k = k' /\ a = a'.
Proof.
  intros Hk Hk'. unfold pos, idx_ass, idx_gen, idx. destruct assort; intros E.
  - destruct (lt_eq_lt_dec a a') as [[H|H]|H]; [exfalso; nia| subst; lia| exfalso; nia].
  - assert (k * K + k < K * K) by nia. assert (k' * K + k' < K * K) by nia.
    destruct (lt_eq_lt_dec a a') as [[H1|H1]|H1].
    + exfalso. assert (a * K * K + K * K <= a' * K * K) by nia. lia.
    + subst. split; [nia|reflexivity].
    + exfalso. assert (a' * K * K + K * K <= a * K * K) by nia. lia.
Qed.

Lemma NoDup_lt_all l L : NoDup l -> Forall (fun a => a < L) l -> length l = L ->
  forall a, a < L -> In a l.
Proof.
  intros ND Hlt Hlen a Ha.
  assert (I : incl (seq 0 L) l).
  { apply NoDup_length_incl; [exact ND| rewrite seq_length; lia|].
    intros x Hx. apply in_seq. rewrite Forall_forall in Hlt. specialize (Hlt x Hx). lia. }
  apply I. apply in_seq. lia.
Qed.

Lemma Forall2_In_l {X Y} (R : X -> Y -> Prop) l l' x :
  Forall2 R l l' -> In x l -> exists y, In y l' /\ R x y.
Proof.
  induction 1 as [|a b l l' Hab _ IH]; intros HI; [contradiction|].
  destruct HI as [->|HI]; [exists b; split; [now left|assumption]|].
  destruct (IH HI) as (y & Hy & Ry). exists y. split; [now right|assumption].
Qed.

Lemma Forall2_len {X Y} (R : X -> Y -> Prop) l l' : Forall2 R l l' -> length l = length l'.
Proof. induction 1; cbn [length]; congruence. Qed.

Section P4.
  Variable num : Type.
  Variable tokn : Type.
  Variable is_hash : tokn -> bool.
  Variable pnum : tokn -> option num.
  Variable puint : tokn -> option nat.

  Local Notation take_nums := (CliModel.take_nums num tokn pnum).
  Local Notation data_lines := (CliModel.data_lines tokn is_hash).
  Local Notation write_layers := (CliModel.write_layers num tokn pnum puint).
  Local Notation read_affinity := (CliModel.read_affinity num tokn is_hash pnum puint).
  Local Notation AffOk := (CliModel.AffOk num).
  Local Notation AffError := (CliModel.AffError num).

  Definition counts (dl : list (list tokn)) : list nat := map (fun l => length (take_nums (tl l))) dl.

  (* ---- unfolding lemmas ---- *)
  Lemma write_layers_cons assort K L seen t vals r w :
    write_layers assort K L seen ((t :: vals) :: r) w =
    match puint t with
    | None => AffError
    | Some layer =>
        if (layer <? L) && negb (existsb (Nat.eqb layer) seen)
        then write_layers assort K L (layer :: seen) r
               (write_row (fun k => pos assort K L k layer) (take_nums vals) w 0)
        else AffError
    end.
  Proof. reflexivity. Qed.

  Lemma read_affinity_unfold assort lines w eK :
    read_affinity assort lines w eK =
    let dl := data_lines lines in
    let K := hd 0 (counts dl) in
    let L := length dl in
    if negb (forallb (Nat.eqb K) (counts dl)) then AffError
    else if (K =? 0) || negb (aff_size assort K L =? length w)
            || (negb (eK =? 0) && negb (eK =? K)) then AffError
    else write_layers assort K L [] dl w.
  Proof. unfold CliModel.read_affinity, aff_size, counts. destruct assort; reflexivity. Qed.

  Lemma existsb_eqb a seen : existsb (Nat.eqb a) seen = true <-> In a seen.
  Proof.
    rewrite existsb_exists. split.
    - intros (x & Hx & E). apply Nat.eqb_eq in E. now subst.
    - intros H. exists a. split; [assumption| apply Nat.eqb_refl].
  Qed.

  (* ---- safety: the writes never extend the vector ---- *)
  Lemma write_layers_length assort K L : forall ls seen w w',
    write_layers assort K L seen ls w = AffOk w' -> length w' = length w.
  Proof.
    induction ls as [|l ls IH]; intros seen w w' H.
    - cbn in H. now injection H as <-.
    - destruct l as [|t vals]; [exact (IH _ _ _ H)|].
      rewrite write_layers_cons in H. destruct (puint t) as [a|]; [|discriminate].
      destruct ((a <? L) && negb (existsb (Nat.eqb a) seen)); [|discriminate].
      apply IH in H. now rewrite write_row_length in H.
  Qed.

  Theorem read_affinity_length assort lines w eK w' :
    read_affinity assort lines w eK = AffOk w' -> length w' = length w.
  Proof.
    rewrite read_affinity_unfold. cbv zeta.
    destruct (negb (forallb _ _)); [discriminate|].
    destruct (_ || _); [discriminate|]. apply write_layers_length.
  Qed.

  (* ---- the well-formed file ---- *)
  (* a data line `t :: vs` carries the layer id `puint t` and the values `take_nums vs` *)
  Definition line_of (l : list tokn) (p : nat * list num) : Prop :=
    exists t vs, l = t :: vs /\ puint t = Some (fst p) /\ take_nums vs = snd p.

  (* token lines of a file whose data lines are `file`, with blank and comment lines interleaved *)
  Inductive encodes : list (list tokn) -> list (nat * list num) -> Prop :=
  | enc_nil : encodes [] []
  | enc_blank ls f : encodes ls f -> encodes ([] :: ls) f
  | enc_comment t r ls f : is_hash t = true -> encodes ls f -> encodes ((t :: r) :: ls) f
  | enc_data t vs layer ds ls f :
      is_hash t = false -> puint t = Some layer -> take_nums vs = ds ->
      encodes ls f -> encodes ((t :: vs) :: ls) ((layer, ds) :: f).

  Lemma encodes_data_lines lines file : encodes lines file -> Forall2 line_of (data_lines lines) file.
  Proof.
    induction 1 as [|ls f _ IH|t r ls f Hh _ IH|t vs layer ds ls f Hh Hp Ht _ IH];
      unfold CliModel.data_lines in *; cbn [filter].
    - constructor.
    - exact IH.
    - rewrite Hh. exact IH.
    - rewrite Hh. cbn [negb]. constructor; [|exact IH]. exists t, vs. auto.
  Qed.

  Lemma counts_of dl file : Forall2 line_of dl file -> counts dl = map (fun p => length (snd p)) file.
  Proof.
    induction 1 as [|l p dl file (t & vs & -> & _ & E) _ IH]; [reflexivity|].
    unfold counts in *. cbn [map tl]. now rewrite E, IH.
  Qed.

  Lemma write_layers_spec assort K L (d : num) : forall dl file, Forall2 line_of dl file ->
    forall seen w,
    Forall (fun p => fst p < L /\ length (snd p) = K) file ->
    NoDup (map fst file) -> (forall a, In a (map fst file) -> ~ In a seen) ->
    length w = aff_size assort K L ->
    exists w', write_layers assort K L seen dl w = AffOk w' /\ length w' = length w /\
      (forall a ds k, In (a, ds) file -> k < K -> nth (pos assort K L k a) w' d = nth k ds d) /\
      (forall p, (forall a ds k, In (a, ds) file -> k < K -> p <> pos assort K L k a) ->
                 nth p w' d = nth p w d).
  Proof.
    induction 1 as [|l [a ds] dl file (t & vs & -> & Hp & Hv) HF IH]; intros seen w Hfile ND Hseen Hlen.
    - exists w. split; [reflexivity|]. split; [reflexivity|]. split; [intros ? ? ? []|reflexivity].
    - cbn [fst snd] in Hp, Hv. inversion Hfile as [|? ? [Ha HK] Hfile']; subst. cbn [fst snd] in Ha.
      cbn [map fst] in ND. inversion ND as [|? ? Hnotin ND']; subst.
      rewrite write_layers_cons, Hp.
      assert (E1 : (a <? L) = true) by (apply Nat.ltb_lt; exact Ha).
      assert (E2 : existsb (Nat.eqb a) seen = false).
      { destruct (existsb (Nat.eqb a) seen) eqn:E; [|reflexivity]. apply existsb_eqb in E.
        exfalso. apply (Hseen a); [now left|exact E]. }
      rewrite E1, E2. cbn [andb negb].
      set (ds := take_nums vs) in *. set (g := fun k => pos assort (length ds) L k a).
      set (w1 := write_row g ds w 0).
      assert (Hlen1 : length w1 = length w) by apply write_row_length.
      destruct (IH (a :: seen) w1 Hfile' ND') as (w' & Ew & Lw & Hhit & Hoth).
      { intros a' Ha' [->|Hs]; [contradiction| exact (Hseen a' (or_intror Ha') Hs)]. }
      { congruence. }
      exists w'. split; [exact Ew|]. split; [congruence|]. split.
      + intros a0 ds0 k [Heq|Hin] Hk.
        * injection Heq as <- <-. rewrite Hoth.
          -- apply (write_row_hit g ds w 0 k d).
             ++ intros i j Hi Hj E. cbn [Nat.add] in E. unfold g in E.
                now apply pos_inj in E.
             ++ intros i Hi. cbn [Nat.add]. rewrite Hlen. now apply pos_lt.
             ++ exact Hk.
          -- intros a' ds' k' Hin' Hk' E. apply pos_inj in E; [|assumption|assumption].
             destruct E as [_ ->]. apply Hnotin. apply in_map_iff. exists (a', ds'). auto.
        * now apply Hhit.
      + intros p Hp'. rewrite Hoth.
        * apply write_row_other. intros i Hi. cbn [Nat.add]. apply (Hp' a ds i); [now left|exact Hi].
        * intros a' ds' k' Hin' Hk'. apply (Hp' a' ds' k'); [now right|exact Hk'].
  Qed.

  Lemma forallb_const K (file : list (nat * list num)) :
    forallb (Nat.eqb K) (map (fun _ => K) file) = true.
  Proof. induction file; cbn [map forallb]; [reflexivity|]. now rewrite Nat.eqb_refl. Qed.

  (* C14 (acceptance and positions): a well-formed file is accepted, every d_k lands at the flat
     position of (k,k,layer) resp. (k,layer), nothing else changes, the length is kept.
     NOTE `file <> []` is needed: with no data line K is read as 0 and the reader rejects
     (see read_affinity_rejects_K0). *)
  Theorem read_affinity_accepts assort lines file K w expectedK (d : num) :
    encodes lines file -> file <> [] ->
    NoDup (map fst file) ->
    Forall (fun p => fst p < length file /\ length (snd p) = K) file ->
    1 <= K ->
    length w = aff_size assort K (length file) ->
    expectedK = 0 \/ expectedK = K ->
    exists w', read_affinity assort lines w expectedK = AffOk w' /\
      length w' = length w /\
      (forall layer ds k, In (layer, ds) file -> k < K ->
         nth (pos assort K (length file) k layer) w' d = nth k ds d) /\
      (forall p, (forall a k, a < length file -> k < K -> p <> pos assort K (length file) k a) ->
         nth p w' d = nth p w d).
  Proof.
    intros Henc NE ND Hfile HK Hlen HeK.
    pose proof (encodes_data_lines lines file Henc) as F2.
    rewrite read_affinity_unfold. cbv zeta.
    rewrite (counts_of _ _ F2), (Forall2_len _ _ _ F2).
    assert (EC : map (fun p : nat * list num => length (snd p)) file = map (fun _ => K) file).
    { apply map_ext_in. intros p Hp. rewrite Forall_forall in Hfile. now apply Hfile. }
    rewrite EC. destruct file as [|p0 file0] eqn:Ef; [contradiction|]. rewrite <- Ef in *.
    replace (hd 0 (map (fun _ => K) file)) with K by (rewrite Ef; reflexivity).
    rewrite forallb_const. cbn [negb].
    replace (K =? 0) with false by (symmetry; apply Nat.eqb_neq; lia).
    replace (aff_size assort K (length file) =? length w) with true
      by (symmetry; apply Nat.eqb_eq; lia).
    replace (negb (expectedK =? 0) && negb (expectedK =? K)) with false.
    2:{ destruct HeK as [->| ->]; [reflexivity|]. rewrite Nat.eqb_refl. now rewrite andb_false_r. }
    cbn [orb negb].
    destruct (write_layers_spec assort K (length file) d _ _ F2 [] w Hfile ND) as (w' & E & L' & Hh & Ho).
    { intros a _ []. } { exact Hlen. }
    exists w'. split; [exact E|]. split; [exact L'|]. split; [exact Hh|].
    intros p Hp. apply Ho. intros a ds k Hin Hk. apply Hp; [|exact Hk].
    rewrite Forall_forall in Hfile. exact (proj1 (Hfile _ Hin)).
  Qed.

  (* general layout, as in the task statement *)
  Corollary read_affinity_accepts_gen lines file K w expectedK (d : num) :
    encodes lines file -> file <> [] -> NoDup (map fst file) ->
    Forall (fun p => fst p < length file /\ length (snd p) = K) file -> 1 <= K ->
    length w = K * K * length file -> expectedK = 0 \/ expectedK = K ->
    exists w', read_affinity false lines w expectedK = AffOk w' /\
      length w' = length w /\
      (forall layer ds k, In (layer, ds) file -> k < K ->
         nth (idx_gen K (length file) k k layer) w' d = nth k ds d) /\
      (forall p, (forall a k, a < length file -> k < K -> p <> idx_gen K (length file) k k a) ->
         nth p w' d = nth p w d).
  Proof. exact (read_affinity_accepts false lines file K w expectedK d). Qed.

  (* assortative layout: in addition every one of the K*L positions is written *)
  Corollary read_affinity_accepts_ass lines file K w expectedK (d : num) :
    encodes lines file -> file <> [] -> NoDup (map fst file) ->
    Forall (fun p => fst p < length file /\ length (snd p) = K) file -> 1 <= K ->
    length w = K * length file -> expectedK = 0 \/ expectedK = K ->
    exists w', read_affinity true lines w expectedK = AffOk w' /\
      length w' = length w /\
      (forall layer ds k, In (layer, ds) file -> k < K ->
         nth (idx_ass K (length file) k layer) w' d = nth k ds d) /\
      (forall p, p < K * length file ->
         exists layer ds, In (layer, ds) file /\ p = idx_ass K (length file) (p mod K) layer /\
                          nth p w' d = nth (p mod K) ds d).
  Proof.
    intros Henc NE ND Hfile HK Hlen HeK.
    destruct (read_affinity_accepts true lines file K w expectedK d Henc NE ND Hfile HK Hlen HeK)
      as (w' & E & L' & Hh & _).
    exists w'. split; [exact E|]. split; [exact L'|]. split; [exact Hh|].
    intros p Hp.
    assert (Hq : p / K < length file) by (apply Nat.div_lt_upper_bound; lia).
    assert (Hr : p mod K < K) by (apply Nat.mod_upper_bound; lia).
    assert (Hin : In (p / K) (map fst file)).
    { apply (NoDup_lt_all (map fst file) (length file)); auto.
      - apply Forall_map. revert Hfile. apply Forall_impl. intros ? [? _]. assumption.
      - apply map_length. }
    apply in_map_iff in Hin. destruct Hin as ([a ds] & Ea & Hin). cbn [fst] in Ea. subst a.
    exists (p / K), ds. split; [exact Hin|].
    assert (Ep : p = idx_ass K (length file) (p mod K) (p / K)).
    { unfold idx_ass, idx. pose proof (Nat.div_mod p K ltac:(lia)). lia. }
    split; [exact Ep|]. rewrite Ep at 1. apply (Hh _ _ _ Hin Hr).
  Qed.

  (* ---- rejection ---- *)
  Lemma data_lines_nonempty lines : Forall (fun l => l <> []) (data_lines lines).
  Proof.
    apply Forall_forall. intros l H. unfold CliModel.data_lines in H. apply filter_In in H.
    destruct H as [_ H]. destruct l; [discriminate|discriminate].
  Qed.

  (* everything the second pass checks *)
  Lemma write_layers_ok_inv assort K L : forall ls seen w w',
    Forall (fun l => l <> []) ls ->
    write_layers assort K L seen ls w = AffOk w' ->
    exists ids, Forall2 (fun l a => exists t vs, l = t :: vs /\ puint t = Some a) ls ids /\
                NoDup ids /\ Forall (fun a => a < L /\ ~ In a seen) ids.
  Proof.
    induction ls as [|l ls IH]; intros seen w w' NE H.
    - exists []. repeat constructor.
    - inversion NE as [|? ? Hl NE']; subst. destruct l as [|t vals]; [contradiction|].
      rewrite write_layers_cons in H. destruct (puint t) as [a|] eqn:Hp; [|discriminate].
      destruct (a <? L) eqn:E1; [|discriminate].
      destruct (existsb (Nat.eqb a) seen) eqn:E2; [discriminate|]. cbn [andb negb] in H.
      destruct (IH _ _ _ NE' H) as (ids & F2 & ND & Hids).
      assert (Hna : ~ In a seen).
      { intros Hi. apply existsb_eqb in Hi. congruence. }
      exists (a :: ids). split; [|split].
      + constructor; [exists t, vals; auto| exact F2].
      + constructor; [|exact ND]. intros Hi. rewrite Forall_forall in Hids.
        destruct (Hids a Hi) as [_ Hn]. apply Hn. now left.
      + constructor; [split; [now apply Nat.ltb_lt|exact Hna]|].
        revert Hids. apply Forall_impl. intros x [Hx Hn]. split; [exact Hx|].
        intros Hi. apply Hn. now right.
  Qed.

  (* complete characterisation of acceptance: AffOk implies every well-formedness condition *)
  Theorem read_affinity_ok_inv assort lines w eK w' :
    read_affinity assort lines w eK = AffOk w' ->
    let dl := data_lines lines in
    let K := hd 0 (counts dl) in
    Forall (fun c => c = K) (counts dl) /\ K <> 0 /\
    aff_size assort K (length dl) = length w /\ (eK = 0 \/ eK = K) /\
    exists ids, Forall2 (fun l a => exists t vs, l = t :: vs /\ puint t = Some a) dl ids /\
                NoDup ids /\ Forall (fun a => a < length dl) ids.
  Proof.
    rewrite read_affinity_unfold. cbv zeta.
    set (dl := data_lines lines). set (K := hd 0 (counts dl)).
    destruct (forallb (Nat.eqb K) (counts dl)) eqn:E1; [|discriminate]. cbn [negb].
    destruct (K =? 0) eqn:E2; [discriminate|].
    destruct (aff_size assort K (length dl) =? length w) eqn:E3; [|discriminate].
    destruct (negb (eK =? 0) && negb (eK =? K)) eqn:E4; [discriminate|]. cbn [orb negb].
    intros H. split; [|split; [|split; [|split]]].
    - rewrite forallb_forall in E1. apply Forall_forall. intros c Hc.
      symmetry. apply Nat.eqb_eq. now apply E1.
    - now apply Nat.eqb_neq.
    - now apply Nat.eqb_eq.
    - destruct (eK =? 0) eqn:E5; [left; now apply Nat.eqb_eq|].
      destruct (eK =? K) eqn:E6; [right; now apply Nat.eqb_eq| discriminate].
    - destruct (write_layers_ok_inv _ _ _ _ _ _ _ (data_lines_nonempty lines) H) as (ids & F2 & ND & Hids).
      exists ids. split; [exact F2|]. split; [exact ND|].
      revert Hids. apply Forall_impl. intros a [Ha _]. exact Ha.
  Qed.

  (* the individual rejections *)
  Theorem read_affinity_rejects_counts assort lines w eK l1 l2 :
    In l1 (data_lines lines) -> In l2 (data_lines lines) ->
    length (take_nums (tl l1)) <> length (take_nums (tl l2)) ->
    read_affinity assort lines w eK = AffError.
  Proof.
    intros H1 H2 Hne. destruct (read_affinity assort lines w eK) as [|w'] eqn:E; [reflexivity|].
    apply read_affinity_ok_inv in E. cbv zeta in E. destruct E as (Hc & _).
    rewrite Forall_forall in Hc. exfalso. apply Hne.
    rewrite (Hc (length (take_nums (tl l1)))), (Hc (length (take_nums (tl l2)))); [reflexivity| |];
      unfold counts; apply in_map_iff; eauto.
  Qed.

  (* K = 0: no data line at all, or the first data line has no numeric value *)
  Theorem read_affinity_rejects_K0 assort lines w eK :
    hd 0 (counts (data_lines lines)) = 0 -> read_affinity assort lines w eK = AffError.
  Proof.
    intros H0. destruct (read_affinity assort lines w eK) as [|w'] eqn:E; [reflexivity|].
    apply read_affinity_ok_inv in E. cbv zeta in E. destruct E as (_ & HK & _). contradiction.
  Qed.

  Corollary read_affinity_rejects_no_data assort lines w eK :
    data_lines lines = [] -> read_affinity assort lines w eK = AffError.
  Proof. intros H. apply read_affinity_rejects_K0. now rewrite H. Qed.

  Theorem read_affinity_rejects_size assort lines w eK :
    aff_size assort (hd 0 (counts (data_lines lines))) (length (data_lines lines)) <> length w ->
    read_affinity assort lines w eK = AffError.
  Proof.
    intros Hs. destruct (read_affinity assort lines w eK) as [|w'] eqn:E; [reflexivity|].
    apply read_affinity_ok_inv in E. cbv zeta in E. destruct E as (_ & _ & HS & _). contradiction.
  Qed.

  Theorem read_affinity_rejects_expectedK assort lines w eK :
    eK <> 0 -> eK <> hd 0 (counts (data_lines lines)) ->
    read_affinity assort lines w eK = AffError.
  Proof.
    intros H1 H2. destruct (read_affinity assort lines w eK) as [|w'] eqn:E; [reflexivity|].
    apply read_affinity_ok_inv in E. cbv zeta in E. destruct E as (_ & _ & _ & [H|H] & _); contradiction.
  Qed.

  Theorem read_affinity_rejects_not_number assort lines w eK t vs :
    In (t :: vs) (data_lines lines) -> puint t = None ->
    read_affinity assort lines w eK = AffError.
  Proof.
    intros Hin Hp. destruct (read_affinity assort lines w eK) as [|w'] eqn:E; [reflexivity|].
    apply read_affinity_ok_inv in E. cbv zeta in E. destruct E as (_ & _ & _ & _ & ids & F2 & _).
    destruct (Forall2_In_l _ _ _ _ F2 Hin) as (a & _ & t' & vs' & Heq & Hp').
    injection Heq as <- <-. congruence.
  Qed.

  Theorem read_affinity_rejects_out_of_range assort lines w eK t vs a :
    In (t :: vs) (data_lines lines) -> puint t = Some a -> length (data_lines lines) <= a ->
    read_affinity assort lines w eK = AffError.
  Proof.
    intros Hin Hp Hge. destruct (read_affinity assort lines w eK) as [|w'] eqn:E; [reflexivity|].
    apply read_affinity_ok_inv in E. cbv zeta in E. destruct E as (_ & _ & _ & _ & ids & F2 & _ & Hlt).
    destruct (Forall2_In_l _ _ _ _ F2 Hin) as (a' & Ha' & t' & vs' & Heq & Hp').
    injection Heq as <- <-. assert (a' = a) by congruence. subst a'.
    rewrite Forall_forall in Hlt. specialize (Hlt a Ha'). lia.
  Qed.

  Theorem read_affinity_rejects_repeated assort lines w eK l1 l2 l3 t1 v1 t2 v2 a :
    data_lines lines = l1 ++ (t1 :: v1) :: l2 ++ (t2 :: v2) :: l3 ->
    puint t1 = Some a -> puint t2 = Some a ->
    read_affinity assort lines w eK = AffError.
  Proof.
    intros Hd H1 H2. destruct (read_affinity assort lines w eK) as [|w'] eqn:E; [reflexivity|].
    apply read_affinity_ok_inv in E. cbv zeta in E. destruct E as (_ & _ & _ & _ & ids & F2 & ND & _).
    rewrite Hd in F2.
    apply Forall2_app_inv_l in F2. destruct F2 as (i1 & r1 & _ & F2 & ->).
    inversion F2 as [|? a1 ? r2 (t & vs & Heq & Hp) F2']; subst. injection Heq as <- <-.
    apply Forall2_app_inv_l in F2'. destruct F2' as (i2 & r3 & _ & F2' & ->).
    inversion F2' as [|? a2 ? i3 (t & vs & Heq & Hp') _]; subst. injection Heq as <- <-.
    assert (a1 = a) by congruence. assert (a2 = a) by congruence. subst a1 a2.
    apply NoDup_remove_2 in ND. exfalso. apply ND.
    apply in_or_app. right. apply in_or_app. right. now left.
  Qed.

  (* all of them at once, as a disjunction of causes *)
  Theorem read_affinity_rejects assort lines w eK :
    let dl := data_lines lines in
    let K := hd 0 (counts dl) in
    (exists l1 l2, In l1 dl /\ In l2 dl /\ length (take_nums (tl l1)) <> length (take_nums (tl l2))) \/
    K = 0 \/
    aff_size assort K (length dl) <> length w \/
    (eK <> 0 /\ eK <> K) \/
    (exists t vs, In (t :: vs) dl /\ puint t = None) \/
    (exists t vs a, In (t :: vs) dl /\ puint t = Some a /\ length dl <= a) \/
    (exists l1 l2 l3 t1 v1 t2 v2 a, dl = l1 ++ (t1 :: v1) :: l2 ++ (t2 :: v2) :: l3 /\
                                    puint t1 = Some a /\ puint t2 = Some a) ->
    read_affinity assort lines w eK = AffError.
  Proof.
    cbv zeta.
    intros [(l1 & l2 & H1 & H2 & H3)|[H|[H|[[H1 H2]|[(t & vs & H1 & H2)|[(t & vs & a & H1 & H2 & H3)|
            (l1 & l2 & l3 & t1 & v1 & t2 & v2 & a & H1 & H2 & H3)]]]]]].
    - exact (read_affinity_rejects_counts _ _ _ _ l1 l2 H1 H2 H3).
    - now apply read_affinity_rejects_K0.
    - now apply read_affinity_rejects_size.
    - now apply read_affinity_rejects_expectedK.
    - exact (read_affinity_rejects_not_number _ _ _ _ t vs H1 H2).
    - exact (read_affinity_rejects_out_of_range _ _ _ _ t vs a H1 H2 H3).
    - exact (read_affinity_rejects_repeated _ _ _ _ _ _ _ _ _ _ _ a H1 H2 H3).
  Qed.

  (* COUNTEREXAMPLE to the acceptance statement without `file <> []`: the empty file (L = 0, every
     other premise holds vacuously, `length w = 0`) is REJECTED, because K is read as 0. *)
  Theorem read_affinity_empty_file_rejected assort lines w eK :
    encodes lines [] -> read_affinity assort lines w eK = AffError.
  Proof.
    intros H. apply read_affinity_rejects_no_data.
    apply encodes_data_lines in H. now inversion H.
  Qed.

  (* hence the acceptance theorem is the closest true statement (extra premise `file <> []`) *)
  Definition read_affinity_accepts_partial := read_affinity_accepts.

End P4.

(* ================================================================== *)
(* P5  option scanning                                                 *)
(* ================================================================== *)
Section P5.
  Variable str : Type.
  Variable seqb : str -> str -> bool.
  Local Notation opt_exists := (CliModel.opt_exists str seqb).
  Local Notation opt_value := (CliModel.opt_value str seqb).

  Theorem opt_exists_spec argv o :
    opt_exists argv o = true <-> exists x, In x argv /\ seqb o x = true.
  Proof. unfold CliModel.opt_exists. apply existsb_exists. Qed.

  Theorem opt_value_spec : forall argv o v,
    opt_value argv o = Some v <->
    exists pre x post, argv = pre ++ x :: v :: post /\ seqb o x = true /\
                       Forall (fun y => seqb o y = false) pre.
  Proof.
    induction argv as [|x r IH]; intros o v.
    - cbn [CliModel.opt_value]. split; [discriminate|].
      intros (pre & x & post & E & _). destruct pre; discriminate.
    - cbn [CliModel.opt_value]. destruct (seqb o x) eqn:Ex.
      + split.
        * destruct r as [|y r']; [discriminate|]. intros H. injection H as ->.
          exists [], x, r'. repeat split; auto.
        * intros (pre & x' & post & E & Hx & Hpre). destruct pre as [|p pre].
          -- cbn [app] in E. injection E as <- ->. reflexivity.
          -- cbn [app] in E. injection E as <- _. inversion Hpre; subst. congruence.
      + rewrite IH. split.
        * intros (pre & x' & post & -> & Hx & Hpre). exists (x :: pre), x', post.
          repeat split; auto.
        * intros (pre & x' & post & E & Hx & Hpre). destruct pre as [|p pre].
          -- cbn [app] in E. injection E as <- _. congruence.
          -- cbn [app] in E. injection E as <- ->. inversion Hpre; subst.
             exists pre, x', post. auto.
  Qed.

  Theorem opt_exists_false_value argv o : opt_exists argv o = false -> opt_value argv o = None.
  Proof.
    unfold CliModel.opt_exists. induction argv as [|x r IH]; [reflexivity|].
    cbn [existsb CliModel.opt_value]. destruct (seqb o x); [discriminate|]. exact IH.
  Qed.

  (* the option is the last word: present but without a value *)
  Lemma opt_value_last pre x o :
    Forall (fun y => seqb o y = false) pre -> seqb o x = true ->
    opt_exists (pre ++ [x]) o = true /\ opt_value (pre ++ [x]) o = None.
  Proof.
    intros Hpre Hx. split.
    - apply opt_exists_spec. exists x. split; [apply in_or_app; right; now left| exact Hx].
    - induction Hpre as [|y pre Hy _ IH]; cbn [app CliModel.opt_value].
      + now rewrite Hx.
      + now rewrite Hy.
  Qed.
End P5.

Print Assumptions render_nat_digits.
Print Assumptions read_digits_render_gen.
Print Assumptions read_digits_leading_zeros.
Print Assumptions read_uint_render.
Print Assumptions parse_render.
Print Assumptions read_affinity_accepts.
Print Assumptions read_affinity_accepts_gen.
Print Assumptions read_affinity_accepts_ass.
Print Assumptions read_affinity_length.
Print Assumptions read_affinity_ok_inv.
Print Assumptions read_affinity_rejects.
Print Assumptions opt_exists_spec.
Print Assumptions opt_value_spec.
Print Assumptions opt_exists_false_value.
