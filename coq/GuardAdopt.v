(* GuardAdopt.v -- comparison operator of the adoption test of Solver::run (C04) *)
From Coq Require Import List String Bool.
Import ListNotations.
From MT Require Import GenGuards GuardDefs.
Local Open Scope string_scope.

Definition adoption_is_strict_less : Prop := cxx_adopt_op = "<".
Lemma adoption_is_strict_less_holds : adoption_is_strict_less.
Proof. reflexivity. Qed.
