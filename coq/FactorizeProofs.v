(* FactorizeProofs.v -- end-to-end properties of MainModel.factorize (model of multitensor_factorization):
     F1 records_map                     records commutes with a relabelling of the two label lists
     F2 validate_relabel                validation only sees the equality pattern of the labels
     F3 factorize_relabel        (C12)  vertex labels are opaque
     F4 factorize_reversal_undirected (C11, 1st sentence)
     F5 factorize_v_untouched / factorize_v_irrelevant (C11, 2nd sentence)
     F6 factorize_prior_independent (C07) + corollaries
   Everything is for an arbitrary arithmetic (num, A), weight type, multiplicity function countf and
   hook ovr, and for all sizes.  `run` is never unfolded: the run-level facts come from RunProofs. *)
From Coq Require Import List Arith Bool Lia Permutation.
Import ListNotations.
From MT Require Import Arith SweepModel GraphModel InitModel CtrlModel MainModel
                       GraphProofs GraphRelabel RunProofs MainProofs.

(* the interleaved endpoint sequence s0, e0, s1, e1, ... of an edge list given as pairs *)
Definition interleave {T : Type} (ps : list (T * T)) : list T :=
  flat_map (fun p => [fst p; snd p]) ps.

(* ========================================================================================== *)
(* F1 - F3 : relabelling                                                                      *)
(* ========================================================================================== *)
Section Relabel.
  Variables label1 label2 : Type.
  Variable leqb1 : label1 -> label1 -> bool.
  Variable leqb2 : label2 -> label2 -> bool.
  Hypothesis leqb1_spec : forall a b, leqb1 a b = true <-> a = b.
  Hypothesis leqb2_spec : forall a b, leqb2 a b = true <-> a = b.
  Variable f : label1 -> label2.
  Variable wt : Type.
  Variable countf : wt -> nat.

  Notation mrec := (map_rec label1 label2 f).

  (* ---------------- F1 ---------------- *)
  Lemma zip3_map s e c :
    zip3 label2 (map f s) (map f e) c = map mrec (zip3 label1 s e c).
  Proof.
    revert e c. induction s as [|x s IH]; intros [|y e] [|z c]; cbn; try reflexivity.
    rewrite IH. reflexivity.
  Qed.

  Theorem records_map L starts ends (weights : list wt) :
    records label2 wt countf L (map f starts) (map f ends) weights =
    map mrec (records label1 wt countf L starts ends weights).
  Proof. unfold records. rewrite map_length. apply zip3_map. Qed.

  (* ---------------- F2 ---------------- *)
  Definition inj_on (l : list label1) : Prop :=
    forall x y, In x l -> In y l -> f x = f y -> x = y.

  Section Inj.
    Variable P : label1 -> Prop.
    Hypothesis f_inj : forall x y, P x -> P y -> f x = f y -> x = y.

    Lemma existsb_map x seen : P x -> Forall P seen ->
      existsb (leqb2 (f x)) (map f seen) = existsb (leqb1 x) seen.
    Proof.
      intros Hx Hs. induction Hs as [|y seen Hy Hs IH]; cbn [map existsb]; [reflexivity|].
      rewrite (leqb_f label1 label2 leqb1 leqb2 leqb1_spec leqb2_spec f P f_inj) by assumption.
      rewrite IH. reflexivity.
    Qed.

    Lemma dedup_map_P l : forall seen, Forall P seen -> Forall P l ->
      dedup label2 leqb2 (map f seen) (map f l) = map f (dedup label1 leqb1 seen l).
    Proof.
      induction l as [|x l IH]; intros seen Hs Hl; cbn [map dedup]; [reflexivity|].
      inversion Hl as [|? ? Hx Hl']; subst.
      rewrite existsb_map by assumption.
      destruct (existsb (leqb1 x) seen).
      - apply IH; assumption.
      - rewrite <- IH; [rewrite map_app; reflexivity | | assumption].
        apply Forall_app. split; [assumption|]. constructor; [assumption|constructor].
    Qed.
  End Inj.

  (* dedup (the body of utils::get_num_vertices) commutes with an injective relabelling *)
  Lemma dedup_map seen l : inj_on (seen ++ l) ->
    dedup label2 leqb2 (map f seen) (map f l) = map f (dedup label1 leqb1 seen l).
  Proof.
    intros H. apply (dedup_map_P (fun x => In x (seen ++ l)) H); apply Forall_forall; intros x Hx;
      apply in_or_app; [left|right]; exact Hx.
  Qed.

  (* no hypothesis on the lengths of starts and ends *)
  Lemma get_num_vertices_relabel starts ends : inj_on (starts ++ ends) ->
    get_num_vertices label2 leqb2 (map f starts) (map f ends) =
    get_num_vertices label1 leqb1 starts ends.
  Proof.
    intros H. unfold get_num_vertices. rewrite <- map_app.
    pose proof (dedup_map [] (starts ++ ends) H) as E. cbn [map] in E. rewrite E.
    apply map_length.
  Qed.

  Theorem validate_relabel assort starts ends (weights : list wt) aff_size u_rows u_cols r maxit nconv :
    inj_on (starts ++ ends) ->
    validate label2 leqb2 wt assort (map f starts) (map f ends) weights
             aff_size u_rows u_cols r maxit nconv =
    validate label1 leqb1 wt assort starts ends weights aff_size u_rows u_cols r maxit nconv.
  Proof.
    intros H. unfold validate. rewrite !map_length, (get_num_vertices_relabel _ _ H). reflexivity.
  Qed.

  (* ---------------- F3 ---------------- *)
  (* the solver's view of a net does not see the label table, only its length *)
  Lemma graph_of_relabel d g :
    graph_of label2 d (relabel label1 label2 f g) = graph_of label1 d g.
  Proof. unfold graph_of. rewrite u_list_relabel, v_list_relabel. reflexivity. Qed.

  Lemma labels_of_zip3_In (s e : list label1) c x :
    In x (labels_of (zip3 label1 s e c)) -> In x (s ++ e).
  Proof.
    intros H. apply in_or_app. revert e c H.
    induction s as [|a s IH]; intros [|b e] [|z c]; cbn [zip3]; try (intros []; fail).
    rewrite labels_of_cons. cbn [fst snd]. intros [<-|[<-|H]].
    - left. left. reflexivity.
    - right. left. reflexivity.
    - destruct (IH _ _ H) as [H1|H1]; [left|right]; right; exact H1.
  Qed.

  Theorem factorize_relabel (num : Type) (A : Arith num) (ovr : nat -> nat -> num -> num)
      directed assort from_init starts ends (weights : list wt) r maxit nconv u_rows u_cols
      u0 v0 aff0 stream :
    inj_on (starts ++ ends) ->
    factorize num A label2 leqb2 wt countf ovr directed assort from_init
              (map f starts) (map f ends) weights r maxit nconv u_rows u_cols u0 v0 aff0 stream
    = match factorize num A label1 leqb1 wt countf ovr directed assort from_init
                      starts ends weights r maxit nconv u_rows u_cols u0 v0 aff0 stream with
      | Error _ _ c => Error num label2 c
      | Ok _ _ res => Ok num label2 {| r_labels := map f (r_labels num label1 res);
                                      r_u := r_u num label1 res; r_v := r_v num label1 res;
                                      r_aff := r_aff num label1 res; r_rep := r_rep num label1 res |}
      end.
  Proof.
    intros Hinj. unfold factorize. rewrite (validate_relabel _ _ _ _ _ _ _ _ _ _ Hinj).
    destruct (validate label1 leqb1 wt assort starts ends weights (length aff0) u_rows u_cols r maxit nconv)
      as [c|L K N]; [reflexivity|].
    cbv zeta. unfold the_net. rewrite records_map.
    rewrite (build_relabel_eq label1 label2 leqb1 leqb2 leqb1_spec leqb2_spec f directed L
               (records label1 wt countf L starts ends weights)).
    2:{ intros x y Hx Hy. apply (proj2 (occurs_labels_of label1 label2 f x _)) in Hx.
        apply (proj2 (occurs_labels_of label1 label2 f y _)) in Hy.
        unfold records in Hx, Hy. apply labels_of_zip3_In in Hx. apply labels_of_zip3_In in Hy.
        apply Hinj; assumption. }
    rewrite graph_of_relabel.
    destruct assort, from_init; reflexivity.
  Qed.
End Relabel.

(* ========================================================================================== *)
(* F4 - F6 : one label type                                                                   *)
(* ========================================================================================== *)
Section Same.
  Variable num : Type.
  Variable A : Arith num.
  Variable label : Type.
  Variable leqb : label -> label -> bool.
  Variable wt : Type.
  Variable countf : wt -> nat.
  Variable ovr : nat -> nat -> num -> num.

  (* ------------------------------------------------------------------------------------------ *)
  (* the four branches of factorize, once and for all: either a rejection that does not look at *)
  (* u0, v0, or `core` of some solver instance on bufs0 u0 v0, the instance not depending on    *)
  (* u0, v0 (only on u_rows, u_cols)                                                            *)
  (* ------------------------------------------------------------------------------------------ *)
  Lemma factorize_shape directed assort from_init starts ends (weights : list wt)
        r maxit nconv u_rows u_cols aff0 stream :
    (exists c, forall u0 v0,
        factorize num A label leqb wt countf ovr directed assort from_init starts ends weights
                  r maxit nconv u_rows u_cols u0 v0 aff0 stream = Error num label c) \/
    (exists (W : Type) sw lk (IC : Type) initw toflat N K ul vl labels w0 wz ic0, forall u0 v0,
        factorize num A label leqb wt countf ovr directed assort from_init starts ends weights
                  r maxit nconv u_rows u_cols u0 v0 aff0 stream =
        Ok num label (core num A label W sw lk IC initw toflat directed N K ul vl r maxit nconv labels
                           (bufs0 num A W IC N K u0 v0 w0 wz ic0 stream))).
  Proof.
    unfold factorize.
    destruct (validate label leqb wt assort starts ends weights (length aff0) u_rows u_cols r maxit nconv)
      as [c|L K N]; [left; exists c; reflexivity|right].
    cbv zeta. destruct assort, from_init; do 14 eexists; intros u0 v0; reflexivity.
  Qed.

  (* ------------------------------------------------------------------------------------------ *)
  (* generic facts about core on bufs0                                                          *)
  (* ------------------------------------------------------------------------------------------ *)
  Section CoreFacts.
    Variable W : Type.
    Variable sw : matrix num * matrix num * W -> matrix num * matrix num * W.
    Variable lk : nat -> nat -> matrix num * matrix num * W -> num.
    Variable IC : Type.
    Variable initw : IC -> W -> list num -> IC * W * list num.
    Variable toflat : W -> list num.
    Variables (directed : bool) (N K : nat) (ul vl : list nat) (r maxit nconv : nat).
    Variable labels : list label.
    Variables (w0 wz : W) (ic0 : IC) (stream : list num).

    Notation CORE u0 v0 :=
      (core num A label W sw lk IC initw toflat directed N K ul vl r maxit nconv labels
            (bufs0 num A W IC N K u0 v0 w0 wz ic0 stream)).

    Lemma core_v_undirected u0 v0 : directed = false -> r_v num label (CORE u0 v0) = v0.
    Proof.
      intros Hd. unfold core. cbn [r_v].
      rewrite (run_cv_undirected num A W sw lk IC initw directed N K ul vl maxit nconv r _ Hd).
      reflexivity.
    Qed.

    Lemma core_rep_length u0 v0 : length (r_rep num label (CORE u0 v0)) = r.
    Proof. unfold core. cbn [r_rep]. rewrite run_rep_length. reflexivity. Qed.

    Lemma core_prior u0 v0 u0' v0' :
      r_labels num label (CORE u0 v0) = r_labels num label (CORE u0' v0') /\
      r_aff num label (CORE u0 v0) = r_aff num label (CORE u0' v0') /\
      r_rep num label (CORE u0 v0) = r_rep num label (CORE u0' v0') /\
      (best_index num A (map snd (r_rep num label (CORE u0 v0))) <> None ->
         r_u num label (CORE u0 v0) = r_u num label (CORE u0' v0') /\
         (directed = true -> r_v num label (CORE u0 v0) = r_v num label (CORE u0' v0'))) /\
      (best_index num A (map snd (r_rep num label (CORE u0 v0))) = None ->
         r_u num label (CORE u0 v0) = u0 /\ r_u num label (CORE u0' v0') = u0' /\
         r_v num label (CORE u0 v0) = v0 /\ r_v num label (CORE u0' v0') = v0').
    Proof.
      unfold core. cbn [r_labels r_aff r_rep r_u r_v].
      destruct (run_prior_independent num A W sw lk IC initw directed N K ul vl maxit nconv r
                  (bufs0 num A W IC N K u0 v0 w0 wz ic0 stream)
                  (bufs0 num A W IC N K u0' v0' w0 wz ic0 stream)
                  eq_refl eq_refl eq_refl eq_refl eq_refl (fun _ => eq_refl))
        as (Hrep & _ & _ & Hw & Hsome & Hnone).
      split; [reflexivity|]. split; [rewrite Hw; reflexivity|]. split; [exact Hrep|]. split.
      - intros Hb.
        destruct (best_index num A _) as [i|] eqn:E; [|congruence].
        exact (Hsome i eq_refl).
      - intros Hb. exact (Hnone Hb).
    Qed.
  End CoreFacts.

  (* ------------------------------------------------------------------------------------------ *)
  (* the report is non-empty, and a first likelihood above lowest() is adopted                  *)
  (* ------------------------------------------------------------------------------------------ *)
  Lemma first_above_lowest_adopted (ls : list num) :
    ls <> [] -> ltb A (lowest A) (hd (lowest A) ls) = true -> best_index num A ls <> None.
  Proof.
    intros Hne Hl Hb. destruct (best_index_none_spec num A ls Hne Hb) as (_ & Hf). congruence.
  Qed.

  Section Call.
    Variables (directed assort from_init : bool) (starts ends : list label) (weights : list wt)
              (r maxit nconv u_rows u_cols : nat) (aff0 stream : list num).
    Notation F u0 v0 :=
      (factorize num A label leqb wt countf ovr directed assort from_init starts ends weights
                 r maxit nconv u_rows u_cols u0 v0 aff0 stream).

    (* whether the call is rejected, and with which code, does not depend on u0, v0 *)
    Theorem factorize_error_prior_independent u0 v0 u0' v0' c :
      F u0 v0 = Error num label c <-> F u0' v0' = Error num label c.
    Proof.
      destruct (factorize_shape directed assort from_init starts ends weights r maxit nconv
                  u_rows u_cols aff0 stream) as [(c0 & H)|(W & sw & lk & IC & initw & toflat & N & K & ul &
                                                   vl & labels & w0 & wz & ic0 & H)];
        rewrite (H u0 v0), (H u0' v0'); split; intros E; try exact E; discriminate E.
    Qed.

    Theorem factorize_rep_nonempty u0 v0 res :
      F u0 v0 = Ok num label res -> length (r_rep num label res) = r /\ 1 <= r.
    Proof.
      intros HF. destruct (factorize_ok_accept _ _ _ _ _ _ _ _ _ _ _ _ _ _ _ _ _ _ _ _ _ _ _ HF)
        as (L & K & N & HV).
      destruct (factorize_ok_shape _ _ _ _ _ _ _ _ _ _ _ _ _ _ _ _ _ _ _ _ _ _ _ _ _ _ HF HV) as (Hlen & _).
      split; [exact Hlen|].
      apply validate_accept_iff in HV. unfold shape_consistent in HV. tauto.
    Qed.

    (* ---------------- F6 (C07) ---------------- *)
    (* NOTE: factorize has no argument for the prior contents of the labels container: r_labels is
       the vertex table of the net (factorize_ok_shape).  The prior contents u0 / v0 of the membership
       containers ARE arguments (the code can see them), and: *)
    Theorem factorize_prior_independent u0 v0 u0' v0' res res' :
      F u0 v0 = Ok num label res -> F u0' v0' = Ok num label res' ->
      r_rep num label res = r_rep num label res' /\
      r_aff num label res = r_aff num label res' /\
      r_labels num label res = r_labels num label res' /\
      (best_index num A (map snd (r_rep num label res)) <> None ->
         r_u num label res = r_u num label res' /\
         (directed = true -> r_v num label res = r_v num label res')).
    Proof.
      destruct (factorize_shape directed assort from_init starts ends weights r maxit nconv
                  u_rows u_cols aff0 stream) as [(c0 & H)|(W & sw & lk & IC & initw & toflat & N & K & ul &
                                                   vl & labels & w0 & wz & ic0 & H)];
        rewrite (H u0 v0), (H u0' v0'); [discriminate|].
      intros E E'. injection E as <-. injection E' as <-.
      destruct (core_prior W sw lk IC initw toflat directed N K ul vl r maxit nconv labels w0 wz ic0
                  stream u0 v0 u0' v0') as (Hl & Ha & Hr & Hs & _).
      auto.
    Qed.

    (* the complement: when NO realization is adopted, the prior contents are returned unchanged
       (so the hypothesis of factorize_prior_independent cannot be dropped: see
       prior_dependence_example below) *)
    Theorem factorize_nothing_adopted u0 v0 res :
      F u0 v0 = Ok num label res ->
      best_index num A (map snd (r_rep num label res)) = None ->
      r_u num label res = u0 /\ r_v num label res = v0.
    Proof.
      destruct (factorize_shape directed assort from_init starts ends weights r maxit nconv
                  u_rows u_cols aff0 stream) as [(c0 & H)|(W & sw & lk & IC & initw & toflat & N & K & ul &
                                                   vl & labels & w0 & wz & ic0 & H)];
        rewrite (H u0 v0); [discriminate|].
      intros E. injection E as <-.
      destruct (core_prior W sw lk IC initw toflat directed N K ul vl r maxit nconv labels w0 wz ic0
                  stream u0 v0 u0 v0) as (_ & _ & _ & _ & Hn).
      intros Hb. destruct (Hn Hb) as (Hu & _ & Hv & _). auto.
    Qed.

    (* the adoption hypothesis follows from "the first reported likelihood is above lowest()".
       No order hypothesis (strict_total_on) is needed: RunProofs.best_index_none_spec suffices. *)
    Corollary factorize_prior_independent_first u0 v0 u0' v0' res res' :
      F u0 v0 = Ok num label res -> F u0' v0' = Ok num label res' ->
      ltb A (lowest A) (hd (lowest A) (map snd (r_rep num label res))) = true ->
      r_rep num label res = r_rep num label res' /\
      r_aff num label res = r_aff num label res' /\
      r_labels num label res = r_labels num label res' /\
      r_u num label res = r_u num label res' /\
      (directed = true -> r_v num label res = r_v num label res').
    Proof.
      intros HF HF' Hl.
      destruct (factorize_prior_independent u0 v0 u0' v0' res res' HF HF') as (Hr & Ha & Hlb & Hs).
      destruct (factorize_rep_nonempty u0 v0 res HF) as (Hlen & Hr1).
      assert (Hne : map snd (r_rep num label res) <> []).
      { intros E. apply (f_equal (@length _)) in E. rewrite map_length, Hlen in E. cbn in E. lia. }
      destruct (Hs (first_above_lowest_adopted _ Hne Hl)) as (Hu & Hv). auto.
    Qed.
  End Call.

  (* ---------------- F5 (C11, second sentence) ---------------- *)
  Section Undirected.
    Variables (assort from_init : bool) (starts ends : list label) (weights : list wt)
              (r maxit nconv u_rows u_cols : nat) (aff0 stream : list num).
    Notation F u0 v0 :=
      (factorize num A label leqb wt countf ovr false assort from_init starts ends weights
                 r maxit nconv u_rows u_cols u0 v0 aff0 stream).

    Theorem factorize_v_untouched u0 v0 res :
      F u0 v0 = Ok num label res -> r_v num label res = v0.
    Proof.
      destruct (factorize_shape false assort from_init starts ends weights r maxit nconv
                  u_rows u_cols aff0 stream) as [(c0 & H)|(W & sw & lk & IC & initw & toflat & N & K & ul &
                                                   vl & labels & w0 & wz & ic0 & H)];
        rewrite (H u0 v0); [discriminate|].
      intros E. injection E as <-. apply core_v_undirected. reflexivity.
    Qed.

    (* ... and nothing else depends on v0 (whether or not a realization is adopted) *)
    Theorem factorize_v_irrelevant u0 v0 v0' res res' :
      F u0 v0 = Ok num label res -> F u0 v0' = Ok num label res' ->
      r_labels num label res = r_labels num label res' /\
      r_u num label res = r_u num label res' /\
      r_aff num label res = r_aff num label res' /\
      r_rep num label res = r_rep num label res'.
    Proof.
      destruct (factorize_shape false assort from_init starts ends weights r maxit nconv
                  u_rows u_cols aff0 stream) as [(c0 & H)|(W & sw & lk & IC & initw & toflat & N & K & ul &
                                                   vl & labels & w0 & wz & ic0 & H)];
        rewrite (H u0 v0), (H u0 v0'); [discriminate|].
      intros E E'. injection E as <-. injection E' as <-.
      destruct (core_prior W sw lk IC initw toflat false N K ul vl r maxit nconv labels w0 wz ic0
                  stream u0 v0 u0 v0') as (Hl & Ha & Hr & Hs & Hn).
      split; [exact Hl|]. split; [|split; [exact Ha|exact Hr]].
      destruct (best_index num A (map snd (r_rep num label
                 (core num A label W sw lk IC initw toflat false N K ul vl r maxit nconv labels
                       (bufs0 num A W IC N K u0 v0 w0 wz ic0 stream))))) as [i|] eqn:E.
      - apply Hs. discriminate.
      - destruct (Hn eq_refl) as (Hu & Hu' & _). rewrite Hu, Hu'. reflexivity.
    Qed.

    (* the Error case, for completeness *)
    Theorem factorize_v_irrelevant_error u0 v0 v0' c :
      F u0 v0 = Error num label c <-> F u0 v0' = Error num label c.
    Proof. apply factorize_error_prior_independent. Qed.
  End Undirected.

  (* ---------------- F4 (C11, first sentence) ---------------- *)
  Section Reversal.
    Hypothesis leqb_spec : forall a b, leqb a b = true <-> a = b.

    Lemma labels_of_zip3 (s e : list label) c : length s = length e -> length c = length s ->
      labels_of (zip3 label s e c) = interleave (combine s e).
    Proof.
      revert e c. induction s as [|a s IH]; intros [|b e] [|z c] He Hc; try discriminate; [reflexivity|].
      cbn [zip3 combine]. rewrite labels_of_cons. unfold interleave. cbn [flat_map fst snd app].
      f_equal. f_equal. apply IH; cbn in *; lia.
    Qed.

    Lemma In_interleave (s e : list label) x : length s = length e ->
      (In x (interleave (combine s e)) <-> In x (s ++ e)).
    Proof.
      revert e. induction s as [|a s IH]; intros [|b e] He; try discriminate; [cbn; tauto|].
      unfold interleave. cbn [combine flat_map fst snd app].
      change (flat_map (fun p : label * label => [fst p; snd p]) (combine s e)) with (interleave (combine s e)).
      cbn [In]. rewrite (IH e) by (cbn in He; lia). rewrite !in_app_iff. cbn [In]. tauto.
    Qed.

    Lemma dedup_length_same_elements (l l' : list label) : (forall x, In x l <-> In x l') ->
      length (dedup label leqb [] l) = length (dedup label leqb [] l').
    Proof.
      intros H. apply Permutation_length, NoDup_Permutation.
      - apply (dedup_NoDup label leqb leqb_spec). constructor.
      - apply (dedup_NoDup label leqb leqb_spec). constructor.
      - intros x. rewrite !(dedup_In label leqb leqb_spec). cbn [In]. rewrite (H x). tauto.
    Qed.

    (* get_num_vertices works on starts ++ ends, the net on the interleaved sequence: same count *)
    Lemma get_num_vertices_interleave (s e : list label) : length s = length e ->
      get_num_vertices label leqb s e = length (dedup label leqb [] (interleave (combine s e))).
    Proof.
      intros He. unfold get_num_vertices. apply dedup_length_same_elements.
      intros x. symmetry. apply In_interleave, He.
    Qed.

    Lemma Forall2_len {X Y} (R : X -> Y -> Prop) l l' : Forall2 R l l' -> length l = length l'.
    Proof. induction 1; cbn; congruence. Qed.

    Definition same_or_swapped (p p' : label * label) : Prop := p' = p \/ p' = (snd p, fst p).

    Lemma zip3_flips (s e s' e' : list label) c :
      length s = length e -> length s' = length e' ->
      Forall2 same_or_swapped (combine s e) (combine s' e') ->
      Forall2 (same_or_flipped label) (zip3 label s e c) (zip3 label s' e' c).
    Proof.
      revert e s' e' c. induction s as [|a s IH]; intros [|b e] [|a' s'] [|b' e'] c He He' HF;
        try discriminate; cbn [combine] in HF.
      - constructor.
      - inversion HF.
      - inversion HF.
      - inversion HF as [|p p' ps ps' Hp Hps]; subst.
        destruct c as [|z c]; cbn [zip3]; constructor.
        + destruct Hp as [Hp|Hp]; cbn [fst snd] in Hp; injection Hp as -> ->.
          * left. reflexivity.
          * right. reflexivity.
        + apply IH; cbn in *; try lia. exact Hps.
    Qed.

    Theorem factorize_reversal_undirected assort from_init
        (starts ends starts' ends' : list label) (weights : list wt)
        r maxit nconv u_rows u_cols u0 v0 aff0 stream :
      length starts = length ends -> length starts' = length ends' ->
      Forall2 (fun p p' => p' = p \/ p' = (snd p, fst p)) (combine starts ends) (combine starts' ends') ->
      dedup label leqb [] (flat_map (fun p => [fst p; snd p]) (combine starts' ends')) =
      dedup label leqb [] (flat_map (fun p => [fst p; snd p]) (combine starts ends)) ->
      factorize num A label leqb wt countf ovr false assort from_init starts' ends' weights
                r maxit nconv u_rows u_cols u0 v0 aff0 stream =
      factorize num A label leqb wt countf ovr false assort from_init starts ends weights
                r maxit nconv u_rows u_cols u0 v0 aff0 stream.
    Proof.
      intros He He' HF Hd.
      assert (Hlen : length starts' = length starts).
      { pose proof (Forall2_len _ _ _ HF) as Hl. rewrite !combine_length in Hl. lia. }
      assert (Hgnv : get_num_vertices label leqb starts' ends' = get_num_vertices label leqb starts ends).
      { rewrite !get_num_vertices_interleave by assumption. unfold interleave. rewrite Hd. reflexivity. }
      assert (HV : forall aff_size,
                 validate label leqb wt assort starts' ends' weights aff_size u_rows u_cols r maxit nconv =
                 validate label leqb wt assort starts ends weights aff_size u_rows u_cols r maxit nconv).
      { intros aff_size. unfold validate. rewrite Hgnv, <- He', Hlen, <- He. reflexivity. }
      assert (Hnet : forall L, the_net label leqb wt countf false starts' ends' weights L =
                               the_net label leqb wt countf false starts ends weights L).
      { intros L. unfold the_net, records. rewrite Hlen.
        assert (Hc : length (map (map countf) (chunk L (length starts) weights)) = length starts)
          by (rewrite map_length; apply chunk_length).
        apply (build_reverse_undirected_dedup label leqb leqb_spec).
        - apply zip3_flips; assumption.
        - rewrite !labels_of_zip3 by (try assumption; rewrite Hc; symmetry; exact Hlen). exact Hd. }
      unfold factorize. rewrite HV.
      destruct (validate label leqb wt assort starts ends weights (length aff0) u_rows u_cols r maxit nconv)
        as [c|L K N]; [reflexivity|].
      cbv zeta. rewrite Hnet. reflexivity.
    Qed.
  End Reversal.
End Same.

(* ========================================================================================== *)
(* The adoption hypothesis of factorize_prior_independent cannot be dropped                   *)
(* ========================================================================================== *)
(* COUNTEREXAMPLE to the unconditional statement "r_u does not depend on u0", on num = nat
   (RunProofs.natA, lowest = 0) with a hook that reports the likelihood 0 = lowest(): the single
   realization is not adopted (0 < 0 is false) and the caller's prior u0 is returned.
   C++ reading: every realization yields L2 = -inf or NaN. *)
Definition ex_call (hook : nat -> nat -> nat -> nat) (u0 : matrix nat) : outcome nat nat :=
  factorize nat natA nat Nat.eqb nat (fun w => w) hook true true false
            [0] [1] [1] 1 1 1 2 2 u0 [] [1; 1] [1; 2; 3; 4; 5; 6; 7; 8; 9; 10].

Example prior_dependence_example :
  exists res res',
    ex_call (fun _ _ _ => 0) [[7; 7]; [7; 7]] = Ok nat nat res /\
    ex_call (fun _ _ _ => 0) [[8; 8]; [8; 8]] = Ok nat nat res' /\
    best_index nat natA (map snd (r_rep nat nat res)) = None /\
    r_u nat nat res = [[7; 7]; [7; 7]] /\ r_u nat nat res' = [[8; 8]; [8; 8]].
Proof. eexists. eexists. vm_compute. repeat split; reflexivity. Qed.

(* non-vacuity of the adopted case: with a hook reporting a likelihood above lowest() the same two calls
   return the same u *)
Example prior_independence_example :
  exists res res',
    ex_call (fun _ _ x => S x) [[7; 7]; [7; 7]] = Ok nat nat res /\
    ex_call (fun _ _ x => S x) [[8; 8]; [8; 8]] = Ok nat nat res' /\
    best_index nat natA (map snd (r_rep nat nat res)) = Some 0 /\
    r_u nat nat res = r_u nat nat res'.
Proof. eexists. eexists. vm_compute. repeat split; reflexivity. Qed.

Print Assumptions records_map.
Print Assumptions validate_relabel.
Print Assumptions factorize_relabel.
Print Assumptions factorize_reversal_undirected.
Print Assumptions factorize_v_untouched.
Print Assumptions factorize_v_irrelevant.
Print Assumptions factorize_prior_independent.
Print Assumptions factorize_nothing_adopted.
Print Assumptions factorize_prior_independent_first.
Print Assumptions factorize_error_prior_independent.
