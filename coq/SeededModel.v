(* SeededModel.v -- the library call as a function of the SEED (not of an abstract stream):
   multitensor_factorization(..., RandomGenerator<>{seed}) = factorize on the first `draws_needed` draws of
   the mt19937 / uniform[0,1) stream of that seed (Mt19937.v).  `draws_needed` is what the r realizations
   consume (SeedProofs.v proves that no draw beyond it is read, so that any longer prefix gives the same result). *)
From Coq Require Import List Arith Bool ZArith Floats.
Import ListNotations.
From MT Require Import Arith SweepModel GraphModel InitModel CtrlModel MainModel Mt19937.

Section Needed.
  Variable label : Type.
  Variable leqb : label -> label -> bool.
  Variable wt : Type.
  Variable countf : wt -> nat.

  (* draws consumed by the affinity initialiser of one realization *)
  Definition draws_affinity (assort from_init : bool) (K L : nat) : nat :=
    if assort then L * K else if from_init then L * K * K else L * (K * (K + 1) / 2).
  (* draws consumed by one realization: affinity, in-memberships (directed only), out-memberships *)
  Definition draws_per_realization (directed assort from_init : bool) (K L nul nvl : nat) : nat :=
    draws_affinity assort from_init K L + (if directed then K * nvl else 0) + K * nul.

  Definition draws_needed (directed assort from_init : bool) (starts ends : list label) (weights : list wt)
             (aff_size u_rows u_cols r maxit nconv : nat) : nat :=
    match validate label leqb wt assort starts ends weights aff_size u_rows u_cols r maxit nconv with
    | Reject _ => 0
    | Accept L K N =>
        let g := the_net label leqb wt countf directed starts ends weights L in
        r * draws_per_realization directed assort from_init K L
              (length (u_list label g)) (length (v_list label directed g))
    end.
End Needed.

Section Seeded.
  Variable A : Arith float.
  Variable label : Type.
  Variable leqb : label -> label -> bool.
  Variable wt : Type.
  Variable countf : wt -> nat.
  Variable ovr : nat -> nat -> float -> float.

  Definition factorize_seeded (directed assort from_init : bool) (starts ends : list label) (weights : list wt)
             (r maxit nconv u_rows u_cols : nat) (u0 v0 : matrix float) (aff0 : list float) (seed : Z)
    : outcome float label :=
    factorize float A label leqb wt countf ovr directed assort from_init starts ends weights r maxit nconv
              u_rows u_cols u0 v0 aff0
              (mt_draws seed (draws_needed label leqb wt countf directed assort from_init starts ends weights
                                           (length aff0) u_rows u_cols r maxit nconv)).
  Definition factorize_starts_seeded (directed assort from_init : bool) (starts ends : list label) (weights : list wt)
             (r maxit nconv u_rows u_cols : nat) (u0 v0 : matrix float) (aff0 : list float) (seed : Z) :=
    factorize_starts float A label leqb wt countf ovr directed assort from_init starts ends weights r maxit nconv
              u_rows u_cols u0 v0 aff0
              (mt_draws seed (draws_needed label leqb wt countf directed assort from_init starts ends weights
                                           (length aff0) u_rows u_cols r maxit nconv)).
End Seeded.
