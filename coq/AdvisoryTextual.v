(* AdvisoryTextual.v -- ADVISORY, not part of any property's verdict: the comparison operators of the documented guards as they are
   SPELLED in solver.hpp / graph.hpp now (GenGuards.v, translator T6).  A harmless rewrite (renamed local, `!(eps < x)`, ...) breaks
   these textual facts while every property still holds, so they are reported as a note only; what pins the operators is the
   threshold-exact correspondence (lib/gen.py: gen_upd_threshold, gen_graph_threshold, conv_threshold_scripts; tools/test_thresholds.py
   flips each operator in turn and requires the correspondence to notice). *)
From Coq Require Import List String Bool.
Import ListNotations.
From MT Require Import GenGuards GuardDefs GuardUpdate GuardLik GuardCtrl GuardAdopt GuardWeight.

Theorem textual_update_guards :
  map (fun r => (g_lhs r, g_op r)) (filter is_update cxx_guards) =
  [("Z", ">"); ("mat_to_update_old(i, k)", ">"); ("Zij_a", ">"); ("std::abs(mat_to_update(i, k))", "<");
   ("Z_kq", ">"); ("w_old(k, a)", ">"); ("Zij_a", ">"); ("std::abs(w(k, a))", "<");
   ("Z_kq", ">"); ("w_old(k, q, a)", ">"); ("Zij_a", ">"); ("std::abs(w(k, q, a))", "<")]%string.
Proof. exact update_guards. Qed.
Theorem textual_likelihood_guard : map (fun r => (g_lhs r, g_op r)) (filter is_lik cxx_guards) = [("log_arg", ">")]%string.
Proof. exact likelihood_guard. Qed.
Theorem textual_convergence : convergence_operators_as_documented.
Proof. exact convergence_operators_hold. Qed.
Theorem textual_adoption : adoption_is_strict_less.
Proof. exact adoption_is_strict_less_holds. Qed.
Theorem textual_weight : weight_threshold_is_strict_greater.
Proof. exact weight_threshold_holds. Qed.
