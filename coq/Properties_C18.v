(* Properties_C18.v -- C18: tensor storage layout contract shared by library and front ends.
   Only statements, each closed by `exact <lemma>`; proofs live in LayoutProofs.v.
   Unbounded in R, C, T, K, L (the property asks only for <= 6). *)
From Coq Require Import Arith List.
Import ListNotations.
From MT Require Import Arith SweepModel MainModel Layout GenLayout GenCliIdx LayoutProofs LayoutShapeProofs.

(* the C++ index expression of Tensor::get_index (regenerated from tensor.hpp on every run) is the documented one *)
Theorem C18_cxx_get_index : forall R C T i j a, cxx_idx R C T i j a = a * R * C + j * R + i.
Proof. exact cxx_idx_is_idx. Qed.
Print Assumptions C18_cxx_get_index.

Theorem C18_in_range : forall R C T i j a, i < R -> j < C -> a < T -> idx R C T i j a < R * C * T.
Proof. exact idx_in_range. Qed.
Print Assumptions C18_in_range.

(* bijection onto 0..size-1: injective on in-range triples ... *)
Theorem C18_injective : forall R C T i j a i' j' a',
  i < R -> j < C -> a < T -> i' < R -> j' < C -> a' < T ->
  idx R C T i j a = idx R C T i' j' a' -> (i, j, a) = (i', j', a').
Proof. exact idx_injective. Qed.
Print Assumptions C18_injective.

(* ... and onto: every position below the size is the image of an in-range triple *)
Theorem C18_surjective : forall R C T p, p < R * C * T ->
  let '(i, j, a) := unidx R C T p in i < R /\ j < C /\ a < T /\ idx R C T i j a = p.
Proof. exact idx_unidx. Qed.
Print Assumptions C18_surjective.

(* the transposed view exposes (i,j,a) as (j,i,a); DiagonalTensor is C = 1, SymmetricTensor R = C = K *)
Theorem C18_views :
  cxx_transpose_perm = [1; 0; 2] /\
  (forall K L, cxx_diag_dims K L = (K, 1, L)) /\ (forall i a, cxx_diag_access i a = (i, 0, a)) /\
  (forall K L, cxx_sym_dims K L = (K, K, L)).
Proof. repeat split. Qed.
Print Assumptions C18_views.

(* the affinity vector exchanged with callers uses this layout (general: R = C = K; assortative: C = 1) *)
Theorem C18_affinity_vector : forall num (A : Arith num) K L,
  (forall w k q a, k < K -> q < K -> a < L ->
     nth (idx K K L k q a) (flat_of_w_gen num A K L w) (zero A) = tget num A w k q a) /\
  (forall w, length (flat_of_w_gen num A K L w) = K * K * L) /\
  (forall f k q a, k < K -> q < K -> a < L ->
     tget num A (w_of_flat_gen num A K L f) k q a = nth (idx K K L k q a) f (zero A)) /\
  (forall w k a, k < K -> a < L ->
     nth (idx K 1 L k 0 a) (flat_of_w_ass num A K L w) (zero A) = dget num A w k a) /\
  (forall w, length (flat_of_w_ass num A K L w) = K * L) /\
  (forall f k a, k < K -> a < L ->
     dget num A (w_of_flat_ass num A K L f) k a = nth (idx K 1 L k 0 a) f (zero A)).
Proof.
  intros num A K L. repeat split.
  - exact (flat_of_w_gen_nth num A K L).
  - exact (flat_of_w_gen_length num A K L).
  - exact (w_of_flat_gen_get num A K L).
  - exact (flat_of_w_ass_nth num A K L).
  - exact (flat_of_w_ass_length num A K L).
  - exact (w_of_flat_ass_get num A K L).
Qed.
Print Assumptions C18_affinity_vector.

(* the affinity writer (index expressions regenerated from app_utils.hpp) emits entry (k,q) of layer a
   at row k, column q of block a *)
Theorem C18_writer : forall K L k q a,
  cxx_writer_idx_gen K L k q a = idx K K L k q a /\ cxx_writer_idx_ass K L k a = idx K 1 L k 0 a.
Proof. intros. split; [exact (writer_gen_is_idx K L k q a)|exact (writer_ass_is_idx K L k a)]. Qed.
Print Assumptions C18_writer.

(* what a tensor reports about itself: the three dimensions it was made with, their product as its size; resize forgets the old shape
   whatever it was (same element count included), and the layout afterwards is the one of the new dimensions *)
Theorem C18_reported_shape : forall R C T,
  (t_rows (t_make R C T) = R /\ t_cols (t_make R C T) = C /\ t_tubes (t_make R C T) = T /\ t_size (t_make R C T) = R * C * T) /\
  (forall old, t_resize old R C T = t_make R C T) /\
  (forall old i j a, t_idx (t_resize old R C T) i j a = idx R C T i j a).
Proof. intros R C T. split; [exact (shape_make R C T)|]. split; [intro old; exact (shape_resize old R C T)|intros old i j a; exact (idx_after_resize old R C T i j a)]. Qed.
Print Assumptions C18_reported_shape.

(* the two-index accessors of the transposed view of an R x C matrix: (i,j) is the matrix's (j,i), flat position i*R + j *)
Theorem C18_transposed_matrix : forall R C i j, idx_transposed R C 1 i j 0 = i * R + j.
Proof. exact transposed_matrix. Qed.
Print Assumptions C18_transposed_matrix.

(* the initial-affinity reader of the front end writes to the layout's positions (its model, CliModel.write_layers, is stated on idx_gen / idx_ass) *)
Theorem C18_reader_positions : forall K L k a,
  idx_gen K L k k a = idx K K L k k a /\ idx_ass K L k a = idx K 1 L k 0 a /\
  idx K K L k k a = a * K * K + k * K + k /\ idx K 1 L k 0 a = a * K + k.
Proof. exact reader_positions. Qed.
Print Assumptions C18_reader_positions.

(* the C = 1 layout differs from a column-major L x K matrix exactly when there are at least two groups and two layers *)
Theorem C18_assortative_layout_not_transposed :
  (forall K L, 2 <= K -> 2 <= L -> exists k a, k < K /\ a < L /\ idx K 1 L k 0 a <> a + k * L) /\
  (forall K L k a, k < K -> a < L -> (L = 1 \/ K = 1) -> idx K 1 L k 0 a = a + k * L).
Proof. split; [exact assortative_layout_not_transposed|exact assortative_layout_transposed_when_degenerate]. Qed.
Print Assumptions C18_assortative_layout_not_transposed.

(* non-vacuity *)
Example C18_ex : idx 2 3 2 1 2 1 = 11 /\ unidx 2 3 2 11 = (1, 2, 1) /\ 11 < 2 * 3 * 2.
Proof. vm_compute. repeat split; auto with arith. Qed.
