(* Properties_C14.v -- C14: initial-affinity file semantics.
   Reader (token level, CliModel.read_affinity, after the fix of the index arithmetic): for a file of L data lines `layer d_1 ... d_K`
   (comments and blank lines interleaved, layers in any order) the vector receives d_k at the flat position of (k,k,layer) --
   k + k*K + layer*K*K (general), k + layer*K (assortative) -- and is untouched elsewhere; any K >= 1, L >= 1.  Shape-mismatching
   files are rejected.  Start of a realization: cached file tensor + 0.1 x fresh draw per entry; the cache is taken at the first
   realization and never replaced, so every realization restarts from the file values (every arithmetic).
   Only statements; every proof is `exact <lemma>` (proofs live in the files imported below). *)
From Coq Require Import List NArith Bool Arith NArith ZArith Floats Reals.
Import ListNotations.
From MT Require Import Arith SweepModel Layout InitModel CtrlModel CliModel CliProofs InitProofs GraphModel MainModel CliModel CliProofs Mt19937 SeededModel CliMain CliMainProofs CliAffinityProofs GenParams FloatInst ParamFacts.

(* well-formed file: accepted, d_k lands at pos(k, layer), every other position keeps its value, the length is unchanged *)
Theorem C14_reader_positions : forall (num tokn : Type) (is_hash : tokn -> bool) (pnum : tokn -> option num)
         (puint : tokn -> option nat) (assort : bool) (lines : list (list tokn))
         (file : list (nat * list num)) (K : nat) (w : list num) (expectedK : nat) 
         (d : num),
       encodes num tokn is_hash pnum puint lines file ->
       file <> [] ->
       NoDup (map fst file) ->
       Forall (fun p : nat * list num => fst p < length file /\ length (snd p) = K) file ->
       1 <= K ->
       length w = aff_size assort K (length file) ->
       expectedK = 0 \/ expectedK = K ->
       exists w' : list num,
         read_affinity num tokn is_hash pnum puint assort lines w expectedK = AffOk num w' /\
         length w' = length w /\
         (forall (layer : nat) (ds : list num) (k : nat),
          In (layer, ds) file ->
          k < K -> nth (CliProofs.pos assort K (length file) k layer) w' d = nth k ds d) /\
         (forall p : nat,
          (forall a k : nat, a < length file -> k < K -> p <> CliProofs.pos assort K (length file) k a) ->
          nth p w' d = nth p w d).
Proof. exact read_affinity_accepts. Qed.
Print Assumptions C14_reader_positions.

Theorem C14_reader_general : forall (num tokn : Type) (is_hash : tokn -> bool) (pnum : tokn -> option num)
         (puint : tokn -> option nat) (lines : list (list tokn)) (file : list (nat * list num))
         (K : nat) (w : list num) (expectedK : nat) (d : num),
       encodes num tokn is_hash pnum puint lines file ->
       file <> [] ->
       NoDup (map fst file) ->
       Forall (fun p : nat * list num => fst p < length file /\ length (snd p) = K) file ->
       1 <= K ->
       length w = K * K * length file ->
       expectedK = 0 \/ expectedK = K ->
       exists w' : list num,
         read_affinity num tokn is_hash pnum puint false lines w expectedK = AffOk num w' /\
         length w' = length w /\
         (forall (layer : nat) (ds : list num) (k : nat),
          In (layer, ds) file -> k < K -> nth (idx_gen K (length file) k k layer) w' d = nth k ds d) /\
         (forall p : nat,
          (forall a k : nat, a < length file -> k < K -> p <> idx_gen K (length file) k k a) ->
          nth p w' d = nth p w d).
Proof. exact read_affinity_accepts_gen. Qed.
Print Assumptions C14_reader_general.

Theorem C14_reader_assortative : forall (num tokn : Type) (is_hash : tokn -> bool) (pnum : tokn -> option num)
         (puint : tokn -> option nat) (lines : list (list tokn)) (file : list (nat * list num))
         (K : nat) (w : list num) (expectedK : nat) (d : num),
       encodes num tokn is_hash pnum puint lines file ->
       file <> [] ->
       NoDup (map fst file) ->
       Forall (fun p : nat * list num => fst p < length file /\ length (snd p) = K) file ->
       1 <= K ->
       length w = K * length file ->
       expectedK = 0 \/ expectedK = K ->
       exists w' : list num,
         read_affinity num tokn is_hash pnum puint true lines w expectedK = AffOk num w' /\
         length w' = length w /\
         (forall (layer : nat) (ds : list num) (k : nat),
          In (layer, ds) file -> k < K -> nth (idx_ass K (length file) k layer) w' d = nth k ds d) /\
         (forall p : nat,
          p < K * length file ->
          exists (layer : nat) (ds : list num),
            In (layer, ds) file /\
            p = idx_ass K (length file) (p mod K) layer /\ nth p w' d = nth (p mod K) ds d).
Proof. exact read_affinity_accepts_ass. Qed.
Print Assumptions C14_reader_assortative.

(* a file whose numbers of columns differ between lines, or whose columns / layers do not match the expected size or K, or with an *)
(* invalid, out-of-range or repeated layer id, is rejected with an error *)
Theorem C14_reject : forall (num tokn : Type) (is_hash : tokn -> bool) (pnum : tokn -> option num)
         (puint : tokn -> option nat) (assort : bool) (lines : list (list tokn)) 
         (w : list num) (eK : nat),
       let dl := data_lines tokn is_hash lines in
       let K := hd 0 (counts num tokn pnum dl) in
       (exists l1 l2 : list tokn,
          In l1 dl /\
          In l2 dl /\
          length (take_nums num tokn pnum (tl l1)) <> length (take_nums num tokn pnum (tl l2))) \/
       K = 0 \/
       aff_size assort K (length dl) <> length w \/
       eK <> 0 /\ eK <> K \/
       (exists (t : tokn) (vs : list tokn), In (t :: vs) dl /\ puint t = None) \/
       (exists (t : tokn) (vs : list tokn) (a : nat),
          In (t :: vs) dl /\ puint t = Some a /\ length dl <= a) \/
       (exists
          (l1 l2 l3 : list (list tokn)) (t1 : tokn) (v1 : list tokn) (t2 : tokn) 
        (v2 : list tokn) (a : nat),
          dl = l1 ++ (t1 :: v1) :: l2 ++ (t2 :: v2) :: l3 /\ puint t1 = Some a /\ puint t2 = Some a) ->
       read_affinity num tokn is_hash pnum puint assort lines w eK = AffError num.
Proof. exact read_affinity_rejects. Qed.
Print Assumptions C14_reject.

(* conversely, acceptance implies every well-formedness condition *)
Theorem C14_accept_only_wellformed : forall (num tokn : Type) (is_hash : tokn -> bool) (pnum : tokn -> option num)
         (puint : tokn -> option nat) (assort : bool) (lines : list (list tokn)) 
         (w : list num) (eK : nat) (w' : list num),
       read_affinity num tokn is_hash pnum puint assort lines w eK = AffOk num w' ->
       let dl := data_lines tokn is_hash lines in
       let K := hd 0 (counts num tokn pnum dl) in
       Forall (fun c : nat => c = K) (counts num tokn pnum dl) /\
       K <> 0 /\
       aff_size assort K (length dl) = length w /\
       (eK = 0 \/ eK = K) /\
       (exists ids : list nat,
          Forall2
            (fun (l : list tokn) (a : nat) =>
             exists (t : tokn) (vs : list tokn), l = t :: vs /\ puint t = Some a) dl ids /\
          NoDup ids /\ Forall (fun a : nat => a < length dl) ids).
Proof. exact read_affinity_ok_inv. Qed.
Print Assumptions C14_accept_only_wellformed.

Theorem C14_no_out_of_range_write : forall (num tokn : Type) (is_hash : tokn -> bool) (pnum : tokn -> option num)
         (puint : tokn -> option nat) (assort : bool) (lines : list (list tokn)) 
         (w : list num) (eK : nat) (w' : list num),
       read_affinity num tokn is_hash pnum puint assort lines w eK = AffOk num w' ->
       length w' = length w.
Proof. exact read_affinity_length. Qed.
Print Assumptions C14_no_out_of_range_write.

(* start affinity = cached value + 0.1 x draw, entry by entry, each entry its own draw *)
Theorem C14_start_general : forall (num : Type) (A : Arith num) (K L : nat) (cache : list (list (list num))) (s : list num),
       (forall a : nat, a < L -> mshape num K K (nth a cache [])) ->
       let r := init_from_gen num A K L cache s in
       snd r = skipn (L * K * K) s /\
       length (fst r) = L /\
       (forall a : nat, a < L -> mshape num K K (nth a (fst r) [])) /\
       (forall k q a : nat,
        k < K ->
        q < K ->
        a < L ->
        tget num A (fst r) k q a =
        noisy num A (tget num A cache k q a) (dr num A s (a * K * K + k * K + q))).
Proof. exact init_from_gen_spec. Qed.
Print Assumptions C14_start_general.

Theorem C14_start_assortative : forall (num : Type) (A : Arith num) (K L : nat) (cache : list (list num)) (s : list num),
       (forall a : nat, a < L -> length (nth a cache []) = K) ->
       let r := init_from_ass num A K L cache s in
       snd r = skipn (L * K) s /\
       length (fst r) = L /\
       (forall a : nat, a < L -> length (nth a (fst r) []) = K) /\
       (forall k a : nat,
        k < K ->
        a < L -> dget num A (fst r) k a = noisy num A (dget num A cache k a) (dr num A s (a * K + k))).
Proof. exact init_from_ass_spec. Qed.
Print Assumptions C14_start_assortative.

(* once the cache is set (first realization) the caller's tensor -- which the swap may have replaced by an earlier realization's *)
(* result -- is ignored: every realization restarts from the file values *)
Theorem C14_restart_general : forall (num : Type) (A : Arith num) (K L : nat) (c T1 T2 : list (matrix num)) (s : list num),
       step_from_gen num A K L (Some c) T1 s = step_from_gen num A K L (Some c) T2 s.
Proof. exact step_from_gen_ignores_caller. Qed.
Print Assumptions C14_restart_general.

Theorem C14_restart_assortative : forall (num : Type) (A : Arith num) (K L : nat) (c T1 T2 : list (list num)) (s : list num),
       step_from_ass num A K L (Some c) T1 s = step_from_ass num A K L (Some c) T2 s.
Proof. exact step_from_ass_ignores_caller. Qed.
Print Assumptions C14_restart_assortative.

Theorem C14_cache_is_first_tensor : forall (num : Type) (A : Arith num) (K L : nat) (c : option (list (matrix num)))
         (T : list (matrix num)) (s : list num),
       fst (fst (step_from_gen num A K L c T s)) = Some (cache_of c T).
Proof. exact step_from_gen_cache. Qed.
Print Assumptions C14_cache_is_first_tensor.

(* the command line END TO END (CliMain.cli_main): with --w the library is called with from_init = true and exactly the vector the reader produced from the file, *)
(* and the result files are the serialisation of that call *)
Theorem C14_cli_with_affinity_file : forall (A : Arith float) (stoi : str -> option Z) (fs : str -> option (list byte)) 
         (now : Z) (tokenize : list byte -> list (list str)) (is_hash : str -> bool)
         (pnum : str -> option float) (puint : str -> option nat) (fmt fmt_int : float -> str)
         (fmt_nat : nat -> str) (fmt_N : N -> str) (fmt_Z : Z -> str) (word : nat -> str)
         (reason_name : reason -> str) (argv : list str) (c : cli_cfg) (items : list item) 
         (nl : bool) (wb : list byte) (w : list float) (sd : Z) (res : result float N),
       parse_options stoi argv = Some c ->
       c_wfile c <> [] ->
       fs (c_adj c) = Some (render_file items nl) ->
       Forall item_ok items ->
       fs (c_wfile c) = Some wb ->
       let starts := flat_map item_src items in
       let ends := flat_map item_tgt items in
       let weights := flat_map item_wts items in
       let nv := get_num_vertices N N.eqb starts ends in
       let L := match starts with
                | [] => 0
                | _ :: _ => length weights / length starts
                end in
       let K := c_K c in
       let size := if c_assort c then K * L else K * K * L in
       read_affinity float str is_hash pnum puint (c_assort c) (tokenize wb) (repeat (zero A) size) K =
       AffOk float w ->
       seed_of stoi now (c_seed c) = Some sd ->
       factorize_seeded A N N.eqb N N.to_nat (fun (_ _ : nat) (x : float) => x) 
         (c_directed c) (c_assort c) true starts ends weights (c_r c) (c_maxit c) 
         (c_nconv c) nv K (zeros float A nv K) (if c_directed c then zeros float A nv K else []) w sd =
       Ok float N res ->
       cli_main A stoi fs now tokenize is_hash pnum puint fmt fmt_int fmt_nat fmt_N fmt_Z word
         reason_name argv =
       CliOk (c_out c) (result_files A fmt fmt_int fmt_nat fmt_N fmt_Z word reason_name c nv L sd res).
Proof. exact cli_main_with_affinity_file. Qed.
Print Assumptions C14_cli_with_affinity_file.

(* a file whose number of values per line differs from --k, or whose number of layer lines differs from the number of layers of the adjacency data, *)
(* makes the command line end abnormally before anything is computed or written (stage 3) *)
Theorem C14_cli_mismatching_file_rejected : forall (A : Arith float) (stoi : str -> option Z) (fs : str -> option (list byte)) 
         (now : Z) (tokenize : list byte -> list (list str)) (is_hash : str -> bool)
         (pnum : str -> option float) (puint : str -> option nat) (fmt fmt_int : float -> str)
         (fmt_nat : nat -> str) (fmt_N : N -> str) (fmt_Z : Z -> str) (word : nat -> str)
         (reason_name : reason -> str) (argv : list str) (c : cli_cfg) (bytes : list byte)
         (starts ends weights : list N) (wb : list byte),
       parse_options stoi argv = Some c ->
       fs (c_adj c) = Some bytes ->
       parse_adjacency bytes = (starts, ends, weights) ->
       c_wfile c <> [] ->
       fs (c_wfile c) = Some wb ->
       let L := match starts with
                | [] => 0
                | _ :: _ => length weights / length starts
                end in
       let dl := data_lines str is_hash (tokenize wb) in
       ~ Forall (fun n : nat => n = c_K c) (counts float str pnum dl) \/ length dl <> L ->
       cli_main A stoi fs now tokenize is_hash pnum puint fmt fmt_int fmt_nat fmt_N fmt_Z word
         reason_name argv = CliThrow 3.
Proof. exact cli_main_mismatching_affinity_file_rejected_KL. Qed.
Print Assumptions C14_cli_mismatching_file_rejected.

(* conversely, whenever the command line completes with --w, the file had exactly K values on each of exactly L layer lines with distinct layer ids below L *)
Theorem C14_cli_accepts_only_matching_files : forall (A : Arith float) (stoi : str -> option Z) (fs : str -> option (list byte)) 
         (now : Z) (tokenize : list byte -> list (list str)) (is_hash : str -> bool)
         (pnum : str -> option float) (puint : str -> option nat) (fmt fmt_int : float -> str)
         (fmt_nat : nat -> str) (fmt_N : N -> str) (fmt_Z : Z -> str) (word : nat -> str)
         (reason_name : reason -> str) (argv : list str) (c : cli_cfg) (d : str)
         (fl : list (str * list (list str))),
       parse_options stoi argv = Some c ->
       c_wfile c <> [] ->
       cli_main A stoi fs now tokenize is_hash pnum puint fmt fmt_int fmt_nat fmt_N fmt_Z word
         reason_name argv = CliOk d fl ->
       exists (bytes : list byte) (starts ends weights : list N) (wb : list byte),
         fs (c_adj c) = Some bytes /\
         parse_adjacency bytes = (starts, ends, weights) /\
         fs (c_wfile c) = Some wb /\
         (let L := match starts with
                   | [] => 0
                   | _ :: _ => length weights / length starts
                   end in
          let dl := data_lines str is_hash (tokenize wb) in
          Forall (fun n : nat => n = c_K c) (counts float str pnum dl) /\
          c_K c <> 0 /\
          length dl = L /\
          L <> 0 /\
          (exists ids : list nat,
             Forall2
               (fun (l : list str) (a : nat) =>
                exists (t : str) (vs : list str), l = t :: vs /\ puint t = Some a) dl ids /\
             NoDup ids /\ Forall (fun a : nat => a < L) ids)).
Proof. exact cli_main_accepts_only_matching_affinity_files_strong. Qed.
Print Assumptions C14_cli_accepts_only_matching_files.

(* a file that cannot be opened: abnormal end *)
Theorem C14_cli_missing_file : forall (A : Arith float) (stoi : str -> option Z) (fs : str -> option (list byte)) 
         (now : Z) (tokenize : list byte -> list (list str)) (is_hash : str -> bool)
         (pnum : str -> option float) (puint : str -> option nat) (fmt fmt_int : float -> str)
         (fmt_nat : nat -> str) (fmt_N : N -> str) (fmt_Z : Z -> str) (word : nat -> str)
         (reason_name : reason -> str) (argv : list str) (c : cli_cfg) (bytes : list byte),
       parse_options stoi argv = Some c ->
       fs (c_adj c) = Some bytes ->
       c_wfile c <> [] ->
       fs (c_wfile c) = None ->
       cli_main A stoi fs now tokenize is_hash pnum puint fmt fmt_int fmt_nat fmt_N fmt_Z word
         reason_name argv = CliThrow 3.
Proof. exact cli_main_affinity_file_missing. Qed.
Print Assumptions C14_cli_missing_file.

(* the amplitude of the noise added to a user-supplied affinity, as it stands in params.hpp now: 0.1 (exactly the double nearest to 0.1 in the executed model) *)
Theorem C14_params : cxx_EPS_NOISE_R = (1 / 10)%R /\
       cxx_EPS_NOISE_F = 0.10000000000000001%float /\
       (forall lnf : float -> float, noise (ArithF lnf) = cxx_EPS_NOISE_F).
Proof. exact noise_is_one_tenth. Qed.
Print Assumptions C14_params.

