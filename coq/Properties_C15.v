(* Properties_C15.v -- C15: invalid configurations are rejected before anything is computed or written.
   validate = the chain of argument checks of multitensor_factorization, in source order; shape_consistent = the
   declarative list of the property.  Unbounded over all sizes (including the integer-square-root step).
   Only statements; every proof is `exact <lemma>` (proofs live in the files imported below). *)
From Coq Require Import List Arith Bool NArith ZArith Floats.
Import ListNotations.
From MT Require Import Arith SweepModel GraphModel InitModel CtrlModel MainModel MainProofs CliModel Mt19937 SeededModel CliMain CliMainProofs.

(* a request is accepted exactly when it is shape-consistent: non-empty edge list, equally long source/target lists, *)
(* weights a positive multiple L of the record count, K >= 2 with |affinity| = K*K*L (K*L assortative), N >= 2 distinct *)
(* vertices, an N x K out-membership container, r, maxit, nconv >= 1 -- every other request is rejected *)
Theorem C15_accept_iff : forall (label : Type) (leqb : label -> label -> bool) (wt : Type) (assort : bool)
         (starts ends : list label) (weights : list wt)
         (aff_size u_rows u_cols r maxit nconv L K N : nat),
       validate label leqb wt assort starts ends weights aff_size u_rows u_cols r maxit nconv =
       Accept L K N <->
       shape_consistent label leqb wt assort starts ends weights aff_size u_rows u_cols r maxit nconv L
         K N.
Proof. exact validate_accept_iff. Qed.
Print Assumptions C15_accept_iff.

Theorem C15_reject_iff : forall (label : Type) (leqb : label -> label -> bool) (wt : Type) (assort : bool)
         (starts ends : list label) (weights : list wt) (aff_size u_rows u_cols r maxit nconv : nat),
       (exists c : nat,
          validate label leqb wt assort starts ends weights aff_size u_rows u_cols r maxit nconv =
          Reject c) <->
       ~
       (exists L K N : nat,
          shape_consistent label leqb wt assort starts ends weights aff_size u_rows u_cols r maxit
            nconv L K N).
Proof. exact validate_reject_iff. Qed.
Print Assumptions C15_reject_iff.

(* which check fires: each error code <-> all earlier checks pass and this one fails (source order) *)
Theorem C15_reject_codes : forall (label : Type) (leqb : label -> label -> bool) (wt : Type) (assort : bool)
         (starts ends : list label) (weights : list wt) (aff_size u_rows u_cols r maxit nconv : nat),
       (validate label leqb wt assort starts ends weights aff_size u_rows u_cols r maxit nconv =
        Reject 1 <-> length starts < 1) /\
       (validate label leqb wt assort starts ends weights aff_size u_rows u_cols r maxit nconv =
        Reject 2 <-> 1 <= length starts /\ length ends <> length starts) /\
       (validate label leqb wt assort starts ends weights aff_size u_rows u_cols r maxit nconv =
        Reject 3 <->
        1 <= length starts /\ length ends = length starts /\ length weights mod length starts <> 0) /\
       (validate label leqb wt assort starts ends weights aff_size u_rows u_cols r maxit nconv =
        Reject 4 <->
        1 <= length starts /\
        length ends = length starts /\
        length weights mod length starts = 0 /\ length weights / length starts < 1) /\
       (validate label leqb wt assort starts ends weights aff_size u_rows u_cols r maxit nconv =
        Reject 5 <->
        1 <= length starts /\
        length ends = length starts /\
        length weights mod length starts = 0 /\
        1 <= cL label wt starts weights /\ cK label wt assort starts weights aff_size < 2) /\
       (validate label leqb wt assort starts ends weights aff_size u_rows u_cols r maxit nconv =
        Reject 6 <->
        1 <= length starts /\
        length ends = length starts /\
        length weights mod length starts = 0 /\
        1 <= cL label wt starts weights /\
        2 <= cK label wt assort starts weights aff_size /\
        (if assort
         then cK label wt assort starts weights aff_size * cL label wt starts weights
         else
          cK label wt assort starts weights aff_size * cK label wt assort starts weights aff_size *
          cL label wt starts weights) <> aff_size) /\
       (validate label leqb wt assort starts ends weights aff_size u_rows u_cols r maxit nconv =
        Reject 7 <->
        1 <= length starts /\
        length ends = length starts /\
        length weights mod length starts = 0 /\
        1 <= cL label wt starts weights /\
        2 <= cK label wt assort starts weights aff_size /\
        (if assort
         then cK label wt assort starts weights aff_size * cL label wt starts weights
         else
          cK label wt assort starts weights aff_size * cK label wt assort starts weights aff_size *
          cL label wt starts weights) = aff_size /\ cN label leqb starts ends < 2) /\
       (validate label leqb wt assort starts ends weights aff_size u_rows u_cols r maxit nconv =
        Reject 8 <->
        1 <= length starts /\
        length ends = length starts /\
        length weights mod length starts = 0 /\
        1 <= cL label wt starts weights /\
        2 <= cK label wt assort starts weights aff_size /\
        (if assort
         then cK label wt assort starts weights aff_size * cL label wt starts weights
         else
          cK label wt assort starts weights aff_size * cK label wt assort starts weights aff_size *
          cL label wt starts weights) = aff_size /\
        2 <= cN label leqb starts ends /\
        (u_rows, u_cols) <> (cN label leqb starts ends, cK label wt assort starts weights aff_size)) /\
       (validate label leqb wt assort starts ends weights aff_size u_rows u_cols r maxit nconv =
        Reject 9 <->
        1 <= length starts /\
        length ends = length starts /\
        length weights mod length starts = 0 /\
        1 <= cL label wt starts weights /\
        2 <= cK label wt assort starts weights aff_size /\
        (if assort
         then cK label wt assort starts weights aff_size * cL label wt starts weights
         else
          cK label wt assort starts weights aff_size * cK label wt assort starts weights aff_size *
          cL label wt starts weights) = aff_size /\
        2 <= cN label leqb starts ends /\
        (u_rows, u_cols) = (cN label leqb starts ends, cK label wt assort starts weights aff_size) /\
        r < 1) /\
       (validate label leqb wt assort starts ends weights aff_size u_rows u_cols r maxit nconv =
        Reject 10 <->
        1 <= length starts /\
        length ends = length starts /\
        length weights mod length starts = 0 /\
        1 <= cL label wt starts weights /\
        2 <= cK label wt assort starts weights aff_size /\
        (if assort
         then cK label wt assort starts weights aff_size * cL label wt starts weights
         else
          cK label wt assort starts weights aff_size * cK label wt assort starts weights aff_size *
          cL label wt starts weights) = aff_size /\
        2 <= cN label leqb starts ends /\
        (u_rows, u_cols) = (cN label leqb starts ends, cK label wt assort starts weights aff_size) /\
        1 <= r /\ maxit < 1) /\
       (validate label leqb wt assort starts ends weights aff_size u_rows u_cols r maxit nconv =
        Reject 11 <->
        1 <= length starts /\
        length ends = length starts /\
        length weights mod length starts = 0 /\
        1 <= cL label wt starts weights /\
        2 <= cK label wt assort starts weights aff_size /\
        (if assort
         then cK label wt assort starts weights aff_size * cL label wt starts weights
         else
          cK label wt assort starts weights aff_size * cK label wt assort starts weights aff_size *
          cL label wt starts weights) = aff_size /\
        2 <= cN label leqb starts ends /\
        (u_rows, u_cols) = (cN label leqb starts ends, cK label wt assort starts weights aff_size) /\
        1 <= r /\ 1 <= maxit /\ nconv < 1) /\
       (forall c : nat,
        validate label leqb wt assort starts ends weights aff_size u_rows u_cols r maxit nconv =
        Reject c -> 1 <= c <= 11).
Proof. exact validate_reject_code. Qed.
Print Assumptions C15_reject_codes.

(* the entry point returns the error WITHOUT a result (the model's Error carries no outputs: nothing is computed or *)
(* written) exactly when validation rejects ... *)
Theorem C15_error_before_anything : forall (num : Type) (A : Arith num) (label : Type) (leqb : label -> label -> bool) 
         (wt : Type) (countf : wt -> nat) (ovr : nat -> nat -> num -> num)
         (directed assort from_init : bool) (starts ends : list label) (weights : list wt)
         (r maxit nconv u_rows u_cols : nat) (u0 v0 : matrix num) (aff0 stream : list num) 
         (c : nat),
       factorize num A label leqb wt countf ovr directed assort from_init starts ends weights r maxit
         nconv u_rows u_cols u0 v0 aff0 stream = Error num label c <->
       validate label leqb wt assort starts ends weights (length aff0) u_rows u_cols r maxit nconv =
       Reject c.
Proof. exact factorize_error_iff. Qed.
Print Assumptions C15_error_before_anything.

(* ... and an accepted request never raises later *)
Theorem C15_accepted_never_fails : forall (num : Type) (A : Arith num) (label : Type) (leqb : label -> label -> bool) 
         (wt : Type) (countf : wt -> nat) (ovr : nat -> nat -> num -> num)
         (directed assort from_init : bool) (starts ends : list label) (weights : list wt)
         (r maxit nconv u_rows u_cols : nat) (u0 v0 : matrix num) (aff0 stream : list num)
         (L K N : nat),
       validate label leqb wt assort starts ends weights (length aff0) u_rows u_cols r maxit nconv =
       Accept L K N ->
       exists res : result num label,
         factorize num A label leqb wt countf ovr directed assort from_init starts ends weights r maxit
           nconv u_rows u_cols u0 v0 aff0 stream = Ok num label res.
Proof. exact factorize_accept_ok. Qed.
Print Assumptions C15_accepted_never_fails.

(* the command line (CliMain.cli_main): either an exception leaves main() -- no directory is created, no file written or altered -- or all result files are written *)
Theorem C15_cli_ends_abnormally_or_writes_all : forall (A : Arith float) (stoi : str -> option Z) (fs : str -> option (list byte)) 
         (now : Z) (tokenize : list byte -> list (list str)) (is_hash : str -> bool)
         (pnum : str -> option float) (puint : str -> option nat) (fmt fmt_int : float -> str)
         (fmt_nat : nat -> str) (fmt_N : N -> str) (fmt_Z : Z -> str) (word : nat -> str)
         (reason_name : reason -> str) (argv : list str),
       (exists st : nat,
          cli_main A stoi fs now tokenize is_hash pnum puint fmt fmt_int fmt_nat fmt_N fmt_Z word
            reason_name argv = CliThrow st /\ 1 <= st <= 5) \/
       (exists (d : str) (fl : list (str * list (list str))),
          cli_main A stoi fs now tokenize is_hash pnum puint fmt fmt_int fmt_nat fmt_N fmt_Z word
            reason_name argv = CliOk d fl).
Proof. exact cli_main_rejected_writes_nothing. Qed.
Print Assumptions C15_cli_ends_abnormally_or_writes_all.

(* and whenever the library rejects the request the command line takes the first branch (stage 5), whatever the options and files were *)
Theorem C15_cli_library_rejection : forall (A : Arith float) (stoi : str -> option Z) (fs : str -> option (list byte)) 
         (now : Z) (tokenize : list byte -> list (list str)) (is_hash : str -> bool)
         (pnum : str -> option float) (puint : str -> option nat) (fmt fmt_int : float -> str)
         (fmt_nat : nat -> str) (fmt_N : N -> str) (fmt_Z : Z -> str) (word : nat -> str)
         (reason_name : reason -> str) (argv : list str) (c : cli_cfg) (bytes : list byte)
         (starts ends weights : list N) (sd : Z) (code : nat),
       parse_options stoi argv = Some c ->
       fs (c_adj c) = Some bytes ->
       parse_adjacency bytes = (starts, ends, weights) ->
       c_wfile c = [] ->
       seed_of stoi now (c_seed c) = Some sd ->
       let nv := get_num_vertices N N.eqb starts ends in
       let L := match starts with
                | [] => 0
                | _ :: _ => length weights / length starts
                end in
       factorize_seeded A N N.eqb N N.to_nat (fun (_ _ : nat) (x : float) => x) 
         (c_directed c) (c_assort c) false starts ends weights (c_r c) (c_maxit c) 
         (c_nconv c) nv (c_K c) (zeros float A nv (c_K c))
         (if c_directed c then zeros float A nv (c_K c) else [])
         (repeat (zero A) (if c_assort c then c_K c * L else c_K c * c_K c * L)) sd =
       Error float N code ->
       cli_main A stoi fs now tokenize is_hash pnum puint fmt fmt_int fmt_nat fmt_N fmt_Z word
         reason_name argv = CliThrow 5.
Proof. exact cli_main_library_error. Qed.
Print Assumptions C15_cli_library_rejection.

