(* Properties_C13.v -- C13: command line = library -- every documented option takes effect, the files serialise the result.
   (1) the adjacency reader, modelled at BYTE level (CliModel.parse_adjacency: getline / trailing-blank erase / iostream extraction of
   unsigned integers with blank skipping and the 2^64 overflow check), returns exactly the records of ANY rendering the documented
   grammar allows: separators of blanks and tabs, indentation, trailing blanks, empty / blank-only / CR-only lines, LF or CRLF, with or
   without final newline -- unbounded in the number of records, layers and in the numbers (< 2^64).
   (2) the option block, the selection table, the call arguments and the writers, as they stand in multitensor.cpp NOW (translator T3).
   (3) the positions the affinity writer prints (T4) -- joins C18.  Not modelled: operator<<(double) (abstract fmt; realised by
   printf("%.6g") in the check) and the file system; the real binary is compared with the library on every run (K-WRITE).
   Only statements; every proof is `exact <lemma>` (proofs live in the files imported below). *)
From Coq Require Import List NArith Bool Arith String ZArith Floats.
Import ListNotations.
From MT Require Import Arith SweepModel Layout CliModel CliProofs GenCli GenCliIdx DispatchSpec CliDispatchProofs LayoutProofs SweepModel GraphModel InitModel CtrlModel MainModel Mt19937 SeededModel CliMain CliMainProofs FmtG FmtGProofs.

(* the reader inverts every well-formed rendering *)
Theorem C13_parse : forall (items : list item) (final_newline : bool),
       Forall item_ok items ->
       parse_adjacency (render_file items final_newline) =
       (flat_map item_src items, flat_map item_tgt items, flat_map item_wts items).
Proof. exact parse_render. Qed.
Print Assumptions C13_parse.

(* every option the help text documents is scanned, each from its own name, into the variable handed to the library *)
Theorem C13_options : cxx_cli_help_options = documented /\
       (forall o : string, In o documented -> In o parsed_opts) /\
       (forall p : string * string * string * string,
        In p cxx_cli_parsed_options -> fst (fst (fst p)) = snd p) /\
       cxx_cli_parsed_options =
       [("--k"%string, "nof_groups"%string, "stoi"%string, "--k"%string);
        ("--a"%string, "adjacency_filename"%string, "string"%string, "--a"%string);
        ("--w"%string, "affinity_filename"%string, "string"%string, "--w"%string);
        ("--undirected"%string, "directed_graph"%string, "false"%string, "--undirected"%string);
        ("--assortative"%string, "assortative"%string, "true"%string, "--assortative"%string);
        ("--o"%string, "output_directory"%string, "string"%string, "--o"%string);
        ("--r"%string, "nof_realizations"%string, "stoi"%string, "--r"%string);
        ("--s"%string, "seed"%string, "string"%string, "--s"%string);
        ("--maxit"%string, "max_nof_iterations"%string, "stoi"%string, "--maxit"%string);
        ("--y"%string, "nof_convergences"%string, "stoi"%string, "--y"%string)].
Proof. exact cli_options. Qed.
Print Assumptions C13_options.

(* the instantiation selected is the one (directed, assortative, affinity file) name; v is allocated exactly for directed runs; the *)
(* call passes the variables in the order of the library's formal parameters *)
Theorem C13_selection : forall directed assort file : bool,
       exists r : clirow,
         cli_selected directed assort file = [r] /\
         with_defaults (c_targs r) = expected_cli directed assort file /\
         c_vresize r = directed /\ c_args r = cxx_formal_parameters.
Proof. exact cli_dispatch. Qed.
Print Assumptions C13_selection.

Theorem C13_selection_expression : cxx_cli_selection =
       [("directed_graph"%string, 1); ("assortative"%string, 2); ("w_init_defined"%string, 4)] /\
       Datatypes.length cxx_cli_rows = 8.
Proof. exact cli_selection_expr. Qed.
Print Assumptions C13_selection_expression.

(* the four writers, their file names and arguments; the in-membership file only under `directed_graph`; data flow of --a, --w, --k, --s, --o *)
Theorem C13_files : cxx_cli_writers =
       [("write_info_file"%string, "INFO_FILENAME"%string, ""%string, "results"%string);
        ("write_affinity_file"%string, "WOUT_FILENAME"%string, ""%string,
         "affinity results nof_groups nof_layers"%string);
        ("write_membership_file"%string, "UOUT_FILENAME"%string, ""%string, "labels u results"%string);
        ("write_membership_file"%string, "VOUT_FILENAME"%string, "directed_graph"%string,
         "labels v results"%string)] /\
       cxx_cli_fact_adjacency_read = true /\
       cxx_cli_fact_affinity_read = true /\
       cxx_cli_fact_u_alloc = true /\
       cxx_cli_fact_seed_stoi = true /\
       cxx_cli_fact_rng_from_seed = true /\
       cxx_cli_fact_w_init_defined = true /\
       cxx_cli_fact_affinity_size = true /\ cxx_cli_fact_outdir = true.
Proof. exact cli_files. Qed.
Print Assumptions C13_files.

(* cmd_option_exists / get_cmd_option *)
Theorem C13_option_scan_exists : forall (str : Type) (seqb : str -> str -> bool) (argv : list str) (o : str),
       opt_exists str seqb argv o = true <-> (exists x : str, In x argv /\ seqb o x = true).
Proof. exact opt_exists_spec. Qed.
Print Assumptions C13_option_scan_exists.

Theorem C13_option_scan_value : forall (str : Type) (seqb : str -> str -> bool) (argv : list str) (o v : str),
       opt_value str seqb argv o = Some v <->
       (exists (pre : list str) (x : str) (post : list str),
          argv = pre ++ x :: v :: post /\
          seqb o x = true /\ Forall (fun y : str => seqb o y = false) pre).
Proof. exact opt_value_spec. Qed.
Print Assumptions C13_option_scan_value.

(* block a, row k, column q of the affinity file is entry (k,q,a) *)
Theorem C13_affinity_grid : forall K L k q a : nat, cxx_writer_idx_gen K L k q a = idx_gen K L k q a.
Proof. exact writer_gen_is_idx. Qed.
Print Assumptions C13_affinity_grid.

Theorem C13_affinity_grid_assortative : forall K L k a : nat, cxx_writer_idx_ass K L k a = idx_ass K L k a.
Proof. exact writer_ass_is_idx. Qed.
Print Assumptions C13_affinity_grid_assortative.

(* END TO END, on the one function that models main() (CliMain.cli_main, extracted and compared with the real binary token by token): *)
(* for every argument vector whose options parse, every well-formed rendering of every record list as the adjacency file, random initial affinity and a *)
(* numeric or `random` seed: if the library (as a function of the seed) returns res on the records, the front end writes exactly run_info.dat, w_out.dat, *)
(* u_out.dat (and v_out.dat iff directed) whose token grids are the serialisation of res -- labelled membership rows, K x K (K when assortative) affinity blocks *)
Theorem C13_end_to_end : forall (A : Arith float) (stoi : str -> option Z) (fs : str -> option (list byte)) 
         (now : Z) (tokenize : list byte -> list (list str)) (is_hash : str -> bool)
         (pnum : str -> option float) (puint : str -> option nat) (fmt fmt_int : float -> str)
         (fmt_nat : nat -> str) (fmt_N : N -> str) (fmt_Z : Z -> str) (word : nat -> str)
         (reason_name : reason -> str) (argv : list str) (c : cli_cfg) (items : list item) 
         (nl : bool) (sd : Z) (res : result float N),
       parse_options stoi argv = Some c ->
       c_wfile c = [] ->
       fs (c_adj c) = Some (render_file items nl) ->
       Forall item_ok items ->
       c_seed c = s_random /\ sd = now \/ c_seed c <> s_random /\ stoi (c_seed c) = Some sd ->
       let starts := flat_map item_src items in
       let ends := flat_map item_tgt items in
       let weights := flat_map item_wts items in
       let nv := get_num_vertices N N.eqb starts ends in
       let L :=
         match starts with
         | [] => 0
         | _ :: _ => Datatypes.length weights / Datatypes.length starts
         end in
       factorize_seeded A N N.eqb N N.to_nat (fun (_ _ : nat) (x : float) => x) 
         (c_directed c) (c_assort c) false starts ends weights (c_r c) (c_maxit c) 
         (c_nconv c) nv (c_K c) (zeros float A nv (c_K c))
         (if c_directed c then zeros float A nv (c_K c) else [])
         (repeat (zero A) (if c_assort c then c_K c * L else c_K c * c_K c * L)) sd = 
       Ok float N res ->
       let best := max_L2 float A (map snd (r_rep float N res)) in
       let labels := map fmt_N (r_labels float N res) in
       let head := header fmt_int fmt_nat word best (Datatypes.length (r_rep float N res)) in
       cli_main A stoi fs now tokenize is_hash pnum puint fmt fmt_int fmt_nat fmt_N fmt_Z word
         reason_name argv =
       CliOk (c_out c)
         ([(f_info, info_rows A fmt fmt_nat fmt_Z word reason_name sd (r_rep float N res));
           (f_w, head :: affinity_rows float A str fmt fmt_nat word (r_aff float N res) (c_K c) L);
           (f_u, head :: membership_rows float A str fmt word labels (r_u float N res) nv (c_K c))] ++
          (if c_directed c
           then
            [(f_v, head :: membership_rows float A str fmt word labels (r_v float N res) nv (c_K c))]
           else [])).
Proof. exact cli_main_is_library_files. Qed.
Print Assumptions C13_end_to_end.

(* which files: the in-membership file exactly for directed runs *)
Theorem C13_files_written : forall (A : Arith float) (stoi : str -> option Z) (fs : str -> option (list byte)) 
         (now : Z) (tokenize : list byte -> list (list str)) (is_hash : str -> bool)
         (pnum : str -> option float) (puint : str -> option nat) (fmt fmt_int : float -> str)
         (fmt_nat : nat -> str) (fmt_N : N -> str) (fmt_Z : Z -> str) (word : nat -> str)
         (reason_name : reason -> str) (argv : list str) (d : str) (fl : list (str * list (list str))),
       cli_main A stoi fs now tokenize is_hash pnum puint fmt fmt_int fmt_nat fmt_N fmt_Z word
         reason_name argv = CliOk d fl ->
       map fst fl = [f_info; f_w; f_u] ++ (if negb (has argv s_undirected) then [f_v] else []).
Proof. exact cli_main_files_written. Qed.
Print Assumptions C13_files_written.

(* the result depends on the argument vector only through, for each of the ten option names, whether it occurs and what follows its first occurrence *)
Theorem C13_option_order_irrelevant : forall (A : Arith float) (stoi : str -> option Z) (fs : str -> option (list byte)) 
         (now : Z) (tokenize : list byte -> list (list str)) (is_hash : str -> bool)
         (pnum : str -> option float) (puint : str -> option nat) (fmt fmt_int : float -> str)
         (fmt_nat : nat -> str) (fmt_N : N -> str) (fmt_Z : Z -> str) (word : nat -> str)
         (reason_name : reason -> str) (argv argv' : list str),
       same_options argv argv' ->
       cli_main A stoi fs now tokenize is_hash pnum puint fmt fmt_int fmt_nat fmt_N fmt_Z word
         reason_name argv =
       cli_main A stoi fs now tokenize is_hash pnum puint fmt fmt_int fmt_nat fmt_N fmt_Z word
         reason_name argv'.
Proof. exact cli_main_same_options. Qed.
Print Assumptions C13_option_order_irrelevant.

(* --o names the directory written to *)
Theorem C13_output_directory : forall (A : Arith float) (stoi : str -> option Z) (fs : str -> option (list byte)) 
         (now : Z) (tokenize : list byte -> list (list str)) (is_hash : str -> bool)
         (pnum : str -> option float) (puint : str -> option nat) (fmt fmt_int : float -> str)
         (fmt_nat : nat -> str) (fmt_N : N -> str) (fmt_Z : Z -> str) (word : nat -> str)
         (reason_name : reason -> str) (argv : list str) (d : str) (fl : list (str * list (list str)))
         (c : cli_cfg),
       cli_main A stoi fs now tokenize is_hash pnum puint fmt fmt_int fmt_nat fmt_N fmt_Z word
         reason_name argv = CliOk d fl -> parse_options stoi argv = Some c -> d = c_out c.
Proof. exact cli_main_outdir. Qed.
Print Assumptions C13_output_directory.

(* "to 6 significant digits": for EVERY finite non-zero binary64 value m * 2^e the digits the model's writer prints (FmtG.fmt_g6 = operator<< with precision 6, *)
(* compared with the real writers by K-WRITE(unit)) are the value correctly rounded to six significant decimal digits, ties to even, with the true decimal *)
(* exponent (fmt_digits_spec: X0 is the decimal exponent, 100000 <= D <= 999999, D is a nearest integer to the value scaled by 10^(5-X)) *)
Theorem C13_six_significant_digits : forall (m : positive) (e : Z),
       (Z.pos m < 2 ^ 53)%Z ->
       (-1074 <= e <= 971)%Z -> fmt_digits_spec (fst (b64_frac m e)) (snd (b64_frac m e)).
Proof. exact fmt_digits_correct_b64. Qed.
Print Assumptions C13_six_significant_digits.

(* the rounding step alone, for any positive rational p/q and any exponent *)
Theorem C13_rounding_half_unit : forall p q X : Z,
       (0 < p)%Z ->
       (0 < q)%Z ->
       let
       '(nn, dd) := scaled p q X in
        let D := round6 p q X in
        (0 < nn)%Z /\
        (0 < dd)%Z /\
        (2 * Z.abs (nn - D * dd) <= dd)%Z /\ ((2 * Z.abs (nn - D * dd))%Z = dd -> Z.even D = true).
Proof. exact round6_half_unit. Qed.
Print Assumptions C13_rounding_half_unit.

