(* GuardUpdate.v -- comparison operators of the guards of the three update functions (C02) *)
From Coq Require Import List String Bool.
Import ListNotations.
From MT Require Import GenGuards GuardDefs.
Local Open Scope string_scope.

Lemma update_guards :
  map (fun r => (g_lhs r, g_op r)) (filter is_update cxx_guards) =
  [("Z", ">"); ("mat_to_update_old(i, k)", ">"); ("Zij_a", ">"); ("std::abs(mat_to_update(i, k))", "<");
   ("Z_kq", ">"); ("w_old(k, a)", ">"); ("Zij_a", ">"); ("std::abs(w(k, a))", "<");
   ("Z_kq", ">"); ("w_old(k, q, a)", ">"); ("Zij_a", ">"); ("std::abs(w(k, q, a))", "<")].
Proof. reflexivity. Qed.
