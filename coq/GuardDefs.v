(* GuardDefs.v -- the comparison OPERATORS of the documented guards, as they stand in solver.hpp / graph.hpp now
   (GenGuards.v, translator T6).  The bit-exact correspondence cannot tell `<` from `<=` when no generated case lands exactly
   on the threshold; these finite facts pin the operators textually. *)
From Coq Require Import List String Bool.
Import ListNotations.
From MT Require Import GenGuards.
Local Open Scope string_scope.

Definition g_file (r : string * string * string * string) := fst (fst (fst r)).
Definition g_lhs (r : string * string * string * string) := snd (fst (fst r)).
Definition g_op (r : string * string * string * string) := snd (fst r).
Definition g_const (r : string * string * string * string) := snd r.

Definition is_lik (r : string * string * string * string) : bool := String.eqb (g_lhs r) "log_arg".
Definition is_conv (r : string * string * string * string) : bool := String.eqb (g_const r) "EPS_PRECISION_LIKELIHOOD".
Definition is_weight (r : string * string * string * string) : bool := String.eqb (g_file r) "graph.hpp".
Definition is_update (r : string * string * string * string) : bool := negb (is_lik r) && negb (is_conv r) && negb (is_weight r).

