(* Properties_C06.v -- C06: the reported likelihood is the Poisson log-likelihood of the factors at the last evaluation.
   Formula: ArithR (exact reals): the triple loop of calculate_likelyhood (subtract every term, add A ln(M) for observed pairs whose
   log argument exceeds 1e-6, parallel edges counted by scanning the out-list) equals sum_a sum_ij A ln M - M.  Cadence: every
   arithmetic: the value reported for a realization of n sweeps is the likelihood of the state after sweep 10*floor((n-1)/10)+1.
   Only statements; every proof is `exact <lemma>` (proofs live in the files imported below). *)
From Coq Require Import Arith List Bool Reals Floats.
Import ListNotations.
From MT Require Import Arith J SweepModel RInst Spec InitModel CtrlModel CtrlSpec CtrlProofs LikProofs.
Local Open Scope R_scope.

(* whenever every observed pair has rate > 1e-6: the likelihood is sum_a sum_ij A_ija ln M_ija - M_ija with A the number of *)
(* parallel edges (count of j in the out-list of i: both orientations, a self-loop twice, when undirected: see C08) -- directed and *)
(* undirected (one membership matrix in both roles) *)
Theorem C06_formula_general : forall (N K L : nat) (directed : bool) (G : graph) (u v : matrix R) (w : list (matrix R)),
       (forall a i j : nat,
        (a < L)%nat ->
        (i < N)%nat ->
        (j < N)%nat ->
        (0 < Acount (gout G) a i j)%nat ->
        epsR < rate_gen K u (if directed then v else u) (tget R ArithR w) i j a) ->
       lik_gen_state R ArithR N K L directed G (u, v, w) =
       LLspec N L (gout G) (rate_gen K u (if directed then v else u) (tget R ArithR w)).
Proof. exact lik_gen_state_formula. Qed.
Print Assumptions C06_formula_general.

Theorem C06_formula_assortative : forall (N K L : nat) (directed : bool) (G : graph) (u v : matrix R) (w : list (list R)),
       (forall a i j : nat,
        (a < L)%nat ->
        (i < N)%nat ->
        (j < N)%nat ->
        (0 < Acount (gout G) a i j)%nat ->
        epsR < rate_ass K u (if directed then v else u) (dget R ArithR w) i j a) ->
       lik_ass_state R ArithR N K L directed G (u, v, w) =
       LLspec N L (gout G) (rate_ass K u (if directed then v else u) (dget R ArithR w)).
Proof. exact lik_ass_state_formula. Qed.
Print Assumptions C06_formula_assortative.

(* in general: pairs at or below 1e-6 contribute only -M (LLguard: the log term is guarded by eps < M on observed pairs) *)
Theorem C06_general_form : forall (N K L : nat) (directed : bool) (G : graph) (u v : matrix R) (w : list (matrix R)),
       lik_gen_state R ArithR N K L directed G (u, v, w) =
       LLguard N L (gout G) (rate_gen K u (if directed then v else u) (tget R ArithR w)).
Proof. exact lik_gen_state_closed. Qed.
Print Assumptions C06_general_form.

Theorem C06_general_form_assortative : forall (N K L : nat) (directed : bool) (G : graph) (u v : matrix R) (w : list (list R)),
       lik_ass_state R ArithR N K L directed G (u, v, w) =
       LLguard N L (gout G) (rate_ass K u (if directed then v else u) (dget R ArithR w)).
Proof. exact lik_ass_state_closed. Qed.
Print Assumptions C06_general_form_assortative.

(* the reported L2 (ls_L2 of the final loop state) is Lseq ((n-1)/10) = likf (10*j) (state after sweep 10*j+1) with j = floor((n-1)/10): *)
(* the final factors whenever the run stops on an evaluation (in particular on CONVERGED, where n = 10*j+1) *)
Theorem C06_cadence : forall (num : Type) (A : Arith num) (W : Type)
         (sweepf : matrix num * matrix num * W -> matrix num * matrix num * W)
         (likf : nat -> nat -> matrix num * matrix num * W -> num) (r maxit nconv : nat)
         (s0 : matrix num * matrix num * W),
       (1 <= maxit)%nat ->
       (1 <= nconv)%nat ->
       let
       '(c, rs) :=
        realization num A W sweepf likf maxit r maxit nconv
          {| ls_s := s0; ls_it := 0; ls_coin := 0; ls_L2 := lowest A |} in
        let
        '(n, rs') := run_ctrl maxit nconv (passes num A W sweepf likf r s0) maxit 0 0 in
         ls_it c = n /\
         rs = rs' /\
         ls_s c = iter_sweep num W sweepf n s0 /\
         ls_L2 c = Lseq num W sweepf likf r s0 ((n - 1) / 10) /\ rs <> NoTerm.
Proof. exact realization_spec. Qed.
Print Assumptions C06_cadence.

