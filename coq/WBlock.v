From Coq Require Import Reals List Lra Lia Arith Bool.
Import ListNotations.
From MT Require Import Arith J MM SweepModel RInst SumLib.
Local Open Scope R_scope.

Lemma sumR_mul_sum {A B} (f : A -> R) (h : B -> R) la lb :
  sumR f la * sumR h lb = sumR (fun a => sumR (fun b => f a * h b) lb) la.
Proof.
  rewrite Rmult_comm, <- sumR_scal. apply sumR_ext. intros a _. rewrite Rmult_comm, <- sumR_scal. reflexivity.
Qed.

Section WBlock.
  Variables (N K L : nat) (adj : nat -> nat -> list nat) (ul vl : list nat).
  Variables (u v : matrix R) (w : nat -> nat -> nat -> R).
  Notation g := (mget R ArithR).

  Hypothesis u_nonneg : forall i k, 0 <= g u i k.
  Hypothesis v_nonneg : forall j q, 0 <= g v j q.
  Hypothesis w_nonneg : forall k q a, 0 <= w k q a.
  Hypothesis ul_nodup : NoDup ul.
  Hypothesis vl_nodup : NoDup vl.
  Hypothesis ul_lt : forall i, In i ul -> (i < N)%nat.
  Hypothesis vl_lt : forall j, In j vl -> (j < N)%nat.
  Hypothesis u_zero_rows : forall i k, (i < N)%nat -> ~ In i ul -> g u i k = 0.
  Hypothesis v_zero_rows : forall j q, (j < N)%nat -> ~ In j vl -> g v j q = 0.

  (* dense quantities, as functions of the affinity x *)
  Definition Mw (x : nat -> nat -> nat -> R) (i j a : nat) : R :=
    sumR (fun k => sumR (fun q => g u i k * g v j q * x k q a) (seq 0 K)) (seq 0 K).
  Definition Du (k : nat) : R := sumR (fun i => g u i k) (seq 0 N).
  Definition Dv (q : nat) : R := sumR (fun j => g v j q) (seq 0 N).
  Definition wedges : list (nat * nat * nat) :=
    flat_map (fun a => flat_map (fun i => map (fun j => (a, i, j)) (adj a i)) (seq 0 N)) (seq 0 L).
  Definition LLw (x : nat -> nat -> nat -> R) : R :=
    sumR (fun e => let '(a, i, j) := e in Rpower.ln (Mw x i j a)) wedges
    - sumR (fun a => sumR (fun i => sumR (fun j => Mw x i j a) (seq 0 N)) (seq 0 N)) (seq 0 L).

  (* closed form of the code's new entry *)
  Definition wnum (k q a : nat) : R :=
    sumR (fun i => g u i k * sumR (fun j => if Rltb epsR (Mw w i j a) then g v j q / Mw w i j a else 0) (adj a i)) (seq 0 N).

  Lemma Zij_w_R i j a : Zij_w R ArithR K u v w i j a = Mw w i j a.
  Proof.
    unfold Zij_w, Mw, ks.
    assert (H : forall l init, fold_left (fun s m => acc R ArithR (seq 0 K) (fun l0 => g u i m * g v j l0 * w m l0 a) s) l init
                 = init + sumR (fun m => sumR (fun l0 => g u i m * g v j l0 * w m l0 a) (seq 0 K)) l).
    { induction l as [|m l IH]; intros init; simpl; [lra|]. rewrite IH, acc_sum. lra. }
    rewrite H. simpl. lra.
  Qed.

  Lemma new_w_R k q a :
    new_w_gen R ArithR N K adj ul vl u v w k q a =
      if Rltb epsR (Du k * Dv q) then
        if Rltb epsR (w k q a) then trunc R ArithR (w k q a / (Du k * Dv q) * wnum k q a) else w k q a
      else w k q a.
  Proof.
    unfold new_w_gen. cbv zeta. rewrite !acc_sum, !Rplus_0_l.
    assert (HDu : sumR (fun i => g u i k) ul = Du k).
    { apply sumR_sublist_dense; auto. }
    assert (HDv : sumR (fun i => g v i q) vl = Dv q).
    { apply sumR_sublist_dense; auto. }
    rewrite HDu, HDv.
    assert (Hn : sumR (fun i => mul ArithR (g u i k)
                (fold_left (fun r j => let Zij := Zij_w R ArithR K u v w i j a in
                   if ltb ArithR (eps ArithR) Zij then add ArithR r (div ArithR (g v j q) Zij) else r) (adj a i) (zero ArithR))) (vertices N)
             = wnum k q a).
    { unfold wnum, vertices. apply sumR_ext. intros i _. simpl. f_equal.
      rewrite (fold_guard_sum (adj a i) (fun j => Rltb epsR (Zij_w R ArithR K u v w i j a)) (fun j => g v j q / Zij_w R ArithR K u v w i j a)).
      rewrite Rplus_0_l. apply sumR_ext. intros j _. rewrite Zij_w_R. reflexivity. }
    simpl in Hn |- *. rewrite Hn. reflexivity.
  Qed.

  (* --- clean step hypotheses --- *)
  Hypothesis adj_lt : forall a i j, (a < L)%nat -> (i < N)%nat -> In j (adj a i) -> (j < N)%nat.
  Hypothesis clean_rates : forall a i j, (a < L)%nat -> (i < N)%nat -> In j (adj a i) -> epsR < Mw w i j a.
  Definition w' (k q a : nat) : R := new_w_gen R ArithR N K adj ul vl u v w k q a.

  (* --- MM instance: coordinates ((k,q),a) --- *)
  Definition wcs : list (nat * nat * nat) := list_prod (list_prod (seq 0 K) (seq 0 K)) (seq 0 L).
  Definition wb (e : nat * nat * nat) (c : nat * nat * nat) : R :=
    let '(a, i, j) := e in let '(k, q, a') := c in if Nat.eqb a a' then g u i k * g v j q else 0.
  Definition wB (c : nat * nat * nat) : R := let '(k, q, _) := c in Du k * Dv q.
  Definition wx (x : nat -> nat -> nat -> R) (c : nat * nat * nat) : R := let '(k, q, a) := c in x k q a.
  Definition wupd (c : nat * nat * nat) : bool :=
    let '(k, q, a) := c in Rltb epsR (Du k * Dv q) && Rltb epsR (w k q a).

  Lemma in_wedges e : In e wedges -> let '(a, i, j) := e in (a < L)%nat /\ (i < N)%nat /\ In j (adj a i).
  Proof.
    unfold wedges. intros H. apply in_flat_map in H. destruct H as [a [Ha H]]. apply in_flat_map in H.
    destruct H as [i [Hi H]]. apply in_map_iff in H. destruct H as [j [<- Hj]].
    apply in_seq in Ha. apply in_seq in Hi. repeat split; try lia; assumption.
  Qed.
  Lemma wedges_in a i j : (a < L)%nat -> (i < N)%nat -> In j (adj a i) -> In (a, i, j) wedges.
  Proof.
    intros Ha Hi Hj. unfold wedges. apply in_flat_map. exists a. split; [apply in_seq; lia|].
    apply in_flat_map. exists i. split; [apply in_seq; lia|]. apply in_map. exact Hj.
  Qed.

  Lemma sum_wcs (f : nat * nat * nat -> R) :
    sumR f wcs = sumR (fun k => sumR (fun q => sumR (fun a => f (k, q, a)) (seq 0 L)) (seq 0 K)) (seq 0 K).
  Proof. unfold wcs. rewrite sumR_list_prod, sumR_list_prod. reflexivity. Qed.

  Lemma wrate_is_M (x : nat -> nat -> nat -> R) e : In e wedges -> let '(a, i, j) := e in rate wcs wb (wx x) e = Mw x i j a.
  Proof.
    intros He. pose proof (in_wedges e He) as H. destruct e as [[a i] j]. destruct H as [Ha [Hi Hj]].
    unfold rate. rewrite sum_wcs. unfold Mw. apply sumR_ext. intros k _. apply sumR_ext. intros q _.
    unfold wx, wb.
    transitivity (sumR (fun a' => if Nat.eqb a a' then x k q a' * (g u i k * g v j q) else 0) (seq 0 L)).
    { apply sumR_ext. intros a' _. destruct (Nat.eqb a a'); ring. }
    rewrite (sumR_delta (fun a' => x k q a' * (g u i k * g v j q)) a L Ha). ring.
  Qed.

  Lemma Du_nonneg k : 0 <= Du k. Proof. apply sumR_nonneg. intros; auto. Qed.
  Lemma Dv_nonneg q : 0 <= Dv q. Proof. apply sumR_nonneg. intros; auto. Qed.

  Lemma wF_is_LL (x : nat -> nat -> nat -> R) : F wcs wedges wb wB (wx x) = LLw x.
  Proof.
    unfold F, LLw. f_equal.
    - apply sumR_ext. intros e He. pose proof (wrate_is_M x e He) as H. destruct e as [[a i] j]. rewrite H. reflexivity.
    - rewrite sum_wcs. unfold wx, wB.
      (* sum_k sum_q sum_a x Du Dv = sum_a sum_i sum_j sum_k sum_q u v x *)
      transitivity (sumR (fun a => sumR (fun k => sumR (fun q => x k q a * (Du k * Dv q)) (seq 0 K)) (seq 0 K)) (seq 0 L)).
      { transitivity (sumR (fun k => sumR (fun a => sumR (fun q => x k q a * (Du k * Dv q)) (seq 0 K)) (seq 0 L)) (seq 0 K)).
        - apply sumR_ext. intros k _. rewrite sumR_swap. reflexivity.
        - rewrite sumR_swap. reflexivity. }
      apply sumR_ext. intros a _. unfold Mw.
      transitivity (sumR (fun k => sumR (fun q => sumR (fun i => sumR (fun j => g u i k * g v j q * x k q a) (seq 0 N)) (seq 0 N)) (seq 0 K)) (seq 0 K)).
      { apply sumR_ext. intros k _. apply sumR_ext. intros q _. unfold Du, Dv.
        rewrite sumR_mul_sum, <- sumR_scal. apply sumR_ext. intros i _. rewrite <- sumR_scal. apply sumR_ext. intros j _. ring. }
      (* reorder k q i j -> i j k q *)
      transitivity (sumR (fun k => sumR (fun i => sumR (fun q => sumR (fun j => g u i k * g v j q * x k q a) (seq 0 N)) (seq 0 K)) (seq 0 N)) (seq 0 K)).
      { apply sumR_ext. intros k _. rewrite sumR_swap. reflexivity. }
      rewrite sumR_swap. apply sumR_ext. intros i _.
      transitivity (sumR (fun k => sumR (fun j => sumR (fun q => g u i k * g v j q * x k q a) (seq 0 K)) (seq 0 N)) (seq 0 K)).
      { apply sumR_ext. intros k _. rewrite sumR_swap. reflexivity. }
      rewrite sumR_swap. reflexivity.
  Qed.

  Lemma wresp_is_num k q a : (a < L)%nat ->
    resp wcs wedges wb (wx w) (k, q, a) = w k q a * wnum k q a.
  Proof.
    intros Ha. unfold resp, wedges, wnum. rewrite sumR_flat_map.
    transitivity (sumR (fun a' => if Nat.eqb a a' then w k q a * sumR (fun i => g u i k * sumR (fun j =>
                     if Rltb epsR (Mw w i j a) then g v j q / Mw w i j a else 0) (adj a i)) (seq 0 N) else 0) (seq 0 L)).
    { apply sumR_ext. intros a' Ha'. apply in_seq in Ha'. rewrite sumR_flat_map.
      destruct (Nat.eqb a a') eqn:E.
      - apply Nat.eqb_eq in E. subst a'. rewrite <- sumR_scal. apply sumR_ext. intros i Hi. apply in_seq in Hi.
        rewrite sumR_map. rewrite <- Rmult_assoc, <- sumR_scal.
        apply sumR_ext. intros j Hj.
        assert (He : In (a, i, j) wedges) by (apply wedges_in; try lia; exact Hj).
        unfold rho. pose proof (wrate_is_M w (a, i, j) He) as Hr. cbn in Hr. rewrite Hr.
        assert (Hc : epsR < Mw w i j a) by (apply clean_rates; try lia; exact Hj).
        replace (Rltb epsR (Mw w i j a)) with true by (symmetry; apply Rltb_true; exact Hc).
        unfold wx, wb. rewrite Nat.eqb_refl. unfold Rdiv. ring.
      - transitivity (sumR (fun _ : nat => 0) (seq 0 N)); [|apply sumR_zero]. apply sumR_ext. intros i _.
        rewrite sumR_map. transitivity (sumR (fun _ : nat => 0) (adj a' i)); [|apply sumR_zero]. apply sumR_ext. intros j _.
        unfold rho, wb, wx. rewrite Nat.eqb_sym, E. unfold Rdiv. ring. }
    rewrite (sumR_delta (fun _ => w k q a * sumR (fun i => g u i k * sumR (fun j => if Rltb epsR (Mw w i j a) then g v j q / Mw w i j a else 0) (adj a i)) (seq 0 N)) a L Ha).
    reflexivity.
  Qed.

  Hypothesis clean_trunc : forall k q a, (k < K)%nat -> (q < K)%nat -> (a < L)%nat ->
    let x := w k q a / (Du k * Dv q) * wnum k q a in trunc R ArithR x = x.

  Lemma wcode_is_mm c : In c wcs -> wx w' c = x' wcs wedges wb wB (wx w) wupd c.
  Proof.
    intros Hc. destruct c as [[k q] a]. unfold wcs in Hc. apply in_prod_iff in Hc. destruct Hc as [Hkq Ha].
    apply in_prod_iff in Hkq. destruct Hkq as [Hk Hq]. apply in_seq in Hk. apply in_seq in Hq. apply in_seq in Ha.
    change (wx w' (k, q, a)) with (w' k q a). unfold w'. rewrite new_w_R. unfold x'.
    change (wupd (k, q, a)) with (Rltb epsR (Du k * Dv q) && Rltb epsR (w k q a))%bool.
    change (wx w (k, q, a)) with (w k q a). change (wB (k, q, a)) with (Du k * Dv q).
    destruct (Rltb epsR (Du k * Dv q)) eqn:EB; cbn [andb]; [|reflexivity].
    destruct (Rltb epsR (w k q a)) eqn:Ew; [|reflexivity].
    pose proof (clean_trunc k q a ltac:(lia) ltac:(lia) ltac:(lia)) as Ht. cbv zeta in Ht. rewrite Ht.
    rewrite (wresp_is_num k q a ltac:(lia)). apply Rltb_true in EB. unfold epsR in EB.
    field; repeat split; intro H0; rewrite H0 in EB; rewrite ?Rmult_0_l, ?Rmult_0_r in EB; lra.
  Qed.

  Theorem w_block_ascent : LLw w <= LLw w' /\
     (forall a i j, (a < L)%nat -> (i < N)%nat -> In j (adj a i) -> 0 < Mw w' i j a).
  Proof.
    assert (Hb : forall e c, In e wedges -> In c wcs -> 0 <= wb e c).
    { intros [[a i] j] [[k q] a'] _ _. unfold wb. destruct (Nat.eqb a a'); [apply Rmult_le_pos; auto|lra]. }
    assert (Hx : forall c, In c wcs -> 0 <= wx w c) by (intros [[k q] a] _; apply w_nonneg).
    assert (HB : forall c, In c wcs -> wupd c = true -> 0 < wB c).
    { intros [[k q] a] _ H. unfold wupd in H. apply andb_prop in H. destruct H as [H _].
      apply Rltb_true in H. unfold wB, epsR in *. lra. }
    assert (Hr : forall e, In e wedges -> 0 < rate wcs wb (wx w) e).
    { intros e He. pose proof (wrate_is_M w e He) as H. pose proof (in_wedges e He) as H2. destruct e as [[a i] j].
      rewrite H. destruct H2 as [Ha [Hi Hj]]. pose proof (clean_rates a i j Ha Hi Hj). unfold epsR in *. lra. }
    assert (Hagree : forall c, In c wcs -> wx w' c = x' wcs wedges wb wB (wx w) wupd c) by (apply wcode_is_mm).
    assert (HF : F wcs wedges wb wB (wx w') = F wcs wedges wb wB (x' wcs wedges wb wB (wx w) wupd)).
    { unfold F, rate. f_equal.
      - apply sumR_ext. intros e _. f_equal. apply sumR_ext. intros c Hc. rewrite Hagree by exact Hc. reflexivity.
      - apply sumR_ext. intros c Hc. rewrite Hagree by exact Hc. reflexivity. }
    split.
    - rewrite <- !wF_is_LL. rewrite HF. apply mm_ascent; assumption.
    - intros a i j Ha Hi Hj.
      pose proof (wrate_is_M w' (a, i, j) (wedges_in a i j Ha Hi Hj)) as H. cbn in H. rewrite <- H.
      replace (rate wcs wb (wx w') (a, i, j)) with (rate wcs wb (x' wcs wedges wb wB (wx w) wupd) (a, i, j)).
      + apply mm_rate_pos; try assumption. apply wedges_in; assumption.
      + unfold rate. apply sumR_ext. intros c Hc. rewrite Hagree by exact Hc. reflexivity.
  Qed.

  (* ---------------- C09: per-layer mass balance ---------------- *)
  Lemma mass_of_layer (x : nat -> nat -> nat -> R) a :
    sumR (fun i => sumR (fun j => Mw x i j a) (seq 0 N)) (seq 0 N)
    = sumR (fun k => sumR (fun q => x k q a * (Du k * Dv q)) (seq 0 K)) (seq 0 K).
  Proof.
    symmetry. unfold Mw.
    transitivity (sumR (fun k => sumR (fun q => sumR (fun i => sumR (fun j => g u i k * g v j q * x k q a) (seq 0 N)) (seq 0 N)) (seq 0 K)) (seq 0 K)).
    { apply sumR_ext. intros k _. apply sumR_ext. intros q _. unfold Du, Dv.
      rewrite sumR_mul_sum, <- sumR_scal. apply sumR_ext. intros i _. rewrite <- sumR_scal. apply sumR_ext. intros j _. ring. }
    transitivity (sumR (fun k => sumR (fun i => sumR (fun q => sumR (fun j => g u i k * g v j q * x k q a) (seq 0 N)) (seq 0 K)) (seq 0 N)) (seq 0 K)).
    { apply sumR_ext. intros k _. rewrite sumR_swap. reflexivity. }
    rewrite sumR_swap. apply sumR_ext. intros i _.
    transitivity (sumR (fun k => sumR (fun j => sumR (fun q => g u i k * g v j q * x k q a) (seq 0 K)) (seq 0 N)) (seq 0 K)).
    { apply sumR_ext. intros k _. rewrite sumR_swap. reflexivity. }
    rewrite sumR_swap. reflexivity.
  Qed.

  Definition edge_count (a : nat) : R := sumR (fun i => sumR (fun _ : nat => 1) (adj a i)) (seq 0 N).

  Hypothesis pre_ii : forall k q a, (k < K)%nat -> (q < K)%nat -> (a < L)%nat -> w k q a = 0 \/ epsR < w k q a.
  Hypothesis pre_iii : forall k q a, (k < K)%nat -> (q < K)%nat -> (a < L)%nat -> 0 < w k q a -> epsR < Du k * Dv q.

  Lemma sum_w_wnum a : (a < L)%nat ->
    sumR (fun k => sumR (fun q => w k q a * wnum k q a) (seq 0 K)) (seq 0 K) = edge_count a.
  Proof.
    intros Ha. unfold wnum, edge_count.
    transitivity (sumR (fun k => sumR (fun q => sumR (fun i => sumR (fun j => g u i k * g v j q * w k q a / Mw w i j a) (adj a i)) (seq 0 N)) (seq 0 K)) (seq 0 K)).
    { apply sumR_ext. intros k _. apply sumR_ext. intros q _. rewrite <- sumR_scal. apply sumR_ext. intros i Hi. apply in_seq in Hi.
      rewrite <- Rmult_assoc, <- sumR_scal. apply sumR_ext. intros j Hj.
      assert (Hc : epsR < Mw w i j a) by (apply clean_rates; try lia; exact Hj).
      replace (Rltb epsR (Mw w i j a)) with true by (symmetry; apply Rltb_true; exact Hc). unfold Rdiv. ring. }
    transitivity (sumR (fun k => sumR (fun i => sumR (fun q => sumR (fun j => g u i k * g v j q * w k q a / Mw w i j a) (adj a i)) (seq 0 K)) (seq 0 N)) (seq 0 K)).
    { apply sumR_ext. intros k _. rewrite sumR_swap. reflexivity. }
    rewrite sumR_swap. apply sumR_ext. intros i Hi. apply in_seq in Hi.
    transitivity (sumR (fun k => sumR (fun j => sumR (fun q => g u i k * g v j q * w k q a / Mw w i j a) (seq 0 K)) (adj a i)) (seq 0 K)).
    { apply sumR_ext. intros k _. rewrite sumR_swap. reflexivity. }
    rewrite sumR_swap. apply sumR_ext. intros j Hj.
    assert (Hc : epsR < Mw w i j a) by (apply clean_rates; try lia; exact Hj).
    transitivity (/ Mw w i j a * Mw w i j a).
    - unfold Mw at 3. rewrite <- sumR_scal. apply sumR_ext. intros k _. rewrite <- sumR_scal. apply sumR_ext. intros q _. unfold Rdiv. ring.
    - apply Rinv_l. unfold epsR in Hc. lra.
  Qed.

  Theorem mass_balance a : (a < L)%nat ->
    sumR (fun i => sumR (fun j => Mw w' i j a) (seq 0 N)) (seq 0 N) = edge_count a.
  Proof.
    intros Ha. rewrite mass_of_layer. rewrite <- (sum_w_wnum a Ha).
    apply sumR_ext. intros k Hk. apply in_seq in Hk. apply sumR_ext. intros q Hq. apply in_seq in Hq.
    unfold w'. rewrite new_w_R.
    destruct (pre_ii k q a ltac:(lia) ltac:(lia) Ha) as [Hz|Hpos].
    - (* zero entry stays zero and carries no responsibility *)
      rewrite Hz. replace (Rltb epsR 0) with false by (symmetry; apply Rltb_false; unfold epsR; lra).
      destruct (Rltb epsR (Du k * Dv q)); ring.
    - assert (HZ : epsR < Du k * Dv q) by (apply (pre_iii k q a); try lia; unfold epsR in Hpos; lra).
      replace (Rltb epsR (Du k * Dv q)) with true by (symmetry; apply Rltb_true; exact HZ).
      replace (Rltb epsR (w k q a)) with true by (symmetry; apply Rltb_true; exact Hpos).
      pose proof (clean_trunc k q a ltac:(lia) ltac:(lia) Ha) as Ht. cbv zeta in Ht. rewrite Ht.
      unfold epsR in HZ. field; repeat split; intro H0; rewrite H0 in HZ; rewrite ?Rmult_0_l, ?Rmult_0_r in HZ; lra.
  Qed.
End WBlock.
Check w_block_ascent.
Print Assumptions w_block_ascent.
Check mass_balance.
Print Assumptions mass_balance.

