(* EmProofs.v -- property C02: one iteration of the code-shaped model (SweepModel.v, instantiated over
   the exact reals by RInst.v) equals the published EM update equations of Spec.v, in the documented
   order (u, then v from the new u, then w from both new), for the general and the assortative model,
   directed and undirected. *)
From Coq Require Import Reals List Lra Lia Arith Bool Permutation.
Import ListNotations.
From MT Require Import Arith J MM SweepModel RInst SumLib UBlock WBlock Spec.
Local Open Scope R_scope.

Notation g := (mget R ArithR).

(* ------------------------------------------------------------------------------------------ *)
(* generic helpers                                                                            *)
(* ------------------------------------------------------------------------------------------ *)

Lemma mtab_ext n m (f f' : nat -> nat -> R) :
  (forall i k, (i < n)%nat -> (k < m)%nat -> f i k = f' i k) -> mtab R n m f = mtab R n m f'.
Proof.
  intros H. unfold mtab. apply map_ext_in. intros i Hi. apply in_seq in Hi.
  apply map_ext_in. intros k Hk. apply in_seq in Hk. apply H; lia.
Qed.

Lemma mget_mtab_out n m (f : nat -> nat -> R) i k : (i < n)%nat -> (m <= k)%nat -> g (mtab R n m f) i k = 0.
Proof.
  intros Hi Hk. unfold mget, mtab.
  rewrite (nth_map_seq (fun i => map (fun k => f i k) (seq 0 m)) [] n i Hi).
  apply nth_overflow. rewrite map_length, seq_length. exact Hk.
Qed.

Lemma epsR_pos : 0 < epsR.
Proof. unfold epsR. lra. Qed.

Lemma Rltb_eps_0 : Rltb epsR 0 = false.
Proof. apply Rltb_false. pose proof epsR_pos. lra. Qed.

Lemma trunc_is_truncR x : trunc R ArithR x = truncR x.
Proof. reflexivity. Qed.

Lemma existsb_eqb_false i l : existsb (Nat.eqb i) l = false -> ~ In i l.
Proof.
  intros E Hin. assert (existsb (Nat.eqb i) l = true); [|congruence].
  apply existsb_exists. exists i. split; [exact Hin|apply Nat.eqb_refl].
Qed.

Lemma existsb_eqb_notin i l : ~ In i l -> existsb (Nat.eqb i) l = false.
Proof.
  intros Hn. destruct (existsb (Nat.eqb i) l) eqn:E; [|reflexivity].
  exfalso. apply Hn. apply existsb_exists in E. destruct E as [x [Hx Hix]]. apply Nat.eqb_eq in Hix. subst x. exact Hx.
Qed.

(* ingredient (1): a sum over an adjacency list is the dense sum weighted by multiplicity *)
Lemma sumR_count (h : nat -> R) (l : list nat) (n : nat) :
  (forall j, In j l -> (j < n)%nat) ->
  sumR h l = sumR (fun j => INR (count_occ Nat.eq_dec l j) * h j) (seq 0 n).
Proof.
  induction l as [|a l IH]; intros Hlt.
  - simpl. symmetry. transitivity (sumR (fun _ : nat => 0) (seq 0 n)); [|apply sumR_zero].
    apply sumR_ext. intros j _. ring.
  - change (sumR h (a :: l)) with (h a + sumR h l).
    rewrite IH by (intros j Hj; apply Hlt; right; exact Hj).
    rewrite <- (sumR_delta h a n) at 1 by (apply Hlt; left; reflexivity).
    rewrite <- sumR_plus. apply sumR_ext. intros j _.
    destruct (Nat.eq_dec a j) as [E|E].
    + subst j. rewrite count_occ_cons_eq by reflexivity. rewrite Nat.eqb_refl, S_INR. ring.
    + rewrite count_occ_cons_neq by exact E. apply Nat.eqb_neq in E. rewrite E. ring.
Qed.

(* nested guarded accumulation = nested guarded sum *)
Lemma fold2_guard_sum {T} (la : list nat) (adjf : nat -> list T) (c : nat -> T -> bool) (f : nat -> T -> R) (init : R) :
  fold_left (fun s a => fold_left (fun s0 j => if c a j then s0 + f a j else s0) (adjf a) s) la init
  = init + sumR (fun a => sumR (fun j => if c a j then f a j else 0) (adjf a)) la.
Proof.
  revert init. induction la as [|a la IH]; intros init; simpl; [lra|].
  rewrite IH, fold_guard_sum. lra.
Qed.

(* zero rows survive a guarded update, whatever the denominator and the numerator *)
Lemma guarded_zero d n : guarded 0 d n = 0.
Proof. unfold guarded. rewrite Rltb_eps_0. destruct (Rltb epsR d); reflexivity. Qed.

Lemma zero_rows_guarded N K (l : list nat) (old : matrix R) (D Nm : nat -> nat -> R) :
  zero_rows N l old ->
  zero_rows N l (mtab R N K (fun i k => guarded (g old i k) (D i k) (Nm i k))).
Proof.
  intros Hz i k Hi Hn. destruct (lt_dec k K) as [Hk|Hk].
  - rewrite mget_mtab by assumption. rewrite (Hz i k Hi Hn). apply guarded_zero.
  - apply mget_mtab_out; [exact Hi|lia].
Qed.

(* ------------------------------------------------------------------------------------------ *)
(* P1 / P2 : the membership update, general model                                             *)
(* ------------------------------------------------------------------------------------------ *)

Section GenVertices.
  Variables (N K L : nat) (adj : nat -> nat -> list nat) (numl denl : list nat) (fixed old : matrix R)
            (w : nat -> nat -> nat -> R).
  Hypothesis adj_lt : forall a i j, (a < L)%nat -> (i < N)%nat -> In j (adj a i) -> (j < N)%nat.
  Hypothesis denl_nodup : NoDup denl.
  Hypothesis denl_lt : forall j, In j denl -> (j < N)%nat.
  Hypothesis fixed_zero : zero_rows N denl fixed.
  Hypothesis old_zero : zero_rows N numl old.

  (* the code's update in "dense" form: adjacency-list sums replaced by multiplicity-weighted sums over all
     vertices, vertex-list denominators by sums over all vertices *)
  Lemma upd_vertices_gen_dense :
    upd_vertices_gen R ArithR N K L adj numl denl fixed old w =
    mtab R N K (fun i k =>
      guarded (g old i k)
        (sumR (fun q => sumR (fun a => w k q a) (seq 0 L) * sumR (fun j => g fixed j q) (seq 0 N)) (seq 0 K))
        (sumR (fun a => sumR (fun j => INR (count_occ Nat.eq_dec (adj a i) j) *
            over (sumR (fun q => g fixed j q * w k q a) (seq 0 K)) (MijR K fixed old w i j a)) (seq 0 N)) (seq 0 L))).
  Proof.
    unfold upd_vertices_gen. apply mtab_ext. intros i k Hi Hk. cbv zeta.
    rewrite Zk_gen_R, val_gen_R.
    change (ltb ArithR (eps ArithR)) with (Rltb epsR). rewrite trunc_is_truncR.
    assert (HZ : ZkR K L denl fixed w k =
                 sumR (fun q => sumR (fun a => w k q a) (seq 0 L) * sumR (fun j => g fixed j q) (seq 0 N)) (seq 0 K)).
    { unfold ZkR. apply sumR_ext. intros q _. f_equal.
      apply sumR_sublist_dense; [exact denl_nodup|exact denl_lt|]. intros j Hj Hn. apply fixed_zero; assumption. }
    assert (HV : valR K L adj fixed old w i k =
                 sumR (fun a => sumR (fun j => INR (count_occ Nat.eq_dec (adj a i) j) *
                    over (sumR (fun q => g fixed j q * w k q a) (seq 0 K)) (MijR K fixed old w i j a)) (seq 0 N)) (seq 0 L)).
    { unfold valR. apply sumR_ext. intros a Ha. apply in_seq in Ha.
      rewrite (sumR_count _ (adj a i) N) by (intros j Hj; apply (adj_lt a i j); [lia|exact Hi|exact Hj]).
      apply sumR_ext. intros j _. reflexivity. }
    rewrite <- HZ, <- HV. unfold guarded.
    destruct (existsb (Nat.eqb i) numl) eqn:E; [reflexivity|].
    apply existsb_eqb_false in E. rewrite (old_zero i k Hi E). rewrite Rltb_eps_0.
    destruct (Rltb epsR (ZkR K L denl fixed w k)); reflexivity.
  Qed.
End GenVertices.

(* P1.  The hypothesis `zero_rows N numl old` is necessary: for a row i outside numl the code returns
   old i k whereas the dense equation returns guarded (old i k) den num, which is truncR (old/den * num)
   when old i k > eps and den > eps (e.g. 0 when row i has no neighbours) -- not old i k.  Under that
   hypothesis the side condition "rows outside numl have no neighbours" is NOT needed, so it is not a
   premise (this statement is stronger than the one with the extra premise). *)
Theorem upd_vertices_gen_is_em_u N K L (out : nat -> nat -> list nat) (numl denl : list nat)
        (fixed old : matrix R) (w : nat -> nat -> nat -> R) :
  (forall a i j, (a < L)%nat -> (i < N)%nat -> In j (out a i) -> (j < N)%nat) ->
  NoDup denl -> (forall j, In j denl -> (j < N)%nat) ->
  zero_rows N denl fixed ->
  zero_rows N numl old ->
  upd_vertices_gen R ArithR N K L out numl denl fixed old w = em_u N K L out old fixed w.
Proof.
  intros Hlt Hnd Hdl Hfz Hoz.
  rewrite (upd_vertices_gen_dense N K L out numl denl fixed old w Hlt Hnd Hdl Hfz Hoz).
  reflexivity.
Qed.

(* the in-adjacency is the transpose of the out-adjacency, as multisets *)
Definition transposed (N L : nat) (out inn : nat -> nat -> list nat) : Prop :=
  forall a i j, (a < L)%nat -> (i < N)%nat -> (j < N)%nat ->
    count_occ Nat.eq_dec (inn a j) i = count_occ Nat.eq_dec (out a i) j.

(* P2 *)
Theorem upd_vertices_gen_is_em_v N K L (out inn : nat -> nat -> list nat) (ul vl : list nat)
        (u1 v : matrix R) (w : nat -> nat -> nat -> R) :
  transposed N L out inn ->
  (forall a j i, (a < L)%nat -> (j < N)%nat -> In i (inn a j) -> (i < N)%nat) ->
  NoDup ul -> (forall i, In i ul -> (i < N)%nat) ->
  zero_rows N ul u1 ->
  zero_rows N vl v ->
  upd_vertices_gen R ArithR N K L inn vl ul u1 v (fun k l a => w l k a) = em_v N K L out u1 v w.
Proof.
  intros Htr Hlt Hnd Hul Huz Hvz.
  rewrite (upd_vertices_gen_dense N K L inn vl ul u1 v (fun k l a => w l k a) Hlt Hnd Hul Huz Hvz).
  unfold em_v. apply mtab_ext. intros j k Hj Hk. f_equal.
  apply sumR_ext. intros a Ha. apply in_seq in Ha. apply sumR_ext. intros i Hi. apply in_seq in Hi.
  unfold Amul, Acount. rewrite (Htr a i j) by lia. f_equal. f_equal.
  (* the rate: swap the two sums over groups *)
  unfold MijR, rate_gen.
  rewrite sumR_swap. apply sumR_ext. intros m _. apply sumR_ext. intros l _. ring.
Qed.

(* ------------------------------------------------------------------------------------------ *)
(* perm_count : wfG_directed gives the transposition hypothesis                               *)
(* ------------------------------------------------------------------------------------------ *)

Definition pair_dec (p q : nat * nat) : {p = q} + {p <> q}.
Proof. decide equality; apply Nat.eq_dec. Defined.

Lemma count_occ_map_mk (mk : nat -> nat * nat) (l : list nat) (p : nat * nat) (x : nat) :
  (forall y, mk y = p <-> y = x) ->
  count_occ pair_dec (map mk l) p = count_occ Nat.eq_dec l x.
Proof.
  intros Hmk. induction l as [|y l IH]; [reflexivity|].
  simpl map. destruct (Nat.eq_dec y x) as [E|E].
  - rewrite (count_occ_cons_eq Nat.eq_dec l E). rewrite count_occ_cons_eq by (apply Hmk; exact E). rewrite IH. reflexivity.
  - rewrite (count_occ_cons_neq Nat.eq_dec l E). rewrite count_occ_cons_neq by (intros H; apply E, Hmk; exact H). exact IH.
Qed.

Lemma count_occ_map_none (mk : nat -> nat * nat) (l : list nat) (p : nat * nat) :
  (forall y, mk y <> p) -> count_occ pair_dec (map mk l) p = 0%nat.
Proof.
  intros Hmk. apply count_occ_not_In. intros Hin. apply in_map_iff in Hin. destruct Hin as [y [Hy _]]. exact (Hmk y Hy).
Qed.

(* count of p in a flat_map of rows, when only row r can contain p *)
Lemma count_occ_flat_rows (row : nat -> list (nat * nat)) (p : nat * nat) (r : nat) (l : list nat) :
  (forall r', r' <> r -> count_occ pair_dec (row r') p = 0%nat) ->
  count_occ pair_dec (flat_map row l) p = (count_occ Nat.eq_dec l r * count_occ pair_dec (row r) p)%nat.
Proof.
  intros Hrow. induction l as [|r' l IH]; [reflexivity|].
  simpl flat_map. rewrite count_occ_app, IH.
  destruct (Nat.eq_dec r' r) as [E|E].
  - subst r'. rewrite count_occ_cons_eq by reflexivity. lia.
  - rewrite (count_occ_cons_neq Nat.eq_dec l E). rewrite (Hrow r' E). lia.
Qed.

Lemma count_occ_seq_in n i : (i < n)%nat -> count_occ Nat.eq_dec (seq 0 n) i = 1%nat.
Proof. intros Hi. apply NoDup_count_occ'; [apply seq_NoDup|apply in_seq; lia]. Qed.

Lemma count_pairs_out N G a i j : (i < N)%nat ->
  count_occ pair_dec (pairs_out N G a) (i, j) = count_occ Nat.eq_dec (gout G a i) j.
Proof.
  intros Hi. unfold pairs_out.
  rewrite (count_occ_flat_rows (fun i => map (fun j => (i, j)) (gout G a i)) (i, j) i).
  - rewrite (count_occ_seq_in N i Hi), Nat.mul_1_l.
    apply count_occ_map_mk. intros y. split; [intros H; inversion H; reflexivity|intros ->; reflexivity].
  - intros r' Hr. apply count_occ_map_none. intros y H. inversion H. contradiction.
Qed.

Lemma count_pairs_in N G a i j : (j < N)%nat ->
  count_occ pair_dec (pairs_in N G a) (i, j) = count_occ Nat.eq_dec (gin G a j) i.
Proof.
  intros Hj. unfold pairs_in.
  rewrite (count_occ_flat_rows (fun j => map (fun i => (i, j)) (gin G a j)) (i, j) j).
  - rewrite (count_occ_seq_in N j Hj), Nat.mul_1_l.
    apply count_occ_map_mk. intros y. split; [intros H; inversion H; reflexivity|intros ->; reflexivity].
  - intros r' Hr. apply count_occ_map_none. intros y H. inversion H. contradiction.
Qed.

Lemma perm_count N L G : wfG_directed N L G -> transposed N L (gout G) (gin G).
Proof.
  intros Hd a i j Ha Hi Hj.
  rewrite <- (count_pairs_in N G a i j Hj), <- (count_pairs_out N G a i j Hi).
  symmetry. apply Permutation_count_occ. apply (wfd_perm N L G Hd a Ha).
Qed.

(* ------------------------------------------------------------------------------------------ *)
(* P3 : the affinity update, general model                                                    *)
(* ------------------------------------------------------------------------------------------ *)

Theorem new_w_gen_is_em_w N K L (out : nat -> nat -> list nat) (ul vl : list nat) (u v : matrix R)
        (w : nat -> nat -> nat -> R) k q a :
  (forall a i j, (a < L)%nat -> (i < N)%nat -> In j (out a i) -> (j < N)%nat) ->
  NoDup ul -> NoDup vl -> (forall i, In i ul -> (i < N)%nat) -> (forall j, In j vl -> (j < N)%nat) ->
  zero_rows N ul u -> zero_rows N vl v ->
  (a < L)%nat ->
  new_w_gen R ArithR N K out ul vl u v w k q a = em_w N K out u v w k q a.
Proof.
  intros Hlt Hndu Hndv Hul Hvl Huz Hvz Ha.
  rewrite (new_w_R N K out ul vl u v w Hndu Hndv Hul Hvl Huz Hvz k q a).
  rewrite trunc_is_truncR. unfold em_w, guarded. fold (Du N u k). fold (Dv N v q).
  assert (HW : wnum N K out u v w k q a =
     sumR (fun i => sumR (fun j => Amul out a i j * over (g u i k * g v j q) (rate_gen K u v w i j a)) (seq 0 N)) (seq 0 N)).
  { unfold wnum. apply sumR_ext. intros i Hi. apply in_seq in Hi.
    rewrite (sumR_count _ (out a i) N) by (intros j Hj; apply (Hlt a i j); [exact Ha|lia|exact Hj]).
    rewrite <- sumR_scal. apply sumR_ext. intros j _.
    unfold Amul, Acount, over. change (Mw K u v w i j a) with (rate_gen K u v w i j a).
    destruct (Rltb epsR (rate_gen K u v w i j a)); unfold Rdiv; ring. }
  rewrite HW. reflexivity.
Qed.

Theorem upd_affinity_gen_is_em_w N K L (out : nat -> nat -> list nat) (ul vl : list nat) (u v : matrix R)
        (w : nat -> nat -> nat -> R) :
  (forall a i j, (a < L)%nat -> (i < N)%nat -> In j (out a i) -> (j < N)%nat) ->
  NoDup ul -> NoDup vl -> (forall i, In i ul -> (i < N)%nat) -> (forall j, In j vl -> (j < N)%nat) ->
  zero_rows N ul u -> zero_rows N vl v ->
  upd_affinity_gen R ArithR N K L out ul vl u v w = em_w_tensor N K L out u v w.
Proof.
  intros Hlt Hndu Hndv Hul Hvl Huz Hvz.
  unfold upd_affinity_gen, em_w_tensor, layers. apply map_ext_in. intros a Ha. apply in_seq in Ha.
  apply mtab_ext. intros k q _ _.
  apply (new_w_gen_is_em_w N K L out ul vl u v w k q a); auto. lia.
Qed.

(* ------------------------------------------------------------------------------------------ *)
(* P4 : one sweep of the general model = the published iteration                              *)
(* ------------------------------------------------------------------------------------------ *)

Lemma em_u_zero_rows N K L out (l : list nat) (u v : matrix R) w :
  zero_rows N l u -> zero_rows N l (em_u N K L out u v w).
Proof. intros H. unfold em_u. apply (zero_rows_guarded N K l u). exact H. Qed.

Lemma em_v_zero_rows N K L out (l : list nat) (u v : matrix R) w :
  zero_rows N l v -> zero_rows N l (em_v N K L out u v w).
Proof. intros H. unfold em_v. apply (zero_rows_guarded N K l v). exact H. Qed.

(* small version of Chain.upd_zero_rows, directly on the code: rows outside numl are copied from old *)
Lemma upd_vertices_gen_zero_rows N K L adj numl denl (fixed old : matrix R) w :
  zero_rows N numl old -> zero_rows N numl (upd_vertices_gen R ArithR N K L adj numl denl fixed old w).
Proof.
  intros Hz i k Hi Hn. destruct (lt_dec k K) as [Hk|Hk].
  - rewrite upd_entry by assumption. rewrite (existsb_eqb_notin i numl Hn). apply Hz; assumption.
  - unfold upd_vertices_gen. apply mget_mtab_out; [exact Hi|lia].
Qed.

Theorem sweep_gen_is_em_directed N K L (G : graph) (u v : matrix R) (w : list (matrix R)) :
  wfG N L G -> wfG_directed N L G ->
  zero_rows N (gul G) u -> zero_rows N (gvl G) v ->
  sweep_gen R ArithR N K L true G (u, v, w) = em_sweep_gen N K L (gout G) true (u, v, w).
Proof.
  intros Hwf Hd Huz Hvz. destruct Hwf as [Hout Hin Hndu Hndv Hul Hvl Hulout].
  unfold sweep_gen, em_sweep_gen. cbv zeta.
  rewrite (upd_vertices_gen_is_em_u N K L (gout G) (gul G) (gvl G) v u (tget R ArithR w) Hout Hndv Hvl Hvz Huz).
  pose proof (em_u_zero_rows N K L (gout G) (gul G) u v (tget R ArithR w) Huz) as Hu1z.
  rewrite (upd_vertices_gen_is_em_v N K L (gout G) (gin G) (gul G) (gvl G) _ v (tget R ArithR w)
             (perm_count N L G Hd) Hin Hndu Hul Hu1z Hvz).
  pose proof (em_v_zero_rows N K L (gout G) (gvl G) (em_u N K L (gout G) u v (tget R ArithR w)) v (tget R ArithR w) Hvz) as Hv1z.
  rewrite (upd_affinity_gen_is_em_w N K L (gout G) (gul G) (gvl G) _ _ (tget R ArithR w) Hout Hndu Hndv Hul Hvl Hu1z Hv1z).
  reflexivity.
Qed.

Theorem sweep_gen_is_em_undirected N K L (G : graph) (u v : matrix R) (w : list (matrix R)) :
  wfG N L G -> wfG_undirected N L G ->
  zero_rows N (gul G) u ->
  sweep_gen R ArithR N K L false G (u, v, w) = em_sweep_gen N K L (gout G) false (u, v, w).
Proof.
  intros Hwf Hu Huz. destruct Hwf as [Hout Hin Hndu Hndv Hul Hvl Hulout].
  pose proof (wfu_shared N L G Hu) as Hsh.
  unfold sweep_gen, em_sweep_gen. cbv zeta. rewrite Hsh.
  rewrite (upd_vertices_gen_is_em_u N K L (gout G) (gul G) (gul G) u u (tget R ArithR w) Hout Hndu Hul Huz Huz).
  pose proof (em_u_zero_rows N K L (gout G) (gul G) u u (tget R ArithR w) Huz) as Hu1z.
  rewrite (upd_affinity_gen_is_em_w N K L (gout G) (gul G) (gul G) _ _ (tget R ArithR w) Hout Hndu Hndu Hul Hul Hu1z Hu1z).
  reflexivity.
Qed.

(* the property, both modes in one statement *)
Theorem sweep_gen_is_em N K L (directed : bool) (G : graph) (u v : matrix R) (w : list (matrix R)) :
  wfG N L G ->
  (if directed then wfG_directed N L G /\ zero_rows N (gvl G) v else wfG_undirected N L G) ->
  zero_rows N (gul G) u ->
  sweep_gen R ArithR N K L directed G (u, v, w) = em_sweep_gen N K L (gout G) directed (u, v, w).
Proof.
  intros Hwf Hmode Huz. destruct directed.
  - destruct Hmode as [Hd Hvz]. apply sweep_gen_is_em_directed; assumption.
  - apply sweep_gen_is_em_undirected; assumption.
Qed.

(* ------------------------------------------------------------------------------------------ *)
(* P5 : the assortative model                                                                 *)
(* ------------------------------------------------------------------------------------------ *)

Section AssFormula.
  Variables (N K L : nat) (adj : nat -> nat -> list nat) (numl denl : list nat) (fixed old : matrix R)
            (wd : nat -> nat -> R).

  Lemma Zk_ass_R k :
    Zk_ass R ArithR L denl fixed wd k = sumR (fun a => wd k a) (seq 0 L) * sumR (fun i => g fixed i k) denl.
  Proof. unfold Zk_ass, layers. rewrite !acc_sum. simpl. lra. Qed.

  Lemma Zij_ass_R i j a : Zij_ass R ArithR K fixed old wd i j a = rate_ass K old fixed wd i j a.
  Proof. unfold Zij_ass, rate_ass, ks. rewrite acc_sum. simpl. lra. Qed.

  Lemma val_ass_R i k :
    val_ass R ArithR K L adj fixed old wd i k =
    sumR (fun a => sumR (fun j => over (g fixed j k * wd k a) (rate_ass K old fixed wd i j a)) (adj a i)) (seq 0 L).
  Proof.
    unfold val_ass, layers. cbv zeta.
    rewrite (fold2_guard_sum (seq 0 L) (fun a => adj a i)
               (fun a j => Rltb epsR (Zij_ass R ArithR K fixed old wd i j a))
               (fun a j => (0 + g fixed j k * wd k a) / Zij_ass R ArithR K fixed old wd i j a)).
    simpl zero. rewrite Rplus_0_l. apply sumR_ext. intros a _. apply sumR_ext. intros j _.
    rewrite Zij_ass_R. unfold over. rewrite Rplus_0_l. reflexivity.
  Qed.

  Lemma upd_entry_ass i k : (i < N)%nat -> (k < K)%nat ->
    g (upd_vertices_ass R ArithR N K L adj numl denl fixed old wd) i k =
      if existsb (Nat.eqb i) numl then
        if Rltb epsR (Zk_ass R ArithR L denl fixed wd k) then
          if Rltb epsR (g old i k) then truncR (g old i k / Zk_ass R ArithR L denl fixed wd k * val_ass R ArithR K L adj fixed old wd i k)
          else g old i k
        else g old i k
      else g old i k.
  Proof. intros Hi Hk. unfold upd_vertices_ass. rewrite mget_mtab by assumption. reflexivity. Qed.

  Hypothesis adj_lt : forall a i j, (a < L)%nat -> (i < N)%nat -> In j (adj a i) -> (j < N)%nat.
  Hypothesis denl_nodup : NoDup denl.
  Hypothesis denl_lt : forall j, In j denl -> (j < N)%nat.
  Hypothesis fixed_zero : zero_rows N denl fixed.
  Hypothesis old_zero : zero_rows N numl old.

  Lemma upd_vertices_ass_dense :
    upd_vertices_ass R ArithR N K L adj numl denl fixed old wd =
    mtab R N K (fun i k =>
      guarded (g old i k)
        (sumR (fun a => wd k a) (seq 0 L) * sumR (fun j => g fixed j k) (seq 0 N))
        (sumR (fun a => sumR (fun j => INR (count_occ Nat.eq_dec (adj a i) j) *
            over (g fixed j k * wd k a) (rate_ass K old fixed wd i j a)) (seq 0 N)) (seq 0 L))).
  Proof.
    unfold upd_vertices_ass. apply mtab_ext. intros i k Hi Hk. cbv zeta.
    rewrite Zk_ass_R, val_ass_R.
    change (ltb ArithR (eps ArithR)) with (Rltb epsR). rewrite trunc_is_truncR.
    assert (HZ : sumR (fun i => g fixed i k) denl = sumR (fun j => g fixed j k) (seq 0 N)).
    { apply sumR_sublist_dense; [exact denl_nodup|exact denl_lt|]. intros j Hj Hn. apply fixed_zero; assumption. }
    assert (HV : sumR (fun a => sumR (fun j => over (g fixed j k * wd k a) (rate_ass K old fixed wd i j a)) (adj a i)) (seq 0 L) =
                 sumR (fun a => sumR (fun j => INR (count_occ Nat.eq_dec (adj a i) j) *
                    over (g fixed j k * wd k a) (rate_ass K old fixed wd i j a)) (seq 0 N)) (seq 0 L)).
    { apply sumR_ext. intros a Ha. apply in_seq in Ha.
      apply (sumR_count _ (adj a i) N). intros j Hj. apply (adj_lt a i j); [lia|exact Hi|exact Hj]. }
    rewrite HZ, HV. unfold guarded.
    destruct (existsb (Nat.eqb i) numl) eqn:E; [reflexivity|].
    apply existsb_eqb_false in E. rewrite (old_zero i k Hi E). rewrite Rltb_eps_0.
    match goal with |- _ = (if ?b then _ else _) => destruct b end; reflexivity.
  Qed.
End AssFormula.

Theorem upd_vertices_ass_is_ema_u N K L (out : nat -> nat -> list nat) (numl denl : list nat)
        (fixed old : matrix R) (wd : nat -> nat -> R) :
  (forall a i j, (a < L)%nat -> (i < N)%nat -> In j (out a i) -> (j < N)%nat) ->
  NoDup denl -> (forall j, In j denl -> (j < N)%nat) ->
  zero_rows N denl fixed ->
  zero_rows N numl old ->
  upd_vertices_ass R ArithR N K L out numl denl fixed old wd = ema_u N K L out old fixed wd.
Proof.
  intros Hlt Hnd Hdl Hfz Hoz.
  rewrite (upd_vertices_ass_dense N K L out numl denl fixed old wd Hlt Hnd Hdl Hfz Hoz).
  reflexivity.
Qed.

Theorem upd_vertices_ass_is_ema_v N K L (out inn : nat -> nat -> list nat) (ul vl : list nat)
        (u1 v : matrix R) (wd : nat -> nat -> R) :
  transposed N L out inn ->
  (forall a j i, (a < L)%nat -> (j < N)%nat -> In i (inn a j) -> (i < N)%nat) ->
  NoDup ul -> (forall i, In i ul -> (i < N)%nat) ->
  zero_rows N ul u1 ->
  zero_rows N vl v ->
  upd_vertices_ass R ArithR N K L inn vl ul u1 v wd = ema_v N K L out u1 v wd.
Proof.
  intros Htr Hlt Hnd Hul Huz Hvz.
  rewrite (upd_vertices_ass_dense N K L inn vl ul u1 v wd Hlt Hnd Hul Huz Hvz).
  unfold ema_v. apply mtab_ext. intros j k Hj Hk. f_equal.
  apply sumR_ext. intros a Ha. apply in_seq in Ha. apply sumR_ext. intros i Hi. apply in_seq in Hi.
  unfold Amul, Acount. rewrite (Htr a i j) by lia. f_equal. f_equal.
  unfold rate_ass. apply sumR_ext. intros m _. ring.
Qed.

Theorem new_w_ass_is_ema_w N K L (out : nat -> nat -> list nat) (ul vl : list nat) (u v : matrix R)
        (wd : nat -> nat -> R) k a :
  (forall a i j, (a < L)%nat -> (i < N)%nat -> In j (out a i) -> (j < N)%nat) ->
  NoDup ul -> NoDup vl -> (forall i, In i ul -> (i < N)%nat) -> (forall j, In j vl -> (j < N)%nat) ->
  zero_rows N ul u -> zero_rows N vl v ->
  (a < L)%nat ->
  new_w_ass R ArithR N K out ul vl u v wd k a = ema_w N K out u v wd k a.
Proof.
  intros Hlt Hndu Hndv Hul Hvl Huz Hvz Ha.
  unfold new_w_ass. cbv zeta. rewrite !acc_sum. simpl zero. rewrite !Rplus_0_l.
  change (ltb ArithR (eps ArithR)) with (Rltb epsR). rewrite trunc_is_truncR.
  change (mul ArithR) with Rmult. change (div ArithR) with Rdiv. change (add ArithR) with Rplus.
  assert (HDu : sumR (fun i => g u i k) ul = sumR (fun i => g u i k) (seq 0 N)).
  { apply sumR_sublist_dense; auto. }
  assert (HDv : sumR (fun i => g v i k) vl = sumR (fun j => g v j k) (seq 0 N)).
  { apply sumR_sublist_dense; auto. }
  rewrite HDu, HDv.
  assert (HW : sumR (fun i => g u i k *
                  fold_left (fun r j => if Rltb epsR (Zij_wd R ArithR K u v wd i j a)
                                        then r + g v j k / Zij_wd R ArithR K u v wd i j a else r) (out a i) 0) (vertices N)
     = sumR (fun i => sumR (fun j => Amul out a i j * over (g u i k * g v j k) (rate_ass K u v wd i j a)) (seq 0 N)) (seq 0 N)).
  { unfold vertices. apply sumR_ext. intros i Hi. apply in_seq in Hi.
    rewrite (fold_guard_sum (out a i) (fun j => Rltb epsR (Zij_wd R ArithR K u v wd i j a))
               (fun j => g v j k / Zij_wd R ArithR K u v wd i j a)).
    rewrite Rplus_0_l.
    rewrite (sumR_count _ (out a i) N) by (intros j Hj; apply (Hlt a i j); [exact Ha|lia|exact Hj]).
    rewrite <- sumR_scal. apply sumR_ext. intros j _.
    assert (HZ : Zij_wd R ArithR K u v wd i j a = rate_ass K u v wd i j a).
    { unfold Zij_wd, rate_ass, ks. rewrite acc_sum. simpl. lra. }
    rewrite HZ. unfold Amul, Acount, over.
    destruct (Rltb epsR (rate_ass K u v wd i j a)); unfold Rdiv; ring. }
  rewrite HW. reflexivity.
Qed.

Theorem upd_affinity_ass_is_ema_w N K L (out : nat -> nat -> list nat) (ul vl : list nat) (u v : matrix R)
        (wd : nat -> nat -> R) :
  (forall a i j, (a < L)%nat -> (i < N)%nat -> In j (out a i) -> (j < N)%nat) ->
  NoDup ul -> NoDup vl -> (forall i, In i ul -> (i < N)%nat) -> (forall j, In j vl -> (j < N)%nat) ->
  zero_rows N ul u -> zero_rows N vl v ->
  upd_affinity_ass R ArithR N K L out ul vl u v wd = ema_w_tensor N K L out u v wd.
Proof.
  intros Hlt Hndu Hndv Hul Hvl Huz Hvz.
  unfold upd_affinity_ass, ema_w_tensor, layers, ks. apply map_ext_in. intros a Ha. apply in_seq in Ha.
  apply map_ext_in. intros k _.
  apply (new_w_ass_is_ema_w N K L out ul vl u v wd k a); auto. lia.
Qed.

Lemma ema_u_zero_rows N K L out (l : list nat) (u v : matrix R) wd :
  zero_rows N l u -> zero_rows N l (ema_u N K L out u v wd).
Proof. intros H. unfold ema_u. apply (zero_rows_guarded N K l u). exact H. Qed.

Lemma ema_v_zero_rows N K L out (l : list nat) (u v : matrix R) wd :
  zero_rows N l v -> zero_rows N l (ema_v N K L out u v wd).
Proof. intros H. unfold ema_v. apply (zero_rows_guarded N K l v). exact H. Qed.

Theorem sweep_ass_is_em_directed N K L (G : graph) (u v : matrix R) (w : list (list R)) :
  wfG N L G -> wfG_directed N L G ->
  zero_rows N (gul G) u -> zero_rows N (gvl G) v ->
  sweep_ass R ArithR N K L true G (u, v, w) = em_sweep_ass N K L (gout G) true (u, v, w).
Proof.
  intros Hwf Hd Huz Hvz. destruct Hwf as [Hout Hin Hndu Hndv Hul Hvl Hulout].
  unfold sweep_ass, em_sweep_ass. cbv zeta.
  rewrite (upd_vertices_ass_is_ema_u N K L (gout G) (gul G) (gvl G) v u (dget R ArithR w) Hout Hndv Hvl Hvz Huz).
  pose proof (ema_u_zero_rows N K L (gout G) (gul G) u v (dget R ArithR w) Huz) as Hu1z.
  rewrite (upd_vertices_ass_is_ema_v N K L (gout G) (gin G) (gul G) (gvl G) _ v (dget R ArithR w)
             (perm_count N L G Hd) Hin Hndu Hul Hu1z Hvz).
  pose proof (ema_v_zero_rows N K L (gout G) (gvl G) (ema_u N K L (gout G) u v (dget R ArithR w)) v (dget R ArithR w) Hvz) as Hv1z.
  rewrite (upd_affinity_ass_is_ema_w N K L (gout G) (gul G) (gvl G) _ _ (dget R ArithR w) Hout Hndu Hndv Hul Hvl Hu1z Hv1z).
  reflexivity.
Qed.

Theorem sweep_ass_is_em_undirected N K L (G : graph) (u v : matrix R) (w : list (list R)) :
  wfG N L G -> wfG_undirected N L G ->
  zero_rows N (gul G) u ->
  sweep_ass R ArithR N K L false G (u, v, w) = em_sweep_ass N K L (gout G) false (u, v, w).
Proof.
  intros Hwf Hu Huz. destruct Hwf as [Hout Hin Hndu Hndv Hul Hvl Hulout].
  pose proof (wfu_shared N L G Hu) as Hsh.
  unfold sweep_ass, em_sweep_ass. cbv zeta. rewrite Hsh.
  rewrite (upd_vertices_ass_is_ema_u N K L (gout G) (gul G) (gul G) u u (dget R ArithR w) Hout Hndu Hul Huz Huz).
  pose proof (ema_u_zero_rows N K L (gout G) (gul G) u u (dget R ArithR w) Huz) as Hu1z.
  rewrite (upd_affinity_ass_is_ema_w N K L (gout G) (gul G) (gul G) _ _ (dget R ArithR w) Hout Hndu Hndu Hul Hul Hu1z Hu1z).
  reflexivity.
Qed.

Theorem sweep_ass_is_em N K L (directed : bool) (G : graph) (u v : matrix R) (w : list (list R)) :
  wfG N L G ->
  (if directed then wfG_directed N L G /\ zero_rows N (gvl G) v else wfG_undirected N L G) ->
  zero_rows N (gul G) u ->
  sweep_ass R ArithR N K L directed G (u, v, w) = em_sweep_ass N K L (gout G) directed (u, v, w).
Proof.
  intros Hwf Hmode Huz. destruct directed.
  - destruct Hmode as [Hd Hvz]. apply sweep_ass_is_em_directed; assumption.
  - apply sweep_ass_is_em_undirected; assumption.
Qed.

(* ------------------------------------------------------------------------------------------ *)
(* P6 : zero stays zero (entries <= eps are returned unchanged), truncation snaps             *)
(* ------------------------------------------------------------------------------------------ *)

Lemma truncR_small x : Rabs x < epsR -> truncR x = 0.
Proof. intros H. unfold truncR. apply Rltb_true in H. rewrite H. reflexivity. Qed.

Lemma truncR_big x : epsR <= Rabs x -> truncR x = x.
Proof. intros H. unfold truncR. apply Rltb_false in H. rewrite H. reflexivity. Qed.

Lemma trunc_small x : Rabs x < epsR -> trunc R ArithR x = 0.
Proof. rewrite trunc_is_truncR. apply truncR_small. Qed.

Lemma trunc_big x : epsR <= Rabs x -> trunc R ArithR x = x.
Proof. rewrite trunc_is_truncR. apply truncR_big. Qed.

Theorem zero_stays_zero_vertices_gen N K L adj numl denl (fixed old : matrix R) w i k :
  (i < N)%nat -> (k < K)%nat -> g old i k <= epsR ->
  g (upd_vertices_gen R ArithR N K L adj numl denl fixed old w) i k = g old i k.
Proof.
  intros Hi Hk Ho. rewrite upd_entry by assumption. apply Rltb_false in Ho. rewrite Ho.
  destruct (existsb (Nat.eqb i) numl); [|reflexivity].
  destruct (Rltb epsR (ZkR K L denl fixed w k)); reflexivity.
Qed.

Theorem zero_stays_zero_vertices_ass N K L adj numl denl (fixed old : matrix R) wd i k :
  (i < N)%nat -> (k < K)%nat -> g old i k <= epsR ->
  g (upd_vertices_ass R ArithR N K L adj numl denl fixed old wd) i k = g old i k.
Proof.
  intros Hi Hk Ho. rewrite upd_entry_ass by assumption. apply Rltb_false in Ho. rewrite Ho.
  destruct (existsb (Nat.eqb i) numl); [|reflexivity].
  destruct (Rltb epsR (Zk_ass R ArithR L denl fixed wd k)); reflexivity.
Qed.

Theorem zero_stays_zero_new_w_gen N K out ul vl (u v : matrix R) w k q a :
  w k q a <= epsR -> new_w_gen R ArithR N K out ul vl u v w k q a = w k q a.
Proof.
  intros Ho. unfold new_w_gen. cbv zeta.
  change (ltb ArithR (eps ArithR)) with (Rltb epsR). apply Rltb_false in Ho. rewrite Ho.
  match goal with |- (if ?b then _ else _) = _ => destruct b end; reflexivity.
Qed.

Theorem zero_stays_zero_new_w_ass N K out ul vl (u v : matrix R) wd k a :
  wd k a <= epsR -> new_w_ass R ArithR N K out ul vl u v wd k a = wd k a.
Proof.
  intros Ho. unfold new_w_ass. cbv zeta.
  change (ltb ArithR (eps ArithR)) with (Rltb epsR). apply Rltb_false in Ho. rewrite Ho.
  match goal with |- (if ?b then _ else _) = _ => destruct b end; reflexivity.
Qed.

(* the same, read through the tensor accessors of the whole-affinity update *)
Theorem zero_stays_zero_affinity_gen N K L out ul vl (u v : matrix R) w k q a :
  (k < K)%nat -> (q < K)%nat -> (a < L)%nat -> w k q a <= epsR ->
  tget R ArithR (upd_affinity_gen R ArithR N K L out ul vl u v w) k q a = w k q a.
Proof.
  intros Hk Hq Ha Ho. unfold tget, upd_affinity_gen, layers.
  rewrite (nth_map_seq (fun a => mtab R K K (fun k q => new_w_gen R ArithR N K out ul vl u v w k q a)) [] L a Ha).
  rewrite mget_mtab by assumption. apply zero_stays_zero_new_w_gen. exact Ho.
Qed.

Theorem zero_stays_zero_affinity_ass N K L out ul vl (u v : matrix R) wd k a :
  (k < K)%nat -> (a < L)%nat -> wd k a <= epsR ->
  dget R ArithR (upd_affinity_ass R ArithR N K L out ul vl u v wd) k a = wd k a.
Proof.
  intros Hk Ha Ho. unfold dget, upd_affinity_ass, layers, ks.
  rewrite (nth_map_seq (fun a => map (fun k => new_w_ass R ArithR N K out ul vl u v wd k a) (seq 0 K)) [] L a Ha).
  rewrite (nth_map_seq (fun k => new_w_ass R ArithR N K out ul vl u v wd k a) (zero ArithR) K k Hk).
  apply zero_stays_zero_new_w_ass. exact Ho.
Qed.

(* the three updates bundled (general model) *)
Theorem zero_stays_zero N K L (G : graph) (u v : matrix R) (w : list (matrix R)) :
  let '(u1, v1, w1) := sweep_gen R ArithR N K L true G (u, v, w) in
  (forall i k, (i < N)%nat -> (k < K)%nat -> g u i k <= epsR -> g u1 i k = g u i k) /\
  (forall j k, (j < N)%nat -> (k < K)%nat -> g v j k <= epsR -> g v1 j k = g v j k) /\
  (forall k q a, (k < K)%nat -> (q < K)%nat -> (a < L)%nat -> tget R ArithR w k q a <= epsR ->
     tget R ArithR w1 k q a = tget R ArithR w k q a).
Proof.
  unfold sweep_gen. cbv zeta. repeat split.
  - intros i k Hi Hk Ho. apply zero_stays_zero_vertices_gen; assumption.
  - intros j k Hj Hk Ho. apply zero_stays_zero_vertices_gen; assumption.
  - intros k q a Hk Hq Ha Ho. apply zero_stays_zero_affinity_gen; assumption.
Qed.

Print Assumptions upd_vertices_gen_is_em_u.
Print Assumptions upd_vertices_gen_is_em_v.
Print Assumptions perm_count.
Print Assumptions upd_affinity_gen_is_em_w.
Print Assumptions sweep_gen_is_em.
Print Assumptions sweep_ass_is_em.
Print Assumptions zero_stays_zero.
Print Assumptions zero_stays_zero_affinity_ass.
Print Assumptions zero_stays_zero_vertices_ass.
