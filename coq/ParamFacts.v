(* ParamFacts.v -- the noise amplitude of the user-supplied affinity start as it stands in params.hpp NOW (GenParams.v, T1) is the documented 0.1 *)
From Coq Require Import Reals Floats.
From MT Require Import Arith GenParams FloatInst RInst.

Lemma noise_is_one_tenth :
  cxx_EPS_NOISE_R = (1 / 10)%R /\ cxx_EPS_NOISE_F = 0x1.999999999999ap-4%float /\ (forall lnf, noise (ArithF lnf) = cxx_EPS_NOISE_F).
Proof. repeat split. Qed.
