(* WellFormed.v -- property C03: the results of multitensor_factorization are well-formed.
     W1 sweep_shape                    one sweep returns N x K membership matrices           (every Arith)
     W2 sweep_rows_kept / sweep_zero_rows
                                       rows outside the vertex lists are copied, zero stays zero (every Arith)
     W3 iter_sweep_invariant           shape + zero rows after any number of sweeps          (every Arith)
     W4 factorize_wellformed_structure labels, shapes, zero rows, report length of `factorize` (every Arith)
     W5 factorize_nonneg               entrywise non-negativity of u, v, affinity            (ArithR)
   `run` is never unfolded: the run-level facts come from RunProofs (run_S, one_real_eq, run_select),
   the realization-level fact from CtrlProofs.realization_spec. *)
From Coq Require Import List Arith Bool Lia Reals Lra.
Import ListNotations.
From MT Require Import Arith SweepModel GraphModel InitModel CtrlModel MainModel
                       GraphProofs GraphRelabel InitProofs CtrlProofs RunProofs MainProofs
                       FactorizeProofs RInst Spec InvProofs.

#[local] Arguments lout : clear implicits.
#[local] Arguments lin : clear implicits.

(* ========================================================================================== *)
(* Part 0 : list bookkeeping                                                                  *)
(* ========================================================================================== *)
Lemma nth_map_seq_gen {B} (f : nat -> B) (d : B) n i : i < n -> nth i (map f (seq 0 n)) d = f i.
Proof.
  intros Hi. rewrite (nth_indep _ d (f 0)) by (rewrite map_length, seq_length; exact Hi).
  rewrite map_nth. rewrite seq_nth by exact Hi. reflexivity.
Qed.

Lemma fold_left_pres {S T} (P : S -> Prop) (f : S -> T -> S) (l : list T) :
  (forall s x, P s -> P (f s x)) -> forall s, P s -> P (fold_left f l s).
Proof.
  intros H. induction l as [|a l IH]; intros s Hs; cbn [fold_left]; [exact Hs|].
  apply IH. apply H. exact Hs.
Qed.

Lemma existsb_eqb_notin i l : ~ In i l -> existsb (Nat.eqb i) l = false.
Proof.
  intros H. destruct (existsb (Nat.eqb i) l) eqn:E; [|reflexivity].
  apply existsb_exists in E. destruct E as (x & Hx & Ex). apply Nat.eqb_eq in Ex. subst x.
  contradiction.
Qed.

(* ========================================================================================== *)
(* Part 1 : every arithmetic                                                                  *)
(* ========================================================================================== *)
Section Generic.
  Variable num : Type.
  Variable A : Arith num.
  Notation Z0 := (zero A).
  Notation mget := (SweepModel.mget num A).
  Notation mshape := (InitProofs.mshape num).
  Notation mtab := (SweepModel.mtab num).

  (* ---------------------------------------------------------------------------------------- *)
  (* mtab, for any arithmetic (RInst.mget_mtab is the R instance)                             *)
  (* ---------------------------------------------------------------------------------------- *)
  Lemma mtab_shape n m f : mshape n m (mtab n m f).
  Proof.
    unfold InitProofs.mshape, SweepModel.mtab. split.
    - rewrite map_length, seq_length. reflexivity.
    - apply Forall_forall. intros row Hr. apply in_map_iff in Hr. destruct Hr as (i & <- & _).
      rewrite map_length, seq_length. reflexivity.
  Qed.

  Lemma mget_mtab_gen n m f i k : i < n -> k < m -> mget (mtab n m f) i k = f i k.
  Proof.
    intros Hi Hk. unfold SweepModel.mget, SweepModel.mtab.
    rewrite (nth_map_seq_gen (fun i => map (fun k => f i k) (seq 0 m)) [] n i Hi).
    apply (nth_map_seq_gen (fun k => f i k) Z0 m k Hk).
  Qed.

  (* a row of an N x K matrix all of whose entries are zero IS the zero row *)
  Lemma zero_row_repeat N K (M : matrix num) i :
    mshape N K M -> i < N -> (forall k, k < K -> mget M i k = Z0) -> nth i M [] = repeat Z0 K.
  Proof.
    intros HS Hi Hz. pose proof (mshape_row num N K M i HS Hi) as Hl.
    apply (nth_ext _ _ Z0 Z0).
    - rewrite repeat_length. exact Hl.
    - intros k Hk. rewrite Hl in Hk. rewrite (nth_repeat_any Z0 Z0 K k Hk).
      apply (Hz k Hk).
  Qed.

  (* ---------------------------------------------------------------------------------------- *)
  (* update_vertices: shape, and rows outside `numl` are copied                               *)
  (* ---------------------------------------------------------------------------------------- *)
  Lemma upd_vertices_gen_shape N K L adj numl denl fixed old w :
    mshape N K (upd_vertices_gen num A N K L adj numl denl fixed old w).
  Proof. unfold upd_vertices_gen. apply mtab_shape. Qed.

  Lemma upd_vertices_ass_shape N K L adj numl denl fixed old wd :
    mshape N K (upd_vertices_ass num A N K L adj numl denl fixed old wd).
  Proof. unfold upd_vertices_ass. apply mtab_shape. Qed.

  Lemma upd_vertices_gen_outside N K L adj numl denl fixed old w i k :
    i < N -> k < K -> ~ In i numl ->
    mget (upd_vertices_gen num A N K L adj numl denl fixed old w) i k = mget old i k.
  Proof.
    intros Hi Hk Hn. unfold upd_vertices_gen. rewrite mget_mtab_gen by assumption.
    cbv zeta. rewrite (existsb_eqb_notin i numl Hn). reflexivity.
  Qed.

  Lemma upd_vertices_ass_outside N K L adj numl denl fixed old wd i k :
    i < N -> k < K -> ~ In i numl ->
    mget (upd_vertices_ass num A N K L adj numl denl fixed old wd) i k = mget old i k.
  Proof.
    intros Hi Hk Hn. unfold upd_vertices_ass. rewrite mget_mtab_gen by assumption.
    cbv zeta. rewrite (existsb_eqb_notin i numl Hn). reflexivity.
  Qed.

  (* ---------------------------------------------------------------------------------------- *)
  (* W1 : shape after one sweep (no hypothesis on the state at all)                           *)
  (* ---------------------------------------------------------------------------------------- *)
  Notation st_gen := (matrix num * matrix num * list (matrix num))%type.
  Notation st_ass := (matrix num * matrix num * list (list num))%type.

  Theorem sweep_gen_shape N K L directed G (s : st_gen) :
    mshape N K (fst (fst (sweep_gen num A N K L directed G s))) /\
    (directed = true -> mshape N K (snd (fst (sweep_gen num A N K L directed G s)))).
  Proof.
    destruct s as [[u v] w]. unfold sweep_gen. destruct directed; cbv zeta; cbn [fst snd].
    - split; [|intros _]; apply upd_vertices_gen_shape.
    - split; [apply upd_vertices_gen_shape|discriminate].
  Qed.

  Theorem sweep_ass_shape N K L directed G (s : st_ass) :
    mshape N K (fst (fst (sweep_ass num A N K L directed G s))) /\
    (directed = true -> mshape N K (snd (fst (sweep_ass num A N K L directed G s)))).
  Proof.
    destruct s as [[u v] w]. unfold sweep_ass. destruct directed; cbv zeta; cbn [fst snd].
    - split; [|intros _]; apply upd_vertices_ass_shape.
    - split; [apply upd_vertices_ass_shape|discriminate].
  Qed.

  Theorem sweep_shape N K L directed G :
    (forall s : st_gen,
       mshape N K (fst (fst (sweep_gen num A N K L directed G s))) /\
       (directed = true -> mshape N K (snd (fst (sweep_gen num A N K L directed G s))))) /\
    (forall s : st_ass,
       mshape N K (fst (fst (sweep_ass num A N K L directed G s))) /\
       (directed = true -> mshape N K (snd (fst (sweep_ass num A N K L directed G s))))).
  Proof. split; intros s; [apply sweep_gen_shape|apply sweep_ass_shape]. Qed.

  (* ---------------------------------------------------------------------------------------- *)
  (* W2 : rows outside the vertex lists                                                       *)
  (* ---------------------------------------------------------------------------------------- *)
  Definition zero_rows_gen (N K : nat) (l : list nat) (m : matrix num) : Prop :=
    forall i k, i < N -> k < K -> ~ In i l -> mget m i k = Z0.
  (* m' has the rows of m outside l *)
  Definition rows_kept (N K : nat) (l : list nat) (m m' : matrix num) : Prop :=
    forall i k, i < N -> k < K -> ~ In i l -> mget m' i k = mget m i k.

  Lemma rows_kept_zero N K l m m' : rows_kept N K l m m' -> zero_rows_gen N K l m -> zero_rows_gen N K l m'.
  Proof. intros Hk Hz i k Hi Hk' Hn. rewrite (Hk i k Hi Hk' Hn). apply Hz; assumption. Qed.

  Theorem sweep_gen_rows_kept N K L directed G (s : st_gen) :
    rows_kept N K (gul G) (fst (fst s)) (fst (fst (sweep_gen num A N K L directed G s))) /\
    (directed = true ->
     rows_kept N K (gvl G) (snd (fst s)) (snd (fst (sweep_gen num A N K L directed G s)))).
  Proof.
    destruct s as [[u v] w]. unfold sweep_gen. destruct directed; cbv zeta; cbn [fst snd].
    - split; [|intros _]; intros i k Hi Hk Hn; apply upd_vertices_gen_outside; assumption.
    - split; [|discriminate]. intros i k Hi Hk Hn. apply upd_vertices_gen_outside; assumption.
  Qed.

  Theorem sweep_ass_rows_kept N K L directed G (s : st_ass) :
    rows_kept N K (gul G) (fst (fst s)) (fst (fst (sweep_ass num A N K L directed G s))) /\
    (directed = true ->
     rows_kept N K (gvl G) (snd (fst s)) (snd (fst (sweep_ass num A N K L directed G s)))).
  Proof.
    destruct s as [[u v] w]. unfold sweep_ass. destruct directed; cbv zeta; cbn [fst snd].
    - split; [|intros _]; intros i k Hi Hk Hn; apply upd_vertices_ass_outside; assumption.
    - split; [|discriminate]. intros i k Hi Hk Hn. apply upd_vertices_ass_outside; assumption.
  Qed.

  Theorem sweep_zero_rows N K L directed G :
    (forall s : st_gen,
       (zero_rows_gen N K (gul G) (fst (fst s)) ->
        zero_rows_gen N K (gul G) (fst (fst (sweep_gen num A N K L directed G s)))) /\
       (directed = true -> zero_rows_gen N K (gvl G) (snd (fst s)) ->
        zero_rows_gen N K (gvl G) (snd (fst (sweep_gen num A N K L directed G s))))) /\
    (forall s : st_ass,
       (zero_rows_gen N K (gul G) (fst (fst s)) ->
        zero_rows_gen N K (gul G) (fst (fst (sweep_ass num A N K L directed G s)))) /\
       (directed = true -> zero_rows_gen N K (gvl G) (snd (fst s)) ->
        zero_rows_gen N K (gvl G) (snd (fst (sweep_ass num A N K L directed G s))))).
  Proof.
    split; intros s.
    - destruct (sweep_gen_rows_kept N K L directed G s) as (Hu & Hv). split.
      + apply rows_kept_zero, Hu.
      + intros Hd. apply rows_kept_zero, (Hv Hd).
    - destruct (sweep_ass_rows_kept N K L directed G s) as (Hu & Hv). split.
      + apply rows_kept_zero, Hu.
      + intros Hd. apply rows_kept_zero, (Hv Hd).
  Qed.

  (* ---------------------------------------------------------------------------------------- *)
  (* W3 : the invariant after any number of sweeps                                            *)
  (* ---------------------------------------------------------------------------------------- *)
  (* u is N x K with zero rows outside ul; when directed, v is N x K with zero rows outside vl.
     (Nothing is claimed about v when undirected: it is never written, see factorize_v_untouched.) *)
  Definition wf_state {W : Type} (directed : bool) (N K : nat) (ul vl : list nat)
             (s : matrix num * matrix num * W) : Prop :=
    mshape N K (fst (fst s)) /\ zero_rows_gen N K ul (fst (fst s)) /\
    (directed = true -> mshape N K (snd (fst s)) /\ zero_rows_gen N K vl (snd (fst s))).

  Lemma sweep_gen_wf N K L directed G (s : st_gen) :
    wf_state directed N K (gul G) (gvl G) s ->
    wf_state directed N K (gul G) (gvl G) (sweep_gen num A N K L directed G s).
  Proof.
    intros (_ & Hz & Hv). unfold wf_state.
    destruct (sweep_gen_shape N K L directed G s) as (S1 & S2).
    destruct (proj1 (sweep_zero_rows N K L directed G) s) as (Z1 & Z2).
    split; [exact S1|]. split; [exact (Z1 Hz)|].
    intros Hd. split; [exact (S2 Hd)|]. apply (Z2 Hd). apply (Hv Hd).
  Qed.

  Lemma sweep_ass_wf N K L directed G (s : st_ass) :
    wf_state directed N K (gul G) (gvl G) s ->
    wf_state directed N K (gul G) (gvl G) (sweep_ass num A N K L directed G s).
  Proof.
    intros (_ & Hz & Hv). unfold wf_state.
    destruct (sweep_ass_shape N K L directed G s) as (S1 & S2).
    destruct (proj2 (sweep_zero_rows N K L directed G) s) as (Z1 & Z2).
    split; [exact S1|]. split; [exact (Z1 Hz)|].
    intros Hd. split; [exact (S2 Hd)|]. apply (Z2 Hd). apply (Hv Hd).
  Qed.

  Lemma iter_sweep_pres {W : Type} (sw : matrix num * matrix num * W -> matrix num * matrix num * W)
        (P : matrix num * matrix num * W -> Prop) :
    (forall s, P s -> P (sw s)) -> forall n s, P s -> P (iter_sweep num W sw n s).
  Proof.
    intros H n s Hs. induction n as [|n IH]; cbn [iter_sweep]; [exact Hs|]. apply H, IH.
  Qed.

  Theorem iter_sweep_invariant N K L directed G n :
    (forall s : st_gen, wf_state directed N K (gul G) (gvl G) s ->
       wf_state directed N K (gul G) (gvl G)
                (iter_sweep num _ (sweep_gen num A N K L directed G) n s)) /\
    (forall s : st_ass, wf_state directed N K (gul G) (gvl G) s ->
       wf_state directed N K (gul G) (gvl G)
                (iter_sweep num _ (sweep_ass num A N K L directed G) n s)).
  Proof.
    split; intros s Hs.
    - apply (iter_sweep_pres _ (wf_state directed N K (gul G) (gvl G))); [apply sweep_gen_wf|exact Hs].
    - apply (iter_sweep_pres _ (wf_state directed N K (gul G) (gvl G))); [apply sweep_ass_wf|exact Hs].
  Qed.

  (* ---------------------------------------------------------------------------------------- *)
  (* the start state of a realization: no hypothesis on the initialiser, the stream, the lists  *)
  (* ---------------------------------------------------------------------------------------- *)
  Lemma init_rows_shape N K els M s :
    mshape N K M -> mshape N K (fst (init_rows num A K els M s)).
  Proof.
    intros HM. unfold init_rows.
    apply (fold_left_pres (fun p : matrix num * list num => mshape N K (fst p))); [|exact HM].
    intros p k Hp.
    apply (fold_left_pres (fun p : matrix num * list num => mshape N K (fst p))); [|exact Hp].
    intros p' j Hp'. cbn [fst]. apply mset_shape. exact Hp'.
  Qed.

  Lemma start_of_wf (W IC : Type) (initw : IC -> W -> list num -> IC * W * list num)
        directed N K ul vl (b : bufs num W IC) :
    wf_state directed N K ul vl (snd (fst (start_of num A W IC initw directed N K ul vl b))).
  Proof.
    unfold start_of. destruct (initw (ic b) (cw b) (strm b)) as [[ic' wt] s1].
    assert (HU : forall s2,
               mshape N K (fst (init_rows num A K ul (zeros num A N K) s2)) /\
               zero_rows_gen N K ul (fst (init_rows num A K ul (zeros num A N K) s2))).
    { intros s2. split; [apply init_rows_shape, zeros_shape|].
      intros i k _ _ Hn. apply init_rows_zeros_outside. exact Hn. }
    destruct directed.
    - pose proof (init_rows_shape N K vl (zeros num A N K) s1 (zeros_shape num A N K)) as HV1.
      assert (HV2 : zero_rows_gen N K vl (fst (init_rows num A K vl (zeros num A N K) s1))).
      { intros i k _ _ Hn. apply init_rows_zeros_outside. exact Hn. }
      destruct (init_rows num A K vl (zeros num A N K) s1) as [vt s2]. cbn [fst] in HV1, HV2.
      specialize (HU s2).
      destruct (init_rows num A K ul (zeros num A N K) s2) as [ut s3]. cbn [fst snd] in *.
      unfold wf_state. cbn [fst snd]. destruct HU as (HU1 & HU2).
      split; [exact HU1|]. split; [exact HU2|]. intros _. split; assumption.
    - specialize (HU s1).
      destruct (init_rows num A K ul (zeros num A N K) s1) as [ut s3]. cbn [fst snd] in *.
      unfold wf_state. cbn [fst snd]. destruct HU as (HU1 & HU2).
      split; [exact HU1|]. split; [exact HU2|]. discriminate.
  Qed.

  (* ---------------------------------------------------------------------------------------- *)
  (* a state invariant through Solver::run, generically                                       *)
  (*   PS : invariant of the working state, preserved by the sweep;                           *)
  (*   QI, QW, QS, QV : what the start state needs from the buffers (initialiser state,       *)
  (*   caller's tensor, stream, v_temp when undirected).                                      *)
  (* ---------------------------------------------------------------------------------------- *)
  Section RunInv.
    Variable W : Type.
    Notation st := (matrix num * matrix num * W)%type.
    Variable sw : st -> st.
    Variable lk : nat -> nat -> st -> num.
    Variable IC : Type.
    Variable initw : IC -> W -> list num -> IC * W * list num.
    Variables (directed : bool) (N K : nat) (ul vl : list nat) (maxit nconv : nat).
    Hypothesis Hmaxit : 1 <= maxit.
    Hypothesis Hnconv : 1 <= nconv.

    Notation RUN r := (run num A W sw lk IC initw directed N K ul vl r maxit nconv).
    Notation START b := (start_of num A W IC initw directed N K ul vl b).
    Notation FINAL b i := (final_of num A W sw lk IC initw directed N K ul vl maxit nconv b i).
    Notation ONE b i := (one_realization num A W sw lk IC initw directed N K ul vl maxit nconv b i).

    (* the final working state of a realization is some number of sweeps of its start state *)
    Lemma final_of_iter b i : exists n, FINAL b i = iter_sweep num W sw n (snd (fst (START b))).
    Proof.
      unfold final_of, real_of.
      pose proof (realization_spec num A W sw lk i maxit nconv (snd (fst (START b))) Hmaxit Hnconv) as H.
      destruct (realization num A W sw lk maxit i maxit nconv
                  {| ls_s := snd (fst (START b)); ls_it := 0; ls_coin := 0; ls_L2 := lowest A |})
        as [c rs].
      destruct (CtrlSpec.run_ctrl maxit nconv (passes num A W sw lk i (snd (fst (START b)))) maxit 0 0)
        as [n rs'].
      exists n. cbn [fst]. destruct H as (_ & _ & H & _). exact H.
    Qed.

    Variable PS : st -> Prop.
    Hypothesis sw_pres : forall s, PS s -> PS (sw s).
    Variable QI : IC -> Prop.
    Variable QW : W -> Prop.
    Variable QS : list num -> Prop.
    Variable QV : matrix num -> Prop.

    Definition QB (b : bufs num W IC) : Prop :=
      QI (ic b) /\ QW (cw b) /\ QS (strm b) /\ (directed = false -> QV (tv b)).

    Hypothesis Hstart : forall b, QB b ->
      PS (snd (fst (START b))) /\ QI (fst (fst (START b))) /\ QS (snd (START b)).
    Hypothesis Hout : forall s, PS s -> QW (snd s) /\ QV (snd (fst s)).

    Lemma final_PS b i : QB b -> PS (FINAL b i).
    Proof.
      intros Hb. destruct (final_of_iter b i) as (n & ->).
      apply iter_sweep_pres; [exact sw_pres|]. apply (Hstart b Hb).
    Qed.

    Lemma one_real_QB b i : QB b -> QB (ONE b i).
    Proof.
      intros Hb. pose proof (final_PS b i Hb) as Hf.
      destruct (Hout _ Hf) as (HfW & HfV). destruct (Hstart b Hb) as (_ & HI & HS).
      destruct Hb as (_ & HW & _ & _).
      rewrite one_real_eq. cbv zeta. unfold QB.
      destruct (ltb A _ _); cbn [ic cw strm tv]; unfold fw, fv.
      - split; [exact HI|]. split; [exact HfW|]. split; [exact HS|]. intros ->. exact HfV.
      - split; [exact HI|]. split; [exact HW|]. split; [exact HS|]. intros _. exact HfV.
    Qed.

    Lemma run_QB r b0 : QB b0 -> QB (RUN r b0).
    Proof.
      intros H0. induction r as [|r IH]; [exact H0|]. rewrite run_S. apply one_real_QB, IH.
    Qed.

    (* the returned factors of an adopting run are the components of ONE state satisfying PS *)
    Theorem run_adopted r b0 : rep b0 = [] -> QB b0 ->
      best_index num A (map snd (rep (RUN r b0))) <> None ->
      exists s, PS s /\ cu (RUN r b0) = fst (fst s) /\ cw (RUN r b0) = snd s /\
                (directed = true -> cv (RUN r b0) = snd (fst s)).
    Proof.
      intros Hrep H0 Hb.
      destruct (best_index num A (map snd (rep (RUN r b0)))) as [i|] eqn:E; [|congruence].
      destruct (run_select num A W sw lk IC initw directed N K ul vl maxit nconv r b0 Hrep) as (Hsel & _).
      destruct (Hsel i E) as (_ & Hu & Hw & Hv).
      exists (FINAL (RUN i b0) i). split; [apply final_PS, run_QB, H0|].
      split; [exact Hu|]. split; [exact Hw|exact Hv].
    Qed.
  End RunInv.

  (* ---------------------------------------------------------------------------------------- *)
  (* structure of the result of `core` on bufs0                                               *)
  (* ---------------------------------------------------------------------------------------- *)
  Lemma core_wf (label W : Type) sw lk (IC : Type) initw toflat directed N K ul vl r maxit nconv
        (labels : list label) u0 v0 w0 wz ic0 stream :
    1 <= maxit -> 1 <= nconv ->
    (forall s, wf_state directed N K ul vl s -> wf_state directed N K ul vl (sw s)) ->
    forall res,
    res = core num A label W sw lk IC initw toflat directed N K ul vl r maxit nconv labels
               (bufs0 num A W IC N K u0 v0 w0 wz ic0 stream) ->
    best_index num A (map snd (r_rep num label res)) <> None ->
    mshape N K (r_u num label res) /\ zero_rows_gen N K ul (r_u num label res) /\
    (directed = true -> mshape N K (r_v num label res) /\ zero_rows_gen N K vl (r_v num label res)).
  Proof.
    intros Hm Hn Hsw res -> Hb. unfold core in *. cbn [r_u r_v r_rep] in *.
    destruct (run_adopted W sw lk IC initw directed N K ul vl maxit nconv Hm Hn
                (wf_state directed N K ul vl) Hsw
                (fun _ => True) (fun _ => True) (fun _ => True) (fun _ => True)) with
      (r := r) (b0 := bufs0 num A W IC N K u0 v0 w0 wz ic0 stream)
      as (s & (S1 & S2 & S3) & Eu & _ & Ev).
    - intros b _. split; [apply start_of_wf|split; exact I].
    - intros s _. split; exact I.
    - reflexivity.
    - unfold QB. repeat split.
    - exact Hb.
    - rewrite Eu. split; [exact S1|]. split; [exact S2|].
      intros Hd. rewrite (Ev Hd). exact (S3 Hd).
  Qed.

  (* ---------------------------------------------------------------------------------------- *)
  (* W4 : factorize                                                                           *)
  (* ---------------------------------------------------------------------------------------- *)
  Section Factorize.
    Variable label : Type.
    Variable leqb : label -> label -> bool.
    Hypothesis leqb_spec : forall a b, leqb a b = true <-> a = b.
    Variable wt : Type.
    Variable countf : wt -> nat.
    Variable ovr : nat -> nat -> num -> num.

    Lemma zip3_fst_snd (s e : list label) (c : list (list nat)) :
      length s = length e -> length c = length s ->
      map (fun r : label * label * list nat => fst (fst r)) (zip3 label s e c) = s /\
      map (fun r : label * label * list nat => snd (fst r)) (zip3 label s e c) = e.
    Proof.
      revert e c. induction s as [|a s IH]; intros [|b e] [|z c] He Hc; try discriminate.
      - split; reflexivity.
      - cbn [zip3 map fst snd]. destruct (IH e c) as (-> & ->); cbn in *; try lia. split; reflexivity.
    Qed.

    Variables (directed assort from_init : bool) (starts ends : list label) (weights : list wt)
              (r maxit nconv u_rows u_cols : nat) (u0 v0 : matrix num) (aff0 stream : list num).

    Notation F := (factorize num A label leqb wt countf ovr directed assort from_init starts ends weights
                             r maxit nconv u_rows u_cols u0 v0 aff0 stream).
    Notation V := (validate label leqb wt assort starts ends weights (length aff0) u_rows u_cols r maxit nconv).
    Notation RECS L := (records label wt countf L starts ends weights).
    Notation NET L := (build label leqb directed L (RECS L)).

    (* the label table: no adoption hypothesis needed *)
    Theorem factorize_labels res L K N :
      F = Ok num label res -> V = Accept L K N ->
      r_labels num label res = tbl label (NET L) /\
      r_labels num label res =
        dedup label leqb [] (flat_map (fun r => [fst (fst r); snd (fst r)]) (RECS L)) /\
      r_labels num label res = dedup label leqb [] (interleave (combine starts ends)) /\
      NoDup (r_labels num label res) /\
      length (r_labels num label res) = N /\
      N = get_num_vertices label leqb starts ends /\
      length (r_rep num label res) = r.
    Proof.
      intros HF HV.
      destruct (factorize_ok_shape num A label leqb wt countf ovr directed assort from_init starts ends
                  weights r maxit nconv u_rows u_cols u0 v0 aff0 stream res L K N HF HV) as (Hrep & Hlab).
      pose proof (proj1 (validate_accept_iff label leqb wt assort starts ends weights (length aff0)
                           u_rows u_cols r maxit nconv L K N) HV) as SC.
      destruct SC as (S1 & S2 & S3 & S4 & S5 & S6 & S7 & S8 & S9 & S10 & S11 & S12 & S13).
      destruct (build_tbl label leqb leqb_spec directed L (RECS L)) as (Ht & Hnd).
      assert (Hc : length (map (map countf) (chunk L (length starts) weights)) = length starts)
        by (rewrite map_length; apply chunk_length).
      split; [exact Hlab|]. split; [rewrite Hlab; exact Ht|].
      split.
      { rewrite Hlab, Ht. unfold records.
        change (flat_map (fun r : label * label * list nat => [fst (fst r); snd (fst r)])
                         (zip3 label starts ends (map (map countf) (chunk L (length starts) weights))))
          with (labels_of (zip3 label starts ends (map (map countf) (chunk L (length starts) weights)))).
        rewrite labels_of_zip3 by (try exact Hc; symmetry; exact S2). reflexivity. }
      split; [rewrite Hlab; exact Hnd|].
      split; [|split; [exact S7|exact Hrep]].
      rewrite Hlab, S7, <- (get_num_vertices_spec label leqb leqb_spec directed L (RECS L)).
      unfold records.
      destruct (zip3_fst_snd starts ends (map (map countf) (chunk L (length starts) weights))
                  (eq_sym S2) Hc) as (-> & ->).
      reflexivity.
    Qed.

    Theorem factorize_wellformed_structure res L K N :
      F = Ok num label res -> V = Accept L K N ->
      best_index num A (map snd (r_rep num label res)) <> None ->
      let g := NET L in
      (* labels *)
      r_labels num label res = tbl label g /\
      r_labels num label res = dedup label leqb [] (interleave (combine starts ends)) /\
      NoDup (r_labels num label res) /\
      length (r_labels num label res) = N /\
      (* shapes *)
      mshape N K (r_u num label res) /\
      (directed = true -> mshape N K (r_v num label res)) /\
      (* zero rows *)
      (forall i k, i < N -> k < K -> ~ In i (u_list label g) -> mget (r_u num label res) i k = Z0) /\
      (directed = true -> forall i k, i < N -> k < K -> ~ In i (v_list label true g) ->
                          mget (r_v num label res) i k = Z0) /\
      (* report *)
      length (r_rep num label res) = r.
    Proof.
      intros HF HV Hb g.
      destruct (factorize_labels res L K N HF HV) as (L1 & _ & L3 & L4 & L5 & _ & L7).
      pose proof (proj1 (validate_accept_iff label leqb wt assort starts ends weights (length aff0)
                           u_rows u_cols r maxit nconv L K N) HV) as SC.
      destruct SC as (S1 & S2 & S3 & S4 & S5 & S6 & S7 & S8 & S9 & S10 & S11 & S12 & S13).
      assert (WF : mshape N K (r_u num label res) /\
                   zero_rows_gen N K (u_list label g) (r_u num label res) /\
                   (directed = true -> mshape N K (r_v num label res) /\
                                       zero_rows_gen N K (v_list label directed g) (r_v num label res))).
      { clear L1 L3 L4 L5 L7. unfold factorize in HF. rewrite HV in HF. cbv zeta in HF.
        unfold the_net in HF. fold g in HF.
        destruct assort, from_init; injection HF as <-;
          (eapply core_wf; [exact S12|exact S13| |reflexivity|exact Hb]);
          first [exact (sweep_gen_wf N K L directed (graph_of label directed g))
                |exact (sweep_ass_wf N K L directed (graph_of label directed g))]. }
      destruct WF as (W1 & W2 & W3).
      split; [exact L1|]. split; [exact L3|]. split; [exact L4|]. split; [exact L5|].
      split; [exact W1|]. split; [intros Hd; apply (W3 Hd)|]. split; [exact W2|].
      split; [|exact L7].
      intros Hd. destruct (W3 Hd) as (_ & W4). rewrite Hd in W4. exact W4.
    Qed.

    (* the same in row form, with the lists spelled out: the row of a vertex with no outgoing edge in
       any layer (undirected: no incident edge) is the zero row of length K; directed: same for the
       rows of v of vertices with no incoming edge *)
    Corollary factorize_isolated_rows_zero res L K N :
      F = Ok num label res -> V = Accept L K N ->
      best_index num A (map snd (r_rep num label res)) <> None ->
      let g := NET L in
      (forall i, i < N -> (forall y, In y (lays label g) -> nth i (lout y) [] = []) ->
                 nth i (r_u num label res) [] = repeat Z0 K) /\
      (directed = true ->
       forall i, i < N -> (forall y, In y (lays label g) -> nth i (lin y) [] = []) ->
                 nth i (r_v num label res) [] = repeat Z0 K).
    Proof.
      intros HF HV Hb g.
      destruct (factorize_wellformed_structure res L K N HF HV Hb)
        as (_ & _ & _ & _ & SU & SV & ZU & ZV & _). fold g in ZU, ZV.
      split.
      - intros i Hi Hno. apply (zero_row_repeat N K _ i SU Hi). intros k Hk. apply ZU; try assumption.
        intros Hin. apply (proj1 (u_list_spec label g)) in Hin. destruct Hin as (_ & y & Hy & Hne).
        apply Hne, Hno, Hy.
      - intros Hd i Hi Hno. apply (zero_row_repeat N K _ i (SV Hd) Hi). intros k Hk.
        apply (ZV Hd); try assumption.
        intros Hin. apply (proj1 (v_list_directed_spec label g)) in Hin.
        destruct Hin as (_ & y & Hy & Hne). apply Hne, Hno, Hy.
    Qed.
  End Factorize.
End Generic.

(* ========================================================================================== *)
(* Part 2 (W5) : non-negativity, over the real arithmetic ArithR                              *)
(* ========================================================================================== *)
(* nonneg_m M (Spec) : forall i k, 0 <= mget M i k  -- all indices, out-of-range reads are 0 *)
Lemma nonneg_m_Forall (M : matrix R) :
  nonneg_m M -> Forall (Forall (fun x : R => (0 <= x)%R)) M.
Proof.
  intros H. apply Forall_forall. intros row Hr. apply Forall_forall. intros x Hx.
  destruct (In_nth _ _ [] Hr) as (i & Hi & Ei). destruct (In_nth _ _ 0%R Hx) as (k & Hk & Ek).
  specialize (H i k). unfold mget in H. cbn [zero ArithR] in H. rewrite Ei, Ek in H. exact H.
Qed.

Lemma w_of_flat_gen_nonneg K L (f : list R) : Forall nn f -> nonneg_t (w_of_flat_gen R ArithR K L f).
Proof.
  intros Hf. apply tget_nn. unfold w_of_flat_gen. apply Forall_forall. intros m Hm.
  apply in_map_iff in Hm. destruct Hm as (a & <- & _).
  intros i k. apply mget_mtab_nonneg. intros k' q' _ _.
  apply (nth_default_or nn f _ _ Hf). unfold nn. cbn. lra.
Qed.

Lemma w_of_flat_ass_nonneg K L (f : list R) : Forall nn f -> nonneg_d (w_of_flat_ass R ArithR K L f).
Proof.
  intros Hf k a. unfold dget.
  apply (nth_default_or nn); [|unfold nn; cbn; lra].
  apply (nth_default_or (Forall nn)); [|constructor].
  unfold w_of_flat_ass. apply Forall_forall. intros row Hr.
  apply in_map_iff in Hr. destruct Hr as (a' & <- & _).
  apply Forall_forall. intros x Hx. apply in_map_iff in Hx. destruct Hx as (k' & <- & _).
  apply (nth_default_or nn f _ _ Hf). unfold nn. cbn. lra.
Qed.

Lemma flat_of_w_gen_nonneg K L w : nonneg_t w -> Forall nn (flat_of_w_gen R ArithR K L w).
Proof.
  intros Hw. unfold flat_of_w_gen. apply Forall_forall. intros x Hx.
  apply in_flat_map in Hx. destruct Hx as (a & _ & Hx).
  apply in_flat_map in Hx. destruct Hx as (q & _ & Hx).
  apply in_map_iff in Hx. destruct Hx as (k & <- & _). apply Hw.
Qed.

Lemma flat_of_w_ass_nonneg K L w : nonneg_d w -> Forall nn (flat_of_w_ass R ArithR K L w).
Proof.
  intros Hw. unfold flat_of_w_ass. apply Forall_forall. intros x Hx.
  apply in_flat_map in Hx. destruct Hx as (a & _ & Hx).
  apply in_map_iff in Hx. destruct Hx as (k & <- & _). apply Hw.
Qed.

(* the four affinity initialisers keep (initialiser state, tensor, stream) non-negative *)
Definition cache_nn {T} (P : T -> Prop) (c : option T) : Prop :=
  match c with Some x => P x | None => True end.

Lemma step_random_gen_nn K L (c : unit) (w : list (matrix R)) s : Forall nn s ->
  True /\ nonneg_t (snd (fst (step_random_gen R ArithR K L c w s))) /\
  Forall nn (snd (step_random_gen R ArithR K L c w s)).
Proof.
  intros Hs. unfold step_random_gen. destruct (init_sym_random_nonneg K L s Hs) as (H1 & H2).
  destruct (init_sym_random R ArithR K L s) as [w' s']. cbn [fst snd] in *. auto.
Qed.

Lemma step_random_ass_nn K L (c : unit) (w : list (list R)) s : Forall nn s ->
  True /\ nonneg_d (snd (fst (step_random_ass R ArithR K L c w s))) /\
  Forall nn (snd (step_random_ass R ArithR K L c w s)).
Proof.
  intros Hs. unfold step_random_ass. destruct (init_diag_random_nonneg K L s Hs) as (H1 & H2).
  destruct (init_diag_random R ArithR K L s) as [w' s']. cbn [fst snd] in *. auto.
Qed.

Lemma step_from_gen_nn K L c (w : list (matrix R)) s :
  cache_nn nonneg_t c -> nonneg_t w -> Forall nn s ->
  cache_nn nonneg_t (fst (fst (step_from_gen R ArithR K L c w s))) /\
  nonneg_t (snd (fst (step_from_gen R ArithR K L c w s))) /\
  Forall nn (snd (step_from_gen R ArithR K L c w s)).
Proof.
  intros Hc Hw Hs. unfold step_from_gen.
  set (cache := match c with Some x => x | None => w end).
  assert (Hca : nonneg_t cache) by (unfold cache; destruct c; assumption).
  destruct (init_from_gen_nonneg K L cache s Hca Hs) as (H1 & H2).
  destruct (init_from_gen R ArithR K L cache s) as [w' s']. cbn [fst snd cache_nn] in *. auto.
Qed.

Lemma step_from_ass_nn K L c (w : list (list R)) s :
  cache_nn nonneg_d c -> nonneg_d w -> Forall nn s ->
  cache_nn nonneg_d (fst (fst (step_from_ass R ArithR K L c w s))) /\
  nonneg_d (snd (fst (step_from_ass R ArithR K L c w s))) /\
  Forall nn (snd (step_from_ass R ArithR K L c w s)).
Proof.
  intros Hc Hw Hs. unfold step_from_ass.
  set (cache := match c with Some x => x | None => w end).
  assert (Hca : nonneg_d cache) by (unfold cache; destruct c; assumption).
  destruct (init_from_ass_nonneg K L cache s Hca Hs) as (H1 & H2).
  destruct (init_from_ass R ArithR K L cache s) as [w' s']. cbn [fst snd cache_nn] in *. auto.
Qed.

Section CoreNonneg.
  Variables (label W : Type).
  Notation st := (matrix R * matrix R * W)%type.
  Variable sw : st -> st.
  Variable lk : nat -> nat -> st -> R.
  Variable IC : Type.
  Variable initw : IC -> W -> list R -> IC * W * list R.
  Variable toflat : W -> list R.
  Variables (directed : bool) (N K : nat) (ul vl : list nat) (r maxit nconv : nat).
  Variable labels : list label.
  Variable PW : W -> Prop.
  Variable PI : IC -> Prop.

  (* = InvProofs.nonneg_state_gen / nonneg_state_ass for PW = nonneg_t / nonneg_d *)
  Definition nn_state (s : st) : Prop :=
    nonneg_m (fst (fst s)) /\ nonneg_m (snd (fst s)) /\ PW (snd s).

  Hypothesis Hmaxit : 1 <= maxit.
  Hypothesis Hnconv : 1 <= nconv.
  Hypothesis sw_nn : forall s, nn_state s -> nn_state (sw s).
  Hypothesis initw_nn : forall c w s, PI c -> PW w -> Forall nn s ->
    PI (fst (fst (initw c w s))) /\ PW (snd (fst (initw c w s))) /\ Forall nn (snd (initw c w s)).
  Hypothesis toflat_nn : forall w, PW w -> Forall nn (toflat w).

  Notation START b := (start_of R ArithR W IC initw directed N K ul vl b).

  (* the start state of a realization is entrywise non-negative, and what is threaded stays so *)
  Lemma start_nn (b : bufs R W IC) :
    PI (ic b) -> PW (cw b) -> Forall nn (strm b) -> (directed = false -> nonneg_m (tv b)) ->
    nn_state (snd (fst (START b))) /\ PI (fst (fst (START b))) /\ Forall nn (snd (START b)).
  Proof.
    intros HI HW HS HV. unfold start_of.
    destruct (initw_nn (ic b) (cw b) (strm b) HI HW HS) as (I1 & I2 & I3).
    destruct (initw (ic b) (cw b) (strm b)) as [[ic' wt] s1]. cbn [fst snd] in I1, I2, I3.
    assert (HU : forall s2, Forall nn s2 ->
               nonneg_m (fst (init_rows R ArithR K ul (zeros R ArithR N K) s2)) /\
               Forall nn (snd (init_rows R ArithR K ul (zeros R ArithR N K) s2)))
      by (intros s2 H2; apply init_rows_nonneg; exact H2).
    destruct directed.
    - destruct (init_rows_nonneg N K vl s1 I3) as (V1 & V2).
      destruct (init_rows R ArithR K vl (zeros R ArithR N K) s1) as [vt s2]. cbn [fst snd] in V1, V2.
      destruct (HU s2 V2) as (U1 & U2).
      destruct (init_rows R ArithR K ul (zeros R ArithR N K) s2) as [ut s3]. cbn [fst snd] in *.
      unfold nn_state. cbn [fst snd]. auto.
    - destruct (HU s1 I3) as (U1 & U2).
      destruct (init_rows R ArithR K ul (zeros R ArithR N K) s1) as [ut s3]. cbn [fst snd] in *.
      unfold nn_state. cbn [fst snd]. auto.
  Qed.

  Theorem core_nonneg u0 v0 w0 wz ic0 stream res :
    PI ic0 -> PW w0 -> Forall nn stream ->
    res = core R ArithR label W sw lk IC initw toflat directed N K ul vl r maxit nconv labels
               (bufs0 R ArithR W IC N K u0 v0 w0 wz ic0 stream) ->
    Forall nn (r_aff R label res) /\
    (best_index R ArithR (map snd (r_rep R label res)) <> None ->
     nonneg_m (r_u R label res) /\ (directed = true -> nonneg_m (r_v R label res))).
  Proof.
    intros HI HW HS ->. unfold core. cbn [r_aff r_u r_v r_rep].
    set (b0 := bufs0 R ArithR W IC N K u0 v0 w0 wz ic0 stream).
    assert (Hstart : forall b, QB R W IC directed PI PW (Forall nn) nonneg_m b ->
               nn_state (snd (fst (START b))) /\ PI (fst (fst (START b))) /\ Forall nn (snd (START b))).
    { intros b (B1 & B2 & B3 & B4). apply start_nn; assumption. }
    assert (Hout : forall s : st, nn_state s -> PW (snd s) /\ nonneg_m (snd (fst s))).
    { intros s (_ & S2 & S3). auto. }
    assert (H0 : QB R W IC directed PI PW (Forall nn) nonneg_m b0).
    { unfold QB, b0, bufs0. cbn [ic cw strm tv]. repeat split; try assumption.
      intros _ i k. rewrite mget_nil. cbn. lra. }
    split.
    - apply toflat_nn.
      apply (run_QB R ArithR W sw lk IC initw directed N K ul vl maxit nconv Hmaxit Hnconv
                    nn_state sw_nn PI PW (Forall nn) nonneg_m Hstart Hout r b0 H0).
    - intros Hb.
      destruct (run_adopted R ArithR W sw lk IC initw directed N K ul vl maxit nconv Hmaxit Hnconv
                  nn_state sw_nn PI PW (Forall nn) nonneg_m Hstart Hout r b0 eq_refl H0 Hb)
        as (s & (S1 & S2 & _) & Eu & _ & Ev).
      rewrite Eu. split; [exact S1|]. intros Hd. rewrite (Ev Hd). exact S2.
  Qed.
End CoreNonneg.

Section FactorizeNonneg.
  Variable label : Type.
  Variable leqb : label -> label -> bool.
  Variable wt : Type.
  Variable countf : wt -> nat.
  Variable ovr : nat -> nat -> R -> R.
  Variables (directed assort from_init : bool) (starts ends : list label) (weights : list wt)
            (r maxit nconv u_rows u_cols : nat) (u0 v0 : matrix R) (aff0 stream : list R).

  (* NOTE: no hypothesis on the hook `ovr`, on leqb, or on u0 / v0.  The affinity part needs no adoption
     hypothesis (when nothing is adopted the caller's tensor w_of_flat aff0 is returned); the membership
     part does (when nothing is adopted u0, v0 are returned unchanged: factorize_nothing_adopted). *)
  Theorem factorize_nonneg res :
    factorize R ArithR label leqb wt countf ovr directed assort from_init starts ends weights
              r maxit nconv u_rows u_cols u0 v0 aff0 stream = Ok R label res ->
    Forall (fun x : R => (0 <= x)%R) stream ->
    Forall (fun x : R => (0 <= x)%R) aff0 ->
    Forall (fun x : R => (0 <= x)%R) (r_aff R label res) /\
    (best_index R ArithR (map snd (r_rep R label res)) <> None ->
     (forall i k, (0 <= mget R ArithR (r_u R label res) i k)%R) /\
     Forall (Forall (fun x : R => (0 <= x)%R)) (r_u R label res) /\
     (directed = true ->
      (forall i k, (0 <= mget R ArithR (r_v R label res) i k)%R) /\
      Forall (Forall (fun x : R => (0 <= x)%R)) (r_v R label res))).
  Proof.
    intros HF Hs Ha.
    destruct (factorize_ok_accept R ArithR label leqb wt countf ovr directed assort from_init starts ends
                weights r maxit nconv u_rows u_cols u0 v0 aff0 stream res HF) as (L & K & N & HV).
    pose proof (proj1 (validate_accept_iff label leqb wt assort starts ends weights (length aff0)
                         u_rows u_cols r maxit nconv L K N) HV) as SC.
    destruct SC as (S1 & S2 & S3 & S4 & S5 & S6 & S7 & S8 & S9 & S10 & S11 & S12 & S13).
    assert (C : Forall nn (r_aff R label res) /\
                (best_index R ArithR (map snd (r_rep R label res)) <> None ->
                 nonneg_m (r_u R label res) /\ (directed = true -> nonneg_m (r_v R label res)))).
    { unfold factorize in HF. rewrite HV in HF. cbv zeta in HF.
      destruct assort, from_init; injection HF as HF; symmetry in HF.
      - (* assortative, from the caller's tensor *)
        eapply (core_nonneg label _ _ _ _ _ _ directed N K _ _ r maxit nconv _
                  nonneg_d (cache_nn nonneg_d) S12 S13
                  (sweep_ass_nonneg N K L directed _)
                  (step_from_ass_nn K L) (flat_of_w_ass_nonneg K L));
          [ | | |exact HF]; [exact I|apply w_of_flat_ass_nonneg; exact Ha|exact Hs].
      - (* assortative, random *)
        eapply (core_nonneg label _ _ _ _ _ _ directed N K _ _ r maxit nconv _
                  nonneg_d (fun _ => True) S12 S13
                  (sweep_ass_nonneg N K L directed _)
                  (fun c w s _ _ H => step_random_ass_nn K L c w s H) (flat_of_w_ass_nonneg K L));
          [ | | |exact HF]; [exact I|apply w_of_flat_ass_nonneg; exact Ha|exact Hs].
      - (* general, from the caller's tensor *)
        eapply (core_nonneg label _ _ _ _ _ _ directed N K _ _ r maxit nconv _
                  nonneg_t (cache_nn nonneg_t) S12 S13
                  (sweep_gen_nonneg N K L directed _)
                  (step_from_gen_nn K L) (flat_of_w_gen_nonneg K L));
          [ | | |exact HF]; [exact I|apply w_of_flat_gen_nonneg; exact Ha|exact Hs].
      - (* general, random *)
        eapply (core_nonneg label _ _ _ _ _ _ directed N K _ _ r maxit nconv _
                  nonneg_t (fun _ => True) S12 S13
                  (sweep_gen_nonneg N K L directed _)
                  (fun c w s _ _ H => step_random_gen_nn K L c w s H) (flat_of_w_gen_nonneg K L));
          [ | | |exact HF]; [exact I|apply w_of_flat_gen_nonneg; exact Ha|exact Hs]. }
    destruct C as (C1 & C2). split; [exact C1|].
    intros Hb. destruct (C2 Hb) as (Cu & Cv).
    split; [exact Cu|]. split; [apply nonneg_m_Forall; exact Cu|].
    intros Hd. split; [exact (Cv Hd)|apply nonneg_m_Forall; exact (Cv Hd)].
  Qed.
End FactorizeNonneg.

(* W5, realization level (what factorize_nonneg is assembled from): from a non-negative start state every
   iterate of the sweep is non-negative -- InvProofs.sweep_nonneg restated on CtrlProofs.iter_sweep *)
Theorem iter_sweep_nonneg N K L d G n :
  (forall s, nonneg_state_gen s ->
             nonneg_state_gen (iter_sweep R _ (sweep_gen R ArithR N K L d G) n s)) /\
  (forall s, nonneg_state_ass s ->
             nonneg_state_ass (iter_sweep R _ (sweep_ass R ArithR N K L d G) n s)).
Proof.
  split; intros s Hs.
  - apply (iter_sweep_pres R _ nonneg_state_gen); [apply sweep_gen_nonneg|exact Hs].
  - apply (iter_sweep_pres R _ nonneg_state_ass); [apply sweep_ass_nonneg|exact Hs].
Qed.

(* non-vacuity of the hypotheses of W4 (FactorizeProofs.ex_call: num = nat, directed, assortative, random
   start, a hook reporting a likelihood above lowest()): accepted with (L, K, N) = (1, 2, 2), Ok, adopted *)
Example wellformed_hypotheses_satisfiable :
  exists res,
    ex_call (fun _ _ x => S x) [[7; 7]; [7; 7]] = Ok nat nat res /\
    validate nat Nat.eqb nat true [0] [1] [1] (length [1; 1]) 2 2 1 1 1 = Accept 1 2 2 /\
    best_index nat natA (map snd (r_rep nat nat res)) <> None /\
    r_labels nat nat res = [0; 1] /\ length (r_u nat nat res) = 2 /\
    nth 1 (r_u nat nat res) [] = [0; 0] /\ nth 0 (r_v nat nat res) [] = [0; 0].
Proof. eexists. vm_compute. repeat split; try reflexivity. discriminate. Qed.

Print Assumptions sweep_shape.
Print Assumptions sweep_zero_rows.
Print Assumptions iter_sweep_invariant.
Print Assumptions factorize_labels.
Print Assumptions factorize_wellformed_structure.
Print Assumptions factorize_isolated_rows_zero.
Print Assumptions factorize_nonneg.
Print Assumptions iter_sweep_nonneg.
