(* GraphProofs.v -- structural facts about GraphModel.build (G1..G8).
   Everything is proved for arbitrary directed / L / recs (no size bound), for any label type whose
   boolean equality leqb decides Leibniz equality. *)
From Coq Require Import List Arith Bool Lia Sorted Permutation.
Import ListNotations.
From MT Require Import Arith SweepModel GraphModel.

(* GraphModel.v ends with `Arguments lout {_}. Arguments lin {_}.`; since `layer` does not depend on
   the section variable `label`, that makes the LAYER argument of the projections implicit.  Undo it
   locally so that `lout y` / `lin y` can be written; the terms are the same. *)
#[local] Arguments lout : clear implicits.
#[local] Arguments lin : clear implicits.

(* ------------------------------------------------------------------------------------------ *)
(* label-independent list facts                                                                *)
(* ------------------------------------------------------------------------------------------ *)

Lemma NoDup_snoc : forall (A : Type) (l : list A) (a : A), NoDup l -> ~ In a l -> NoDup (l ++ [a]).
Proof.
  intros A l a Hnd Hnin.
  apply (Permutation_NoDup (Permutation_cons_append l a)).
  constructor; assumption.
Qed.

Lemma fold_add_list_sum : forall (l : list nat) (a : nat), fold_left Nat.add l a = a + list_sum l.
Proof.
  induction l as [|x l IHl]; intros a; simpl.
  - lia.
  - rewrite IHl. lia.
Qed.

Lemma SSorted_seq : forall n a, StronglySorted lt (seq a n).
Proof.
  induction n as [|n IHn]; intros a; simpl.
  - constructor.
  - constructor.
    + apply IHn.
    + apply Forall_forall. intros x Hx. apply in_seq in Hx. lia.
Qed.

Lemma SSorted_filter : forall (A : Type) (R : A -> A -> Prop) (f : A -> bool) (l : list A),
  StronglySorted R l -> StronglySorted R (filter f l).
Proof.
  intros A R f l Hs. induction Hs as [|a l Hs IHs Hall]; simpl.
  - constructor.
  - destruct (f a).
    + constructor.
      * exact IHs.
      * apply Forall_forall. intros x Hx. apply filter_In in Hx. destruct Hx as [Hx _].
        rewrite Forall_forall in Hall. apply Hall. exact Hx.
    + exact IHs.
Qed.

Lemma SSorted_lt_NoDup : forall l : list nat, StronglySorted lt l -> NoDup l.
Proof.
  intros l Hs. induction Hs as [|a l Hs IHs Hall].
  - constructor.
  - constructor.
    + intro Hin. rewrite Forall_forall in Hall. specialize (Hall a Hin). lia.
    + exact IHs.
Qed.

Lemma nonempty_spec : forall l : list nat, nonempty l = true <-> l <> [].
Proof.
  intros l. destruct l as [|x l]; simpl.
  - split; [discriminate | intro H; exfalso; apply H; reflexivity].
  - split; [intros _; discriminate | reflexivity].
Qed.

Lemma nth_nil_nil : forall i : nat, nth i (@nil (list nat)) [] = [].
Proof. intros i. destruct i; reflexivity. Qed.

(* app_at *)
Lemma app_at_length : forall ls s x, length (app_at s x ls) = length ls.
Proof.
  induction ls as [|l ls IHls]; intros s x.
  - destruct s; reflexivity.
  - destruct s; simpl.
    + reflexivity.
    + rewrite IHls. reflexivity.
Qed.

Lemma app_at_nth : forall ls s x i, s < length ls ->
  nth i (app_at s x ls) [] = if i =? s then nth i ls [] ++ [x] else nth i ls [].
Proof.
  induction ls as [|l ls IHls]; intros s x i Hs.
  - simpl in Hs. lia.
  - destruct s as [|s]; simpl app_at.
    + destruct i; reflexivity.
    + destruct i as [|i]; simpl.
      * reflexivity.
      * apply IHls. simpl in Hs. lia.
Qed.

Lemma app_at_oob : forall ls s x, length ls <= s -> app_at s x ls = ls.
Proof.
  induction ls as [|l ls IHls]; intros s x Hs.
  - destruct s; reflexivity.
  - destruct s as [|s]; simpl in *.
    + lia.
    + rewrite IHls by lia. reflexivity.
Qed.

Lemma app_at_In : forall ls s x i j,
  In j (nth i (app_at s x ls) []) -> In j (nth i ls []) \/ j = x.
Proof.
  intros ls s x i j Hin.
  destruct (lt_dec s (length ls)) as [Hlt|Hge].
  - rewrite app_at_nth in Hin by exact Hlt.
    destruct (i =? s).
    + apply in_app_iff in Hin. destruct Hin as [Hin|Hin].
      * left. exact Hin.
      * right. simpl in Hin. destruct Hin as [Hin|[]]. symmetry. exact Hin.
    + left. exact Hin.
  - rewrite app_at_oob in Hin by lia. left. exact Hin.
Qed.

Lemma iter_pres : forall (T : Type) (P : T -> Prop) (f : T -> T),
  (forall x, P x -> P (f x)) -> forall n x, P x -> P (iter n f x).
Proof.
  intros T P f Hf. induction n as [|n IHn]; intros x Hx; simpl.
  - exact Hx.
  - apply IHn. apply Hf. exact Hx.
Qed.

(* per-layer well-formedness for a network with N vertices *)
Definition lay_ok (directed : bool) (N : nat) (y : layer) : Prop :=
  length (lout y) = N /\ length (lin y) = N /\
  (forall i j, In j (nth i (lout y) []) -> j < N) /\
  (forall i j, In j (nth i (lin y) []) -> j < N) /\
  (directed = false -> Forall (fun l => l = []) (lin y)).

Lemma lay_ok_empty : forall directed, lay_ok directed 0 empty_layer.
Proof.
  intros directed. unfold lay_ok, empty_layer; simpl.
  repeat split.
  - intros i j Hin. destruct i; destruct Hin.
  - intros i j Hin. destruct i; destruct Hin.
  - intros _. constructor.
Qed.

Lemma grow_nth_In : forall (ls : list (list nat)) i j,
  In j (nth i (ls ++ [[]]) []) -> In j (nth i ls []).
Proof.
  intros ls i j Hin.
  destruct (lt_dec i (length ls)) as [Hlt|Hge].
  - rewrite app_nth1 in Hin by exact Hlt. exact Hin.
  - rewrite app_nth2 in Hin by lia.
    destruct (i - length ls) as [|[|k]]; simpl in Hin; destruct Hin.
Qed.

Lemma lay_ok_grow : forall directed N y, lay_ok directed N y -> lay_ok directed (S N) (grow y).
Proof.
  intros directed N y (Hlo & Hli & Hbo & Hbi & Hund).
  unfold lay_ok, grow; simpl.
  repeat split.
  - rewrite app_length; simpl. lia.
  - rewrite app_length; simpl. lia.
  - intros i j Hin. apply grow_nth_In in Hin. apply Hbo in Hin. lia.
  - intros i j Hin. apply grow_nth_In in Hin. apply Hbi in Hin. lia.
  - intros Hd. apply Forall_app. split.
    + apply Hund. exact Hd.
    + constructor; [reflexivity | constructor].
Qed.

Lemma lay_ok_add_edge1 : forall directed N s t y, s < N -> t < N ->
  lay_ok directed N y -> lay_ok directed N (add_edge1 directed s t y).
Proof.
  intros directed N s t y Hs Ht (Hlo & Hli & Hbo & Hbi & Hund).
  unfold lay_ok, add_edge1. destruct directed; simpl.
  - repeat split.
    + rewrite app_at_length. exact Hlo.
    + rewrite app_at_length. exact Hli.
    + intros i j Hin. apply app_at_In in Hin. destruct Hin as [Hin|Hin].
      * apply (Hbo i j Hin).
      * subst j. exact Ht.
    + intros i j Hin. apply app_at_In in Hin. destruct Hin as [Hin|Hin].
      * apply (Hbi i j Hin).
      * subst j. exact Hs.
    + intros Hd. discriminate Hd.
  - repeat split.
    + rewrite !app_at_length. exact Hlo.
    + exact Hli.
    + intros i j Hin. apply app_at_In in Hin. destruct Hin as [Hin|Hin].
      * apply app_at_In in Hin. destruct Hin as [Hin|Hin].
        -- apply (Hbo i j Hin).
        -- subst j. exact Ht.
      * subst j. exact Hs.
    + exact Hbi.
    + exact Hund.
Qed.

Lemma add_edges_layers_length : forall directed s t ys counts,
  length (add_edges_layers directed s t counts ys) = length ys.
Proof.
  intros directed s t. induction ys as [|y ys IHys]; intros counts.
  - destruct counts; reflexivity.
  - destruct counts as [|c cr]; simpl.
    + reflexivity.
    + rewrite IHys. reflexivity.
Qed.

Lemma add_edges_layers_ok : forall directed N s t, s < N -> t < N ->
  forall ys counts, Forall (lay_ok directed N) ys ->
  Forall (lay_ok directed N) (add_edges_layers directed s t counts ys).
Proof.
  intros directed N s t Hs Ht. induction ys as [|y ys IHys]; intros counts Hall.
  - destruct counts; constructor.
  - destruct counts as [|c cr]; simpl.
    + exact Hall.
    + inversion Hall as [|y' ys' Hy Hys]; subst. constructor.
      * apply iter_pres; [|exact Hy]. intros x Hx. apply lay_ok_add_edge1; assumption.
      * apply IHys. exact Hys.
Qed.

(* ------------------------------------------------------------------------------------------ *)
Section GraphProofs.
  Variable label : Type.
  Variable leqb : label -> label -> bool.
  Hypothesis leqb_spec : forall a b, leqb a b = true <-> a = b.

  Local Notation net := (net label).
  Local Notation tbl := (tbl label).
  Local Notation lays := (lays label).
  Local Notation nedges := (nedges label).
  Local Notation lookup := (lookup label leqb).
  Local Notation lookup_from := (lookup_from label leqb).
  Local Notation dedup := (dedup label leqb).
  Local Notation add_vertex := (add_vertex label leqb).
  Local Notation add_record := (add_record label leqb).
  Local Notation build := (build label leqb).
  Local Notation u_list := (u_list label).
  Local Notation v_list := (v_list label).
  Local Notation has_edge := (has_edge label).
  Local Notation graph_of := (graph_of label).
  Local Notation get_num_vertices := (get_num_vertices label leqb).

  Definition ends_of (r : label * label * list nat) : list label := [fst (fst r); snd (fst r)].

  (* ---------------------------------------------------------------------------------------- *)
  (* G2: lookup                                                                                *)
  (* ---------------------------------------------------------------------------------------- *)

  Lemma existsb_leqb_In : forall l t, existsb (leqb l) t = true <-> In l t.
  Proof.
    intros l t. rewrite existsb_exists. split.
    - intros [x [Hin Hx]]. apply leqb_spec in Hx. subst x. exact Hin.
    - intros Hin. exists l. split; [exact Hin | apply leqb_spec; reflexivity].
  Qed.

  Lemma leqb_refl : forall l, leqb l l = true.
  Proof. intros l. apply leqb_spec. reflexivity. Qed.

  Lemma lookup_from_None : forall l t k,
    lookup_from l t k = None <-> existsb (leqb l) t = false.
  Proof.
    intros l. induction t as [|a t IHt]; intros k; simpl.
    - split; reflexivity.
    - destruct (leqb l a); simpl.
      + split; discriminate.
      + apply IHt.
  Qed.

  Lemma lookup_from_Some : forall l t k i, NoDup t ->
    (lookup_from l t k = Some i <-> k <= i /\ nth_error t (i - k) = Some l).
  Proof.
    intros l. induction t as [|a t IHt]; intros k i Hnd; simpl.
    - split.
      + discriminate.
      + intros [_ H]. destruct (i - k); discriminate H.
    - inversion Hnd as [|a' t' Hnin Hnd']; subst.
      destruct (leqb l a) eqn:Ela.
      + apply leqb_spec in Ela. subst a. split.
        * intros H. injection H as H. subst i. split; [lia|].
          rewrite Nat.sub_diag. reflexivity.
        * intros [Hle H]. destruct (i - k) as [|m] eqn:Em.
          -- f_equal. lia.
          -- simpl in H. apply nth_error_In in H. contradiction.
      + rewrite (IHt (S k) i Hnd'). split.
        * intros [Hle H]. split; [lia|].
          replace (i - k) with (S (i - S k)) by lia. simpl. exact H.
        * intros [Hle H]. destruct (i - k) as [|m] eqn:Em.
          -- simpl in H. injection H as H. subst a. rewrite leqb_refl in Ela. discriminate Ela.
          -- simpl in H. split; [lia|]. replace (i - S k) with m by lia. exact H.
  Qed.

  (* G2 *)
  Theorem lookup_spec : forall l t i, NoDup t ->
    (lookup l t = Some i <-> nth_error t i = Some l).
  Proof.
    intros l t i Hnd. unfold GraphModel.lookup.
    rewrite (lookup_from_Some l t 0 i Hnd). rewrite Nat.sub_0_r. split.
    - intros [_ H]. exact H.
    - intros H. split; [lia | exact H].
  Qed.

  Theorem lookup_None_spec : forall l t, lookup l t = None <-> ~ In l t.
  Proof.
    intros l t. unfold GraphModel.lookup. rewrite lookup_from_None.
    rewrite <- not_true_iff_false. rewrite existsb_leqb_In. reflexivity.
  Qed.

  Lemma lookup_from_range : forall l t k i, lookup_from l t k = Some i -> k <= i < k + length t.
  Proof.
    intros l. induction t as [|a t IHt]; intros k i H; simpl in H.
    - discriminate H.
    - destruct (leqb l a).
      + injection H as H. subst i. simpl. lia.
      + apply IHt in H. simpl. lia.
  Qed.

  Corollary lookup_lt : forall l t i, lookup l t = Some i -> i < length t.
  Proof.
    intros l t i H. unfold GraphModel.lookup in H. apply lookup_from_range in H. lia.
  Qed.

  (* label <-> index is a bijection between the (distinct) labels of a NoDup table and 0..N-1 *)
  Corollary lookup_bijection : forall t, NoDup t ->
    (forall l, In l t -> exists i, i < length t /\ lookup l t = Some i /\ nth_error t i = Some l) /\
    (forall i, i < length t -> exists l, nth_error t i = Some l /\ lookup l t = Some i) /\
    (forall l l' i, lookup l t = Some i -> lookup l' t = Some i -> l = l').
  Proof.
    intros t Hnd. repeat split.
    - intros l Hin. apply In_nth_error in Hin. destruct Hin as [i Hi]. exists i.
      split; [|split].
      + apply nth_error_Some. rewrite Hi. discriminate.
      + apply lookup_spec; assumption.
      + exact Hi.
    - intros i Hi. destruct (nth_error t i) as [l|] eqn:El.
      + exists l. split; [reflexivity|]. apply lookup_spec; assumption.
      + apply nth_error_None in El. lia.
    - intros l l' i H H'. apply lookup_spec in H; [|exact Hnd]. apply lookup_spec in H'; [|exact Hnd].
      rewrite H in H'. injection H' as H'. exact H'.
  Qed.

  (* ---------------------------------------------------------------------------------------- *)
  (* dedup                                                                                     *)
  (* ---------------------------------------------------------------------------------------- *)

  Lemma dedup_app : forall l1 l2 seen, dedup seen (l1 ++ l2) = dedup (dedup seen l1) l2.
  Proof.
    induction l1 as [|x l1 IHl1]; intros l2 seen; simpl.
    - reflexivity.
    - destruct (existsb (leqb x) seen); apply IHl1.
  Qed.

  Lemma dedup_In : forall l seen x, In x (dedup seen l) <-> In x seen \/ In x l.
  Proof.
    induction l as [|a l IHl]; intros seen x; simpl.
    - tauto.
    - destruct (existsb (leqb a) seen) eqn:Ea.
      + apply existsb_leqb_In in Ea. rewrite IHl. split.
        * intros [H|H]; auto.
        * intros [H|[H|H]]; auto. subst x. auto.
      + rewrite IHl. rewrite in_app_iff. simpl. tauto.
  Qed.

  Lemma dedup_NoDup : forall l seen, NoDup seen -> NoDup (dedup seen l).
  Proof.
    induction l as [|a l IHl]; intros seen Hnd; simpl.
    - exact Hnd.
    - destruct (existsb (leqb a) seen) eqn:Ea.
      + apply IHl. exact Hnd.
      + apply IHl. apply NoDup_snoc; [exact Hnd|].
        intro Hin. apply existsb_leqb_In in Hin. rewrite Hin in Ea. discriminate Ea.
  Qed.

  (* ---------------------------------------------------------------------------------------- *)
  (* G1: the label table                                                                       *)
  (* ---------------------------------------------------------------------------------------- *)

  Lemma add_vertex_tbl : forall l g, tbl (snd (add_vertex l g)) = dedup (tbl g) [l].
  Proof.
    intros l g. unfold GraphModel.add_vertex. simpl dedup.
    destruct (GraphModel.lookup label leqb l (tbl g)) as [i|] eqn:El; simpl.
    - destruct (existsb (leqb l) (tbl g)) eqn:Ee; [reflexivity|].
      apply (lookup_from_None l (tbl g) 0) in Ee. unfold GraphModel.lookup in El.
      rewrite Ee in El. discriminate El.
    - unfold GraphModel.lookup in El. apply lookup_from_None in El. rewrite El. reflexivity.
  Qed.

  Lemma add_record_tbl : forall directed g r,
    tbl (add_record directed g r) = dedup (tbl g) (ends_of r).
  Proof.
    intros directed g [[ls lt] counts]. unfold GraphModel.add_record, ends_of. simpl fst. simpl snd.
    pose proof (add_vertex_tbl ls g) as H1.
    destruct (GraphModel.add_vertex label leqb ls g) as [s g1].
    pose proof (add_vertex_tbl lt g1) as H2.
    destruct (GraphModel.add_vertex label leqb lt g1) as [t g2].
    simpl in *. rewrite H2, H1. simpl.
    destruct (existsb (leqb ls) (tbl g)); reflexivity.
  Qed.

  Lemma fold_add_record_tbl : forall directed recs g,
    tbl (fold_left (add_record directed) recs g) = dedup (tbl g) (flat_map ends_of recs).
  Proof.
    intros directed. induction recs as [|r recs IHrecs]; intros g.
    - reflexivity.
    - simpl fold_left. rewrite IHrecs. rewrite add_record_tbl.
      change (flat_map ends_of (r :: recs)) with (ends_of r ++ flat_map ends_of recs).
      rewrite dedup_app. reflexivity.
  Qed.

  (* G1 *)
  Theorem build_tbl : forall directed L recs,
    tbl (build directed L recs)
      = dedup [] (flat_map (fun r => [fst (fst r); snd (fst r)]) recs)
    /\ NoDup (tbl (build directed L recs)).
  Proof.
    intros directed L recs.
    assert (H : tbl (build directed L recs)
                = dedup [] (flat_map (fun r => [fst (fst r); snd (fst r)]) recs)).
    { unfold GraphModel.build. rewrite fold_add_record_tbl. reflexivity. }
    split; [exact H|]. rewrite H. apply dedup_NoDup. constructor.
  Qed.

  Lemma build_tbl_In : forall directed L recs x,
    In x (tbl (build directed L recs)) <->
    exists r, In r recs /\ (x = fst (fst r) \/ x = snd (fst r)).
  Proof.
    intros directed L recs x. rewrite (proj1 (build_tbl directed L recs)).
    rewrite dedup_In. rewrite in_flat_map. split.
    - intros [[]|[r [Hr Hx]]]. exists r. split; [exact Hr|].
      simpl in Hx. destruct Hx as [Hx|[Hx|[]]]; auto.
    - intros [r [Hr Hx]]. right. exists r. split; [exact Hr|].
      simpl. destruct Hx as [Hx|Hx]; auto.
  Qed.

  (* records whose multiplicities are all zero (or missing) still create their endpoints *)
  Corollary build_tbl_endpoints : forall directed L recs r, In r recs ->
    In (fst (fst r)) (tbl (build directed L recs)) /\
    In (snd (fst r)) (tbl (build directed L recs)).
  Proof.
    intros directed L recs r Hr. split; apply build_tbl_In; exists r; auto.
  Qed.

  (* ---------------------------------------------------------------------------------------- *)
  (* the invariant                                                                             *)
  (* ---------------------------------------------------------------------------------------- *)

  Definition Inv (directed : bool) (L : nat) (g : net) : Prop :=
    NoDup (tbl g) /\ length (lays g) = L /\ Forall (lay_ok directed (length (tbl g))) (lays g).

  Lemma Inv_empty : forall directed L, Inv directed L (empty_net label L).
  Proof.
    intros directed L. unfold Inv, empty_net; simpl. repeat split.
    - constructor.
    - apply repeat_length.
    - apply Forall_forall. intros y Hy. apply repeat_spec in Hy. subst y.
      apply (lay_ok_empty directed).
  Qed.

  Lemma add_vertex_inv : forall directed L l g i g',
    Inv directed L g -> add_vertex l g = (i, g') ->
    Inv directed L g' /\ i < length (tbl g') /\ length (tbl g) <= length (tbl g').
  Proof.
    intros directed L l g i g' (Hnd & Hlen & Hall) Heq.
    unfold GraphModel.add_vertex in Heq.
    destruct (GraphModel.lookup label leqb l (tbl g)) as [k|] eqn:El.
    - injection Heq as Hi Hg. subst k g'. split; [|split].
      + unfold Inv. split; [|split]; assumption.
      + apply lookup_from_range in El. lia.
      + lia.
    - injection Heq as Hi Hg. subst i g'. unfold Inv. simpl. rewrite app_length. simpl.
      split; [split; [|split] | split].
      + apply NoDup_snoc; [exact Hnd|]. apply lookup_None_spec. exact El.
      + rewrite map_length. exact Hlen.
      + apply Forall_map. replace (length (tbl g) + 1) with (S (length (tbl g))) by lia.
        eapply Forall_impl; [|exact Hall]. intros y Hy. apply lay_ok_grow. exact Hy.
      + lia.
      + lia.
  Qed.

  Lemma add_record_inv : forall directed L g r,
    Inv directed L g -> Inv directed L (add_record directed g r).
  Proof.
    intros directed L g [[ls lt] counts] Hinv. unfold GraphModel.add_record.
    destruct (GraphModel.add_vertex label leqb ls g) as [s g1] eqn:E1.
    destruct (add_vertex_inv directed L ls g s g1 Hinv E1) as (Hinv1 & Hs & _).
    destruct (GraphModel.add_vertex label leqb lt g1) as [t g2] eqn:E2.
    destruct (add_vertex_inv directed L lt g1 t g2 Hinv1 E2) as ((Hnd & Hlen & Hall) & Ht & Hle).
    unfold Inv; simpl. repeat split.
    - exact Hnd.
    - rewrite add_edges_layers_length. exact Hlen.
    - apply add_edges_layers_ok; [lia | exact Ht | exact Hall].
  Qed.

  Lemma fold_add_record_inv : forall directed L recs g,
    Inv directed L g -> Inv directed L (fold_left (add_record directed) recs g).
  Proof.
    intros directed L. induction recs as [|r recs IHrecs]; intros g Hinv; simpl.
    - exact Hinv.
    - apply IHrecs. apply add_record_inv. exact Hinv.
  Qed.

  Theorem build_inv : forall directed L recs, Inv directed L (build directed L recs).
  Proof.
    intros directed L recs. unfold GraphModel.build. apply fold_add_record_inv. apply Inv_empty.
  Qed.

  (* ---------------------------------------------------------------------------------------- *)
  (* G3, G4                                                                                    *)
  (* ---------------------------------------------------------------------------------------- *)

  (* G3 *)
  Theorem build_shape : forall directed L recs,
    length (lays (build directed L recs)) = L /\
    forall y, In y (lays (build directed L recs)) ->
      length (lout y) = length (tbl (build directed L recs)) /\
      length (lin y) = length (tbl (build directed L recs)).
  Proof.
    intros directed L recs. destruct (build_inv directed L recs) as (_ & Hlen & Hall).
    split; [exact Hlen|]. intros y Hy. rewrite Forall_forall in Hall.
    destruct (Hall y Hy) as (Hlo & Hli & _). split; assumption.
  Qed.

  (* G4 *)
  Theorem build_bounds : forall directed L recs,
    (forall y i j, In y (lays (build directed L recs)) ->
       In j (nth i (lout y) []) -> j < length (tbl (build directed L recs))) /\
    (forall y i j, In y (lays (build directed L recs)) ->
       In j (nth i (lin y) []) -> j < length (tbl (build directed L recs))) /\
    (directed = false ->
       forall y, In y (lays (build directed L recs)) ->
         Forall (fun l => l = []) (lin y) /\ forall i, nth i (lin y) [] = []).
  Proof.
    intros directed L recs. destruct (build_inv directed L recs) as (_ & _ & Hall).
    rewrite Forall_forall in Hall. split; [|split].
    - intros y i j Hy Hin. destruct (Hall y Hy) as (_ & _ & Hbo & _). apply (Hbo i j Hin).
    - intros y i j Hy Hin. destruct (Hall y Hy) as (_ & _ & _ & Hbi & _). apply (Hbi i j Hin).
    - intros Hd y Hy. destruct (Hall y Hy) as (_ & _ & _ & _ & Hund). specialize (Hund Hd).
      split; [exact Hund|]. intros i.
      destruct (nth_in_or_default i (lin y) []) as [Hin|Hdef].
      + rewrite Forall_forall in Hund. apply Hund. exact Hin.
      + exact Hdef.
  Qed.

  (* ---------------------------------------------------------------------------------------- *)
  (* G5: u_list / v_list (valid for ANY net, not only built ones)                              *)
  (* ---------------------------------------------------------------------------------------- *)

  Lemma has_edge_spec : forall (sel : layer -> list (list nat)) (g : net) i,
    has_edge sel g i = true <-> exists y, In y (lays g) /\ nth i (sel y) [] <> [].
  Proof.
    intros sel g i. unfold GraphModel.has_edge. rewrite existsb_exists. split.
    - intros [y [Hy Hne]]. exists y. split; [exact Hy|]. apply nonempty_spec. exact Hne.
    - intros [y [Hy Hne]]. exists y. split; [exact Hy|]. apply nonempty_spec. exact Hne.
  Qed.

  Lemma filter_has_edge_In : forall sel (g : net) i,
    In i (filter (has_edge sel g) (seq 0 (length (tbl g)))) <->
    i < length (tbl g) /\ exists y, In y (lays g) /\ nth i (sel y) [] <> [].
  Proof.
    intros sel g i. rewrite filter_In, in_seq, has_edge_spec. split.
    - intros [[_ Hlt] Hex]. split; [simpl in Hlt; exact Hlt | exact Hex].
    - intros [Hlt Hex]. split; [split; [lia | simpl; exact Hlt] | exact Hex].
  Qed.

  Lemma filter_has_edge_sorted : forall sel (g : net),
    StronglySorted lt (filter (has_edge sel g) (seq 0 (length (tbl g)))).
  Proof. intros sel g. apply SSorted_filter. apply SSorted_seq. Qed.

  (* G5 *)
  Theorem u_list_spec : forall (g : net),
    (forall i, In i (u_list g) <->
       i < length (tbl g) /\ exists y, In y (lays g) /\ nth i (lout y) [] <> []) /\
    StronglySorted lt (u_list g) /\ NoDup (u_list g).
  Proof.
    intros g. unfold GraphModel.u_list, num_vertices. split; [|split].
    - intros i. apply filter_has_edge_In.
    - apply filter_has_edge_sorted.
    - apply SSorted_lt_NoDup. apply filter_has_edge_sorted.
  Qed.

  Theorem v_list_directed_spec : forall (g : net),
    (forall i, In i (v_list true g) <->
       i < length (tbl g) /\ exists y, In y (lays g) /\ nth i (lin y) [] <> []) /\
    StronglySorted lt (v_list true g) /\ NoDup (v_list true g).
  Proof.
    intros g. unfold GraphModel.v_list, num_vertices. split; [|split].
    - intros i. apply filter_has_edge_In.
    - apply filter_has_edge_sorted.
    - apply SSorted_lt_NoDup. apply filter_has_edge_sorted.
  Qed.

  Theorem v_list_undirected : forall (g : net), v_list false g = u_list g.
  Proof. intros g. reflexivity. Qed.

  Corollary v_list_sorted : forall directed (g : net),
    StronglySorted lt (v_list directed g) /\ NoDup (v_list directed g) /\
    forall i, In i (v_list directed g) -> i < length (tbl g).
  Proof.
    intros directed g. destruct directed.
    - destruct (v_list_directed_spec g) as (Hin & Hs & Hnd). repeat split; try assumption.
      intros i Hi. apply Hin in Hi. tauto.
    - rewrite v_list_undirected. destruct (u_list_spec g) as (Hin & Hs & Hnd).
      repeat split; try assumption. intros i Hi. apply Hin in Hi. tauto.
  Qed.

  (* ---------------------------------------------------------------------------------------- *)
  (* G6: nedges                                                                                *)
  (* ---------------------------------------------------------------------------------------- *)

  Lemma add_vertex_nedges : forall l g, nedges (snd (add_vertex l g)) = nedges g.
  Proof.
    intros l g. unfold GraphModel.add_vertex.
    destruct (GraphModel.lookup label leqb l (tbl g)); reflexivity.
  Qed.

  Lemma add_record_nedges : forall directed g r,
    nedges (add_record directed g r) = nedges g + list_sum (snd r).
  Proof.
    intros directed g [[ls lt] counts]. unfold GraphModel.add_record.
    pose proof (add_vertex_nedges ls g) as H1.
    destruct (GraphModel.add_vertex label leqb ls g) as [s g1].
    pose proof (add_vertex_nedges lt g1) as H2.
    destruct (GraphModel.add_vertex label leqb lt g1) as [t g2].
    simpl in *. rewrite fold_add_list_sum. rewrite H2, H1. lia.
  Qed.

  Lemma fold_add_record_nedges : forall directed recs g,
    nedges (fold_left (add_record directed) recs g)
      = nedges g + list_sum (map (fun r => list_sum (snd r)) recs).
  Proof.
    intros directed. induction recs as [|r recs IHrecs]; intros g; simpl.
    - lia.
    - rewrite IHrecs. rewrite add_record_nedges. lia.
  Qed.

  (* what the model's nedges field really is: ALL counts are added, also those beyond layer L *)
  Theorem nedges_all_counts : forall directed L recs,
    nedges (build directed L recs) = list_sum (map (fun r => list_sum (snd r)) recs).
  Proof.
    intros directed L recs. unfold GraphModel.build. rewrite fold_add_record_nedges. reflexivity.
  Qed.

  (* G6 *)
  Theorem nedges_spec : forall directed L recs,
    Forall (fun r => length (snd r) = L) recs ->
    nedges (build directed L recs) = list_sum (map (fun r => list_sum (firstn L (snd r))) recs).
  Proof.
    intros directed L recs Hall. rewrite nedges_all_counts. f_equal.
    apply map_ext_in. intros r Hr. rewrite Forall_forall in Hall. specialize (Hall r Hr).
    rewrite <- Hall. rewrite firstn_all. reflexivity.
  Qed.

  (* ---------------------------------------------------------------------------------------- *)
  (* G7: get_num_vertices                                                                      *)
  (* ---------------------------------------------------------------------------------------- *)

  Theorem get_num_vertices_spec : forall directed L recs,
    get_num_vertices (map (fun r => fst (fst r)) recs) (map (fun r => snd (fst r)) recs)
      = length (tbl (build directed L recs)).
  Proof.
    intros directed L recs. unfold GraphModel.get_num_vertices.
    apply Permutation_length. apply NoDup_Permutation.
    - apply dedup_NoDup. constructor.
    - apply (build_tbl directed L recs).
    - intros x. rewrite build_tbl_In. rewrite dedup_In. rewrite in_app_iff. rewrite !in_map_iff.
      split.
      + intros [[]|[[r [Hx Hr]]|[r [Hx Hr]]]]; exists r; auto.
      + intros [r [Hr [Hx|Hx]]]; right; [left|right]; exists r; auto.
  Qed.

  Lemma combine3_fst : forall (ss es : list label) (cs : list (list nat)),
    length ss = length es -> length cs = length ss ->
    map (fun r => fst (fst r)) (combine (combine ss es) cs) = ss /\
    map (fun r => snd (fst r)) (combine (combine ss es) cs) = es.
  Proof.
    induction ss as [|s ss IHss]; intros es cs He Hc.
    - destruct es; [|discriminate He]. split; reflexivity.
    - destruct es as [|e es]; [discriminate He|]. destruct cs as [|c cs]; [discriminate Hc|].
      simpl in *. destruct (IHss es cs) as [H1 H2]; [lia | lia |].
      rewrite H1, H2. split; reflexivity.
  Qed.

  (* the zip3 formulation: records built from starts, ends and ANY counts (one count list each) *)
  Corollary get_num_vertices_zip : forall directed L starts ends (cs : list (list nat)),
    length starts = length ends -> length cs = length starts ->
    get_num_vertices starts ends
      = length (tbl (build directed L (combine (combine starts ends) cs))).
  Proof.
    intros directed L starts ends cs He Hc.
    rewrite <- (get_num_vertices_spec directed L).
    destruct (combine3_fst starts ends cs He Hc) as [H1 H2]. rewrite H1, H2. reflexivity.
  Qed.

  (* ---------------------------------------------------------------------------------------- *)
  (* G8: the solver's view                                                                     *)
  (* ---------------------------------------------------------------------------------------- *)

  Lemma nth_layer_cases : forall (g : net) a,
    In (nth a (lays g) empty_layer) (lays g) \/ nth a (lays g) empty_layer = empty_layer.
  Proof. intros g a. destruct (nth_in_or_default a (lays g) empty_layer); auto. Qed.

  Theorem graph_of_wf : forall directed L recs,
    let g := build directed L recs in
    let N := length (tbl g) in
    let G := graph_of directed g in
    (* (a) *)
    (forall a i j, a < L -> i < N -> In j (gout G a i) -> j < N) /\
    (forall a i j, a < L -> i < N -> In j (gin G a i) -> j < N) /\
    (* (b) *)
    NoDup (gul G) /\ NoDup (gvl G) /\
    (forall i, In i (gul G) -> i < N) /\ (forall i, In i (gvl G) -> i < N) /\
    (* (c) *)
    (forall i, i < N -> ~ In i (gul G) -> forall a, gout G a i = []) /\
    (forall i, i < N -> ~ In i (gvl G) -> directed = true -> forall a, gin G a i = []).
  Proof.
    intros directed L recs g N G.
    destruct (build_bounds directed L recs) as (Hbo & Hbi & Hund).
    fold g in Hbo, Hbi, Hund. fold N in Hbo, Hbi.
    destruct (u_list_spec g) as (Hu_in & _ & Hu_nd).
    destruct (v_list_sorted directed g) as (_ & Hv_nd & Hv_lt).
    unfold G, GraphModel.graph_of; simpl.
    split; [|split; [|split; [|split; [|split; [|split; [|split]]]]]].
    - intros a i j _ _ Hin. destruct (nth_layer_cases g a) as [Hy|Hy].
      + apply (Hbo _ i j Hy Hin).
      + rewrite Hy in Hin. simpl in Hin. destruct i; destruct Hin.
    - intros a i j _ _ Hin. destruct (nth_layer_cases g a) as [Hy|Hy].
      + apply (Hbi _ i j Hy Hin).
      + rewrite Hy in Hin. simpl in Hin. destruct i; destruct Hin.
    - exact Hu_nd.
    - exact Hv_nd.
    - intros i Hi. apply Hu_in in Hi. apply Hi.
    - exact Hv_lt.
    - intros i Hi Hnin a. destruct (nth_layer_cases g a) as [Hy|Hy].
      + destruct (nth i (lout (nth a (lays g) empty_layer)) []) as [|x xs] eqn:Ex; [reflexivity|].
        exfalso. apply Hnin. apply Hu_in. split; [exact Hi|].
        exists (nth a (lays g) empty_layer). split; [exact Hy|]. rewrite Ex. discriminate.
      + rewrite Hy. simpl. destruct i; reflexivity.
    - intros i Hi Hnin Hd a. subst directed.
      destruct (v_list_directed_spec g) as (Hv_in & _ & _).
      destruct (nth_layer_cases g a) as [Hy|Hy].
      + destruct (nth i (lin (nth a (lays g) empty_layer)) []) as [|x xs] eqn:Ex; [reflexivity|].
        exfalso. apply Hnin. apply Hv_in. split; [exact Hi|].
        exists (nth a (lays g) empty_layer). split; [exact Hy|]. rewrite Ex. discriminate.
      + rewrite Hy. simpl. destruct i; reflexivity.
  Qed.

  (* complement of (c): in the undirected case gin is empty everywhere *)
  Theorem graph_of_gin_undirected : forall L recs a i,
    gin (graph_of false (build false L recs)) a i = [].
  Proof.
    intros L recs a i. unfold GraphModel.graph_of; simpl.
    destruct (build_bounds false L recs) as (_ & _ & Hund).
    destruct (nth_layer_cases (build false L recs) a) as [Hy|Hy].
    + apply (Hund eq_refl _ Hy).
    + rewrite Hy. simpl. destruct i; reflexivity.
  Qed.

End GraphProofs.

(* G6 needs its hypothesis: with L = 0 and one record carrying one count, the model's nedges
   field is 1 although no layer received an edge (the sum of the first L = 0 counts is 0). *)
Example nedges_spec_needs_length :
  nedges nat (build nat Nat.eqb false 0 [(0, 1, [1])]) = 1 /\
  list_sum (map (fun r : nat * nat * list nat => list_sum (firstn 0 (snd r))) [(0, 1, [1])]) = 0.
Proof. split; reflexivity. Qed.

Print Assumptions build_tbl.
Print Assumptions build_tbl_endpoints.
Print Assumptions lookup_spec.
Print Assumptions lookup_None_spec.
Print Assumptions lookup_bijection.
Print Assumptions build_shape.
Print Assumptions build_bounds.
Print Assumptions u_list_spec.
Print Assumptions v_list_directed_spec.
Print Assumptions v_list_undirected.
Print Assumptions nedges_spec.
Print Assumptions nedges_all_counts.
Print Assumptions get_num_vertices_spec.
Print Assumptions get_num_vertices_zip.
Print Assumptions graph_of_wf.
Print Assumptions graph_of_gin_undirected.
