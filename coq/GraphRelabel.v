(* GraphRelabel.v -- two symmetry theorems about GraphModel.build:
   (A) build_relabel: labels are opaque (only their equality pattern matters);
   (B) build_reverse_undirected: in undirected mode, swapping source and target of a record does not
       change the network as long as the order of first appearance of the labels is unchanged. *)
From Coq Require Import List Arith Bool Lia.
Import ListNotations.
From MT Require Import Arith SweepModel GraphModel.

(* GraphModel.v ends with `Arguments lout {_}` which (layer being label-independent after the Section is
   closed) makes the *layer* argument of lout/lin implicit; we therefore write @lout / @lin. *)

Definition labels_of {A : Type} (recs : list (A * A * list nat)) : list A :=
  flat_map (fun r => [fst (fst r); snd (fst r)]) recs.

Lemma labels_of_cons {A} (r : A * A * list nat) rs :
  labels_of (r :: rs) = fst (fst r) :: snd (fst r) :: labels_of rs.
Proof. reflexivity. Qed.

Lemma labels_of_app {A} (l1 l2 : list (A * A * list nat)) :
  labels_of (l1 ++ l2) = labels_of l1 ++ labels_of l2.
Proof. unfold labels_of. apply flat_map_app. Qed.

(* ------------------------------------------------------------------------------------------ *)
(* (A) labels are opaque                                                                        *)
(* ------------------------------------------------------------------------------------------ *)
Section Relabel.
  Variables label1 label2 : Type.
  Variable leqb1 : label1 -> label1 -> bool.
  Variable leqb2 : label2 -> label2 -> bool.
  Hypothesis leqb1_spec : forall a b, leqb1 a b = true <-> a = b.
  Hypothesis leqb2_spec : forall a b, leqb2 a b = true <-> a = b.
  Variable f : label1 -> label2.

  Definition map_rec (r : label1 * label1 * list nat) : label2 * label2 * list nat :=
    (f (fst (fst r)), f (snd (fst r)), snd r).

  (* `layer` does not depend on the label type (Coq only abstracts Section variables that are used),
     so `lays := lays g` is well typed and no cast is needed. *)
  Definition relabel (g : net label1) : net label2 :=
    {| tbl := map f (tbl _ g); lays := lays _ g; nedges := nedges _ g |}.

  Definition occurs (x : label1) (recs : list (label1 * label1 * list nat)) : Prop :=
    exists r, In r recs /\ (x = fst (fst r) \/ x = snd (fst r)).

  Lemma occurs_labels_of x recs : In x (labels_of recs) <-> occurs x recs.
  Proof.
    unfold labels_of, occurs. rewrite in_flat_map. split.
    - intros [r [Hr Hx]]. exists r. split; auto. simpl in Hx. intuition.
    - intros [r [Hr Hx]]. exists r. split; auto. simpl. intuition.
  Qed.

  Section Inj.
    Variable P : label1 -> Prop.
    Hypothesis f_inj : forall x y, P x -> P y -> f x = f y -> x = y.

    Lemma leqb_f a b : P a -> P b -> leqb2 (f a) (f b) = leqb1 a b.
    Proof.
      intros Ha Hb. destruct (leqb1 a b) eqn:E.
      - apply leqb1_spec in E. subst. apply leqb2_spec. reflexivity.
      - destruct (leqb2 (f a) (f b)) eqn:E2; auto.
        apply leqb2_spec in E2. apply f_inj in E2; auto. apply leqb1_spec in E2. congruence.
    Qed.

    Lemma lookup_from_f l t : P l -> Forall P t -> forall i,
      lookup_from label2 leqb2 (f l) (map f t) i = lookup_from label1 leqb1 l t i.
    Proof.
      intros Hl Ht. induction Ht as [|x t Hx Ht IH]; intros i; simpl; auto.
      rewrite leqb_f by auto. destruct (leqb1 l x); auto.
    Qed.

    Lemma add_vertex_f l g : P l -> Forall P (tbl _ g) ->
      add_vertex label2 leqb2 (f l) (relabel g) =
      (fst (add_vertex label1 leqb1 l g), relabel (snd (add_vertex label1 leqb1 l g))).
    Proof.
      intros Hl Hg. unfold add_vertex, lookup, relabel. simpl.
      rewrite lookup_from_f by auto.
      destruct (lookup_from label1 leqb1 l (tbl _ g) 0); simpl.
      - reflexivity.
      - rewrite map_length, map_app. reflexivity.
    Qed.

    Lemma add_vertex_P l g : P l -> Forall P (tbl _ g) ->
      Forall P (tbl _ (snd (add_vertex label1 leqb1 l g))).
    Proof.
      intros Hl Hg. unfold add_vertex. destruct (lookup label1 leqb1 l (tbl _ g)); simpl; auto.
      apply Forall_app. split; auto.
    Qed.

    Lemma add_record_f d g r : P (fst (fst r)) -> P (snd (fst r)) -> Forall P (tbl _ g) ->
      add_record label2 leqb2 d (relabel g) (map_rec r) = relabel (add_record label1 leqb1 d g r).
    Proof.
      destruct r as [[a b] c]. simpl. intros Ha Hb Hg.
      unfold add_record, map_rec. simpl.
      rewrite add_vertex_f by auto.
      pose proof (add_vertex_P a g Ha Hg) as Hg1.
      destruct (add_vertex label1 leqb1 a g) as [s g1]. simpl in *.
      rewrite add_vertex_f by auto.
      destruct (add_vertex label1 leqb1 b g1) as [t g2]. simpl.
      reflexivity.
    Qed.

    Lemma add_record_P d g r : P (fst (fst r)) -> P (snd (fst r)) -> Forall P (tbl _ g) ->
      Forall P (tbl _ (add_record label1 leqb1 d g r)).
    Proof.
      destruct r as [[a b] c]. simpl. intros Ha Hb Hg. unfold add_record.
      pose proof (add_vertex_P a g Ha Hg) as Hg1.
      destruct (add_vertex label1 leqb1 a g) as [s g1]. simpl in *.
      pose proof (add_vertex_P b g1 Hb Hg1) as Hg2.
      destruct (add_vertex label1 leqb1 b g1) as [t g2]. simpl in *. exact Hg2.
    Qed.

    Lemma fold_relabel d recs : forall g, Forall P (tbl _ g) -> Forall P (labels_of recs) ->
      fold_left (add_record label2 leqb2 d) (map map_rec recs) (relabel g) =
      relabel (fold_left (add_record label1 leqb1 d) recs g).
    Proof.
      induction recs as [|r recs IH]; intros g Hg Hr; cbn [map fold_left].
      - reflexivity.
      - rewrite labels_of_cons in Hr. inversion Hr as [|? ? Ha Hr']; subst.
        inversion Hr' as [|? ? Hb Hr'']; subst.
        rewrite add_record_f by auto. apply IH; auto. apply add_record_P; auto.
    Qed.
  End Inj.

  Theorem build_relabel directed L recs :
    (forall x y, occurs x recs -> occurs y recs -> f x = f y -> x = y) ->
    build label2 leqb2 directed L (map map_rec recs) =
    {| tbl := map f (tbl _ (build label1 leqb1 directed L recs));
       lays := lays _ (build label1 leqb1 directed L recs);
       nedges := nedges _ (build label1 leqb1 directed L recs) |}.
  Proof.
    intros Hinj. unfold build.
    change (empty_net label2 L) with (relabel (empty_net label1 L)).
    rewrite (fold_relabel (fun x => In x (labels_of recs))).
    - reflexivity.
    - intros x y Hx Hy. apply Hinj; apply occurs_labels_of; assumption.
    - constructor.
    - apply Forall_forall. auto.
  Qed.

  (* consequences for what the solver consumes *)
  Lemma u_list_relabel g : u_list label2 (relabel g) = u_list label1 g.
  Proof. unfold u_list, num_vertices, has_edge, relabel. simpl. rewrite map_length. reflexivity. Qed.

  Lemma v_list_relabel d g : v_list label2 d (relabel g) = v_list label1 d g.
  Proof.
    unfold v_list. rewrite u_list_relabel.
    unfold num_vertices, has_edge, relabel. simpl. rewrite map_length. reflexivity.
  Qed.

  Section Corollaries.
    Variables (directed : bool) (L : nat) (recs : list (label1 * label1 * list nat)).
    Hypothesis f_inj : forall x y, occurs x recs -> occurs y recs -> f x = f y -> x = y.
    Let g1 := build label1 leqb1 directed L recs.
    Let g2 := build label2 leqb2 directed L (map map_rec recs).

    Lemma build_relabel_eq : g2 = relabel g1.
    Proof. unfold g2, g1. rewrite build_relabel by exact f_inj. reflexivity. Qed.

    Corollary build_relabel_num_vertices : num_vertices label2 g2 = num_vertices label1 g1.
    Proof. rewrite build_relabel_eq. unfold num_vertices, relabel. simpl. apply map_length. Qed.

    Corollary build_relabel_u_list : u_list label2 g2 = u_list label1 g1.
    Proof. rewrite build_relabel_eq. apply u_list_relabel. Qed.

    Corollary build_relabel_v_list d : v_list label2 d g2 = v_list label1 d g1.
    Proof. rewrite build_relabel_eq. apply v_list_relabel. Qed.

    Corollary build_relabel_gout d a i :
      gout (graph_of label2 d g2) a i = gout (graph_of label1 d g1) a i.
    Proof. rewrite build_relabel_eq. reflexivity. Qed.

    Corollary build_relabel_gin d a i :
      gin (graph_of label2 d g2) a i = gin (graph_of label1 d g1) a i.
    Proof. rewrite build_relabel_eq. reflexivity. Qed.

    Corollary build_relabel_gul d : gul (graph_of label2 d g2) = gul (graph_of label1 d g1).
    Proof. rewrite build_relabel_eq. simpl. apply u_list_relabel. Qed.

    Corollary build_relabel_gvl d : gvl (graph_of label2 d g2) = gvl (graph_of label1 d g1).
    Proof. rewrite build_relabel_eq. simpl. apply v_list_relabel. Qed.
  End Corollaries.
End Relabel.

(* ------------------------------------------------------------------------------------------ *)
(* (B) undirected mode is orientation-blind                                                     *)
(* ------------------------------------------------------------------------------------------ *)

(* label-independent facts about adjacency lists *)
Lemma app_at_comm : forall l i j x z, i <> j ->
  app_at i x (app_at j z l) = app_at j z (app_at i x l).
Proof.
  induction l as [|h l IH]; intros i j x z Hij.
  - destruct i, j; reflexivity.
  - destruct i, j; simpl; try reflexivity.
    + congruence.
    + f_equal. apply IH. congruence.
Qed.

(* the key lemma: no length side condition is needed, because app_at is the identity on an index that is
   out of range *)
Lemma add_edge1_swap s t y : add_edge1 false t s y = add_edge1 false s t y.
Proof.
  unfold add_edge1. f_equal.
  destruct (Nat.eq_dec s t) as [->|Hne]; [reflexivity|].
  apply app_at_comm. exact Hne.
Qed.

Lemma iter_ext {T} (f g : T -> T) : (forall x, f x = g x) -> forall n x, iter n f x = iter n g x.
Proof. intros H. induction n; intros x; simpl; auto. rewrite H. apply IHn. Qed.

Lemma add_edges_layers_swap s t : forall counts ys,
  add_edges_layers false t s counts ys = add_edges_layers false s t counts ys.
Proof.
  intros counts ys. revert counts. induction ys as [|y ys IH]; intros [|c cs]; simpl; auto.
  f_equal; auto. apply iter_ext. intros x. apply add_edge1_swap.
Qed.

Section Reverse.
  Variable label : Type.
  Variable leqb : label -> label -> bool.
  Hypothesis leqb_spec : forall a b, leqb a b = true <-> a = b.

  Notation rec := (label * label * list nat)%type.
  Definition flip (r : rec) : rec := (snd (fst r), fst (fst r), snd r).
  Definition same_or_flipped (r r' : rec) : Prop := r' = r \/ r' = flip r.

  (* ---- membership, lookup, dedup ---- *)
  Lemma existsb_In x s : existsb (leqb x) s = true <-> In x s.
  Proof.
    rewrite existsb_exists. split.
    - intros [y [Hy E]]. apply leqb_spec in E. subst. exact Hy.
    - intros H. exists x. split; auto. apply leqb_spec. reflexivity.
  Qed.

  Lemma existsb_notIn x s : existsb (leqb x) s = false <-> ~ In x s.
  Proof. rewrite <- existsb_In. destruct (existsb (leqb x) s); split; congruence. Qed.

  Lemma In_dec_l (x : label) s : In x s \/ ~ In x s.
  Proof.
    destruct (existsb (leqb x) s) eqn:E; [left; apply existsb_In | right; apply existsb_notIn]; exact E.
  Qed.

  Lemma lookup_from_existsb l t : forall i,
    existsb (leqb l) t = match lookup_from label leqb l t i with Some _ => true | None => false end.
  Proof. induction t as [|x t IH]; intros i; simpl; auto. destruct (leqb l x); simpl; auto. Qed.

  Lemma lookup_None l t : lookup label leqb l t = None <-> ~ In l t.
  Proof.
    rewrite <- existsb_notIn, (lookup_from_existsb l t 0). unfold lookup.
    destruct (lookup_from label leqb l t 0); split; congruence.
  Qed.

  Lemma lookup_from_app l t u : forall i j,
    lookup_from label leqb l t i = Some j -> lookup_from label leqb l (t ++ u) i = Some j.
  Proof.
    induction t as [|x t IH]; intros i j; simpl; [discriminate|].
    destruct (leqb l x); auto.
  Qed.

  Lemma lookup_app l t u j : lookup label leqb l t = Some j -> lookup label leqb l (t ++ u) = Some j.
  Proof. apply lookup_from_app. Qed.

  Lemma dedup_app l1 : forall seen l2,
    dedup label leqb seen (l1 ++ l2) = dedup label leqb (dedup label leqb seen l1) l2.
  Proof.
    induction l1 as [|x l1 IH]; intros seen l2; simpl; auto.
    destruct (existsb (leqb x) seen); apply IH.
  Qed.

  Lemma dedup_prefix l : forall seen, exists X, dedup label leqb seen l = seen ++ X.
  Proof.
    induction l as [|x l IH]; intros seen; simpl.
    - exists []. rewrite app_nil_r. reflexivity.
    - destruct (existsb (leqb x) seen).
      + apply IH.
      + destruct (IH (seen ++ [x])) as [X HX]. exists ([x] ++ X). rewrite HX, app_assoc. reflexivity.
  Qed.

  Lemma In_dedup l : forall seen x, In x (dedup label leqb seen l) <-> In x seen \/ In x l.
  Proof.
    induction l as [|y l IH]; intros seen x; simpl.
    - tauto.
    - destruct (existsb (leqb y) seen) eqn:E; rewrite IH.
      + apply existsb_In in E. split; [tauto|]. intros [H|[H|H]]; subst; auto.
      + rewrite in_app_iff. simpl. tauto.
  Qed.

  Lemma dedup_two_new T a b : ~ In a T -> ~ In b T -> a <> b ->
    dedup label leqb T [a; b] = T ++ [a; b].
  Proof.
    intros Ha Hb Hab. simpl.
    apply existsb_notIn in Ha. rewrite Ha.
    assert (Hb' : existsb (leqb b) (T ++ [a]) = false).
    { apply existsb_notIn. rewrite in_app_iff. simpl. intuition. }
    rewrite Hb', <- app_assoc. reflexivity.
  Qed.

  (* ---- the vertex table is utils::get_num_vertices' dedup of the endpoint sequence ---- *)
  Lemma tbl_add_vertex l g :
    tbl _ (snd (add_vertex label leqb l g)) = dedup label leqb (tbl _ g) [l].
  Proof.
    unfold add_vertex, lookup. simpl. rewrite (lookup_from_existsb l (tbl _ g) 0).
    destruct (lookup_from label leqb l (tbl _ g) 0); reflexivity.
  Qed.

  Lemma tbl_add_record d g r :
    tbl _ (add_record label leqb d g r) = dedup label leqb (tbl _ g) [fst (fst r); snd (fst r)].
  Proof.
    destruct r as [[a b] c]. unfold add_record.
    pose proof (tbl_add_vertex a g) as H1.
    destruct (add_vertex label leqb a g) as [s g1].
    pose proof (tbl_add_vertex b g1) as H2.
    destruct (add_vertex label leqb b g1) as [t g2]. simpl in *.
    rewrite H2, H1. symmetry. apply (dedup_app [a] (tbl _ g) [b]).
  Qed.

  Lemma tbl_fold d recs : forall g,
    tbl _ (fold_left (add_record label leqb d) recs g) = dedup label leqb (tbl _ g) (labels_of recs).
  Proof.
    induction recs as [|r recs IH]; intros g; simpl; auto.
    rewrite IH, tbl_add_record. symmetry.
    apply (dedup_app [fst (fst r); snd (fst r)] (tbl _ g) (labels_of recs)).
  Qed.

  Theorem tbl_build d L recs : tbl _ (build label leqb d L recs) = dedup label leqb [] (labels_of recs).
  Proof. unfold build. rewrite tbl_fold. reflexivity. Qed.

  (* ---- one flipped record ---- *)
  Lemma add_record_flip g r :
    fst (fst r) = snd (fst r) \/ In (fst (fst r)) (tbl _ g) \/ In (snd (fst r)) (tbl _ g) ->
    add_record label leqb false g (flip r) = add_record label leqb false g r.
  Proof.
    destruct r as [[a b] c]. unfold flip. simpl. intros H.
    destruct (leqb a b) eqn:Eab.
    { apply leqb_spec in Eab. subst. reflexivity. }
    assert (Hab : a <> b). { intros E. apply leqb_spec in E. congruence. }
    destruct (lookup label leqb a (tbl _ g)) as [i|] eqn:Ea;
    destruct (lookup label leqb b (tbl _ g)) as [j|] eqn:Eb.
    - unfold add_record, add_vertex. rewrite Ea, Eb. rewrite Ea.
      f_equal. apply add_edges_layers_swap.
    - unfold add_record, add_vertex. rewrite Ea, Eb. simpl.
      rewrite (lookup_app a (tbl _ g) [b] i Ea). simpl.
      f_equal. apply add_edges_layers_swap.
    - unfold add_record, add_vertex. rewrite Ea, Eb. simpl. rewrite Ea. simpl.
      rewrite (lookup_app b (tbl _ g) [a] j Eb). simpl.
      f_equal. apply add_edges_layers_swap.
    - apply lookup_None in Ea. apply lookup_None in Eb. tauto.
  Qed.

  (* ---- the local hypothesis, threaded through the fold ---- *)
  (* NOTE: the hypothesis actually needed is weaker than "both endpoints already seen": ONE already-seen
     endpoint suffices (the other is then appended to the table in either orientation). *)
  Definition flip_ok (seen : list label) (r r' : rec) : Prop :=
    r' = r \/ (r' = flip r /\ (In (fst (fst r)) seen \/ In (snd (fst r)) seen)).
  Inductive flips_ok : list label -> list rec -> list rec -> Prop :=
  | FO_nil s : flips_ok s [] []
  | FO_cons s r r' rs rs' : flip_ok s r r' -> flips_ok (s ++ [fst (fst r); snd (fst r)]) rs rs' ->
                            flips_ok s (r :: rs) (r' :: rs').

  Lemma fold_flips_ok seen recs recs' : flips_ok seen recs recs' ->
    forall g, incl seen (tbl _ g) ->
    fold_left (add_record label leqb false) recs' g = fold_left (add_record label leqb false) recs g.
  Proof.
    induction 1 as [s | s r r' rs rs' Hr Hrs IH]; intros g Hg; simpl; auto.
    assert (E : add_record label leqb false g r' = add_record label leqb false g r).
    { destruct Hr as [->|[-> Hin]]; auto. apply add_record_flip. right.
      destruct Hin as [Hin|Hin]; [left|right]; apply Hg; exact Hin. }
    rewrite E. apply IH.
    intros x Hx. rewrite tbl_add_record, In_dedup. apply in_app_iff in Hx.
    destruct Hx as [Hx|Hx]; auto.
  Qed.

  (* positional formulation -> threaded formulation *)
  Lemma positional_flips_ok recs recs' : Forall2 same_or_flipped recs recs' -> forall seen,
    (forall n r r', nth_error recs n = Some r -> nth_error recs' n = Some r' -> r' <> r ->
       In (fst (fst r)) (seen ++ labels_of (firstn n recs)) \/
       In (snd (fst r)) (seen ++ labels_of (firstn n recs))) ->
    flips_ok seen recs recs'.
  Proof.
    induction 1 as [|r r' rs rs' Hr Hrs IH]; intros seen Hpos; constructor.
    - destruct Hr as [-> | ->]; [left; reflexivity|].
      destruct r as [[a b] c]. destruct (leqb a b) eqn:Eab.
      + apply leqb_spec in Eab. subst. left. reflexivity.
      + right. split; auto.
        specialize (Hpos 0 (a, b, c) (flip (a, b, c)) eq_refl eq_refl).
        simpl in Hpos. rewrite app_nil_r in Hpos. apply Hpos.
        assert (Hab : a <> b). { intros E. apply leqb_spec in E. congruence. }
        unfold flip. simpl. intros E. inversion E. congruence.
    - apply IH. intros n q q' Hq Hq' Hne.
      specialize (Hpos (S n) q q' Hq Hq' Hne).
      cbn [firstn] in Hpos. rewrite labels_of_cons in Hpos.
      rewrite <- !app_assoc. exact Hpos.
  Qed.

  (* threaded formulation -> positional formulation *)
  Lemma flips_ok_positional seen recs recs' : flips_ok seen recs recs' ->
    forall n r r', nth_error recs n = Some r -> nth_error recs' n = Some r' -> r' <> r ->
       In (fst (fst r)) (seen ++ labels_of (firstn n recs)) \/
       In (snd (fst r)) (seen ++ labels_of (firstn n recs)).
  Proof.
    induction 1 as [s | s r r' rs rs' Hr Hrs IH]; intros n q q' Hq Hq' Hne.
    - destruct n; discriminate.
    - destruct n as [|n]; simpl in Hq, Hq'.
      + inversion Hq; inversion Hq'; subst. simpl. rewrite app_nil_r.
        destruct Hr as [->|[_ Hin]]; [congruence | exact Hin].
      + specialize (IH n q q' Hq Hq' Hne). cbn [firstn]. rewrite labels_of_cons.
        rewrite <- !app_assoc in IH. exact IH.
  Qed.

  (* ---- MAIN THEOREMS ---- *)

  (* strongest form: a flipped record needs only ONE endpoint among the earlier endpoints *)
  Theorem build_reverse_undirected_one L recs recs' :
    Forall2 same_or_flipped recs recs' ->
    (forall n r r', nth_error recs n = Some r -> nth_error recs' n = Some r' -> r' <> r ->
       In (fst (fst r)) (labels_of (firstn n recs)) \/ In (snd (fst r)) (labels_of (firstn n recs))) ->
    build label leqb false L recs' = build label leqb false L recs.
  Proof.
    intros HF Hpos. unfold build. apply (fold_flips_ok []).
    - apply positional_flips_ok; auto.
    - intros x [].
  Qed.

  (* the requested statement: every genuinely flipped record at position n has BOTH endpoints among the
     endpoints of the records at positions < n, or has equal endpoints *)
  Theorem build_reverse_undirected L recs recs' :
    Forall2 (fun r r' => r' = r \/ r' = flip r) recs recs' ->
    (forall n r r', nth_error recs n = Some r -> nth_error recs' n = Some r' -> r' <> r ->
       (In (fst (fst r)) (labels_of (firstn n recs)) /\ In (snd (fst r)) (labels_of (firstn n recs)))
       \/ fst (fst r) = snd (fst r)) ->
    build label leqb false L recs' = build label leqb false L recs.
  Proof.
    intros HF Hpos. apply build_reverse_undirected_one; auto.
    intros n r r' Hr Hr' Hne.
    destruct (Hpos n r r' Hr Hr' Hne) as [[Ha _]|Heq]; [left; exact Ha|].
    exfalso. apply Hne.
    assert (Hsf : same_or_flipped r r').
    { clear - HF Hr Hr'. revert n Hr Hr'. induction HF; intros [|n] Hr Hr'; simpl in *; try discriminate.
      - inversion Hr; inversion Hr'; subst; assumption.
      - eapply IHHF; eauto. }
    destruct Hsf as [-> | ->]; auto. destruct r as [[a b] c]. simpl in Heq. subst. reflexivity.
  Qed.

  (* ---- global hypothesis (same vertex table) => local hypothesis ---- *)
  Lemma global_flips_ok recs recs' : Forall2 same_or_flipped recs recs' -> forall g seen,
    (forall x, In x seen <-> In x (tbl _ g)) ->
    tbl _ (fold_left (add_record label leqb false) recs' g) =
    tbl _ (fold_left (add_record label leqb false) recs g) ->
    flips_ok seen recs recs'.
  Proof.
    induction 1 as [|r r' rs rs' Hr Hrs IH]; intros g seen Hseen Htbl; constructor.
    - destruct Hr as [-> | ->]; [left; reflexivity|].
      destruct r as [[a b] c]. destruct (leqb a b) eqn:Eab.
      { apply leqb_spec in Eab. subst. left. reflexivity. }
      assert (Hab : a <> b). { intros E. apply leqb_spec in E. congruence. }
      right. split; auto. simpl.
      destruct (In_dec_l a seen) as [Ha|Ha]; auto.
      destruct (In_dec_l b seen) as [Hb|Hb]; auto.
      exfalso. rewrite Hseen in Ha, Hb.
      cbn [fold_left] in Htbl. rewrite !tbl_fold, !tbl_add_record in Htbl. unfold flip in Htbl. simpl fst in Htbl.
      simpl snd in Htbl.
      rewrite (dedup_two_new _ a b) in Htbl by auto.
      rewrite (dedup_two_new _ b a) in Htbl by auto.
      destruct (dedup_prefix (labels_of rs') (tbl _ g ++ [b; a])) as [X HX].
      destruct (dedup_prefix (labels_of rs) (tbl _ g ++ [a; b])) as [Y HY].
      rewrite HX, HY, <- !app_assoc in Htbl. apply app_inv_head in Htbl.
      simpl in Htbl. inversion Htbl. congruence.
    - assert (E : add_record label leqb false g r' = add_record label leqb false g r).
      { destruct Hr as [-> | ->]; auto.
        destruct r as [[a b] c].
        destruct (leqb a b) eqn:Eab.
        { apply leqb_spec in Eab. subst. reflexivity. }
        assert (Hab : a <> b). { intros E. apply leqb_spec in E. congruence. }
        destruct (In_dec_l a (tbl _ g)) as [Ha|Ha]; [apply add_record_flip; simpl; auto|].
        destruct (In_dec_l b (tbl _ g)) as [Hb|Hb]; [apply add_record_flip; simpl; auto|].
        exfalso.
        cbn [fold_left] in Htbl. rewrite !tbl_fold, !tbl_add_record in Htbl. unfold flip in Htbl. simpl fst in Htbl.
        simpl snd in Htbl.
        rewrite (dedup_two_new _ a b) in Htbl by auto.
        rewrite (dedup_two_new _ b a) in Htbl by auto.
        destruct (dedup_prefix (labels_of rs') (tbl _ g ++ [b; a])) as [X HX].
        destruct (dedup_prefix (labels_of rs) (tbl _ g ++ [a; b])) as [Y HY].
        rewrite HX, HY, <- !app_assoc in Htbl. apply app_inv_head in Htbl.
        simpl in Htbl. inversion Htbl. congruence. }
      apply (IH (add_record label leqb false g r)).
      + intros x. rewrite tbl_add_record, In_dedup, in_app_iff, Hseen. tauto.
      + cbn [fold_left] in Htbl. rewrite E in Htbl. exact Htbl.
  Qed.

  (* if flipping a subset of the records leaves the vertex table (= order of first appearance of the
     labels) unchanged, then every genuinely flipped record has at least one previously seen endpoint *)
  Theorem global_implies_local_one L recs recs' :
    Forall2 same_or_flipped recs recs' ->
    tbl _ (build label leqb false L recs') = tbl _ (build label leqb false L recs) ->
    forall n r r', nth_error recs n = Some r -> nth_error recs' n = Some r' -> r' <> r ->
       In (fst (fst r)) (labels_of (firstn n recs)) \/ In (snd (fst r)) (labels_of (firstn n recs)).
  Proof.
    intros HF Htbl.
    apply (flips_ok_positional [] recs recs').
    apply (global_flips_ok recs recs' HF (empty_net label L) []).
    - intros x. simpl. tauto.
    - exact Htbl.
  Qed.

  (* hence the global hypothesis alone is sufficient *)
  Theorem build_reverse_undirected_global L recs recs' :
    Forall2 same_or_flipped recs recs' ->
    tbl _ (build label leqb false L recs') = tbl _ (build label leqb false L recs) ->
    build label leqb false L recs' = build label leqb false L recs.
  Proof.
    intros HF Htbl. apply build_reverse_undirected_one; auto.
    apply (global_implies_local_one L); auto.
  Qed.

  (* same, with the hypothesis in its primitive form (utils::get_num_vertices' dedup) *)
  Theorem build_reverse_undirected_dedup L recs recs' :
    Forall2 same_or_flipped recs recs' ->
    dedup label leqb [] (labels_of recs') = dedup label leqb [] (labels_of recs) ->
    build label leqb false L recs' = build label leqb false L recs.
  Proof.
    intros HF Hd. apply build_reverse_undirected_global; auto. rewrite !tbl_build. exact Hd.
  Qed.

  (* and the local condition is also necessary for equality of the nets: the three are equivalent *)
  Theorem build_reverse_undirected_iff L recs recs' :
    Forall2 same_or_flipped recs recs' ->
    (build label leqb false L recs' = build label leqb false L recs <->
     tbl _ (build label leqb false L recs') = tbl _ (build label leqb false L recs)).
  Proof.
    intros HF. split; [intros ->; reflexivity | apply build_reverse_undirected_global; exact HF].
  Qed.
End Reverse.

(* COUNTEREXAMPLE to "global hypothesis => BOTH endpoints of every flipped record were seen before":
   recs = [(0,0); (0,1)], recs' = [(0,0); (1,0)].  The tables agree ([0;1]) -- indeed the whole nets agree --
   but the flipped record at position 1 has endpoint 1 which does not occur at any earlier position.
   The true converse is global_implies_local_one (at least ONE endpoint seen before). *)
Example global_not_implies_local_both :
  let recs  := [(0, 0, [1]); (0, 1, [1])] in
  let recs' := [(0, 0, [1]); (1, 0, [1])] in
  Forall2 (same_or_flipped nat) recs recs' /\
  build nat Nat.eqb false 1 recs' = build nat Nat.eqb false 1 recs /\
  exists n r r', nth_error recs n = Some r /\ nth_error recs' n = Some r' /\ r' <> r /\
     ~ (In (snd (fst r)) (labels_of (firstn n recs))).
Proof.
  cbv zeta. split; [|split].
  - constructor; [left; reflexivity|]. constructor; [right; reflexivity|]. constructor.
  - reflexivity.
  - exists 1, (0, 1, [1]), (1, 0, [1]). repeat split; try reflexivity.
    + intros E. inversion E.
    + simpl. intros [H|[H|[]]]; discriminate.
Qed.

Print Assumptions build_relabel.
Print Assumptions build_reverse_undirected.
Print Assumptions build_reverse_undirected_one.
Print Assumptions build_reverse_undirected_global.
Print Assumptions global_implies_local_one.
