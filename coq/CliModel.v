(* CliModel.v -- model of the command line front end's logic (applications/):
     - read_adjacency_data   (app_utils.hpp)  at BYTE level for the documented grammar
     - read_affinity_data    (app_utils.cpp)  at token level (numeric tokens pre-parsed by `pnum`)
     - cmd_option_exists / get_cmd_option
     - write_membership_file / write_affinity_file / write_info_file at token level (numbers through `fmt`)
   Bytes are N.  iostream extraction is modelled for blanks, tabs, CR, LF and decimal digits; inputs
   containing other characters (signs, letters, ...) are outside the modelled grammar (for those the
   check only asserts memory safety of the real reader: C16). *)
From Coq Require Import List NArith Bool Arith.
Import ListNotations.
From MT Require Import Arith SweepModel Layout.
Local Open Scope N_scope.

Definition byte := N.
Definition LF : byte := 10.
Definition SP : byte := 32.
(* std::isspace in the "C" locale: space, \t \n \v \f \r *)
Definition is_space (c : byte) : bool := (c =? 32) || ((9 <=? c) && (c <=? 13)).
Definition is_digit (c : byte) : bool := (48 <=? c) && (c <=? 57).

Fixpoint skip_ws (l : list byte) : list byte :=
  match l with c :: r => if is_space c then skip_ws r else l | [] => [] end.
Fixpoint read_digits (acc : N) (l : list byte) : N * list byte :=
  match l with
  | c :: r => if is_digit c then read_digits (10 * acc + (c - 48)) r else (acc, l)
  | [] => (acc, [])
  end.
(* `is >> x` for an unsigned 64-bit x: skip blanks, at least one digit, no overflow *)
Definition read_uint (l : list byte) : option (N * list byte) :=
  match skip_ws l with
  | c :: r => if is_digit c then
                let '(n, rest) := read_digits 0 (c :: r) in
                if n <? 2 ^ 64 then Some (n, rest) else None
              else None
  | [] => None
  end.
(* `while (is >> value) push_back(value)` *)
Fixpoint read_all (fuel : nat) (l : list byte) : list N :=
  match fuel with
  | O => []
  | S f => match read_uint l with Some (n, r) => n :: read_all f r | None => [] end
  end.

(* std::getline on '\n' until eof: the pieces between line feeds, the last one possibly empty *)
Fixpoint split_lines (cur : list byte) (l : list byte) : list (list byte) :=
  match l with
  | [] => [rev cur]
  | c :: r => if c =? LF then rev cur :: split_lines [] r else split_lines (c :: cur) r
  end.
(* line.erase(line.find_last_not_of(" ") + 1) *)
Fixpoint strip_trailing_sp (l : list byte) : list byte :=
  match l with
  | [] => []
  | c :: r => match strip_trailing_sp r with
              | [] => if c =? SP then [] else [c]
              | r' => c :: r'
              end
  end.

Definition parse_line (l : list byte) : option (N * N * list N) :=
  match read_uint l with
  | Some (a, r1) => match read_uint r1 with
                    | Some (b, r2) => Some (a, b, read_all (length r2) r2)
                    | None => None
                    end
  | None => None
  end.

(* read_adjacency_data: (edges_start, edges_end, edges_weight) *)
Definition parse_adjacency (bytes : list byte) : list N * list N * list N :=
  fold_left (fun (acc : list N * list N * list N) line =>
    match line with
    | [] => acc                                   (* `if (line.size() == 0) continue;` *)
    | _ => match parse_line (strip_trailing_sp line) with
           | Some (a, b, ws) => let '(s, e, w) := acc in (s ++ [a], e ++ [b], w ++ ws)
           | None => acc                          (* blank-only line, or no two vertex ids *)
           end
    end) (split_lines [] bytes) ([], [], []).

(* ---- rendering of the documented grammar: one 'source target w_1 ... w_L' record per line ---- *)
Fixpoint digits_fuel (fuel : nat) (n : N) (acc : list byte) : list byte :=
  match fuel with
  | O => acc
  | S f => let acc' := (48 + n mod 10) :: acc in
           if n / 10 =? 0 then acc' else digits_fuel f (n / 10) acc'
  end.
Definition render_nat (n : N) : list byte := digits_fuel (S (N.to_nat (N.log2 n))) n [].

(* ---------------- options ---------------- *)
Section Options.
  Variable str : Type.
  Variable seqb : str -> str -> bool.
  (* std::find(begin, end, option) != end *)
  Definition opt_exists (argv : list str) (o : str) : bool := existsb (seqb o) argv.
  (* the element after the first occurrence, if any *)
  Fixpoint opt_value (argv : list str) (o : str) : option str :=
    match argv with
    | [] => None
    | x :: r => if seqb o x then (match r with y :: _ => Some y | [] => None end) else opt_value r o
    end.
End Options.

(* ---------------- affinity file reader (token level) and writers ---------------- *)
Section Files.
  Variable num : Type.
  Variable A : Arith num.
  Variable tokn : Type.                    (* a blank-delimited token *)
  Variable is_hash : tokn -> bool.         (* tok == "#" *)
  Variable pnum : tokn -> option num.      (* `is >> value` (double) succeeds on this token *)
  Variable puint : tokn -> option nat.     (* the token is a non-negative integer (layer id) *)

  (* `while (is >> value)`: the longest prefix of numeric tokens *)
  Fixpoint take_nums (l : list tokn) : list num :=
    match l with
    | t :: r => match pnum t with Some x => x :: take_nums r | None => [] end
    | [] => []
    end.

  (* data lines: non-empty token lists whose first token is not "#" *)
  Definition data_lines (lines : list (list tokn)) : list (list tokn) :=
    filter (fun l => match l with [] => false | t :: _ => negb (is_hash t) end) lines.

  Inductive aff_result := AffError | AffOk (w : list num).

  Fixpoint lset_n {T} (l : list T) (k : nat) (x : T) : list T :=
    match l, k with
    | [], _ => []
    | _ :: r, O => x :: r
    | y :: r, S k' => y :: lset_n r k' x
    end.

  (* second pass: write d_k at the flat position of (k,k,layer) / (k,layer); layer ids must be valid and distinct *)
  Fixpoint write_layers (assort : bool) (K L : nat) (seen : list nat) (ls : list (list tokn)) (w : list num) : aff_result :=
    match ls with
    | [] => AffOk w
    | [] :: r => write_layers assort K L seen r w
    | (t :: vals) :: r =>
        match puint t with
        | None => AffError
        | Some layer =>
            if (layer <? L)%nat && negb (existsb (Nat.eqb layer) seen) then
              let w' := fst (fold_left (fun (p : list num * nat) x =>
                              let k := snd p in
                              (lset_n (fst p) (if assort then idx_ass K L k layer else idx_gen K L k k layer) x, S k))
                            (take_nums vals) (w, O)) in
              write_layers assort K L (layer :: seen) r w'
            else AffError
        end
    end.

  (* read_affinity_data(filename, assortative, w, expected_nof_groups) on the token lines of the file *)
  Definition read_affinity (assort : bool) (lines : list (list tokn)) (w : list num) (expectedK : nat) : aff_result :=
    let dl := data_lines lines in
    let counts := map (fun l => length (take_nums (tl l))) dl in
    let K := hd O counts in
    let L := length dl in
    if negb (forallb (Nat.eqb K) counts) then AffError
    else if (K =? 0)%nat || negb ((if assort then K * L else K * K * L) =? length w)%nat
            || (negb (expectedK =? 0)%nat && negb (expectedK =? K)%nat) then AffError
    else write_layers assort K L [] dl w.

  (* ---------------- writers: the token grid of each output file ---------------- *)
  Variable fmt : num -> tokn.              (* operator<<(double) with precision 6 *)
  Variable fmt_nat : nat -> tokn.
  Variable lit : nat -> tokn.              (* fixed words of the headers, by number *)

  (* write_membership_file: row i = label i then mat(i, 0..K-1) *)
  Definition membership_rows (labels : list tokn) (m : matrix num) (nrows ncols : nat) : list (list tokn) :=
    map (fun i => nth i labels (lit 0) :: map (fun k => fmt (mget num A m i k)) (seq 0 ncols)) (seq 0 nrows).

  (* write_affinity_file: per layer `a= alpha`, then K rows; row k lists entry (k, q) for q = 0..K-1 (assortative: entry k) *)
  Definition affinity_rows (aff : list num) (K L : nat) : list (list tokn) :=
    let assort := (length aff =? L * K)%nat in
    flat_map (fun a =>
      [lit 1; fmt_nat a] ::
      map (fun k => if assort then [fmt (nth (idx_ass K L k a) aff (zero A))]
                    else map (fun q => fmt (nth (idx_gen K L k q a) aff (zero A))) (seq 0 K)) (seq 0 K)
      ++ [[]]) (seq 0 L).
End Files.
