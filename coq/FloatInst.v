(* FloatInst.v -- the instance that is RUN: Coq primitive binary64 floats.  Constants come from
   the generated GenParams.v (so the executable model follows params.hpp; the theorems of
   Properties_*.v pin them to the documented values).  `ln` is supplied by the driver
   (OCaml's log = glibc log = std::log on this image). *)
From Coq Require Import Floats ZArith Uint63 List.
From MT Require Import Arith GenParams.

Definition float_of_nat (n : nat) : float := PrimFloat.of_uint63 (Uint63.of_Z (Z.of_nat n)).

Definition ArithF (lnf : float -> float) : Arith float :=
  {| zero := 0%float; add := PrimFloat.add; sub := PrimFloat.sub; mul := PrimFloat.mul;
     div := PrimFloat.div; absn := PrimFloat.abs; ltb := PrimFloat.ltb;
     eps := cxx_EPS_PRECISION_F; eps_lik := cxx_EPS_PRECISION_LIKELIHOOD_F; noise := cxx_EPS_NOISE_F;
     lowest := (-0x1.fffffffffffffp+1023)%float;
     ln := lnf; of_count := float_of_nat |}.
